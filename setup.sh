#!/bin/sh
# Build the framework from files on disk only (offline).  Regenerates the translated models from
# /repo's working tree and compiles the whole Coq development (full .vo).
set -e
cd "$(dirname "$0")"
mkdir -p coq/gen coq/cases evidence replays _cache
# sympy (needed only by the shipped TORPEX example that C12 runs) from the offline wheelhouse into a private directory; absence is tolerated
if [ ! -d _deps/sympy ]; then
  /venv/bin/pip install --quiet --no-index --find-links /opt/veriftools/wheels --target _deps sympy mpmath >/dev/null 2>&1 || true
fi
/venv/bin/python tools/regen_all.py
cd coq
coq_makefile -f _CoqProject -o Makefile >/dev/null 2>&1
timeout 3000 make -j16 -k >/dev/null 2>&1 || true
echo "setup done"
