#!/bin/sh
# Build the framework from files on disk only (offline).  Regenerates the translated models from
# /repo's working tree and compiles the whole Coq development (full .vo).
set -e
cd "$(dirname "$0")"
mkdir -p coq/gen coq/cases evidence replays _cache
/venv/bin/python tools/regen_all.py
cd coq
coq_makefile -f _CoqProject -o Makefile >/dev/null 2>&1
timeout 3000 make -j16 -k >/dev/null 2>&1 || true
echo "setup done"
