import json,glob,sys
for f in sorted(glob.glob(f'/verif/replays/{sys.argv[1]}-*.json')):
    d=json.load(open(f))
    fi=d.get("failing_inputs") or []
    print(d.get("key") or d.get("no_longer_checks"), len(fi))
    for x in fi[:int(sys.argv[2]) if len(sys.argv)>2 else 1]:
        print("     ", {k:(v if len(str(v))<160 else str(v)[:160]) for k,v in x.items()})
