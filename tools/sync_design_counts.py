"""Patch the obligation counts and axiom lists in DESIGN.md section 6 from the evidence files (run after a full quick pass)."""
import json
import os
import re

HERE = os.path.dirname(os.path.dirname(os.path.abspath(__file__)))
p = os.path.join(HERE, "DESIGN.md")
s = open(p).read()
for k in range(1, 21):
    pid = f"C{k:02d}"
    ev = json.load(open(os.path.join(HERE, "evidence", pid + ".json")))
    cov = ev["coverage"]
    ax = [a.split(".")[-1] for a in cov.get("print_assumptions", {}).get("axioms", [])]
    i = s.index(f"### {pid} ")
    j = s.index("*Theorems*", i)
    head = s[i:j]
    head = re.sub(r"\*Obl\.:\* \d+\.", f"*Obl.:* {cov['obligations']}.", head)
    head = re.sub(r"\*Axioms:\* [^\n]*", "*Axioms:* " + (", ".join(ax) + "." if ax else "none (closed under the global context)."), head)
    s = s[:i] + head + s[j:]
    # theorem list from the property file
    src = open(os.path.join(HERE, "coq", "props", pid + ".v")).read()
    names = re.findall(r"^\s*Theorem\s+(C\d\d_[A-Za-z0-9_']+)", src, re.M)
    j = s.index("*Theorems*", i)
    j2 = s.index("\n", j)
    s = s[:j] + f"*Theorems* (`coq/props/{pid}.v`): " + ", ".join(f"`{n}`" for n in names) + "." + s[j2:]
open(p, "w").write(s)
print("synced")
