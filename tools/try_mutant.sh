#!/bin/sh
# usage: try_mutant.sh <patch> <Cnn> [tier]   -- apply to /repo, run the check, always undo
P="$1"; C="$2"; T="${3:-quick}"
cd /repo || exit 9
git apply --check "$P" || { echo "PATCH DOES NOT APPLY"; exit 8; }
git apply "$P"
cd /verif && ./check "$C" --tier "$T"; rc=$?
cd /repo && git checkout -- . 
echo "check rc=$rc"
