#!/bin/sh
# usage: try_mutant.sh <patch> <Cnn> [tier]   -- apply to /repo, run the check, always undo.
# The evidence file of the clean tree is preserved (a mutant run must never end up committed as evidence).
P="$1"; C="$2"; T="${3:-quick}"
cd /repo || exit 9
git apply --check "$P" || { echo "PATCH DOES NOT APPLY"; exit 8; }
cp /verif/evidence/$C.json /tmp/evidence_$C.keep 2>/dev/null
git apply "$P"
cd /verif && ./check "$C" --tier "$T"; rc=$?
cp /verif/evidence/$C.json /tmp/evidence_$C.mutant 2>/dev/null
cd /repo && git checkout -- .
[ -f /tmp/evidence_$C.keep ] && mv /tmp/evidence_$C.keep /verif/evidence/$C.json
echo "check rc=$rc"
