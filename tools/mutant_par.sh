#!/bin/sh
# usage: mutant_par.sh <seed-id | patch-file> <Cnn> [tier]
# Runs ONE seeded change against the check of property Cnn WITHOUT touching /repo or /verif's evidence:
# a scratch git worktree of /repo gets the patch, a scratch copy of /verif runs the check with VERIF_REPO pointing at it.
# Several of these can run at the same time.  Prints "<id> rc=<rc> violations=<n> <keys>"; scratch is removed at the end.
ID="$1"; C="$2"; T="${3:-quick}"
if [ -f "$ID" ]; then P=$(readlink -f "$ID"); ID=$(basename "$(dirname "$P")"); else P=/verif/seeded/$ID/patch.diff; fi
W=/tmp/mut/$ID.$$
rm -rf "$W"; mkdir -p "$W" || exit 9
git -C /repo worktree add --detach "$W/repo" HEAD >/dev/null 2>&1 || { echo "$ID worktree-failed"; exit 9; }
if ! git -C "$W/repo" apply "$P" 2>"$W/apply.err"; then
  echo "$ID DOES-NOT-APPLY $(head -c 200 "$W/apply.err")"
  git -C /repo worktree remove --force "$W/repo"; rm -rf "$W"; exit 8
fi
rsync -a --exclude _cache --exclude replays --exclude evidence --exclude .git --exclude seeded --exclude coq/cases /verif/ "$W/verif/"
mkdir -p "$W/verif/evidence"
cd "$W/verif" && VERIF_REPO="$W/repo" VERIF_JOBS="${VERIF_JOBS:-6}" ./check "$C" --tier "$T" > "$W/out.txt" 2>&1; rc=$?
nv=$(grep -c '^VIOLATION' "$W/out.txt")
keys=$(/venv/bin/python - "$W/verif/replays" "$C" <<'PY'
import json,glob,sys
out=[]
for f in sorted(glob.glob(f'{sys.argv[1]}/{sys.argv[2]}-*.json')):
    d=json.load(open(f))
    k=d.get("key")
    if k: out.append(f"{k} x{len(d.get('failing_inputs') or [])}")
    else: out.append("UNPROVED:"+";".join(f"{b['kind']}:{b['name']}" for b in d.get("no_longer_checks",[]))[:300])
    if k and d.get("broken_obligations"): out.append("(+broken:"+";".join(f"{b['kind']}:{b['name']}" for b in d["broken_obligations"])[:200]+")")
print(" | ".join(out)[:900])
PY
)
echo "$ID rc=$rc violations=$nv $keys"
if [ -d /verif/seeded/$ID ]; then echo "rc=$rc violations=$nv $keys" > /verif/seeded/$ID/recheck.txt; fi
mkdir -p /tmp/mut/logs; cp "$W/out.txt" /tmp/mut/logs/$ID.out 2>/dev/null
git -C /repo worktree remove --force "$W/repo" >/dev/null 2>&1; rm -rf "$W"
exit 0
