#!/bin/sh
# usage: confirm_seed.sh <worktree> <i> <seed-id> <property>
# Confirms in the scratch worktree: demo passes clean, fails with the patch, existing tests pass with the patch.
WT="$1"; I="$2"; ID="$3"; PROP="$4"
OUT=/verif/seeded/$ID
mkdir -p "$OUT"
cd "$WT" || exit 9
git checkout -q -- . 
export PYTHONPATH="$WT" PYTHONHASHSEED=0 MPLBACKEND=Agg
timeout 900 /venv/bin/python demo_$I.py > "$OUT/demo_clean.log" 2>&1; RC_CLEAN=$?
git apply mutation_$I.diff || { echo "patch does not apply" > "$OUT/confirm.txt"; exit 8; }
timeout 900 /venv/bin/python demo_$I.py > "$OUT/demo_mutated.log" 2>&1; RC_MUT=$?
timeout 1500 /venv/bin/python -m pytest -q -p no:cacheprovider --timeout=900 hypnotoad/test_suite > "$OUT/pytest_mutated.log" 2>&1; RC_TEST=$?
git checkout -q -- .
cp mutation_$I.diff "$OUT/patch.diff"; cp demo_$I.py "$OUT/demo.py"; cp meta_$I.json "$OUT/agent_meta.json" 2>/dev/null
tail -c 2000 "$OUT/pytest_mutated.log" > "$OUT/pytest_tail.txt"; rm -f "$OUT/pytest_mutated.log"
tail -c 3000 "$OUT/demo_clean.log" > "$OUT/demo_clean.txt"; tail -c 3000 "$OUT/demo_mutated.log" > "$OUT/demo_mutated.txt"; rm -f "$OUT"/demo_*.log
echo "property=$PROP demo_clean_rc=$RC_CLEAN demo_mutated_rc=$RC_MUT pytest_mutated_rc=$RC_TEST" > "$OUT/confirm.txt"
cat "$OUT/confirm.txt"
