#!/bin/sh
# usage: process_seed.sh <worktree> <i> <seed-id> <Cnn>
# confirm (demo passes clean / fails mutated / the pinned tests pass mutated) in the agent's scratch worktree, then run the property's
# check against the change in a scratch copy (tools/mutant_par.sh).  One summary line is appended to /tmp/mut/new_seeds.txt.
WT="$1"; I="$2"; ID="$3"; C="$4"
/verif/tools/confirm_seed.sh "$WT" "$I" "$ID" "$C" > /tmp/mut/confirm_$ID.out 2>&1
R=$(/verif/tools/mutant_par.sh "$ID" "$C" 2>&1 | tail -1)
echo "$(cat /verif/seeded/$ID/confirm.txt 2>/dev/null) || $R" >> /tmp/mut/new_seeds.txt
