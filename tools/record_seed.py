"""usage: record_seed.py <seed-id> <property> <detected: yes|no> <by-what ...>   -- writes seeded/<id>/meta.json"""
import json
import os
import sys

sid, prop, det = sys.argv[1:4]
by = " ".join(sys.argv[4:])
d = os.path.join("/verif/seeded", sid)
agent = {}
try:
    agent = json.load(open(os.path.join(d, "agent_meta.json")))
except Exception:
    pass
confirm = open(os.path.join(d, "confirm.txt")).read().strip() if os.path.exists(os.path.join(d, "confirm.txt")) else ""
meta = {
    "id": sid, "property": prop,
    "summary": agent.get("summary", ""), "needs_to_manifest": agent.get("needs", ""),
    "confirmed_by_me": confirm,
    "what_i_ran": "tools/confirm_seed.sh in a scratch worktree (demo on clean tree, demo with patch, full pytest with patch); "
                  "then tools/try_mutant.sh <patch> " + prop + " (git apply to /repo, ./check, git checkout -- .)",
    "detected_by_check": det == "yes", "detected_how": by,
}
json.dump(meta, open(os.path.join(d, "meta.json"), "w"), indent=1)
print(json.dumps(meta)[:300])
