#!/bin/sh
# usage: verify_seeds.sh [ids...]   -- re-apply every seeded change to /repo (one at a time), run its property's quick check, restore the tree.
# Writes seeded/<id>/recheck.txt (rc and the VIOLATION keys) and a summary to stdout.  Long: the corpus is rebuilt for every mutant.
cd /verif || exit 9
ids="$*"
[ -z "$ids" ] && ids=$(ls seeded | sort)
for id in $ids; do
  prop=$(echo "$id" | cut -d- -f1)
  p=/verif/seeded/$id/patch.diff
  if ! git -C /repo apply --check "$p" 2>/dev/null; then echo "$id DOES-NOT-APPLY"; echo "does not apply" > seeded/$id/recheck.txt; continue; fi
  tools/try_mutant.sh "$p" "$prop" > /tmp/recheck_$id.out 2>&1
  rc=$(grep -o 'check rc=[0-9]*' /tmp/recheck_$id.out | tail -1)
  nv=$(grep -c '^VIOLATION' /tmp/recheck_$id.out)
  keys=$(/venv/bin/python tools/show_replays.py "$prop" 2>/dev/null | grep -v '^   ' | cut -c1-90 | head -4 | tr '\n' ';')
  echo "$id $rc violations=$nv $keys"
  echo "$rc violations=$nv $keys" > seeded/$id/recheck.txt
  git -C /repo status --short | grep -v egg-info | head -2
done
