"""Writes /verif/MANIFEST.json from the table below (kept in one place so it stays valid)."""
import json
import os

HERE = os.path.dirname(os.path.dirname(os.path.abspath(__file__)))

CLAIMED = {
    "C02": dict(
        text="Coq theorems over R about the calcMetric/geometry2/calcBeta formulas REGENERATED from mesh.py on every run "
             "(matrix inverse 9+9 entries, J=hy/Bp, J^2 det=1, sign J, Jcheck=J, closed forms, y-z coupling, displacement "
             "scalar products); translation validated against the real calcMetric on binary64; the same relations evaluated "
             "on the implementation's outputs and on real grid files as the failing-input search. The closed forms (g11, g22, g33, g_22, |g23|, |g_23|, g_11, g_33 in the R, Bp, Bt, hy of the same grid) are evaluated on every orthogonal corpus grid and on a member with cap_Bp_ylow_xpoint.",
        note="Trusted: Coq kernel; Reals axioms + classic + funext (Print Assumptions); the ast translator (validated each run); "
             "hy, beta, zShift values are free variables here (C05/C06); linearised cell in the displacement statements; "
             "binary64 rounding not modelled.",
        technique="Coq proof (field/nsatz over R) on a translated model + translation validation",
        design="6/C02"),
    "C17": dict(
        text="Coq theorems (axiom-free) about a hand model of f2s/ChunkOutput/next_value/_geqdsk.write layout: the reader's regular "
             "expression recovers every value of any list of blocks of any length and chunk phase, the whole file body token stream equals "
             "the reader's expected sequence, abutting e16.9 fields are read back. The model is compared character-for-character with the "
             "real writer and value-for-value with the real reader on every run; write->read and read_geqdsk's axis mapping are checked on the implementation. "
             "The HEADER line is modelled too (format string; str.split and int of the reader): for any label / date / shot / time fields and nx, ny < 1000 the reader recovers nx and ny (C17_header_roundtrip), compared with the writer's first line on every run.",
        note="Trusted: Coq kernel; printf %1.9E rounding and Python float()/int() parsing (checked against the decimal module each run); "
             "the writer's pre-processing of label / shot / time is repeated in the harness; guard nx,ny<=999 (proved necessary: the fields abut from 1000 on), 2-digit exponents, <=9999 boundary points.",
        technique="Coq proof (induction over token lists) on a hand model + correspondence by vm_compute",
        design="6/C17"),
    "C20": dict(
        text="Coq theorems (axiom-free, exact rationals) about a hand model mirroring find_intersections' four slope-class branches: every "
             "reported point lies on a wall edge and on the segment for any polyline (soundness, all branches); COMPLETENESS in all four branches and "
             "both orientations of segment and edge: a point where the segment meets an edge it is `separated` from (non-zero lengths; same-class slopes "
             "differing by the code's own 1e-15 filter) is reported, so for any polyline the reported points are EXACTLY the crossings; reversed segments / "
             "reversed edges give the same hits and misses; a crossing through a shared vertex is reported by both edges and merged into one point by "
             "wallIntersection for any positive tolerance; the tolerance only widens acceptance; closest_approach returns the minimum of the distance "
             "over the whole segment and attains it. The model is evaluated by vm_compute against the float implementation (find_intersections, "
             "wallIntersection, polygons.area/clockwise/intersect, closest_approach) on lattice and random dyadic cases each run. wallIntersection is exercised through a real minimal Equilibrium whose constructor closes the wall; polygons.intersect is compared for all four combinations of closed flags (finding F26, fixed) and has spec theorems: its segment test reports exactly the PROPER crossings of segments that are not nearly parallel (sound and complete), is symmetric, and the polygon test is 'some edge crosses some edge', symmetric in its arguments. Walls with a repeated vertex (zero-length edges) are part of the correspondence.",
        note="Trusted: Coq kernel; the correspondence harness (hand model, not translated); polygons.area has no spec theorem beyond the exact model it is compared with (orientation under reversal is C11's); cases whose exact outcome depends on the tolerance are counted as degenerate and not compared.",
        technique="Coq proof (field/lra over Q) on a hand model + differential correspondence",
        design="6/C20"),
    "C13": dict(
        text="Coq theorems (axiom-free) about a labelled-transition-system model of ParallelMap.__call__: for every number of workers, every "
             "number of tasks and EVERY schedule, results are never stored in a wrong position, a finished call returns the serial list or raises "
             "the serial exception (lowest failing index), a step is always enabled while the caller waits and every step decreases a measure "
             "(no blocking). Completion orders and failing positions are enumerated on the real ParallelMap with gate files; a grid built with "
             "number_of_processors=2 is compared bit for bit with the serial grid. The structural facts the model rests on (worker catches and always puts one result per task, tasks enqueued with their index, n results taken and stored by index in a pre-allocated list, first error in index order re-raised afterwards, the exception wrapper tests with the queue's own serializer) are REGENERATED from parallel_map.py and are premises proved by reflexivity; a transport model shows that every exception report is then delivered (and which are lost by a laxer test). Scenarios include exceptions the standard pickle cannot carry (local class, unpicklable attribute, two-argument constructor) and the re-used object; a non-orthogonal double null without guard cells (contours extended inside the workers) is compared for np=1/2. A task raising func_timeout.FunctionTimedOut (refine timeout; not an Exception subclass) blocked the caller forever: finding F28, fixed; several ParallelMap objects for successive equilibria (address re-use, in-place change) must each see their own equilibrium.",
        note="Trusted: Coq kernel; the LTS abstraction (atomic steps, anonymous workers, FIFO lossless queues, faithful pickling); OS scheduling "
             "outside the model; the scenario driver.",
        technique="Coq proof (inductive invariant over all schedules) on a hand LTS model + schedule enumeration on the implementation",
        design="6/C13"),
    "C08": dict(
        text="Coq theorems (axiom-free): for LSN, USN, CDN, LDN, UDN and CDN/start_at_upper_outer and EVERY vector of per-region sizes, the y-adjacency "
             "induced by the connection tables and block layout equals BOUT++'s documented reading of the integers computed by writeGridfile's ladder; "
             "index ordering for double nulls; tiling (every index in exactly one block, any sizes); symmetric injective tables. The ladder and the tables are "
             "REGENERATED from mesh.py/tokamak.py each run and validated against the executed source; real equilibria + BoutMesh index code (makeRegions stubbed) "
             "and corpus grid files (corner coordinates, theta, chi, y-coord) are checked with the same oracle. Known findings: single-null index ordering (F3), "
             "start_at_upper_outer with disconnected double null (F14). The isolated X-point topology (TORPEX, four legs on the wall; table REGENERATED from torpex.py) has its own theorem: adjacency = BOUT++'s reading and ordered integers for every vector of leg sizes, and the executed ladder is run on random 4-leg size vectors against the extracted table. The oracle on real equilibria no longer depends on the table translation succeeding. A grid regridded by redistributePoints and written without an explicit calculateRZ is part of the file oracle; the X-point pins of real equilibria of every topology must lie on the flux surface of their radial boundary.",
        note="Trusted: Coq kernel; TopoLib.bout_up/ordered = hand-written reading of BOUT++'s manual (the spec); ast translator (validated); circular/TORPEX topologies "
             "covered by the grid-file oracle only (no table theorem); shared x-edge coincidence is C04's tolerance statement.",
        technique="Coq proof (case analysis + lia over all size vectors) on a translated model + translation validation + grid-file oracle",
        design="6/C08"),
    "C09": dict(
        text="Coq theorems over R about the spacing functions and branch guards REGENERATED from getSmoothMonotonicGridFunc: exact end values (all closed-form "
             "branches; erf branches under brentq's post-condition), prescribed end gradients with vanishing second derivative (Coquelicot), strict monotonicity of the "
             "cubic branches inside the code's own guard including its 1e-8 slack for both orderings, sign of the spacing in the erf branches, nesting under doubling of n, "
             "coincidence with the linear function at the switch. Translation validated against the real function; the same properties, segment sharing, limits and dx "
             "are checked on the implementation for every topology (incl. a perturbed connected double null) and on corpus grids. Continuity in the parameters is swept: geometric sweeps of the end-gradient ratio 0.3..6 (step 0.4 %) through every switch between closed forms, second differences of all faces below 2e-3 of the psi range (observed 2e-5). On real equilibria at 32 times the radial resolution the one-sided gradients of the spacing function agree across every separatrix (incl. both sides of the inter-separatrix segment). Equilibrium.make1dGrid is modelled (theories/Model_Grid1d.v, PrimFloat instance run bit for bit against the real method incl. refusals): 2n+1 values whose even entries ARE the face values, guard sound in any arithmetic, strictly monotone face values (either direction) always accepted over the reals.",
        note="Trusted: Coq kernel + Reals/Coquelicot axioms; erf contract (erf 0 = 0, odd, derivative) and brentq post-condition as Section hypotheses; translator; the sici "
             "(two-gradient decreasing) branch is oracle-only; trig-branch monotonicity proved only in the interior of its guard; binary64 plateaus of erf for extreme ratios are "
             "refused loudly by make1dGrid and only counted.",
        technique="Coq proof (field/nra/Coquelicot auto_derive) on a translated model + translation validation + implementation oracle",
        design="6/C09"),
    "C01": dict(
        text="Coq theorems (axiom-free): followPerpendicular's split/reverse recursion returns the points in the order of psivals for EVERY strictly monotone "
             "list and every psi0; with fillRZ's slices (regenerated from the source as fingerprints) every entry of the four staggered arrays is point ps+2j of "
             "contour cs+2i for ANY sizes, hence lies on the flux surface of its radial index within the refine contract and psi is constant along y within 2 tol. "
             "The recursion model is run against the real followPerpendicular on a closed-form curved field; the psi residual at all four locations, the pinned "
             "corners and the index map are checked on every corpus grid (incl. non-orthogonal with 2 processes, a psi gauge with an exact-zero limit). "
             "The REFINEMENT is modelled too (Model_Refine.v over an arithmetic signature): for ANY flux function a point returned by refinePointNewton has "
             "|psi - psival| < atol, or < atol*|psival| when accepted unchanged; the loop ends after at most 12 iterations in any arithmetic (incl. nan/inf); "
             "refinePoint returns the first non-raising method's result and raises exactly when all raise; getRefined with tolerance-respecting methods gives "
             "a contour of the same length every point of which is within the tolerance; with the DEFAULT methods the only untested path is the raw "
             "'integrate' fallback (identified by theorem, monitored); skip_endpoints keeps exactly the two end points. The PrimFloat instance of the same "
             "model is run BIT FOR BIT against the real refinePointNewton / refinePoint / getRefined on polynomial flux functions (converging, touching "
             "= 6-16 iterations around the limit, diverging, early-exit cases; scripted integrate / line outcomes). A member with different inboard / outboard SOL limits (udn_solin) is part of the residual oracle. FineContour.refine (same logic on the positions array) is run bit for bit against get_refined as well.",
        note="Trusted: Coq kernel (+ Reals axioms for the real-number instance of the refinement theorems); hand models + fingerprints + bit-exact correspondence; "
             "solve_ivp ('integrate') and brentq ('line') are parameters of the model: contracts monitored on real grids (psi residual of every point), not proved; "
             "convergence of the iteration is not claimed; corpus = analytic Gaussian families + circular (no TORPEX X-point case: needs sympy).",
        category="proof", technique="Coq proof (list induction; generic-arithmetic loop invariant) on hand models + source fingerprints + bit-exact PrimFloat correspondence + grid oracle", design="6/C01"),
    "C04": dict(
        text="Coq theorems (axiom-free): for every strictly monotone psi_vals, inside or outside the separatrix, the points MeshRegion computes for one skeleton "
             "point are the flow points in the order of psi_vals, and after transposition and slicing all points sharing a poloidal index lie on ONE integral "
             "curve through skeleton point ps+2j (any sizes). Checked on the implementation: followPerpendicular vs a closed-form curved flow at rtol 1e-10; "
             "equilibrium.f_R/f_Z/Bp vs an independent spline in boxes of several aspect ratios; every orthogonal corpus grid vs an independent DOP853 "
             "re-integration (threshold 2e-5 m, observed <= 5e-7 m); g12=g13=g_12=g_13=0. The radial segments of one equilibrium region continue ONE radial grid line across the separatrix: their x-faces and corners on the shared flux surface are compared on every corpus grid (observed <= 6e-8 m).",
        note="Trusted: Coq kernel; hand model + fingerprints; the ODE-solver contract is monitored (independent re-integration), the second-order alignment "
             "statement is a consequence observed, not proved; dct-interpolated grids are skipped by the re-integration.",
        category="proof", technique="Coq proof on a hand model + independent re-integration oracle", design="6/C04"),
    "C05": dict(
        text="Coq theorems (axiom-free): calcHy's stencils pick d[2j+2]-d[2j] (cell) and d[2j+3]-d[2j+1] (interior face) for contours of ANY length, strictly "
             "increasing distance gives hy > 0, the hand-over along a chain is continuous exactly when each later region's list starts at 0, and for every tokamak "
             "table the y-groups (loop variant REGENERATED from Mesh.makeRegions) partition the regions, are linked by `upper`, and start at the lower target or at the "
             "first core region. On every corpus grid: stencils vs the implementation's own distance lists (incl. joins and boundaries), distances vs independent "
             "three-point circle arcs, monotonicity, origin, continuity, total = circumference, y-groups vs the model. "
             "THE DISTANCE ITSELF IS MODELLED (theories/Model_Quadrature.v, over the arithmetic signature): FineContour.calcDistance (numpy cumsum of segment lengths), the cache update of "
             "FineContour.reverse, closest_approach, FineContour.getDistance (argmin, neighbour choice, weighting), FineContour.interpFunction (scipy interp1d with extrapolation: searchsorted, clip, chord). Theorems over R: calcDistance is the polygon length (0 at the first point, each "
             "increment the segment length, any number of points), at least the chord between any two points, strictly increasing iff no consecutive points coincide, the TRUE arc length on a "
             "straight contour however the points are spaced; reverse's cached distance equals recomputation on the reversed points; getDistance lies between the distances of two ADJACENT fine "
             "points and is exact at a fine point; a point placed by interpFunction at distance s lies ON the polygon at the fraction where the polygon length is s, and getDistance measures exactly s for it when it selects the two ends of that segment (placing and measuring are inverse). FineContour.equaliseSpacing is modelled with refine as a parameter (theories/Model_Equalise.v): in ANY arithmetic the iteration stops after at most finecontour_maxits rounds, stops without the warning only when the spacing passes the tolerance test, and never moves the points at startInd / endInd; over the reals numpy's pairwise summation is the sum and an accepted contour has every spacing within finecontour_atol of the mean spacing. The PrimFloat instance of the same definitions is run bit for bit against the real methods (320 / 3000 cases per run; equaliseSpacing with refine stubbed to the identity, contours of 3 to 146 points: numpy's pairwise summation inside numpy.mean is modelled in all three regimes).",
        note="Trusted: Coq kernel + Reals axioms (distance theorems); fingerprints + hand models; the arc-length contract of FineContour (polygon vs true arc between fine points) is monitored (3% threshold, observed <= 1.6%), X-point half cells excluded; "
             "quadratic convergence in finecontour_Nfine is not claimed by the quick tier.",
        technique="Coq proof (list lemmas, finite tables; reals for the distance kernels) on hand models + bit-exact PrimFloat correspondence + source fingerprints + grid oracle", design="6/C05"),
    "C06": dict(
        text="Coq theorems: dphidy (REGENERATED from geometry2) = hy*Bt/(Bp*R) = bpsign * d(zShift)/dy; continuity of the hand-over at every join when each region's "
             "increments start at 0; for every tokamak table the periodic chain consists of core regions only (jump location). On every corpus grid: dphidy and "
             "ShiftTorsion formulas exactly at every location, zShift increments vs Simpson's rule with the grid's own arc lengths, zero at the chain start, continuity at "
             "joins, ShiftAngle = once round all regions of the periodic chain, ShiftAngle finite exactly on closed surfaces. A corpus member with cap_Bp_ylow_xpoint=True and Bp > 0 (C06 only) checks that dphidy is computed from the Bpxy that is written. "
             "THE QUADRATURE ITSELF IS MODELLED (theories/Model_Quadrature.v): the integrand Bt/(R Bp), scipy's cumulative_trapezoid, the shift to the fine contour's startInd, scipy interp1d "
             "(= numpy.interp with bounds_error), PsiContour.get_distance's monotonicity guard, accumulation onto the value handed over, the hand-over along a y-group and ShiftAngle. Theorems over R: "
             "the integral grows over each fine segment by the trapezoid and is 0 at startInd; monotone for a field of one sign; interpolation returns node values at nodes and reproduces affine data; "
             "for a UNIFORM pitch zShift is EXACTLY handed-over value + pitch * poloidal distance for every discretisation of the fine contour and every position of the contour's points; for ANY integrands "
             "and any number of regions each later region starts from the last y-face value of the region before it. The PrimFloat instance is run bit for bit against the real calcZShift on stub regions "
             "(whole pipeline incl. calcDistance / getDistance; 120 / 1500 chains per run, refusals included). ShiftTorsion = DDX(dphidy): MeshRegion.DDX / DDY are modelled (theories/Model_Stencil.v: cell values, interior / boundary / shared faces), exact on affine data for regions of any size, single valued at faces shared by two regions, run bit for bit against the real methods on stub regions with and without neighbours. zShift is monotone along the contour for a field of one sign.",
        note="Trusted: Coq kernel (+ Reals axioms for the dphidy identity and the quadrature theorems); the stub region of the correspondence (real MeshRegion.calcZShift, PsiContour.get_distance, FineContour methods; stub equilibrium functions); quadrature accuracy monitored (35% threshold away from X-point cells: "
             "catches wrong integrands/factors, not small errors); ShiftAngle = 2*pi*q for the circular case is not proved.",
        technique="Coq proof on translated formula + hand chain and quadrature models + bit-exact PrimFloat correspondence + grid oracle", design="6/C06"),
    "C07": dict(
        text="Coq theorems over R (Coquelicot) about formulas REGENERATED from calc_curvature and the Equilibrium helper chain: the three closures are the cylindrical "
             "components of curl(B/B^2) of the axisymmetric field for any psi and fpol (is_derive statements under the interpolant contract); grad(x) = grad(psi); the vector "
             "dotted for the y-component is the grad(y) DUAL to the grid (perpendicular to e_x, grad(y).e_y = 1) with tan(beta) as calcBeta computes it, orthogonal and "
             "non-orthogonal branch, both signs of Bp. On every spline-interpolated corpus grid curl_bOverB_x/y/z and bxcv* are compared with an independent evaluation "
             "(own splines, Richardson differences, grad(y) from the grid's displacements); the two curvature_type formulations are compared on lsn / lsn_neg. The ingredients of the curvature (second derivatives of psi, dB*/d*, fpolprime, both interpolation methods, dR != dZ) are checked against Richardson differences in this check too, so that a wrong ingredient is reported with a concrete input. The grid oracle also covers circular grids (analytic field from its definition alone; finding F31: dq/dr of the circular equilibrium, fixed), and the circular profile functions are modelled with exponent ranges regenerated from circular.py: dq/dr is the derivative of q for any number of coefficients, d2psi/dr2 the derivative of dpsi/dr for any q.",
        note="Trusted: Coq kernel + Reals/Coquelicot axioms; interpolant contract (FITPACK derivative evaluators); translator (validated in C18's run); agreement of the x-y "
             "formulation is checked by normalised correlation at one resolution (sign/scale), not by a convergence study; dct-interpolated grids skipped by the grid oracle.",
        technique="Coq proof (Coquelicot auto_derive + field) on translated formulas + independent grid oracle", design="6/C07"),
    "C18": dict(
        text="Coq theorems over R (Coquelicot): for a DCT coefficient matrix of ANY size each derivative evaluator (summands REGENERATED from dct_interpolation.py) is the "
             "partial derivative of the __call__ evaluator and the mixed evaluator is both d/dZ of ddR and d/dR of ddZ; every field helper (Bp_R ... dBdZ, REGENERATED from "
             "equilibrium.py) is the partial derivative of its primitive under the interpolant contract; div B = 0; f.grad(psi) = 1; TokamakEquilibrium.fpolprime is the "
             "derivative of fpol for either direction of psi1D. On real TokamakEquilibrium objects (both methods, dR != dZ, both psi1D directions, non-constant fpol): every "
             "exposed function vs Richardson differences of its primitive, div B, node reproduction, scalar/array/MultiLocationArray arguments; translation validation. Field functions are called with MultiLocationArray arguments in which all or only some locations are set (10 subsets): every location that is set gets the function's value.",
        note="Trusted: Coq kernel + Reals/Coquelicot axioms; FITPACK's dx/dy evaluators and scipy's dct are contracts monitored numerically; interpolation error vs the analytic "
             "function is observed only.",
        technique="Coq proof (Coquelicot) on translated formulas + finite-difference oracle on the implementation", design="6/C18"),
    "C03": dict(
        text="Coq theorems over R about formulas REGENERATED from MeshRegion.geometry1 and tokamak.py: Brxy = psi_Z/R, Bzxy = -psi_R/R, |Bpxy|^2 = |grad psi|^2/R^2; the sign "
             "decision (Bpxy = s*magnitude, s = +-1 with the sign of the sampled Bp.dy, equal to bpsign, geometry1 raises exactly on a contradiction); Btxy*R = f_spl(psi*f_psi_sign), "
             "Bxy^2 = Bpxy^2+Btxy^2; for ANY list of legs (connected or disconnected) each leg's pressure closure evaluates the profile at psi outside its OWN separatrix and at the mirror "
             "image inside the private region (uses how the source binds leg_psi: hand model of Python closure binding); the extrapolated profile is continuous at psi1D[-1] and continues "
             "its gradient.  Oracles: real TokamakEquilibrium objects of 6-8 analytic families x both signs of psi x option variants (extrapolate_profiles, reverse_current, reverse_Bt, "
             "psi_divide_twopi, all together): psi, fpol, pressure, every region's pressure closure across all separatrices, psi_axis, psi_bdry, Bt_axis; every point of every corpus grid "
             "(incl. option, extrapolation, dct and regridded members) against an independently rebuilt interpolant; sign of Bpxy vs Bp.dy at every cell. Profiles are also handed over listed from the edge to the axis.",
        note="Trusted: Coq kernel + Reals axioms; FITPACK interpolants (rebuilt independently from the inputs by the oracle); translator translate/geom1.py; the hand model of closure "
             "binding.  The accuracy of the O-/X-point positions is C19's matter: scalars are compared within the bound implied by xpoint_refine_atol.",
        technique="Coq proof on translated formulas + hand model of closure binding + independent-interpolant oracle on real equilibria and grids", design="6/C03"),
    "C15": dict(
        text="Coq state-machine model of the interactive path (build, redistributePoints(s), calculateRZ(), geometry()) whose branches are selected by facts REGENERATED from the "
             "source (options re-created from scratch by the Equilibrium's factory, every region and every contour regridded unconditionally from the build-time sfunc_orthogonal_list, "
             "R-Z arrays refreshed, geometry recomputes everything and is re-entrant).  Theorem by induction over histories of ANY length: no call raises and a final geometry() shows "
             "exactly what a mesh built from scratch with the last settings shows.  Second theorem: for every history of PsiContour method calls (effect table regenerated from the class) "
             "the cached distance list / FineContour are never stale.  Correspondence: real non-orthogonal BoutMesh objects driven through histories (GUI flow, partial settings dicts, "
             "returning to earlier settings, geometry() twice, no calculateRZ, non-nonorthogonal keys mixed in; thorough: random histories incl. double null) and compared field by field "
             "with cached fresh builds. The build-time skeleton is modelled as a function of the options: a regenerated flag states that getSfuncFixedSpacing grids the separatrix with the orthogonal spacing parameters in every non-orthogonal method (false on the pinned tree for 'poloidal_orthogonal_combined': finding F24, fixed); a history with that method is part of the oracle. A history with a call that is refused part-way followed by a return to the earlier settings is part of the oracle.",
        note="Trusted: Coq kernel (no axioms); the numerical kernels (OptionsFactory.create, regrid+refine, derive) are Section variables whose functional dependence is the contract "
             "monitored by the fresh-build comparison at 5e-7 m; translate/regrid.py.",
        technique="Coq proof by induction over operation histories on a hand model selected by regenerated source facts + history correspondence with fresh builds", design="6/C15"),
    "C16": dict(
        text="Coq theorems over R / Z about REGENERATED definitions: the three option blocks of TokamakEquilibrium.__init__ are exactly the direct transformations psi -> s psi/k, "
             "fpol -> t fpol (any combination) and the gfile checks compare like with like; at fixed positions Brxy, Bzxy, the sampled dot product scale with psi, |Bpxy| with |c|, bpsign and "
             "the accepted sign of Bpxy reverse exactly for c = -1 (same raise cases); all 26 metric components of both calcMetric branches keep their magnitude under current reversal and "
             "under Bt reversal (parity lemma per component); the sign decision is invariant under reflection with y reversed; the connection tables of upper single / double null are the "
             "reflected tables of the lower ones, the connected double null is self-mirror (vm_compute on the generated finite tables); single-null branch-cut integers reflect.  Oracles on "
             "pairs of complete grids: mirror pairs region by region (R, -Z, bpsign, 30 field magnitudes at 1e-8 m / 2e-6), reversal pairs (every output field up to the expected sign), "
             "options vs directly transformed inputs (identical). Reflection exchanges the two ends of every region: the four blending-range expressions of combineSfuncs (REGENERATED) are proved symmetric under lower <-> upper with *_inner inside and *_outer outside the separatrix, and the metamorphic range-parameter oracle of C10 runs here on lsn and usn. A non-orthogonal single-null mirror pair and an up-down symmetric steep-wall non-orthogonal double null compared with itself exercise the two near-identical wall-point blocks against each other. The RUNNING fields are covered too: theorems C16_distance_under_y_reversal and C16_integral_under_y_reversal (poloidal distance and the zShift trapezoid integral of a contour traversed the other way are total minus reversed; generic lemma on accumulated weights) and, on every mirror pair, poloidal_distance and zShift plus their reversed mirror values are constant along each flux surface (observed 2e-9).",
        note="Trusted: Coq kernel + Reals axioms; translators; that contour following is deterministic in its inputs is what the pair comparison monitors.  The radial grid line through "
             "an X-point is compared at 5e-4 m (each region starts slightly off the X-point and the join takes the upper region's values: documented in fillRZ).",
        technique="Coq proofs on translated formulas and generated finite tables + pairwise grid oracle", design="6/C16"),
    "C10": dict(
        text="Coq theorems over R (Coquelicot) about closed forms REGENERATED by path-directed symbolic execution of getSqrtPoloidalDistanceFunc (all branches / pieces), "
             "getMonotonicPoloidalDistanceFunc (cubic and logarithmic branch) and getLinearPoloidalDistanceFunc, for ALL lengths, point counts, N_norm and end parameters: s(0)=0, s(N)=L "
             "(logarithmic branch: misses L by exactly the brentq residual); requested end gradients per normalised index (sqrt form: s = 2a sqrt(iN) + part with gradient b); the monotonic forms "
             "have a positive gradient on all of [0,N] in the case the code selects them for; the continuations into the boundary guard cells join with equal value, gradient AND curvature and "
             "are strictly increasing; f(L, kN, kN_norm, k i) = f(L, N, N_norm, i) (every coarse face is a face of the refined grid); combineSfuncs' normalised weights form a convex "
             "combination, exact where the blended functions agree; a list passing the distance guard is strictly increasing.  Oracles: the real constructors on a real EquilibriumRegion with "
             "random parameters over all region kinds (end values, guard-cell continuation, end gradients, doubled resolution, translation validation at 1e-11 L), _checkMonotonic on crafted "
             "functions; corpus grids: poloidal order, radial segments share the separatrix contour, end points under redistribution, ny doubling. The normalisation N_norm = N_norm_prefactor*ny_total is REGENERATED from all four sites (getSfuncFixedSpacing sqrt / monotonic, combineSfuncs, getSfuncFixedPerpSpacing) and proved identical; region-level oracles on real regions with N_norm_prefactor 0.5/1/2: wrapper = constructor with that N_norm, end gradients of fixed / perpendicular / combined functions scale exactly like 1/prefactor; the blending ranges of combineSfuncs depend on the *_range_inner options only inside, *_range_outer only outside the separatrix, at both ends of a region. "
             "Spacing by perpendicular distance: FineContour.interpSSperp is modelled (theories/Model_Sperp.v: projection on the unit perpendicular, the two loops that reflect the rest of the list whenever an increment is negative, total, linear interpolation s(s_perp) with extrapolation) and run bit for bit (PrimFloat) against the real method; theorems: the loop yields the running sums of the ABSOLUTE increments for lists of any length, every increment keeps its size, and after both loops the perpendicular distance is non-decreasing along the whole contour and unchanged at startInd, whatever the shape of the contour and whichever way the vector points; where it is strictly increasing the spacing function s(s_perp) is end-point exact and non-decreasing.",
        note="Trusted: Coq kernel + Reals/Coquelicot axioms; translator translate/spacing.py (validated each run); brentq (contract); interior monotonicity of the sqrt form is a theorem under an explicit sufficient condition only "
             "(C10_sqrt_form_decomposition / C10_sqrt_form_increases / C10_sqrt_form_increases_into_guard_cells: sqrt terms + the monotonic cubic for reduced length and end gradients; false for some parameters outside it) and is otherwise left to the run-time guards, whose call sites are fingerprinted and which are exercised on the real object; the hand model of interpSSperp (bit-exact correspondence); equal consecutive perpendicular distances (a zero increment) make s(s_perp) divide by zero: not excluded by the code, not reached on the corpus.",
        technique="Coq proof (Coquelicot) on translated closed forms + differential oracle on the real constructors + grid oracle", design="6/C10"),
    "C19": dict(
        text="Coq theorems: (R, Coquelicot) the matrix find_critical inverts is the Jacobian of the residual (Br, Bz) (REGENERATED expressions) and an accepted point has |grad psi|^2 < "
             "atol R^2; for ANY quadratic flux function on ANY uniform grid (critical point at arbitrary sub-grid position) the REGENERATED finite-difference discriminant equals the Hessian "
             "determinant.  (Q, computable hand model of the post-processing, loop / thresholds / sort keys checked by exact-form translator checks) remove_dup returns every candidate exactly "
             "once (separation, coverage, no invention); O-points are a sorted permutation by distance from the domain centre (primary = nearest); X-points are the filtered distinct candidates "
             "sorted by (psi - psi_axis)^2; makeRegions keeps exactly the X-points below psinorm_sol and inside the wall in order; 1 -> single null, 2 -> double null, else refused.  "
             "Correspondence: a Python twin of the candidate search evaluating the translated Newton step feeds the candidate lists to the model (vm_compute); result = find_critical's.  Oracle: "
             "random sums of Gaussians (tilted, sub-grid positions, 4 resolutions, both signs) against an independent multi-start Newton on the analytic function; TokamakEquilibrium objects "
             "with psinorm_sol either side of the secondary X-point and a wall that excludes an X-point. Cases include hills displaced diagonally (saddles tilted 45 degrees and asymmetric: psi_RR and psi_ZZ of the same sign, only the mixed derivative decides); findLegs is run on straight-line separatrices in a wall with an inclined side (closed-form strike points, legs swept to one side whose order at the wall is the reverse of their order at the X-point): 'inner' is the leg with the smaller strike-point radius. Analytic sheared double nulls (both X-points at the same major radius, sub-grid positions: duplicate candidates with another point in between) check 'exactly once'; the duplicate-removal loop is fingerprinted.",
        note="Trusted: Coq kernel (+ Reals axioms for the first two theorems); FITPACK evaluators; translator.  Completeness of the candidate search (grid minima of Bp^2 + Newton "
             "convergence) is observed on the sampled functions, not proved; the monotonicity filter is modelled (keep_xpoint) and compared, its geometric meaning is not a theorem.",
        technique="Coq proofs on translated expressions and a computable hand model + vm_compute correspondence + independent-solver oracle", design="6/C19"),
    "C14": dict(
        text="PARTIAL.  Proved (Coq, on the REGENERATED option pre-processing and the regenerated fact which parameter arrays are updated in place): for every combination of the sign / "
             "unit options the constructor leaves the caller's arrays as they were, and any number of constructions from the same arrays see the same inputs; the in-place form is refuted "
             "with a witness (finding F5).  Observed on the real code (not provable in a model: floating-point determinism of SciPy / netCDF / process scheduling): the real constructor on "
             "caller-owned arrays (arrays, wall list, three constructions); command-line round trips geqdsk -> hypnotoad-geqdsk (twice, two processes) -> hypnotoad-recreate-inputs -> "
             "hypnotoad-geqdsk for option sets incl. sign options, defaults that are expressions, an explicit None: every numeric variable bit-identical, embedded geqdsk byte-exact, embedded "
             "YAML safe_load-able and complete against the three option factories, only grid_id / versions / file name differ; one interpreter building X, Y, Z, X. The round trip is also started from the Python API (options dict in memory with an explicit None) and regenerated through the command line; the one-interpreter history is W, X, Y, Z, X, W with W leaving spacing lengths to defaults that are expressions (non-orthogonal), comparing arrays AND evaluated option sets. The caller's settings dictionaries (equilibrium and mesh) and a float pressure array with extrapolate_profiles are part of the side-effect oracle.",
        note="level proof for the side-effect / history part only; determinism and the provenance round trip are correspondence-style observations on the real entry points.  Trusted: Coq "
             "kernel + Reals axioms, translate/options.py, the hand model of numpy's in-place semantics.",
        technique="Coq proof on regenerated option pre-processing + end-to-end round trips through the real command-line entry points", design="6/C14", partial=True),
    "C11": dict(
        text="Coq theorems (exact rationals, computable hand model on top of C20's model of find_intersections / area / clockwise; the corresponding source statements are checked for exact "
             "form on every run): for EVERY input polygon the signed area changes sign under reversal, the stored wall is not clockwise, has exactly the input vertices, and the closed wall "
             "starts and ends with the same vertex; penalty_mask is 0 iff both y-faces are inside, 1 iff both are outside, otherwise the fraction of the chord from the outside face to the "
             "reported crossing, which (C20 soundness) lies on the chord and on a wall edge, so the fraction is in [0,1] and the two ends' fractions add to 1.  Correspondence: the model "
             "evaluated by vm_compute on the walls and cells of real grids and of stub regions (700+ cells).  Oracles: every cell of every corpus grid against an independent ray-casting "
             "evaluation; the real calcPenaltyMask / wall normalisation on stub regions with spiky, U-shaped (lines from the reference point cross the wall twice) and off-axis walls in both "
             "orientations; target points on the wall and on their flux surface, cell centres inside / guard cells outside (non-orthogonal), the wall written to the file. A non-orthogonal member with a steeply inclined floor and a fine target spacing (contours must be extended to reach the wall, C11 only) is part of the target-on-wall oracle. The index bookkeeping of PsiContour (insert / temporaryExtend / reverse with Python's negative indices) is modelled (Model_Contour.v): for EVERY history of inserts inside the list and guard-cell extensions startInd and endInd keep designating the same points (the wall point stays the target), reverse exchanges them, a negative endInd survives extensions; the model is run against the real class on random histories. The orientation test is characterised: the signed area is translation invariant for polygons of any size, and for a triangle clockwise means the third vertex lies to the right of the directed line through the first two.",
        note="Trusted: Coq kernel (no axioms); the even-odd parity test is taken as the definition of inside (Jordan curve theorem not proved) under the contract that the reference point is "
             "inside the wall; target points are compared at a tolerance second order in the FineContour spacing (2.6e-6 m at Nfine = 100).",
        technique="Coq proofs on a computable exact-rational hand model + vm_compute correspondence + independent ray-casting oracle on grids and stub regions", design="6/C11"),
    "C12": dict(
        text="PARTIAL.  Proved (Coq; lists REGENERATED from doc/grid-file.rst, mesh.py and hypnotoad_geqdsk.py): every documented variable is written by writeGridfile (unconditionally "
             "unless it only exists for some inputs); the options the command-line script reads itself are options it accepts; a contour passing the strict distance guard gives hy > 0 at "
             "every stencil of calcHy and dy > 0; Mesh.__init__ refuses exactly when a shared option differs (hand model).  Decided by running the real pipeline (no model can exhibit the "
             "numerical pipeline's behaviour on arbitrary inputs): a validity oracle (presence, shapes, finiteness except the documented NaNs and exactly there incl. chi against the region "
             "layout, hy, dy > 0, dx of one sign, no folded cell, no all-zero staggered copy) on every corpus grid; 20+ configurations around the envelope (an exception or a valid file, never "
             "a hang); command-line unknown / misspelt options, the script's own options, the shipped root-level option files; examples/tokamak and examples/torpex-xpoint; API option "
             "consistency. The chi NaN pattern is checked at the x- and y-faces too (finding F25, fixed); the envelope includes curvature_smoothing='smoothnl' with and without a toroidal field. The two iterations of contour construction (the Newton refinement of a point, the equal-spacing iteration of a FineContour) are bounded by their own counters in ANY arithmetic (theorems C12_newton_refinement_is_bounded, C12_equal_spacing_iteration_is_bounded, on models run bit for bit against the real methods in C01 / C05).",
        note="Known finding F23 (all-zero x-face copies of the non-orthogonal metric / curvature) is reported as KNOWN-FINDING lines.  The shipped root option files can only be checked for "
             "acceptance of their option set: the equilibria they were tuned for are git-LFS pointers.  Equilibrium-only options passed to BoutMesh with a changed value are ignored by design "
             "(unknown-key rejection lives in the scripts): observed, not failed.",
        technique="Coq proofs on regenerated lists / guards + validity oracle on real generations in and around the supported envelope", design="6/C12", partial=True),
}

PENDING = ["C01", "C03", "C04", "C05", "C06", "C07", "C08", "C09", "C10", "C11", "C12", "C13", "C14", "C15", "C16", "C17", "C18", "C19", "C20"]


def main():
    checks = []
    for pid, c in sorted(CLAIMED.items()):
        checks.append({
            "property_id": pid,
            "quick_cmd": f"./check {pid} --tier quick",
            "thorough_cmd": f"./check {pid} --tier thorough",
            "evidence_file": f"/verif/evidence/{pid}.json",
            "replay_cmd_template": f"./check {pid} --replay {{path}}",
            "engine": "coq-proof+correspondence",
            "level_claimed": {"category": c.get("category", "proof"), "text": c["text"], "design_ref": c["design"]},
            "level_note": c["note"],
            "technique": c["technique"],
        })
    m = {
        "version": 1,
        "setup_cmd": "./setup.sh",
        "hooks": {
            "guard": "BOUTPROJECT_HYPNOTOAD_VERIF",
            "enable": "no hooks are compiled in: all instrumentation is harness-side (subclassing / wrapping / reading attributes); the checks export BOUTPROJECT_HYPNOTOAD_VERIF=1 for uniformity",
            "baseline_off_cmd": "cd /repo && /venv/bin/python -m pytest -ra -q -p no:cacheprovider --timeout=900 --continue-on-collection-errors",
            "source_commits": [],
            "add_only": True,
        },
        "engines": [
            {"name": "coq-proof+correspondence", "path": "/verif/check",
             "serves_properties": sorted(CLAIMED), "kind_free_text": "Coq 8.16 theorems about models regenerated from / tied by correspondence to /repo; Python harness runs the implementation"},
        ],
        "checks": checks,
        "not_applicable": [{"property_id": p, "reason": "check under construction in this round (design in DESIGN.md section 6); not claimed yet"} for p in PENDING if p not in CLAIMED],
        "notes": "See DESIGN.md. Every check: translators -> Coq build of props/Cnn.v cone -> correspondence -> property oracle on the implementation.",
    }
    with open(os.path.join(HERE, "MANIFEST.json"), "w") as f:
        json.dump(m, f, indent=1)


if __name__ == "__main__":
    main()
