#!/bin/sh
# usage: process_agent.sh <nn> <first-new-index> [worktree-prefix]   e.g. process_agent.sh 09 5 /tmp/wt4_C  -> seeds C09-5 (mutation_1) and C09-6 (mutation_2), sequentially
NN="$1"; K="$2"; PFX="${3:-/tmp/wt3_C}"
/verif/tools/process_seed.sh ${PFX}$NN 1 C$NN-$K C$NN
/verif/tools/process_seed.sh ${PFX}$NN 2 C$NN-$((K+1)) C$NN
