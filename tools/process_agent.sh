#!/bin/sh
# usage: process_agent.sh <nn> <first-new-index>   e.g. process_agent.sh 09 3  -> seeds C09-3 (mutation_1) and C09-4 (mutation_2), sequentially
NN="$1"; K="$2"
/verif/tools/process_seed.sh /tmp/wt3_C$NN 1 C$NN-$K C$NN
/verif/tools/process_seed.sh /tmp/wt3_C$NN 2 C$NN-$((K+1)) C$NN
