"""Run every translator once (used by setup.sh; each check re-runs its own translators)."""
import importlib
import os
import sys

HERE = os.path.dirname(os.path.dirname(os.path.abspath(__file__)))
sys.path.insert(0, os.path.join(HERE, "harness"))
sys.path.insert(0, os.path.join(HERE, "translate"))
import common

for name in sorted(os.listdir(os.path.join(HERE, "harness", "props"))):
    if name.startswith("c") and name.endswith(".py") and name[1:3].isdigit() and len(name) == 6:
        mod = importlib.import_module("props." + name[:-3])
        fns = [f for f in dir(mod) if f == "translate" or f.startswith("translate_")]
        if fns:
            chk = common.Check(name[:-3].upper(), "quick", 0)
            for fn in fns:
                try:
                    getattr(mod, fn)(chk)
                except Exception as e:
                    print("translator failed for", name, fn, e)
            for b in chk.broken:
                print("WARNING", name, b["name"], b["detail"][:200])
common.coq_makefile()
