(* C07: the radial profile functions of the circular equilibrium are the derivatives they are used as. *)
From Coq Require Import Reals List Arith Lia Lra.
From Coquelicot Require Import Coquelicot.
From HT Require Import Model_Circular.
Import ListNotations.
Local Open Scope R_scope.

Lemma poly_from_derive t cs : forall e r, is_derive (poly_from e t cs) r (dpoly_from e t cs r).
Proof.
  induction cs as [|c rest IH]; intros e r; cbn [poly_from dpoly_from].
  - apply (is_derive_const 0 r).
  - apply (is_derive_plus (fun x => c * x ^ e) (poly_from (e + t) t rest)); [|apply IH].
    auto_derive; [trivial|]. replace (Init.Nat.pred e) with (e - 1)%nat by lia. ring.
Qed.

(* dq/dr as the code computes it IS the derivative of q -- for any number of coefficients -- when the exponent ranges are those of
   q = a0 + a1 r^2 + a2 r^4 + ... and of its derivative (first exponent 2 after dropping a0) *)
Theorem circ_dqdr_is_derivative (cs : list R) r : cs <> [] ->
  is_derive (circ_q 0 2 cs) r (circ_dqdr 2 2 1 cs r).
Proof.
  intros Hne. destruct cs as [|c0 rest]; [congruence|]. unfold circ_q, circ_dqdr.
  assert (H : is_derive (poly_from 0 2 (c0 :: rest)) r (dpoly_from 2 2 rest r)).
  { cbn [poly_from]. replace (dpoly_from 2 2 rest r) with (0 + dpoly_from 2 2 rest r) by ring.
    apply (is_derive_plus (fun x => c0 * x ^ 0) (poly_from (0 + 2) 2 rest)); [|apply poly_from_derive].
    auto_derive; [trivial|]. ring. }
  destruct rest as [|c1 rest'].
  - cbn [length Nat.eqb]. cbn [dpoly_from] in H. exact H.
  - cbn [length Nat.eqb skipn]. exact H.
Qed.

(* d2psi/dr2 as written in the source is the derivative of dpsi/dr = B0 r / (sqrt(1 - r^2/R0^2) q(r)) for ANY q with derivative dq *)
Theorem circ_d2psidr2_is_derivative (B0 R0 : R) (q dq : R -> R) r : 0 < R0 -> r ^ 2 < R0 ^ 2 -> q r <> 0 ->
  is_derive q r (dq r) ->
  is_derive (circ_dpsidr B0 R0 q) r (circ_d2psidr2 B0 R0 q dq r).
Proof.
  intros HR Hr Hq Hd. unfold circ_dpsidr, circ_d2psidr2.
  assert (Hpos : 0 < 1 - r ^ 2 / R0 ^ 2).
  { assert (0 < R0 ^ 2) by nra. assert (r ^ 2 / R0 ^ 2 < 1) by (apply (Rmult_lt_reg_r (R0 ^ 2)); [lra|]; unfold Rdiv; rewrite Rmult_assoc, Rinv_l by lra; lra). lra. }
  assert (Hs : 0 < sqrt (1 - r ^ 2 / R0 ^ 2)) by (apply sqrt_lt_R0; exact Hpos).
  assert (E : 1 + - (r * (r * 1) * / (R0 * (R0 * 1))) = 1 - r ^ 2 / R0 ^ 2) by (cbn [pow]; field; lra).
  auto_derive.
  - rewrite !E. split; [exact Hpos|]. split; [exists (dq r); exact Hd|]. split; [|trivial].
    apply Rmult_integral_contrapositive_currified; lra.
  - rewrite !E. replace (Derive (fun x : R => q x) r) with (dq r) by (symmetry; apply is_derive_unique; exact Hd).
    set (P := 1 - r ^ 2 / R0 ^ 2) in *. set (S := sqrt P) in *.
    assert (SS : S * S = P) by (apply sqrt_sqrt; lra).
    replace (Rpower P (3 / 2)) with (S * P).
    + assert (HP : P = 1 - r ^ 2 / R0 ^ 2) by reflexivity.
      assert (HR2 : R0 ^ 2 <> 0) by nra.
      assert (Hr2 : r ^ 2 = (1 - P) * R0 ^ 2) by (rewrite HP; field; lra).
      assert (HPn : P <> 0) by lra. assert (HSn : S <> 0) by lra.
      cbn [pow] in *. field_simplify_eq; [|repeat split; assumption || lra].
      nra.
    + replace (3 / 2) with (/ 2 + 1) by lra. rewrite Rpower_plus, Rpower_1 by exact Hpos.
      unfold S. rewrite <- Rpower_sqrt by exact Hpos. reflexivity.
Qed.
