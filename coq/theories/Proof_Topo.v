(* C08: the cell adjacency induced by hypnotoad's tables + layout equals BOUT++'s reading of the written integers,
   for every size vector.  topo_ints and the conn_* tables are GENERATED from the source on every run. *)
From Coq Require Import ZArith List Bool Lia ZifyBool.
From HT Require Import TopoLib.
From HG Require Import Gen_Topo.
Import ListNotations.
Local Open Scope Z_scope.

Ltac bool_decide c :=
  first [ replace c with true by (symmetry; lia) | replace c with false by (symmetry; lia) ].

Ltac decide_ifs :=
  repeat match goal with
  | |- context [if ?c then _ else _] => bool_decide c
  end.

Ltac topo_unfold :=
  cbv [topo_ints model_up bout_up region_of seg_of upper lower offset pair_eqb Nat.eqb fst snd
       ixseps1 ixseps2 jyseps1_1 jyseps2_1 ny_inner jyseps1_2 jyseps2_2 nthZ nth sumfirst
       conn_lsn conn_usn conn_cdn conn_ldn conn_udn conn_lsn_uo conn_cdn_uo conn_ldn_uo conn_udn_uo Zlength Zlength_aux andb] in *.

Section LSN.
  Variables n0 n1 n2 a nx ny : Z.     (* ny_noguards of the three regions, ixseps, sizes *)
  Hypothesis H0 : 0 < n0.
  Hypothesis H1 : 0 < n1.
  Hypothesis H2 : 0 < n2.
  Hypothesis Ha : 0 < a < nx.
  Let ys := [n0; n1; n2].
  Let xs := [0; a; nx].
  Let nyng := n0 + n1 + n2.

  Lemma lsn_adjacency t x j dn sepidx :
    topo_ints xs ys nx ny nyng dn sepidx = Some t -> 0 <= x < nx -> 0 <= j < nyng ->
    model_up conn_lsn ys xs x j = bout_up t nyng x j.
  Proof.
    unfold ys, xs, nyng. intros Ht Hx Hj. topo_unfold. simpl in Ht. inversion Ht; subst t; clear Ht. topo_unfold.
    assert (Cj : j < n0 - 1 \/ j = n0 - 1 \/ (n0 <= j < n0 + n1 - 1) \/ j = n0 + n1 - 1 \/ (n0 + n1 <= j < n0 + n1 + n2 - 1) \/ j = n0 + n1 + n2 - 1) by lia.
    assert (Cx : x < a \/ a <= x) by lia.
    destruct Cx as [Cx|Cx]; destruct Cj as [Cj|[Cj|[Cj|[Cj|[Cj|Cj]]]]]; decide_ifs; try reflexivity; f_equal; lia.
  Qed.
End LSN.

Section USN.
  Variables n0 n1 n2 a nx ny : Z.
  Hypothesis H0 : 0 < n0.
  Hypothesis H1 : 0 < n1.
  Hypothesis H2 : 0 < n2.
  Hypothesis Ha : 0 < a < nx.
  Let ys := [n0; n1; n2].
  Let xs := [0; a; nx].
  Let nyng := n0 + n1 + n2.
  Lemma usn_adjacency t x j dn sepidx :
    topo_ints xs ys nx ny nyng dn sepidx = Some t -> 0 <= x < nx -> 0 <= j < nyng ->
    model_up conn_usn ys xs x j = bout_up t nyng x j.
  Proof.
    unfold ys, xs, nyng. intros Ht Hx Hj. topo_unfold. simpl in Ht. inversion Ht; subst t; clear Ht. topo_unfold.
    assert (Cj : j < n0 - 1 \/ j = n0 - 1 \/ (n0 <= j < n0 + n1 - 1) \/ j = n0 + n1 - 1 \/ (n0 + n1 <= j < n0 + n1 + n2 - 1) \/ j = n0 + n1 + n2 - 1) by lia.
    assert (Cx : x < a \/ a <= x) by lia.
    destruct Cx as [Cx|Cx]; destruct Cj as [Cj|[Cj|[Cj|[Cj|[Cj|Cj]]]]]; decide_ifs; try reflexivity; f_equal; lia.
  Qed.
End USN.

(* six y-regions: position of j *)
Ltac cases6 j n0 n1 n2 n3 n4 n5 :=
  assert (Cj : j < n0 - 1 \/ j = n0 - 1 \/ (n0 <= j < n0 + n1 - 1) \/ j = n0 + n1 - 1 \/
               (n0 + n1 <= j < n0 + n1 + n2 - 1) \/ j = n0 + n1 + n2 - 1 \/
               (n0 + n1 + n2 <= j < n0 + n1 + n2 + n3 - 1) \/ j = n0 + n1 + n2 + n3 - 1 \/
               (n0 + n1 + n2 + n3 <= j < n0 + n1 + n2 + n3 + n4 - 1) \/ j = n0 + n1 + n2 + n3 + n4 - 1 \/
               (n0 + n1 + n2 + n3 + n4 <= j < n0 + n1 + n2 + n3 + n4 + n5 - 1) \/ j = n0 + n1 + n2 + n3 + n4 + n5 - 1) by lia;
  destruct Cj as [Cj|[Cj|[Cj|[Cj|[Cj|[Cj|[Cj|[Cj|[Cj|[Cj|[Cj|Cj]]]]]]]]]]].

Section DN.
  Variables n0 n1 n2 n3 n4 n5 a b nx ny : Z.
  Hypothesis H0 : 0 < n0.
  Hypothesis H1 : 0 < n1.
  Hypothesis H2 : 0 < n2.
  Hypothesis H3 : 0 < n3.
  Hypothesis H4 : 0 < n4.
  Hypothesis H5 : 0 < n5.
  Let ys := [n0; n1; n2; n3; n4; n5].
  Let nyng := n0 + n1 + n2 + n3 + n4 + n5.

  (* connected double null: one separatrix location *)
  Lemma cdn_adjacency t x j sepidx : 0 < a < nx ->
    topo_ints [0; a; nx] ys nx ny nyng 0 sepidx = Some t -> 0 <= x < nx -> 0 <= j < nyng ->
    model_up conn_cdn ys [0; a; nx] x j = bout_up t nyng x j.
  Proof.
    unfold ys, nyng. intros Ha Ht Hx Hj. topo_unfold. simpl in Ht.
    replace (nx =? nx) with true in Ht by (symmetry; lia). inversion Ht; subst t; clear Ht. topo_unfold.
    assert (Cx : x < a \/ a <= x) by lia.
    destruct Cx as [Cx|Cx]; cases6 j n0 n1 n2 n3 n4 n5; decide_ifs; try reflexivity; f_equal; lia.
  Qed.

  (* lower disconnected double null: lower X-point primary, ixseps1 = a < ixseps2 = b *)
  Lemma ldn_adjacency t x j sepidx : 0 < a < b -> b < nx ->
    topo_ints [0; a; b; nx] ys nx ny nyng 1 sepidx = Some t -> 0 <= x < nx -> 0 <= j < nyng ->
    model_up conn_ldn ys [0; a; b; nx] x j = bout_up t nyng x j.
  Proof.
    unfold ys, nyng. intros Ha Hb Ht Hx Hj. topo_unfold. simpl in Ht.
    replace (b =? nx) with false in Ht by (symmetry; lia). inversion Ht; subst t; clear Ht. topo_unfold.
    assert (Cx : x < a \/ (a <= x < b) \/ b <= x) by lia.
    destruct Cx as [Cx|[Cx|Cx]]; cases6 j n0 n1 n2 n3 n4 n5; decide_ifs; try reflexivity; f_equal; lia.
  Qed.

  (* upper disconnected double null: upper X-point primary, ixseps2 = a < ixseps1 = b *)
  Lemma udn_adjacency t x j sepidx : 0 < a < b -> b < nx ->
    topo_ints [0; a; b; nx] ys nx ny nyng 2 sepidx = Some t -> 0 <= x < nx -> 0 <= j < nyng ->
    model_up conn_udn ys [0; a; b; nx] x j = bout_up t nyng x j.
  Proof.
    unfold ys, nyng. intros Ha Hb Ht Hx Hj. topo_unfold. simpl in Ht.
    replace (a =? nx) with false in Ht by (symmetry; lia). inversion Ht; subst t; clear Ht. topo_unfold.
    assert (Cx : x < a \/ (a <= x < b) \/ b <= x) by lia.
    destruct Cx as [Cx|[Cx|Cx]]; cases6 j n0 n1 n2 n3 n4 n5; decide_ifs; try reflexivity; f_equal; lia.
  Qed.

  (* index ordering for the double nulls; nyw = ny with guards is irrelevant here *)
  Lemma dn_ordered t xs dn sepidx : (xs = [0; a; nx] /\ dn = 0 \/ xs = [0; a; b; nx] /\ (dn = 1 \/ dn = 2)) ->
    topo_ints xs ys nx ny nyng dn sepidx = Some t -> ordered t nyng.
  Proof.
    unfold ys, nyng, ordered. intros [[-> ->]|[-> [->| ->]]] Ht; topo_unfold; simpl in Ht;
      repeat match type of Ht with context [if ?c then _ else _] => destruct c end;
      inversion Ht; subst t; cbn [jyseps1_1 jyseps2_1 jyseps1_2 jyseps2_2 ny_inner]; lia.
  Qed.
End DN.

(* ---- start_at_upper_outer ordering ---- *)
Section DN_UO.
  Variables n0 n1 n2 n3 n4 n5 a nx ny : Z.
  Hypothesis H0 : 0 < n0.
  Hypothesis H1 : 0 < n1.
  Hypothesis H2 : 0 < n2.
  Hypothesis H3 : 0 < n3.
  Hypothesis H4 : 0 < n4.
  Hypothesis H5 : 0 < n5.
  Let ys := [n0; n1; n2; n3; n4; n5].
  Let nyng := n0 + n1 + n2 + n3 + n4 + n5.
  Lemma cdn_uo_adjacency t x j sepidx : 0 < a < nx ->
    topo_ints [0; a; nx] ys nx ny nyng 0 sepidx = Some t -> 0 <= x < nx -> 0 <= j < nyng ->
    model_up conn_cdn_uo ys [0; a; nx] x j = bout_up t nyng x j.
  Proof.
    unfold ys, nyng. intros Ha Ht Hx Hj. topo_unfold. simpl in Ht.
    replace (nx =? nx) with true in Ht by (symmetry; lia). inversion Ht; subst t; clear Ht. topo_unfold.
    assert (Cx : x < a \/ a <= x) by lia.
    destruct Cx as [Cx|Cx]; cases6 j n0 n1 n2 n3 n4 n5; decide_ifs; try reflexivity; f_equal; lia.
  Qed.
End DN_UO.

Definition adjacency_holds (conn : list ((nat * nat) * (nat * nat))) (xs ys : list Z) (nx ny nyng dn sepidx : Z) : Prop :=
  forall t x j, topo_ints xs ys nx ny nyng dn sepidx = Some t -> 0 <= x < nx -> 0 <= j < nyng ->
                model_up conn ys xs x j = bout_up t nyng x j.

(* with start_at_upper_outer and a DISCONNECTED double null the written ixseps1/ixseps2 do not match the y-order:
   in the inter-separatrix region the tables and BOUT++'s reading disagree (finding F14) *)
Lemma ldn_uo_refuted : ~ adjacency_holds conn_ldn_uo [0; 2; 4; 6] [2; 3; 4; 5; 6; 7] 6 35 27 1 1.
Proof.
  intro H. specialize (H _ 2 1 eq_refl ltac:(lia) ltac:(lia)). vm_compute in H. discriminate H.
Qed.
Lemma udn_uo_refuted : ~ adjacency_holds conn_udn_uo [0; 2; 4; 6] [2; 3; 4; 5; 6; 7] 6 35 27 2 1.
Proof.
  intro H. specialize (H _ 2 1 eq_refl ltac:(lia) ltac:(lia)). vm_compute in H. discriminate H.
Qed.

(* ---- single null: ordering of the written indices ---- *)
Section SN_ORDER.
  Variables n0 n1 n2 a nx ny : Z.
  Hypothesis H0 : 0 < n0.
  Hypothesis H1 : 0 < n1.
  Hypothesis H2 : 0 < n2.
  Let ys := [n0; n1; n2].
  Let nyng := n0 + n1 + n2.
  (* holds exactly when ny//2 (ny WITH guards) happens to fall between the two branch cuts *)
  Lemma sn_ordered_partial t dn sepidx : n0 - 1 <= ny / 2 <= n0 + n1 - 1 ->
    topo_ints [0; a; nx] ys nx ny nyng dn sepidx = Some t -> ordered t nyng.
  Proof.
    unfold ys, nyng, ordered. intros Hm Ht. topo_unfold. simpl in Ht. inversion Ht; subst t.
    cbn [jyseps1_1 jyseps2_1 jyseps1_2 jyseps2_2 ny_inner]. lia.
  Qed.
End SN_ORDER.

Definition sn_ordered_statement : Prop :=
  forall n0 n1 n2 a nx myg t dn sepidx, 0 < n0 -> 0 < n1 -> 0 < n2 -> 0 <= myg ->
    topo_ints [0; a; nx] [n0; n1; n2] nx (n0 + n1 + n2 + 2 * myg) (n0 + n1 + n2) dn sepidx = Some t ->
    ordered t (n0 + n1 + n2).
(* finding F3: unequal legs, e.g. ny = (4, 8, 40) with 2 guard cells: jyseps2_1 = jyseps1_2 = 28 > jyseps2_2 = 11 *)
Lemma sn_ordered_refuted : ~ sn_ordered_statement.
Proof.
  intro H. specialize (H 4 8 40 3 6 2 _ 0 1 ltac:(lia) ltac:(lia) ltac:(lia) ltac:(lia) eq_refl).
  unfold ordered in H. cbn in H. lia.
Qed.

(* ---- tiling: for ANY list of region sizes the y-ranges partition [0, total), every index in exactly one block ---- *)
Fixpoint total (ys : list Z) : Z := match ys with [] => 0 | h :: t => h + total t end.

Lemma region_of_spec : forall ys j r0, Forall (fun n => 0 < n) ys -> 0 <= j < total ys ->
  exists r last, region_of ys j r0 = Some ((r0 + r)%nat, last) /\ (r < length ys)%nat /\
                 offset ys r <= j < offset ys r + nthZ ys r /\ (last = true <-> j = offset ys r + nthZ ys r - 1).
Proof.
  induction ys as [|h t IH]; intros j r0 Hp Hj; simpl in Hj; [lia|].
  inversion Hp; subst. simpl. destruct (j <? h) eqn:E.
  - exists 0%nat, (j =? h - 1). rewrite Nat.add_0_r. split; [reflexivity|]. split; [simpl; lia|].
    unfold nthZ. simpl. split; [lia|]. split; intro X; lia.
  - destruct (IH (j - h) (S r0) H2 ltac:(lia)) as (r & last & E1 & L & R & B).
    exists (S r), last. replace (r0 + S r)%nat with (S r0 + r)%nat by lia. split; [exact E1|]. split; [simpl; lia|].
    unfold nthZ in *. simpl. split; [lia|]. rewrite B. split; intro X; lia.
Qed.

Lemma offset_mono : forall ys r r', Forall (fun n => 0 < n) ys -> (r < r')%nat -> (r' <= length ys)%nat ->
  offset ys r + nthZ ys r <= offset ys r'.
Proof.
  induction ys as [|h t IH]; intros r r' Hp L1 L2; simpl in L2; [lia|].
  inversion Hp; subst. destruct r' as [|r']; [lia|]. destruct r as [|r]; unfold nthZ in *; simpl.
  - assert (G : forall l k, Forall (fun n => 0 < n) l -> 0 <= offset l k).
    { induction l as [|a l IHl]; intros k F; destruct k; simpl; try lia. inversion F; subst. specialize (IHl k H4). lia. }
    specialize (G t r' H2). lia.
  - specialize (IH r r' H2 ltac:(lia) ltac:(lia)). unfold nthZ in IH. lia.
Qed.

(* blocks are pairwise disjoint: an index lies in at most one *)
Lemma blocks_disjoint ys r r' j : Forall (fun n => 0 < n) ys -> (r < length ys)%nat -> (r' < length ys)%nat ->
  offset ys r <= j < offset ys r + nthZ ys r -> offset ys r' <= j < offset ys r' + nthZ ys r' -> r = r'.
Proof.
  intros Hp L L' A B. destruct (Nat.lt_trichotomy r r') as [C|[C|C]]; [|exact C|].
  - pose proof (offset_mono ys r r' Hp C ltac:(lia)). lia.
  - pose proof (offset_mono ys r' r Hp C ltac:(lia)). lia.
Qed.

(* connection tables: symmetric and injective (finite check over the tables extracted from the source) *)
Definition table_ok (conn : list ((nat * nat) * (nat * nat))) : bool :=
  forallb (fun ab => match upper conn (fst ab), lower conn (snd ab) with
                     | Some b, Some a => pair_eqb b (snd ab) && pair_eqb a (fst ab)
                     | _, _ => false end) conn.
Lemma tables_symmetric :
  table_ok conn_lsn = true /\ table_ok conn_usn = true /\ table_ok conn_cdn = true /\ table_ok conn_ldn = true /\
  table_ok conn_udn = true /\ table_ok conn_cdn_uo = true /\ table_ok conn_ldn_uo = true /\ table_ok conn_udn_uo = true.
Proof. repeat split; vm_compute; reflexivity. Qed.

Lemma table_ok_sym conn a b : table_ok conn = true -> In (a, b) conn -> upper conn a = Some b /\ lower conn b = Some a.
Proof.
  unfold table_ok. rewrite forallb_forall. intros H Hin. specialize (H _ Hin). simpl in H.
  destruct (upper conn a) as [b'|]; [|discriminate]. destruct (lower conn b) as [a'|]; [|discriminate].
  apply andb_true_iff in H. destruct H as [E1 E2].
  assert (P : forall p q : nat * nat, pair_eqb p q = true -> p = q).
  { intros [p1 p2] [q1 q2] E. unfold pair_eqb in E. simpl in E. apply andb_true_iff in E. destruct E as [X Y].
    apply Nat.eqb_eq in X. apply Nat.eqb_eq in Y. subst. reflexivity. }
  apply P in E1. apply P in E2. subst. split; reflexivity.
Qed.

(* isolated X-point with all four legs ending on the wall (TORPEX): four y-regions, one separatrix location; BOUT++ reads it as two X-points on top of
   each other (jyseps2_1 = jyseps1_1, jyseps1_2 = jyseps2_2, ixseps2 = ixseps1) with the second pair of targets at ny_inner *)
Section XPT.
  Variables n0 n1 n2 n3 a nx ny : Z.
  Hypothesis H0 : 0 < n0.
  Hypothesis H1 : 0 < n1.
  Hypothesis H2 : 0 < n2.
  Hypothesis H3 : 0 < n3.
  Hypothesis Ha : 0 < a < nx.
  Let ys := [n0; n1; n2; n3].
  Let xs := [0; a; nx].
  Let nyng := n0 + n1 + n2 + n3.

  Lemma xpt_adjacency t x j dn sepidx :
    topo_ints xs ys nx ny nyng dn sepidx = Some t -> 0 <= x < nx -> 0 <= j < nyng ->
    model_up conn_xpt ys xs x j = bout_up t nyng x j.
  Proof.
    unfold ys, xs, nyng. intros Ht Hx Hj. cbv [conn_xpt] in *. topo_unfold. simpl in Ht. inversion Ht; subst t; clear Ht. topo_unfold.
    assert (Cj : j < n0 - 1 \/ j = n0 - 1 \/ (n0 <= j < n0 + n1 - 1) \/ j = n0 + n1 - 1 \/ (n0 + n1 <= j < n0 + n1 + n2 - 1) \/ j = n0 + n1 + n2 - 1 \/
                 (n0 + n1 + n2 <= j < n0 + n1 + n2 + n3 - 1) \/ j = n0 + n1 + n2 + n3 - 1) by lia.
    assert (Cx : x < a \/ a <= x) by lia.
    destruct Cx as [Cx|Cx]; destruct Cj as [Cj|[Cj|[Cj|[Cj|[Cj|[Cj|[Cj|Cj]]]]]]]; decide_ifs; try reflexivity; f_equal; lia.
  Qed.

  Lemma xpt_ordered t dn sepidx : topo_ints xs ys nx ny nyng dn sepidx = Some t -> ordered t nyng.
  Proof.
    unfold ys, xs, nyng. intro Ht. topo_unfold. simpl in Ht. inversion Ht; subst t; clear Ht. unfold ordered. topo_unfold. cbn. lia.
  Qed.
End XPT.
