(* C01 / C04: followPerpendicular returns the points in the order of psivals for every strictly monotone list and
   every psi0; index lemmas for the assembly and the fillRZ slices. *)
From Coq Require Import QArith Qabs List Bool Arith Lia Lqa Sorted.
From HT Require Import Model_Region.
Import ListNotations.
Local Open Scope Q_scope.

(* ---------------- slices ---------------- *)
Lemma every_other_nth {A} (d : A) : forall (l : list A) k, (2 * k < length l)%nat -> nth k (every_other l) d = nth (2 * k) l d.
Proof.
  fix IH 1. intros l k H. destruct l as [|a [|b t]]; simpl in H; [lia| |].
  - destruct k; [reflexivity | lia].
  - destruct k; [reflexivity|]. simpl every_other. change (nth (S k) (a :: every_other t) d) with (nth k (every_other t) d).
    replace (2 * S k)%nat with (S (S (2 * k))) by lia. simpl nth. apply IH. lia.
Qed.

Lemma every_other_length {A} : forall (l : list A), length (every_other l) = ((length l + 1) / 2)%nat.
Proof.
  fix IH 1. intros l. destruct l as [|a [|b t]]; [reflexivity | reflexivity |].
  simpl every_other. simpl length. rewrite IH. replace (S (S (length t)) + 1)%nat with (length t + 1 + 1 * 2)%nat by lia.
  rewrite Nat.div_add by lia. lia.
Qed.

Lemma nth_skipn' {A} (d : A) : forall s (l : list A) k, nth k (skipn s l) d = nth (s + k) l d.
Proof.
  induction s as [|s IH]; intros l k; [reflexivity|]. destruct l as [|a t]; simpl.
  - destruct k; reflexivity.
  - apply IH.
Qed.

Lemma slice2_nth {A} (d : A) s (l : list A) k : (s + 2 * k < length l)%nat -> nth k (slice2 s l) d = nth (s + 2 * k) l d.
Proof.
  intro H. unfold slice2. rewrite every_other_nth by (rewrite skipn_length; lia). apply nth_skipn'.
Qed.

(* fillRZ: entry (i, j) of the array built with contours[cs::2] and points [ps::2] is point ps+2j of contour cs+2i *)
Lemma fill_nth {A} (d : A) cs ps (contours : list (list A)) i j :
  (cs + 2 * i < length contours)%nat -> (ps + 2 * j < length (nth (cs + 2 * i) contours []))%nat ->
  nth j (nth i (fill cs ps contours) []) d = nth (ps + 2 * j) (nth (cs + 2 * i) contours []) d.
Proof.
  intros Hi Hj. unfold fill.
  assert (Li : (i < length (slice2 cs contours))%nat).
  { unfold slice2. rewrite every_other_length, skipn_length.
    assert (i + 1 <= (length contours - cs + 1) / 2)%nat by (apply Nat.div_le_lower_bound; lia). lia. }
  rewrite (nth_indep _ [] (slice2 ps []) ) by (rewrite map_length; exact Li).
  rewrite (map_nth (slice2 ps) (slice2 cs contours) [] i).
  rewrite (slice2_nth [] cs contours i Hi). apply slice2_nth. exact Hj.
Qed.

(* assembly: contours[i][j] = perp_points_list[j][i] *)
Lemma transpose_nth {A} (d : A) n (rows : list (list A)) i j : (i < n)%nat -> (j < length rows)%nat ->
  nth j (nth i (transpose d n rows) []) d = nth i (nth j rows []) d.
Proof.
  intros Hi Hj. unfold transpose.
  rewrite (nth_indep _ [] (column d 0 rows)) by (rewrite map_length, seq_length; exact Hi).
  rewrite (map_nth (fun i0 => column d i0 rows) (seq 0 n) 0%nat i). rewrite seq_nth by exact Hi. simpl.
  unfold column. rewrite (nth_indep _ d (nth i [] d)) by (rewrite map_length; exact Hj).
  rewrite (map_nth (fun r => nth i r d) rows [] j). reflexivity.
Qed.

(* ---------------- followPerpendicular ---------------- *)
Section FollowProofs.
  Variable P : Type.
  Variable flow : Q -> P.
  Notation follow := (follow P flow).

  Fixpoint incr (l : list Q) : Prop := match l with a :: ((b :: _) as t) => a < b /\ incr t | _ => True end.
  Fixpoint decr (l : list Q) : Prop := match l with a :: ((b :: _) as t) => b < a /\ decr t | _ => True end.

  Lemma Qltb_true a b : Qltb a b = true <-> a < b.
  Proof.
    unfold Qltb. rewrite negb_true_iff. split; intro H.
    - apply Qnot_le_lt. intro L. apply Qle_bool_iff in L. congruence.
    - destruct (Qle_bool b a) eqn:E; [|reflexivity]. apply Qle_bool_iff in E. exfalso. apply (Qlt_not_le _ _ H E).
  Qed.
  Lemma Qltb_false a b : Qltb a b = false <-> b <= a.
  Proof. unfold Qltb. rewrite negb_false_iff. apply Qle_bool_iff. Qed.

  (* lmin / lmax are elements and bounds *)
  Lemma qmin_spec : forall l d, (qmin l d = d \/ In (qmin l d) l) /\ qmin l d <= d /\ (forall x, In x l -> qmin l d <= x).
  Proof.
    induction l as [|h t IH]; intro d; simpl.
    - split; [left; reflexivity|]. split; [lra | intros x []].
    - destruct (IH d) as (A & B & C). destruct (Qle_bool h (qmin t d)) eqn:E.
      + apply Qle_bool_iff in E. split; [right; left; reflexivity|]. split; [lra|].
        intros x [<-|Hx]; [lra | specialize (C x Hx); lra].
      + assert (E' : qmin t d < h) by (apply Qltb_true; unfold Qltb; rewrite E; reflexivity).
        split; [destruct A as [A|A]; [left; exact A | right; right; exact A]|]. split; [exact B|].
        intros x [<-|Hx]; [lra | apply C; exact Hx].
  Qed.
  Lemma qmax_spec : forall l d, (qmax l d = d \/ In (qmax l d) l) /\ d <= qmax l d /\ (forall x, In x l -> x <= qmax l d).
  Proof.
    induction l as [|h t IH]; intro d; simpl.
    - split; [left; reflexivity|]. split; [lra | intros x []].
    - destruct (IH d) as (A & B & C). destruct (Qle_bool (qmax t d) h) eqn:E.
      + apply Qle_bool_iff in E. split; [right; left; reflexivity|]. split; [lra|].
        intros x [<-|Hx]; [lra | specialize (C x Hx); lra].
      + assert (E' : h < qmax t d) by (apply Qltb_true; unfold Qltb; rewrite E; reflexivity).
        split; [destruct A as [A|A]; [left; exact A | right; right; exact A]|]. split; [exact B|].
        intros x [<-|Hx]; [lra | apply C; exact Hx].
  Qed.
  Lemma lmin_spec l : l <> [] -> In (lmin l) l /\ (forall x, In x l -> lmin l <= x).
  Proof.
    destruct l as [|h t]; [congruence|]. intros _. simpl lmin. destruct (qmin_spec t h) as (A & B & C). split.
    - destruct A as [A|A]; [left; symmetry; exact A | right; exact A].
    - intros x [<-|Hx]; [exact B | apply C; exact Hx].
  Qed.
  Lemma lmax_spec l : l <> [] -> In (lmax l) l /\ (forall x, In x l -> x <= lmax l).
  Proof.
    destruct l as [|h t]; [congruence|]. intros _. simpl lmax. destruct (qmax_spec t h) as (A & B & C). split.
    - destruct A as [A|A]; [left; symmetry; exact A | right; exact A].
    - intros x [<-|Hx]; [exact B | apply C; exact Hx].
  Qed.

  Definition incrS := StronglySorted Qlt.
  Definition decrS := StronglySorted (fun a b => b < a).
  Definition above (l : list Q) (c : Q) := forall x, In x l -> c <= x.
  Definition below (l : list Q) (c : Q) := forall x, In x l -> x <= c.

  Lemma SS_app {R : Q -> Q -> Prop} l1 l2 : StronglySorted R l1 -> StronglySorted R l2 ->
    (forall a b, In a l1 -> In b l2 -> R a b) -> StronglySorted R (l1 ++ l2).
  Proof.
    induction l1 as [|h t IH]; intros S1 S2 H; simpl; [exact S2|]. inversion S1; subst.
    constructor.
    - apply IH; auto. intros a b Ha Hb. apply H; [right; exact Ha | exact Hb].
    - apply Forall_app. split; [assumption|]. apply Forall_forall. intros b Hb. apply H; [left; reflexivity | exact Hb].
  Qed.
  Lemma SS_rev {R : Q -> Q -> Prop} l : StronglySorted R l -> StronglySorted (fun a b => R b a) (rev l).
  Proof.
    induction l as [|h t IH]; intro S; simpl; [constructor|]. inversion S; subst. apply SS_app.
    - apply IH; assumption.
    - constructor; constructor.
    - intros a b Ha [<-|[]]. apply in_rev in Ha. rewrite Forall_forall in H2. apply H2; exact Ha.
  Qed.
  Lemma SS_filter {R : Q -> Q -> Prop} (f : Q -> bool) l : StronglySorted R l -> StronglySorted R (filter f l).
  Proof.
    induction l as [|h t IH]; intro S; simpl; [constructor|]. inversion S; subst. destruct (f h).
    - constructor; [apply IH; assumption|]. apply Forall_forall. intros x Hx. apply filter_In in Hx. destruct Hx as [Hx _].
      rewrite Forall_forall in H2. apply H2; exact Hx.
    - apply IH; assumption.
  Qed.
  Lemma incr_rev l : incrS l -> decrS (rev l).
  Proof. apply (@SS_rev Qlt). Qed.
  Lemma decr_rev l : decrS l -> incrS (rev l).
  Proof. intro H. apply (@SS_rev (fun a b => b < a)) in H. exact H. Qed.

  Lemma last_In (l : list Q) : l <> [] -> In (last l 0) l.
  Proof.
    induction l as [|h t IH]; [congruence|]. intros _. destruct t as [|h2 t2]; [left; reflexivity|].
    right. apply IH. discriminate.
  Qed.
  Lemma incr_first_le h t x : incrS (h :: t) -> In x (h :: t) -> h <= x.
  Proof. intros S [<-|Hx]; [lra|]. inversion S; subst. rewrite Forall_forall in H2. specialize (H2 x Hx). lra. Qed.
  Lemma decr_first_ge h t x : decrS (h :: t) -> In x (h :: t) -> x <= h.
  Proof. intros S [<-|Hx]; [lra|]. inversion S; subst. rewrite Forall_forall in H2. specialize (H2 x Hx). simpl in H2. lra. Qed.

  (* the inside test and the reversal test *)
  Lemma not_inside_above l c : l <> [] -> above l c -> Qltb (lmin l) c && Qltb c (lmax l) = false.
  Proof.
    intros Hn Ha. destruct (lmin_spec l Hn) as [Hin _]. specialize (Ha _ Hin).
    assert (E : Qltb (lmin l) c = false) by (apply Qltb_false; exact Ha). rewrite E. reflexivity.
  Qed.
  Lemma not_inside_below l c : l <> [] -> below l c -> Qltb (lmin l) c && Qltb c (lmax l) = false.
  Proof.
    intros Hn Hb. destruct (lmax_spec l Hn) as [Hin _]. specialize (Hb _ Hin).
    assert (E : Qltb c (lmax l) = false) by (apply Qltb_false; exact Hb). rewrite E. apply andb_false_r.
  Qed.

  Lemma follow_S f c l : follow (S f) c l =
        match l with
        | [] => Some []
        | first :: _ =>
            if Qltb (lmin l) c && Qltb c (lmax l) then
              let '(lpart, rpart) :=
                if Qltb first c
                then (filter (fun p => Qltb p c) l, filter (fun p => Qle_bool c p) l)
                else (filter (fun p => Qle_bool c p) l, filter (fun p => Qltb p c) l) in
              match follow f c (rev lpart), follow f c rpart with
              | Some a, Some b => Some (rev a ++ b)
              | _, _ => None
              end
            else if Qltb (Qabs (last l 0 - c)) (Qabs (first - c)) then
              match follow f c (rev l) with Some a => Some (rev a) | None => None end
            else Some (map flow l)
        end.
  Proof. reflexivity. Qed.

  (* base cases: first element is the closest one to psi0 *)
  Lemma base_incr_above f l c : incrS l -> above l c -> follow (S f) c l = Some (map flow l).
  Proof.
    intros S Ha. destruct l as [|h t]; [reflexivity|]. rewrite follow_S.
    rewrite (not_inside_above (h :: t) c) by (auto; discriminate).
    assert (Hl : In (last (h :: t) 0) (h :: t)) by (apply last_In; discriminate).
    pose proof (incr_first_le h t _ S Hl) as L1. pose proof (Ha _ Hl) as L2. pose proof (Ha h (or_introl eq_refl)) as L3.
    assert (E : Qltb (Qabs (last (h :: t) 0 - c)) (Qabs (h - c)) = false).
    { apply Qltb_false. rewrite !Qabs_pos by lra. lra. }
    rewrite E. reflexivity.
  Qed.
  Lemma base_decr_below f l c : decrS l -> below l c -> follow (S f) c l = Some (map flow l).
  Proof.
    intros S Hb. destruct l as [|h t]; [reflexivity|]. rewrite follow_S.
    rewrite (not_inside_below (h :: t) c) by (auto; discriminate).
    assert (Hl : In (last (h :: t) 0) (h :: t)) by (apply last_In; discriminate).
    pose proof (decr_first_ge h t _ S Hl) as L1. pose proof (Hb _ Hl) as L2. pose proof (Hb h (or_introl eq_refl)) as L3.
    assert (E : Qltb (Qabs (last (h :: t) 0 - c)) (Qabs (h - c)) = false).
    { apply Qltb_false. rewrite !Qabs_neg by lra. lra. }
    rewrite E. reflexivity.
  Qed.

  Lemma above_rev l c : above l c -> above (rev l) c.
  Proof. intros H x Hx. apply H. apply in_rev. exact Hx. Qed.
  Lemma below_rev l c : below l c -> below (rev l) c.
  Proof. intros H x Hx. apply H. apply in_rev. exact Hx. Qed.
  Lemma map_rev_rev (l : list Q) : rev (map flow (rev l)) = map flow l.
  Proof. rewrite map_rev, rev_involutive. reflexivity. Qed.

  (* far cases: the list runs towards psi0; one reversal, then the base case *)
  Lemma far_incr_below f l c : incrS l -> below l c -> follow (S (S f)) c l = Some (map flow l).
  Proof.
    intros S Hb. destruct l as [|h t]; [reflexivity|].
    assert (Hn : h :: t <> []) by discriminate.
    rewrite follow_S.
    rewrite (not_inside_below (h :: t) c Hn Hb).
    destruct (Qltb (Qabs (last (h :: t) 0 - c)) (Qabs (h - c))) eqn:E.
    - rewrite (base_decr_below f (rev (h :: t)) c (incr_rev _ S) (below_rev _ c Hb)). rewrite map_rev_rev. reflexivity.
    - reflexivity.
  Qed.
  Lemma far_decr_above f l c : decrS l -> above l c -> follow (S (S f)) c l = Some (map flow l).
  Proof.
    intros S Ha. destruct l as [|h t]; [reflexivity|].
    assert (Hn : h :: t <> []) by discriminate.
    rewrite follow_S.
    rewrite (not_inside_above (h :: t) c Hn Ha).
    destruct (Qltb (Qabs (last (h :: t) 0 - c)) (Qabs (h - c))) eqn:E.
    - rewrite (base_incr_above f (rev (h :: t)) c (decr_rev _ S) (above_rev _ c Ha)). rewrite map_rev_rev. reflexivity.
    - reflexivity.
  Qed.

  (* splitting a sorted list at psi0 *)
  Lemma filter_none (g : Q -> bool) l : (forall x, In x l -> g x = false) -> filter g l = [].
  Proof. induction l as [|a t IH]; intro H; [reflexivity|]. simpl. rewrite (H a (or_introl eq_refl)). apply IH. intros x Hx. apply H. right. exact Hx. Qed.
  Lemma filter_all (g : Q -> bool) l : (forall x, In x l -> g x = true) -> filter g l = l.
  Proof. induction l as [|a t IH]; intro H; [reflexivity|]. simpl. rewrite (H a (or_introl eq_refl)). f_equal. apply IH. intros x Hx. apply H. right. exact Hx. Qed.

  Lemma split_incr l c : incrS l -> filter (fun p => Qltb p c) l ++ filter (fun p => Qle_bool c p) l = l.
  Proof.
    induction l as [|h t IH]; intro S; [reflexivity|]. inversion S as [|? ? Hs Hf]; subst. simpl.
    rewrite Forall_forall in Hf.
    destruct (Qltb h c) eqn:E1.
    - assert (E2 : Qle_bool c h = false) by (apply Qltb_true in E1; destruct (Qle_bool c h) eqn:X; [apply Qle_bool_iff in X; lra | reflexivity]).
      rewrite E2. simpl. f_equal. apply IH; assumption.
    - apply Qltb_false in E1. assert (E2 : Qle_bool c h = true) by (apply Qle_bool_iff; exact E1). rewrite E2.
      rewrite filter_none by (intros x Hx; apply Qltb_false; specialize (Hf x Hx); lra).
      rewrite filter_all by (intros x Hx; apply Qle_bool_iff; specialize (Hf x Hx); lra). reflexivity.
  Qed.
  Lemma split_decr l c : decrS l -> filter (fun p => Qle_bool c p) l ++ filter (fun p => Qltb p c) l = l.
  Proof.
    induction l as [|h t IH]; intro S; [reflexivity|]. inversion S as [|? ? Hs Hf]; subst. simpl.
    rewrite Forall_forall in Hf.
    destruct (Qle_bool c h) eqn:E1.
    - assert (E2 : Qltb h c = false) by (apply Qltb_false; apply Qle_bool_iff; exact E1). rewrite E2. simpl. f_equal. apply IH; assumption.
    - assert (E2 : Qltb h c = true) by (unfold Qltb; rewrite E1; reflexivity). rewrite E2. apply Qltb_true in E2.
      rewrite filter_none by (intros x Hx; specialize (Hf x Hx); simpl in Hf; destruct (Qle_bool c x) eqn:Y; [apply Qle_bool_iff in Y; lra | reflexivity]).
      rewrite filter_all by (intros x Hx; apply Qltb_true; specialize (Hf x Hx); simpl in Hf; lra). reflexivity.
  Qed.

  Lemma filter_lt_below l c : below (filter (fun p => Qltb p c) l) c.
  Proof. intros x Hx. apply filter_In in Hx. destruct Hx as [_ Hx]. apply Qltb_true in Hx. lra. Qed.
  Lemma filter_ge_above l c : above (filter (fun p => Qle_bool c p) l) c.
  Proof. intros x Hx. apply filter_In in Hx. destruct Hx as [_ Hx]. apply Qle_bool_iff in Hx. exact Hx. Qed.

  Lemma not_inside_cases l c : l <> [] -> Qltb (lmin l) c && Qltb c (lmax l) = false -> above l c \/ below l c.
  Proof.
    intros Hn H. apply andb_false_iff in H. destruct H as [H|H]; apply Qltb_false in H.
    - left. intros x Hx. destruct (lmin_spec l Hn) as [_ B]. specialize (B x Hx). lra.
    - right. intros x Hx. destruct (lmax_spec l Hn) as [_ B]. specialize (B x Hx). lra.
  Qed.

  (* THE THEOREM: for every strictly monotone psivals and every psi0 the points come back in the order of psivals *)
  Theorem follow_order_incr f l c : incrS l -> follow (S (S (S (S f)))) c l = Some (map flow l).
  Proof.
    intro S. destruct l as [|h t]; [reflexivity|]. set (l := h :: t) in *.
    assert (Hn : l <> []) by discriminate.
    destruct (Qltb (lmin l) c && Qltb c (lmax l)) eqn:Ein.
    - rewrite follow_S. unfold l at 1. fold l. rewrite Ein.
      destruct (Qltb h c) eqn:Eh.
      + rewrite (base_decr_below _ (rev (filter (fun p => Qltb p c) l)) c); [| apply incr_rev; apply SS_filter; exact S | apply below_rev; apply filter_lt_below].
        rewrite (base_incr_above _ (filter (fun p => Qle_bool c p) l) c); [| apply SS_filter; exact S | apply filter_ge_above].
        rewrite map_rev_rev, <- map_app, split_incr by exact S. reflexivity.
      + (* psi0 <= first of an increasing list: everything is >= psi0 *)
        apply Qltb_false in Eh.
        assert (Ha : above l c). { intros x Hx. pose proof (incr_first_le h t x S Hx). lra. }
        exfalso. destruct (lmin_spec l Hn) as [Hin _]. specialize (Ha _ Hin). apply andb_true_iff in Ein. destruct Ein as [E1 _]. apply Qltb_true in E1. lra.
    - destruct (not_inside_cases l c Hn Ein) as [Ha|Hb].
      + apply base_incr_above; assumption.
      + apply far_incr_below; assumption.
  Qed.
  Theorem follow_order_decr f l c : decrS l -> follow (S (S (S (S f)))) c l = Some (map flow l).
  Proof.
    intro S. destruct l as [|h t]; [reflexivity|]. set (l := h :: t) in *.
    assert (Hn : l <> []) by discriminate.
    destruct (Qltb (lmin l) c && Qltb c (lmax l)) eqn:Ein.
    - rewrite follow_S. unfold l at 1. fold l. rewrite Ein.
      destruct (Qltb h c) eqn:Eh.
      + (* first of a decreasing list below psi0: everything is < psi0: contradiction with inside *)
        apply Qltb_true in Eh.
        assert (Hb : below l c). { intros x Hx. pose proof (decr_first_ge h t x S Hx). lra. }
        exfalso. destruct (lmax_spec l Hn) as [Hin _]. specialize (Hb _ Hin). apply andb_true_iff in Ein. destruct Ein as [_ E2]. apply Qltb_true in E2. lra.
      + rewrite (base_incr_above _ (rev (filter (fun p => Qle_bool c p) l)) c); [| apply decr_rev; apply SS_filter; exact S | apply above_rev; apply filter_ge_above].
        rewrite (base_decr_below _ (filter (fun p => Qltb p c) l) c); [| apply SS_filter; exact S | apply filter_lt_below].
        rewrite map_rev_rev, <- map_app, split_decr by exact S. reflexivity.
    - destruct (not_inside_cases l c Hn Ein) as [Ha|Hb].
      + apply far_decr_above; assumption.
      + apply base_decr_below; assumption.
  Qed.
End FollowProofs.

(* ---------------- a whole region: follow every skeleton point, reverse back inside the separatrix, transpose, slice ---------------- *)
Section RegionPoints.
  Variable P : Type.
  Variable dflt : P.
  Variable flow : P -> Q -> P.        (* ORACLE: the point of the grad-psi line through p0 at flux value psi *)
  Variable psi_of : P -> Q.           (* psi at a skeleton point *)

  Definition perp (inside : bool) (psi_vals : list Q) (p0 : P) : option (list P) :=
    if inside then option_map (@rev P) (follow P (flow p0) 4 (psi_of p0) (rev psi_vals))
    else follow P (flow p0) 4 (psi_of p0) psi_vals.

  Lemma perp_is_map inside psi_vals p0 : incrS psi_vals \/ decrS psi_vals ->
    perp inside psi_vals p0 = Some (map (flow p0) psi_vals).
  Proof.
    intros [H|H]; unfold perp; destruct inside.
    - rewrite (follow_order_decr P (flow p0) 0 (rev psi_vals) _ (incr_rev _ H)). simpl. rewrite map_rev, rev_involutive. reflexivity.
    - apply follow_order_incr. exact H.
    - rewrite (follow_order_incr P (flow p0) 0 (rev psi_vals) _ (decr_rev _ H)). simpl. rewrite map_rev, rev_involutive. reflexivity.
    - apply follow_order_decr. exact H.
  Qed.

  Definition contours_of (psi_vals : list Q) (skeleton : list P) : list (list P) :=
    transpose dflt (length psi_vals) (map (fun p0 => map (flow p0) psi_vals) skeleton).

  (* entry (i, j) of the array filled with slices (cs, ps) is the flow of skeleton point ps+2j to flux value cs+2i *)
  Theorem region_entry cs ps psi_vals skeleton i j :
    (cs + 2 * i < length psi_vals)%nat -> (ps + 2 * j < length skeleton)%nat ->
    nth j (nth i (fill cs ps (contours_of psi_vals skeleton)) []) dflt
    = flow (nth (ps + 2 * j) skeleton dflt) (nth (cs + 2 * i) psi_vals 0).
  Proof.
    intros Hi Hj. unfold contours_of.
    assert (Lc : length (transpose dflt (length psi_vals) (map (fun p0 => map (flow p0) psi_vals) skeleton)) = length psi_vals)
      by (unfold transpose; rewrite map_length, seq_length; reflexivity).
    assert (Lr : forall k, (k < length psi_vals)%nat ->
               length (nth k (transpose dflt (length psi_vals) (map (fun p0 => map (flow p0) psi_vals) skeleton)) []) = length skeleton).
    { intros k Hk. unfold transpose. rewrite (nth_indep _ [] (column dflt 0 (map (fun p0 => map (flow p0) psi_vals) skeleton))) by (rewrite map_length, seq_length; exact Hk).
      rewrite (map_nth (fun i0 => column dflt i0 (map (fun p0 => map (flow p0) psi_vals) skeleton)) (seq 0 (length psi_vals)) 0%nat k).
      unfold column. rewrite !map_length. reflexivity. }
    rewrite fill_nth; [| rewrite Lc; exact Hi | rewrite Lr by exact Hi; exact Hj].
    rewrite transpose_nth; [| exact Hi | rewrite map_length; exact Hj].
    rewrite (nth_indep _ [] (map (flow dflt) psi_vals)) by (rewrite map_length; exact Hj).
    rewrite (map_nth (fun p0 => map (flow p0) psi_vals) skeleton dflt (ps + 2 * j)).
    rewrite (nth_indep _ dflt (flow (nth (ps + 2 * j) skeleton dflt) 0)) by (rewrite map_length; exact Hi).
    rewrite (map_nth (flow (nth (ps + 2 * j) skeleton dflt)) psi_vals 0 (cs + 2 * i)). reflexivity.
  Qed.
End RegionPoints.
