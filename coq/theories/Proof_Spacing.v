(* C10: the poloidal spacing functions.  S_* are REGENERATED from equilibrium.py (gen/Gen_Spacing.v): one closed-form definition per
   branch and piece of getSqrtPoloidalDistanceFunc / getMonotonicPoloidalDistanceFunc / getLinearPoloidalDistanceFunc. *)
From Coq Require Import Reals Lra.
From Coquelicot Require Import Coquelicot.
From HG Require Import Gen_Spacing.
Local Open Scope R_scope.

Lemma sq_pos_q N Nn : 0 < N -> 0 < Nn -> 0 < sqrt (N / Nn).
Proof. intros. apply sqrt_lt_R0. apply Rdiv_lt_0_compat; assumption. Qed.
Lemma N_as_q N Nn : 0 < N -> 0 < Nn -> N = sqrt (N / Nn) * sqrt (N / Nn) * Nn.
Proof. intros. rewrite sqrt_sqrt; [field; lra | apply Rlt_le, Rdiv_lt_0_compat; assumption]. Qed.

(* replace N by q*q*Nn with q = sqrt(N/Nn) an opaque positive number: the identities are then polynomial *)
Ltac qsub N Nn HN HNn q :=
  let Hq := fresh "Hq" in let HN2 := fresh "HN2" in
  pose proof (sq_pos_q N Nn HN HNn) as Hq; pose proof (N_as_q N Nn HN HNn) as HN2;
  set (q := sqrt (N / Nn)) in *; clearbody q; clear HN; subst N.
Ltac fin := repeat split; try lra; try nra.

Section Sqrt2.
  Variables L N Nn al bl au bu : R.
  Hypothesis HN : 0 < N.
  Hypothesis HNn : 0 < Nn.

  Ltac ends := replace (0 / Nn) with 0 by (field; lra); replace ((N - N) / Nn) with 0 by (field; lra); replace ((N - 0) / Nn) with (N / Nn) by (field; lra); rewrite ?sqrt_0.

  Lemma gen_ends : S_sqrt2_gen_main L N Nn al bl au bu 0 = 0 /\ S_sqrt2_gen_main L N Nn al bl au bu N = L.
  Proof. unfold S_sqrt2_gen_main. ends. qsub N Nn HN HNn q. split; field; fin. Qed.
  Lemma a0_ends : S_sqrt2_a0_main L N Nn 0 bl au bu 0 = 0 /\ S_sqrt2_a0_main L N Nn 0 bl au bu N = L.
  Proof. unfold S_sqrt2_a0_main. ends. qsub N Nn HN HNn q. split; field; fin. Qed.
  Lemma b0_ends : S_sqrt2_b0_main L N Nn al bl 0 bu 0 = 0 /\ S_sqrt2_b0_main L N Nn al bl 0 bu N = L.
  Proof. unfold S_sqrt2_b0_main. ends. qsub N Nn HN HNn q. split; field; fin. Qed.
  Lemma z00_ends : S_sqrt2_00_main L N Nn 0 bl 0 bu 0 = 0 /\ S_sqrt2_00_main L N Nn 0 bl 0 bu N = L.
  Proof. unfold S_sqrt2_00_main. ends. qsub N Nn HN HNn q. split; field; fin. Qed.

  (* the special-case pieces are the general function without the sqrt term that vanishes *)
  Lemma gen_a0 i : S_sqrt2_gen_main L N Nn al bl au bu i = S_sqrt2_a0_main L N Nn al bl au bu i + 2 * al * sqrt (i / Nn).
  Proof. unfold S_sqrt2_gen_main, S_sqrt2_a0_main. ring. Qed.
  Lemma gen_b0 i : S_sqrt2_gen_main L N Nn al bl au bu i = S_sqrt2_b0_main L N Nn al bl au bu i - 2 * au * sqrt ((N - i) / Nn).
  Proof. unfold S_sqrt2_gen_main, S_sqrt2_b0_main. ring. Qed.
  Lemma a0_00 i : S_sqrt2_a0_main L N Nn al bl au bu i = S_sqrt2_00_main L N Nn al bl au bu i - 2 * au * sqrt ((N - i) / Nn).
  Proof. unfold S_sqrt2_00_main, S_sqrt2_a0_main. ring. Qed.

  (* ds/diN(0) ~ a_lower/sqrt(iN) + b_lower: the part without the lower sqrt term has gradient b_lower (per unit of the normalised index) *)
  Lemma grad_lower : is_derive (fun i => S_sqrt2_a0_main L N Nn al bl au bu i) 0 (bl / Nn).
  Proof.
    unfold S_sqrt2_a0_main. auto_derive.
    - repeat split. replace ((N + - 0) * / Nn) with (N / Nn) by (field; lra). apply Rdiv_lt_0_compat; assumption.
    - replace ((N + - 0) * / Nn) with (N / Nn) by (field; lra). qsub N Nn HN HNn q. field. fin.
  Qed.

  Lemma grad_upper : is_derive (fun i => S_sqrt2_b0_main L N Nn al bl au bu i) N (bu / Nn).
  Proof.
    unfold S_sqrt2_b0_main. auto_derive.
    - repeat split. apply Rdiv_lt_0_compat; assumption.
    - fold (N / Nn). qsub N Nn HN HNn q. field. fin.
  Qed.

  (* ---- continuation below i = 0 (case: no sqrt term at the lower end): A (exp(B iN) - 1) with A = b_lower / B *)
  Notation Bl := (S_sqrt2_a0_lower_B L N Nn al bl au bu).
  Lemma lower_form i : S_sqrt2_a0_lower L N Nn al bl au bu i = bl / Bl * (exp (Bl * i / Nn) - 1).
  Proof. reflexivity. Qed.

  Lemma lower_value : S_sqrt2_a0_lower L N Nn al bl au bu 0 = 0.
  Proof. rewrite lower_form. replace (Bl * 0 / Nn) with 0 by (unfold Rdiv; ring). rewrite exp_0. ring. Qed.

  Lemma lower_d x : Bl <> 0 -> is_derive (fun i => S_sqrt2_a0_lower L N Nn al bl au bu i) x (bl / Nn * exp (Bl * x / Nn)).
  Proof.
    intros HB. apply (is_derive_ext (fun i => bl / Bl * (exp (Bl * i / Nn) - 1))); [intros t; symmetry; apply lower_form|].
    generalize Bl HB. intros B HB'. auto_derive; [exact I|]. unfold Rdiv. field. split; lra.
  Qed.

  Lemma lower_dd : Bl <> 0 -> is_derive (fun x => bl / Nn * exp (Bl * x / Nn)) 0 (Bl * bl / (Nn * Nn)).
  Proof.
    intros HB. generalize Bl HB. intros B HB'. auto_derive; [exact I|].
    replace (B * 0 * / Nn) with 0 by ring. rewrite exp_0. field. lra.
  Qed.

  (* the main piece has the same value (0), gradient (b_lower/N_norm) and curvature at i = 0 *)
  Lemma main_dd_lower : bl <> 0 -> exists d1 : R -> R, (forall x, x < N -> is_derive (fun i => S_sqrt2_a0_main L N Nn al bl au bu i) x (d1 x)) /\
    d1 0 = bl / Nn /\ is_derive d1 0 (Bl * bl / (Nn * Nn)).
  Proof.
    intros Hb. eexists. split; [|split].
    - intros x Hx. unfold S_sqrt2_a0_main. auto_derive.
      + repeat split. apply Rdiv_lt_0_compat; lra.
      + reflexivity.
    - cbv beta. replace ((N + - 0) * / Nn) with (N / Nn) by (field; lra). qsub N Nn HN HNn q. field. fin.
    - auto_derive.
      + replace ((N + - 0) * / Nn) with (N / Nn) by (field; lra). pose proof (sq_pos_q N Nn HN HNn). repeat split; [apply Rdiv_lt_0_compat; assumption | lra].
      + unfold S_sqrt2_a0_lower_B. replace ((N + - 0) * / Nn) with (N / Nn) by (field; lra). qsub N Nn HN HNn q. field. fin.
  Qed.

  (* ---- continuation above i = N (case: no sqrt term at the upper end): A (1 - exp(B (N/N_norm - iN))) + L with A = b_upper / B *)
  Notation Bu := (S_sqrt2_b0_upper_B L N Nn al bl au bu).
  Lemma upper_form i : S_sqrt2_b0_upper L N Nn al bl au bu i = bu / Bu * (1 - exp (Bu * (N / Nn - i / Nn))) + L.
  Proof. reflexivity. Qed.

  Lemma upper_value : S_sqrt2_b0_upper L N Nn al bl au bu N = L.
  Proof. rewrite upper_form. replace (Bu * (N / Nn - N / Nn)) with 0 by ring. rewrite exp_0. ring. Qed.

  Lemma upper_d x : Bu <> 0 -> is_derive (fun i => S_sqrt2_b0_upper L N Nn al bl au bu i) x (bu / Nn * exp (Bu * (N / Nn - x / Nn))).
  Proof.
    intros HB. apply (is_derive_ext (fun i => bu / Bu * (1 - exp (Bu * (N / Nn - i / Nn))) + L)); [intros t; symmetry; apply upper_form|].
    generalize Bu HB. intros B HB'. auto_derive; [exact I|]. unfold Rdiv, Rminus. field. split; lra.
  Qed.

  Lemma upper_dd : Bu <> 0 -> is_derive (fun x => bu / Nn * exp (Bu * (N / Nn - x / Nn))) N (- (Bu * bu) / (Nn * Nn)).
  Proof.
    intros HB. generalize Bu HB. intros B HB'. auto_derive; [exact I|].
    replace (B * (N / Nn + - (N * / Nn))) with 0 by (unfold Rdiv; ring). rewrite exp_0. field. lra.
  Qed.

  (* the main piece has the same value (L), gradient (b_upper/N_norm) and curvature at i = N *)
  Lemma main_dd_upper : bu <> 0 -> exists d1 : R -> R, (forall x, 0 < x -> is_derive (fun i => S_sqrt2_b0_main L N Nn al bl au bu i) x (d1 x)) /\
    d1 N = bu / Nn /\ is_derive d1 N (- (Bu * bu) / (Nn * Nn)).
  Proof.
    intros Hb. pose proof (sq_pos_q N Nn HN HNn) as Hq0. eexists. split; [|split].
    - intros x Hx. unfold S_sqrt2_b0_main. auto_derive.
      + repeat split. apply Rdiv_lt_0_compat; lra.
      + reflexivity.
    - cbv beta. fold (N / Nn). qsub N Nn HN HNn q. field. fin.
    - auto_derive.
      + fold (N / Nn). repeat split; [apply Rdiv_lt_0_compat; assumption | lra].
      + unfold S_sqrt2_b0_upper_B. fold (N / Nn). qsub N Nn HN HNn q. field. fin.
  Qed.

  (* the continuations are strictly increasing (whatever the sign of the curvature) when the end gradient is positive *)
  Lemma E_increasing A B (H : B <> 0) (HA : 0 < A * B) x y : x < y -> A * (exp (B * x / Nn) - 1) < A * (exp (B * y / Nn) - 1).
  Proof.
    intros Hxy. destruct (Rtotal_order B 0) as [Hn | [Hz | Hp]]; [| contradiction |].
    - assert (A < 0) by nra. assert (exp (B * y / Nn) < exp (B * x / Nn)).
      { apply exp_increasing. unfold Rdiv. assert (0 < / Nn) by (apply Rinv_0_lt_compat; lra). assert (B * y < B * x) by nra. apply Rmult_lt_compat_r; assumption. }
      nra.
    - assert (0 < A) by nra. assert (exp (B * x / Nn) < exp (B * y / Nn)).
      { apply exp_increasing. unfold Rdiv. assert (0 < / Nn) by (apply Rinv_0_lt_compat; lra). assert (B * x < B * y) by nra. apply Rmult_lt_compat_r; assumption. }
      nra.
  Qed.

  Lemma lower_increasing : Bl <> 0 -> 0 < bl -> forall x y, x < y -> S_sqrt2_a0_lower L N Nn al bl au bu x < S_sqrt2_a0_lower L N Nn al bl au bu y.
  Proof.
    intros HB Hb x y Hxy. rewrite !lower_form. apply E_increasing; [exact HB | | exact Hxy].
    replace (bl / Bl * Bl) with bl by (field; exact HB). exact Hb.
  Qed.

  Lemma upper_increasing : Bu <> 0 -> 0 < bu -> forall x y, x < y -> S_sqrt2_b0_upper L N Nn al bl au bu x < S_sqrt2_b0_upper L N Nn al bl au bu y.
  Proof.
    intros HB Hb x y Hxy. rewrite !upper_form.
    assert (E : forall t, bu / Bu * (1 - exp (Bu * (N / Nn - t / Nn))) + L = L + (bu / - Bu) * (exp (- Bu * (t - N) / Nn) - 1)).
    { intros t. replace (- Bu * (t - N) / Nn) with (Bu * (N / Nn - t / Nn)) by (field; lra). field; repeat split; first [lra | exact HB]. }
    rewrite !E. assert (HB' : - Bu <> 0) by lra.
    assert (bu / - Bu * (exp (- Bu * (x - N) / Nn) - 1) < bu / - Bu * (exp (- Bu * (y - N) / Nn) - 1)).
    { apply E_increasing; [exact HB' | | lra]. replace (bu / - Bu * - Bu) with bu by (field; exact HB). exact Hb. }
    lra.
  Qed.
End Sqrt2.

(* resolution consistency: the functions depend on (i, N, N_norm) only through i/N_norm and N/N_norm, so multiplying the number of points,
   N_norm (= prefactor * ny_total) and the index by the same factor gives the same distance: every face of the coarse grid is a face of the finer *)
Section Scaling.
  Variables L N Nn al bl au bu k i : R.
  Hypothesis HN : 0 < N.
  Hypothesis HNn : 0 < Nn.
  Hypothesis Hk : 0 < k.
  Ltac norm_args :=
    replace (k * i / (k * Nn)) with (i / Nn) by (field; lra);
    replace ((k * N - k * i) / (k * Nn)) with ((N - i) / Nn) by (field; lra);
    replace (k * N / (k * Nn)) with (N / Nn) by (field; lra).
  Lemma scale_gen : S_sqrt2_gen_main L (k * N) (k * Nn) al bl au bu (k * i) = S_sqrt2_gen_main L N Nn al bl au bu i.
  Proof. unfold S_sqrt2_gen_main. norm_args. pose proof (sq_pos_q N Nn HN HNn). field. fin. Qed.
End Scaling.

(* ---- getMonotonicPoloidalDistanceFunc, cubic ("convex") case *)
Section MonoConvex.
  Variables L N Nn dl du : R.
  Hypothesis HN : 0 < N.
  Hypothesis HNn : 0 < Nn.

  Lemma convex_ends : S_mono_convex_main L N Nn dl du 0 = 0 /\ S_mono_convex_main L N Nn dl du N = L.
  Proof. unfold S_mono_convex_main. split; field; fin. Qed.

  (* sprime(t) = a t^2 + b t + c written as the chord between the end gradients plus a bulge *)
  Definition sprime (x : R) : R := dl * (1 - x / N) + du * (x / N) + (6 * L * Nn / N - 3 * (du + dl)) * (x / N) * (1 - x / N).

  Lemma convex_d x : is_derive (fun i => S_mono_convex_main L N Nn dl du i) x (sprime x / Nn).
  Proof. unfold S_mono_convex_main, sprime. auto_derive; [exact I|]. field. fin. Qed.

  Lemma convex_grad : is_derive (fun i => S_mono_convex_main L N Nn dl du i) 0 (dl / Nn) /\ is_derive (fun i => S_mono_convex_main L N Nn dl du i) N (du / Nn).
  Proof.
    split; [replace (dl / Nn) with (sprime 0 / Nn) | replace (du / Nn) with (sprime N / Nn)]; try apply convex_d; unfold sprime; field; fin.
  Qed.

  (* in the case the code selects this branch for (length >= (d_lower + d_upper)/2 * N/N_norm, up to its 1e-8 tolerance: eps), the gradient is
     positive on the whole of [0, N] when it is positive at both ends *)
  Lemma convex_positive eps x : 0 < dl -> 0 < du -> 0 <= x <= N -> 0 <= eps -> L >= (du + dl) / 2 * (N / Nn) - eps -> 3 * eps * Nn / (2 * N) < Rmin dl du ->
    0 < sprime x / Nn.
  Proof.
    intros Hl Hu Hx He HL Hsmall. apply Rdiv_lt_0_compat; [|exact HNn]. unfold sprime.
    set (u := x / N). assert (Hu01 : 0 <= u <= 1). { unfold u. split; [apply Rdiv_le_0_compat; lra | apply (Rmult_le_reg_r N); [lra|]; unfold Rdiv; rewrite Rmult_assoc, Rinv_l; lra]. }
    assert (Hb : 6 * L * Nn / N - 3 * (du + dl) >= - (6 * eps * Nn / N)).
    { assert (L * Nn / N >= (du + dl) / 2 - eps * Nn / N).
      { apply Rle_ge. apply (Rmult_le_reg_r (N / Nn)); [apply Rdiv_lt_0_compat; lra|]. replace (L * Nn / N * (N / Nn)) with L by (field; lra).
        replace (((du + dl) / 2 - eps * Nn / N) * (N / Nn)) with ((du + dl) / 2 * (N / Nn) - eps) by (field; lra). lra. }
      replace (6 * L * Nn / N) with (6 * (L * Nn / N)) by (field; lra). replace (6 * eps * Nn / N) with (6 * (eps * Nn / N)) by (field; lra). lra. }
    assert (Hm : Rmin dl du <= dl * (1 - u) + du * u).
    { unfold Rmin. destruct (Rle_dec dl du); nra. }
    assert (Hq : u * (1 - u) <= 1 / 4). { pose proof (Rle_0_sqr (u - 1 / 2)) as Hsq. unfold Rsqr in Hsq. lra. }
    assert (Hs : 3 * eps * Nn / (2 * N) = 6 * eps * Nn / N * (1 / 4)) by (field; lra).
    assert (HE : 0 <= 6 * eps * Nn / N). { apply Rdiv_le_0_compat; [nra | lra]. }
    set (E := 6 * eps * Nn / N) in *. set (K := 6 * L * Nn / N - 3 * (du + dl)) in *.
    assert (Hw : 0 <= u * (1 - u)) by nra. set (w := u * (1 - u)) in *.
    assert (K * w >= - E * w) by nra. assert (E * w <= E * (1 / 4)) by nra.
    replace (dl * (1 - u) + du * u + K * u * (1 - u)) with (dl * (1 - u) + du * u + K * w) by (unfold w; ring). lra.
  Qed.

  Lemma convex_extrap : S_mono_convex_lower L N Nn dl du 0 = 0 /\ S_mono_convex_upper L N Nn dl du N = L /\
    (forall x, is_derive (fun i => S_mono_convex_lower L N Nn dl du i) x (dl / Nn)) /\ (forall x, is_derive (fun i => S_mono_convex_upper L N Nn dl du i) x (du / Nn)).
  Proof.
    unfold S_mono_convex_lower, S_mono_convex_upper. split; [field; lra|]. split; [field; lra|]. split; intros t; (auto_derive; [exact I | field; lra]).
  Qed.
End MonoConvex.

(* ---- getMonotonicPoloidalDistanceFunc, logarithmic ("concave") case: l1 is the root brentq returns (CONTRACT), l2, l3, r2, r3 the code's functions of it *)
Section MonoConcave.
  Variables L N Nn dl du l1 : R.
  Hypothesis HN : 0 < N.
  Hypothesis HNn : 0 < Nn.
  Hypothesis Hdl : 0 < dl.
  Hypothesis Hdu : 0 < du.
  Hypothesis Hl1 : 0 < l1.
  Notation l2 := (S_mono_concave_l2 L N Nn dl du l1).
  Notation l3 := (S_mono_concave_l3 L N Nn dl du l1).
  Notation r2 := (S_mono_concave_r2 L N Nn dl du l1).
  Notation r3 := (S_mono_concave_r3 L N Nn dl du l1).
  Notation T := (N / Nn).

  (* x = (-d T + sqrt((d T)^2 + 4 d l1 T)) / (2 d) is the positive root of d T x + d x^2 = l1 T *)
  Lemma root_pos d : 0 < d -> let x := (- d * N / Nn + sqrt (d * N / Nn * (d * N / Nn) + 4 * d * l1 * N / Nn)) / (2 * d) in 0 < x /\ d * T * x + d * x * x = l1 * T.
  Proof.
    intros Hd x. assert (HT : 0 < T) by (apply Rdiv_lt_0_compat; assumption).
    set (D := d * N / Nn * (d * N / Nn) + 4 * d * l1 * N / Nn) in *.
    assert (HD : 0 < D). { unfold D. replace (d * N / Nn) with (d * T) by (field; lra). replace (4 * d * l1 * N / Nn) with (4 * (d * l1) * T) by (field; lra). assert (0 < d * l1) by nra. assert (0 < d * l1 * T) by nra. nra. }
    assert (Hs : sqrt D * sqrt D = D) by (apply sqrt_sqrt; lra). assert (Hsp : 0 < sqrt D) by (apply sqrt_lt_R0; exact HD).
    assert (Hgt : d * T < sqrt D).
    { apply Rsqr_incrst_0; [| nra | lra]. unfold Rsqr. rewrite Hs. unfold D. replace (d * N / Nn) with (d * T) by (field; lra). replace (4 * d * l1 * N / Nn) with (4 * (d * l1) * T) by (field; lra). assert (0 < d * l1) by nra. assert (0 < d * l1 * T) by nra. nra. }
    split.
    - unfold x. apply Rdiv_lt_0_compat; [| lra]. replace (- d * N / Nn) with (- (d * T)) by (field; lra). lra.
    - unfold x. replace (- d * N / Nn) with (- (d * T)) by (field; lra). set (s := sqrt D) in *.
      assert (E : d * T * ((- (d * T) + s) / (2 * d)) + d * ((- (d * T) + s) / (2 * d)) * ((- (d * T) + s) / (2 * d)) = (s * s - d * T * (d * T)) / (4 * d)) by (field; lra).
      rewrite E, Hs. unfold D. field. lra.
  Qed.

  Lemma l2_root : 0 < l2 /\ dl * T * l2 + dl * l2 * l2 = l1 * T.
  Proof. exact (root_pos dl Hdl). Qed.
  Lemma r2_root : 0 < r2 /\ du * T * r2 + du * r2 * r2 = l1 * T.
  Proof. exact (root_pos du Hdu). Qed.

  Lemma l3_def : l3 = l1 / l2 - dl. Proof. reflexivity. Qed.
  Lemma r3_def : r3 = l1 / r2 - du. Proof. reflexivity. Qed.

  (* l(iN) = l1/(iN + l2) - l3 goes from d_lower at 0 to 0 at N/N_norm; r(iN) = l1/(r2 + N/N_norm - iN) - r3 from 0 to d_upper *)
  Lemma l_ends : l1 / l2 - l3 = dl /\ l1 / (T + l2) - l3 = 0.
  Proof.
    destruct l2_root as [Hp Hr]. assert (HT : 0 < T) by (apply Rdiv_lt_0_compat; assumption). rewrite l3_def. generalize l2 Hp Hr. intros a Ha Hr'. split; [ring|].
    apply (Rmult_eq_reg_r (a * (T + a))); [| nra]. replace ((l1 / (T + a) - (l1 / a - dl)) * (a * (T + a))) with (dl * T * a + dl * a * a - l1 * T) by (field; repeat split; try lra; nra). rewrite Hr'. ring.
  Qed.
  Lemma r_ends : l1 / (r2 + T) - r3 = 0 /\ l1 / r2 - r3 = du.
  Proof.
    destruct r2_root as [Hp Hr]. assert (HT : 0 < T) by (apply Rdiv_lt_0_compat; assumption). rewrite r3_def. generalize r2 Hp Hr. intros a Ha Hr'. split; [|ring].
    apply (Rmult_eq_reg_r (a * (a + T))); [| nra]. replace ((l1 / (a + T) - (l1 / a - du)) * (a * (a + T))) with (du * T * a + du * a * a - l1 * T) by (field; repeat split; try lra; nra). rewrite Hr'. ring.
  Qed.

  Notation main := (fun i => S_mono_concave_main L N Nn dl du l1 l2 l3 r2 r3 i).

  Lemma concave_start : main 0 = 0.
  Proof.
    cbv beta. unfold S_mono_concave_main. replace (0 / Nn / l2 + 1) with 1 by (unfold Rdiv; ring). replace (1 - 0 / (Nn * (r2 + N / Nn))) with 1 by (unfold Rdiv; ring).
    rewrite ln_1. unfold Rdiv. ring.
  Qed.

  (* the value at the last index misses the contour length by exactly the residual of the constraint that brentq solves *)
  Lemma constraint_form : S_mono_concave_constraint L N Nn dl du l1 = S_mono_concave_constraintv L N Nn dl du l1 l2 l3 r2 r3.
  Proof. reflexivity. Qed.

  Lemma concave_end : main N - L = S_mono_concave_constraint L N Nn dl du l1.
  Proof.
    destruct l2_root as [Hl2 _]. destruct r2_root as [Hr2 _]. assert (HT : 0 < T) by (apply Rdiv_lt_0_compat; assumption).
    rewrite constraint_form. cbv beta. generalize l2 l3 r2 r3 Hl2 Hr2. intros a b c d Ha Hc.
    unfold S_mono_concave_main, S_mono_concave_constraintv.
    replace (N / Nn / a + 1) with (N / (Nn * a) + 1) by (field; lra).
    assert (Hpos : 0 < N / (Nn * c) + 1). { assert (0 < N / (Nn * c)) by (apply Rdiv_lt_0_compat; nra). lra. }
    replace (1 - N / (Nn * (c + N / Nn))) with (/ (N / (Nn * c) + 1)).
    - rewrite ln_Rinv by exact Hpos. ring.
    - assert (Nn * c + N <> 0) by nra. field. repeat split; try lra; nra.
  Qed.

  Lemma concave_d x : 0 <= x <= N -> is_derive main x ((l1 / (x / Nn + l2) - l3 + (l1 / (r2 + T - x / Nn) - r3)) / Nn).
  Proof.
    intros Hx. destruct l2_root as [Hl2 _]. destruct r2_root as [Hr2 _]. assert (HT : 0 < T) by (apply Rdiv_lt_0_compat; assumption).
    assert (Hx1 : 0 <= x / Nn) by (apply Rdiv_le_0_compat; lra).
    assert (Hx2 : x / Nn <= T) by (unfold Rdiv; apply Rmult_le_compat_r; [apply Rlt_le, Rinv_0_lt_compat; lra | lra]).
    unfold S_mono_concave_main. generalize l2 l3 r2 r3 Hl2 Hr2. intros a b c d Ha Hc. auto_derive.
    - assert (H1 : 0 <= x * / Nn * / a). { apply Rmult_le_pos; [exact Hx1 | apply Rlt_le, Rinv_0_lt_compat; exact Ha]. }
      assert (H2 : x * / (Nn * (c + N * / Nn)) < 1).
      { replace (Nn * (c + N * / Nn)) with (Nn * c + N) by (field; lra). assert (0 < Nn * c + N) by nra.
        apply (Rmult_lt_reg_r (Nn * c + N)); [assumption|]. rewrite Rmult_assoc, Rinv_l by lra. nra. }
      repeat split; lra.
    - field. repeat split; try lra; nra.
  Qed.

  Lemma concave_grad : is_derive main 0 (dl / Nn) /\ is_derive main N (du / Nn).
  Proof.
    destruct l_ends as [A1 A2]. destruct r_ends as [B1 B2]. destruct l2_root as [Hl2 _]. destruct r2_root as [Hr2 _].
    split.
    - replace (dl / Nn) with ((l1 / (0 / Nn + l2) - l3 + (l1 / (r2 + T - 0 / Nn) - r3)) / Nn); [apply concave_d; lra|].
      replace (0 / Nn + l2) with l2 by (unfold Rdiv; ring). replace (r2 + T - 0 / Nn) with (r2 + T) by (unfold Rdiv; ring). rewrite A1, B1. field. lra.
    - replace (du / Nn) with ((l1 / (N / Nn + l2) - l3 + (l1 / (r2 + T - N / Nn) - r3)) / Nn); [apply concave_d; lra|].
      replace (r2 + T - N / Nn) with r2 by ring. rewrite A2, B2. field. lra.
  Qed.

  (* the gradient is positive on the whole of [0, N]: l decreases to 0 and r increases from 0 *)
  Lemma concave_positive x : 0 <= x <= N -> 0 < (l1 / (x / Nn + l2) - l3 + (l1 / (r2 + T - x / Nn) - r3)) / Nn.
  Proof.
    intros Hx. destruct l_ends as [A1 A2]. destruct r_ends as [B1 B2]. destruct l2_root as [Hl2 _]. destruct r2_root as [Hr2 _].
    assert (HT : 0 < T) by (apply Rdiv_lt_0_compat; assumption).
    assert (Hx1 : 0 <= x / Nn) by (apply Rdiv_le_0_compat; lra).
    assert (Hx2 : x / Nn <= T) by (unfold Rdiv; apply Rmult_le_compat_r; [apply Rlt_le, Rinv_0_lt_compat; lra | lra]).
    apply Rdiv_lt_0_compat; [|exact HNn]. set (t := x / Nn) in *.
    assert (El : l1 / (t + l2) - l3 = l1 * (T - t) / ((t + l2) * (T + l2))).
    { replace l3 with (l1 / (T + l2)) by lra. generalize l2 Hl2; intros a Ha. field. repeat split; try lra; nra. }
    assert (Er : l1 / (r2 + T - t) - r3 = l1 * t / ((r2 + T - t) * (r2 + T))).
    { replace r3 with (l1 / (r2 + T)) by lra. generalize r2 Hr2; intros a Ha. assert (HTN : T * Nn = N) by (field; lra). assert (t * Nn <= N) by nra. field. repeat split; try lra; nra. }
    rewrite El, Er.
    assert (0 <= l1 * (T - t) / ((t + l2) * (T + l2))) by (apply Rdiv_le_0_compat; nra).
    assert (0 <= l1 * t / ((r2 + T - t) * (r2 + T))) by (apply Rdiv_le_0_compat; nra).
    destruct (Rle_lt_dec t (T / 2)).
    - assert (0 < l1 * (T - t) / ((t + l2) * (T + l2))) by (apply Rdiv_lt_0_compat; nra). lra.
    - assert (0 < l1 * t / ((r2 + T - t) * (r2 + T))) by (apply Rdiv_lt_0_compat; nra). lra.
  Qed.
End MonoConcave.

Lemma concave_extrap L N Nn dl du l1 l2 l3 r2 r3 : 0 < Nn ->
  S_mono_concave_lower L N Nn dl du l1 l2 l3 r2 r3 0 = 0 /\ S_mono_concave_upper L N Nn dl du l1 l2 l3 r2 r3 N = L /\
  (forall x, is_derive (fun i => S_mono_concave_lower L N Nn dl du l1 l2 l3 r2 r3 i) x (dl / Nn)) /\
  (forall x, is_derive (fun i => S_mono_concave_upper L N Nn dl du l1 l2 l3 r2 r3 i) x (du / Nn)).
Proof.
  intros H. unfold S_mono_concave_lower, S_mono_concave_upper. split; [field; lra|]. split; [field; lra|]. split; intros t; (auto_derive; [exact I | field; lra]).
Qed.

Lemma linear_ends L N : N <> 0 -> S_linear_main L N 0 = 0 /\ S_linear_main L N N = L /\ S_sqrt0_main L N 0 = 0 /\ S_sqrt0_main L N N = L.
Proof. intros. unfold S_linear_main, S_sqrt0_main. repeat split; field; assumption. Qed.

Section Scaling2.
  Variables L N Nn dl du k i : R.
  Hypothesis HN : 0 < N.
  Hypothesis HNn : 0 < Nn.
  Hypothesis Hk : 0 < k.
  Lemma scale_convex : S_mono_convex_main L (k * N) (k * Nn) dl du (k * i) = S_mono_convex_main L N Nn dl du i.
  Proof. unfold S_mono_convex_main. field. fin. Qed.
  Lemma scale_linear : S_linear_main L (k * N) (k * i) = S_linear_main L N i.
  Proof. unfold S_linear_main. field. fin. Qed.
  Lemma scale_concave l1 l2 l3 r2 r3 : 0 < r2 -> S_mono_concave_main L (k * N) (k * Nn) dl du l1 l2 l3 r2 r3 (k * i) = S_mono_concave_main L N Nn dl du l1 l2 l3 r2 r3 i.
  Proof.
    intros H2. unfold S_mono_concave_main.
    replace (k * i / (k * Nn)) with (i / Nn) by (field; lra). replace (k * N / (k * Nn)) with (N / Nn) by (field; lra).
    replace (l3 * (k * i) / (k * Nn)) with (l3 * i / Nn) by (field; lra). replace (r3 * (k * i) / (k * Nn)) with (r3 * i / Nn) by (field; lra).
    replace (k * i / (k * Nn * (r2 + N / Nn))) with (i / (Nn * (r2 + N / Nn))); [reflexivity|].
    assert (0 < r2 * Nn + N) by nra. field. repeat split; try lra; nra.
  Qed.
End Scaling2.

(* ---- combineSfuncs (hand model of the weighting): the two end weights are clipped to [0,1] and, where their sum exceeds 1, divided by it;
   the result is a convex combination of the three spacing functions *)
Definition normalise (wl wu : R) : R * R := if Rlt_dec 1 (wl + wu) then (wl / (wl + wu), wu / (wl + wu)) else (wl, wu).
Definition combine (wl wu sl su so : R) : R := wl * sl + wu * su + (1 - wl - wu) * so.

Lemma normalise_ok wl wu : 0 <= wl -> 0 <= wu -> let p := normalise wl wu in 0 <= fst p /\ 0 <= snd p /\ fst p + snd p <= 1.
Proof.
  intros Hl Hu. unfold normalise. destruct (Rlt_dec 1 (wl + wu)) as [H|H]; cbn [fst snd].
  - assert (0 < wl + wu) by lra. repeat split; try (apply Rdiv_le_0_compat; lra).
    replace (wl / (wl + wu) + wu / (wl + wu)) with 1 by (field; lra). lra.
  - repeat split; lra.
Qed.

Lemma combine_convex a b sl su so lo hi : 0 <= a -> 0 <= b -> a + b <= 1 -> lo <= sl <= hi -> lo <= su <= hi -> lo <= so <= hi ->
  lo <= combine a b sl su so <= hi.
Proof. intros. unfold combine. split; nra. Qed.

(* end-point exactness: where the three functions agree (0 at index 0, the contour length at the last index) so does the combination *)
Lemma combine_agree a b v : combine a b v v v = v.
Proof. unfold combine. ring. Qed.

(* ---- the run-time guards.  _checkMonotonic refuses a spacing function that DEcreases between consecutive indices of the range it is used on;
   get_distance then refuses distances that do not strictly increase.  Passing both means strictly increasing. *)
Fixpoint nondecreasing (l : list R) : bool :=
  match l with
  | nil => true
  | cons x r => match r with nil => true | cons y _ => if Rlt_dec y x then false else nondecreasing r end
  end.
Fixpoint increasing (l : list R) : bool :=
  match l with
  | nil => true
  | cons x r => match r with nil => true | cons y _ => if Rlt_dec x y then increasing r else false end
  end.
Lemma increasing_spec l : increasing l = true -> forall k, (S k < length l)%nat -> List.nth k l 0 < List.nth (S k) l 0.
Proof.
  induction l as [|x r IH]; intros H k Hk; [cbn in Hk; inversion Hk|].
  destruct r as [|y r']; [cbn in Hk; apply PeanoNat.Nat.succ_lt_mono in Hk; inversion Hk|].
  cbn [increasing] in H. destruct (Rlt_dec x y) as [Hxy|]; [|discriminate].
  destruct k as [|k']; [exact Hxy|]. cbn [List.nth]. apply (IH H k'). cbn [length] in *. apply PeanoNat.Nat.succ_lt_mono. exact Hk.
Qed.
