(* C06 / C07 hand model of the finite-difference stencils MeshRegion.DDX / MeshRegion.DDY (ShiftTorsion = DDX(dphidy); the
   x-y-derivative formulation of the curvature).  One-dimensional: DDX applies it along x for every y index, DDY along y for
   every x index.
     cell values    d_centre  F dc     = (F[i+1] - F[i]) / dc[i]           (result.centre from xlow, result.ylow from corners; DDY alike)
     face values    d_face C F df i o  = interior (C[i] - C[i-1]) / df[i];
                                         first face: with an inner / lower neighbour (C[0] - c_in) / df[0], else the one-sided
                                         half-cell difference (C[0] - F[0]) / (df[0] / 2); last face alike.
   Written over the `ops` record: the PrimFloat instance is run bit for bit against the real methods on stub regions, the R
   instance carries the theorems (Proof_Stencil.v).  Definitions only. *)
From Coq Require Import ZArith List Bool Arith.
From HT Require Import Field.
Import ListNotations.

Section Stencil.
  Context {T : Type} (O : ops T).
  Definition stwo : T := oconst O 2 1.
  Definition szero : T := oconst O 0 1.

  Fixpoint diffs (l : list T) : list T :=
    match l with
    | a :: ((b :: _) as t) => osub O b a :: diffs t
    | _ => []
    end.

  Fixpoint divl (a b : list T) : list T :=
    match a, b with
    | x :: a', y :: b' => odiv O x y :: divl a' b'
    | _, _ => []
    end.

  Definition d_centre (F dc : list T) : list T := divl (diffs F) dc.

  Definition d_face (C F df : list T) (inner outer : option T) : list T :=
    let first := match inner with
                 | Some ci => odiv O (osub O (hd szero C) ci) (hd szero df)
                 | None => odiv O (osub O (hd szero C) (hd szero F)) (odiv O (hd szero df) stwo)
                 end in
    let last_ := match outer with
                 | Some co => odiv O (osub O co (last C szero)) (last df szero)
                 | None => odiv O (osub O (last F szero) (last C szero)) (odiv O (last df szero) stwo)
                 end in
    first :: divl (diffs C) (removelast (tl df)) ++ [last_].
End Stencil.
