(* C11: hand model (computable, over Q) of the wall handling: orientation normalisation and closing of the wall polygon in TokamakEquilibrium.__init__ /
   Equilibrium.__init__, the inside/outside test and the penalty mask of MeshRegion.calcPenaltyMask.  Built on the exact-rational model of
   find_intersections / area / clockwise (Model_Geom2D, tied to the code by C20's correspondence); the statements specific to calcPenaltyMask and to the
   normalisation are checked against the source by translate/wall.py and tied by C11's own correspondence run. *)
From Coq Require Import QArith Qabs List Bool.
From HT Require Import Model_Geom2D.
Import ListNotations.
Local Open Scope Q_scope.

(* wall = wall[::-1] if polygons.clockwise(wall); closed_wall = wall + [wall[0]] *)
Definition normalise_wall (w : list pt) : list pt := if clockwise w then rev w else w.
Definition close_wall (w : list pt) : list pt := match w with [] => [] | f :: _ => w ++ [f] end.

(* a point is outside when the segment from the reference point p0 (the middle of the equilibrium's bounding box) crosses the wall an odd number of times *)
Definition outside (tol : Q) (cw : list pt) (p0 p : pt) : bool := Nat.odd (length (find_intersections tol cw p0 p)).

(* fraction of the chord p1-p2 on the outside, given the crossing point pi (rational form of |po - pi| / |p1 - p2| for pi on the chord) *)
Definition frac (po pother pi : pt) : Q := dot (sub pi po) (sub pother po) / dot (sub pother po) (sub pother po).

Definition penalty (tol : Q) (cw : list pt) (p0 p1 p2 : pt) : Q :=
  let o1 := outside tol cw p0 p1 in let o2 := outside tol cw p0 p2 in
  if o1 && o2 then 1
  else if o1 || o2 then
    match find_intersections tol cw p1 p2 with
    | [] => 0
    | pi :: _ => if o1 then frac p1 p2 pi else frac p2 p1 pi
    end
  else 0.
