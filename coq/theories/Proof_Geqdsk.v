(* C17: the reader's tokenizer inverts the writer's formatting, for any number of values and any chunk phase. *)
From Coq Require Import List Arith Bool Lia.
From HT Require Import Model_Geqdsk.
Import ListNotations.

Definition not_digit_head (l : list ch) : Prop := match l with Dg _ :: _ => False | _ => True end.

Lemma take_digits_map ds r : not_digit_head r -> take_digits (map Dg ds ++ r) = (ds, r).
Proof.
  intro H. induction ds as [|d ds IH]; simpl.
  - destruct r as [|c r]; [reflexivity|]. destruct c; simpl in H; try reflexivity. contradiction.
  - rewrite IH. reflexivity.
Qed.

Lemma take_digits_length l : length (snd (take_digits l)) <= length l.
Proof.
  induction l as [|c l IH]; simpl; [lia|]. destruct c; simpl; try lia.
  destruct (take_digits l) as [ds r]. simpl in *. lia.
Qed.

Lemma take_digits_fst_digit d l : length (snd (take_digits (Dg d :: l))) < length (Dg d :: l).
Proof. simpl. pose proof (take_digits_length l). destruct (take_digits l). simpl in *. lia. Qed.

Lemma try_exp_length l fp en a b r : try_exp l = Some (fp, en, a, b, r) -> length r <= length l.
Proof.
  unfold try_exp. destruct l as [|c l]; [discriminate|]. destruct c; try discriminate.
  pose proof (take_digits_length l) as H. destruct (take_digits l) as [ds r0]. simpl in H.
  destruct ds; [discriminate|].
  destruct r0 as [|c0 r0]; [discriminate|]. destruct c0; try discriminate.
  destruct r0 as [|c1 r0]; [discriminate|].
  destruct c1; try discriminate;
    (destruct r0 as [|c2 r0]; [discriminate|]; destruct c2; try discriminate;
     destruct r0 as [|c3 r0]; [discriminate|]; destruct c3; try discriminate;
     intro E; inversion E; subst; simpl in *; lia).
Qed.

Lemma finish_shorter neg d l : length (snd (finish neg (Dg d :: l))) < length (Dg d :: l).
Proof.
  unfold finish. pose proof (take_digits_fst_digit d l) as H.
  destruct (take_digits (Dg d :: l)) as [ip r]. simpl in H.
  destruct (try_exp r) as [[[[[fp en] a] b] r2]|] eqn:E; simpl.
  - apply try_exp_length in E. lia.
  - exact H.
Qed.

(* fuel irrelevance *)
Lemma scan_fuel : forall n m l, length l < n -> length l < m -> scan n l = scan m l.
Proof.
  induction n as [|n IH]; intros m l Hn Hm; [lia|].
  destruct m as [|m]; [lia|].
  destruct l as [|c l]; [reflexivity|].
  assert (Hskip : scan n l = scan m l) by (apply IH; simpl in *; lia).
  assert (Hfin : forall neg d l', l = Dg d :: l' ->
            (let (t, r) := finish neg l in t :: scan n r) = (let (t, r) := finish neg l in t :: scan m r)).
  { intros neg d l' ->. pose proof (finish_shorter neg d l') as Hs.
    destruct (finish neg (Dg d :: l')) as [t r]. simpl in Hs. f_equal. apply IH; simpl in *; lia. }
  destruct c; simpl.
  - pose proof (finish_shorter false d l) as Hs. destruct (finish false (Dg d :: l)) as [t r]. simpl in Hs.
    f_equal. apply IH; simpl in *; lia.
  - destruct l as [|c' l']; [exact Hskip|]. destruct c'; try exact Hskip. exact (Hfin false d l' eq_refl).
  - destruct l as [|c' l']; [exact Hskip|]. destruct c'; try exact Hskip. exact (Hfin false d l' eq_refl).
  - destruct l as [|c' l']; [exact Hskip|]. destruct c'; try exact Hskip. exact (Hfin true d l' eq_refl).
  - exact Hskip.
  - exact Hskip.
  - exact Hskip.
  - exact Hskip.
Qed.

Lemma scan_S f l : scan (S f) l =
      match l with
      | [] => []
      | Dg d :: _ => let (t, r) := finish false l in t :: scan f r
      | Sp :: ((Dg _ :: _) as t1) => let (t, r) := finish false t1 in t :: scan f r
      | Plus :: ((Dg _ :: _) as t1) => let (t, r) := finish false t1 in t :: scan f r
      | Minus :: ((Dg _ :: _) as t1) => let (t, r) := finish true t1 in t :: scan f r
      | _ :: t1 => scan f t1
      end.
Proof. reflexivity. Qed.

Lemma tokenize_unfold l n : length l < n -> scan n l = tokenize l.
Proof. intro H. unfold tokenize. apply scan_fuel; lia. Qed.

(* one step of the scanner *)
Lemma tokenize_skip c l : (forall d l', c :: l <> Dg d :: l') ->
  (forall d l', l = Dg d :: l' -> c <> Sp /\ c <> Plus /\ c <> Minus) -> tokenize (c :: l) = tokenize l.
Proof.
  intros Hc Hs. unfold tokenize at 1. simpl length.
  assert (E : scan (S (S (length l))) (c :: l) = scan (S (length l)) l).
  { destruct c; simpl; try reflexivity.
    - exfalso. eapply Hc. reflexivity.
    - destruct l as [|c' l']; [reflexivity|]. destruct c'; try reflexivity. destruct (Hs d l' eq_refl) as (A & _). congruence.
    - destruct l as [|c' l']; [reflexivity|]. destruct c'; try reflexivity. destruct (Hs d l' eq_refl) as (_ & A & _). congruence.
    - destruct l as [|c' l']; [reflexivity|]. destruct c'; try reflexivity. destruct (Hs d l' eq_refl) as (_ & _ & A). congruence. }
  rewrite E. reflexivity.
Qed.

Lemma tokenize_start (sg : ch) (neg : bool) d l :
  (sg = Sp /\ neg = false) \/ (sg = Plus /\ neg = false) \/ (sg = Minus /\ neg = true) ->
  tokenize (sg :: Dg d :: l) = fst (finish neg (Dg d :: l)) :: tokenize (snd (finish neg (Dg d :: l))).
Proof.
  intro H. unfold tokenize at 1. pose proof (finish_shorter neg d l) as Hs. rewrite scan_S.
  destruct H as [[-> ->]|[[-> ->]|[-> ->]]].
  - destruct (finish false (Dg d :: l)) as [t r]; cbn [fst snd length] in *; f_equal; apply tokenize_unfold; lia.
  - destruct (finish false (Dg d :: l)) as [t r]; cbn [fst snd length] in *; f_equal; apply tokenize_unfold; lia.
  - destruct (finish true (Dg d :: l)) as [t r]; cbn [fst snd length] in *; f_equal; apply tokenize_unfold; lia.
Qed.

Lemma tokenize_digit d l :
  tokenize (Dg d :: l) = fst (finish false (Dg d :: l)) :: tokenize (snd (finish false (Dg d :: l))).
Proof.
  unfold tokenize at 1. pose proof (finish_shorter false d l) as Hs. rewrite scan_S.
  destruct (finish false (Dg d :: l)) as [t r]. cbn [fst snd length] in *. f_equal. apply tokenize_unfold; lia.
Qed.

(* finish on the body of a rendered float: stops exactly after the two exponent digits, whatever follows *)
Lemma finish_float (neg : bool) d0 fr (en : bool) a b rest : fr <> [] ->
  finish neg (Dg d0 :: Dot :: map Dg fr ++ Ee :: (if en then Minus else Plus) :: Dg a :: Dg b :: rest)
  = (TFloat neg [d0] fr en a b, rest).
Proof.
  intro Hfr. unfold finish. simpl take_digits.
  unfold try_exp. rewrite take_digits_map by exact I.
  destruct fr as [|f0 fr]; [congruence|]. destruct en; reflexivity.
Qed.

Definition sep_head (l : list ch) : Prop :=
  match l with [] => True | Sp :: _ => True | Minus :: _ => True | NL :: _ => True | _ => False end.

Lemma finish_int neg d ds rest : sep_head rest ->
  finish neg (Dg d :: map Dg ds ++ rest) = (TInt neg (d :: ds), rest).
Proof.
  intro H. unfold finish.
  assert (ND : not_digit_head rest) by (destruct rest as [|c r]; [exact I | destruct c; simpl in *; auto]).
  change (Dg d :: map Dg ds ++ rest) with (map Dg (d :: ds) ++ rest). rewrite take_digits_map by exact ND.
  destruct rest as [|c r]; [reflexivity|]. destruct c; simpl in H; try contradiction; reflexivity.
Qed.

Definition wf_value (v : value) : Prop :=
  match v with
  | VFloat f => frac f <> [] /\ (lead_space f = true \/ minus f = true)
  | VInt _ ds => ds <> []
  end.

(* the central lemma: one rendered value followed by anything that starts with a separator *)
Lemma tokenize_render v rest : wf_value v -> sep_head rest ->
  tokenize (render v ++ rest) = tok_of v :: tokenize rest.
Proof.
  intros Hwf Hsep. destruct v as [f | neg ds]; simpl in Hwf.
  - destruct Hwf as [Hfr Hsign]. unfold render, render_float, tok_of.
    destruct f as [ls mi d0 fr en a b]; simpl in *.
    destruct ls, mi; simpl; try rewrite <- app_assoc; simpl.
    + (* " -d.ddd": the space is skipped, '-' starts the match *)
      rewrite tokenize_skip; [| intros; congruence | intros d l' E; inversion E].
      rewrite tokenize_start with (neg := true) by auto.
      rewrite finish_float by exact Hfr. reflexivity.
    + rewrite tokenize_start with (neg := false) by auto.
      rewrite finish_float by exact Hfr. reflexivity.
    + rewrite tokenize_start with (neg := true) by auto.
      rewrite finish_float by exact Hfr. reflexivity.
    + destruct Hsign; discriminate.
  - unfold render, render_int, tok_of. destruct ds as [|d ds]; [congruence|].
    simpl. rewrite tokenize_skip; [| intros; congruence | intros d' l' E; inversion E].
    rewrite tokenize_skip; [| intros; congruence | intros d' l' E; destruct neg; inversion E].
    destruct neg; simpl.
    + rewrite tokenize_skip; [| intros; congruence | intros d' l' E; inversion E].
      rewrite tokenize_start with (neg := true) by auto. rewrite finish_int by exact Hsep. reflexivity.
    + rewrite tokenize_start with (neg := false) by auto. rewrite finish_int by exact Hsep. reflexivity.
Qed.

Lemma tokenize_NL rest : tokenize (NL :: rest) = tokenize rest.
Proof. apply tokenize_skip; [intros; congruence | intros d l' E; repeat split; congruence]. Qed.

(* ---------------- documents: values and newlines in any arrangement ---------------- *)
Inductive item := IV (v : value) | INL.
Definition render_item (i : item) : list ch := match i with IV v => render v | INL => [NL] end.
Definition render_doc (d : list item) : list ch := flat_map render_item d.
Fixpoint vals (d : list item) : list value :=
  match d with [] => [] | IV v :: t => v :: vals t | INL :: t => vals t end.
Definition wf_doc (d : list item) : Prop := Forall (fun i => match i with IV v => wf_value v | INL => True end) d.

Lemma render_sep v r : wf_value v -> sep_head (render v ++ r).
Proof.
  destruct v as [f|neg ds]; simpl.
  - intros [_ H]. unfold render_float. destruct (lead_space f); simpl; [exact I|].
    destruct (minus f); simpl; [exact I|]. destruct H; discriminate.
  - intros _. exact I.
Qed.

Lemma doc_sep d : wf_doc d -> sep_head (render_doc d).
Proof.
  destruct d as [|i d]; [intros; exact I|]. intro H. inversion H; subst. destruct i as [v|]; simpl.
  - apply render_sep. assumption.
  - exact I.
Qed.

Lemma tokenize_nil : tokenize [] = [].
Proof. reflexivity. Qed.

Theorem tokenize_doc_app d rest : wf_doc d -> sep_head rest ->
  tokenize (render_doc d ++ rest) = map tok_of (vals d) ++ tokenize rest.
Proof.
  intros H Hr. induction d as [|i d IH]; [reflexivity|]. inversion H; subst.
  assert (S' : sep_head (render_doc d ++ rest)).
  { destruct d as [|j d']; [exact Hr|]. inversion H3; subst. destruct j as [w|]; simpl.
    - rewrite <- app_assoc. apply render_sep. assumption.
    - exact I. }
  destruct i as [v|]; simpl.
  - rewrite <- app_assoc. rewrite tokenize_render; [| assumption | exact S']. f_equal. apply IH. assumption.
  - rewrite tokenize_NL. apply IH. assumption.
Qed.

Theorem tokenize_doc d : wf_doc d -> tokenize (render_doc d) = map tok_of (vals d).
Proof.
  intro H. rewrite <- (app_nil_r (render_doc d)). rewrite tokenize_doc_app by (auto; exact I).
  rewrite tokenize_nil, app_nil_r. reflexivity.
Qed.

Lemma chunk_write_cons chunk counter v rest : chunk_write chunk counter (v :: rest) =
      if Nat.eqb (S counter) chunk
      then let (t, c) := chunk_write chunk 0 rest in (render v ++ [NL] ++ t, c)
      else let (t, c) := chunk_write chunk (S counter) rest in (render v ++ t, c).
Proof. reflexivity. Qed.

(* ChunkOutput produces a document with exactly the given values, for any chunk size and any phase *)
Lemma chunk_write_doc chunk : forall vs counter,
  exists d, fst (chunk_write chunk counter vs) = render_doc d /\ vals d = vs /\
            (Forall wf_value vs -> wf_doc d).
Proof.
  induction vs as [|v vs IH]; intro counter.
  - exists []. repeat split; auto. intros _. constructor.
  - rewrite chunk_write_cons. destruct (Nat.eqb (S counter) chunk).
    + destruct (IH 0) as (d & E & V & W). destruct (chunk_write chunk 0 vs) as [t c]. simpl in *.
      exists (IV v :: INL :: d). simpl. rewrite E, V. split; [reflexivity|]. split; [reflexivity|].
      intro F. inversion F; subst. constructor; [assumption|]. constructor; [exact I|]. apply W; assumption.
    + destruct (IH (S counter)) as (d & E & V & W). destruct (chunk_write chunk (S counter) vs) as [t c]. simpl in *.
      exists (IV v :: d). simpl. rewrite E, V. split; [reflexivity|]. split; [reflexivity|].
      intro F. inversion F; subst. constructor; [assumption|]. apply W; assumption.
Qed.

Lemma render_doc_app d1 d2 : render_doc (d1 ++ d2) = render_doc d1 ++ render_doc d2.
Proof. unfold render_doc. apply flat_map_app. Qed.
Lemma vals_app d1 d2 : vals (d1 ++ d2) = vals d1 ++ vals d2.
Proof. induction d1 as [|i d1 IH]; simpl; [reflexivity|]. destruct i; simpl; rewrite IH; reflexivity. Qed.

Lemma write_block_doc vs : exists d, write_block vs = render_doc d /\ vals d = vs /\ (Forall wf_value vs -> wf_doc d).
Proof.
  unfold write_block. destruct (chunk_write_doc 5 vs 0) as (d & E & V & W).
  destruct (chunk_write 5 0 vs) as [t c]. simpl in E. unfold chunk_newline.
  destruct (Nat.eqb c 0).
  - exists d. rewrite app_nil_r. split; [exact E|]. split; [exact V | exact W].
  - exists (d ++ [INL]). rewrite render_doc_app, vals_app, E, V. simpl. rewrite app_nil_r. split; [reflexivity|]. split; [reflexivity|].
    intro F. apply Forall_app. split; [apply W; exact F | constructor; [exact I | constructor]].
Qed.

(* a file body = a sequence of blocks; reading back the token stream gives every value, in order *)
Theorem roundtrip_blocks (blocks : list (list value)) :
  Forall (Forall wf_value) blocks ->
  tokenize (flat_map write_block blocks) = map tok_of (concat blocks).
Proof.
  intro H.
  assert (G : exists d, flat_map write_block blocks = render_doc d /\ vals d = concat blocks /\ wf_doc d).
  { induction blocks as [|b bs IH]; simpl.
    - exists []. split; [reflexivity|]. split; [reflexivity|]. constructor.
    - inversion H; subst. destruct (IH H3) as (d2 & E2 & V2 & W2).
      destruct (write_block_doc b) as (d1 & E1 & V1 & W1).
      exists (d1 ++ d2). rewrite render_doc_app, vals_app, E1, E2, V1, V2. split; [reflexivity|]. split; [reflexivity|].
      apply Forall_app. split; [apply W1; assumption | exact W2]. }
  destruct G as (d & E & V & W). rewrite E, tokenize_doc by exact W. rewrite V. reflexivity.
Qed.

(* abutting Fortran e16.9 fields with no separators at all are also read back: the central lemma needs only that
   the NEXT field starts with ' ' or '-' *)
Corollary abutting_fields (fs : list dfloat) :
  Forall (fun f => wf_value (VFloat f)) fs ->
  tokenize (flat_map render_float fs) = map (fun f => tok_of (VFloat f)) fs.
Proof.
  intro H. set (d := map (fun f => IV (VFloat f)) fs).
  assert (E : flat_map render_float fs = render_doc d).
  { unfold d. clear H. induction fs as [|f fs IH]; simpl; [reflexivity|]. rewrite IH. reflexivity. }
  assert (V : vals d = map VFloat fs).
  { unfold d. clear H E. induction fs as [|f fs IH]; simpl; [reflexivity|]. rewrite IH. reflexivity. }
  assert (W : wf_doc d).
  { unfold d. clear E V. induction H as [|f fs Hf Hfs IH]; simpl; constructor; assumption. }
  rewrite E, tokenize_doc by exact W. rewrite V, map_map. reflexivity.
Qed.

(* ---------------- the counts line and the whole file body ---------------- *)
Lemma tokenize_spaces_int k d ds rest : sep_head rest ->
  tokenize (repeat Sp (S k) ++ map Dg (d :: ds) ++ rest) = TInt false (d :: ds) :: tokenize rest.
Proof.
  intro Hs. induction k as [|k IH].
  - simpl. rewrite tokenize_start with (neg := false) by auto. rewrite finish_int by exact Hs. reflexivity.
  - change (repeat Sp (S (S k))) with (Sp :: repeat Sp (S k)). simpl app at 1.
    rewrite tokenize_skip; [exact IH | intros; congruence | intros d' l' E; simpl in E; inversion E].
Qed.

Lemma blocks_doc (blocks : list (list value)) : Forall (Forall wf_value) blocks ->
  exists d, flat_map write_block blocks = render_doc d /\ vals d = concat blocks /\ wf_doc d.
Proof.
  intro H. induction blocks as [|b bs IH]; simpl.
  - exists []. split; [reflexivity|]. split; [reflexivity|]. constructor.
  - inversion H; subst. destruct (IH H3) as (d2 & E2 & V2 & W2).
    destruct (write_block_doc b) as (d1 & E1 & V1 & W1).
    exists (d1 ++ d2). rewrite render_doc_app, vals_app, E1, E2, V1, V2. split; [reflexivity|]. split; [reflexivity|].
    apply Forall_app. split; [apply W1; assumption | exact W2].
Qed.

Definition wf_df (f : dfloat) : Prop := wf_value (VFloat f).
Definition wf_gdata (g : gdata) : Prop :=
  Forall (Forall wf_value) (float_blocks g) /\
  Forall wf_df (pairs_flat (bdry g)) /\ Forall wf_df (pairs_flat (lim g)) /\
  (* counts are printed with "%5d": at least one blank must precede each, i.e. at most 4 digits *)
  length (nat_digits (length (bdry g))) <= 4 /\ length (nat_digits (length (lim g))) <= 4 /\
  nat_digits (length (bdry g)) <> [] /\ nat_digits (length (lim g)) <> [].

Lemma map_tok_VFloat l : map tok_of (map VFloat l) = map (fun f => tok_of (VFloat f)) l.
Proof. apply map_map. Qed.

Theorem file_roundtrip_tokens (g : gdata) : wf_gdata g -> tokenize (file_body g) = expected_tokens g.
Proof.
  intros (Hb & Hbd & Hlm & L1 & L2 & N1 & N2). unfold file_body, expected_tokens.
  destruct (blocks_doc _ Hb) as (d & E & V & W). rewrite E.
  destruct (write_block_doc (map VFloat (pairs_flat (bdry g)))) as (db & Eb & Vb & Wb).
  destruct (write_block_doc (map VFloat (pairs_flat (lim g)))) as (dl & El & Vl & Wl).
  rewrite Eb, El.
  assert (Wb' : wf_doc db) by (apply Wb; apply Forall_map; exact Hbd).
  assert (Wl' : wf_doc dl) by (apply Wl; apply Forall_map; exact Hlm).
  destruct (nat_digits (length (bdry g))) as [|b0 bs] eqn:EB; [congruence|].
  destruct (nat_digits (length (lim g))) as [|l0 ls] eqn:EL; [congruence|].
  try rewrite EB in L1. try rewrite EL in L2. unfold render_count.
  assert (K1 : exists k, 5 - length (b0 :: bs) = S k) by (exists (4 - length (b0 :: bs)); lia).
  assert (K2 : exists k, 5 - length (l0 :: ls) = S k) by (exists (4 - length (l0 :: ls)); lia).
  destruct K1 as [k1 K1]. destruct K2 as [k2 K2]. rewrite K1, K2.
  rewrite tokenize_doc_app; [| exact W | exact I].
  rewrite V. f_equal.
  rewrite <- !app_assoc.
  rewrite tokenize_spaces_int by exact I.
  rewrite tokenize_spaces_int by exact I.
  change ([NL] ++ render_doc db ++ render_doc dl) with (NL :: render_doc db ++ render_doc dl). rewrite tokenize_NL.
  rewrite <- render_doc_app. rewrite tokenize_doc by (apply Forall_app; split; assumption).
  rewrite vals_app, Vb, Vl, <- map_app, map_tok_VFloat. reflexivity.
Qed.
