(* C07 hand model of the radial profile functions of hypnotoad.cases.circular.CircularEquilibrium:
     q(r)      = sum_k a_k r^(qs + qt k)                     (the source: exponents range(0, 2 len, 2))
     dqdr(r)   = 0 for one coefficient, else sum over a[skip:] of a_k e_k r^(e_k - 1), e_k = ds + dt k   (range(2, 2 len + 1, 2) after coef_list[1:])
     dpsidr(r) = B0 r / (sqrt(1 - r^2/R0^2) q(r));  d2psidr2(r) as written in the source.
   The exponent ranges are parameters: gen/Gen_Circular.v supplies what the source says on every run. *)
From Coq Require Import Reals List Arith.
Import ListNotations.
Local Open Scope R_scope.

Fixpoint poly_from (e t : nat) (cs : list R) (r : R) : R :=
  match cs with [] => 0 | c :: rest => c * r ^ e + poly_from (e + t) t rest r end.

Fixpoint dpoly_from (e t : nat) (cs : list R) (r : R) : R :=
  match cs with [] => 0 | c :: rest => c * INR e * r ^ (e - 1) + dpoly_from (e + t) t rest r end.

Definition circ_q (qs qt : nat) (cs : list R) (r : R) : R := poly_from qs qt cs r.
Definition circ_dqdr (ds dt skip : nat) (cs : list R) (r : R) : R :=
  if (length cs =? 1)%nat then 0 else dpoly_from ds dt (skipn skip cs) r.

Definition circ_dpsidr (B0 R0 : R) (q : R -> R) (r : R) : R := B0 * r / (sqrt (1 - r ^ 2 / R0 ^ 2) * q r).
Definition circ_d2psidr2 (B0 R0 : R) (q dq : R -> R) (r : R) : R :=
  B0 / (sqrt (1 - r ^ 2 / R0 ^ 2) * q r)
  + B0 * r ^ 2 / (R0 ^ 2 * Rpower (1 - r ^ 2 / R0 ^ 2) (3 / 2) * q r)
  - B0 * r * dq r / (sqrt (1 - r ^ 2 / R0 ^ 2) * q r ^ 2).
