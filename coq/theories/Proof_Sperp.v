(* C10: theorems about the monotonisation of the perpendicular distance in FineContour.interpSSperp (theories/Model_Sperp.v). *)
From Coq Require Import ZArith List Bool Arith Lia Reals Lra.
From HT Require Import Field Model_Quadrature Proof_Quadrature Model_Sperp.
Import ListNotations.
Local Open Scope R_scope.

(* what the loop is meant to produce: running sums of the ABSOLUTE increments *)
Fixpoint abs_sums (prev : R) (l0 : R) (l : list R) : list R :=   (* prev: the new previous value, l0: the old previous value *)
  match l with
  | [] => []
  | x :: t => let v := prev + Rabs (x - l0) in v :: abs_sums v x t
  end.

Lemma reflect_R c l : reflect Rops c l = map (fun y => 2 * c - y) l.
Proof. unfold reflect, ptwo. cbn [osub omul oconst Rops Rc Z.eqb Pos.eqb]. reflexivity. Qed.

Lemma abs_sums_reflect c prev l0 l : abs_sums prev (2 * c - l0) (map (fun y => 2 * c - y) l) = abs_sums prev l0 l.
Proof.
  revert prev l0. induction l as [|x t IH]; intros prev l0; [reflexivity|].
  cbn [map abs_sums]. replace (2 * c - x - (2 * c - l0)) with (- (x - l0)) by ring. rewrite Rabs_Ropp. cbv zeta. f_equal. apply IH.
Qed.

(* going up from startInd: the loop yields the running sums of absolute increments, for a tail of any length *)
Theorem fwd_abs_sums fuel : forall prev l, (length l <= fuel)%nat -> fwd Rops fuel prev l = abs_sums prev prev l.
Proof.
  induction fuel as [|k IH]; intros prev l Hl.
  - destruct l; [reflexivity|cbn in Hl; lia].
  - destruct l as [|x t]; [reflexivity|]. cbn [fwd]. change (pzero Rops) with 0. cbn [olt osub Rops].
    destruct (Rltb (x - prev) 0) eqn:E.
    + apply Rltb_iff in E. rewrite reflect_R. cbn [map]. rewrite IH by (rewrite map_length; cbn in Hl; lia).
      cbn [abs_sums]. cbv zeta. rewrite Rabs_left by exact E.
      replace (prev + - (x - prev)) with (2 * prev - x) by ring. f_equal.
      apply abs_sums_reflect.
    + apply Rltb_false in E. rewrite IH by (cbn in Hl; lia). cbn [abs_sums]. cbv zeta.
      rewrite Rabs_right by lra. replace (prev + (x - prev)) with x by ring. reflexivity.
Qed.

(* going down: the same with the sign of the increments exchanged: running DIFFERENCES of absolute increments *)
Fixpoint abs_diffs (next : R) (l0 : R) (l : list R) : list R :=
  match l with
  | [] => []
  | x :: t => let v := next - Rabs (l0 - x) in v :: abs_diffs v x t
  end.

Lemma abs_diffs_reflect c next l0 l : abs_diffs next (2 * c - l0) (map (fun y => 2 * c - y) l) = abs_diffs next l0 l.
Proof.
  revert next l0. induction l as [|x t IH]; intros next l0; [reflexivity|].
  cbn [map abs_diffs]. replace (2 * c - l0 - (2 * c - x)) with (- (l0 - x)) by ring. rewrite Rabs_Ropp. cbv zeta. f_equal. apply IH.
Qed.

Theorem bwd_abs_diffs fuel : forall next l, (length l <= fuel)%nat -> bwd Rops fuel next l = abs_diffs next next l.
Proof.
  induction fuel as [|k IH]; intros next l Hl.
  - destruct l; [reflexivity|cbn in Hl; lia].
  - destruct l as [|x t]; [reflexivity|]. cbn [bwd]. change (pzero Rops) with 0. cbn [olt osub Rops].
    destruct (Rltb (next - x) 0) eqn:E.
    + apply Rltb_iff in E. rewrite reflect_R. cbn [map]. rewrite IH by (rewrite map_length; cbn in Hl; lia).
      cbn [abs_diffs]. cbv zeta. rewrite Rabs_left by exact E.
      replace (next - - (next - x)) with (2 * next - x) by ring. f_equal.
      apply abs_diffs_reflect.
    + apply Rltb_false in E. rewrite IH by (cbn in Hl; lia). cbn [abs_diffs]. cbv zeta.
      rewrite Rabs_right by lra. replace (next - (next - x)) with x by ring. reflexivity.
Qed.

(* running sums of absolute increments never decrease, running differences never increase *)
Lemma abs_sums_ge prev l0 l : forall y, In y (abs_sums prev l0 l) -> prev <= y.
Proof.
  revert prev l0. induction l as [|x t IH]; intros prev l0 y Hy; [contradiction|].
  cbn [abs_sums] in Hy. cbv zeta in Hy. pose proof (Rabs_pos (x - l0)). destruct Hy as [<-|Hy]; [lra|].
  specialize (IH _ _ _ Hy). lra.
Qed.

Lemma abs_diffs_le next l0 l : forall y, In y (abs_diffs next l0 l) -> y <= next.
Proof.
  revert next l0. induction l as [|x t IH]; intros next l0 y Hy; [contradiction|].
  cbn [abs_diffs] in Hy. cbv zeta in Hy. pose proof (Rabs_pos (l0 - x)). destruct Hy as [<-|Hy]; [lra|].
  specialize (IH _ _ _ Hy). lra.
Qed.

Inductive nondecr : list R -> Prop :=
| nd_nil : nondecr []
| nd_one x : nondecr [x]
| nd_cons x y t : x <= y -> nondecr (y :: t) -> nondecr (x :: y :: t).

Lemma abs_sums_nondecr prev l0 l : nondecr (prev :: abs_sums prev l0 l).
Proof.
  revert prev l0. induction l as [|x t IH]; intros prev l0; [constructor|].
  cbn [abs_sums]. cbv zeta. constructor; [pose proof (Rabs_pos (x - l0)); lra|]. apply IH.
Qed.

Lemma nondecr_app l1 l2 m : nondecr (l1 ++ [m]) -> nondecr (m :: l2) -> nondecr (l1 ++ m :: l2).
Proof.
  induction l1 as [|a t IH]; intros H1 H2; [exact H2|].
  destruct t as [|b u].
  - cbn in *. inversion H1; subst. constructor; assumption.
  - cbn [app] in *. inversion H1; subst. constructor; [assumption|]. apply IH; assumption.
Qed.

Lemma abs_diffs_rev_nondecr next l0 l : nondecr (rev (abs_diffs next l0 l) ++ [next]).
Proof.
  revert next l0. induction l as [|x t IH]; intros next l0; [cbn; constructor|].
  cbn [abs_diffs]. cbv zeta. cbn [rev]. rewrite <- app_assoc. cbn [app].
  set (v := next - Rabs (l0 - x)).
  apply nondecr_app; [apply IH|]. constructor; [unfold v; pose proof (Rabs_pos (l0 - x)); lra|constructor].
Qed.

(* the whole list after both loops: non-decreasing along the contour, unchanged at startInd, one entry per fine point *)
Theorem monotonise_nondecr (s : list R) si : (si < length s)%nat ->
  nondecr (monotonise Rops s si) /\ nth si (monotonise Rops s si) 0 = nth si s 0 /\ length (monotonise Rops s si) = length s.
Proof.
  intros Hsi. unfold monotonise. change (pzero Rops) with 0.
  set (c := nth si s 0). rewrite fwd_abs_sums by lia. rewrite bwd_abs_diffs by (rewrite rev_length; lia).
  assert (Hlen : length (rev (abs_diffs c c (rev (firstn si s)))) = si).
  { rewrite rev_length. clear - Hsi. set (l := rev (firstn si s)). assert (length l = Nat.min si (length s)) by (unfold l; rewrite rev_length, firstn_length; reflexivity).
    assert (forall a b (m : list R), length (abs_diffs a b m) = length m) as HL by (intros a b m; revert a b; induction m as [|x t IH]; intros a b; [reflexivity|cbn [abs_diffs length]; cbv zeta; rewrite IH; reflexivity]).
    rewrite HL. lia. }
  split; [|split].
  - apply nondecr_app; [apply abs_diffs_rev_nondecr|apply abs_sums_nondecr].
  - rewrite app_nth2 by lia. rewrite Hlen. replace (si - si)%nat with 0%nat by lia. reflexivity.
  - rewrite app_length, Hlen. cbn [length].
    assert (forall a b (m : list R), length (abs_sums a b m) = length m) as HL by (intros a b m; revert a b; induction m as [|x t IH]; intros a b; [reflexivity|cbn [abs_sums length]; cbv zeta; rewrite IH; reflexivity]).
    rewrite HL, skipn_length. lia.
Qed.

(* the increments keep their size: only their sign is changed (so distances perpendicular to the vector are preserved) *)
Theorem fwd_increment_sizes (l : list R) prev : forall k, (S k < length l)%nat ->
  nth (S k) (fwd Rops (length l) prev l) 0 - nth k (fwd Rops (length l) prev l) 0 = Rabs (nth (S k) l 0 - nth k l 0).
Proof.
  rewrite fwd_abs_sums by lia. generalize prev at 1 3 as p. generalize prev as l0.
  induction l as [|x t IH]; intros l0 p k Hk; [cbn in Hk; lia|].
  destruct t as [|y u]; [cbn in Hk; lia|].
  destruct k as [|k].
  - cbn [abs_sums nth]. cbv zeta. ring.
  - change (abs_sums p l0 (x :: y :: u)) with ((p + Rabs (x - l0)) :: abs_sums (p + Rabs (x - l0)) x (y :: u)).
    cbn [nth]. apply IH. cbn [length] in *. lia.
Qed.

Example monotonise_example : monotonise Rops [3; 1; 0; 2; 1; 4] 2 = [-3; -1; 0; 2; 3; 6].
Proof.
  unfold monotonise. cbn [firstn skipn nth rev app length]. change (pzero Rops) with 0.
  rewrite fwd_abs_sums, bwd_abs_diffs by (cbn; lia). cbn [abs_sums abs_diffs rev app]. cbv zeta.
  replace (Rabs (0 - 1)) with 1 by (rewrite Rabs_left; lra). replace (Rabs (1 - 3)) with 2 by (rewrite Rabs_left; lra).
  replace (Rabs (2 - 0)) with 2 by (rewrite Rabs_right; lra). replace (Rabs (1 - 2)) with 1 by (rewrite Rabs_left; lra).
  replace (Rabs (4 - 1)) with 3 by (rewrite Rabs_right; lra).
  repeat f_equal; lra.
Qed.

(* the interpolation s(s_perp) at a node returns the node's value: with strictly increasing perpendicular distances the spacing
   function built on it starts at 0 (startInd) and reaches the contour length at endInd *)
Lemma interp_extrap_at_node xp fp j : incr xp -> (2 <= length xp)%nat -> (j < length xp)%nat ->
  interp_extrap Rops xp fp (nth j xp 0) = nth j fp 0.
Proof.
  intros Hinc Hn Hj.
  assert (Hr : nth 0 xp 0 <= nth j xp 0 <= last xp 0).
  { rewrite last_nth_R. split.
    - destruct j as [|j']; [lra|]. left. apply incr_lt; [exact Hinc|lia].
    - destruct (Nat.eq_dec j (length xp - 1)) as [->|Hne]; [lra|]. left. apply incr_lt; [exact Hinc|lia]. }
  destruct (seg_lo_spec xp (nth j xp 0) Hinc Hn Hr) as [Hlo [H1 H2]].
  rewrite interp_extrap_eq. set (lo := seg_lo xp (nth j xp 0)) in *.
  pose proof (Hinc lo Hlo) as Hd.
  destruct (Nat.lt_trichotomy j lo) as [L|[E|G]].
  - pose proof (incr_lt xp Hinc j lo ltac:(lia)). lra.
  - rewrite E. field. lra.
  - destruct (Nat.eq_dec j (S lo)) as [E|Hne]; [rewrite E; field; lra|].
    pose proof (incr_lt xp Hinc (S lo) j ltac:(lia)). lra.
Qed.

Theorem s_of_sperp_end_points (sp dist : list R) si ei : incr sp -> (2 <= length sp)%nat -> length dist = length sp ->
  (si < length sp)%nat -> (ei < length sp)%nat ->
  s_of_sperp Rops sp dist si (nth si sp 0) = 0 /\
  s_of_sperp Rops sp dist si (nth ei sp 0) = nth ei dist 0 - nth si dist 0.
Proof.
  intros Hinc Hn Hl Hsi Hei. unfold s_of_sperp. change (pzero Rops) with 0. cbn [osub Rops].
  assert (Hm : forall k, (k < length dist)%nat -> nth k (map (fun d => d - nth si dist 0) dist) 0 = nth k dist 0 - nth si dist 0).
  { intros k Hk. rewrite (nth_indep _ 0 (0 - nth si dist 0)) by (rewrite map_length; exact Hk). apply (map_nth (fun d => d - nth si dist 0)). }
  rewrite !interp_extrap_at_node by assumption. rewrite !Hm by lia. split; ring.
Qed.
