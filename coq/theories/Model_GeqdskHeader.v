(* C17 hand model of the FIRST line of a G-EQDSK file as _geqdsk.write formats it and _geqdsk.read parses it:
     header = "{0:11s}{1:10s}   {2:>8s}{3:16s}{4:4d}{5:4d}{6:4d}\n".format(label, creation_date, shot, time, idum, nx, ny)     (idum = 3)
     words = header.split();  idum = int(words[-3]);  nx = int(words[-2]);  ny = int(words[-1])
   over the character classes of Model_Geqdsk (letters, '/', '#' are `Other`).  Definitions only. *)
From Coq Require Import List Arith Bool.
From HT Require Import Model_Geqdsk.
Import ListNotations.

(* "{:Ns}" pads on the right and never truncates; "{:>Ns}" / "{:Nd}" pad on the left *)
Definition pad_right (w : nat) (l : list ch) : list ch := l ++ repeat Sp (w - length l).
Definition pad_left (w : nat) (l : list ch) : list ch := repeat Sp (w - length l) ++ l.
Definition fmt4 (n : nat) : list ch := pad_left 4 (map Dg (nat_digits n)).

Definition header (label date shot time : list ch) (nx ny : nat) : list ch :=
  pad_right 11 label ++ pad_right 10 date ++ [Sp; Sp; Sp] ++ pad_left 8 shot ++ pad_right 16 time ++ fmt4 3 ++ fmt4 nx ++ fmt4 ny ++ [NL].

(* str.split(): maximal runs of non-whitespace characters *)
Definition is_ws (c : ch) : bool := match c with Sp | NL => true | _ => false end.
Fixpoint words_aux (cur : list ch) (l : list ch) : list (list ch) :=      (* cur = the word being read, reversed *)
  match l with
  | [] => match cur with [] => [] | _ => [rev cur] end
  | c :: t => if is_ws c then match cur with [] => words_aux [] t | _ => rev cur :: words_aux [] t end
              else words_aux (c :: cur) t
  end.
Definition words (l : list ch) : list (list ch) := words_aux [] l.

Definition last3 {A} (w : list A) : option (A * A * A) := match rev w with c :: b :: a :: _ => Some (a, b, c) | _ => None end.

(* int(word): an optional sign and digits only (anything else raises ValueError = None) *)
Fixpoint all_digits (l : list ch) : option (list nat) :=
  match l with
  | [] => Some []
  | Dg d :: t => match all_digits t with Some r => Some (d :: r) | None => None end
  | _ => None
  end.
Definition parse_nat (w : list ch) : option (list nat) :=
  match w with [] => None | Plus :: t => (match t with [] => None | _ => all_digits t end) | _ => all_digits w end.

(* what read() takes from the first line: (digits of nx, digits of ny); None = it raises *)
Definition read_header (h : list ch) : option (list nat * list nat) :=
  match last3 (words h) with
  | Some (a, b, c) => match parse_nat a, parse_nat b, parse_nat c with
                      | Some _, Some x, Some y => Some (x, y)
                      | _, _, _ => None
                      end
  | None => None
  end.
