From Coq Require Import ZArith List Bool Lia.
From HT Require Import Model_Contour.
Import ListNotations.
Local Open Scope Z_scope.

Lemma nth_insert_at k x l j : (k <= length l)%nat ->
  nth_error (insert_at k x l) j = if (j <? k)%nat then nth_error l j else if (j =? k)%nat then Some x else nth_error l (j - 1).
Proof.
  revert l j. induction k as [|k IH]; intros l j Hk.
  - destruct j; simpl; [reflexivity|]. rewrite Nat.sub_0_r. reflexivity.
  - destruct l as [|h t]; [simpl in Hk; lia|]. simpl in Hk. destruct j as [|j]; [reflexivity|].
    cbn [insert_at nth_error]. rewrite IH by lia.
    change (S j <? S k)%nat with (j <? k)%nat. change (S j =? S k)%nat with (j =? k)%nat.
    destruct (j <? k)%nat eqn:E1; [reflexivity|]. destruct (j =? k)%nat eqn:E2; [reflexivity|].
    apply Nat.ltb_ge in E1. apply Nat.eqb_neq in E2. destruct j as [|j']; [lia|]. simpl. rewrite Nat.sub_0_r. reflexivity.
Qed.

Lemma length_insert_at k x l : length (insert_at k x l) = S (length l).
Proof. revert l; induction k as [|k IH]; intros [|h t]; simpl; auto. Qed.

(* well-formed with non-negative indices: what the mesh code works with *)
Definition wf (c : contour) : Prop := 0 <= si c /\ si c <= ei c /\ ei c < len c.

Lemma getZ_nonneg l i : 0 <= i -> getZ l i = nth_error l (Z.to_nat i).
Proof. intro H. unfold getZ. destruct (i <? 0) eqn:E; [lia | reflexivity]. Qed.

(* insert at any position 0 <= index <= len keeps startInd and endInd on the points they designated *)
Theorem insert_keeps_ends c index x : wf c -> 0 <= index <= len c ->
  start_pt (insert index x c) = start_pt c /\ end_pt (insert index x c) = end_pt c /\ wf (insert index x c).
Proof.
  intros (H0 & H1 & H2) Hi. unfold start_pt, end_pt, insert, wf, len in *. cbn [pts si ei].
  rewrite length_insert_at. set (n := Z.of_nat (length (pts c))) in *.
  replace (index <? 0) with false by (symmetry; lia).
  assert (Hk : (Z.to_nat index <= length (pts c))%nat) by lia.
  destruct (index <=? si c) eqn:Es; destruct (index <=? ei c) eqn:Ee; try lia;
    match goal with |- context [?a && _] => replace a with false by (symmetry; lia) end; cbn [andb];
    unfold pos; repeat match goal with |- context [?a <? 0] => replace (a <? 0) with false by (symmetry; lia) end;
    rewrite !getZ_nonneg by lia; rewrite !nth_insert_at by exact Hk;
    repeat split; try lia;
    repeat match goal with
    | |- context [(?a <? ?b)%nat] => let E := fresh "E" in destruct (a <? b)%nat eqn:E; [apply Nat.ltb_lt in E | apply Nat.ltb_ge in E]; try lia
    | |- context [(?a =? ?b)%nat] => let E := fresh "E" in destruct (a =? b)%nat eqn:E; [apply Nat.eqb_eq in E | apply Nat.eqb_neq in E]; try lia
    end; try reflexivity; f_equal; lia.
Qed.

Theorem extend_lower_keeps_ends c x : wf c ->
  start_pt (extend_lower1 x c) = start_pt c /\ end_pt (extend_lower1 x c) = end_pt c /\ wf (extend_lower1 x c).
Proof.
  intros (H0 & H1 & H2). unfold start_pt, end_pt, extend_lower1, prepend, wf, len in *. cbn [pts si ei length].
  replace (0 <=? si c) with true by (symmetry; lia). replace (0 <=? ei c) with true by (symmetry; lia).
  unfold pos. repeat match goal with |- context [?a <? 0] => replace (a <? 0) with false by (symmetry; lia) end.
  rewrite !getZ_nonneg by lia.
  replace (Z.to_nat (si c + 1)) with (S (Z.to_nat (si c))) by lia. replace (Z.to_nat (ei c + 1)) with (S (Z.to_nat (ei c))) by lia.
  cbn [nth_error]. repeat split; lia.
Qed.

Theorem extend_upper_keeps_ends c x : wf c ->
  start_pt (extend_upper1 x c) = start_pt c /\ end_pt (extend_upper1 x c) = end_pt c /\ wf (extend_upper1 x c).
Proof.
  intros (H0 & H1 & H2). unfold start_pt, end_pt, extend_upper1, append, wf, len in *. cbn [pts si ei].
  rewrite app_length. cbn [length]. replace (ei c <? 0) with false by (symmetry; lia).
  unfold pos. repeat match goal with |- context [?a <? 0] => replace (a <? 0) with false by (symmetry; lia) end.
  rewrite !getZ_nonneg by lia. rewrite !nth_error_app1 by lia. repeat split; lia.
Qed.

(* ... and with a NEGATIVE endInd (counted from the end), which addPointAtWallToContours uses when a contour had to be extended to reach the wall *)
Theorem extend_upper_keeps_negative_end c x : - len c <= ei c < 0 -> end_pt (extend_upper1 x c) = end_pt c.
Proof.
  intros H. unfold end_pt, extend_upper1, append, len in *. cbn [pts ei]. rewrite app_length. cbn [length].
  replace (ei c <? 0) with true by (symmetry; lia). unfold pos.
  replace (ei c - 1 <? 0) with true by (symmetry; lia). replace (ei c <? 0) with true by (symmetry; lia).
  rewrite !getZ_nonneg by lia. rewrite nth_error_app1 by lia. f_equal. lia.
Qed.
Theorem extend_lower_keeps_negative_end c x : - len c <= ei c < 0 -> end_pt (extend_lower1 x c) = end_pt c.
Proof.
  intros H. unfold end_pt, extend_lower1, prepend, len in *. cbn [pts ei length].
  replace (0 <=? ei c) with false by (symmetry; lia). unfold pos. replace (ei c <? 0) with true by (symmetry; lia).
  rewrite !getZ_nonneg by lia.
  replace (Z.to_nat (Z.of_nat (S (length (pts c))) + ei c)) with (S (Z.to_nat (Z.of_nat (length (pts c)) + ei c))) by lia. reflexivity.
Qed.

Lemma nth_error_rev (l : list Z) k : (k < length l)%nat -> nth_error (rev l) k = nth_error l (length l - 1 - k).
Proof.
  intro H. rewrite (nth_error_nth' (rev l) 0) by (rewrite rev_length; exact H). rewrite rev_nth by exact H.
  rewrite (nth_error_nth' l 0) by lia. f_equal. f_equal. lia.
Qed.

Theorem reverse_swaps_ends c : wf c -> start_pt (reverse c) = end_pt c /\ end_pt (reverse c) = start_pt c /\ wf (reverse c).
Proof.
  intros (H0 & H1 & H2). unfold start_pt, end_pt, reverse, wf, len in *. cbn [pts si ei]. rewrite rev_length.
  unfold pos. repeat match goal with |- context [?a <? 0] => replace (a <? 0) with false by (symmetry; lia) end.
  rewrite !getZ_nonneg by lia. rewrite !nth_error_rev by lia. repeat split; try lia; f_equal; lia.
Qed.

(* every history of well-placed inserts and guard-cell extensions leaves the designated start and end points unchanged *)
Definition op_ok (c : contour) (o : cop) : Prop := match o with Insert i _ => 0 <= i <= len c | Reverse => False | _ => True end.
Fixpoint ops_ok (c : contour) (os : list cop) : Prop :=
  match os with [] => True | o :: r => op_ok c o /\ ops_ok (apply_op c o) r end.

Theorem history_keeps_ends os : forall c, wf c -> ops_ok c os ->
  start_pt (fold_left apply_op os c) = start_pt c /\ end_pt (fold_left apply_op os c) = end_pt c.
Proof.
  induction os as [|o r IH]; intros c Hw Hok; [split; reflexivity|].
  destruct Hok as [Ho Hr]. cbn [fold_left].
  assert (S : start_pt (apply_op c o) = start_pt c /\ end_pt (apply_op c o) = end_pt c /\ wf (apply_op c o)).
  { destruct o as [i x|x|x|]; cbn [apply_op op_ok] in *;
      [apply insert_keeps_ends; assumption | apply extend_lower_keeps_ends; assumption | apply extend_upper_keeps_ends; assumption | contradiction]. }
  destruct S as (S1 & S2 & S3). destruct (IH _ S3 Hr) as [A B]. split; congruence.
Qed.

(* the negative branch of insert is off by one: inserting right BEHIND the end point moves endInd onto the new point (not reached by the mesh code, which sets
   endInd after inserting the wall point) *)
Example insert_behind_negative_end : end_pt (mkc [10; 11; 12] 0 (-1)) = Some 12 /\ end_pt (insert 3 99 (mkc [10; 11; 12] 0 (-1))) = Some 99
  /\ end_pt (mkc [10; 11; 12] 0 (-2)) = Some 11 /\ end_pt (insert 2 99 (mkc [10; 11; 12] 0 (-2))) = Some 99
  /\ end_pt (insert 1 99 (mkc [10; 11; 12] 0 (-2))) = Some 11 /\ end_pt (insert 3 99 (mkc [10; 11; 12] 0 (-2))) = Some 11.
Proof. repeat split; vm_compute; reflexivity. Qed.
