(* C13: every schedule of the (repaired) ParallelMap ends with the serial result; the pinned worker deadlocks. *)
From Coq Require Import List Arith Bool Lia.
From HT Require Import Model_ParMap.
Import ListNotations.

Section Proofs.
  Variable R Ex : Type.
  Variable outcome : nat -> outc R Ex.
  Variable n : nat.
  Notation St := (Model_ParMap.state R Ex).
  Notation step := (Model_ParMap.step R Ex outcome n).
  Notation run := (Model_ParMap.run R Ex outcome n).
  Notation init := (Model_ParMap.init R Ex n).

  Definition cnt (k : nat) (l : list nat) : nat := count_occ Nat.eq_dec l k.
  Definition total (s : St) (k : nat) : nat :=
    cnt k (tq s) + cnt k (running s) + cnt k (rq s) + cnt k (received s).

  (* the inductive invariant *)
  Record Inv (s : St) : Prop := {
    inv_len : length (res s) = n;
    inv_once : forall k, total s k = if Nat.ltb k n then 1 else 0;
    inv_res : forall k, k < n ->
        nth_error (res s) k = Some (if existsb (Nat.eqb k) (received s) then Some (outcome k) else None);
    inv_pc : pc s = Done <-> length (received s) = n
  }.

  Lemma cnt_app k a b : cnt k (a ++ b) = cnt k a + cnt k b.
  Proof. apply count_occ_app. Qed.

  Lemma cnt_cons k h t : cnt k (h :: t) = (if Nat.eqb h k then 1 else 0) + cnt k t.
  Proof.
    unfold cnt. simpl. destruct (Nat.eq_dec h k) as [E|E].
    - subst. rewrite Nat.eqb_refl. reflexivity.
    - apply Nat.eqb_neq in E. rewrite E. reflexivity.
  Qed.

  Lemma cnt_nil k : cnt k [] = 0.
  Proof. reflexivity. Qed.

  Lemma cnt_seq k a m : cnt k (seq a m) = if (a <=? k) && (k <? a + m) then 1 else 0.
  Proof.
    unfold cnt. destruct (in_dec Nat.eq_dec k (seq a m)) as [Hin|Hin].
    - pose proof (proj1 (count_occ_In Nat.eq_dec _ _) Hin) as G.
      pose proof (proj1 (NoDup_count_occ Nat.eq_dec (seq a m)) (seq_NoDup m a) k) as L.
      apply in_seq in Hin. destruct Hin as [A B].
      apply Nat.leb_le in A. apply Nat.ltb_lt in B. rewrite A, B. simpl. lia.
    - rewrite (proj1 (count_occ_not_In Nat.eq_dec _ _) Hin).
      destruct (a <=? k) eqn:E1; destruct (k <? a + m) eqn:E2; try reflexivity.
      exfalso. apply Hin. apply in_seq. apply Nat.leb_le in E1. apply Nat.ltb_lt in E2. lia.
  Qed.

  Lemma existsb_cnt k l : existsb (Nat.eqb k) l = true <-> cnt k l > 0.
  Proof.
    induction l as [|h t IH]; cbn [existsb].
    - rewrite cnt_nil. split; [discriminate | lia].
    - rewrite cnt_cons. rewrite orb_true_iff, IH. rewrite (Nat.eqb_sym k h).
      destruct (Nat.eqb h k); split; intro H; try lia; auto.
  Qed.

  Lemma cnt_remove_one i k l : existsb (Nat.eqb i) l = true ->
    cnt k (remove_one i l) + (if Nat.eqb i k then 1 else 0) = cnt k l.
  Proof.
    induction l as [|h t IH]; cbn [existsb remove_one]; [discriminate|]. intro H.
    rewrite (cnt_cons k h t). destruct (Nat.eqb h i) eqn:E.
    - apply Nat.eqb_eq in E. subst. lia.
    - rewrite cnt_cons. rewrite Nat.eqb_sym in E. rewrite E in H. simpl in H. specialize (IH H). lia.
  Qed.

  Lemma length_remove_one i l : existsb (Nat.eqb i) l = true -> S (length (remove_one i l)) = length l.
  Proof.
    induction l as [|h t IH]; simpl; [discriminate|]. intro H. destruct (Nat.eqb h i) eqn:E; [reflexivity|].
    rewrite Nat.eqb_sym in E. rewrite E in H. simpl in *. rewrite IH by exact H. reflexivity.
  Qed.

  Lemma set_nth_length {A} k (x : A) l : length (set_nth k x l) = length l.
  Proof. revert k. induction l as [|h t IH]; intro k; destruct k; simpl; auto. Qed.

  Lemma nth_set_nth {A} k j (x : A) l : k < length l ->
    nth_error (set_nth k x l) j = if Nat.eqb j k then Some x else nth_error l j.
  Proof.
    revert k j. induction l as [|h t IH]; intros k j Hk; simpl in Hk; [lia|].
    destruct k, j; simpl; try reflexivity. apply IH. lia.
  Qed.

  Lemma nth_repeat {A} (x : A) m k : k < m -> nth_error (repeat x m) k = Some x.
  Proof. revert k. induction m as [|m IH]; intros k H; [lia|]. destruct k; simpl; [reflexivity | apply IH; lia]. Qed.

  Lemma inv_init np : Inv (init np).
  Proof.
    constructor; unfold Model_ParMap.init; cbn [tq idle running rq res received pc].
    - apply repeat_length.
    - intro k. unfold total; cbn [tq idle running rq res received pc]. rewrite !cnt_nil, cnt_seq. cbn [Nat.leb andb Nat.add].
      destruct (k <? n); lia.
    - intros k Hk. cbn [existsb]. apply nth_repeat. exact Hk.
    - cbn [length]. destruct (Nat.eqb n 0) eqn:E; [apply Nat.eqb_eq in E | apply Nat.eqb_neq in E]; split; intro H; try lia; try discriminate; auto.
  Qed.

  Lemma total_lt s k : Inv s -> total s k > 0 -> k < n.
  Proof.
    intros I H. rewrite (inv_once s I) in H. destruct (k <? n) eqn:E; [apply Nat.ltb_lt in E; exact E | lia].
  Qed.

  Ltac st := unfold total in *; cbn [tq idle running rq res received pc] in *.

  Lemma inv_step s l s' : Inv s -> step true s l = Some s' -> Inv s'.
  Proof.
    intros I H. destruct l as [|i|]; cbn [Model_ParMap.step] in H.
    - (* Take *)
      destruct (idle s) as [|k0] eqn:Ei; [discriminate|]. destruct (tq s) as [|i t] eqn:Et; [discriminate|].
      inversion H; subst; clear H. constructor; st.
      + apply (inv_len s I).
      + intro k. pose proof (inv_once s I k) as O. st. rewrite Et in O. rewrite cnt_cons in O. rewrite cnt_cons. lia.
      + apply (inv_res s I).
      + apply (inv_pc s I).
    - (* Finish i *)
      destruct (existsb (Nat.eqb i) (running s)) eqn:Er; [|discriminate].
      rewrite andb_false_r in H. inversion H; subst; clear H. constructor; st.
      + apply (inv_len s I).
      + intro k. pose proof (inv_once s I k) as O. st.
        pose proof (cnt_remove_one i k _ Er) as C. rewrite cnt_app, cnt_cons, cnt_nil. lia.
      + apply (inv_res s I).
      + apply (inv_pc s I).
    - (* MainGet *)
      destruct (pc s) eqn:Ep; [|discriminate]. destruct (rq s) as [|i t] eqn:Eq; [discriminate|].
      inversion H; subst; clear H.
      assert (Hi : i < n).
      { apply (total_lt s i I). unfold total. rewrite Eq, cnt_cons, Nat.eqb_refl. lia. }
      constructor; st.
      + rewrite set_nth_length. apply (inv_len s I).
      + intro k. pose proof (inv_once s I k) as O. st. rewrite Eq in O. rewrite cnt_cons in O. rewrite cnt_cons. lia.
      + intros k Hk. rewrite nth_set_nth by (rewrite (inv_len s I); exact Hi).
        cbn [existsb]. rewrite (Nat.eqb_sym k i). destruct (Nat.eqb i k) eqn:E.
        * apply Nat.eqb_eq in E. subst. reflexivity.
        * cbn [orb]. apply (inv_res s I). exact Hk.
      + split; intro H.
        * destruct n as [|m]; [discriminate|]. destruct (Nat.eqb_spec (length (received s)) m) as [E|E]; [simpl; rewrite E; reflexivity | discriminate].
        * rewrite <- H. cbn. rewrite Nat.eqb_refl. reflexivity.
  Qed.

  Lemma inv_run ls : forall s s', Inv s -> run true s ls = Some s' -> Inv s'.
  Proof.
    induction ls as [|l ls IH]; intros s s' I H; simpl in H.
    - inversion H; subst. exact I.
    - destruct (step true s l) as [s1|] eqn:E; [|discriminate]. eapply IH; [eapply inv_step; eassumption | exact H].
  Qed.

  (* ---- pigeonhole facts from the counting invariant ---- *)
  Lemma received_nodup s : Inv s -> NoDup (received s).
  Proof.
    intro I. apply (NoDup_count_occ Nat.eq_dec). intro k. pose proof (inv_once s I k) as O. unfold total, cnt in O.
    destruct (k <? n); lia.
  Qed.

  Lemma received_lt s k : Inv s -> In k (received s) -> k < n.
  Proof.
    intros I H. apply (total_lt s k I). unfold total.
    assert (cnt k (received s) > 0) by (apply (count_occ_In Nat.eq_dec); exact H). lia.
  Qed.

  Lemma received_incl s : Inv s -> incl (received s) (seq 0 n).
  Proof. intros I k H. apply in_seq. pose proof (received_lt s k I H). lia. Qed.

  Lemma received_le s : Inv s -> length (received s) <= n.
  Proof.
    intro I. rewrite <- (seq_length n 0). apply NoDup_incl_length; [apply received_nodup; exact I | apply received_incl; exact I].
  Qed.

  Lemma existsb_In k l : existsb (Nat.eqb k) l = true <-> In k l.
  Proof.
    rewrite existsb_exists. split.
    - intros (x & Hx & E). apply Nat.eqb_eq in E. subst. exact Hx.
    - intro H. exists k. split; [exact H | apply Nat.eqb_refl].
  Qed.

  Lemma all_received s : Inv s -> length (received s) = n -> forall k, k < n -> existsb (Nat.eqb k) (received s) = true.
  Proof.
    intros I L k Hk. apply existsb_In.
    assert (G : incl (seq 0 n) (received s)).
    { apply NoDup_length_incl; [apply received_nodup; exact I | rewrite seq_length; lia | apply received_incl; exact I]. }
    apply G. apply in_seq. lia.
  Qed.

  Lemma some_pending s : Inv s -> length (received s) <> n -> exists k, k < n /\ ~ In k (received s).
  Proof.
    intros I L.
    destruct (existsb (fun k => negb (existsb (Nat.eqb k) (received s))) (seq 0 n)) eqn:E.
    - apply existsb_exists in E. destruct E as (k & Hk & Hn). apply in_seq in Hk. exists k. split; [lia|].
      intro Hin. apply existsb_In in Hin. rewrite Hin in Hn. discriminate.
    - exfalso. apply L. apply Nat.le_antisymm; [apply received_le; exact I|].
      rewrite <- (seq_length n 0) at 1. apply NoDup_incl_length; [apply seq_NoDup|].
      intros k Hk. apply existsb_In. destruct (existsb (Nat.eqb k) (received s)) eqn:Ek; [reflexivity|].
      exfalso. assert (X : existsb (fun k0 => negb (existsb (Nat.eqb k0) (received s))) (seq 0 n) = true).
      { apply existsb_exists. exists k. split; [exact Hk | rewrite Ek; reflexivity]. }
      congruence.
  Qed.

  (* ---------------- the theorems ---------------- *)
  (* results are never in the wrong position, in every reachable state *)
  Theorem positions np ls s : run true (init np) ls = Some s ->
    forall k o, nth_error (res s) k = Some (Some o) -> o = outcome k.
  Proof.
    intros H k o Hk. pose proof (inv_run ls _ _ (inv_init np) H) as I.
    assert (k < n) by (rewrite <- (inv_len s I); apply nth_error_Some; congruence).
    rewrite (inv_res s I k) in Hk by assumption. destruct (existsb _ _); inversion Hk; reflexivity.
  Qed.

  Lemma nth_ext' {A} (a b : list A) : (forall k, nth_error a k = nth_error b k) -> a = b.
  Proof.
    revert b. induction a as [|x a IH]; intros b H; destruct b as [|y b]; try reflexivity.
    - specialize (H 0). discriminate.
    - specialize (H 0). discriminate.
    - pose proof (H 0) as H0. simpl in H0. inversion H0; subst. f_equal. apply IH. intro k. apply (H (S k)).
  Qed.

  Lemma nth_map_seq {A} (f : nat -> A) m : forall a k, k < m -> nth_error (map f (seq a m)) k = Some (f (a + k)).
  Proof.
    induction m as [|m IH]; intros a k H; [lia|]. destruct k; simpl.
    - rewrite Nat.add_0_r. reflexivity.
    - rewrite IH by lia. f_equal. f_equal. lia.
  Qed.

  Lemma res_when_done s : Inv s -> pc s = Done -> res s = map (fun i => Some (outcome i)) (seq 0 n).
  Proof.
    intros I D. apply (inv_pc s I) in D.
    apply nth_ext'. intro k. destruct (Nat.lt_ge_cases k n) as [Hk|Hk].
    - rewrite (inv_res s I k Hk), (all_received s I D k Hk).
      rewrite nth_map_seq by exact Hk. reflexivity.
    - rewrite (proj2 (nth_error_None _ _)) by (rewrite (inv_len s I); exact Hk).
      symmetry. apply nth_error_None. rewrite map_length, seq_length. exact Hk.
  Qed.

  (* whatever the schedule and the number of workers: once __call__ has all results, what it returns/raises is
     exactly what the serial loop returns/raises *)
  Theorem done_is_serial np ls s : run true (init np) ls = Some s -> pc s = Done ->
    collect R Ex (res s) = serial R Ex outcome n.
  Proof.
    intros H D. unfold serial. rewrite (res_when_done s (inv_run ls _ _ (inv_init np) H) D). reflexivity.
  Qed.

  (* workers are conserved by the repaired code: nobody dies *)
  Lemma workers_step s l s' : step true s l = Some s' -> idle s' + length (running s') = idle s + length (running s).
  Proof.
    intro Es. destruct l as [|i|]; cbn [Model_ParMap.step] in Es.
    - destruct (idle s) eqn:Ei; [discriminate|]. destruct (tq s); [discriminate|]. inversion Es; subst; cbn [idle running length]. lia.
    - destruct (existsb (Nat.eqb i) (running s)) eqn:Er; [|discriminate]. rewrite andb_false_r in Es.
      inversion Es; subst; cbn [idle running]. pose proof (length_remove_one i _ Er). lia.
    - destruct (pc s); [|discriminate]. destruct (rq s); [discriminate|]. inversion Es; subst; reflexivity.
  Qed.

  Lemma workers_run ls : forall s s', run true s ls = Some s' -> idle s' + length (running s') = idle s + length (running s).
  Proof.
    induction ls as [|l ls IH]; intros s s' H; cbn [Model_ParMap.run] in H; [inversion H; reflexivity|].
    destruct (step true s l) as [s1|] eqn:E; [|discriminate]. rewrite (IH _ _ H). apply (workers_step _ _ _ E).
  Qed.

  (* no deadlock: while main is waiting for results some step is always enabled (any np >= 1, any schedule) *)
  Theorem never_stuck np ls s : np >= 1 -> run true (init np) ls = Some s -> pc s = Waiting ->
    exists l s', step true s l = Some s'.
  Proof.
    intros Hnp H W. pose proof (inv_run ls _ _ (inv_init np) H) as I.
    pose proof (workers_run ls _ _ H) as Hw. cbn [Model_ParMap.init idle running length] in Hw.
    assert (L : length (received s) <> n) by (intro E; apply (inv_pc s I) in E; congruence).
    destruct (some_pending s I L) as (k & Hk & Hnot).
    pose proof (inv_once s I k) as O. unfold total in O. apply Nat.ltb_lt in Hk. rewrite Hk in O.
    assert (Z : cnt k (received s) = 0) by (apply (count_occ_not_In Nat.eq_dec); exact Hnot).
    destruct (rq s) as [|j t] eqn:Eq.
    - destruct (running s) as [|j t] eqn:Er.
      + (* all live workers idle, the task is still queued *)
        destruct (tq s) as [|j t] eqn:Et; [rewrite !cnt_nil in O; lia|].
        destruct (idle s) as [|m] eqn:Ei; [cbn [length] in Hw; lia|].
        exists Take. eexists. cbn [Model_ParMap.step]. rewrite Ei, Et. reflexivity.
      + exists (Finish j). eexists. cbn [Model_ParMap.step]. rewrite Er. cbn [existsb]. rewrite Nat.eqb_refl. cbn [orb].
        rewrite andb_false_r. reflexivity.
    - exists MainGet. eexists. cbn [Model_ParMap.step]. rewrite W, Eq. reflexivity.
  Qed.

  (* every step strictly decreases the measure, so every schedule is finite: with never_stuck, every maximal
     schedule ends with main Done, i.e. (done_is_serial) with the serial result or the serial exception *)
  Theorem step_decreases catch s l s' : Model_ParMap.step R Ex outcome n catch s l = Some s' ->
    measure R Ex s' < measure R Ex s.
  Proof.
    intro Es. unfold measure. destruct l as [|i|]; cbn [Model_ParMap.step] in Es.
    - destruct (idle s); [discriminate|]. destruct (tq s) eqn:Et; [discriminate|]. inversion Es; subst; cbn [tq running rq length]. lia.
    - destruct (existsb (Nat.eqb i) (running s)) eqn:Er; [|discriminate]. pose proof (length_remove_one i _ Er) as Lr.
      destruct (is_err R Ex (outcome i) && negb catch); inversion Es; subst; cbn [tq running rq]; rewrite ?app_length; cbn [length]; lia.
    - destruct (pc s); [|discriminate]. destruct (rq s) eqn:Eq; [discriminate|]. inversion Es; subst; cbn [tq running rq length]. lia.
  Qed.
End Proofs.

(* The pinned (unrepaired) worker: a failing task kills the worker and nothing is ever put on the result queue.
   One task, one worker: after Take and Finish the system is stuck with main still waiting -- the caller blocks
   forever (finding F4, replayed on the implementation by the harness before the repair). *)
Theorem pinned_code_deadlocks :
  exists s, Model_ParMap.run unit unit (fun _ => Err tt) 1 false (Model_ParMap.init unit unit 1 1) [Take; Finish 0] = Some s
            /\ pc s = Waiting /\ stuck unit unit (fun _ => Err tt) 1 false s.
Proof.
  eexists. split; [vm_compute; reflexivity|]. split; [reflexivity|].
  intro l. destruct l as [|i|]; vm_compute; reflexivity.
Qed.

(* ---- transport: when the wrapper tests with the queue's own serializer, every failing task's report reaches the caller *)
Section TransportProofs.
  Variable Ex : Type.
  Variable pickles check : Ex -> bool.
  Variable describe : Ex -> Ex.
  Hypothesis describe_pickles : forall e, pickles (describe e) = true.

  Theorem wrap_delivered : (forall e, check e = true -> pickles e = true) -> forall e, delivered Ex pickles check describe e = true.
  Proof.
    intros H e. unfold delivered, wrap. destruct (check e) eqn:E; [apply H; exact E | apply describe_pickles].
  Qed.

  (* a test that accepts more than the queue can carry (e.g. dill's) loses the report of exactly those exceptions *)
  Theorem wrap_lost_iff e : delivered Ex pickles check describe e = false <-> (check e = true /\ pickles e = false).
  Proof.
    unfold delivered, wrap. destruct (check e) eqn:E.
    - split; [intro H; split; [reflexivity | exact H] | intros [_ H]; exact H].
    - rewrite describe_pickles. split; [discriminate | intros [H _]; discriminate].
  Qed.
End TransportProofs.
