(* C08: integer/list library, BOUT++'s documented meaning of the topology integers (hand-written SPEC), and the
   executable model of hypnotoad's block layout (regions in output order, radial segments, connection table). *)
From Coq Require Import ZArith List Bool.
Import ListNotations.
Local Open Scope Z_scope.

Record ints := mkints {
  ixseps1 : Z; ixseps2 : Z; jyseps1_1 : Z; jyseps2_1 : Z; ny_inner : Z; jyseps1_2 : Z; jyseps2_2 : Z }.

Definition nthZ (l : list Z) (k : nat) : Z := nth k l 0.
Fixpoint sumfirst (l : list Z) (k : nat) : Z :=
  match k, l with
  | S k', h :: t => h + sumfirst t k'
  | _, _ => 0
  end.

(* ------------------------------------------------------------------------------------------------------
   SPEC (BOUT++ manual, "BOUT++ topology"; the rules BoutMesh::topology() implements).
   Global y index j WITHOUT boundary guard cells, 0 <= j < ny.  bout_up t ny x j = the cell reached by one
   step in +y from (x, j); None = a target (boundary).  The lower X-point branch cuts (after jyseps1_1 and
   after jyseps2_2) apply inside ixseps1, the upper ones (after jyseps2_1 and jyseps1_2) inside ixseps2;
   a second pair of targets sits at ny_inner when jyseps2_1 <> jyseps1_2 (double null). *)
Definition bout_up (t : ints) (ny x j : Z) : option Z :=
  let dn := negb (jyseps2_1 t =? jyseps1_2 t) in
  let step := if j =? ny - 1 then None else Some (j + 1) in
  if j =? jyseps1_1 t then (if x <? ixseps1 t then Some (jyseps2_2 t + 1) else step)
  else if j =? jyseps2_2 t then (if x <? ixseps1 t then Some (jyseps1_1 t + 1) else step)
  else if dn && (j =? jyseps2_1 t) then (if x <? ixseps2 t then Some (jyseps1_2 t + 1) else step)
  else if dn && (j =? jyseps1_2 t) then (if x <? ixseps2 t then Some (jyseps2_1 t + 1) else step)
  else if dn && (j =? ny_inner t - 1) then None
  else step.

(* the index ordering BOUT++ insists on (it silently moves indices that violate it) *)
Definition ordered (t : ints) (ny : Z) : Prop :=
  -1 <= jyseps1_1 t /\ jyseps1_1 t <= jyseps2_1 t /\ jyseps2_1 t <= jyseps1_2 t /\ jyseps1_2 t <= jyseps2_2 t /\
  jyseps2_2 t <= ny - 1 /\
  (jyseps2_1 t <> jyseps1_2 t -> jyseps2_1 t < ny_inner t /\ ny_inner t <= jyseps1_2 t).
Definition orderedb (t : ints) (ny : Z) : bool :=
  (-1 <=? jyseps1_1 t) && (jyseps1_1 t <=? jyseps2_1 t) && (jyseps2_1 t <=? jyseps1_2 t) && (jyseps1_2 t <=? jyseps2_2 t) &&
  (jyseps2_2 t <=? ny - 1) &&
  ((jyseps2_1 t =? jyseps1_2 t) || ((jyseps2_1 t <? ny_inner t) && (ny_inner t <=? jyseps1_2 t))).

(* ------------------------------------------------------------------------------------------------------
   MODEL of hypnotoad's layout (BoutMesh.__init__ / Mesh.__init__): regions in output order with ny_noguards
   cells each (ys), radial segments delimited by x_startinds (xs), connection table (upper neighbour). *)
Fixpoint offset (ys : list Z) (r : nat) : Z :=
  match r, ys with
  | S r', h :: t => h + offset t r'
  | _, _ => 0
  end.

(* region containing global y index j, and whether j is its last cell *)
Fixpoint region_of (ys : list Z) (j : Z) (r : nat) : option (nat * bool) :=
  match ys with
  | [] => None
  | h :: t => if j <? h then Some (r, j =? h - 1) else region_of t (j - h) (S r)
  end.

Fixpoint seg_of (xs : list Z) (x : Z) (k : nat) : option nat :=
  match xs with
  | a :: ((b :: _) as t) => if (a <=? x) && (x <? b) then Some k else seg_of t x (S k)
  | _ => None
  end.

Definition pair_eqb (a b : nat * nat) : bool := Nat.eqb (fst a) (fst b) && Nat.eqb (snd a) (snd b).
Fixpoint upper (conn : list ((nat * nat) * (nat * nat))) (rk : nat * nat) : option (nat * nat) :=
  match conn with
  | [] => None
  | (a, b) :: t => if pair_eqb a rk then Some b else upper t rk
  end.
Fixpoint lower (conn : list ((nat * nat) * (nat * nat))) (rk : nat * nat) : option (nat * nat) :=
  match conn with
  | [] => None
  | (a, b) :: t => if pair_eqb b rk then Some a else lower t rk
  end.

Definition model_up (conn : list ((nat * nat) * (nat * nat))) (ys xs : list Z) (x j : Z) : option Z :=
  match region_of ys j 0%nat, seg_of xs x 0%nat with
  | Some (r, last), Some k =>
      if last then match upper conn (r, k) with Some (r', _) => Some (offset ys r') | None => None end
      else Some (j + 1)
  | _, _ => None
  end.
