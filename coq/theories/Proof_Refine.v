(* C01: theorems about the refinement model (theories/Model_Refine.v). *)
From Coq Require Import ZArith List Bool Arith Lia Reals Lra.
From HT Require Import Field Model_Refine.
Import ListNotations.

Section Generic.
  Context {T : Type} (O : ops T).
  Variable psi : T -> T -> T.
  Variable psival : T.
  Variable line_search : @pt2 T -> @pt2 T -> T -> T -> @outcome T.
  Variable integrate : @pt2 T -> @outcome T.

  Notation newton_loop := (newton_loop O).
  Notation refine_newton := (refine_newton O psi psival).
  Notation run_method := (run_method O psi psival line_search integrate).
  Notation refine_point := (refine_point O psi psival line_search integrate).
  Notation get_refined := (get_refined O psi psival line_search integrate).
  Notation fline := (fline O psi psival).

  (* an accepted Newton iterate satisfies the ABSOLUTE tolerance test of the code *)
  Lemma newton_loop_sound fuel : forall count f atol s fprev s',
    newton_loop fuel count f atol s fprev = Some s' -> olt O (oabs O (f s')) atol = true.
  Proof.
    induction fuel as [|k IH]; intros count f atol s fprev s' H; [discriminate|].
    cbn [Model_Refine.newton_loop] in H.
    destruct (olt O (oabs O (f (osub O s (odiv O fprev (dfds O f s))))) atol) eqn:E1.
    - inversion H; subst. exact E1.
    - destruct (ogt O _ _ || (10 <? count)%nat); [discriminate|]. eapply IH; exact H.
  Qed.

  (* the loop never runs out of the structural fuel: the code's own counter stops it after at most 12 iterations *)
  Lemma newton_fuel_general fuel : forall count f atol s fprev,
    (count <= 11)%nat -> (12 - count <= fuel)%nat ->
    newton_loop fuel count f atol s fprev = newton_loop (12 - count) count f atol s fprev.
  Proof.
    induction fuel as [|k IH]; intros count f atol s fprev Hc Hf; [lia|].
    replace (12 - count)%nat with (S (11 - count)) by lia.
    cbn [Model_Refine.newton_loop].
    destruct (olt O _ atol); [reflexivity|].
    destruct (10 <? count)%nat eqn:E10.
    - rewrite orb_true_r. reflexivity.
    - rewrite orb_false_r. destruct (ogt O _ _); [reflexivity|].
      apply Nat.ltb_ge in E10.
      rewrite IH by lia. replace (12 - S count)%nat with (11 - count)%nat by lia. reflexivity.
  Qed.
  Theorem newton_fuel_enough extra f atol s fprev :
    newton_loop (newton_fuel + extra) 0 f atol s fprev = newton_loop newton_fuel 0 f atol s fprev.
  Proof. unfold newton_fuel. rewrite newton_fuel_general by lia. reflexivity. Qed.

  (* what refinePointNewton guarantees about the point it returns *)
  Definition within_abs (atol : T) (p tangent : @pt2 T) (s : T) : Prop := olt O (oabs O (fline p tangent s)) atol = true.
  Definition within_rel (atol : T) (p tangent : @pt2 T) : Prop :=
    olt O (oabs O (fline p tangent (zero O))) (omul O atol (oabs O psival)) = true.

  Theorem refine_newton_sound p tangent atol q :
    refine_newton p tangent atol = Done q ->
    (q = p /\ within_rel atol p tangent) \/
    (exists s, q = padd O p (pscale O tangent s) /\ within_abs atol p tangent s).
  Proof.
    unfold Model_Refine.refine_newton. cbv zeta.
    destruct (olt O (oabs O (fline p tangent (zero O))) _) eqn:E0.
    - intro H; inversion H; subst. left. split; [reflexivity | exact E0].
    - destruct (newton_loop _ _ _ _ _ _) as [s|] eqn:EL; [|discriminate].
      intro H; inversion H; subst. right. exists s. split; [reflexivity|].
      eapply newton_loop_sound; exact EL.
  Qed.

  (* refinePoint: the first method that does not raise gives the result; all methods raising = SolutionError *)
  Theorem refine_point_first_success ms p tangent width atol q :
    refine_point ms p tangent width atol = Done q ->
    exists pre m post, ms = pre ++ m :: post /\ run_method m p tangent width atol = Done q /\
                       Forall (fun m' => run_method m' p tangent width atol = Fail) pre.
  Proof.
    induction ms as [|m rest IH]; cbn [Model_Refine.refine_point]; [discriminate|].
    destruct (run_method m p tangent width atol) as [q'|] eqn:Em.
    - intro H; inversion H; subst. exists [], m, rest. repeat split; auto.
    - intro H. destruct (IH H) as (pre & m0 & post & -> & Hm & Hall).
      exists (m :: pre), m0, post. repeat split; auto.
  Qed.
  Theorem refine_point_fails_iff ms p tangent width atol :
    refine_point ms p tangent width atol = Fail <-> Forall (fun m => run_method m p tangent width atol = Fail) ms.
  Proof.
    induction ms as [|m rest IH]; cbn [Model_Refine.refine_point].
    - split; auto.
    - destruct (run_method m p tangent width atol) eqn:Em.
      + split; [discriminate | intro H; inversion H; congruence].
      + rewrite IH. split; intro H; [constructor; assumption | inversion H; assumption].
  Qed.

  (* ---- getRefined ---- *)
  Lemma all_done_spec (l : list (@outcome T)) r : all_done l = Some r ->
    length r = length l /\ forall i, (i < length l)%nat -> nth i l Fail = Done (nth i r (dpt O)).
  Proof.
    revert r. induction l as [|o l IH]; cbn [all_done]; intros r H.
    - inversion H; subst. split; [reflexivity | intros i Hi; inversion Hi].
    - destruct o as [p|]; [|discriminate]. destruct (all_done l) as [r'|] eqn:E; [|discriminate].
      inversion H; subst. destruct (IH r' eq_refl) as [L N]. split; [simpl; congruence|].
      intros [|i] Hi; [reflexivity|]. simpl. apply N. simpl in Hi. lia.
  Qed.

  Lemma set_nth_length {A} i (x : A) l : length (set_nth i x l) = length l.
  Proof. revert i; induction l as [|h t IH]; intros [|i]; simpl; auto. Qed.
  Lemma set_nth_same {A} i (x d : A) l : (i < length l)%nat -> nth i (set_nth i x l) d = x.
  Proof. revert i; induction l as [|h t IH]; intros [|i] H; simpl in *; try lia; auto. apply IH. lia. Qed.
  Lemma set_nth_other {A} i j (x d : A) l : i <> j -> nth j (set_nth i x l) d = nth j l d.
  Proof. revert i j; induction l as [|h t IH]; intros [|i] [|j] H; simpl; auto; try congruence. Qed.

  Theorem get_refined_spec ms pts width atol r :
    get_refined ms pts width atol false 0 0 = Some r ->
    length r = length pts /\ (2 <= length pts)%nat /\
    forall i, (i < length pts)%nat ->
      refine_point ms (nth i pts (dpt O)) (tangent_at O pts i) width atol = Done (nth i r (dpt O)).
  Proof.
    unfold Model_Refine.get_refined. destruct (length pts <? 2)%nat eqn:E2; [discriminate|].
    apply Nat.ltb_ge in E2.
    destruct (all_done _) as [r'|] eqn:EA; [|discriminate]. intro H; inversion H; subst.
    destruct (all_done_spec _ _ EA) as [L N]. rewrite map_length, seq_length in L, N.
    split; [exact L|]. split; [exact E2|]. intros i Hi. specialize (N i Hi).
    rewrite <- N.
    rewrite (nth_indep _ Fail (refine_point ms (nth 0 pts (dpt O)) (tangent_at O pts 0) width atol)) by (rewrite map_length, seq_length; exact Hi).
    rewrite (map_nth (fun i => refine_point ms (nth i pts (dpt O)) (tangent_at O pts i) width atol) (seq 0 (length pts)) 0%nat i).
    rewrite seq_nth by exact Hi. reflexivity.
  Qed.

  (* with skip_endpoints the entries at startInd / endInd are the ORIGINAL points, every other entry is a refined point *)
  Theorem get_refined_skip_spec ms pts width atol si ei r :
    get_refined ms pts width atol true si ei = Some r -> (si < length pts)%nat -> (ei < length pts)%nat ->
    length r = length pts /\
    nth ei r (dpt O) = nth ei pts (dpt O) /\
    (si <> ei -> nth si r (dpt O) = nth si pts (dpt O)) /\
    forall i, (i < length pts)%nat -> i <> si -> i <> ei ->
      refine_point ms (nth i pts (dpt O)) (tangent_at O pts i) width atol = Done (nth i r (dpt O)).
  Proof.
    intros H Hs He. unfold Model_Refine.get_refined in H. destruct (length pts <? 2)%nat eqn:E2; [discriminate|].
    destruct (all_done _) as [r'|] eqn:EA; [|discriminate]. inversion H; subst; clear H.
    assert (G : get_refined ms pts width atol false 0 0 = Some r').
    { unfold Model_Refine.get_refined. rewrite E2, EA. reflexivity. }
    destruct (get_refined_spec _ _ _ _ _ G) as (L & _ & N).
    rewrite !set_nth_length. split; [exact L|]. split.
    - apply set_nth_same. rewrite set_nth_length. lia.
    - split.
      + intro Hne. rewrite set_nth_other by congruence. apply set_nth_same. lia.
      + intros i Hi H1 H2. rewrite !set_nth_other by congruence. apply N; exact Hi.
  Qed.
End Generic.

(* ---------------- the real-number instance: what the accepted points satisfy ---------------- *)
Section Real.
  Local Open Scope R_scope.
  Variable psi : R -> R -> R.
  Variable psival : R.
  Variable line_search : @pt2 R -> @pt2 R -> R -> R -> @outcome R.
  Variable integrate : @pt2 R -> @outcome R.

  Definition residual (q : @pt2 R) : R := Rabs (psi (pR q) (pZ q) - psival).
  (* the tolerance the code enforces: |f| < atol after an iteration, |f| < atol*|psival| for a point accepted unchanged *)
  Definition refine_bound (atol : R) : R := Rmax atol (atol * Rabs psival).

  Lemma Rltb_true a b : Rltb a b = true -> a < b.
  Proof. unfold Rltb. destruct (Rlt_dec a b); [auto | discriminate]. Qed.

  Lemma fline_zero p t : fline Rops psi psival p t (zero Rops) = psi (pR p) (pZ p) - psival.
  Proof.
    unfold fline, padd, pscale, zero; cbn [pR pZ]. unfold_ops. cbn [Z.eqb Pos.eqb].
    rewrite !Rmult_0_r, !Rplus_0_r. reflexivity.
  Qed.

  Theorem refine_newton_real p t atol q :
    refine_newton Rops psi psival p t atol = Done q -> residual q < atol \/ residual q < atol * Rabs psival.
  Proof.
    intro H. destruct (refine_newton_sound Rops psi psival p t atol q H) as [[-> W]|(s & -> & W)].
    - right. unfold within_rel in W. apply Rltb_true in W. rewrite fline_zero in W. exact W.
    - left. unfold within_abs in W. apply Rltb_true in W. exact W.
  Qed.

  Definition tolerant (m : method) : Prop := m = MNewton \/ m = MIntegrateNewton.

  Lemma run_tolerant_real m p t w atol q : tolerant m ->
    run_method Rops psi psival line_search integrate m p t w atol = Done q -> residual q < refine_bound atol.
  Proof.
    intros [-> | ->]; cbn [run_method]; intro H.
    - destruct (refine_newton_real _ _ _ _ H) as [A|A]; unfold refine_bound;
        [pose proof (Rmax_l atol (atol * Rabs psival)) | pose proof (Rmax_r atol (atol * Rabs psival))]; lra.
    - destruct (integrate p) as [p'|]; [|discriminate].
      destruct (refine_newton_real _ _ _ _ H) as [A|A]; unfold refine_bound;
        [pose proof (Rmax_l atol (atol * Rabs psival)) | pose proof (Rmax_r atol (atol * Rabs psival))]; lra.
  Qed.

  (* refinePoint with tolerance-respecting methods only: an exception or a point within the tolerance *)
  Theorem refine_point_real ms p t w atol q : Forall tolerant ms ->
    refine_point Rops psi psival line_search integrate ms p t w atol = Done q -> residual q < refine_bound atol.
  Proof.
    intros Hall H. destruct (refine_point_first_success Rops psi psival line_search integrate ms p t w atol q H)
      as (pre & m & post & -> & Hm & _).
    apply Forall_app in Hall as [_ Hall]. inversion Hall; subst.
    eapply run_tolerant_real; eassumption.
  Qed.

  (* the DEFAULT refine_methods = ["integrate+newton", "integrate"]: a returned point is within the tolerance OR it is the raw
     result of the integrate fallback after the Newton step failed -- the one unguarded path (contract, monitored) *)
  Theorem refine_point_default_real p t w atol q :
    refine_point Rops psi psival line_search integrate [MIntegrateNewton; MIntegrate] p t w atol = Done q ->
    residual q < refine_bound atol \/
    (integrate p = Done q /\ run_method Rops psi psival line_search integrate MIntegrateNewton p t w atol = Fail).
  Proof.
    cbn [refine_point]. destruct (run_method _ _ _ _ _ MIntegrateNewton p t w atol) as [q'|] eqn:E1.
    - intro H; inversion H; subst. left. eapply run_tolerant_real; [right; reflexivity | exact E1].
    - cbn [run_method]. destruct (integrate p) as [q'|]; [|discriminate]. intro H; inversion H; subst. right. auto.
  Qed.

  (* getRefined: every point of the new contour is within the tolerance (tolerance-respecting methods, no skipped end points) *)
  Theorem get_refined_real ms pts w atol r : Forall tolerant ms ->
    get_refined Rops psi psival line_search integrate ms pts w atol false 0 0 = Some r ->
    length r = length pts /\ forall i, (i < length r)%nat -> residual (nth i r (dpt Rops)) < refine_bound atol.
  Proof.
    intros Hall H. destruct (get_refined_spec Rops psi psival line_search integrate ms pts w atol r H) as (L & _ & N).
    split; [exact L|]. intros i Hi. rewrite L in Hi. eapply refine_point_real; [exact Hall | apply N; exact Hi].
  Qed.
End Real.
