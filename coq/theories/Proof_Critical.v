From Coq Require Import QArith List Bool Lia Sorting.Permutation.
From Coq Require Import Reals Lra.
From Coquelicot Require Import Coquelicot.
From HG Require Import Gen_Critical.
From HT Require Import Model_Critical.
Import ListNotations.

(* ---------------------------------------------------------------- Newton step (over R) *)
Section Newton.
  Local Open Scope R_scope.
  Variables psi psiR psiZ psiRR psiZZ psiRZ : R -> R -> R.
  Hypothesis psi_r : forall r z, is_derive (fun x => psi x z) r (psiR r z).
  Hypothesis psiR_r : forall r z, is_derive (fun x => psiR x z) r (psiRR r z).
  Hypothesis psiR_z : forall r z, is_derive (fun x => psiR r x) z (psiRZ r z).
  Hypothesis psiZ_r : forall r z, is_derive (fun x => psiZ x z) r (psiRZ r z).
  Hypothesis psiZ_z : forall r z, is_derive (fun x => psiZ r x) z (psiZZ r z).
  Notation Br r z := (C_Br r (psiR r z) (psiZ r z)).
  Notation Bz r z := (C_Bz r (psiR r z) (psiZ r z)).

  Lemma ex1 r z : ex_derive (fun x => psiR x z) r. Proof. eexists; apply psiR_r. Qed.
  Lemma ex2 r z : ex_derive (fun x => psiR r x) z. Proof. eexists; apply psiR_z. Qed.
  Lemma ex3 r z : ex_derive (fun x => psiZ x z) r. Proof. eexists; apply psiZ_r. Qed.
  Lemma ex4 r z : ex_derive (fun x => psiZ r x) z. Proof. eexists; apply psiZ_z. Qed.
  Lemma de1 r z : Derive (fun x => psiR x z) r = psiRR r z. Proof. apply is_derive_unique, psiR_r. Qed.
  Lemma de2 r z : Derive (fun x => psiR r x) z = psiRZ r z. Proof. apply is_derive_unique, psiR_z. Qed.
  Lemma de3 r z : Derive (fun x => psiZ x z) r = psiRZ r z. Proof. apply is_derive_unique, psiZ_r. Qed.
  Lemma de4 r z : Derive (fun x => psiZ r x) z = psiZZ r z. Proof. apply is_derive_unique, psiZ_z. Qed.

  (* the matrix the iteration inverts is the Jacobian of the residual (Br, Bz) with respect to (R, Z) *)
  Lemma jacobian r z : r <> 0 ->
    is_derive (fun x => Br x z) r (C_J00 r (Br r z) (Bz r z) (psiRR r z) (psiRZ r z) (psiZZ r z)) /\
    is_derive (fun x => Br r x) z (C_J01 r (Br r z) (Bz r z) (psiRR r z) (psiRZ r z) (psiZZ r z)) /\
    is_derive (fun x => Bz x z) r (C_J10 r (Br r z) (Bz r z) (psiRR r z) (psiRZ r z) (psiZZ r z)) /\
    is_derive (fun x => Bz r x) z (C_J11 r (Br r z) (Bz r z) (psiRR r z) (psiRZ r z) (psiZZ r z)).
  Proof.
    intros Hr. unfold C_Br, C_Bz, C_J00, C_J01, C_J10, C_J11. split; [|split; [|split]].
    - auto_derive; [split; [exact (ex3 r z) | split; [exact Hr | exact I]] |]. rewrite de3. field. exact Hr.
    - auto_derive; [exact (ex4 r z) |]. rewrite de4. field. exact Hr.
    - auto_derive; [split; [exact (ex1 r z) | split; [exact Hr | exact I]] |]. rewrite de1. field. exact Hr.
    - auto_derive; [exact (ex2 r z) |]. rewrite de2. field. exact Hr.
  Qed.

  (* an accepted point: grad(psi) vanishes to the tolerance, |grad psi|^2 < atol R^2 *)
  Lemma accepted r z atol : r <> 0 -> Br r z * Br r z + Bz r z * Bz r z < atol ->
    psiR r z * psiR r z + psiZ r z * psiZ r z < atol * (r * r).
  Proof.
    intros Hr H. unfold C_Br, C_Bz in H.
    replace (- psiZ r z / r * (- psiZ r z / r) + psiR r z / r * (psiR r z / r)) with ((psiR r z * psiR r z + psiZ r z * psiZ r z) / (r * r)) in H by (field; exact Hr).
    assert (0 < r * r) by nra. apply (Rmult_lt_compat_r (r * r)) in H; [|assumption].
    replace ((psiR r z * psiR r z + psiZ r z * psiZ r z) / (r * r) * (r * r)) with (psiR r z * psiR r z + psiZ r z * psiZ r z) in H by (field; exact Hr). exact H.
  Qed.

  (* the classification: for a quadratic flux function sampled on ANY uniform grid (nodes need not sit on the critical point) the finite-difference
     discriminant is exactly the determinant of the Hessian, 4 a c - b^2 *)
  Lemma discriminant_exact a b c d e g r0 z0 dR dZ : dR <> 0 -> dZ <> 0 ->
    let q := fun r z => a * r * r + b * r * z + c * z * z + d * r + e * z + g in
    C_D (fun i j => q (r0 + IZR i * dR) (z0 + IZR j * dZ)) dR dZ = 4 * a * c - b * b.
  Proof. intros HR HZ q. unfold C_D, q. field. split; assumption. Qed.
End Newton.

(* ---------------------------------------------------------------- post-processing (over Q) *)
Local Open Scope Q_scope.

Lemma Qltb_spec a b : Qltb a b = true <-> a < b.
Proof. unfold Qltb. rewrite negb_true_iff. split; intros H; [apply Qnot_le_lt; intro E; apply Qle_bool_iff in E; congruence | apply not_true_is_false; intro E; apply Qle_bool_iff in E; apply (Qlt_not_le _ _ H E)]. Qed.
Lemma Qltb_false a b : Qltb a b = false <-> b <= a.
Proof. unfold Qltb. rewrite negb_false_iff. apply Qle_bool_iff. Qed.

(* remove_dup *)
Definition separated (thr : Q) (l : list pt) : Prop := forall i j p q, (i < j)%nat -> nth_error l i = Some q -> nth_error l j = Some p -> near thr p q = false.

Lemma remove_dup_from_spec thr l : forall kept, separated thr kept ->
  let out := remove_dup_from thr kept l in
  separated thr out /\ (forall p, In p kept -> In p out) /\ (forall p, In p l -> In p out \/ exists q, In q out /\ near thr p q = true) /\
  (forall p, In p out -> In p kept \/ In p l).
Proof.
  induction l as [|x r IH]; intros kept Hs; cbn [remove_dup_from].
  - repeat split; auto. intros p [].
  - destruct (existsb (near thr x) kept) eqn:E.
    + destruct (IH kept Hs) as (A & B & C & D). repeat split; auto.
      * intros p [->|Hp]; [| apply C; exact Hp]. apply existsb_exists in E. destruct E as (q & Hq & Hn). right. exists q. split; [apply B; exact Hq | exact Hn].
      * intros p Hp. destruct (D p Hp) as [H|H]; [left; exact H | right; right; exact H].
    + assert (Hs' : separated thr (kept ++ [x])).
      { intros i j p q Hij Hi Hj. destruct (Nat.lt_ge_cases j (length kept)) as [Hlt|Hge].
        - rewrite nth_error_app1 in Hi by lia. rewrite nth_error_app1 in Hj by lia. apply (Hs i j p q Hij Hi Hj).
        - assert (j = length kept). { assert (Hlt : (j < length (kept ++ [x]))%nat) by (apply nth_error_Some; congruence). rewrite app_length in Hlt. cbn in Hlt. lia. }
          subst j. rewrite nth_error_app2 in Hj by lia. rewrite Nat.sub_diag in Hj. cbn in Hj. inversion Hj; subst p.
          rewrite nth_error_app1 in Hi by lia. apply nth_error_In in Hi.
          destruct (near thr x q) eqn:Hn; [|reflexivity]. assert (existsb (near thr x) kept = true) by (apply existsb_exists; exists q; split; assumption). congruence. }
      destruct (IH (kept ++ [x]) Hs') as (A & B & C & D). repeat split; auto.
      * intros p Hp. apply B. apply in_or_app. left. exact Hp.
      * intros p [->|Hp]; [left; apply B; apply in_or_app; right; left; reflexivity | apply C; exact Hp].
      * intros p Hp. destruct (D p Hp) as [H|H]; [apply in_app_or in H; destruct H as [H|[->|[]]]; [left; exact H | right; left; reflexivity] | right; right; exact H].
Qed.

Lemma remove_dup_spec thr l :
  separated thr (remove_dup thr l) /\ (forall p, In p l -> In p (remove_dup thr l) \/ exists q, In q (remove_dup thr l) /\ near thr p q = true) /\
  (forall p, In p (remove_dup thr l) -> In p l).
Proof.
  unfold remove_dup. assert (H0 : separated thr []). { intros i j p q _ Hi. destruct i; discriminate. }
  destruct (remove_dup_from_spec thr l [] H0) as (A & _ & C & D). split; [exact A|]. split; [exact C|]. intros p Hp. destruct (D p Hp) as [[]|H]; exact H.
Qed.

(* sorting *)
Fixpoint sorted_by (key : pt -> Q) (l : list pt) : Prop :=
  match l with [] => True | x :: r => (match r with [] => True | y :: _ => key x <= key y end) /\ sorted_by key r end.

Lemma insert_perm key x l : Permutation (x :: l) (insert_by key x l).
Proof.
  induction l as [|y r IH]; cbn [insert_by]; [apply Permutation_refl|]. destruct (Qltb (key x) (key y)); [apply Permutation_refl|].
  apply perm_trans with (y :: x :: r); [apply perm_swap | apply perm_skip; exact IH].
Qed.

Lemma insert_sorted key x l : sorted_by key l -> sorted_by key (insert_by key x l).
Proof.
  induction l as [|y r IH]; intros Hs; cbn [insert_by]; [cbn; auto|]. destruct (Qltb (key x) (key y)) eqn:E.
  - cbn [sorted_by]. split; [apply Qlt_le_weak, Qltb_spec; exact E | exact Hs].
  - apply Qltb_false in E. cbn [sorted_by] in Hs. destruct Hs as [Hy Hr]. specialize (IH Hr). cbn [sorted_by]. split; [| exact IH].
    destruct r as [|z r']; cbn [insert_by]; [exact E|]. destruct (Qltb (key x) (key z)); [exact E | exact Hy].
Qed.

Lemma sort_by_spec key l : sorted_by key (sort_by key l) /\ Permutation l (sort_by key l).
Proof.
  unfold sort_by. assert (G : forall acc, sorted_by key acc -> sorted_by key (fold_left (fun a x => insert_by key x a) l acc) /\ Permutation (l ++ acc) (fold_left (fun a x => insert_by key x a) l acc)).
  { induction l as [|x r IH]; intros acc Ha; cbn [fold_left app]; [split; [exact Ha | apply Permutation_refl]|].
    destruct (IH (insert_by key x acc) (insert_sorted key x acc Ha)) as [S P]. split; [exact S|].
    apply perm_trans with (r ++ insert_by key x acc); [| exact P]. apply perm_trans with (r ++ x :: acc); [apply Permutation_middle | apply Permutation_app_head, insert_perm]. }
  destruct (G [] I) as [S P]. rewrite app_nil_r in P. split; assumption.
Qed.

Lemma sorted_head_min key x r : sorted_by key (x :: r) -> forall y, In y (x :: r) -> key x <= key y.
Proof.
  revert x. induction r as [|z r' IH]; intros x Hs y [->|Hy]; try apply Qle_refl; [destruct Hy|].
  cbn [sorted_by] in Hs. destruct Hs as [Hxz Hr]. apply Qle_trans with (key z); [exact Hxz | apply IH; assumption].
Qed.

(* the primary O-point is (one of) the nearest to the middle of the domain among the distinct O-points; the X-points come out in order of
   |psi - psi_axis| *)
Lemma primary_opoint_nearest thr rmid zmid os p r : order_opoints thr rmid zmid os = p :: r ->
  forall q, In q (remove_dup thr os) -> key_centre rmid zmid p <= key_centre rmid zmid q.
Proof.
  unfold order_opoints. intros E q Hq. destruct (sort_by_spec (key_centre rmid zmid) (remove_dup thr os)) as [S P]. rewrite E in S, P.
  apply (sorted_head_min _ p r S). apply (Permutation_in _ P). exact Hq.
Qed.

Lemma xpoints_ordered thr axis keep xs : let out := order_xpoints thr axis keep xs in
  sorted_by (key_psi axis) out /\ (forall p, In p out <-> In p (remove_dup thr xs) /\ keep p = true).
Proof.
  intros out. unfold out, order_xpoints. destruct (sort_by_spec (key_psi axis) (filter keep (remove_dup thr xs))) as [S P]. split; [exact S|].
  intros p. split; intros H.
  - apply (Permutation_in _ (Permutation_sym P)) in H. apply filter_In in H. exact H.
  - apply (Permutation_in _ P). apply filter_In. exact H.
Qed.

(* makeRegions keeps exactly the X-points below psinorm_sol and inside the wall, in the order find_critical gave them (so the primary one stays first) *)
Lemma select_spec axis sep0 psi_sol inside xs p :
  In p (select_xpoints axis sep0 psi_sol inside xs) <-> In p xs /\ psinorm axis sep0 (pPsi p) < psinorm axis sep0 psi_sol /\ inside p = true.
Proof.
  unfold select_xpoints. rewrite filter_In, andb_true_iff, Qltb_spec. tauto.
Qed.

Lemma select_keeps_order axis sep0 psi_sol inside xs : exists f, select_xpoints axis sep0 psi_sol inside xs = filter f xs.
Proof. eexists. reflexivity. Qed.

Lemma filter_head_first {A} (f : A -> bool) x r : f x = true -> filter f (x :: r) = x :: filter f r.
Proof. intros H. cbn. rewrite H. reflexivity. Qed.

Lemma classify_spec xs : (classify xs = SingleNull <-> length xs = 1%nat) /\ (classify xs = DoubleNull <-> length xs = 2%nat) /\
  (classify xs = Unsupported <-> (length xs = 0 \/ 3 <= length xs)%nat).
Proof.
  unfold classify. destruct (length xs) as [|[|[|n]]]; repeat split; intros H; try discriminate; try reflexivity; try lia; try (left; reflexivity); try (right; lia).
Qed.
