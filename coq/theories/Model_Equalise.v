(* C05 / C12 hand model of FineContour.equaliseSpacing: the iteration that gives the fine contour constant spacing.
     ds_error = max |ds - mean(ds)| of the distances between consecutive points (numpy.mean: for fewer than 8 elements the
                sum runs from the left -- larger sums are pairwise in numpy and are NOT modelled; numpy.max runs from the left);
     while ds_error > finecontour_atol: stop with a warning once count > finecontour_maxits; otherwise place the points at
     uniform distances totalDistance/(Nfine-1) * indices_fine on the present polygon (interpFunction), mix with the old
     positions (factor 1 before the 8th round, finecontour_overdamping_factor from then on), put the points at startInd and
     endInd back, refine, measure again.
   `refine` (FineContour.refine with skip_endpoints=True) is a parameter: a CONTRACT (it is the identity in the
   correspondence, where the real method is run with refine stubbed out).  Over the `ops` record.  Definitions only. *)
From Coq Require Import ZArith List Bool Arith.
From HT Require Import Field Model_Quadrature Model_Stencil.
Import ListNotations.

Section Equalise.
  Context {T : Type} (O : ops T).
  Variable refine : list (T * T) -> list (T * T).
  Variables (atol damping : T) (maxits nfine el : nat).   (* finecontour_atol, _overdamping_factor, _maxits, _Nfine, extend_lower_fine *)
  Variables (si ei : nat).

  Definition ezero : T := oconst O 0 1.
  Definition eone : T := oconst O 1 1.

  Definition sum_left (l : list T) : T := match l with [] => ezero | x :: t => fold_left (oadd O) t x end.
  Definition max_left (l : list T) : T := match l with [] => ezero | x :: t => fold_left (fun a b => if olt O a b then b else a) t x end.

  Definition ds_error (dist : list T) : T :=
    let ds := diffs O dist in
    let m := odiv O (sum_left ds) (oconst O (Z.of_nat (length ds)) 1) in
    max_left (map (fun d => osqrt O (omul O (osub O d m) (osub O d m))) ds).

  Fixpoint set_nth {A} (i : nat) (x : A) (l : list A) : list A :=
    match l, i with
    | [], _ => []
    | _ :: t, 0%nat => x :: t
    | h :: t, S j => h :: set_nth j x t
    end.

  Definition mix (r : T) (new old : T * T) : T * T :=
    (oadd O (omul O r (fst new)) (omul O (osub O eone r) (fst old)),
     oadd O (omul O r (snd new)) (omul O (osub O eone r) (snd old))).

  Fixpoint zip_mix (r : T) (new old : list (T * T)) : list (T * T) :=
    match new, old with
    | a :: n', b :: o' => mix r a b :: zip_mix r n' o'
    | _, _ => []
    end.

  (* one round of the loop body up to and including refine *)
  Definition round (count : nat) (pos : list (T * T)) : list (T * T) :=
    let dist := calc_distance O pos in
    let tot := osub O (nth ei dist ezero) (nth si dist ezero) in
    let h := odiv O tot (oconst O (Z.of_nat nfine - 1) 1) in
    let sfine := map (fun k => omul O h (oconst O (Z.of_nat k - Z.of_nat el) 1)) (seq 0 (length pos)) in
    let newp := map (interp_point O pos dist si) sfine in
    let r := if (count <? 8)%nat then eone else damping in
    let mixed := zip_mix r newp pos in
    refine (set_nth ei (nth ei pos (ezero, ezero)) (set_nth si (nth si pos (ezero, ezero)) mixed)).

  (* the while loop; `count` is the code's counter; returns the positions and whether the iteration limit stopped it *)
  Fixpoint eq_loop (fuel count : nat) (pos : list (T * T)) (err : T) : list (T * T) * bool :=
    match fuel with
    | 0%nat => (pos, true)
    | S k =>
        if olt O atol err then
          if (maxits <? count)%nat then (pos, true)
          else let pos' := round count pos in eq_loop k (S count) pos' (ds_error (calc_distance O pos'))
        else (pos, false)
    end.

  Definition equalise (pos : list (T * T)) : list (T * T) * bool :=
    let p0 := refine pos in
    eq_loop (S maxits) 1 p0 (ds_error (calc_distance O p0)).
End Equalise.
