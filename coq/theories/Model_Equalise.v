(* C05 / C12 hand model of FineContour.equaliseSpacing: the iteration that gives the fine contour constant spacing.
     ds_error = max |ds - mean(ds)| of the distances between consecutive points; numpy.mean = numpy's PAIRWISE summation
                (pairwise_sum below: fewer than 8 numbers from the left; up to 128 with eight interleaved accumulators combined
                as ((r0+r1)+(r2+r3))+((r4+r5)+(r6+r7)) and the remainder added from the left; above 128 split at half the
                length rounded down to a multiple of 8) divided by the count; numpy.max (exact in any order) from the left;
     while ds_error > finecontour_atol: stop with a warning once count > finecontour_maxits; otherwise place the points at
     uniform distances totalDistance/(Nfine-1) * indices_fine on the present polygon (interpFunction), mix with the old
     positions (factor 1 before the 8th round, finecontour_overdamping_factor from then on), put the points at startInd and
     endInd back, refine, measure again.
   `refine` (FineContour.refine with skip_endpoints=True) is a parameter: a CONTRACT (it is the identity in the
   correspondence, where the real method is run with refine stubbed out).  Over the `ops` record.  Definitions only. *)
From Coq Require Import ZArith List Bool Arith.
From HT Require Import Field Model_Quadrature Model_Stencil.
Import ListNotations.

Section Equalise.
  Context {T : Type} (O : ops T).
  Variable refine : list (T * T) -> list (T * T).
  Variables (atol damping : T) (maxits nfine el : nat).   (* finecontour_atol, _overdamping_factor, _maxits, _Nfine, extend_lower_fine *)
  Variables (si ei : nat).

  Definition ezero : T := oconst O 0 1.
  Definition eone : T := oconst O 1 1.

  (* numpy's pairwise summation (umath loops: @TYPE@_pairwise_sum, PW_BLOCKSIZE = 128) *)
  Fixpoint acc8 (r0 r1 r2 r3 r4 r5 r6 r7 : T) (l : list T) : T :=
    match l with
    | a0 :: a1 :: a2 :: a3 :: a4 :: a5 :: a6 :: a7 :: t =>
        acc8 (oadd O r0 a0) (oadd O r1 a1) (oadd O r2 a2) (oadd O r3 a3) (oadd O r4 a4) (oadd O r5 a5) (oadd O r6 a6) (oadd O r7 a7) t
    | rest =>
        fold_left (oadd O) rest
          (oadd O (oadd O (oadd O r0 r1) (oadd O r2 r3)) (oadd O (oadd O r4 r5) (oadd O r6 r7)))
    end.
  Definition pw_block (l : list T) : T :=
    match l with
    | a0 :: a1 :: a2 :: a3 :: a4 :: a5 :: a6 :: a7 :: t => acc8 a0 a1 a2 a3 a4 a5 a6 a7 t
    | _ => fold_left (oadd O) l ezero
    end.
  Fixpoint pairwise_sum (fuel : nat) (l : list T) : T :=
    let n := length l in
    if (n <=? 128)%nat then pw_block l
    else match fuel with
         | 0%nat => pw_block l
         | S k => let n2 := (n / 2 - (n / 2) mod 8)%nat in oadd O (pairwise_sum k (firstn n2 l)) (pairwise_sum k (skipn n2 l))
         end.
  Definition np_sum (l : list T) : T := pairwise_sum 40 l.
  Definition max_left (l : list T) : T := match l with [] => ezero | x :: t => fold_left (fun a b => if olt O a b then b else a) t x end.

  Definition ds_error (dist : list T) : T :=
    let ds := diffs O dist in
    let m := odiv O (np_sum ds) (oconst O (Z.of_nat (length ds)) 1) in
    max_left (map (fun d => osqrt O (omul O (osub O d m) (osub O d m))) ds).

  Fixpoint set_nth {A} (i : nat) (x : A) (l : list A) : list A :=
    match l, i with
    | [], _ => []
    | _ :: t, 0%nat => x :: t
    | h :: t, S j => h :: set_nth j x t
    end.

  Definition mix (r : T) (new old : T * T) : T * T :=
    (oadd O (omul O r (fst new)) (omul O (osub O eone r) (fst old)),
     oadd O (omul O r (snd new)) (omul O (osub O eone r) (snd old))).

  Fixpoint zip_mix (r : T) (new old : list (T * T)) : list (T * T) :=
    match new, old with
    | a :: n', b :: o' => mix r a b :: zip_mix r n' o'
    | _, _ => []
    end.

  (* one round of the loop body up to and including refine *)
  Definition round (count : nat) (pos : list (T * T)) : list (T * T) :=
    let dist := calc_distance O pos in
    let tot := osub O (nth ei dist ezero) (nth si dist ezero) in
    let h := odiv O tot (oconst O (Z.of_nat nfine - 1) 1) in
    let sfine := map (fun k => omul O h (oconst O (Z.of_nat k - Z.of_nat el) 1)) (seq 0 (length pos)) in
    let newp := map (interp_point O pos dist si) sfine in
    let r := if (count <? 8)%nat then eone else damping in
    let mixed := zip_mix r newp pos in
    refine (set_nth ei (nth ei pos (ezero, ezero)) (set_nth si (nth si pos (ezero, ezero)) mixed)).

  (* the while loop; `count` is the code's counter; returns the positions and whether the iteration limit stopped it *)
  Fixpoint eq_loop (fuel count : nat) (pos : list (T * T)) (err : T) : list (T * T) * bool :=
    match fuel with
    | 0%nat => (pos, true)
    | S k =>
        if olt O atol err then
          if (maxits <? count)%nat then (pos, true)
          else let pos' := round count pos in eq_loop k (S count) pos' (ds_error (calc_distance O pos'))
        else (pos, false)
    end.

  Definition equalise (pos : list (T * T)) : list (T * T) * bool :=
    let p0 := refine pos in
    eq_loop (S maxits) 1 p0 (ds_error (calc_distance O p0)).
End Equalise.
