(* Hand model of the interactive regridding path: Mesh.redistributePoints / calculateRZ / geometry as a state machine over
   the quantities that can carry history.  Every branch that the real code takes is selected by a boolean REGENERATED from the
   source (Gen_Regrid): whether a region re-creates its options from its own or from the Equilibrium's factory, whether
   redistributePoints regrids every region, whether it refreshes the R-Z arrays, ...  The numerical kernels are Section
   variables (contracts, monitored by the oracle):
     create f s  -- OptionsFactory.create of factory f on the given settings: defaults filled in, a function of (f, s) only
     place b o   -- regrid + refine every contour from the immutable base b (fine contours, sfunc_orthogonal_list, end points)
     derive      -- calcDistances .. calcMetric *)
From Coq Require Import List Bool.
From HG Require Import Gen_Regrid.
Import ListNotations.

Section Regrid.
  Variables settings opts factory base pos geom : Type.
  Variable create : factory -> settings -> opts.
  Variable dict : opts -> settings.
  Variable place : base -> opts -> pos.
  Variable stale : base -> opts -> pos.   (* whatever a region that is NOT regridded keeps (unconstrained) *)
  Variable derive : base -> pos -> pos -> geom.
  Variable f_eq f_class : factory.        (* the Equilibrium's factory (defaults updated from user_options) and the class-level one *)
  Variable b : base.                  (* the skeleton (separatrix contours, fine contours, orthogonal spacing functions, end points) as built from the ORTHOGONAL options *)
  Variable skeleton : opts -> base.   (* ... and what it would be if its construction read the region's non-orthogonal options of build time *)

  Definition f_region : factory := if region_factory_shared then f_eq else f_class.

  (* rz_reused: the R-Z array objects have already been collected by a geometry() call (BoutMesh.geometry then finds the attributes it
     wrote into the first region's arrays and, unless it copies them, raises) *)
  Record mesh := { bs : base; contour : pos; reg_opts : opts; rz : option pos; rz_reused : bool; geo : option geom }.

  (* Equilibrium.__init__ + EquilibriumRegion.__init__ + Mesh construction *)
  Definition build (s : settings) : mesh :=
    let o := create f_eq s in
    let ro := if region_options_from_equilibrium then create f_region (dict o) else create f_region s in
    let sk := if skeleton_ignores_nonorthogonal_settings then b else skeleton ro in
    {| bs := sk; contour := place sk ro; reg_opts := ro; rz := None; rz_reused := false; geo := None |}.

  Definition calculateRZ (m : mesh) : mesh :=
    {| bs := bs m; contour := contour m; reg_opts := reg_opts m; rz := (if calculateRZ_refills_all then Some (contour m) else rz m);
       rz_reused := (if calculateRZ_refills_all then false else rz_reused m); geo := geo m |}.

  (* Mesh.redistributePoints(s) *)
  Definition redistribute (s : settings) (m : mesh) : mesh :=
    let o := create f_eq s in
    let ro1 := if equilibrium_reset_fresh then create f_region (dict o) else reg_opts m in
    let ro := if distribute_resets_first && region_reset_fresh then create f_region s else ro1 in
    let c := if redistribute_all_regions && distribute_no_early_return && distribute_regrids_every_contour
                && distribute_keeps_sfunc_orthogonal && sfunc_orthogonal_written_at_build_only
             then place (bs m) ro else stale (bs m) ro in
    let m' := {| bs := bs m; contour := c; reg_opts := ro; rz := rz m; rz_reused := rz_reused m; geo := geo m |} in
    if redistribute_refreshes_RZ then calculateRZ m' else m'.

  (* Mesh.geometry() / BoutMesh.geometry(): calculates R-Z only when missing, then everything else from the contours and the R-Z arrays;
     None = raises *)
  Definition geometry (m : mesh) : option mesh :=
    let r := match rz m with Some r => r | None => contour m end in
    let reused := match rz m with Some _ => rz_reused m | None => false end in
    if reused && negb geometry_reentrant then None else
    Some {| bs := bs m; contour := contour m; reg_opts := reg_opts m; rz := Some r; rz_reused := true;
       geo := if geometry_recomputes_all then Some (derive (bs m) (contour m) r) else match geo m with Some g => Some g | None => Some (derive (bs m) (contour m) r) end |}.

  Inductive op := Redistribute (s : settings) | CalculateRZ | Geometry.
  Definition step (m : option mesh) (o : op) : option mesh :=
    match m with None => None | Some m =>
    match o with Redistribute s => Some (redistribute s m) | CalculateRZ => Some (calculateRZ m) | Geometry => geometry m end end.
  Definition run (ops : list op) (m : mesh) : option mesh := fold_left step ops (Some m).

  (* the settings in force after a history *)
  Fixpoint last_settings (s0 : settings) (ops : list op) : settings :=
    match ops with
    | [] => s0
    | Redistribute s :: r => last_settings s r
    | _ :: r => last_settings s0 r
    end.

  (* what a user sees: the R-Z arrays and the derived geometry after a final geometry(); None = an exception *)
  Definition observe (m : option mesh) : option (option pos * option geom) :=
    match m with None => None | Some m => match geometry m with None => None | Some g => Some (rz g, geo g) end end.
End Regrid.

(* ---- PsiContour caches: version-stamp model.  pv / kv count modifications of the point list / of the (start, end, extend) key;
   a cache remembers the versions it was computed from. *)
Record cstate := { pv : nat; kv : nat; fine : option nat; dist : option (nat * nat) }.

Definition apply (e : effect) (c : cstate) : cstate :=
  let pv' := if e_points e then S (pv c) else pv c in
  let kv' := if e_key e then S (kv c) else kv c in
  let fine' := if e_reset e then None else fine c in
  let dist' := if e_reset e || e_clear_dist e then None
               else if e_adopts e then Some (pv', kv')     (* points and distances copied together from a coherent contour *)
               else dist c in
  {| pv := pv'; kv := kv'; fine := fine'; dist := dist' |}.

(* get_fine_contour / get_distance fill the caches from the current state *)
Definition fill (c : cstate) : cstate :=
  let f := match fine c with Some k => Some k | None => Some (kv c) end in
  {| pv := pv c; kv := kv c; fine := f; dist := match dist c with Some d => Some d | None => Some (pv c, kv c) end |}.

Definition coherent (c : cstate) : Prop :=
  (forall k, fine c = Some k -> k = kv c) /\ (forall p k, dist c = Some (p, k) -> p = pv c /\ k = kv c).

(* a method keeps the caches honest if it drops the distances whenever it touches the points and drops both whenever it touches the key *)
Definition honest (e : effect) : bool :=
  (negb (e_points e) || e_reset e || e_clear_dist e || e_adopts e) && (negb (e_key e) || e_reset e).
