(* C20: completeness of find_intersections in all four slope-class branches, reversal invariance, shared vertices,
   tolerance monotonicity, and minimality of closest_approach -- exact rationals, about theories/Model_Geom2D.v. *)
From Coq Require Import QArith Qabs Qfield Lqa List Bool.
From HT Require Import Model_Geom2D Proof_Geom2D.
Import ListNotations.
Local Open Scope Q_scope.

Definition cross (a b c d : pt) : Q := (cR b - cR a) * (cZ d - cZ c) - (cZ b - cZ a) * (cR d - cR c).

Lemma unique_meet P F a b c d :
  collinear P a b -> collinear P c d -> collinear F a b -> collinear F c d -> ~ cross a b c d == 0 ->
  cR F == cR P /\ cZ F == cZ P.
Proof.
  unfold collinear, cross. intros P1 P2 F1 F2 Hx.
  assert (D1 : (cZ F - cZ P) * (cR b - cR a) == (cR F - cR P) * (cZ b - cZ a)) by lra.
  assert (D2 : (cZ F - cZ P) * (cR d - cR c) == (cR F - cR P) * (cZ d - cZ c)) by lra.
  assert (ER : (cR F - cR P) * ((cR b - cR a) * (cZ d - cZ c) - (cZ b - cZ a) * (cR d - cR c)) == 0).
  { transitivity (((cR F - cR P) * (cZ d - cZ c)) * (cR b - cR a) - ((cR F - cR P) * (cZ b - cZ a)) * (cR d - cR c)); [ring|].
    rewrite <- D2, <- D1. ring. }
  assert (EZ : (cZ F - cZ P) * ((cR b - cR a) * (cZ d - cZ c) - (cZ b - cZ a) * (cR d - cR c)) == 0).
  { transitivity (((cZ F - cZ P) * (cR b - cR a)) * (cZ d - cZ c) - ((cZ F - cZ P) * (cR d - cR c)) * (cZ b - cZ a)); [ring|].
    rewrite D1, D2. ring. }
  apply Qmult_integral in ER, EZ. destruct ER as [ER|ER]; [|contradiction]. destruct EZ as [EZ|EZ]; [|contradiction]. split; lra.
Qed.

Lemma in_range_0_intro lo hi x : lo <= x <= hi -> in_range 0 lo hi x = true.
Proof.
  intros [A B]. unfold in_range. apply andb_true_iff. split; apply Qle_bool_iff; lra.
Qed.

Lemma in_range_wd lo hi x y : x == y -> in_range 0 lo hi x = in_range 0 lo hi y.
Proof. intro E. unfold in_range. rewrite E. reflexivity. Qed.

Lemma Qeqb_false x : ~ x == 0 -> Qeqb x 0 = false.
Proof. intro H. unfold Qeqb. destruct (Qeq_bool x 0) eqn:E; [|reflexivity]. apply Qeq_bool_iff in E. contradiction. Qed.

Lemma hit_H_b_complete s e p q p1 q1 P :
  cR s < cR e -> Qabs (cZ e - cZ s) < Qabs (cR e - cR s) -> is_a p q = false -> sortZ p q = (p1, q1) ->
  ~ cZ q1 - cZ p1 == 0 ->
  collinear P p1 q1 -> collinear P s e -> cZ p1 <= cZ P <= cZ q1 -> cR s <= cR P <= cR e ->
  exists P', hit_H 0 s e p q = Some P' /\ cR P' == cR P /\ cZ P' == cZ P.
Proof.
  intros Hse HH Ha ES HdZ1 C1 C2 R1 R2. unfold hit_H. cbv zeta. rewrite Ha, ES. rewrite (Qeqb_false _ HdZ1).
  destruct (sortZ_spec _ _ _ _ ES) as [Hle Hpq].
  assert (HdR2 : ~ cR e - cR s == 0) by lra.
  assert (Hab : Qabs (cR q1 - cR p1) <= Qabs (cZ q1 - cZ p1)).
  { apply not_a_le in Ha. destruct Hpq as [[-> ->]|[-> ->]]; [rewrite (abs_swap (cR q)), (abs_swap (cZ q))|]; exact Ha. }
  pose proof (cross_nonzero _ _ _ _ Hab HH HdZ1) as Hx.
  match goal with |- exists P', (if in_range 0 _ _ ?zc && in_range 0 _ _ ?rc then _ else _) = _ /\ _ =>
    set (Zc := zc); set (Rc := rc) end.
  assert (F1 : collinear (mkpt Rc Zc) p1 q1).
  { unfold collinear, Rc, Zc; simpl. field; repeat split; auto; try (intro E; apply Hx; lra). }
  assert (F2 : collinear (mkpt Rc Zc) s e).
  { unfold collinear, Rc, Zc; simpl. field; repeat split; auto; try (intro E; apply Hx; lra). }
  assert (Hc : ~ cross p1 q1 s e == 0) by (unfold cross; intro E; apply Hx; lra).
  destruct (unique_meet P (mkpt Rc Zc) p1 q1 s e C1 C2 F1 F2 Hc) as [ER EZ]. simpl in ER, EZ.
  exists (mkpt Rc Zc). split; [|split; assumption].
  rewrite (in_range_wd _ _ _ _ EZ), (in_range_wd _ _ _ _ ER).
  rewrite !in_range_0_intro by assumption. reflexivity.
Qed.

Lemma hit_V_a_complete s e p q p1 q1 P :
  cZ s < cZ e -> Qabs (cR e - cR s) <= Qabs (cZ e - cZ s) -> is_a p q = true -> sortR p q = (p1, q1) ->
  collinear P p1 q1 -> collinear P s e -> cR p1 <= cR P <= cR q1 -> cZ s <= cZ P <= cZ e ->
  exists P', hit_V 0 s e p q = Some P' /\ cR P' == cR P /\ cZ P' == cZ P.
Proof.
  intros Hse HV Ha ES C1 C2 R1 R2. unfold hit_V. cbv zeta.
  assert (HdZ2 : ~ cZ e - cZ s == 0) by lra.
  rewrite (Qeqb_false _ HdZ2), Ha, ES.
  destruct (sortR_spec _ _ _ _ ES) as [Hle Hpq]. pose proof (is_a_nonzero _ _ _ _ Ha Hpq) as HdR1.
  pose proof (cross_nonzero _ _ _ _ HV (is_a_lt _ _ _ _ Ha Hpq) HdZ2) as Hx.
  match goal with |- exists P', (if in_range 0 _ _ ?rc && in_range 0 _ _ ?zc then _ else _) = _ /\ _ =>
    set (Zc := zc); set (Rc := rc) end.
  assert (F1 : collinear (mkpt Rc Zc) p1 q1).
  { unfold collinear, Rc, Zc; simpl. field; repeat split; auto; try (intro E; apply Hx; lra). }
  assert (F2 : collinear (mkpt Rc Zc) s e).
  { unfold collinear, Rc, Zc; simpl. field; repeat split; auto; try (intro E; apply Hx; lra). }
  assert (Hc : ~ cross p1 q1 s e == 0) by (unfold cross; intro E; apply Hx; lra).
  destruct (unique_meet P (mkpt Rc Zc) p1 q1 s e C1 C2 F1 F2 Hc) as [ER EZ]. simpl in ER, EZ.
  exists (mkpt Rc Zc). split; [|split; assumption].
  rewrite (in_range_wd _ _ _ _ EZ), (in_range_wd _ _ _ _ ER).
  rewrite !in_range_0_intro by assumption. reflexivity.
Qed.

Lemma hit_V_b_complete s e p q p1 q1 P :
  cZ s < cZ e -> is_a p q = false -> sortZ p q = (p1, q1) -> ~ cZ q1 - cZ p1 == 0 ->
  par_eps <= Qabs ((cR e - cR s) / (cZ e - cZ s) - (cR q1 - cR p1) / (cZ q1 - cZ p1)) ->
  collinear P p1 q1 -> collinear P s e -> cZ p1 <= cZ P <= cZ q1 -> cZ s <= cZ P <= cZ e ->
  exists P', hit_V 0 s e p q = Some P' /\ cR P' == cR P /\ cZ P' == cZ P.
Proof.
  intros Hse Ha ES HdZ1 Ep C1 C2 R1 R2. unfold hit_V. cbv zeta.
  assert (HdZ2 : ~ cZ e - cZ s == 0) by lra.
  rewrite (Qeqb_false _ HdZ2), Ha, ES, (Qeqb_false _ HdZ1).
  pose proof (slope_diff _ _ _ _ HdZ2 HdZ1 (eps_nonzero _ Ep)) as Hx.
  apply Qle_bool_iff in Ep. rewrite Ep.
  match goal with |- exists P', (if in_range 0 _ _ ?zc && _ then _ else None) = _ /\ _ => set (Zc := zc) end.
  match goal with |- exists P', (if _ then Some (mkpt ?rc _) else None) = _ /\ _ => set (Rc := rc) end.
  assert (F1 : collinear (mkpt Rc Zc) p1 q1).
  { unfold collinear, Rc, Zc; simpl. field; repeat split; auto; try (intro E; apply Hx; lra). }
  assert (F2 : collinear (mkpt Rc Zc) s e).
  { unfold collinear, Rc, Zc; simpl. field; repeat split; auto; try (intro E; apply Hx; lra). }
  assert (Hc : ~ cross p1 q1 s e == 0) by (unfold cross; intro E; apply Hx; lra).
  destruct (unique_meet P (mkpt Rc Zc) p1 q1 s e C1 C2 F1 F2 Hc) as [ER EZ]. simpl in ER, EZ.
  exists (mkpt Rc Zc). split; [|split; assumption].
  rewrite !(in_range_wd _ _ _ _ EZ).
  rewrite !in_range_0_intro by assumption. reflexivity.
Qed.

(* ---------- assembling completeness over the four branches ---------- *)
Definition pt_eq (a b : pt) : Prop := cR a == cR b /\ cZ a == cZ b.
Definition slopeR (a b : pt) : Q := (cZ b - cZ a) / (cR b - cR a).
Definition slopeZ (a b : pt) : Q := (cR b - cR a) / (cZ b - cZ a).

(* what the code needs to report a crossing: both segments have non-zero length and, when they are in the same
   slope class, their slopes differ by at least the code's own parallel filter (1e-15); segments of different
   classes are never parallel *)
Definition separated (s e p q : pt) : Prop :=
  ~ pt_eq s e /\ ~ pt_eq p q /\
  (seg_is_H s e = true -> is_a p q = true -> par_eps <= Qabs (slopeR p q - slopeR s e)) /\
  (seg_is_H s e = false -> is_a p q = false -> par_eps <= Qabs (slopeZ s e - slopeZ p q)).

Lemma on_seg_collinear P a b : on_seg P a b -> collinear P a b.
Proof. intros (t & _ & ER & EZ). unfold collinear. rewrite ER, EZ. ring. Qed.

Lemma on_seg_rangeR P a b : on_seg P a b -> cR a <= cR b -> cR a <= cR P <= cR b.
Proof.
  intros (t & [T0 T1] & ER & _) Hab. rewrite ER.
  assert (A : 0 <= t * (cR b - cR a)) by (apply Qmult_le_0_compat; lra).
  assert (B : 0 <= (1 - t) * (cR b - cR a)) by (apply Qmult_le_0_compat; lra).
  split; lra.
Qed.
Lemma on_seg_rangeZ P a b : on_seg P a b -> cZ a <= cZ b -> cZ a <= cZ P <= cZ b.
Proof.
  intros (t & [T0 T1] & _ & EZ) Hab. rewrite EZ.
  assert (A : 0 <= t * (cZ b - cZ a)) by (apply Qmult_le_0_compat; lra).
  assert (B : 0 <= (1 - t) * (cZ b - cZ a)) by (apply Qmult_le_0_compat; lra).
  split; lra.
Qed.

Lemma slopeR_sym a b : ~ cR b - cR a == 0 -> slopeR a b == slopeR b a.
Proof. intro H. unfold slopeR. field. split; lra. Qed.
Lemma slopeZ_sym a b : ~ cZ b - cZ a == 0 -> slopeZ a b == slopeZ b a.
Proof. intro H. unfold slopeZ. field. split; lra. Qed.

Lemma sorted_on_seg P p q p1 q1 : ((p1 = p /\ q1 = q) \/ (p1 = q /\ q1 = p)) -> on_seg P p q -> on_seg P p1 q1.
Proof. intros [[-> ->]|[-> ->]] H; [exact H | apply on_seg_sym; exact H]. Qed.

Lemma Qabs_zero_iff x : Qabs x <= 0 -> x == 0.
Proof.
  intro H. destruct (Qlt_le_dec x 0) as [N|N]; [rewrite Qabs_neg in H by lra | rewrite Qabs_pos in H by lra]; lra.
Qed.

Lemma class_b_dZ_nonzero p q p1 q1 : is_a p q = false -> ~ pt_eq p q -> ((p1 = p /\ q1 = q) \/ (p1 = q /\ q1 = p)) ->
  ~ cZ q1 - cZ p1 == 0.
Proof.
  intros Ha Hne Hpq E. apply not_a_le in Ha. apply Hne.
  assert (EZ : cZ p - cZ q == 0) by (destruct Hpq as [[-> ->]|[-> ->]]; lra).
  assert (A : Qabs (cZ p - cZ q) == 0) by (rewrite EZ; reflexivity).
  assert (B : cR p - cR q == 0) by (apply Qabs_zero_iff; lra).
  split; lra.
Qed.

Lemma hit_H_sorted_complete s e p q P :
  cR s < cR e -> Qabs (cZ e - cZ s) < Qabs (cR e - cR s) -> ~ pt_eq p q ->
  (is_a p q = true -> par_eps <= Qabs (slopeR p q - slopeR s e)) ->
  on_seg P p q -> on_seg P s e ->
  exists P', hit_H 0 s e p q = Some P' /\ pt_eq P' P.
Proof.
  intros Hse HH Hne Hpar O1 O2. destruct (is_a p q) eqn:Ha.
  - destruct (sortR p q) as [p1 q1] eqn:ES. destruct (sortR_spec _ _ _ _ ES) as [Hle Hpq].
    pose proof (is_a_nonzero _ _ _ _ Ha Hpq) as HdR1.
    pose proof (sorted_on_seg _ _ _ _ _ Hpq O1) as O1'.
    apply (hit_H_a_complete s e p q p1 q1 P); auto.
    + specialize (Hpar eq_refl). unfold slopeR in Hpar.
      destruct Hpq as [[-> ->]|[-> ->]]; [exact Hpar|].
      assert (X : (cZ p - cZ q) / (cR p - cR q) - (cZ e - cZ s) / (cR e - cR s) ==
                  (cZ q - cZ p) / (cR q - cR p) - (cZ e - cZ s) / (cR e - cR s)) by (field; split; lra).
      rewrite X. exact Hpar.
    + apply on_seg_collinear; exact O1'.
    + apply on_seg_collinear; exact O2.
    + apply on_seg_rangeR; assumption.
    + apply on_seg_rangeR; [exact O2 | lra].
  - destruct (sortZ p q) as [p1 q1] eqn:ES. destruct (sortZ_spec _ _ _ _ ES) as [Hle Hpq].
    pose proof (sorted_on_seg _ _ _ _ _ Hpq O1) as O1'.
    apply (hit_H_b_complete s e p q p1 q1 P); auto.
    + apply (class_b_dZ_nonzero p q); assumption.
    + apply on_seg_collinear; exact O1'.
    + apply on_seg_collinear; exact O2.
    + apply on_seg_rangeZ; assumption.
    + apply on_seg_rangeR; [exact O2 | lra].
Qed.

Lemma hit_V_sorted_complete s e p q P :
  cZ s < cZ e -> Qabs (cR e - cR s) <= Qabs (cZ e - cZ s) -> ~ pt_eq p q ->
  (is_a p q = false -> par_eps <= Qabs (slopeZ s e - slopeZ p q)) ->
  on_seg P p q -> on_seg P s e ->
  exists P', hit_V 0 s e p q = Some P' /\ pt_eq P' P.
Proof.
  intros Hse HV Hne Hpar O1 O2. destruct (is_a p q) eqn:Ha.
  - destruct (sortR p q) as [p1 q1] eqn:ES. destruct (sortR_spec _ _ _ _ ES) as [Hle Hpq].
    pose proof (sorted_on_seg _ _ _ _ _ Hpq O1) as O1'.
    apply (hit_V_a_complete s e p q p1 q1 P); auto.
    + apply on_seg_collinear; exact O1'.
    + apply on_seg_collinear; exact O2.
    + apply on_seg_rangeR; assumption.
    + apply on_seg_rangeZ; [exact O2 | lra].
  - destruct (sortZ p q) as [p1 q1] eqn:ES. destruct (sortZ_spec _ _ _ _ ES) as [Hle Hpq].
    pose proof (sorted_on_seg _ _ _ _ _ Hpq O1) as O1'.
    pose proof (class_b_dZ_nonzero p q p1 q1 Ha Hne Hpq) as HdZ1.
    apply (hit_V_b_complete s e p q p1 q1 P); auto.
    + specialize (Hpar eq_refl). unfold slopeZ in Hpar.
      destruct Hpq as [[-> ->]|[-> ->]]; [exact Hpar|].
      assert (X : (cR e - cR s) / (cZ e - cZ s) - (cR p - cR q) / (cZ p - cZ q) ==
                  (cR e - cR s) / (cZ e - cZ s) - (cR q - cR p) / (cZ q - cZ p)) by (field; split; lra).
      rewrite X. exact Hpar.
    + apply on_seg_collinear; exact O1'.
    + apply on_seg_collinear; exact O2.
    + apply on_seg_rangeZ; assumption.
    + apply on_seg_rangeZ; [exact O2 | lra].
Qed.

Theorem hit_complete s e p q P :
  separated s e p q -> on_seg P p q -> on_seg P s e -> exists P', hit 0 s e p q = Some P' /\ pt_eq P' P.
Proof.
  intros (Hse & Hpq & ParH & ParV) O1 O2. unfold hit. destruct (seg_is_H s e) eqn:EH.
  - clear ParV. specialize (ParH eq_refl). unfold seg_is_H in EH. apply Qltb_true in EH.
    assert (Hnz : ~ cR e - cR s == 0) by (apply (abs_lt_nonzero _ _ EH)).
    destruct (Qltb (cR e) (cR s)) eqn:Esw.
    + apply Qltb_true in Esw. apply hit_H_sorted_complete; auto.
      * rewrite (abs_swap (cZ s)), (abs_swap (cR s)); exact EH.
      * intro Ha. rewrite <- (slopeR_sym s e) by exact Hnz. auto.
      * apply on_seg_sym; exact O2.
    + apply Qltb_false in Esw. apply hit_H_sorted_complete; auto. lra.
  - clear ParH. specialize (ParV eq_refl). unfold seg_is_H in EH. apply Qltb_false in EH.
    assert (Hnz : ~ cZ e - cZ s == 0).
    { intro E. apply Hse. assert (A : Qabs (cZ e - cZ s) == 0) by (rewrite E; reflexivity).
      assert (B : cR e - cR s == 0) by (apply Qabs_zero_iff; lra). split; lra. }
    destruct (Qltb (cZ e) (cZ s)) eqn:Esw.
    + apply Qltb_true in Esw. apply hit_V_sorted_complete; auto.
      * rewrite (abs_swap (cR s)), (abs_swap (cZ s)); exact EH.
      * intro Ha. rewrite <- (slopeZ_sym s e) by exact Hnz. auto.
      * apply on_seg_sym; exact O2.
    + apply Qltb_false in Esw. apply hit_V_sorted_complete; auto. lra.
Qed.

(* lifted to the whole polyline: a point where the segment meets a wall edge it is separated from is reported *)
Theorem find_intersections_complete wall s e p q P :
  In (p, q) (edges wall) -> separated s e p q -> on_seg P p q -> on_seg P s e ->
  exists P', In P' (find_intersections 0 wall s e) /\ pt_eq P' P.
Proof.
  intros Hin Hsep O1 O2. destruct (hit_complete s e p q P Hsep O1 O2) as (P' & Hhit & Heq).
  exists P'. split; [|exact Heq]. unfold find_intersections. rewrite in_app_iff, !in_flat_map.
  destruct (is_a p q) eqn:Ha; [left | right]; exists (p, q); (split; [exact Hin|]); simpl; rewrite Ha, Hhit; simpl; auto.
Qed.

(* the reported set is exactly the set of meeting points: together with find_intersections_sound *)
Corollary find_intersections_exact wall s e :
  (forall p q, In (p, q) (edges wall) -> separated s e p q) ->
  forall P, (exists P', In P' (find_intersections 0 wall s e) /\ pt_eq P' P) <->
            (exists p q, In (p, q) (edges wall) /\ on_seg P p q /\ on_seg P s e).
Proof.
  intros Hsep P. split.
  - intros (P' & Hin & ER & EZ). destruct (find_intersections_sound _ _ _ _ Hin) as (p & q & He & (t1 & T1 & A1 & B1) & (t2 & T2 & A2 & B2)).
    exists p, q. split; [exact He|]. split; [exists t1 | exists t2]; (split; [assumption|]); split; lra.
  - intros (p & q & He & O1 & O2). apply (find_intersections_complete wall s e p q P); auto.
Qed.

(* ---------- reversed segments / reversed edges behave identically ---------- *)
Lemma seg_is_H_sym s e : seg_is_H e s = seg_is_H s e.
Proof.
  unfold seg_is_H, Qltb. f_equal. rewrite (abs_swap (cR s)), (abs_swap (cZ s)). reflexivity.
Qed.
Lemma is_a_sym p q : is_a q p = is_a p q.
Proof. unfold is_a, Qltb. f_equal. rewrite (abs_swap (cR q)), (abs_swap (cZ q)). reflexivity. Qed.

Lemma pt_eq_sym a b : pt_eq a b -> pt_eq b a.
Proof. intros [A B]. split; lra. Qed.

Lemma seg_H_dR_nonzero s e : seg_is_H s e = true -> ~ cR e - cR s == 0.
Proof. unfold seg_is_H. rewrite Qltb_true. intro H. apply (abs_lt_nonzero _ _ H). Qed.
Lemma seg_V_dZ_nonzero s e : seg_is_H s e = false -> ~ pt_eq s e -> ~ cZ e - cZ s == 0.
Proof.
  unfold seg_is_H. rewrite Qltb_false. intros EH Hse E. apply Hse.
  assert (A : Qabs (cZ e - cZ s) == 0) by (rewrite E; reflexivity).
  assert (B : cR e - cR s == 0) by (apply Qabs_zero_iff; lra). split; lra.
Qed.
Lemma edge_a_dR_nonzero p q : is_a p q = true -> ~ cR q - cR p == 0.
Proof. intro H. apply (is_a_nonzero p q p q H). auto. Qed.
Lemma edge_b_dZ_nonzero p q : is_a p q = false -> ~ pt_eq p q -> ~ cZ q - cZ p == 0.
Proof. intros H N. apply (class_b_dZ_nonzero p q p q H N). auto. Qed.

Lemma separated_rev_seg s e p q : separated s e p q -> separated e s p q.
Proof.
  intros (Hse & Hpq & ParH & ParV). split; [intro E; apply Hse, pt_eq_sym, E|]. split; [exact Hpq|]. split.
  - rewrite seg_is_H_sym. intros EH Ha. rewrite <- (slopeR_sym s e) by (apply seg_H_dR_nonzero; exact EH). auto.
  - rewrite seg_is_H_sym. intros EH Ha. rewrite <- (slopeZ_sym s e) by (apply seg_V_dZ_nonzero; assumption). auto.
Qed.
Lemma separated_rev_edge s e p q : separated s e p q -> separated s e q p.
Proof.
  intros (Hse & Hpq & ParH & ParV). split; [exact Hse|]. split; [intro E; apply Hpq, pt_eq_sym, E|]. split.
  - rewrite is_a_sym. intros EH Ha. rewrite <- (slopeR_sym p q) by (apply edge_a_dR_nonzero; exact Ha). auto.
  - rewrite is_a_sym. intros EH Ha. rewrite <- (slopeZ_sym p q) by (apply edge_b_dZ_nonzero; assumption). auto.
Qed.

Theorem hit_reversed_segment s e p q P :
  separated s e p q -> hit 0 s e p q = Some P -> exists P', hit 0 e s p q = Some P' /\ pt_eq P' P.
Proof.
  intros Hsep Hhit. destruct (hit_sound _ _ _ _ _ Hhit) as [O1 O2].
  apply hit_complete; [apply separated_rev_seg; exact Hsep | exact O1 | apply on_seg_sym; exact O2].
Qed.
Theorem hit_reversed_edge s e p q P :
  separated s e p q -> hit 0 s e p q = Some P -> exists P', hit 0 s e q p = Some P' /\ pt_eq P' P.
Proof.
  intros Hsep Hhit. destruct (hit_sound _ _ _ _ _ Hhit) as [O1 O2].
  apply hit_complete; [apply separated_rev_edge; exact Hsep | apply on_seg_sym; exact O1 | exact O2].
Qed.
Theorem miss_reversed_segment s e p q :
  separated s e p q -> hit 0 s e p q = None -> hit 0 e s p q = None.
Proof.
  intros Hsep Hmiss. destruct (hit 0 e s p q) as [P|] eqn:E; [|reflexivity].
  destruct (hit_reversed_segment e s p q P (separated_rev_seg _ _ _ _ Hsep) E) as (P' & H & _). congruence.
Qed.

(* ---------- a crossing through a shared vertex is reported as ONE point by wallIntersection ---------- *)
Lemma close_pts_eq tol a b : 0 < tol -> pt_eq a b -> close_pts tol a b = true.
Proof.
  intros Ht [ER EZ]. unfold close_pts. apply andb_true_iff. split; apply Qltb_true.
  - assert (X : cR a - cR b == 0) by lra. rewrite X. exact Ht.
  - assert (X : cZ a - cZ b == 0) by lra. rewrite X. exact Ht.
Qed.
Theorem shared_vertex_one_point tol wall s e a b V :
  0 < tol -> find_intersections tol wall s e = [a; b] -> pt_eq a V -> pt_eq b V ->
  wallIntersection tol wall s e = WPoint a.
Proof.
  intros Ht Hfi [A1 A2] [B1 B2]. unfold wallIntersection. rewrite Hfi.
  rewrite close_pts_eq; [reflexivity | exact Ht | split; lra].
Qed.

Lemma on_seg_end P a b : pt_eq P b -> on_seg P a b.
Proof. intros [A B]. exists 1. split; [lra|]. split; lra. Qed.
Lemma on_seg_start P a b : pt_eq P a -> on_seg P a b.
Proof. intros [A B]. exists 0. split; [lra|]. split; lra. Qed.

Theorem shared_vertex_both_reported wall s e p V q :
  In (p, V) (edges wall) -> In (V, q) (edges wall) -> separated s e p V -> separated s e V q -> on_seg V s e ->
  exists a b, In a (find_intersections 0 wall s e) /\ In b (find_intersections 0 wall s e) /\ pt_eq a V /\ pt_eq b V.
Proof.
  intros I1 I2 S1 S2 O.
  destruct (find_intersections_complete wall s e p V V I1 S1 (on_seg_end V p V (conj (Qeq_refl _) (Qeq_refl _))) O) as (a & Ia & Ea).
  destruct (find_intersections_complete wall s e V q V I2 S2 (on_seg_start V V q (conj (Qeq_refl _) (Qeq_refl _))) O) as (b & Ib & Eb).
  exists a, b. auto.
Qed.

(* the tolerance only widens the acceptance windows: every exact hit is also a hit at tolerance tol >= 0 *)
Lemma in_range_mono tol lo hi x : 0 <= tol -> in_range 0 lo hi x = true -> in_range tol lo hi x = true.
Proof.
  intros Ht H. apply in_range_0 in H. unfold in_range. apply andb_true_iff. split; apply Qle_bool_iff; lra.
Qed.
Lemma and_range_mono tol l1 h1 x1 l2 h2 x2 : 0 <= tol ->
  in_range 0 l1 h1 x1 && in_range 0 l2 h2 x2 = true -> in_range tol l1 h1 x1 && in_range tol l2 h2 x2 = true.
Proof.
  intros Ht H. apply andb_true_iff in H as [A B]. rewrite !in_range_mono by assumption. reflexivity.
Qed.
Ltac mono_branch Ht :=
  match goal with
  | |- (if ?c then _ else _) = Some _ -> _ =>
      lazymatch c with
      | (in_range 0 _ _ _ && in_range 0 _ _ _) =>
          let E := fresh "E" in destruct c eqn:E; [|discriminate]; rewrite (and_range_mono _ _ _ _ _ _ _ Ht E); auto
      | _ => destruct c; [try discriminate | try discriminate]; mono_branch Ht
      end
  | |- (let '(a, b) := ?x in _) = Some _ -> _ => destruct x; mono_branch Ht
  | _ => idtac
  end.
Lemma hit_H_mono tol s e p q P : 0 <= tol -> hit_H 0 s e p q = Some P -> hit_H tol s e p q = Some P.
Proof. intro Ht. unfold hit_H. cbv zeta. mono_branch Ht. Qed.
Lemma hit_V_mono tol s e p q P : 0 <= tol -> hit_V 0 s e p q = Some P -> hit_V tol s e p q = Some P.
Proof. intro Ht. unfold hit_V. cbv zeta. mono_branch Ht. Qed.
Theorem hit_mono tol s e p q P : 0 <= tol -> hit 0 s e p q = Some P -> hit tol s e p q = Some P.
Proof.
  intro Ht. unfold hit. destruct (seg_is_H s e).
  - destruct (Qltb (cR e) (cR s)); apply hit_H_mono; exact Ht.
  - destruct (Qltb (cZ e) (cZ s)); apply hit_V_mono; exact Ht.
Qed.

(* ---------- closest_approach returns the minimum of the squared distance over the whole segment ---------- *)
Definition along (a b : pt) (t : Q) : pt := mkpt (cR a + t * (cR b - cR a)) (cZ a + t * (cZ b - cZ a)).
Definition dist2 (u v : pt) : Q := dot (sub u v) (sub u v).

Lemma dist2_expand p a b t :
  dist2 p (along a b t) == dist2 p a - 2 * t * dot (sub b a) (sub p a) + t * t * dot (sub b a) (sub b a).
Proof. unfold dist2, along, dot, sub; simpl. ring. Qed.

Lemma sq_nonneg (x : Q) : 0 <= x * x.
Proof. destruct (Qlt_le_dec x 0) as [N|N]; [|apply Qmult_le_0_compat; lra]. setoid_replace (x * x) with ((-x) * (-x)) by ring. apply Qmult_le_0_compat; lra. Qed.
Lemma dot_self_nonneg m : 0 <= dot m m.
Proof. unfold dot. pose proof (sq_nonneg (cR m)). pose proof (sq_nonneg (cZ m)). lra. Qed.

Theorem closest2_minimal p a b t :
  ~ dot (sub b a) (sub b a) == 0 -> 0 <= t <= 1 -> closest2 p a b <= dist2 p (along a b t).
Proof.
  intros Hm [T0 T1]. unfold closest2. cbv zeta.
  set (mm := dot (sub b a) (sub b a)) in *. set (mp := dot (sub b a) (sub p a)).
  assert (Pm : 0 < mm) by (pose proof (dot_self_nonneg (sub b a)); fold mm in H; lra).
  rewrite dist2_expand. fold mm mp. fold (dist2 p a).
  destruct (Qltb (mp / mm) 0) eqn:E0.
  - apply Qltb_true in E0. assert (N : mp < 0).
    { destruct (Qlt_le_dec mp 0) as [L|L]; [exact L|]. exfalso. assert (0 <= mp / mm) by (apply Qle_shift_div_l; lra). lra. }
    assert (A : 0 <= t * (- mp)) by (apply Qmult_le_0_compat; lra).
    assert (B : 0 <= (t * t) * mm) by (apply Qmult_le_0_compat; [apply sq_nonneg | lra]).
    lra.
  - apply Qltb_false in E0. destruct (Qltb 1 (mp / mm)) eqn:E1.
    + apply Qltb_true in E1. assert (N : mm < mp).
      { destruct (Qlt_le_dec mm mp) as [L|L]; [exact L|]. exfalso. assert (mp / mm <= 1) by (apply Qle_shift_div_r; lra). lra. }
      fold (dist2 p b).
      assert (X : dist2 p b == dist2 p a - 2 * mp + mm) by (unfold dist2, mp, mm, dot, sub; simpl; ring).
      rewrite X.
      assert (A : 0 <= (1 - t) * (mp - mm)) by (apply Qmult_le_0_compat; lra).
      assert (B : 0 <= (1 - t) * mp) by (apply Qmult_le_0_compat; lra).
      assert (C : 0 <= ((1 - t) * (1 - t)) * mm) by (apply Qmult_le_0_compat; [apply sq_nonneg | lra]).
      lra.
    + apply Qltb_false in E1.
      set (t0 := mp / mm) in *.
      assert (Emp : mp == t0 * mm) by (unfold t0; field; lra).
      match goal with |- dot (sub p ?i) (sub p ?i) <= _ => assert (X : dot (sub p i) (sub p i) == dist2 p a - 2 * t0 * mp + t0 * t0 * mm) end.
      { unfold dist2, mp, mm, dot, sub; simpl. ring. }
      rewrite X. rewrite Emp.
      assert (S : 0 <= ((t - t0) * (t - t0)) * mm) by (apply Qmult_le_0_compat; [apply sq_nonneg | lra]).
      lra.
Qed.

Theorem closest2_attained p a b :
  ~ dot (sub b a) (sub b a) == 0 -> exists t, 0 <= t <= 1 /\ closest2 p a b == dist2 p (along a b t).
Proof.
  intro Hm. unfold closest2. cbv zeta.
  destruct (Qltb _ 0) eqn:E0.
  - exists 0. split; [lra|]. unfold dist2, along, dot, sub; simpl. ring.
  - apply Qltb_false in E0. destruct (Qltb 1 _) eqn:E1.
    + exists 1. split; [lra|]. unfold dist2, along, dot, sub; simpl. ring.
    + apply Qltb_false in E1. eexists. split; [split; [exact E0 | exact E1]|].
      unfold dist2, along, dot, sub; simpl. ring.
Qed.
