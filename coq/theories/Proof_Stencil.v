(* C06 / C07: theorems about the finite-difference stencils of MeshRegion.DDX / DDY (theories/Model_Stencil.v), real instance. *)
From Coq Require Import ZArith List Bool Arith Lia Reals Lra.
From HT Require Import Field Model_Stencil.
Import ListNotations.
Local Open Scope R_scope.

Definition rdiffs := diffs Rops.
Definition rdivl := divl Rops.

Lemma diffs_cons a b t : rdiffs (a :: b :: t) = (b - a) :: rdiffs (b :: t).
Proof. reflexivity. Qed.

Lemma diffs_length (l : list R) : length (rdiffs l) = (length l - 1)%nat.
Proof.
  induction l as [|a t IH]; [reflexivity|]. destruct t as [|b u]; [reflexivity|].
  rewrite diffs_cons. cbn [length] in *. rewrite IH. lia.
Qed.

Definition increasing (X : list R) : Prop := forall k, (S k < length X)%nat -> nth k X 0 < nth (S k) X 0.

Lemma increasing_tail a t : increasing (a :: t) -> increasing t.
Proof. intros H k Hk. apply (H (S k)). cbn [length]. lia. Qed.

(* result.centre / result.ylow (and their DDY counterparts): the centred difference over one cell is exact on data that is
   affine in the coordinate whose differences are the spacings -- any number of cells *)
Theorem d_centre_affine a b (X : list R) : increasing X ->
  d_centre Rops (map (fun x => a + b * x) X) (rdiffs X) = map (fun _ => b) (rdiffs X).
Proof.
  unfold d_centre. fold rdiffs. fold rdivl.
  induction X as [|x0 t IH]; intros Hinc; [reflexivity|].
  destruct t as [|x1 u]; [reflexivity|].
  cbn [map]. rewrite !diffs_cons. cbn [map]. unfold rdivl. cbn [divl]. fold rdivl. f_equal.
  - cbn [odiv Rops]. pose proof (Hinc 0%nat ltac:(cbn; lia)) as H. cbn [nth] in H. field. lra.
  - apply IH. eapply increasing_tail. exact Hinc.
Qed.

Lemma last_map_R (f : R -> R) (l : list R) d : l <> [] -> last (map f l) d = f (last l 0).
Proof.
  induction l as [|a t IH]; [congruence|]. intros _. destruct t as [|b u]; [reflexivity|].
  change (last (map f (a :: b :: u)) d) with (last (map f (b :: u)) d). change (last (a :: b :: u) 0) with (last (b :: u) 0).
  apply IH. discriminate.
Qed.

Lemma divl_diffs_affine a b (Xc : list R) : increasing Xc ->
  rdivl (rdiffs (map (fun x => a + b * x) Xc)) (rdiffs Xc) = map (fun _ => b) (rdiffs Xc).
Proof. intros H. exact (d_centre_affine a b Xc H). Qed.

(* result.xlow / result.corners (DDY: result.ylow / result.corners): interior faces use the two adjacent cell values, a face on
   a boundary of the mesh the one-sided half-cell difference, a face shared with a neighbouring region that region's adjacent
   value: all exact on affine data when the spacings are the coordinate differences *)
Theorem d_face_affine a b (Xc X : list R) (x_in x_out : option R) df0 dfn : Xc <> [] -> X <> [] -> increasing Xc ->
  df0 <> 0 -> dfn <> 0 ->
  df0 = match x_in with Some xi => hd 0 Xc - xi | None => 2 * (hd 0 Xc - hd 0 X) end ->
  dfn = match x_out with Some xo => xo - last Xc 0 | None => 2 * (last X 0 - last Xc 0) end ->
  d_face Rops (map (fun x => a + b * x) Xc) (map (fun x => a + b * x) X) (df0 :: rdiffs Xc ++ [dfn])
         (option_map (fun x => a + b * x) x_in) (option_map (fun x => a + b * x) x_out)
  = b :: map (fun _ => b) (rdiffs Xc) ++ [b].
Proof.
  intros Hc HX Hinc H0 Hn E0 En. unfold d_face. change (szero Rops) with 0. change (stwo Rops) with 2. fold rdiffs. fold rdivl.
  assert (Hl : last (df0 :: rdiffs Xc ++ [dfn]) 0 = dfn) by (change (df0 :: rdiffs Xc ++ [dfn]) with ((df0 :: rdiffs Xc) ++ [dfn]); apply last_last).
  rewrite !Hl. cbn [tl hd]. rewrite removelast_last.
  rewrite (last_map_R _ Xc 0 Hc), (last_map_R _ X 0 HX).
  destruct Xc as [|c0 ct] eqn:EXc; [congruence|]. destruct X as [|f0 ft] eqn:EX; [congruence|]. rewrite <- EXc, <- EX in *.
  assert (Hh : hd 0 (map (fun x => a + b * x) Xc) = a + b * hd 0 Xc) by (rewrite EXc; reflexivity).
  assert (Hf : hd 0 (map (fun x => a + b * x) X) = a + b * hd 0 X) by (rewrite EX; reflexivity).
  rewrite Hh, Hf. rewrite (divl_diffs_affine a b Xc Hinc).
  f_equal; [|f_equal; f_equal].
  - destruct x_in as [xi|]; cbn [option_map odiv osub Rops]; rewrite E0 in H0 |- *; field; lra.
  - destruct x_out as [xo|]; cbn [option_map odiv osub Rops]; rewrite En in Hn |- *; field; lra.
Qed.

(* the derivative at a face shared by two regions is single valued: the region on either side computes the same number when the
   two carry the same spacing for that face *)
Theorem d_face_shared (CA FA dfA CB FB dfB : list R) iA oB : CA <> [] -> CB <> [] ->
  last dfA 0 = hd 0 dfB ->
  last (d_face Rops CA FA dfA iA (Some (hd 0 CB))) 0 = hd 0 (d_face Rops CB FB dfB (Some (last CA 0)) oB).
Proof.
  intros HA HB E. unfold d_face. change (szero Rops) with 0. cbn [hd].
  change (?x :: ?l ++ [?y]) with ((x :: l) ++ [y]). rewrite last_last. cbn [odiv osub Rops]. rewrite E. reflexivity.
Qed.

Lemma divl_length (a b : list R) : length (rdivl a b) = Nat.min (length a) (length b).
Proof. revert b. induction a as [|x t IH]; intros [|y u]; cbn [divl rdivl length Nat.min]; try reflexivity. fold rdivl. rewrite IH. reflexivity. Qed.

(* one value per cell / one value per face, for regions of any size *)
Theorem stencil_lengths (C F dc df : list R) i o : length F = S (length C) -> length dc = length C -> length df = S (length C) -> C <> [] ->
  length (d_centre Rops F dc) = length C /\ length (d_face Rops C F df i o) = S (length C).
Proof.
  intros HF Hdc Hdf HC. split.
  - unfold d_centre. fold rdiffs. fold rdivl. rewrite divl_length, diffs_length. lia.
  - unfold d_face. fold rdiffs. fold rdivl. cbn [length]. rewrite app_length, divl_length, diffs_length. cbn [length].
    assert (length (removelast (tl df)) = (length C - 1)%nat).
    { destruct df as [|d0 dt]; [cbn in Hdf; lia|]. cbn [tl]. cbn [length] in Hdf.
      destruct (exists_last (l:=dt)) as [l' [z ->]]; [intros ->; cbn in Hdf; destruct C; [congruence|cbn in Hdf; lia]|].
      rewrite removelast_last. rewrite app_length in Hdf. cbn in Hdf. lia. }
    destruct C; [congruence|]. cbn [length] in *. lia.
Qed.

Example stencil_example :
  d_centre Rops [1; 4; 9] [1; 2] = [3; 5 / 2] /\ d_face Rops [2; 6] [1; 4; 9] [1; 2; 1] None (Some 10) = [(2 - 1) / (1 / 2); (6 - 2) / 2; (10 - 6) / 1].
Proof. split; unfold d_centre, d_face; cbn; unfold Rc; cbn; repeat f_equal; lra. Qed.
