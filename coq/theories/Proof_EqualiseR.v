(* C05: what the tolerance test of FineContour.equaliseSpacing means over the reals: numpy's pairwise summation is the sum,
   ds_error bounds the deviation of EVERY spacing from the mean spacing. *)
From Coq Require Import ZArith List Bool Arith Lia Reals Lra.
From HT Require Import Field Model_Quadrature Proof_Quadrature Model_Stencil Model_Equalise.
Import ListNotations.
Local Open Scope R_scope.

Fixpoint rsum (l : list R) : R := match l with [] => 0 | x :: t => x + rsum t end.

Lemma fold_add_rsum (l : list R) : forall acc, fold_left (oadd Rops) l acc = acc + rsum l.
Proof. induction l as [|x t IH]; intros acc; cbn [fold_left rsum]; [ring|]. rewrite IH. cbn [oadd Rops]. ring. Qed.

Lemma acc8_rsum (l : list R) : forall n r0 r1 r2 r3 r4 r5 r6 r7, (length l <= n)%nat ->
  acc8 Rops r0 r1 r2 r3 r4 r5 r6 r7 l = r0 + r1 + r2 + r3 + r4 + r5 + r6 + r7 + rsum l.
Proof.
  intros n. revert l. induction n as [|n IH]; intros l r0 r1 r2 r3 r4 r5 r6 r7 Hn.
  - destruct l; [|cbn in Hn; lia]. cbn [acc8 fold_left rsum oadd Rops]. ring.
  - destruct l as [|a0 [|a1 [|a2 [|a3 [|a4 [|a5 [|a6 [|a7 t]]]]]]]];
      try (cbn [acc8]; rewrite fold_add_rsum; cbn [oadd Rops rsum]; ring).
    cbn [acc8]. rewrite IH by (cbn [length] in Hn; lia). cbn [oadd Rops rsum]. ring.
Qed.

Lemma pw_block_rsum (l : list R) : pw_block Rops l = rsum l.
Proof.
  unfold pw_block.
  destruct l as [|a0 [|a1 [|a2 [|a3 [|a4 [|a5 [|a6 [|a7 t]]]]]]]];
    try (rewrite fold_add_rsum; change (ezero Rops) with 0; cbn [rsum]; ring).
  rewrite (acc8_rsum t (length t)) by lia. cbn [rsum]. ring.
Qed.

Lemma rsum_app a b : rsum (a ++ b) = rsum a + rsum b.
Proof. induction a as [|x t IH]; cbn [app rsum]; [ring|]. rewrite IH. ring. Qed.

(* numpy's pairwise summation computes, over the reals, the sum *)
Theorem pairwise_sum_rsum fuel : forall l : list R, pairwise_sum Rops fuel l = rsum l.
Proof.
  induction fuel as [|k IH]; intros l; cbn [pairwise_sum]; destruct (length l <=? 128)%nat; try apply pw_block_rsum.
  rewrite !IH. cbn [oadd Rops]. rewrite <- rsum_app, firstn_skipn. reflexivity.
Qed.

Lemma max_left_ge (l : list R) : forall x, In x l -> x <= max_left Rops l.
Proof.
  unfold max_left. destruct l as [|h t]; [intros x []|].
  assert (G : forall (t : list R) acc x, (x = acc \/ In x t) -> x <= fold_left (fun a b => if olt Rops a b then b else a) t acc).
  { induction t0 as [|y u IHu]; intros acc x Hx; cbn [fold_left].
    - destruct Hx as [->|[]]. lra.
    - cbn [olt Rops]. destruct (Rltb acc y) eqn:E.
      + apply Rltb_iff in E. destruct Hx as [->|[->|Hx]].
        * assert (y <= fold_left (fun a b => if Rltb a b then b else a) u y) by (apply IHu; left; reflexivity). lra.
        * apply IHu. left; reflexivity.
        * apply IHu. right; exact Hx.
      + apply Rltb_false in E. destruct Hx as [->|[->|Hx]].
        * apply IHu. left; reflexivity.
        * assert (acc <= fold_left (fun a b => if Rltb a b then b else a) u acc) by (apply IHu; left; reflexivity). lra.
        * apply IHu. right; exact Hx. }
  intros x [->|Hx]; apply G; [left; reflexivity|right; exact Hx].
Qed.

Definition mean (l : list R) : R := rsum l / INR (length l).

Lemma ds_error_R (dist : list R) :
  ds_error Rops dist = max_left Rops (map (fun d => Rabs (d - mean (diffs Rops dist))) (diffs Rops dist)).
Proof.
  unfold ds_error, np_sum. cbv zeta. rewrite pairwise_sum_rsum. f_equal. apply map_ext. intros d.
  cbn [osqrt omul osub odiv oconst Rops]. unfold Rc. cbn [Z.eqb Pos.eqb]. rewrite <- INR_IZR_INZ. fold (mean (diffs Rops dist)).
  change ((d - mean (diffs Rops dist)) * (d - mean (diffs Rops dist))) with (Rsqr (d - mean (diffs Rops dist))). apply sqrt_Rsqr_abs.
Qed.

(* the tolerance test: when ds_error <= atol every spacing is within atol of the mean spacing (so any two spacings differ by at
   most 2 atol): the fine contour is equally spaced to the tolerance *)
Theorem ds_error_bounds_every_spacing (dist : list R) atol : olt Rops atol (ds_error Rops dist) = false ->
  forall d, In d (diffs Rops dist) -> Rabs (d - mean (diffs Rops dist)) <= atol.
Proof.
  intros H d Hd. apply Rltb_false in H. rewrite ds_error_R in H.
  eapply Rle_trans; [|exact H]. apply max_left_ge. apply in_map_iff. exists d. auto.
Qed.
