(* C16: equivariance under field reversal and midplane reflection.  T_* (option pre-processing), G1_* (geometry1), F_* (field helpers),
   metric_* (calcMetric) and the connection tables conn_* are all REGENERATED from the source. *)
From Coq Require Import Reals Lra List Bool ZArith Lia.
From HT Require Import Field Proof_Metric TopoLib Proof_Geom1.
From HG Require Import Gen_Options Gen_Geom1 Gen_Fields Gen_Metric Gen_Topo.
Import ListNotations.
Local Open Scope R_scope.

(* ---- options = direct transformation of the inputs *)
Definition sgn_of (b : bool) : R := if b then -1 else 1.
Definition k_of (b : bool) : R := if b then 2 * PI else 1.

Lemma twopi_ne0 : 2 * PI <> 0.
Proof. generalize PI_RGT_0; lra. Qed.
Lemma pi_ne0 : PI <> 0.
Proof. generalize PI_RGT_0; lra. Qed.

Lemma preprocess_direct rc dt rb x :
  T_preprocess rc dt rb x = mkin (sgn_of rc * i_psi2D x / k_of dt) (sgn_of rc * i_psi1D x / k_of dt) (sgn_of rb * i_fpol1D x)
                                 (i_axis_gfile x / k_of dt) (i_bdry_gfile x / k_of dt).
Proof.
  pose proof twopi_ne0 as Hp. destruct x as [x1 x2 x3 x4 x5].
  destruct rc, dt, rb; unfold T_preprocess, T_reverse_current, T_psi_divide_twopi, T_reverse_Bt, sgn_of, k_of; cbn [i_psi2D i_psi1D i_fpol1D i_axis_gfile i_bdry_gfile];
    f_equal; try field; try exact pi_ne0; try lra.
Qed.

(* the consistency checks compare the O-/X-point value of the TRANSFORMED flux with the equally transformed file value *)
Lemma gfile_reference_consistent rc dt rb x :
  T_gfile_reference rc (i_axis_gfile (T_preprocess rc dt rb x)) = sgn_of rc * i_axis_gfile x / k_of dt /\
  T_gfile_reference rc (i_bdry_gfile (T_preprocess rc dt rb x)) = sgn_of rc * i_bdry_gfile x / k_of dt.
Proof.
  rewrite preprocess_direct. destruct x as [x1 x2 x3 x4 x5]. cbn [i_axis_gfile i_bdry_gfile]. unfold T_gfile_reference, sgn_of. pose proof twopi_ne0 as Hp.
  destruct rc, dt; unfold k_of; split; field; try exact pi_ne0; lra.
Qed.

(* ---- the fields under psi -> c * psi  (c = -1: reversed current; c = 1/2pi), fpol -> t * fpol *)
Lemma Bp_scaling (psiR psiZ : R -> R -> R) c r z :
  F_spline_Bp_R (fun a b => c * psiZ a b) r z = c * F_spline_Bp_R psiZ r z /\
  F_spline_Bp_Z (fun a b => c * psiR a b) r z = c * F_spline_Bp_Z psiR r z.
Proof. unfold F_spline_Bp_R, F_spline_Bp_Z, Rdiv. split; ring. Qed.

Lemma Bp_mag_scaling c a b : G1_Bp_mag (c * a) (c * b) = Rabs c * G1_Bp_mag a b.
Proof.
  unfold G1_Bp_mag. replace (c * a * (c * a) + c * b * (c * b)) with (c * c * (a * a + b * b)) by ring.
  rewrite sqrt_mult_alt by nra. f_equal. rewrite <- (sqrt_Rsqr_abs c). reflexivity.
Qed.

Lemma dot_scaling c Brs Bzs Rp Rm Zp Zm : G1_dot (c * Brs) (c * Bzs) Rp Rm Zp Zm = c * G1_dot Brs Bzs Rp Rm Zp Zm.
Proof. unfold G1_dot. ring. Qed.

Lemma bpsign_reversed a b : a <> b -> G1_bpsign (- a) (- b) = - G1_bpsign a b.
Proof. intros H. unfold G1_bpsign. destruct (Rgt_dec (- a) (- b)), (Rgt_dec a b); lra. Qed.

Lemma bpsign_scaled c a b : 0 < c -> G1_bpsign (c * a) (c * b) = G1_bpsign a b.
Proof. intros H. unfold G1_bpsign. destruct (Rgt_dec (c * a) (c * b)), (Rgt_dec a b); try reflexivity; nra. Qed.

(* the sign decision follows the reversal: same outcome (raise / accept), opposite factor *)
Lemma decision_reversed dot bps : dot <> 0 -> bps <> 0 ->
  G1_decision (- dot) (- bps) = match G1_decision dot bps with Some s => Some (- s) | None => None end.
Proof.
  intros Hd Hb. unfold G1_decision.
  destruct (Rlt_dec (- dot) 0), (Rlt_dec dot 0); try lra;
    destruct (Rgt_dec (- bps) 0), (Rlt_dec bps 0), (Rgt_dec bps 0), (Rlt_dec (- bps) 0); try lra; try reflexivity; f_equal; lra.
Qed.

Lemma decision_scaled c dot bps : 0 < c -> G1_decision (c * dot) bps = G1_decision dot bps.
Proof. intros H. unfold G1_decision. destruct (Rlt_dec (c * dot) 0), (Rlt_dec dot 0); try reflexivity; nra. Qed.

Lemma Bt_B_reversed fp r Bp : G1_Bt (- fp) r = - G1_Bt fp r /\ G1_B (- Bp) (G1_Bt (- fp) r) = G1_B Bp (G1_Bt fp r) /\ G1_B (- Bp) (G1_Bt fp r) = G1_B Bp (G1_Bt fp r).
Proof. unfold G1_Bt, G1_B, Rdiv. repeat split; try ring; f_equal; ring. Qed.

(* ---- midplane reflection with the y order reversed: the sampled dot product that fixes the sign of Bpxy is invariant
   (B_R = psi_Z/R changes sign, B_Z does not; the neighbours j+1 / j-1 swap and Z changes sign) *)
Lemma dot_mirror Brs Bzs Rp Rm Zp Zm : G1_dot (- Brs) Bzs Rm Rp (- Zm) (- Zp) = G1_dot Brs Bzs Rp Rm Zp Zm.
Proof. unfold G1_dot. ring. Qed.

(* ---- calcMetric under the reversals.  Reversed current: Bpxy, bpsign, dphidy = hy Bt/(Bp R) and cosBeta change sign (x = psi runs the other
   way), tanBeta does not; reversed Bt: dphidy changes sign.  Every component keeps its magnitude. *)
Section MetricParity.
  Notation O := Rops.
  Ltac par := first [ left; intros; unfold_metric; field; repeat split; assumption
                    | right; intros; unfold_metric; field; repeat split; assumption ].

  Lemma rc_orth_g11 : (forall Rx Bp hy dp cB tB bs : R, Rx <> 0 -> Bp <> 0 -> hy <> 0 -> cB <> 0 -> metric_orth_g11 O Rx (- Bp) hy (- dp) (- cB) tB (- bs) = metric_orth_g11 O Rx Bp hy dp cB tB bs) \/
                    (forall Rx Bp hy dp cB tB bs : R, Rx <> 0 -> Bp <> 0 -> hy <> 0 -> cB <> 0 -> metric_orth_g11 O Rx (- Bp) hy (- dp) (- cB) tB (- bs) = - metric_orth_g11 O Rx Bp hy dp cB tB bs).
  Proof. par. Qed.
  Lemma rb_orth_g11 : (forall Rx Bp hy dp cB tB bs : R, Rx <> 0 -> Bp <> 0 -> hy <> 0 -> cB <> 0 -> metric_orth_g11 O Rx Bp hy (- dp) cB tB bs = metric_orth_g11 O Rx Bp hy dp cB tB bs) \/
                    (forall Rx Bp hy dp cB tB bs : R, Rx <> 0 -> Bp <> 0 -> hy <> 0 -> cB <> 0 -> metric_orth_g11 O Rx Bp hy (- dp) cB tB bs = - metric_orth_g11 O Rx Bp hy dp cB tB bs).
  Proof. par. Qed.
  Lemma rc_orth_g22 : (forall Rx Bp hy dp cB tB bs : R, Rx <> 0 -> Bp <> 0 -> hy <> 0 -> cB <> 0 -> metric_orth_g22 O Rx (- Bp) hy (- dp) (- cB) tB (- bs) = metric_orth_g22 O Rx Bp hy dp cB tB bs) \/
                    (forall Rx Bp hy dp cB tB bs : R, Rx <> 0 -> Bp <> 0 -> hy <> 0 -> cB <> 0 -> metric_orth_g22 O Rx (- Bp) hy (- dp) (- cB) tB (- bs) = - metric_orth_g22 O Rx Bp hy dp cB tB bs).
  Proof. par. Qed.
  Lemma rb_orth_g22 : (forall Rx Bp hy dp cB tB bs : R, Rx <> 0 -> Bp <> 0 -> hy <> 0 -> cB <> 0 -> metric_orth_g22 O Rx Bp hy (- dp) cB tB bs = metric_orth_g22 O Rx Bp hy dp cB tB bs) \/
                    (forall Rx Bp hy dp cB tB bs : R, Rx <> 0 -> Bp <> 0 -> hy <> 0 -> cB <> 0 -> metric_orth_g22 O Rx Bp hy (- dp) cB tB bs = - metric_orth_g22 O Rx Bp hy dp cB tB bs).
  Proof. par. Qed.
  Lemma rc_orth_g33 : (forall Rx Bp hy dp cB tB bs : R, Rx <> 0 -> Bp <> 0 -> hy <> 0 -> cB <> 0 -> metric_orth_g33 O Rx (- Bp) hy (- dp) (- cB) tB (- bs) = metric_orth_g33 O Rx Bp hy dp cB tB bs) \/
                    (forall Rx Bp hy dp cB tB bs : R, Rx <> 0 -> Bp <> 0 -> hy <> 0 -> cB <> 0 -> metric_orth_g33 O Rx (- Bp) hy (- dp) (- cB) tB (- bs) = - metric_orth_g33 O Rx Bp hy dp cB tB bs).
  Proof. par. Qed.
  Lemma rb_orth_g33 : (forall Rx Bp hy dp cB tB bs : R, Rx <> 0 -> Bp <> 0 -> hy <> 0 -> cB <> 0 -> metric_orth_g33 O Rx Bp hy (- dp) cB tB bs = metric_orth_g33 O Rx Bp hy dp cB tB bs) \/
                    (forall Rx Bp hy dp cB tB bs : R, Rx <> 0 -> Bp <> 0 -> hy <> 0 -> cB <> 0 -> metric_orth_g33 O Rx Bp hy (- dp) cB tB bs = - metric_orth_g33 O Rx Bp hy dp cB tB bs).
  Proof. par. Qed.
  Lemma rc_orth_g12 : (forall Rx Bp hy dp cB tB bs : R, Rx <> 0 -> Bp <> 0 -> hy <> 0 -> cB <> 0 -> metric_orth_g12 O Rx (- Bp) hy (- dp) (- cB) tB (- bs) = metric_orth_g12 O Rx Bp hy dp cB tB bs) \/
                    (forall Rx Bp hy dp cB tB bs : R, Rx <> 0 -> Bp <> 0 -> hy <> 0 -> cB <> 0 -> metric_orth_g12 O Rx (- Bp) hy (- dp) (- cB) tB (- bs) = - metric_orth_g12 O Rx Bp hy dp cB tB bs).
  Proof. par. Qed.
  Lemma rb_orth_g12 : (forall Rx Bp hy dp cB tB bs : R, Rx <> 0 -> Bp <> 0 -> hy <> 0 -> cB <> 0 -> metric_orth_g12 O Rx Bp hy (- dp) cB tB bs = metric_orth_g12 O Rx Bp hy dp cB tB bs) \/
                    (forall Rx Bp hy dp cB tB bs : R, Rx <> 0 -> Bp <> 0 -> hy <> 0 -> cB <> 0 -> metric_orth_g12 O Rx Bp hy (- dp) cB tB bs = - metric_orth_g12 O Rx Bp hy dp cB tB bs).
  Proof. par. Qed.
  Lemma rc_orth_g13 : (forall Rx Bp hy dp cB tB bs : R, Rx <> 0 -> Bp <> 0 -> hy <> 0 -> cB <> 0 -> metric_orth_g13 O Rx (- Bp) hy (- dp) (- cB) tB (- bs) = metric_orth_g13 O Rx Bp hy dp cB tB bs) \/
                    (forall Rx Bp hy dp cB tB bs : R, Rx <> 0 -> Bp <> 0 -> hy <> 0 -> cB <> 0 -> metric_orth_g13 O Rx (- Bp) hy (- dp) (- cB) tB (- bs) = - metric_orth_g13 O Rx Bp hy dp cB tB bs).
  Proof. par. Qed.
  Lemma rb_orth_g13 : (forall Rx Bp hy dp cB tB bs : R, Rx <> 0 -> Bp <> 0 -> hy <> 0 -> cB <> 0 -> metric_orth_g13 O Rx Bp hy (- dp) cB tB bs = metric_orth_g13 O Rx Bp hy dp cB tB bs) \/
                    (forall Rx Bp hy dp cB tB bs : R, Rx <> 0 -> Bp <> 0 -> hy <> 0 -> cB <> 0 -> metric_orth_g13 O Rx Bp hy (- dp) cB tB bs = - metric_orth_g13 O Rx Bp hy dp cB tB bs).
  Proof. par. Qed.
  Lemma rc_orth_g23 : (forall Rx Bp hy dp cB tB bs : R, Rx <> 0 -> Bp <> 0 -> hy <> 0 -> cB <> 0 -> metric_orth_g23 O Rx (- Bp) hy (- dp) (- cB) tB (- bs) = metric_orth_g23 O Rx Bp hy dp cB tB bs) \/
                    (forall Rx Bp hy dp cB tB bs : R, Rx <> 0 -> Bp <> 0 -> hy <> 0 -> cB <> 0 -> metric_orth_g23 O Rx (- Bp) hy (- dp) (- cB) tB (- bs) = - metric_orth_g23 O Rx Bp hy dp cB tB bs).
  Proof. par. Qed.
  Lemma rb_orth_g23 : (forall Rx Bp hy dp cB tB bs : R, Rx <> 0 -> Bp <> 0 -> hy <> 0 -> cB <> 0 -> metric_orth_g23 O Rx Bp hy (- dp) cB tB bs = metric_orth_g23 O Rx Bp hy dp cB tB bs) \/
                    (forall Rx Bp hy dp cB tB bs : R, Rx <> 0 -> Bp <> 0 -> hy <> 0 -> cB <> 0 -> metric_orth_g23 O Rx Bp hy (- dp) cB tB bs = - metric_orth_g23 O Rx Bp hy dp cB tB bs).
  Proof. par. Qed.
  Lemma rc_orth_J : (forall Rx Bp hy dp cB tB bs : R, Rx <> 0 -> Bp <> 0 -> hy <> 0 -> cB <> 0 -> metric_orth_J O Rx (- Bp) hy (- dp) (- cB) tB (- bs) = metric_orth_J O Rx Bp hy dp cB tB bs) \/
                    (forall Rx Bp hy dp cB tB bs : R, Rx <> 0 -> Bp <> 0 -> hy <> 0 -> cB <> 0 -> metric_orth_J O Rx (- Bp) hy (- dp) (- cB) tB (- bs) = - metric_orth_J O Rx Bp hy dp cB tB bs).
  Proof. par. Qed.
  Lemma rb_orth_J : (forall Rx Bp hy dp cB tB bs : R, Rx <> 0 -> Bp <> 0 -> hy <> 0 -> cB <> 0 -> metric_orth_J O Rx Bp hy (- dp) cB tB bs = metric_orth_J O Rx Bp hy dp cB tB bs) \/
                    (forall Rx Bp hy dp cB tB bs : R, Rx <> 0 -> Bp <> 0 -> hy <> 0 -> cB <> 0 -> metric_orth_J O Rx Bp hy (- dp) cB tB bs = - metric_orth_J O Rx Bp hy dp cB tB bs).
  Proof. par. Qed.
  Lemma rc_orth_g_11 : (forall Rx Bp hy dp cB tB bs : R, Rx <> 0 -> Bp <> 0 -> hy <> 0 -> cB <> 0 -> metric_orth_g_11 O Rx (- Bp) hy (- dp) (- cB) tB (- bs) = metric_orth_g_11 O Rx Bp hy dp cB tB bs) \/
                    (forall Rx Bp hy dp cB tB bs : R, Rx <> 0 -> Bp <> 0 -> hy <> 0 -> cB <> 0 -> metric_orth_g_11 O Rx (- Bp) hy (- dp) (- cB) tB (- bs) = - metric_orth_g_11 O Rx Bp hy dp cB tB bs).
  Proof. par. Qed.
  Lemma rb_orth_g_11 : (forall Rx Bp hy dp cB tB bs : R, Rx <> 0 -> Bp <> 0 -> hy <> 0 -> cB <> 0 -> metric_orth_g_11 O Rx Bp hy (- dp) cB tB bs = metric_orth_g_11 O Rx Bp hy dp cB tB bs) \/
                    (forall Rx Bp hy dp cB tB bs : R, Rx <> 0 -> Bp <> 0 -> hy <> 0 -> cB <> 0 -> metric_orth_g_11 O Rx Bp hy (- dp) cB tB bs = - metric_orth_g_11 O Rx Bp hy dp cB tB bs).
  Proof. par. Qed.
  Lemma rc_orth_g_22 : (forall Rx Bp hy dp cB tB bs : R, Rx <> 0 -> Bp <> 0 -> hy <> 0 -> cB <> 0 -> metric_orth_g_22 O Rx (- Bp) hy (- dp) (- cB) tB (- bs) = metric_orth_g_22 O Rx Bp hy dp cB tB bs) \/
                    (forall Rx Bp hy dp cB tB bs : R, Rx <> 0 -> Bp <> 0 -> hy <> 0 -> cB <> 0 -> metric_orth_g_22 O Rx (- Bp) hy (- dp) (- cB) tB (- bs) = - metric_orth_g_22 O Rx Bp hy dp cB tB bs).
  Proof. par. Qed.
  Lemma rb_orth_g_22 : (forall Rx Bp hy dp cB tB bs : R, Rx <> 0 -> Bp <> 0 -> hy <> 0 -> cB <> 0 -> metric_orth_g_22 O Rx Bp hy (- dp) cB tB bs = metric_orth_g_22 O Rx Bp hy dp cB tB bs) \/
                    (forall Rx Bp hy dp cB tB bs : R, Rx <> 0 -> Bp <> 0 -> hy <> 0 -> cB <> 0 -> metric_orth_g_22 O Rx Bp hy (- dp) cB tB bs = - metric_orth_g_22 O Rx Bp hy dp cB tB bs).
  Proof. par. Qed.
  Lemma rc_orth_g_33 : (forall Rx Bp hy dp cB tB bs : R, Rx <> 0 -> Bp <> 0 -> hy <> 0 -> cB <> 0 -> metric_orth_g_33 O Rx (- Bp) hy (- dp) (- cB) tB (- bs) = metric_orth_g_33 O Rx Bp hy dp cB tB bs) \/
                    (forall Rx Bp hy dp cB tB bs : R, Rx <> 0 -> Bp <> 0 -> hy <> 0 -> cB <> 0 -> metric_orth_g_33 O Rx (- Bp) hy (- dp) (- cB) tB (- bs) = - metric_orth_g_33 O Rx Bp hy dp cB tB bs).
  Proof. par. Qed.
  Lemma rb_orth_g_33 : (forall Rx Bp hy dp cB tB bs : R, Rx <> 0 -> Bp <> 0 -> hy <> 0 -> cB <> 0 -> metric_orth_g_33 O Rx Bp hy (- dp) cB tB bs = metric_orth_g_33 O Rx Bp hy dp cB tB bs) \/
                    (forall Rx Bp hy dp cB tB bs : R, Rx <> 0 -> Bp <> 0 -> hy <> 0 -> cB <> 0 -> metric_orth_g_33 O Rx Bp hy (- dp) cB tB bs = - metric_orth_g_33 O Rx Bp hy dp cB tB bs).
  Proof. par. Qed.
  Lemma rc_orth_g_12 : (forall Rx Bp hy dp cB tB bs : R, Rx <> 0 -> Bp <> 0 -> hy <> 0 -> cB <> 0 -> metric_orth_g_12 O Rx (- Bp) hy (- dp) (- cB) tB (- bs) = metric_orth_g_12 O Rx Bp hy dp cB tB bs) \/
                    (forall Rx Bp hy dp cB tB bs : R, Rx <> 0 -> Bp <> 0 -> hy <> 0 -> cB <> 0 -> metric_orth_g_12 O Rx (- Bp) hy (- dp) (- cB) tB (- bs) = - metric_orth_g_12 O Rx Bp hy dp cB tB bs).
  Proof. par. Qed.
  Lemma rb_orth_g_12 : (forall Rx Bp hy dp cB tB bs : R, Rx <> 0 -> Bp <> 0 -> hy <> 0 -> cB <> 0 -> metric_orth_g_12 O Rx Bp hy (- dp) cB tB bs = metric_orth_g_12 O Rx Bp hy dp cB tB bs) \/
                    (forall Rx Bp hy dp cB tB bs : R, Rx <> 0 -> Bp <> 0 -> hy <> 0 -> cB <> 0 -> metric_orth_g_12 O Rx Bp hy (- dp) cB tB bs = - metric_orth_g_12 O Rx Bp hy dp cB tB bs).
  Proof. par. Qed.
  Lemma rc_orth_g_13 : (forall Rx Bp hy dp cB tB bs : R, Rx <> 0 -> Bp <> 0 -> hy <> 0 -> cB <> 0 -> metric_orth_g_13 O Rx (- Bp) hy (- dp) (- cB) tB (- bs) = metric_orth_g_13 O Rx Bp hy dp cB tB bs) \/
                    (forall Rx Bp hy dp cB tB bs : R, Rx <> 0 -> Bp <> 0 -> hy <> 0 -> cB <> 0 -> metric_orth_g_13 O Rx (- Bp) hy (- dp) (- cB) tB (- bs) = - metric_orth_g_13 O Rx Bp hy dp cB tB bs).
  Proof. par. Qed.
  Lemma rb_orth_g_13 : (forall Rx Bp hy dp cB tB bs : R, Rx <> 0 -> Bp <> 0 -> hy <> 0 -> cB <> 0 -> metric_orth_g_13 O Rx Bp hy (- dp) cB tB bs = metric_orth_g_13 O Rx Bp hy dp cB tB bs) \/
                    (forall Rx Bp hy dp cB tB bs : R, Rx <> 0 -> Bp <> 0 -> hy <> 0 -> cB <> 0 -> metric_orth_g_13 O Rx Bp hy (- dp) cB tB bs = - metric_orth_g_13 O Rx Bp hy dp cB tB bs).
  Proof. par. Qed.
  Lemma rc_orth_g_23 : (forall Rx Bp hy dp cB tB bs : R, Rx <> 0 -> Bp <> 0 -> hy <> 0 -> cB <> 0 -> metric_orth_g_23 O Rx (- Bp) hy (- dp) (- cB) tB (- bs) = metric_orth_g_23 O Rx Bp hy dp cB tB bs) \/
                    (forall Rx Bp hy dp cB tB bs : R, Rx <> 0 -> Bp <> 0 -> hy <> 0 -> cB <> 0 -> metric_orth_g_23 O Rx (- Bp) hy (- dp) (- cB) tB (- bs) = - metric_orth_g_23 O Rx Bp hy dp cB tB bs).
  Proof. par. Qed.
  Lemma rb_orth_g_23 : (forall Rx Bp hy dp cB tB bs : R, Rx <> 0 -> Bp <> 0 -> hy <> 0 -> cB <> 0 -> metric_orth_g_23 O Rx Bp hy (- dp) cB tB bs = metric_orth_g_23 O Rx Bp hy dp cB tB bs) \/
                    (forall Rx Bp hy dp cB tB bs : R, Rx <> 0 -> Bp <> 0 -> hy <> 0 -> cB <> 0 -> metric_orth_g_23 O Rx Bp hy (- dp) cB tB bs = - metric_orth_g_23 O Rx Bp hy dp cB tB bs).
  Proof. par. Qed.
  Lemma rc_nonorth_g11 : (forall Rx Bp hy dp cB tB bs : R, Rx <> 0 -> Bp <> 0 -> hy <> 0 -> cB <> 0 -> metric_nonorth_g11 O Rx (- Bp) hy (- dp) (- cB) tB (- bs) = metric_nonorth_g11 O Rx Bp hy dp cB tB bs) \/
                    (forall Rx Bp hy dp cB tB bs : R, Rx <> 0 -> Bp <> 0 -> hy <> 0 -> cB <> 0 -> metric_nonorth_g11 O Rx (- Bp) hy (- dp) (- cB) tB (- bs) = - metric_nonorth_g11 O Rx Bp hy dp cB tB bs).
  Proof. par. Qed.
  Lemma rb_nonorth_g11 : (forall Rx Bp hy dp cB tB bs : R, Rx <> 0 -> Bp <> 0 -> hy <> 0 -> cB <> 0 -> metric_nonorth_g11 O Rx Bp hy (- dp) cB tB bs = metric_nonorth_g11 O Rx Bp hy dp cB tB bs) \/
                    (forall Rx Bp hy dp cB tB bs : R, Rx <> 0 -> Bp <> 0 -> hy <> 0 -> cB <> 0 -> metric_nonorth_g11 O Rx Bp hy (- dp) cB tB bs = - metric_nonorth_g11 O Rx Bp hy dp cB tB bs).
  Proof. par. Qed.
  Lemma rc_nonorth_g22 : (forall Rx Bp hy dp cB tB bs : R, Rx <> 0 -> Bp <> 0 -> hy <> 0 -> cB <> 0 -> metric_nonorth_g22 O Rx (- Bp) hy (- dp) (- cB) tB (- bs) = metric_nonorth_g22 O Rx Bp hy dp cB tB bs) \/
                    (forall Rx Bp hy dp cB tB bs : R, Rx <> 0 -> Bp <> 0 -> hy <> 0 -> cB <> 0 -> metric_nonorth_g22 O Rx (- Bp) hy (- dp) (- cB) tB (- bs) = - metric_nonorth_g22 O Rx Bp hy dp cB tB bs).
  Proof. par. Qed.
  Lemma rb_nonorth_g22 : (forall Rx Bp hy dp cB tB bs : R, Rx <> 0 -> Bp <> 0 -> hy <> 0 -> cB <> 0 -> metric_nonorth_g22 O Rx Bp hy (- dp) cB tB bs = metric_nonorth_g22 O Rx Bp hy dp cB tB bs) \/
                    (forall Rx Bp hy dp cB tB bs : R, Rx <> 0 -> Bp <> 0 -> hy <> 0 -> cB <> 0 -> metric_nonorth_g22 O Rx Bp hy (- dp) cB tB bs = - metric_nonorth_g22 O Rx Bp hy dp cB tB bs).
  Proof. par. Qed.
  Lemma rc_nonorth_g33 : (forall Rx Bp hy dp cB tB bs : R, Rx <> 0 -> Bp <> 0 -> hy <> 0 -> cB <> 0 -> metric_nonorth_g33 O Rx (- Bp) hy (- dp) (- cB) tB (- bs) = metric_nonorth_g33 O Rx Bp hy dp cB tB bs) \/
                    (forall Rx Bp hy dp cB tB bs : R, Rx <> 0 -> Bp <> 0 -> hy <> 0 -> cB <> 0 -> metric_nonorth_g33 O Rx (- Bp) hy (- dp) (- cB) tB (- bs) = - metric_nonorth_g33 O Rx Bp hy dp cB tB bs).
  Proof. par. Qed.
  Lemma rb_nonorth_g33 : (forall Rx Bp hy dp cB tB bs : R, Rx <> 0 -> Bp <> 0 -> hy <> 0 -> cB <> 0 -> metric_nonorth_g33 O Rx Bp hy (- dp) cB tB bs = metric_nonorth_g33 O Rx Bp hy dp cB tB bs) \/
                    (forall Rx Bp hy dp cB tB bs : R, Rx <> 0 -> Bp <> 0 -> hy <> 0 -> cB <> 0 -> metric_nonorth_g33 O Rx Bp hy (- dp) cB tB bs = - metric_nonorth_g33 O Rx Bp hy dp cB tB bs).
  Proof. par. Qed.
  Lemma rc_nonorth_g12 : (forall Rx Bp hy dp cB tB bs : R, Rx <> 0 -> Bp <> 0 -> hy <> 0 -> cB <> 0 -> metric_nonorth_g12 O Rx (- Bp) hy (- dp) (- cB) tB (- bs) = metric_nonorth_g12 O Rx Bp hy dp cB tB bs) \/
                    (forall Rx Bp hy dp cB tB bs : R, Rx <> 0 -> Bp <> 0 -> hy <> 0 -> cB <> 0 -> metric_nonorth_g12 O Rx (- Bp) hy (- dp) (- cB) tB (- bs) = - metric_nonorth_g12 O Rx Bp hy dp cB tB bs).
  Proof. par. Qed.
  Lemma rb_nonorth_g12 : (forall Rx Bp hy dp cB tB bs : R, Rx <> 0 -> Bp <> 0 -> hy <> 0 -> cB <> 0 -> metric_nonorth_g12 O Rx Bp hy (- dp) cB tB bs = metric_nonorth_g12 O Rx Bp hy dp cB tB bs) \/
                    (forall Rx Bp hy dp cB tB bs : R, Rx <> 0 -> Bp <> 0 -> hy <> 0 -> cB <> 0 -> metric_nonorth_g12 O Rx Bp hy (- dp) cB tB bs = - metric_nonorth_g12 O Rx Bp hy dp cB tB bs).
  Proof. par. Qed.
  Lemma rc_nonorth_g13 : (forall Rx Bp hy dp cB tB bs : R, Rx <> 0 -> Bp <> 0 -> hy <> 0 -> cB <> 0 -> metric_nonorth_g13 O Rx (- Bp) hy (- dp) (- cB) tB (- bs) = metric_nonorth_g13 O Rx Bp hy dp cB tB bs) \/
                    (forall Rx Bp hy dp cB tB bs : R, Rx <> 0 -> Bp <> 0 -> hy <> 0 -> cB <> 0 -> metric_nonorth_g13 O Rx (- Bp) hy (- dp) (- cB) tB (- bs) = - metric_nonorth_g13 O Rx Bp hy dp cB tB bs).
  Proof. par. Qed.
  Lemma rb_nonorth_g13 : (forall Rx Bp hy dp cB tB bs : R, Rx <> 0 -> Bp <> 0 -> hy <> 0 -> cB <> 0 -> metric_nonorth_g13 O Rx Bp hy (- dp) cB tB bs = metric_nonorth_g13 O Rx Bp hy dp cB tB bs) \/
                    (forall Rx Bp hy dp cB tB bs : R, Rx <> 0 -> Bp <> 0 -> hy <> 0 -> cB <> 0 -> metric_nonorth_g13 O Rx Bp hy (- dp) cB tB bs = - metric_nonorth_g13 O Rx Bp hy dp cB tB bs).
  Proof. par. Qed.
  Lemma rc_nonorth_g23 : (forall Rx Bp hy dp cB tB bs : R, Rx <> 0 -> Bp <> 0 -> hy <> 0 -> cB <> 0 -> metric_nonorth_g23 O Rx (- Bp) hy (- dp) (- cB) tB (- bs) = metric_nonorth_g23 O Rx Bp hy dp cB tB bs) \/
                    (forall Rx Bp hy dp cB tB bs : R, Rx <> 0 -> Bp <> 0 -> hy <> 0 -> cB <> 0 -> metric_nonorth_g23 O Rx (- Bp) hy (- dp) (- cB) tB (- bs) = - metric_nonorth_g23 O Rx Bp hy dp cB tB bs).
  Proof. par. Qed.
  Lemma rb_nonorth_g23 : (forall Rx Bp hy dp cB tB bs : R, Rx <> 0 -> Bp <> 0 -> hy <> 0 -> cB <> 0 -> metric_nonorth_g23 O Rx Bp hy (- dp) cB tB bs = metric_nonorth_g23 O Rx Bp hy dp cB tB bs) \/
                    (forall Rx Bp hy dp cB tB bs : R, Rx <> 0 -> Bp <> 0 -> hy <> 0 -> cB <> 0 -> metric_nonorth_g23 O Rx Bp hy (- dp) cB tB bs = - metric_nonorth_g23 O Rx Bp hy dp cB tB bs).
  Proof. par. Qed.
  Lemma rc_nonorth_J : (forall Rx Bp hy dp cB tB bs : R, Rx <> 0 -> Bp <> 0 -> hy <> 0 -> cB <> 0 -> metric_nonorth_J O Rx (- Bp) hy (- dp) (- cB) tB (- bs) = metric_nonorth_J O Rx Bp hy dp cB tB bs) \/
                    (forall Rx Bp hy dp cB tB bs : R, Rx <> 0 -> Bp <> 0 -> hy <> 0 -> cB <> 0 -> metric_nonorth_J O Rx (- Bp) hy (- dp) (- cB) tB (- bs) = - metric_nonorth_J O Rx Bp hy dp cB tB bs).
  Proof. par. Qed.
  Lemma rb_nonorth_J : (forall Rx Bp hy dp cB tB bs : R, Rx <> 0 -> Bp <> 0 -> hy <> 0 -> cB <> 0 -> metric_nonorth_J O Rx Bp hy (- dp) cB tB bs = metric_nonorth_J O Rx Bp hy dp cB tB bs) \/
                    (forall Rx Bp hy dp cB tB bs : R, Rx <> 0 -> Bp <> 0 -> hy <> 0 -> cB <> 0 -> metric_nonorth_J O Rx Bp hy (- dp) cB tB bs = - metric_nonorth_J O Rx Bp hy dp cB tB bs).
  Proof. par. Qed.
  Lemma rc_nonorth_g_11 : (forall Rx Bp hy dp cB tB bs : R, Rx <> 0 -> Bp <> 0 -> hy <> 0 -> cB <> 0 -> metric_nonorth_g_11 O Rx (- Bp) hy (- dp) (- cB) tB (- bs) = metric_nonorth_g_11 O Rx Bp hy dp cB tB bs) \/
                    (forall Rx Bp hy dp cB tB bs : R, Rx <> 0 -> Bp <> 0 -> hy <> 0 -> cB <> 0 -> metric_nonorth_g_11 O Rx (- Bp) hy (- dp) (- cB) tB (- bs) = - metric_nonorth_g_11 O Rx Bp hy dp cB tB bs).
  Proof. par. Qed.
  Lemma rb_nonorth_g_11 : (forall Rx Bp hy dp cB tB bs : R, Rx <> 0 -> Bp <> 0 -> hy <> 0 -> cB <> 0 -> metric_nonorth_g_11 O Rx Bp hy (- dp) cB tB bs = metric_nonorth_g_11 O Rx Bp hy dp cB tB bs) \/
                    (forall Rx Bp hy dp cB tB bs : R, Rx <> 0 -> Bp <> 0 -> hy <> 0 -> cB <> 0 -> metric_nonorth_g_11 O Rx Bp hy (- dp) cB tB bs = - metric_nonorth_g_11 O Rx Bp hy dp cB tB bs).
  Proof. par. Qed.
  Lemma rc_nonorth_g_22 : (forall Rx Bp hy dp cB tB bs : R, Rx <> 0 -> Bp <> 0 -> hy <> 0 -> cB <> 0 -> metric_nonorth_g_22 O Rx (- Bp) hy (- dp) (- cB) tB (- bs) = metric_nonorth_g_22 O Rx Bp hy dp cB tB bs) \/
                    (forall Rx Bp hy dp cB tB bs : R, Rx <> 0 -> Bp <> 0 -> hy <> 0 -> cB <> 0 -> metric_nonorth_g_22 O Rx (- Bp) hy (- dp) (- cB) tB (- bs) = - metric_nonorth_g_22 O Rx Bp hy dp cB tB bs).
  Proof. par. Qed.
  Lemma rb_nonorth_g_22 : (forall Rx Bp hy dp cB tB bs : R, Rx <> 0 -> Bp <> 0 -> hy <> 0 -> cB <> 0 -> metric_nonorth_g_22 O Rx Bp hy (- dp) cB tB bs = metric_nonorth_g_22 O Rx Bp hy dp cB tB bs) \/
                    (forall Rx Bp hy dp cB tB bs : R, Rx <> 0 -> Bp <> 0 -> hy <> 0 -> cB <> 0 -> metric_nonorth_g_22 O Rx Bp hy (- dp) cB tB bs = - metric_nonorth_g_22 O Rx Bp hy dp cB tB bs).
  Proof. par. Qed.
  Lemma rc_nonorth_g_33 : (forall Rx Bp hy dp cB tB bs : R, Rx <> 0 -> Bp <> 0 -> hy <> 0 -> cB <> 0 -> metric_nonorth_g_33 O Rx (- Bp) hy (- dp) (- cB) tB (- bs) = metric_nonorth_g_33 O Rx Bp hy dp cB tB bs) \/
                    (forall Rx Bp hy dp cB tB bs : R, Rx <> 0 -> Bp <> 0 -> hy <> 0 -> cB <> 0 -> metric_nonorth_g_33 O Rx (- Bp) hy (- dp) (- cB) tB (- bs) = - metric_nonorth_g_33 O Rx Bp hy dp cB tB bs).
  Proof. par. Qed.
  Lemma rb_nonorth_g_33 : (forall Rx Bp hy dp cB tB bs : R, Rx <> 0 -> Bp <> 0 -> hy <> 0 -> cB <> 0 -> metric_nonorth_g_33 O Rx Bp hy (- dp) cB tB bs = metric_nonorth_g_33 O Rx Bp hy dp cB tB bs) \/
                    (forall Rx Bp hy dp cB tB bs : R, Rx <> 0 -> Bp <> 0 -> hy <> 0 -> cB <> 0 -> metric_nonorth_g_33 O Rx Bp hy (- dp) cB tB bs = - metric_nonorth_g_33 O Rx Bp hy dp cB tB bs).
  Proof. par. Qed.
  Lemma rc_nonorth_g_12 : (forall Rx Bp hy dp cB tB bs : R, Rx <> 0 -> Bp <> 0 -> hy <> 0 -> cB <> 0 -> metric_nonorth_g_12 O Rx (- Bp) hy (- dp) (- cB) tB (- bs) = metric_nonorth_g_12 O Rx Bp hy dp cB tB bs) \/
                    (forall Rx Bp hy dp cB tB bs : R, Rx <> 0 -> Bp <> 0 -> hy <> 0 -> cB <> 0 -> metric_nonorth_g_12 O Rx (- Bp) hy (- dp) (- cB) tB (- bs) = - metric_nonorth_g_12 O Rx Bp hy dp cB tB bs).
  Proof. par. Qed.
  Lemma rb_nonorth_g_12 : (forall Rx Bp hy dp cB tB bs : R, Rx <> 0 -> Bp <> 0 -> hy <> 0 -> cB <> 0 -> metric_nonorth_g_12 O Rx Bp hy (- dp) cB tB bs = metric_nonorth_g_12 O Rx Bp hy dp cB tB bs) \/
                    (forall Rx Bp hy dp cB tB bs : R, Rx <> 0 -> Bp <> 0 -> hy <> 0 -> cB <> 0 -> metric_nonorth_g_12 O Rx Bp hy (- dp) cB tB bs = - metric_nonorth_g_12 O Rx Bp hy dp cB tB bs).
  Proof. par. Qed.
  Lemma rc_nonorth_g_13 : (forall Rx Bp hy dp cB tB bs : R, Rx <> 0 -> Bp <> 0 -> hy <> 0 -> cB <> 0 -> metric_nonorth_g_13 O Rx (- Bp) hy (- dp) (- cB) tB (- bs) = metric_nonorth_g_13 O Rx Bp hy dp cB tB bs) \/
                    (forall Rx Bp hy dp cB tB bs : R, Rx <> 0 -> Bp <> 0 -> hy <> 0 -> cB <> 0 -> metric_nonorth_g_13 O Rx (- Bp) hy (- dp) (- cB) tB (- bs) = - metric_nonorth_g_13 O Rx Bp hy dp cB tB bs).
  Proof. par. Qed.
  Lemma rb_nonorth_g_13 : (forall Rx Bp hy dp cB tB bs : R, Rx <> 0 -> Bp <> 0 -> hy <> 0 -> cB <> 0 -> metric_nonorth_g_13 O Rx Bp hy (- dp) cB tB bs = metric_nonorth_g_13 O Rx Bp hy dp cB tB bs) \/
                    (forall Rx Bp hy dp cB tB bs : R, Rx <> 0 -> Bp <> 0 -> hy <> 0 -> cB <> 0 -> metric_nonorth_g_13 O Rx Bp hy (- dp) cB tB bs = - metric_nonorth_g_13 O Rx Bp hy dp cB tB bs).
  Proof. par. Qed.
  Lemma rc_nonorth_g_23 : (forall Rx Bp hy dp cB tB bs : R, Rx <> 0 -> Bp <> 0 -> hy <> 0 -> cB <> 0 -> metric_nonorth_g_23 O Rx (- Bp) hy (- dp) (- cB) tB (- bs) = metric_nonorth_g_23 O Rx Bp hy dp cB tB bs) \/
                    (forall Rx Bp hy dp cB tB bs : R, Rx <> 0 -> Bp <> 0 -> hy <> 0 -> cB <> 0 -> metric_nonorth_g_23 O Rx (- Bp) hy (- dp) (- cB) tB (- bs) = - metric_nonorth_g_23 O Rx Bp hy dp cB tB bs).
  Proof. par. Qed.
  Lemma rb_nonorth_g_23 : (forall Rx Bp hy dp cB tB bs : R, Rx <> 0 -> Bp <> 0 -> hy <> 0 -> cB <> 0 -> metric_nonorth_g_23 O Rx Bp hy (- dp) cB tB bs = metric_nonorth_g_23 O Rx Bp hy dp cB tB bs) \/
                    (forall Rx Bp hy dp cB tB bs : R, Rx <> 0 -> Bp <> 0 -> hy <> 0 -> cB <> 0 -> metric_nonorth_g_23 O Rx Bp hy (- dp) cB tB bs = - metric_nonorth_g_23 O Rx Bp hy dp cB tB bs).
  Proof. par. Qed.
  Lemma dphidy_reversed hy Bt Bp Rx : Bp <> 0 -> Rx <> 0 -> geom2_dphidy O hy Bt (- Bp) Rx = - geom2_dphidy O hy Bt Bp Rx /\ geom2_dphidy O hy (- Bt) Bp Rx = - geom2_dphidy O hy Bt Bp Rx.
  Proof. intros. unfold_metric. split; field; split; assumption. Qed.
End MetricParity.

(* ---- reflection of the region/connection tables.  A connection ((a,i),(b,j)) says: the upper end of radial segment i of region a joins the
   lower end of segment j of region b.  Reflection reverses y inside every region, so it turns the connection round, and renames the regions. *)
Definition conn := list ((nat * nat) * (nat * nat)).
Definition mirror_conn (pi : nat -> nat) (c : conn) : conn := map (fun e => ((pi (fst (snd e)), snd (snd e)), (pi (fst (fst e)), snd (fst e)))) c.
Definition conn_eqb (x y : (nat * nat) * (nat * nat)) : bool := pair_eqb (fst x) (fst y) && pair_eqb (snd x) (snd y).
Definition subset (a b : conn) : bool := forallb (fun x => existsb (conn_eqb x) b) a.
Definition same_conn (a b : conn) : bool := subset a b && subset b a.
(* single null: [inner_lower, core, outer_lower] <-> [outer_upper, core, inner_upper]: region r <-> 2 - r *)
Definition pi_sn (r : nat) : nat := (2 - r)%nat.
(* double null (standard order inner_lower, inner_core, inner_upper, outer_upper, outer_core, outer_lower): lower <-> upper on each side *)
Definition pi_dn (r : nat) : nat := match r with 0 => 2 | 1 => 1 | 2 => 0 | 3 => 5 | 4 => 4 | 5 => 3 | n => n end%nat.

Lemma mirror_sn_tables : same_conn conn_usn (mirror_conn pi_sn conn_lsn) = true.
Proof. vm_compute. reflexivity. Qed.
Lemma mirror_dn_tables : same_conn conn_udn (mirror_conn pi_dn conn_ldn) = true /\ same_conn conn_ldn (mirror_conn pi_dn conn_udn) = true /\
                         same_conn conn_cdn (mirror_conn pi_dn conn_cdn) = true.
Proof. vm_compute. repeat split. Qed.

(* the topology integers of a single null under reflection (legs exchanged, y reversed): the branch cuts are the reflected branch cuts *)
Local Open Scope Z_scope.
Lemma ints_mirror_sn a nx p q r ny dn t t' :
  topo_ints [0; a; nx] [p; q; r] nx ny (p + q + r) dn 1 = Some t -> topo_ints [0; a; nx] [r; q; p] nx ny (p + q + r) dn 1 = Some t' ->
  ixseps1 t' = ixseps1 t /\ ixseps2 t' = ixseps2 t /\ jyseps1_1 t' = (p + q + r) - 2 - jyseps2_2 t /\ jyseps2_2 t' = (p + q + r) - 2 - jyseps1_1 t.
Proof.
  unfold topo_ints. change (Zlength [0; a; nx]) with 3. change (Zlength [p; q; r]) with 3. change (Zlength [r; q; p]) with 3.
  cbn [Z.eqb Pos.eqb nthZ nth sumfirst]. intros E E'. inversion E; inversion E'; subst; cbn [ixseps1 ixseps2 jyseps1_1 jyseps2_2]. lia.
Qed.
