(* C18: each derivative evaluator of DCT_2D is the partial derivative of the __call__ evaluator, term by term and for the
   whole sum over any coefficient list; mixed partials commute.  dct_term_* are REGENERATED (gen/Gen_DCT.v). *)
From Coq Require Import Reals Lra List.
From Coquelicot Require Import Coquelicot.
From HT Require Import Field.
From HG Require Import Gen_DCT.
Import ListNotations.
Local Open Scope R_scope.

Ltac unfold_dct := cbv [dct_term_call dct_term_ddR dct_term_ddZ dct_term_d2dR2 dct_term_d2dZ2 dct_term_d2dRdZ]; unfold_ops.

Section DCT.
  Variables Rmin Rsize nR1 dR Zmin Zsize nZ1 dZ : R.      (* nR1 = nR - 1 *)
  Hypothesis HRs : Rsize <> 0.
  Hypothesis HZs : Zsize <> 0.
  Hypothesis HdR : dR * nR1 = Rsize.                      (* dR = Rarray[1]-Rarray[0] on a uniform grid *)
  Hypothesis HdZ : dZ * nZ1 = Zsize.
  Hypothesis HdRn : dR <> 0.
  Hypothesis HdZn : dZ <> 0.
  Definition iRf (x : R) : R := (x - Rmin) / Rsize * nR1.
  Definition iZf (x : R) : R := (x - Zmin) / Zsize * nZ1.
  Notation O := Rops.

  Lemma nR1_eq : nR1 / Rsize = / dR.
  Proof. assert (N : nR1 <> 0) by (intro E; apply HRs; rewrite <- HdR, E; ring). rewrite <- HdR. field. split; assumption. Qed.
  Lemma nZ1_eq : nZ1 / Zsize = / dZ.
  Proof. assert (N : nZ1 <> 0) by (intro E; apply HZs; rewrite <- HdZ, E; ring). rewrite <- HdZ. field. split; assumption. Qed.

  Ltac closeR := unfold iRf, iZf; auto_derive; [exact I|]; unfold Rdiv; replace (nR1 * / Rsize) with (/ dR) by (rewrite <- nR1_eq; unfold Rdiv; ring); try (field; auto).
  Ltac closeZ := unfold iRf, iZf; auto_derive; [exact I|]; unfold Rdiv; replace (nZ1 * / Zsize) with (/ dZ) by (rewrite <- nZ1_eq; unfold Rdiv; ring); try (field; auto).

  (* one coefficient c with wavenumbers cR, cZ *)
  Lemma term_ddR c cR cZ r z : is_derive (fun x => dct_term_call O c cR cZ (iRf x) (iZf z) dR dZ) r (dct_term_ddR O c cR cZ (iRf r) (iZf z) dR dZ).
  Proof. unfold_dct. unfold iRf, iZf. auto_derive; [exact I|]. pose proof nR1_eq as E. unfold Rdiv, Rminus in *. 
         replace (1 * / Rsize * nR1) with (/ dR) by (rewrite <- E; ring). field. exact HdRn. Qed.
  Lemma term_ddZ c cR cZ r z : is_derive (fun x => dct_term_call O c cR cZ (iRf r) (iZf x) dR dZ) z (dct_term_ddZ O c cR cZ (iRf r) (iZf z) dR dZ).
  Proof. unfold_dct. unfold iRf, iZf. auto_derive; [exact I|]. pose proof nZ1_eq as E. unfold Rdiv, Rminus in *.
         replace (1 * / Zsize * nZ1) with (/ dZ) by (rewrite <- E; ring). field. exact HdZn. Qed.
  Lemma term_d2dR2 c cR cZ r z : is_derive (fun x => dct_term_ddR O c cR cZ (iRf x) (iZf z) dR dZ) r (dct_term_d2dR2 O c cR cZ (iRf r) (iZf z) dR dZ).
  Proof. unfold_dct. unfold iRf, iZf. auto_derive; [exact I|]. pose proof nR1_eq as E. unfold Rdiv, Rminus in *.
         replace (1 * / Rsize * nR1) with (/ dR) by (rewrite <- E; ring). field. exact HdRn. Qed.
  Lemma term_d2dZ2 c cR cZ r z : is_derive (fun x => dct_term_ddZ O c cR cZ (iRf r) (iZf x) dR dZ) z (dct_term_d2dZ2 O c cR cZ (iRf r) (iZf z) dR dZ).
  Proof. unfold_dct. unfold iRf, iZf. auto_derive; [exact I|]. pose proof nZ1_eq as E. unfold Rdiv, Rminus in *.
         replace (1 * / Zsize * nZ1) with (/ dZ) by (rewrite <- E; ring). field. exact HdZn. Qed.
  (* the mixed evaluator is d/dZ of ddR AND d/dR of ddZ: mixed partials commute *)
  Lemma term_d2dRdZ_a c cR cZ r z : is_derive (fun x => dct_term_ddR O c cR cZ (iRf r) (iZf x) dR dZ) z (dct_term_d2dRdZ O c cR cZ (iRf r) (iZf z) dR dZ).
  Proof. unfold_dct. unfold iRf, iZf. auto_derive; [exact I|]. pose proof nZ1_eq as E. unfold Rdiv, Rminus in *.
         replace (1 * / Zsize * nZ1) with (/ dZ) by (rewrite <- E; ring). field. split; assumption. Qed.
  Lemma term_d2dRdZ_b c cR cZ r z : is_derive (fun x => dct_term_ddZ O c cR cZ (iRf x) (iZf z) dR dZ) r (dct_term_d2dRdZ O c cR cZ (iRf r) (iZf z) dR dZ).
  Proof. unfold_dct. unfold iRf, iZf. auto_derive; [exact I|]. pose proof nR1_eq as E. unfold Rdiv, Rminus in *.
         replace (1 * / Rsize * nR1) with (/ dR) by (rewrite <- E; ring). field. split; assumption. Qed.

  (* the evaluators are sums over the coefficient matrix (any size): numpy.sum(psiDCT * ...) *)
  Definition coef := (R * R * R)%type.       (* (c, cR, cZ) *)
  Definition eval (term : R -> R -> R -> R -> R -> R -> R -> R) (cs : list coef) (r z : R) : R :=
    fold_right (fun k acc => let '(c, cR, cZ) := k in term c cR cZ (iRf r) (iZf z) dR dZ + acc) 0 cs.

  Lemma eval_derive_R (f g : R -> R -> R -> R -> R -> R -> R -> R) :
    (forall c cR cZ r z, is_derive (fun x => f c cR cZ (iRf x) (iZf z) dR dZ) r (g c cR cZ (iRf r) (iZf z) dR dZ)) ->
    forall cs r z, is_derive (fun x => eval f cs x z) r (eval g cs r z).
  Proof.
    intros H cs r z. induction cs as [|[[c cR] cZ] t IH]; simpl.
    - apply (is_derive_const 0 r).
    - apply (is_derive_plus (fun x => f c cR cZ (iRf x) (iZf z) dR dZ) (fun x => eval f t x z)); [apply H | exact IH].
  Qed.
  Lemma eval_derive_Z (f g : R -> R -> R -> R -> R -> R -> R -> R) :
    (forall c cR cZ r z, is_derive (fun x => f c cR cZ (iRf r) (iZf x) dR dZ) z (g c cR cZ (iRf r) (iZf z) dR dZ)) ->
    forall cs r z, is_derive (fun x => eval f cs r x) z (eval g cs r z).
  Proof.
    intros H cs r z. induction cs as [|[[c cR] cZ] t IH]; simpl.
    - apply (is_derive_const 0 z).
    - apply (is_derive_plus (fun x => f c cR cZ (iRf r) (iZf x) dR dZ) (fun x => eval f t r x)); [apply H | exact IH].
  Qed.

  Theorem dct_derivs cs r z :
    is_derive (fun x => eval (dct_term_call O) cs x z) r (eval (dct_term_ddR O) cs r z) /\
    is_derive (fun x => eval (dct_term_call O) cs r x) z (eval (dct_term_ddZ O) cs r z) /\
    is_derive (fun x => eval (dct_term_ddR O) cs x z) r (eval (dct_term_d2dR2 O) cs r z) /\
    is_derive (fun x => eval (dct_term_ddZ O) cs r x) z (eval (dct_term_d2dZ2 O) cs r z) /\
    is_derive (fun x => eval (dct_term_ddR O) cs r x) z (eval (dct_term_d2dRdZ O) cs r z) /\
    is_derive (fun x => eval (dct_term_ddZ O) cs x z) r (eval (dct_term_d2dRdZ O) cs r z).
  Proof.
    split; [apply (eval_derive_R _ _ term_ddR)|].
    split; [apply (eval_derive_Z _ _ term_ddZ)|].
    split; [apply (eval_derive_R _ _ term_d2dR2)|].
    split; [apply (eval_derive_Z _ _ term_d2dZ2)|].
    split; [apply (eval_derive_Z _ _ term_d2dRdZ_a) | apply (eval_derive_R _ _ term_d2dRdZ_b)].
  Qed.
End DCT.
