(* Hand model (computable, over Q) of what find_critical does with the candidate points after the Newton refinement, and of the X-point selection
   in TokamakEquilibrium.makeRegions.  Points are (R, Z, psi).  Tied to the code by translate/critical.py's exact-form checks of the loop, thresholds
   and sort keys, and by the correspondence run (the same candidate lists through this model by vm_compute and through the implementation). *)
From Coq Require Import QArith List Bool.
Import ListNotations.
Local Open Scope Q_scope.

Definition pt := (Q * Q * Q)%type.
Definition pR (p : pt) : Q := fst (fst p).
Definition pZ (p : pt) : Q := snd (fst p).
Definition pPsi (p : pt) : Q := snd p.
Definition Qltb (a b : Q) : bool := negb (Qle_bool b a).
Definition sq (x : Q) : Q := x * x.
Definition dist2 (a b : pt) : Q := sq (pR a - pR b) + sq (pZ a - pZ b).

(* remove_dup: keep a point unless one already kept lies within the radius (squared distance < thr); order preserved *)
Definition near (thr : Q) (p q : pt) : bool := Qltb (dist2 p q) thr.
Fixpoint remove_dup_from (thr : Q) (kept : list pt) (l : list pt) : list pt :=
  match l with
  | [] => kept
  | p :: r => if existsb (near thr p) kept then remove_dup_from thr kept r else remove_dup_from thr (kept ++ [p]) r
  end.
Definition remove_dup (thr : Q) (l : list pt) : list pt := remove_dup_from thr [] l.

(* list.sort(key=...): stable insertion sort by a rational key *)
Fixpoint insert_by (key : pt -> Q) (x : pt) (l : list pt) : list pt :=
  match l with
  | [] => [x]
  | y :: r => if Qltb (key x) (key y) then x :: y :: r else y :: insert_by key x r
  end.
Definition sort_by (key : pt -> Q) (l : list pt) : list pt := fold_left (fun acc x => insert_by key x acc) l [].

Definition key_centre (rmid zmid : Q) (p : pt) : Q := sq (pR p - rmid) + sq (pZ p - zmid).
Definition key_psi (psi_axis : Q) (p : pt) : Q := sq (pPsi p - psi_axis).

(* the monotonicity filter on one X-point: pline = psi sampled at 50 points from the primary O-point to the X-point, dists = squared distance of each
   sample from the O-point *)
Fixpoint qmax (l : list Q) (d : Q) : Q := match l with [] => d | x :: r => let m := qmax r x in if Qltb m x then x else m end.
Fixpoint argmin_from (l : list Q) (best : Q) (besti i : nat) : nat :=
  match l with [] => besti | x :: r => if Qltb x best then argmin_from r x i (S i) else argmin_from r best besti (S i) end.
Definition argmin (l : list Q) : nat := match l with [] => 0%nat | x :: r => argmin_from r x 0%nat 1%nat end.
Definition keep_xpoint (pline : list Q) (dists : list Q) (px po : Q) : bool :=
  let pl := if Qltb px po then map Qopp pline else pline in
  let first := hd 0 pl in let lst := last pl 0 in let m := qmax pl first in
  if Qltb (1 # 1000) ((m - lst) / (m - first)) then false
  else if Qltb (1 # 10000) (nth (argmin pl) dists 0) then false else true.

(* find_critical's post-processing as a whole; xs come with their (pline, dists) samples *)
Definition order_opoints (thr rmid zmid : Q) (os : list pt) : list pt := sort_by (key_centre rmid zmid) (remove_dup thr os).
Definition order_xpoints (thr : Q) (psi_axis : Q) (keep : pt -> bool) (xs : list pt) : list pt :=
  sort_by (key_psi psi_axis) (filter keep (remove_dup thr xs)).

(* makeRegions: keep the X-points with psinorm below that of psi_sol which are inside the wall; one -> single null, two -> double null *)
Definition psinorm (axis sep0 psi : Q) : Q := (psi - axis) / (sep0 - axis).
Inductive topology := SingleNull | DoubleNull | Unsupported.
Definition select_xpoints (axis sep0 psi_sol : Q) (inside : pt -> bool) (xs : list pt) : list pt :=
  filter (fun p => Qltb (psinorm axis sep0 (pPsi p)) (psinorm axis sep0 psi_sol) && inside p) xs.
Definition classify (xs : list pt) : topology := match length xs with 1%nat => SingleNull | 2%nat => DoubleNull | _ => Unsupported end.
