(* C12: the part of "a valid grid or an explicit error" that is logic.  GF_* are REGENERATED from doc/grid-file.rst and mesh.py / hypnotoad_geqdsk.py. *)
From Coq Require Import List String Bool Reals Lra Lia.
From HG Require Import Gen_GridFile.
From HT Require Import Proof_Spacing.
Import ListNotations.

Definition mem (s : string) (l : list string) : bool := existsb (String.eqb s) l.

Lemma mem_In s l : mem s l = true <-> In s l.
Proof.
  unfold mem. rewrite existsb_exists. split.
  - intros (x & Hx & E). apply String.eqb_eq in E. subst. exact Hx.
  - intros H. exists s. split; [exact H | apply String.eqb_refl].
Qed.

(* ---- hy > 0 follows from the strict distance guard: every stencil of calcHy is a sum of differences of a strictly increasing distance list *)
Local Open Scope R_scope.
Lemma increasing_lt l : increasing l = true -> forall i j, (i < j)%nat -> (j < List.length l)%nat -> List.nth i l 0 < List.nth j l 0.
Proof.
  intros H i j Hij Hj. induction j as [|j IH]; [lia|].
  destruct (Nat.eq_dec i j) as [->|Hne]; [apply (increasing_spec l H j Hj)|].
  apply Rlt_trans with (List.nth j l 0); [apply IH; lia | apply (increasing_spec l H j Hj)].
Qed.

(* interior cells and faces: d[k+2] - d[k]; faces at a region end without a neighbour: 2 (d[1] - d[0]); with a neighbour: own half cell + the neighbour's *)
Lemma hy_stencils_positive d dn dy : increasing d = true -> increasing dn = true -> 0 < dy -> (2 <= List.length d)%nat -> (2 <= List.length dn)%nat ->
  (forall k, (k + 2 < List.length d)%nat -> 0 < (List.nth (k + 2) d 0 - List.nth k d 0) / dy) /\
  0 < 2 * (List.nth 1 d 0 - List.nth 0 d 0) / dy /\
  0 < (List.nth 1 d 0 - List.nth 0 d 0 + (List.nth (List.length dn - 1) dn 0 - List.nth (List.length dn - 2) dn 0)) / dy.
Proof.
  intros Hd Hn Hy Ld Ln. split; [|split].
  - intros k Hk. apply Rdiv_lt_0_compat; [|exact Hy]. pose proof (increasing_lt d Hd k (k + 2)%nat ltac:(lia) Hk). lra.
  - apply Rdiv_lt_0_compat; [|exact Hy]. pose proof (increasing_lt d Hd 0%nat 1%nat ltac:(lia) ltac:(lia)). lra.
  - apply Rdiv_lt_0_compat; [|exact Hy]. pose proof (increasing_lt d Hd 0%nat 1%nat ltac:(lia) ltac:(lia)).
    pose proof (increasing_lt dn Hn (List.length dn - 2)%nat (List.length dn - 1)%nat ltac:(lia) ltac:(lia)). lra.
Qed.

(* dy = 2 pi / (number of poloidal cells) > 0 *)
Lemma dy_positive n : (0 < n)%nat -> 0 < 2 * PI / INR n.
Proof. intros H. apply Rdiv_lt_0_compat; [generalize PI_RGT_0; lra | apply lt_0_INR; exact H]. Qed.

(* ---- the equilibrium / mesh option consistency check of Mesh.__init__ (hand model): raise iff an option present in both has different values *)
Section Consistency.
  Variable val : Type.
  Variable veq : val -> val -> bool.
  Hypothesis veq_spec : forall a b, veq a b = true <-> a = b.
  Fixpoint lookup (k : string) (o : list (string * val)) : option val :=
    match o with [] => None | (k', v) :: r => if String.eqb k k' then Some v else lookup k r end.
  Definition refused (eqo mesho : list (string * val)) : bool :=
    existsb (fun kv => match lookup (fst kv) mesho with Some v => negb (veq (snd kv) v) | None => false end) eqo.
  Lemma refused_spec eqo mesho : refused eqo mesho = false <-> forall k v, In (k, v) eqo -> forall v', lookup k mesho = Some v' -> v = v'.
  Proof.
    unfold refused. split.
    - intros H k v Hin v' Hl. assert (Hx := proj2 (Bool.not_true_iff_false _) H).
      destruct (veq v v') eqn:E; [apply veq_spec; exact E|]. exfalso. apply Hx. apply existsb_exists. exists (k, v). split; [exact Hin|]. cbn [fst snd]. rewrite Hl, E. reflexivity.
    - intros H. apply Bool.not_true_iff_false. intros Hx. apply existsb_exists in Hx. destruct Hx as ((k, v) & Hin & Hb). cbn [fst snd] in Hb.
      destruct (lookup k mesho) as [v'|] eqn:Hl; [|discriminate]. rewrite (H k v Hin v' Hl) in Hb. rewrite (proj2 (veq_spec v' v') eq_refl) in Hb. discriminate.
  Qed.
End Consistency.
