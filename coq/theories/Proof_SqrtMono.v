(* C10: interior monotonicity of the sqrt spacing form (getSqrtPoloidalDistanceFunc, both end gradients given).
   The main piece (0 <= i <= N) of every case is   2 a_lower sqrt(i/Nn)  +  2 a_upper (sqrt(N/Nn) - sqrt((N-i)/Nn))  +  a CUBIC,
   and that cubic is exactly the "monotonic convex" cubic of getMonotonicPoloidalDistanceFunc for the reduced length and end gradients
       L' = L - 2 (a_lower + a_upper) sqrt(N/Nn),   b_lower' = b_lower - a_upper / sqrt(N/Nn),   b_upper' = b_upper - a_lower / sqrt(N/Nn).
   So the form is strictly increasing on [0, N] whenever a_lower, a_upper >= 0, the reduced gradients are positive and the reduced length is at
   least the trapezoid (b_lower' + b_upper')/2 * N/Nn: an explicit sufficient condition, for every N, Nn, L. *)
From Coq Require Import Reals Lra.
From Coquelicot Require Import Coquelicot.
From HG Require Import Gen_Spacing.
From HT Require Import Proof_Spacing.
Local Open Scope R_scope.

Definition red_L (L N Nn al au : R) : R := L - 2 * al * sqrt (N / Nn) - 2 * au * sqrt (N / Nn).
Definition red_bl (N Nn bl au : R) : R := bl - au / sqrt (N / Nn).
Definition red_bu (N Nn bu al : R) : R := bu - al / sqrt (N / Nn).

Lemma sqrt2_00_is_cubic L N Nn al bl au bu i : 0 < N -> 0 < Nn ->
  S_sqrt2_00_main L N Nn al bl au bu i =
  2 * au * sqrt (N / Nn) + S_mono_convex_main (red_L L N Nn al au) N Nn (red_bl N Nn bl au) (red_bu N Nn bu al) i.
Proof. intros HN HNn. unfold S_sqrt2_00_main, S_mono_convex_main, red_L, red_bl, red_bu. qsub N Nn HN HNn q. field. fin. Qed.

Lemma sqrt2_gen_decomposition L N Nn al bl au bu i : 0 < N -> 0 < Nn ->
  S_sqrt2_gen_main L N Nn al bl au bu i =
  2 * al * sqrt (i / Nn) + 2 * au * (sqrt (N / Nn) - sqrt ((N - i) / Nn))
  + S_mono_convex_main (red_L L N Nn al au) N Nn (red_bl N Nn bl au) (red_bu N Nn bu al) i.
Proof. intros HN HNn. rewrite gen_a0, a0_00, sqrt2_00_is_cubic by assumption. ring. Qed.

(* without sqrt terms the sqrt form IS the monotonic cubic *)
Lemma sqrt2_00_plain L N Nn bl bu i : 0 < N -> 0 < Nn -> S_sqrt2_00_main L N Nn 0 bl 0 bu i = S_mono_convex_main L N Nn bl bu i.
Proof.
  intros HN HNn. rewrite sqrt2_00_is_cubic by assumption. unfold red_L, red_bl, red_bu.
  replace (L - 2 * 0 * sqrt (N / Nn) - 2 * 0 * sqrt (N / Nn)) with L by ring. replace (bl - 0 / sqrt (N / Nn)) with bl by (unfold Rdiv; ring).
  replace (bu - 0 / sqrt (N / Nn)) with bu by (unfold Rdiv; ring). ring.
Qed.

(* the cubic is strictly increasing on [0, N] in the case the monotonic branch is selected for (mean-value theorem on its positive gradient) *)
Lemma convex_increasing L N Nn dl du eps : 0 < N -> 0 < Nn -> 0 < dl -> 0 < du -> 0 <= eps ->
  L >= (du + dl) / 2 * (N / Nn) - eps -> 3 * eps * Nn / (2 * N) < Rmin dl du ->
  forall x y, 0 <= x -> x < y -> y <= N -> S_mono_convex_main L N Nn dl du x < S_mono_convex_main L N Nn dl du y.
Proof.
  intros HN HNn Hl Hu He HL Hs x y H0 Hxy HyN.
  destruct (MVT_gen (fun i => S_mono_convex_main L N Nn dl du i) x y (fun t => sprime L N Nn dl du t / Nn)) as [c [Hc E]].
  - intros t _. apply convex_d; assumption.
  - intros t _. apply derivable_continuous_pt. apply ex_derive_Reals_0. eexists. apply convex_d; assumption.
  - rewrite Rmin_left, Rmax_right in Hc by lra.
    assert (P : 0 < sprime L N Nn dl du c / Nn) by (apply (convex_positive L N Nn dl du HN HNn eps); try assumption; lra).
    cbv beta in E. assert (0 < sprime L N Nn dl du c / Nn * (y - x)) by (apply Rmult_lt_0_compat; lra). lra.
Qed.

Theorem sqrt2_gen_increasing L N Nn al bl au bu eps : 0 < N -> 0 < Nn -> 0 <= al -> 0 <= au ->
  0 < red_bl N Nn bl au -> 0 < red_bu N Nn bu al -> 0 <= eps ->
  red_L L N Nn al au >= (red_bu N Nn bu al + red_bl N Nn bl au) / 2 * (N / Nn) - eps ->
  3 * eps * Nn / (2 * N) < Rmin (red_bl N Nn bl au) (red_bu N Nn bu al) ->
  forall x y, 0 <= x -> x < y -> y <= N -> S_sqrt2_gen_main L N Nn al bl au bu x < S_sqrt2_gen_main L N Nn al bl au bu y.
Proof.
  intros HN HNn Hal Hau Hbl Hbu He HL Hs x y H0 Hxy HyN. rewrite !sqrt2_gen_decomposition by assumption.
  pose proof (convex_increasing _ N Nn _ _ eps HN HNn Hbl Hbu He HL Hs x y H0 Hxy HyN) as C.
  assert (S1 : sqrt (x / Nn) <= sqrt (y / Nn)).
  { apply sqrt_le_1_alt. apply (Rmult_le_reg_r Nn); [lra|]. unfold Rdiv. rewrite !Rmult_assoc, Rinv_l by lra. lra. }
  assert (S2 : sqrt ((N - y) / Nn) <= sqrt ((N - x) / Nn)).
  { apply sqrt_le_1_alt. apply (Rmult_le_reg_r Nn); [lra|]. unfold Rdiv. rewrite !Rmult_assoc, Rinv_l by lra. lra. }
  assert (0 <= al * (sqrt (y / Nn) - sqrt (x / Nn))) by (apply Rmult_le_pos; lra).
  assert (0 <= au * (sqrt ((N - x) / Nn) - sqrt ((N - y) / Nn))) by (apply Rmult_le_pos; lra).
  lra.
Qed.

(* the one-ended and the plain cases are instances *)
Corollary sqrt2_a0_increasing L N Nn bl au bu eps : 0 < N -> 0 < Nn -> 0 <= au ->
  0 < red_bl N Nn bl au -> 0 < bu -> 0 <= eps ->
  red_L L N Nn 0 au >= (bu + red_bl N Nn bl au) / 2 * (N / Nn) - eps -> 3 * eps * Nn / (2 * N) < Rmin (red_bl N Nn bl au) bu ->
  forall x y, 0 <= x -> x < y -> y <= N -> S_sqrt2_a0_main L N Nn 0 bl au bu x < S_sqrt2_a0_main L N Nn 0 bl au bu y.
Proof.
  intros HN HNn Hau Hbl Hbu He HL Hs x y H0 Hxy HyN.
  assert (R : red_bu N Nn bu 0 = bu) by (unfold red_bu, Rdiv; ring).
  assert (G : forall i, S_sqrt2_a0_main L N Nn 0 bl au bu i = S_sqrt2_gen_main L N Nn 0 bl au bu i) by (intros i; rewrite gen_a0; ring).
  rewrite !G. apply (sqrt2_gen_increasing L N Nn 0 bl au bu eps); rewrite ?R; try assumption; lra.
Qed.

Corollary sqrt2_00_increasing L N Nn bl bu eps : 0 < N -> 0 < Nn -> 0 < bl -> 0 < bu -> 0 <= eps ->
  L >= (bu + bl) / 2 * (N / Nn) - eps -> 3 * eps * Nn / (2 * N) < Rmin bl bu ->
  forall x y, 0 <= x -> x < y -> y <= N -> S_sqrt2_00_main L N Nn 0 bl 0 bu x < S_sqrt2_00_main L N Nn 0 bl 0 bu y.
Proof.
  intros HN HNn Hbl Hbu He HL Hs x y H0 Hxy HyN. rewrite !sqrt2_00_plain by assumption. apply (convex_increasing L N Nn bl bu eps); assumption.
Qed.

(* non-vacuity: L = 1, N = Nn = 4 (so sqrt(N/Nn) = 1), a_lower = a_upper = 1/10, b_lower = b_upper = 6/10 *)
Example sqrt2_gen_increasing_instance : forall x y, 0 <= x -> x < y -> y <= 4 ->
  S_sqrt2_gen_main 1 4 4 (1/10) (6/10) (1/10) (6/10) x < S_sqrt2_gen_main 1 4 4 (1/10) (6/10) (1/10) (6/10) y.
Proof.
  assert (Q : sqrt (4 / 4) = 1) by (replace (4 / 4) with 1 by field; apply sqrt_1).
  apply (sqrt2_gen_increasing 1 4 4 (1/10) (6/10) (1/10) (6/10) 0); unfold red_L, red_bl, red_bu; rewrite ?Q; try lra.
  unfold Rmin. destruct (Rle_dec _ _); lra.
Qed.

(* the logarithmic ("concave") monotonic branch is strictly increasing as a function on [0, N], for every l1 > 0 (mean-value theorem on
   concave_positive) *)
Lemma concave_increasing L N Nn dl du l1 : 0 < N -> 0 < Nn -> 0 < dl -> 0 < du -> 0 < l1 ->
  let f := fun i => S_mono_concave_main L N Nn dl du l1 (S_mono_concave_l2 L N Nn dl du l1) (S_mono_concave_l3 L N Nn dl du l1)
                      (S_mono_concave_r2 L N Nn dl du l1) (S_mono_concave_r3 L N Nn dl du l1) i in
  forall x y, 0 <= x -> x < y -> y <= N -> f x < f y.
Proof.
  intros HN HNn Hl Hu H1 f x y H0 Hxy HyN.
  set (df := fun t => (l1 / (t / Nn + S_mono_concave_l2 L N Nn dl du l1) - S_mono_concave_l3 L N Nn dl du l1 +
                       (l1 / (S_mono_concave_r2 L N Nn dl du l1 + N / Nn - t / Nn) - S_mono_concave_r3 L N Nn dl du l1)) / Nn).
  destruct (MVT_gen f x y df) as [c [Hc E]].
  - rewrite Rmin_left, Rmax_right by lra. intros t Ht. apply (concave_d L N Nn dl du l1 HN HNn Hl Hu H1 t). lra.
  - rewrite Rmin_left, Rmax_right by lra. intros t Ht. apply derivable_continuous_pt. apply ex_derive_Reals_0. exists (df t).
    apply (concave_d L N Nn dl du l1 HN HNn Hl Hu H1 t). lra.
  - rewrite Rmin_left, Rmax_right in Hc by lra.
    assert (P : 0 < df c) by (apply (concave_positive L N Nn dl du l1 HN HNn Hl Hu H1 c); lra).
    assert (0 < df c * (y - x)) by (apply Rmult_lt_0_compat; lra). lra.
Qed.

Corollary sqrt2_b0_increasing L N Nn al bl bu eps : 0 < N -> 0 < Nn -> 0 <= al ->
  0 < bl -> 0 < red_bu N Nn bu al -> 0 <= eps ->
  red_L L N Nn al 0 >= (red_bu N Nn bu al + bl) / 2 * (N / Nn) - eps -> 3 * eps * Nn / (2 * N) < Rmin bl (red_bu N Nn bu al) ->
  forall x y, 0 <= x -> x < y -> y <= N -> S_sqrt2_b0_main L N Nn al bl 0 bu x < S_sqrt2_b0_main L N Nn al bl 0 bu y.
Proof.
  intros HN HNn Hal Hbl Hbu He HL Hs x y H0 Hxy HyN.
  assert (R : red_bl N Nn bl 0 = bl) by (unfold red_bl, Rdiv; ring).
  assert (G : forall i, S_sqrt2_b0_main L N Nn al bl 0 bu i = S_sqrt2_gen_main L N Nn al bl 0 bu i) by (intros i; rewrite gen_b0; ring).
  rewrite !G. apply (sqrt2_gen_increasing L N Nn al bl 0 bu eps); rewrite ?R; try assumption; lra.
Qed.

(* The WHOLE function the code returns when there is a wall at the lower end (a_lower = 0): numpy.piecewise(i, [i < 0], [lower_extrap, main]) --
   the exponential continuation into the guard cells glued to the main piece -- is strictly increasing on (-inf, N]; and symmetrically with a
   wall at the upper end (a_upper = 0): piecewise(i, [i > N], [upper_extrap, main]) on [0, +inf). *)
Definition sqrt2_a0_whole (L N Nn bl au bu i : R) : R :=
  if Rlt_dec i 0 then S_sqrt2_a0_lower L N Nn 0 bl au bu i else S_sqrt2_a0_main L N Nn 0 bl au bu i.
Definition sqrt2_b0_whole (L N Nn al bl bu i : R) : R :=
  if Rlt_dec N i then S_sqrt2_b0_upper L N Nn al bl 0 bu i else S_sqrt2_b0_main L N Nn al bl 0 bu i.

Theorem sqrt2_a0_whole_increasing L N Nn bl au bu eps : 0 < N -> 0 < Nn -> 0 <= au ->
  S_sqrt2_a0_lower_B L N Nn 0 bl au bu <> 0 -> 0 < bl ->
  0 < red_bl N Nn bl au -> 0 < bu -> 0 <= eps ->
  red_L L N Nn 0 au >= (bu + red_bl N Nn bl au) / 2 * (N / Nn) - eps -> 3 * eps * Nn / (2 * N) < Rmin (red_bl N Nn bl au) bu ->
  forall x y, x < y -> y <= N -> sqrt2_a0_whole L N Nn bl au bu x < sqrt2_a0_whole L N Nn bl au bu y.
Proof.
  intros HN HNn Hau HB Hb Hbl Hbu He HL Hs x y Hxy HyN. unfold sqrt2_a0_whole.
  pose proof (sqrt2_a0_increasing L N Nn bl au bu eps HN HNn Hau Hbl Hbu He HL Hs) as M.
  pose proof (lower_increasing L N Nn 0 bl au bu HNn HB Hb) as Lo.
  pose proof (lower_value L N Nn 0 bl au bu) as L0. destruct (a0_ends L N Nn bl au bu HN HNn) as [M0 _].
  destruct (Rlt_dec x 0) as [Hx|Hx]; destruct (Rlt_dec y 0) as [Hy|Hy].
  - apply Lo; exact Hxy.
  - pose proof (Lo x 0 Hx) as A. rewrite L0 in A. destruct (Req_dec y 0) as [E|E]; [subst y; lra|].
    pose proof (M 0 y (Rle_refl 0)) as B. rewrite M0 in B. assert (0 < y) by lra. specialize (B H HyN). lra.
  - lra.
  - apply M; lra.
Qed.

Theorem sqrt2_b0_whole_increasing L N Nn al bl bu eps : 0 < N -> 0 < Nn -> 0 <= al ->
  S_sqrt2_b0_upper_B L N Nn al bl 0 bu <> 0 -> 0 < bu ->
  0 < bl -> 0 < red_bu N Nn bu al -> 0 <= eps ->
  red_L L N Nn al 0 >= (red_bu N Nn bu al + bl) / 2 * (N / Nn) - eps -> 3 * eps * Nn / (2 * N) < Rmin bl (red_bu N Nn bu al) ->
  forall x y, 0 <= x -> x < y -> sqrt2_b0_whole L N Nn al bl bu x < sqrt2_b0_whole L N Nn al bl bu y.
Proof.
  intros HN HNn Hal HB Hb Hbl Hbu He HL Hs x y H0 Hxy. unfold sqrt2_b0_whole.
  pose proof (sqrt2_b0_increasing L N Nn al bl bu eps HN HNn Hal Hbl Hbu He HL Hs) as M.
  pose proof (upper_increasing L N Nn al bl 0 bu HNn HB Hb) as Up.
  pose proof (upper_value L N Nn al bl 0 bu) as U0. destruct (b0_ends L N Nn al bl bu HN HNn) as [_ MN].
  destruct (Rlt_dec N x) as [Hx|Hx]; destruct (Rlt_dec N y) as [Hy|Hy].
  - apply Up; exact Hxy.
  - lra.
  - pose proof (Up N y Hy) as A. rewrite U0 in A. destruct (Req_dec x N) as [E|E]; [subst x; lra|].
    assert (Hlt : x < N) by lra. pose proof (M x N H0 Hlt (Rle_refl N)) as B. rewrite MN in B. lra.
  - apply M; lra.
Qed.
