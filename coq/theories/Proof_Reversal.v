(* C16: running sums along a contour under reversal of the y order (the mirror image runs from the other end).
   A generic lemma about accumulated weights, instantiated with the cumulative trapezoid of calcZShift
   (Model_Quadrature.cumtrapz); the instance for the polygon length is Proof_Quadrature.reverse_distance. *)
From Coq Require Import ZArith List Bool Arith Lia Reals Lra.
From HT Require Import Field Model_Quadrature Proof_Quadrature.
Import ListNotations.
Local Open Scope R_scope.

Section Acc.
  Context {A : Type} (w : A -> A -> R).

  Fixpoint acc_from (acc : R) (l : list A) : list R :=
    match l with
    | [] => []
    | p :: t => acc :: match t with [] => [] | q :: _ => acc_from (acc + w p q) t end
    end.

  Lemma acc_from_length acc l : length (acc_from acc l) = length l.
  Proof.
    revert acc. induction l as [|p t IH]; intros acc; [reflexivity|].
    cbn [acc_from length]. destruct t as [|q u]; [reflexivity|]. rewrite IH. reflexivity.
  Qed.

  Lemma acc_from_shift c acc l : acc_from (acc + c) l = map (fun x => x + c) (acc_from acc l).
  Proof.
    revert acc. induction l as [|p t IH]; intros acc; [reflexivity|].
    cbn [acc_from map]. f_equal. destruct t as [|q u]; [reflexivity|].
    replace (acc + c + w p q) with (acc + w p q + c) by ring. apply IH.
  Qed.

  Lemma acc_from_nonempty acc p t : exists D', acc_from acc (p :: t) = acc :: D'.
  Proof. cbn [acc_from]. eexists; reflexivity. Qed.

  Lemma acc_from_snoc l : forall acc q dp, l <> [] ->
    acc_from acc (l ++ [q]) = acc_from acc l ++ [last (acc_from acc l) 0 + w (last l dp) q].
  Proof.
    induction l as [|a t IH]; intros acc q dp Hne; [congruence|].
    destruct t as [|b u].
    - cbn. reflexivity.
    - change ((a :: b :: u) ++ [q]) with (a :: b :: (u ++ [q])).
      change (acc_from acc (a :: b :: u ++ [q])) with (acc :: acc_from (acc + w a b) ((b :: u) ++ [q])).
      rewrite (IH (acc + w a b) q dp) by discriminate.
      change (acc_from acc (a :: b :: u)) with (acc :: acc_from (acc + w a b) (b :: u)).
      destruct (acc_from_nonempty (acc + w a b) b u) as [D' E]. rewrite E.
      change (last (a :: b :: u) dp) with (last (b :: u) dp).
      reflexivity.
  Qed.
End Acc.

(* reversal: if the reflected elements carry the same weight in the opposite order, the running sums of the reversed and reflected
   list are 'total minus the reversed running sums' *)
Theorem acc_from_reverse {A} (w w' : A -> A -> R) (f : A -> A) (d0 : A) :
  (forall p q, w' (f q) (f p) = w p q) ->
  forall l, acc_from w' 0 (map f (rev l)) = map (fun x => last (acc_from w 0 l) 0 - x) (rev (acc_from w 0 l)).
Proof.
  intros Hw. induction l as [|p t IH]; [reflexivity|].
  destruct t as [|q u].
  - cbn. f_equal. ring.
  - cbn [rev] in *. rewrite map_app. cbn [map].
    rewrite (acc_from_snoc w' (map f (rev u ++ [q])) 0 (f p) (f d0)) by (rewrite map_app; destruct (map f (rev u)); discriminate).
    rewrite IH.
    change (acc_from w 0 (p :: q :: u)) with (0 :: acc_from w (0 + w p q) (q :: u)).
    rewrite (acc_from_shift w (w p q) 0 (q :: u)).
    set (D := acc_from w 0 (q :: u)) in *.
    assert (HD : D <> []) by (unfold D; cbn; discriminate).
    assert (Hlast : last (0 :: map (fun x => x + w p q) D) 0 = last D 0 + w p q).
    { destruct D as [|x D']; [congruence|]. change (last (0 :: map (fun x0 => x0 + w p q) (x :: D')) 0) with (last (map (fun x0 => x0 + w p q) (x :: D')) 0).
      clear. revert x. induction D' as [|y r IH]; intros x; [reflexivity|]. cbn [map last] in *. apply IH. }
    rewrite Hlast. cbn [rev]. rewrite (map_app (fun x => last D 0 + w p q - x)). cbn [map].
    f_equal.
    + rewrite <- map_rev, map_map. apply map_ext. intros x. ring.
    + f_equal. rewrite (map_app f). cbn [map]. rewrite last_last.
      destruct (acc_from_nonempty w 0 q u) as [D' E]. fold D in E. rewrite E.
      cbn [rev]. rewrite map_app. cbn [map]. rewrite last_last.
      replace (last (0 :: D') 0) with (last D 0) by (rewrite E; reflexivity).
      rewrite Hw. ring.
Qed.

(* ---- the cumulative trapezoid as an accumulated weight over the list of (distance, integrand) pairs ---- *)
Definition wtrap (p q : R * R) : R := (fst q - fst p) * (snd q + snd p) / 2.

Lemma cumtrapz_acc (l : list (R * R)) : l <> [] -> cumtrapz Rops (map snd l) (map fst l) = acc_from wtrap 0 l.
Proof.
  intros Hne. unfold cumtrapz. rewrite cumsum_from_R. change (qzero Rops) with 0.
  destruct l as [|p t]; [congruence|]. clear Hne. generalize 0 as acc. revert p.
  induction t as [|q u IH]; intros p acc; [reflexivity|].
  cbn [map]. rewrite trapz_terms_cons. cbn [cumsum_from acc_from]. f_equal. cbn [oadd Rops].
  change (acc + (fst q - fst p) * (snd q + snd p) / 2) with (acc + wtrap p q).
  apply (IH q (acc + wtrap p q)).
Qed.

(* zShift_fine (before the shift to startInd) of the contour traversed the other way -- distances measured from the other end,
   x -> X - x with X the total -- is 'total integral minus the reversed integral' *)
Theorem cumtrapz_reverse (l : list (R * R)) X : l <> [] ->
  cumtrapz Rops (map snd (rev l)) (map (fun p => X - fst p) (rev l)) =
  map (fun z => last (cumtrapz Rops (map snd l) (map fst l)) 0 - z) (rev (cumtrapz Rops (map snd l) (map fst l))).
Proof.
  intros Hne. rewrite (cumtrapz_acc l Hne).
  set (f := fun p : R * R => (X - fst p, snd p)).
  replace (map snd (rev l)) with (map snd (map f (rev l))) by (rewrite map_map; apply map_ext; intros [a b]; reflexivity).
  replace (map (fun p => X - fst p) (rev l)) with (map fst (map f (rev l))) by (rewrite map_map; apply map_ext; intros [a b]; reflexivity).
  rewrite cumtrapz_acc by (intros E; apply map_eq_nil in E; apply (f_equal (@rev (R * R))) in E; rewrite rev_involutive in E; cbn in E; congruence).
  apply (acc_from_reverse wtrap wtrap f (0, 0)).
  intros [a b] [c d]. unfold wtrap, f. cbn. field.
Qed.
