(* C11 / C01 hand model of the index bookkeeping of hypnotoad.core.equilibrium.PsiContour: the point list and the two indices startInd / endInd (Python indices: a
   negative one counts from the end) under insert / prepend / append / reverse and the guard-cell extension of temporaryExtend.  Points are identified by integers.
   Definitions only; proofs in Proof_Contour.v; run against the real class by the correspondence check. *)
From Coq Require Import ZArith List Bool.
Import ListNotations.
Local Open Scope Z_scope.

Record contour := mkc { pts : list Z; si : Z; ei : Z }.

Definition len (c : contour) : Z := Z.of_nat (length (pts c)).
(* Python's l[i] *)
Definition pos (n i : Z) : Z := if i <? 0 then n + i else i.
Definition getZ (l : list Z) (i : Z) : option Z := if i <? 0 then None else nth_error l (Z.to_nat i).
Definition start_pt (c : contour) : option Z := getZ (pts c) (pos (len c) (si c)).
Definition end_pt (c : contour) : option Z := getZ (pts c) (pos (len c) (ei c)).

(* list.insert(k, x) for k >= 0: beyond the end it appends *)
Fixpoint insert_at (k : nat) (x : Z) (l : list Z) : list Z :=
  match k, l with
  | O, _ => x :: l
  | S k', h :: t => h :: insert_at k' x t
  | S _, [] => [x]
  end.

(* PsiContour.insert(index, point) *)
Definition insert (index x : Z) (c : contour) : contour :=
  let n := len c in
  let idx := if index <? 0 then (if index + n <? 0 then 0 else index + n) else index in
  let si1 := if idx <=? si c then si c + 1 else si c in
  let ei1 := if idx <=? ei c then ei c + 1 else ei c in
  let ei2 := if (ei1 <? 0) && (n + 1 + ei1 <? idx) then ei1 - 1 else ei1 in
  mkc (insert_at (Z.to_nat idx) x (pts c)) si1 ei2.

(* PsiContour.prepend / append do not touch the indices ... *)
Definition prepend (x : Z) (c : contour) : contour := mkc (x :: pts c) (si c) (ei c).
Definition append (x : Z) (c : contour) : contour := mkc (pts c ++ [x]) (si c) (ei c).
(* ... temporaryExtend does, after each point it adds *)
Definition extend_lower1 (x : Z) (c : contour) : contour :=
  let c1 := prepend x c in
  mkc (pts c1) (if 0 <=? si c1 then si c1 + 1 else si c1) (if 0 <=? ei c1 then ei c1 + 1 else ei c1).
Definition extend_upper1 (x : Z) (c : contour) : contour :=
  let c1 := append x c in
  mkc (pts c1) (si c1) (if ei c1 <? 0 then ei c1 - 1 else ei c1).

(* PsiContour.reverse *)
Definition reverse (c : contour) : contour :=
  let n := len c in mkc (rev (pts c)) (n - 1 - ei c) (n - 1 - si c).

Inductive cop := Insert (index x : Z) | ExtendLower (x : Z) | ExtendUpper (x : Z) | Reverse.
Definition apply_op (c : contour) (o : cop) : contour :=
  match o with Insert i x => insert i x c | ExtendLower x => extend_lower1 x c | ExtendUpper x => extend_upper1 x c | Reverse => reverse c end.
