(* C01 / C04 hand model: (1) the recursion of mesh.followPerpendicular (split when psi0 is strictly inside the range of
   psivals, reverse when the far end is nearer, else one call of the ODE solver with t_eval = psivals);
   (2) the assembly of perp_points_list into contours in MeshRegion.__init__ and the slices of fillRZ.
   The ODE solver is an ORACLE `flow : Q -> P` (the point reached on the grad-psi line through p0 at flux value psi).
   Definitions only. *)
From Coq Require Import QArith Qabs List Bool Arith.
Import ListNotations.
Local Open Scope Q_scope.

Section Follow.
  Variable P : Type.
  Variable flow : Q -> P.          (* solve_ivp along grad(psi)/|grad(psi)|^2 from (p0, psi0), evaluated at a psi value *)

  Definition Qltb (a b : Q) : bool := negb (Qle_bool b a).

  (* min / max of d and all elements of l *)
  Fixpoint qmin (l : list Q) (d : Q) : Q := match l with [] => d | h :: t => let m := qmin t d in if Qle_bool h m then h else m end.
  Fixpoint qmax (l : list Q) (d : Q) : Q := match l with [] => d | h :: t => let m := qmax t d in if Qle_bool m h then h else m end.
  Definition lmin (l : list Q) : Q := match l with [] => 0 | h :: t => qmin t h end.
  Definition lmax (l : list Q) : Q := match l with [] => 0 | h :: t => qmax t h end.

  (* `fuel` bounds the recursion depth (the real recursion is at most 3 deep); out of fuel = None *)
  Fixpoint follow (fuel : nat) (psi0 : Q) (psivals : list Q) : option (list P) :=
    match fuel with
    | O => None
    | S f =>
        match psivals with
        | [] => Some []
        | first :: _ =>
            if Qltb (lmin psivals) psi0 && Qltb psi0 (lmax psivals) then
              let '(lpart, rpart) :=
                if Qltb first psi0
                then (filter (fun p => Qltb p psi0) psivals, filter (fun p => Qle_bool psi0 p) psivals)
                else (filter (fun p => Qle_bool psi0 p) psivals, filter (fun p => Qltb p psi0) psivals) in
              match follow f psi0 (rev lpart), follow f psi0 rpart with
              | Some a, Some b => Some (rev a ++ b)
              | _, _ => None
              end
            else if Qltb (Qabs (last psivals 0 - psi0)) (Qabs (first - psi0)) then
              match follow f psi0 (rev psivals) with Some a => Some (rev a) | None => None end
            else Some (map flow psivals)
        end
    end.
End Follow.

(* ---- assembly: perp_points_list[j] is the list over radial index i (reversed back for regions inside the
        separatrix); contours[i][j] = perp_points_list[j][i] ---- *)
Definition column {A} (dflt : A) (i : nat) (rows : list (list A)) : list A := map (fun r => nth i r dflt) rows.
Definition transpose {A} (dflt : A) (ncols : nat) (rows : list (list A)) : list (list A) :=
  map (fun i => column dflt i rows) (seq 0 ncols).

(* Python slice l[start::2] *)
Fixpoint every_other {A} (l : list A) : list A :=
  match l with
  | a :: _ :: t => a :: every_other t
  | [a] => [a]
  | [] => []
  end.
Definition slice2 {A} (start : nat) (l : list A) : list A := every_other (skipn start l).

(* fillRZ: array = [[p for p in contour[pstart::2]] for contour in contours[cstart::2]] *)
Definition fill {A} (cstart pstart : nat) (contours : list (list A)) : list (list A) :=
  map (slice2 pstart) (slice2 cstart contours).
