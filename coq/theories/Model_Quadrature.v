(* C05 / C06 hand model of the numerical kernels that turn a FineContour into poloidal distance and zShift:
     FineContour.calcDistance   -- cumulative sum of straight segment lengths (numpy.cumsum of sqrt(dR^2 + dZ^2));
     FineContour.reverse        -- the cached distance is updated as distance[-1] - distance[::-1];
     closest_approach           -- distance from a point to a segment (the parameter t0 clipped to [0,1]);
     FineContour.getDistance    -- nearest fine point i1 (numpy.argmin: first minimum), the neighbour i2 on the side whose
                                   segment is closer, r = d2/(d1+d2), r*distance[i1] + (1-r)*distance[i2];
     MeshRegion.calcZShift      -- integrand Bt/(R Bp), scipy's cumulative_trapezoid (d*(y1+y0)/2, cumulative sum, initial 0),
                                   shift to zero at startInd, scipy interp1d(kind="linear") = numpy.interp with bounds_error,
                                   accumulation onto the value handed over by the previous region of the y-group.
   Written over the `ops` record: the PrimFloat instance is run bit for bit against the real methods (correspondence), the R
   instance carries the theorems (Proof_Quadrature.v).  Definitions only. *)
From Coq Require Import ZArith List Bool Arith.
From HT Require Import Field.
Import ListNotations.

Section Quad.
  Context {T : Type} (O : ops T).

  Definition qzero : T := oconst O 0 1.
  Definition qone : T := oconst O 1 1.
  Definition qtwo : T := oconst O 2 1.
  Definition P2 : Type := (T * T)%type.

  Definition sq (x : T) : T := omul O x x.                                     (* numpy: x ** 2 = x * x *)
  Definition dist2 (p q : P2) : T := oadd O (sq (osub O (fst q) (fst p))) (sq (osub O (snd q) (snd p))).
  Definition seglen (p q : P2) : T := osqrt O (dist2 p q).

  (* numpy.cumsum: the first entry is the first element, then a running sum from the left *)
  Fixpoint cumsum_from (acc : T) (l : list T) : list T :=
    match l with [] => [] | x :: t => let a := oadd O acc x in a :: cumsum_from a t end.
  Definition cumsum (l : list T) : list T := match l with [] => [] | x :: t => x :: cumsum_from x t end.

  Fixpoint seglens (pts : list P2) : list T :=
    match pts with
    | p :: ((q :: _) as t) => seglen p q :: seglens t
    | _ => []
    end.

  (* FineContour.calcDistance *)
  Definition calc_distance (pts : list P2) : list T :=
    match pts with [] => [] | _ => qzero :: cumsum (seglens pts) end.

  (* FineContour.reverse's update of the cached distance *)
  Definition rev_distance (d : list T) : list T := map (fun x => osub O (last d qzero) x) (rev d).

  (* ---- closest_approach ---- *)
  Definition vsub (a b : P2) : P2 := (osub O (fst a) (fst b), osub O (snd a) (snd b)).
  Definition dot (u v : P2) : T := oadd O (omul O (fst u) (fst v)) (omul O (snd u) (snd v)).
  Definition norm (v : P2) : T := osqrt O (dot v v).
  Definition closest_approach (p a b : P2) : T :=
    let m := vsub b a in
    let t0 := odiv O (dot m (vsub p a)) (dot m m) in
    if olt O t0 qzero then norm (vsub p a)
    else if olt O qone t0 then norm (vsub p b)
    else norm (vsub p (oadd O (fst a) (omul O t0 (fst m)), oadd O (snd a) (omul O t0 (snd m)))).

  (* numpy.argmin: index of the FIRST minimum *)
  Fixpoint argmin_from (best : nat) (bv : T) (i : nat) (l : list T) : nat :=
    match l with
    | [] => best
    | x :: t => if olt O x bv then argmin_from i x (S i) t else argmin_from best bv (S i) t
    end.
  Definition argmin (l : list T) : nat := match l with [] => 0%nat | x :: t => argmin_from 0 x 1 t end.

  Definition p0 : P2 := (qzero, qzero).

  (* the index of the second point used by getDistance (for at least two fine points) *)
  Definition second_index (pos : list P2) (p : P2) (i1 : nat) : nat :=
    if (length pos <=? i1 + 1)%nat then (i1 - 1)%nat
    else if (i1 =? 0)%nat then 1%nat
    else if olt O (closest_approach p (nth i1 pos p0) (nth (i1 + 1) pos p0))
                  (closest_approach p (nth i1 pos p0) (nth (i1 - 1) pos p0))
         then (i1 + 1)%nat else (i1 - 1)%nat.

  (* FineContour.getDistance *)
  Definition get_distance (pos : list P2) (dist : list T) (p : P2) : T :=
    let dfp := map (fun q => seglen p q) pos in
    let i1 := argmin dfp in
    let d1 := nth i1 dfp qzero in
    let i2 := second_index pos p i1 in
    let d2 := nth i2 dfp qzero in
    let r := odiv O d2 (oadd O d1 d2) in
    oadd O (omul O r (nth i1 dist qzero)) (omul O (osub O qone r) (nth i2 dist qzero)).

  (* ---- calcZShift ---- *)
  (* integrand_func with psi(R,Z) -> A, fpol the identity (stub), Bp_R -> B, Bp_Z -> C:  Bt = fpol/R;  Bt / (R * Bp) *)
  Definition integrand (A R B C : T) : T :=
    odiv O (odiv O A R) (omul O R (osqrt O (oadd O (sq B) (sq C)))).

  (* scipy.integrate.cumulative_trapezoid(y, x=x, initial=0.0) *)
  Fixpoint trapz_terms (y x : list T) : list T :=
    match y, x with
    | y0 :: ((y1 :: _) as yt), x0 :: ((x1 :: _) as xt) =>
        odiv O (omul O (osub O x1 x0) (oadd O y1 y0)) qtwo :: trapz_terms yt xt
    | _, _ => []
    end.
  Definition cumtrapz (y x : list T) : list T := qzero :: cumsum (trapz_terms y x).

  (* numpy.interp on increasing abscissae, with interp1d's bounds_error=True: None = ValueError *)
  Fixpoint find_seg (xp : list T) (x : T) (j : nat) : nat :=
    match xp with
    | _ :: ((b :: _) as t) => if ole O b x then find_seg t x (S j) else j
    | _ => j
    end.
  Definition oeqb (a b : T) : bool := ole O a b && ole O b a.
  Definition interp (xp fp : list T) (x : T) : option T :=
    match xp with
    | [] => None
    | x0 :: _ =>
        if olt O x x0 || olt O (last xp qzero) x then None
        else
          let j := find_seg xp x 0 in
          if (j =? length xp - 1)%nat then Some (nth j fp qzero)
          else if oeqb (nth j xp qzero) x then Some (nth j fp qzero)
          else
            let slope := odiv O (osub O (nth (j + 1) fp qzero) (nth j fp qzero))
                                (osub O (nth (j + 1) xp qzero) (nth j xp qzero)) in
            Some (oadd O (omul O slope (osub O x (nth j xp qzero))) (nth j fp qzero))
    end.

  (* scipy interp1d(kind="linear", fill_value="extrapolate") as FineContour.interpFunction uses it: numpy.searchsorted (side left),
     clipped to [1, n-1], slope * (x - x_lo) + y_lo -- also beyond the ends *)
  Fixpoint searchsorted (xp : list T) (x : T) (i : nat) : nat :=
    match xp with
    | [] => i
    | a :: t => if olt O a x then searchsorted t x (S i) else i
    end.
  Definition interp_extrap (xp fp : list T) (x : T) : T :=
    let hi := Nat.max 1 (Nat.min (searchsorted xp x 0) (length xp - 1)) in
    let lo := (hi - 1)%nat in
    let slope := odiv O (osub O (nth hi fp qzero) (nth lo fp qzero)) (osub O (nth hi xp qzero) (nth lo xp qzero)) in
    oadd O (omul O slope (osub O x (nth lo xp qzero))) (nth lo fp qzero).

  (* FineContour.interpFunction: the point at poloidal distance s from the fine contour's startInd *)
  Definition interp_point (pos : list P2) (dist : list T) (si : nat) (s : T) : P2 :=
    let xs := map (fun d => osub O d (nth si dist qzero)) dist in
    (interp_extrap xs (map fst pos) s, interp_extrap xs (map snd pos) s).

  Fixpoint all_some {A} (l : list (option A)) : option (list A) :=
    match l with
    | [] => Some []
    | Some x :: t => match all_some t with Some r => Some (x :: r) | None => None end
    | None :: _ => None
    end.

  (* zShift_fine shifted to be zero at the fine contour's startInd *)
  Definition zshift_fine (ys fdist : list T) (si : nat) : list T :=
    let zs := cumtrapz ys fdist in
    let z0 := nth si zs qzero in
    map (fun z => osub O z z0) zs.

  (* the guard of PsiContour.get_distance: numpy.all(d[1:] - d[:-1] > 0.0), otherwise ValueError *)
  Fixpoint increasing_guard (d : list T) : bool :=
    match d with
    | a :: ((b :: _) as t) => olt O qzero (osub O b a) && increasing_guard t
    | _ => true
    end.

  (* zShift_contour: the values at the PsiContour's own points (distances cdist), added to the value handed over;
     None = ValueError (distances not increasing, or a point beyond the ends of the fine contour) *)
  Definition zshift_contour (base : T) (ys fdist : list T) (si : nat) (cdist : list T) : option (list T) :=
    if increasing_guard cdist then
      match all_some (map (interp fdist (zshift_fine ys fdist si)) cdist) with
      | Some zc => Some (map (fun z => oadd O base z) zc)
      | None => None
      end
    else None.

  Fixpoint evens {A} (l : list A) : list A :=
    match l with
    | x :: _ :: u => x :: evens u
    | [x] => [x]
    | [] => []
    end.

  (* one contour index followed through the regions of a y-group: the next region starts from the LAST y-face value of
     the previous one (ylow[:, -1] / corners[:, -1] = last entry of zShift_contour[::2]) *)
  Record seg := mkSeg { s_ys : list T; s_fdist : list T; s_si : nat; s_cdist : list T }.
  Fixpoint zshift_chain (base : T) (regions : list seg) : option (list (list T)) :=
    match regions with
    | [] => Some []
    | r :: rest =>
        match zshift_contour base (s_ys r) (s_fdist r) (s_si r) (s_cdist r) with
        | None => None
        | Some vals =>
            match zshift_chain (last (evens vals) base) rest with
            | Some more => Some (vals :: more)
            | None => None
            end
        end
    end.

  (* ShiftAngle of a periodic y-group: last y-face of the last region minus first y-face of the first *)
  Definition shift_angle (vals : list (list T)) : T :=
    osub O (last (evens (last vals [])) qzero) (hd qzero (hd [] vals)).
End Quad.
