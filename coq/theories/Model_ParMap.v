(* C13 hand model of hypnotoad/utils/parallel_map.py: ParallelMap.__call__ with np > 1 as a labelled
   transition system.  Tasks are identified by their index; `outcome i` is what the task function returns or
   raises for argument i (a pure function of the inputs -- that IS the serial semantics).  Worker processes are
   anonymous: only how many are idle matters.  Definitions only. *)
From Coq Require Import List Arith Bool.
Import ListNotations.

Section ParMap.
  Variable R : Type.            (* results *)
  Variable Ex : Type.           (* exceptions *)
  Inductive outc := Ok (r : R) | Err (e : Ex).
  Variable outcome : nat -> outc.      (* task i's outcome: the task function applied to args_list[i] *)
  Variable n : nat.                    (* number of tasks *)

  Inductive mainpc := Waiting | Done.

  Record state := mk {
    tq : list nat;                     (* task_queue, FIFO: indices not yet taken *)
    idle : nat;                        (* live worker processes blocked in task_queue.get() *)
    running : list nat;                (* tasks being executed by some worker *)
    rq : list nat;                     (* result_queue, arrival order: entry i stands for (i, outcome i) *)
    res : list (option outc);          (* `result`, length n *)
    received : list nat;               (* ghost: indices main has taken from result_queue, latest first *)
    pc : mainpc
  }.

  Definition init (np : nat) : state :=
    mk (seq 0 n) np [] [] (repeat None n) [] (if Nat.eqb n 0 then Done else Waiting).

  Fixpoint set_nth {A} (k : nat) (x : A) (l : list A) : list A :=
    match l, k with
    | [], _ => []
    | _ :: t, O => x :: t
    | h :: t, S k' => h :: set_nth k' x t
    end.

  Fixpoint remove_one (i : nat) (l : list nat) : list nat :=
    match l with
    | [] => []
    | h :: t => if Nat.eqb h i then t else h :: remove_one i t
    end.

  Inductive label := Take | Finish (i : nat) | MainGet.

  Definition is_err (o : outc) : bool := match o with Err _ => true | Ok _ => false end.

  (* catch = true : the worker catches the exception, puts (i, error) and keeps serving (repaired code);
     catch = false: the pinned code -- the exception kills the worker process and nothing is put *)
  Definition step (catch : bool) (s : state) (l : label) : option state :=
    match l with
    | Take =>
        match idle s, tq s with
        | S k, i :: t => Some (mk t k (i :: running s) (rq s) (res s) (received s) (pc s))
        | _, _ => None
        end
    | Finish i =>
        if existsb (Nat.eqb i) (running s) then
          if is_err (outcome i) && negb catch
          then Some (mk (tq s) (idle s) (remove_one i (running s)) (rq s) (res s) (received s) (pc s))
          else Some (mk (tq s) (S (idle s)) (remove_one i (running s)) (rq s ++ [i]) (res s) (received s) (pc s))
        else None
    | MainGet =>
        match pc s, rq s with
        | Waiting, i :: t =>
            let rec' := i :: received s in
            Some (mk (tq s) (idle s) (running s) t (set_nth i (Some (outcome i)) (res s)) rec'
                     (if Nat.eqb (length rec') n then Done else Waiting))
        | _, _ => None
        end
    end.

  Fixpoint run (catch : bool) (s : state) (ls : list label) : option state :=
    match ls with
    | [] => Some s
    | l :: t => match step catch s l with Some s' => run catch s' t | None => None end
    end.

  (* what the caller observes once all n results are in: the list, or the exception of the lowest failing index
     (the repaired __call__ receives all n results first, then raises the first error in index order) *)
  Inductive observe := Return (l : list R) | Raise (e : Ex) | Incomplete.

  Fixpoint collect (l : list (option outc)) : observe :=
    match l with
    | [] => Return []
    | None :: _ => Incomplete
    | Some (Err e) :: _ => Raise e
    | Some (Ok r) :: t => match collect t with Return rs => Return (r :: rs) | o => o end
    end.

  (* serial execution: [function(args) for args in args_list] -- first failure in index order, else the list *)
  Definition serial : observe := collect (map (fun i => Some (outcome i)) (seq 0 n)).

  Definition stuck (catch : bool) (s : state) : Prop := forall l, step catch s l = None.

  Definition measure (s : state) : nat := 3 * length (tq s) + 2 * length (running s) + length (rq s).
End ParMap.

Arguments tq {R Ex}. Arguments idle {R Ex}. Arguments running {R Ex}. Arguments rq {R Ex}.
Arguments res {R Ex}. Arguments received {R Ex}. Arguments pc {R Ex}. Arguments mk {R Ex}.
Arguments Ok {R Ex}. Arguments Err {R Ex}.

(* ---- transport of a worker's exception back to the caller.  The result queue serialises with the standard pickle module; an object it cannot
   serialise is dropped by the queue's feeder thread (nothing arrives: for the caller this is the `catch = false` behaviour of the model above).
   _WorkerException replaces an exception that fails its round-trip test `check` by a description (a RuntimeError, always serialisable). *)
Section Transport.
  Variable Ex : Type.
  Variable pickles : Ex -> bool.       (* the queue can carry this exception *)
  Variable check : Ex -> bool.         (* the test _WorkerException.__init__ applies *)
  Variable describe : Ex -> Ex.        (* RuntimeError("Exception in ParallelMap worker: ...") *)
  Definition wrap (e : Ex) : Ex := if check e then e else describe e.
  Definition delivered (e : Ex) : bool := pickles (wrap e).
End Transport.
