(* C01 hand model of the point refinement in hypnotoad.core.equilibrium.PsiContour:
     refinePointNewton   -- the Newton iteration along the tangent line (finite-difference derivative, eps = 1e-10,
                            early exit |f(0)| < atol*|psival|, convergence |f| < atol, divergence / count > 10 raise);
     refinePoint         -- the ordered list of methods, first success wins, SolutionError when all fail;
     getRefined          -- tangents (one-sided at the ends, centred inside), every point refined, skip_endpoints.
   Written over the `ops` record: instantiated with PrimFloat it is run bit-for-bit against the real methods
   (correspondence), instantiated with R it carries the theorems.  `psi` is a parameter (the interpolated flux function);
   the line search (brentq) and the integration (solve_ivp) are parameters too: contracts, not modelled.
   Definitions only; proofs in Proof_Refine.v. *)
From Coq Require Import ZArith List Bool Arith.
From HT Require Import Field.
Import ListNotations.

Section Refine.
  Context {T : Type} (O : ops T).

  Record pt2 := mk2 { pR : T; pZ : T }.
  Definition padd (a b : pt2) : pt2 := mk2 (oadd O (pR a) (pR b)) (oadd O (pZ a) (pZ b)).        (* Point2D.__add__ *)
  Definition psub (a b : pt2) : pt2 := mk2 (osub O (pR a) (pR b)) (osub O (pZ a) (pZ b)).        (* Point2D.__sub__ *)
  Definition pscale (p : pt2) (s : T) : pt2 := mk2 (omul O (pR p) s) (omul O (pZ p) s).          (* Point2D.__rmul__ *)

  Variable psi : T -> T -> T.
  Variable psival : T.

  Definition zero : T := oconst O 0 1.
  Definition eps : T := oconst O 1 10000000000.      (* the literal 1e-10 *)

  (* f(s) = psi at the point p + s * tangent, minus self.psival *)
  Definition fline (p tangent : pt2) (s : T) : T :=
    let q := padd p (pscale tangent s) in osub O (psi (pR q) (pZ q)) psival.

  (* dfds(s) = (f(s + eps) - f(s)) / eps *)
  Definition dfds (f : T -> T) (s : T) : T := odiv O (osub O (f (oadd O s eps)) (f s)) eps.

  Inductive outcome := Done (p : pt2) | Fail.        (* Fail = SolutionError *)

  (* the `while True` loop; `count` is the code's counter, `fuel` bounds the recursion structurally
     (12 suffices: Proof_Refine.newton_fuel_enough) *)
  Fixpoint newton_loop (fuel count : nat) (f : T -> T) (atol s fprev : T) : option T :=
    match fuel with
    | 0%nat => None
    | S k =>
        let s' := osub O s (odiv O fprev (dfds f s)) in
        let fnext := f s' in
        if olt O (oabs O fnext) atol then Some s'
        else if ogt O (oabs O fnext) (oabs O fprev) || (10 <? count)%nat then None
        else newton_loop k (S count) f atol s' fnext
    end.

  Definition newton_fuel : nat := 12.

  Definition refine_newton (p tangent : pt2) (atol : T) : outcome :=
    let f := fline p tangent in
    let fprev := f zero in
    if olt O (oabs O fprev) (omul O atol (oabs O psival)) then Done p
    else match newton_loop newton_fuel 0 f atol zero fprev with
         | Some s => Done (padd p (pscale tangent s))
         | None => Fail
         end.

  (* ---- refinePoint: ordered methods ---- *)
  Inductive method := MNewton | MLine | MIntegrate | MIntegrateNewton | MNone.

  Variable line_search : pt2 -> pt2 -> T -> T -> outcome.     (* refinePointLinesearch: brentq, CONTRACT *)
  Variable integrate : pt2 -> outcome.                        (* refinePointIntegrate: solve_ivp, CONTRACT *)

  Definition run_method (m : method) (p tangent : pt2) (width atol : T) : outcome :=
    match m with
    | MNewton => refine_newton p tangent atol
    | MLine => line_search p tangent width atol
    | MIntegrate => integrate p
    | MIntegrateNewton => match integrate p with Done q => refine_newton q tangent atol | Fail => Fail end
    | MNone => Done p
    end.

  Fixpoint refine_point (methods : list method) (p tangent : pt2) (width atol : T) : outcome :=
    match methods with
    | [] => Fail
    | m :: rest => match run_method m p tangent width atol with
                   | Done q => Done q
                   | Fail => refine_point rest p tangent width atol
                   end
    end.

  (* ---- getRefined ---- *)
  Definition dpt : pt2 := mk2 zero zero.
  Definition tangent_at (pts : list pt2) (i : nat) : pt2 :=
    let n := length pts in
    if (i =? 0)%nat then psub (nth 1 pts dpt) (nth 0 pts dpt)
    else if (i =? n - 1)%nat then psub (nth (n - 1) pts dpt) (nth (n - 2) pts dpt)
    else psub (nth (i + 1) pts dpt) (nth (i - 1) pts dpt).

  Fixpoint all_done (l : list outcome) : option (list pt2) :=
    match l with
    | [] => Some []
    | Done p :: t => match all_done t with Some r => Some (p :: r) | None => None end
    | Fail :: _ => None
    end.

  Fixpoint set_nth {A} (i : nat) (x : A) (l : list A) : list A :=
    match l, i with
    | [], _ => []
    | _ :: t, 0%nat => x :: t
    | h :: t, S j => h :: set_nth j x t
    end.

  (* None = an exception (SolutionError of some point, or IndexError for fewer than two points) *)
  Definition get_refined (methods : list method) (pts : list pt2) (width atol : T)
             (skip_endpoints : bool) (startInd endInd : nat) : option (list pt2) :=
    if (length pts <? 2)%nat then None
    else
      match all_done (map (fun i => refine_point methods (nth i pts dpt) (tangent_at pts i) width atol) (seq 0 (length pts))) with
      | None => None
      | Some r => Some (if skip_endpoints
                        then set_nth endInd (nth endInd pts dpt) (set_nth startInd (nth startInd pts dpt) r)
                        else r)
      end.
End Refine.

Arguments mk2 {T}. Arguments pR {T}. Arguments pZ {T}. Arguments Done {T}. Arguments Fail {T}.
