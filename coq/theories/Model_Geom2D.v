(* C20 hand model (exact rationals) of hypnotoad.core.equilibrium.find_intersections / wallIntersection /
   closest_approach and hypnotoad.utils.polygons.{intersect, area, clockwise}.
   Written to mirror the code's branches (slope classes, end-point sorting, parallel filters, tolerance).
   Definitions only; proofs are in Proof_Geom2D.v.  Tied to the code by the correspondence check. *)
From Coq Require Import QArith Qabs List Bool.
Import ListNotations.
Local Open Scope Q_scope.

Record pt := mkpt { cR : Q; cZ : Q }.

Definition Qltb (a b : Q) : bool := negb (Qle_bool b a).
Definition Qgeb (a b : Q) : bool := Qle_bool b a.
Definition Qeqb (a b : Q) : bool := Qeq_bool a b.

(* |R0-R1| > |Z0-Z1| : class 'a' (more horizontal than vertical), else class 'b' *)
Definition is_a (p q : pt) : bool := Qltb (Qabs (cZ p - cZ q)) (Qabs (cR p - cR q)).

(* numpy.argsort on a pair: ascending, ties keep the original order *)
Definition sortR (p q : pt) : pt * pt := if Qle_bool (cR p) (cR q) then (p, q) else (q, p).
Definition sortZ (p q : pt) : pt * pt := if Qle_bool (cZ p) (cZ q) then (p, q) else (q, p).

Definition par_eps : Q := 1 # 1000000000000000.   (* 1.0e-15 *)

Definition in_range (tol lo hi x : Q) : bool := Qle_bool (lo - tol) x && Qle_bool x (hi + tol).

(* segment more horizontal than vertical (|dR2| > |dZ2|), already sorted in R: s = start, e = end *)
Definition hit_H (tol : Q) (s e : pt) (p q : pt) : option pt :=
  let R2 := cR s in let Z2 := cZ s in
  let dR2 := cR e - cR s in let dZ2 := cZ e - cZ s in
  let sl2 := dZ2 / dR2 in
  if is_a p q then
    let '(p1, q1) := sortR p q in
    let dR1 := cR q1 - cR p1 in let dZ1 := cZ q1 - cZ p1 in
    let sl1 := dZ1 / dR1 in
    if Qle_bool par_eps (Qabs (sl1 - sl2)) then
      let Rc := (Z2 - cZ p1 + sl1 * cR p1 - sl2 * R2) / (sl1 - sl2) in
      if in_range tol (cR p1) (cR q1) Rc && in_range tol R2 (cR e) Rc
      then Some (mkpt Rc (cZ p1 + sl1 * (Rc - cR p1))) else None
    else None
  else
    let '(p1, q1) := sortZ p q in
    let dR1 := cR q1 - cR p1 in let dZ1 := cZ q1 - cZ p1 in
    if Qeqb dZ1 0 then None (* zero-length edge: 0/0 = nan in the implementation, every test false *)
    else
      let t1 := dR1 / dZ1 in
      let Rc := (cR p1 + t1 * (Z2 - sl2 * R2 - cZ p1)) / (1 - t1 * sl2) in
      let Zc := Z2 + sl2 * (Rc - R2) in
      if in_range tol (cZ p1) (cZ q1) Zc && in_range tol R2 (cR e) Rc
      then Some (mkpt Rc Zc) else None.

(* segment more vertical than horizontal (|dR2| <= |dZ2|), already sorted in Z *)
Definition hit_V (tol : Q) (s e : pt) (p q : pt) : option pt :=
  let R2 := cR s in let Z2 := cZ s in
  let dR2 := cR e - cR s in let dZ2 := cZ e - cZ s in
  if Qeqb dZ2 0 then None (* zero-length segment: nan *)
  else
  let t2 := dR2 / dZ2 in
  if is_a p q then
    let '(p1, q1) := sortR p q in
    let dR1 := cR q1 - cR p1 in let dZ1 := cZ q1 - cZ p1 in
    let sl1 := dZ1 / dR1 in
    let Zc := (cZ p1 + sl1 * (R2 - t2 * Z2 - cR p1)) / (1 - dZ1 * dR2 / (dR1 * dZ2)) in
    let Rc := R2 + t2 * (Zc - Z2) in
    if in_range tol (cR p1) (cR q1) Rc && in_range tol Z2 (cZ e) Zc
    then Some (mkpt Rc Zc) else None
  else
    let '(p1, q1) := sortZ p q in
    let dR1 := cR q1 - cR p1 in let dZ1 := cZ q1 - cZ p1 in
    if Qeqb dZ1 0 then None
    else
      let t1 := dR1 / dZ1 in
      if Qle_bool par_eps (Qabs (t2 - t1)) then
        let Zc := (cR p1 - R2 + t2 * Z2 - t1 * cZ p1) / (t2 - t1) in
        if in_range tol (cZ p1) (cZ q1) Zc && in_range tol Z2 (cZ e) Zc
        then Some (mkpt (R2 + t2 * (Zc - Z2)) Zc) else None
      else None.

Definition seg_is_H (s e : pt) : bool := Qltb (Qabs (cZ e - cZ s)) (Qabs (cR e - cR s)).

Definition hit (tol : Q) (s e : pt) (p q : pt) : option pt :=
  if seg_is_H s e then
    let '(s1, e1) := if Qltb (cR e) (cR s) then (e, s) else (s, e) in hit_H tol s1 e1 p q
  else
    let '(s1, e1) := if Qltb (cZ e) (cZ s) then (e, s) else (s, e) in hit_V tol s1 e1 p q.

Fixpoint edges (w : list pt) : list (pt * pt) :=
  match w with
  | p :: ((q :: _) as tl) => (p, q) :: edges tl
  | _ => []
  end.

Definition opt_list {A} (o : option A) : list A := match o with Some x => [x] | None => [] end.

(* the implementation returns the hits on class-a edges first, then those on class-b edges *)
Definition find_intersections (tol : Q) (wall : list pt) (s e : pt) : list pt :=
  let es := edges wall in
  flat_map (fun pq => if is_a (fst pq) (snd pq) then opt_list (hit tol s e (fst pq) (snd pq)) else []) es ++
  flat_map (fun pq => if is_a (fst pq) (snd pq) then [] else opt_list (hit tol s e (fst pq) (snd pq))) es.

Inductive wres := WNone | WPoint (p : pt) | WError.

Definition close_pts (tol : Q) (a b : pt) : bool :=
  Qltb (Qabs (cR a - cR b)) tol && Qltb (Qabs (cZ a - cZ b)) tol.

Definition wallIntersection (tol : Q) (closed_wall : list pt) (s e : pt) : wres :=
  match find_intersections tol closed_wall s e with
  | [] => WNone
  | [a] => WPoint a
  | [a; b] => if close_pts tol a b then WPoint a else WError
  | _ => WError
  end.

(* ---- polygons.area / clockwise ---- *)
Fixpoint area2_from (first : pt) (w : list pt) : Q :=
  match w with
  | [] => 0
  | [p] => (cR first - cR p) * (cZ p + cZ first)
  | p :: ((q :: _) as tl) => (cR q - cR p) * (cZ p + cZ q) + area2_from first tl
  end.
Definition area2 (w : list pt) : Q := match w with [] => 0 | f :: _ => area2_from f w end.   (* = 2 * area *)
Definition area (w : list pt) : Q := (1 # 2) * area2 w.
Definition clockwise (w : list pt) : bool := Qltb 0 (area w).

(* ---- polygons.intersect: proper crossing of two segments as the code tests it ---- *)
Definition det_eps : Q := 1 # 1000000.
Definition seg_cross (p1 p1n p2 p2n : pt) : bool :=
  let a := cR p1n - cR p1 in let b := cR p2n - cR p2 in
  let c := cZ p1n - cZ p1 in let d := cZ p2n - cZ p2 in
  let dr := cR p2n - cR p1 in let dz := cZ p2n - cZ p1 in
  let det := a * d - b * c in
  if Qltb (Qabs det) det_eps then false
  else
    let alpha := (d * dr - b * dz) / det in
    let beta := (a * dz - c * dr) / det in
    Qltb 0 alpha && Qltb alpha 1 && Qltb 0 beta && Qltb beta 1.

Definition closed_edges (w : list pt) : list (pt * pt) :=
  match w with [] => [] | f :: _ => edges (w ++ [f]) end.

(* intersect(r1, z1, r2, z2, closed1, closed2): an open polyline has the edges between consecutive vertices only *)
Definition poly_edges (closed : bool) (w : list pt) : list (pt * pt) := if closed then closed_edges w else edges w.
Definition poly_intersect (c1 c2 : bool) (w1 w2 : list pt) : bool :=
  existsb (fun e1 => existsb (fun e2 => seg_cross (fst e1) (snd e1) (fst e2) (snd e2)) (poly_edges c2 w2)) (poly_edges c1 w1).

Definition poly_intersect_closed (w1 w2 : list pt) : bool :=
  existsb (fun e1 => existsb (fun e2 => seg_cross (fst e1) (snd e1) (fst e2) (snd e2)) (closed_edges w2)) (closed_edges w1).

(* ---- closest_approach (squared distance) ---- *)
Definition dot (u v : pt) : Q := cR u * cR v + cZ u * cZ v.
Definition sub (u v : pt) : pt := mkpt (cR u - cR v) (cZ u - cZ v).
Definition closest2 (p a b : pt) : Q :=
  let m := sub b a in
  let t0 := dot m (sub p a) / dot m m in
  if Qltb t0 0 then dot (sub p a) (sub p a)
  else if Qltb 1 t0 then dot (sub p b) (sub p b)
  else let i := mkpt (cR a + t0 * cR m) (cZ a + t0 * cZ m) in dot (sub p i) (sub p i).
