(* Executable comparison of the exact model with results recorded from the implementation (correspondence for C20).
   Verdicts: 0 agree, 1 DISAGREE, 2 degenerate (model outcome depends on the tolerance: touching / vertex cases). *)
From Coq Require Import QArith Qabs List Bool.
From HT Require Import Model_Geom2D.
Import ListNotations.
Local Open Scope Q_scope.

Definition tol_impl : Q := 1 # 100000000000000.    (* intersect_tolerance = 1.0e-14 *)
Definition tol_hi : Q := 1 # 10000000000000.
Definition cmp_eps : Q := 1 # 1000000000.

Definition qclose (a b : Q) : bool := Qle_bool (Qabs (a - b)) (cmp_eps * (1 + Qabs b)).
Definition ptclose (a b : pt) : bool := qclose (cR a) (cR b) && qclose (cZ a) (cZ b).

Fixpoint listclose (l1 l2 : list pt) : bool :=
  match l1, l2 with
  | [], [] => true
  | a :: t1, b :: t2 => ptclose a b && listclose t1 t2
  | _, _ => false
  end.

Definition verdict_fi (wall : list pt) (s e : pt) (impl : list pt) : nat :=
  let m0 := find_intersections 0 wall s e in
  let mh := find_intersections tol_hi wall s e in
  if negb (Nat.eqb (length m0) (length mh)) then 2%nat
  else if listclose (find_intersections tol_impl wall s e) impl then 0%nat else 1%nat.

(* impl_kind: 0 None, 1 point, 2 exception *)
Definition verdict_wall (wall : list pt) (s e : pt) (impl_kind : nat) (impl_pt : pt) : nat :=
  let m0 := find_intersections 0 wall s e in
  let mh := find_intersections tol_hi wall s e in
  if negb (Nat.eqb (length m0) (length mh)) then 2%nat
  else match wallIntersection tol_impl wall s e, impl_kind with
       | WNone, O => 0%nat
       | WPoint p, S O => if ptclose p impl_pt then 0%nat else 1%nat
       | WError, S (S O) => 0%nat
       | _, _ => 1%nat
       end.

Definition verdict_area (w : list pt) (impl_area : Q) (impl_cw : bool) : nat :=
  if negb (qclose (area w) impl_area) then 1%nat
  else if Qeq_bool (area w) 0 then 2%nat
  else if Bool.eqb (clockwise w) impl_cw then 0%nat else 1%nat.

Definition verdict_poly (w1 w2 : list pt) (impl : bool) : nat :=
  if Bool.eqb (poly_intersect_closed w1 w2) impl then 0%nat else 1%nat.

Definition verdict_poly2 (c1 c2 : bool) (w1 w2 : list pt) (impl : bool) : nat :=
  if Bool.eqb (poly_intersect c1 c2 w1 w2) impl then 0%nat else 1%nat.

Definition verdict_closest (p a b : pt) (impl_sq : Q) : nat :=
  if Qeq_bool (dot (sub b a) (sub b a)) 0 then 2%nat
  else if Qle_bool (Qabs (closest2 p a b - impl_sq)) (cmp_eps * (1 + Qabs impl_sq)) then 0%nat else 1%nat.

Definition count (n : nat) (l : list nat) : nat := length (filter (Nat.eqb n) l).
Fixpoint positions (n : nat) (i : nat) (l : list nat) : list nat :=
  match l with [] => [] | x :: t => (if Nat.eqb x n then [i] else []) ++ positions n (S i) t end.
