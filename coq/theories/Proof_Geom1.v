(* C03: field magnitudes / sign decision of MeshRegion.geometry1, the leg-pressure closures and the profile extrapolation.
   G1_* and T_* are REGENERATED from mesh.py / tokamak.py. *)
From Coq Require Import Reals Lra List.
From Coquelicot Require Import Coquelicot.
From HG Require Import Gen_Geom1 Gen_Fields.
From HT Require Import Model_Profiles.
Import ListNotations.
Local Open Scope R_scope.

Lemma sqrt_sq_sum a b : sqrt (a * a + b * b) * sqrt (a * a + b * b) = a * a + b * b.
Proof. apply sqrt_sqrt. nra. Qed.

Lemma Bp_mag_sq Br Bz : G1_Bp_mag Br Bz * G1_Bp_mag Br Bz = Br * Br + Bz * Bz /\ 0 <= G1_Bp_mag Br Bz.
Proof. unfold G1_Bp_mag. split; [apply sqrt_sq_sum | apply sqrt_pos]. Qed.

Lemma Bp_mag_grad (psiR psiZ : R -> R -> R) r z : r <> 0 ->
  let m := G1_Bp_mag (F_spline_Bp_R psiZ r z) (F_spline_Bp_Z psiR r z) in
  m * m = (psiR r z * psiR r z + psiZ r z * psiZ r z) / (r * r).
Proof.
  intros Hr m. unfold m. destruct (Bp_mag_sq (F_spline_Bp_R psiZ r z) (F_spline_Bp_Z psiR r z)) as [H _]. rewrite H.
  unfold F_spline_Bp_R, F_spline_Bp_Z. field. exact Hr.
Qed.

Lemma bpsign_cases a b : (a > b -> G1_bpsign a b = -1) /\ (a <= b -> G1_bpsign a b = 1).
Proof. unfold G1_bpsign. destruct (Rgt_dec a b); split; intros; lra. Qed.

Lemma decision_sound dot bps s : G1_decision dot bps = Some s ->
  (s = 1 \/ s = -1) /\ 0 <= s * dot /\ (bps = 1 \/ bps = -1 -> s = bps) /\ (dot < 0 -> s = -1) /\ (0 <= dot -> s = 1).
Proof.
  unfold G1_decision. destruct (Rlt_dec dot 0) as [Hd|Hd].
  - destruct (Rgt_dec bps 0) as [Hb|Hb]; [discriminate|]. intros E; inversion E; subst.
    split; [right; reflexivity|]. split; [lra|]. split; [intros [Hx|Hx]; lra|]. split; intros; lra.
  - destruct (Rlt_dec bps 0) as [Hb|Hb]; [discriminate|]. intros E; inversion E; subst.
    split; [left; reflexivity|]. split; [lra|]. split; [intros [Hx|Hx]; lra|]. split; intros; lra.
Qed.

Lemma decision_total dot bps : (bps = 1 \/ bps = -1) ->
  (G1_decision dot bps = None <-> (dot < 0 /\ bps = 1) \/ (0 <= dot /\ bps = -1)).
Proof.
  intros Hb. unfold G1_decision. destruct (Rlt_dec dot 0); [destruct (Rgt_dec bps 0) | destruct (Rlt_dec bps 0)]; split; intros H;
    try discriminate; try reflexivity; try (destruct Hb; subst; lra); try (destruct H as [[? ?]|[? ?]]; destruct Hb; subst; lra).
Qed.

Lemma B_total Bp Bt : G1_B Bp Bt * G1_B Bp Bt = Bp * Bp + Bt * Bt /\ Rabs Bt <= G1_B Bp Bt /\ Rabs Bp <= G1_B Bp Bt.
Proof.
  unfold G1_B. split; [apply sqrt_sq_sum|]. split.
  - rewrite <- (sqrt_Rsqr_abs Bt). apply sqrt_le_1_alt. unfold Rsqr. nra.
  - rewrite <- (sqrt_Rsqr_abs Bp). apply sqrt_le_1_alt. unfold Rsqr. nra.
Qed.

Lemma Bt_def fp r : r <> 0 -> G1_Bt fp r * r = fp.
Proof. intros. unfold G1_Bt. field. assumption. Qed.

(* ---- leg pressure *)
Lemma leg_arg_reflect leg sgn p : sgn = 1 \/ sgn = -1 -> T_leg_arg leg sgn p = reflect_spec leg sgn p.
Proof.
  intros Hs. unfold T_leg_arg, reflect_spec. destruct (Rle_dec 0 (sgn * (p - leg))) as [H|H]; destruct Hs; subst.
  - rewrite Rabs_right; lra.
  - rewrite Rabs_left1; lra.
  - rewrite Rabs_left; lra.
  - rewrite Rabs_right; lra.
Qed.

Lemma closure_early legs i sgn p : sgn = 1 \/ sgn = -1 ->
  closure_arg true legs i sgn p = reflect_spec (nth i legs 0) sgn p.
Proof. intros. unfold closure_arg. apply leg_arg_reflect. assumption. Qed.

(* late binding is right only when the last leg has the psi of leg i *)
Lemma closure_late legs i sgn p : sgn = 1 \/ sgn = -1 -> last legs (nth i legs 0) = nth i legs 0 ->
  closure_arg false legs i sgn p = reflect_spec (nth i legs 0) sgn p.
Proof. intros Hs E. unfold closure_arg. rewrite E. apply leg_arg_reflect. assumption. Qed.

Lemma closure_late_refuted : exists legs i p, closure_arg false legs i 1 p <> reflect_spec (nth i legs 0) 1 p.
Proof.
  exists [0; 1], 0%nat, (1/2). unfold closure_arg, reflect_spec, T_leg_arg. cbn [nth last].
  destruct (Rle_dec 0 (1 * (1 / 2 - 0))); [|lra]. rewrite Rabs_left; lra.
Qed.

(* ---- profile extrapolation *)
Lemma extrap_continuous p0 d psi0 : p0 <> 0 -> T_extrap p0 d psi0 psi0 = p0.
Proof.
  intros H. unfold T_extrap. replace ((psi0 - psi0) * d / p0) with 0 by (field; exact H). rewrite exp_0. ring.
Qed.

Lemma extrap_gradient p0 d psi0 : p0 <> 0 -> is_derive (T_extrap p0 d psi0) psi0 d.
Proof.
  intros H. unfold T_extrap. auto_derive; [exact I|].
  replace ((psi0 + - psi0) * d * / p0) with 0 by (field; exact H). rewrite exp_0. field. exact H.
Qed.

Lemma extrap_sign p0 d psi0 p : 0 < p0 -> 0 < T_extrap p0 d psi0 p.
Proof. intros H. unfold T_extrap. apply Rmult_lt_0_compat; [exact H | apply exp_pos]. Qed.
