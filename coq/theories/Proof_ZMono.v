(* C06: inside the range, interp1d without extrapolation (numpy.interp) and with it (searchsorted form) return the same value;
   zShift at the contour's own points is monotone along the contour for a field of one sign. *)
From Coq Require Import ZArith List Bool Arith Lia Reals Lra.
From HT Require Import Field Model_Quadrature Proof_Quadrature Proof_InterpMono.
Import ListNotations.
Local Open Scope R_scope.

Theorem interp_is_interp_extrap xp fp x : incr xp -> (2 <= length xp)%nat -> nth 0 xp 0 <= x <= last xp 0 ->
  interp Rops xp fp x = Some (interp_extrap Rops xp fp x).
Proof.
  intros Hinc Hn Hr.
  destruct (interp_in_range xp fp x Hinc ltac:(lia) Hr) as [j [v [Hv [Hj [Hle Hcase]]]]].
  rewrite Hv. f_equal.
  destruct (seg_lo_spec xp x Hinc Hn Hr) as [Hlo [H1 H2]].
  rewrite interp_extrap_eq. set (lo := seg_lo xp x) in *.
  pose proof (Hinc lo Hlo) as Hd.
  destruct Hcase as [[Ex ->]|[HSj [[L1 L2] ->]]].
  - (* x is node j: the chord of segment lo passes through it *)
    destruct (Nat.lt_trichotomy j lo) as [L|[E|G]].
    + pose proof (incr_lt xp Hinc j lo ltac:(lia)). lra.
    + rewrite E, Ex, E. field. lra.
    + destruct (Nat.eq_dec j (S lo)) as [E|Hne]; [rewrite E, Ex, E; field; lra|].
      pose proof (incr_lt xp Hinc (S lo) j ltac:(lia)). lra.
  - (* x strictly inside segment j: then lo = j *)
    assert (E : lo = j).
    { destruct (Nat.lt_trichotomy j lo) as [L|[E|G]]; [|symmetry; exact E|].
      - destruct (Nat.eq_dec (S j) lo) as [E|Hne]; [rewrite <- E in H1; lra|]. pose proof (incr_lt xp Hinc (S j) lo ltac:(lia)). lra.
      - destruct (Nat.eq_dec (S lo) j) as [E|Hne]; [rewrite E in H2; lra|]. pose proof (incr_lt xp Hinc (S lo) j ltac:(lia)). lra. }
    rewrite E. reflexivity.
Qed.

(* zShift at two points of the contour, the later one further along: not smaller when Bt/(R Bp) > 0 all along the fine contour *)
Theorem zshift_contour_monotone base ys fdist si s1 s2 v1 v2 :
  length ys = length fdist -> (2 <= length ys)%nat -> incr fdist -> (si < length ys)%nat ->
  (forall k, (k < length ys)%nat -> 0 < nth k ys 0) ->
  nth 0 fdist 0 <= s1 -> s1 < s2 -> s2 <= last fdist 0 ->
  zshift_contour Rops base ys fdist si [s1; s2] = Some [v1; v2] -> v1 <= v2.
Proof.
  intros Hl Hn Hinc Hsi Hpos H0 H12 H1 H.
  unfold zshift_contour in H. destruct (increasing_guard Rops [s1; s2]); [|discriminate].
  cbn [map all_some] in H.
  rewrite !interp_is_interp_extrap in H by (try exact Hinc; try lia; lra).
  injection H as <- <-.
  set (a1 := interp_extrap Rops fdist (zshift_fine Rops ys fdist si) s1). set (a2 := interp_extrap Rops fdist (zshift_fine Rops ys fdist si) s2).
  change (base + a1 <= base + a2).
  assert (Hz : nondecr_nth (zshift_fine Rops ys fdist si)).
  { intros k Hk. unfold zshift_fine in Hk. rewrite map_length in Hk. fold (cz ys fdist) in Hk. rewrite cz_length in Hk by (try exact Hl; lia).
    rewrite !zshift_fine_nth by (try exact Hl; lia).
    pose proof (cz_increasing ys fdist Hl Hpos Hinc k ltac:(lia)). lra. }
  assert (Hlen : length (zshift_fine Rops ys fdist si) = length fdist).
  { unfold zshift_fine. rewrite map_length. fold (cz ys fdist). rewrite cz_length by (try exact Hl; lia). exact Hl. }
  pose proof (interp_extrap_monotone fdist (zshift_fine Rops ys fdist si) s1 s2 Hinc Hz Hlen ltac:(lia) H0 ltac:(lra) H1) as HM. fold a1 a2 in HM. lra.
Qed.
