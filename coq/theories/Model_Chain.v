(* C05 / C06 hand model: (1) Mesh.makeRegions' construction of y_groups (the `for ... break` loop that picks the region a
   chain starts from, then the walk along "upper" connections); (2) the stencils of calcHy on a contour's distance list;
   (3) the hand-over of accumulated values (poloidal_distance, zShift) from region to region along a chain.
   Definitions only. *)
From Coq Require Import List Arith Bool QArith.
From HT Require Import Model_Region.
Import ListNotations.

(* ---------------- y_groups ---------------- *)
Section Groups.
  Variable lower upper : nat -> option nat.      (* connections['lower'], ['upper'] of the region with a given id *)

  Fixpoint index_of (x : nat) (l : list nat) : option nat :=
    match l with [] => None | h :: t => if Nat.eqb h x then Some 0%nat else option_map S (index_of x t) end.
  Fixpoint remove_at (i : nat) (l : list nat) : list nat :=
    match l, i with [], _ => [] | _ :: t, O => t | h :: t, S k => h :: remove_at k t end.

  (* `for i, first_region in enumerate(region_list): if lower is None: break`
     pick_last = true : the pinned code -- when no region has lower None the loop variable is left at the LAST element
     pick_last = false: the repaired code -- start a periodic chain at the FIRST remaining region *)
  Fixpoint first_open (l : list nat) (i : nat) : option nat :=
    match l with [] => None | h :: t => match lower h with None => Some i | Some _ => first_open t (S i) end end.
  Definition start_index (pick_last : bool) (l : list nat) : nat :=
    match first_open l 0 with Some i => i | None => if pick_last then length l - 1 else 0 end.

  (* walk along `upper`, removing each visited region from region_list *)
  Fixpoint walk (fuel : nat) (cur : nat) (i : nat) (group : list nat) (rl : list nat) : list nat * list nat :=
    match fuel with
    | O => (rev group, rl)
    | S f =>
        let group' := cur :: group in
        let rl' := remove_at i rl in
        match upper cur with
        | None => (rev group', rl')
        | Some nxt =>
            if existsb (Nat.eqb nxt) group' then (rev group', rl')
            else match index_of nxt rl' with
                 | Some j => walk f nxt j group' rl'
                 | None => (rev group', rl')     (* unreachable for consistent tables *)
                 end
        end
    end.

  Fixpoint groups (pick_last : bool) (fuel : nat) (rl : list nat) : list (list nat) :=
    match fuel with
    | O => []
    | S f =>
        match rl with
        | [] => []
        | _ =>
            let i := start_index pick_last rl in
            let '(g, rl') := walk (length rl) (nth i rl 0%nat) i [] rl in
            g :: groups pick_last f rl'
        end
    end.
  Definition y_groups (pick_last : bool) (n : nat) : list (list nat) := groups pick_last n (seq 0 n).
End Groups.

(* ---------------- calcHy stencils on a distance list d (one value per contour point, faces at even positions) ---------------- *)
Local Open Scope Q_scope.
Fixpoint zipsub (a b : list Q) : list Q :=
  match a, b with x :: s, y :: t => (x - y) :: zipsub s t | _, _ => [] end.
(* d[2::2] - d[:-2:2]  (zipsub stops at the shorter list, which is d[2::2]) *)
Definition centre_diffs (d : list Q) : list Q := zipsub (every_other (skipn 2 d)) (every_other d).
(* d[3:-1:2] - d[1:-3:2] *)
Definition face_diffs (d : list Q) : list Q := zipsub (every_other (skipn 3 d)) (every_other (skipn 1 d)).

(* ---------------- hand-over along a chain ----------------
   each region contributes a list of per-point values v (distance along its own contours, or its own zShift increments);
   first region: out[k] = v[k] - v[start]; every later region is initialised with the LAST y-face value of the previous one *)
Fixpoint chain_acc (carry : Q) (regions : list (list Q)) : list (list Q) :=
  match regions with
  | [] => []
  | v :: rest => let out := map (fun x => carry + x) v in out :: chain_acc (last out carry) rest
  end.
Definition chain_values (start : nat) (regions : list (list Q)) : list (list Q) :=
  match regions with
  | [] => []
  | v :: _ => chain_acc (- nth start v 0) regions
  end.
