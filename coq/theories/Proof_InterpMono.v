(* C10: linear interpolation of non-decreasing data on increasing abscissae is non-decreasing (the spacing function built on the
   perpendicular distance, s_of_sperp, is monotone inside the range of the perpendicular distance). *)
From Coq Require Import ZArith List Bool Arith Lia Reals Lra.
From HT Require Import Field Model_Quadrature Proof_Quadrature.
Import ListNotations.
Local Open Scope R_scope.

Definition nondecr_nth (fp : list R) : Prop := forall k, (S k < length fp)%nat -> nth k fp 0 <= nth (S k) fp 0.

Lemma nondecr_le fp : nondecr_nth fp -> forall i j, (i <= j < length fp)%nat -> nth i fp 0 <= nth j fp 0.
Proof.
  intros H i j [Hij Hj]. induction Hij as [|j Hij IH]; [lra|].
  assert (nth i fp 0 <= nth j fp 0) by (apply IH; lia). pose proof (H j Hj). lra.
Qed.

(* on its segment the value lies between the two node values *)
Lemma chord_between (x0 x1 f0 f1 x : R) : x0 < x1 -> f0 <= f1 -> x0 <= x <= x1 ->
  f0 <= (f1 - f0) / (x1 - x0) * (x - x0) + f0 <= f1.
Proof.
  intros Hx Hf [H0 H1].
  assert (Ht : 0 <= (x - x0) / (x1 - x0) <= 1).
  { split.
    - apply Rmult_le_pos; [lra|]. left. apply Rinv_0_lt_compat. lra.
    - apply (Rmult_le_reg_r (x1 - x0)); [lra|]. unfold Rdiv. rewrite Rmult_assoc, Rinv_l by lra. lra. }
  replace ((f1 - f0) / (x1 - x0) * (x - x0) + f0) with (f0 + (f1 - f0) * ((x - x0) / (x1 - x0))) by (field; lra).
  split; nra.
Qed.

Theorem interp_extrap_monotone xp fp x y : incr xp -> nondecr_nth fp -> length fp = length xp -> (2 <= length xp)%nat ->
  nth 0 xp 0 <= x -> x <= y -> y <= last xp 0 ->
  interp_extrap Rops xp fp x <= interp_extrap Rops xp fp y.
Proof.
  intros Hinc Hf Hl Hn Hx0 Hxy Hy1.
  destruct (seg_lo_spec xp x Hinc Hn ltac:(lra)) as [Hlx [Hx1 Hx2]].
  destruct (seg_lo_spec xp y Hinc Hn ltac:(lra)) as [Hly [Hy2 Hy3]].
  rewrite !interp_extrap_eq.
  set (a := seg_lo xp x) in *. set (b := seg_lo xp y) in *.
  pose proof (Hinc a Hlx) as Hda. pose proof (Hinc b Hly) as Hdb.
  pose proof (Hf a ltac:(lia)) as Hfa. pose proof (Hf b ltac:(lia)) as Hfb.
  pose proof (chord_between _ _ _ _ x Hda Hfa (conj Hx1 Hx2)) as [Bx0 Bx1].
  pose proof (chord_between _ _ _ _ y Hdb Hfb (conj Hy2 Hy3)) as [By0 By1].
  destruct (Nat.lt_trichotomy a b) as [L|[E|G]].
  - (* different segments: through the node values in between *)
    pose proof (nondecr_le fp Hf (S a) b ltac:(lia)). lra.
  - (* the same segment: the chord has a non-negative slope *)
    rewrite <- E in *.
    assert (Hs : 0 <= (nth (S a) fp 0 - nth a fp 0) / (nth (S a) xp 0 - nth a xp 0)).
    { apply Rmult_le_pos; [lra|]. left. apply Rinv_0_lt_compat. lra. }
    nra.
  - (* x = y is a node seen from its two sides *)
    assert (Hab : nth (S b) xp 0 <= nth a xp 0).
    { destruct (Nat.eq_dec (S b) a) as [->|Hne]; [lra|]. left. apply incr_lt; [exact Hinc|lia]. }
    assert (Exy : x = y) by lra. assert (Ex : x = nth a xp 0) by lra. assert (Ey : y = nth (S b) xp 0) by lra.
    assert (Eab : S b = a).
    { destruct (Nat.eq_dec (S b) a) as [E|Hne]; [exact E|]. pose proof (incr_lt xp Hinc (S b) a ltac:(lia)). lra. }
    rewrite <- Eab in *.
    replace ((nth (S (S b)) fp 0 - nth (S b) fp 0) / (nth (S (S b)) xp 0 - nth (S b) xp 0) * (x - nth (S b) xp 0) + nth (S b) fp 0)
      with (nth (S b) fp 0) by (rewrite Ex; field; lra).
    replace ((nth (S b) fp 0 - nth b fp 0) / (nth (S b) xp 0 - nth b xp 0) * (y - nth b xp 0) + nth b fp 0)
      with (nth (S b) fp 0) by (rewrite Ey; field; lra).
    lra.
Qed.

From HT Require Import Model_Sperp.

(* the spacing function built on the perpendicular distance is non-decreasing wherever the perpendicular distance is strictly increasing *)
Theorem s_of_sperp_monotone (sp dist : list R) si x y : incr sp -> incr dist -> length dist = length sp -> (2 <= length sp)%nat ->
  nth 0 sp 0 <= x -> x <= y -> y <= last sp 0 ->
  s_of_sperp Rops sp dist si x <= s_of_sperp Rops sp dist si y.
Proof.
  intros Hsp Hd Hl Hn H0 Hxy H1. unfold s_of_sperp. change (pzero Rops) with 0. cbn [osub Rops].
  apply interp_extrap_monotone; try assumption.
  - intros k Hk. rewrite map_length in Hk.
    assert (E : forall j, (j < length dist)%nat -> nth j (map (fun d => d - nth si dist 0) dist) 0 = nth j dist 0 - nth si dist 0).
    { intros j Hj. rewrite (nth_indep _ 0 (0 - nth si dist 0)) by (rewrite map_length; exact Hj). apply (map_nth (fun d => d - nth si dist 0)). }
    rewrite (E k) by lia. rewrite (E (S k)) by lia. pose proof (Hd k Hk). lra.
  - rewrite map_length. exact Hl.
Qed.
