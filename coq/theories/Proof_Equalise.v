(* C05 / C12: theorems about the equal-spacing iteration of FineContour (theories/Model_Equalise.v): any arithmetic. *)
From Coq Require Import ZArith List Bool Arith Lia.
From HT Require Import Field Model_Quadrature Model_Stencil Model_Equalise.
Import ListNotations.

Section Generic.
  Context {T : Type} (O : ops T).
  Variable refine : list (T * T) -> list (T * T).
  Variables (atol damping : T) (maxits nfine el si ei : nat).

  Notation round := (round O refine damping nfine el si ei).
  Notation eq_loop := (eq_loop O refine atol damping maxits nfine el si ei).
  Notation equalise := (equalise O refine atol damping maxits nfine el si ei).

  (* ---- the loop never runs out of the structural fuel: the code's own counter stops it after at most maxits rounds ---- *)
  Lemma eq_loop_fuel_general fuel : forall count pos err, (count <= S maxits)%nat -> (S (S maxits) - count <= fuel)%nat ->
    eq_loop fuel count pos err = eq_loop (S (S maxits) - count) count pos err.
  Proof.
    induction fuel as [|k IH]; intros count pos err Hc Hf; [lia|].
    replace (S (S maxits) - count)%nat with (S (S maxits - count)) by lia.
    cbn [Model_Equalise.eq_loop].
    destruct (olt O atol err); [|reflexivity].
    destruct (maxits <? count)%nat eqn:E; [reflexivity|]. apply Nat.ltb_ge in E.
    rewrite IH by lia. replace (S (S maxits) - S count)%nat with (S maxits - count)%nat by lia. reflexivity.
  Qed.

  Theorem equalise_fuel_enough extra pos err : eq_loop (S maxits + extra) 1 pos err = eq_loop (S maxits) 1 pos err.
  Proof. rewrite eq_loop_fuel_general by lia. replace (S (S maxits) - 1)%nat with (S maxits) by lia. reflexivity. Qed.

  (* with enough fuel the flag `true` only ever means that the iteration limit was reached (never that the fuel ran out) *)
  Lemma eq_loop_flag fuel : forall count pos err, (count <= S maxits)%nat -> (S (S maxits) - count <= fuel)%nat ->
    snd (eq_loop fuel count pos err) = true ->
    exists pos' err' c', (maxits < c')%nat /\ olt O atol err' = true /\ fst (eq_loop fuel count pos err) = pos'.
  Proof.
    induction fuel as [|k IH]; intros count pos err Hc Hf Hs; [lia|].
    cbn [Model_Equalise.eq_loop] in *.
    destruct (olt O atol err) eqn:E1; [|cbn in Hs; discriminate].
    destruct (maxits <? count)%nat eqn:E; [apply Nat.ltb_lt in E; exists pos, err, count; repeat split; assumption|].
    apply Nat.ltb_ge in E. apply IH; [lia|lia|exact Hs].
  Qed.

  (* ---- soundness: the iteration stops without a warning only when the spacing passes the tolerance test ---- *)
  Theorem eq_loop_sound fuel : forall count pos,
    snd (eq_loop fuel count pos (ds_error O (calc_distance O pos))) = false ->
    olt O atol (ds_error O (calc_distance O (fst (eq_loop fuel count pos (ds_error O (calc_distance O pos)))))) = false.
  Proof.
    induction fuel as [|k IH]; intros count pos Hs; [cbn in Hs; discriminate|].
    cbn [Model_Equalise.eq_loop] in *.
    destruct (olt O atol (ds_error O (calc_distance O pos))) eqn:E1; [|cbn [fst]; exact E1].
    destruct (maxits <? count)%nat; [cbn in Hs; discriminate|].
    apply IH. exact Hs.
  Qed.

  (* ---- the points at startInd and endInd never move, the number of points never changes ---- *)
  Hypothesis refine_length : forall p, length (refine p) = length p.
  Hypothesis refine_start : forall p d, nth si (refine p) d = nth si p d.
  Hypothesis refine_end : forall p d, nth ei (refine p) d = nth ei p d.

  Lemma set_nth_length {A} (l : list A) : forall i x, length (set_nth i x l) = length l.
  Proof. induction l as [|h t IH]; intros [|i] x; cbn [set_nth length]; try reflexivity. rewrite IH. reflexivity. Qed.

  Lemma set_nth_same {A} (l : list A) : forall i x d, (i < length l)%nat -> nth i (set_nth i x l) d = x.
  Proof. induction l as [|h t IH]; intros [|i] x d Hi; cbn [set_nth nth length] in *; try lia; try reflexivity. apply IH. lia. Qed.

  Lemma set_nth_other {A} (l : list A) : forall i j x d, i <> j -> nth j (set_nth i x l) d = nth j l d.
  Proof.
    induction l as [|h t IH]; intros [|i] [|j] x d Hij; cbn [set_nth nth]; try reflexivity; try congruence.
    apply IH. congruence.
  Qed.

  Lemma zip_mix_length r : forall (a b : list (T * T)), length (zip_mix O r a b) = Nat.min (length a) (length b).
  Proof. induction a as [|x t IH]; intros [|y u]; cbn [zip_mix length Nat.min]; try reflexivity. rewrite IH. reflexivity. Qed.

  Lemma round_keeps count pos d : (si < length pos)%nat -> (ei < length pos)%nat ->
    length (round count pos) = length pos /\ nth si (round count pos) d = nth si pos d /\ nth ei (round count pos) d = nth ei pos d.
  Proof.
    intros Hsi Hei. unfold Model_Equalise.round.
    set (mixed := zip_mix O _ _ pos).
    assert (Hm : length mixed = length pos).
    { unfold mixed. rewrite zip_mix_length, map_length, map_length, seq_length. lia. }
    rewrite refine_length, refine_start, refine_end, !set_nth_length.
    split; [exact Hm|]. split.
    - destruct (Nat.eq_dec ei si) as [E|E].
      + rewrite E. rewrite set_nth_same by (rewrite set_nth_length; lia). rewrite <- E.
        apply nth_indep. exact Hei.
      + rewrite set_nth_other by exact E. rewrite set_nth_same by lia. apply nth_indep. exact Hsi.
    - rewrite set_nth_same by (rewrite set_nth_length; lia). apply nth_indep. exact Hei.
  Qed.

  Theorem eq_loop_keeps_ends fuel : forall count pos err d, (si < length pos)%nat -> (ei < length pos)%nat ->
    length (fst (eq_loop fuel count pos err)) = length pos /\
    nth si (fst (eq_loop fuel count pos err)) d = nth si pos d /\ nth ei (fst (eq_loop fuel count pos err)) d = nth ei pos d.
  Proof.
    induction fuel as [|k IH]; intros count pos err d Hsi Hei; [cbn; auto|].
    cbn [Model_Equalise.eq_loop].
    destruct (olt O atol err); [|cbn; auto].
    destruct (maxits <? count)%nat; [cbn; auto|].
    destruct (round_keeps count pos d Hsi Hei) as [Hl [Hs He]].
    destruct (IH (S count) (round count pos) (ds_error O (calc_distance O (round count pos))) d ltac:(lia) ltac:(lia)) as [Hl' [Hs' He']].
    rewrite Hl', Hs', He'. auto.
  Qed.

  Theorem equalise_keeps_ends pos d : (si < length pos)%nat -> (ei < length pos)%nat ->
    length (fst (equalise pos)) = length pos /\ nth si (fst (equalise pos)) d = nth si pos d /\ nth ei (fst (equalise pos)) d = nth ei pos d.
  Proof.
    intros Hsi Hei. unfold Model_Equalise.equalise.
    destruct (eq_loop_keeps_ends (S maxits) 1 (refine pos) (ds_error O (calc_distance O (refine pos))) d) as [Hl [Hs He]];
      try (rewrite refine_length; assumption).
    rewrite Hl, Hs, He, refine_length, refine_start, refine_end. auto.
  Qed.
End Generic.
