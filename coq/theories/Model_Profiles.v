(* Hand model of the per-leg pressure closures built by TokamakEquilibrium.createRegionObjects.
   Python closures capture VARIABLES, not values: a lambda created in iteration i of the loop that reads `leg_psi`
   sees, when it is called after the loop, the value assigned in the LAST iteration that assigned it ("late binding");
   a default argument `leg_psi=leg_psi` is evaluated when the lambda is created ("early").  Which of the two the source
   uses is REGENERATED (Gen_Geom1.T_leg_early), as is the expression T_leg_arg. *)
From Coq Require Import Reals List.
From HG Require Import Gen_Geom1.
Import ListNotations.
Local Open Scope R_scope.

(* legs: region['psi'] of the leg regions in loop order.  The argument the i-th leg's closure hands to the core profile. *)
Definition closure_arg (early : bool) (legs : list R) (i : nat) (sgn p : R) : R :=
  let own := nth i legs 0 in
  T_leg_arg (if early then own else last legs own) sgn p.

(* the specification: the profile argument is psi itself on the side of the leg's separatrix away from the private region
   and its mirror image 2*leg - psi on the private side.  sgn = sign(psi_sep - psi_axis) = +1 when psi increases outwards. *)
Definition reflect_spec (leg sgn p : R) : R :=
  if Rle_dec 0 (sgn * (p - leg)) then p else 2 * leg - p.
