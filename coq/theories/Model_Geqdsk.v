(* C17 hand model of hypnotoad/geqdsk/_fileutils.py (f2s, ChunkOutput, next_value) and the value layout of
   _geqdsk.write / read.  Text is a list over the character classes the reader's regular expression
   [ +\-]?\d+(?:\.\d+[Ee][\+\-]\d\d)?  distinguishes.  Definitions only. *)
From Coq Require Import List Arith Bool ZArith.
Import ListNotations.

Inductive ch := Dg (d : nat) | Sp | Plus | Minus | Dot | Ee | NL | Other.

(* decimal float as "%1.9E" prints it: optional '-', one digit, '.', nine digits, 'E', sign, two digits.
   lead_space: f2s prepends ' ' when f >= 0.0 (true also for -0.0, which still prints its '-') *)
Record dfloat := mkdf { lead_space : bool; minus : bool; d0 : nat; frac : list nat; eneg : bool; e1 : nat; e2 : nat }.

Inductive value := VFloat (f : dfloat) | VInt (neg : bool) (ds : list nat).

(* syntactic token returned by the regular expression, before float()/int() *)
Inductive tok :=
| TFloat (neg : bool) (ip : list nat) (fp : list nat) (eneg : bool) (e1 e2 : nat)
| TInt (neg : bool) (ds : list nat).

Definition render_float (f : dfloat) : list ch :=
  (if lead_space f then [Sp] else []) ++ (if minus f then [Minus] else []) ++
  [Dg (d0 f); Dot] ++ map Dg (frac f) ++ [Ee; if eneg f then Minus else Plus; Dg (e1 f); Dg (e2 f)].

Definition render_int (neg : bool) (ds : list nat) : list ch :=
  [Sp; Sp; Sp] ++ (if neg then [Minus] else []) ++ map Dg ds.

Definition render (v : value) : list ch :=
  match v with VFloat f => render_float f | VInt n ds => render_int n ds end.

Definition tok_of (v : value) : tok :=
  match v with
  | VFloat f => TFloat (minus f) [d0 f] (frac f) (eneg f) (e1 f) (e2 f)
  | VInt n ds => TInt n ds
  end.

(* ChunkOutput.write for a list of values: a newline after every `chunk`-th value; counter is the state *)
Fixpoint chunk_write (chunk counter : nat) (vs : list value) : list ch * nat :=
  match vs with
  | [] => ([], counter)
  | v :: rest =>
      let c1 := S counter in
      if Nat.eqb c1 chunk
      then let (t, c) := chunk_write chunk 0 rest in (render v ++ [NL] ++ t, c)
      else let (t, c) := chunk_write chunk c1 rest in (render v ++ t, c)
  end.
(* ChunkOutput.newline *)
Definition chunk_newline (counter : nat) : list ch := if Nat.eqb counter 0 then [] else [NL].

(* write_1d / write_2d: values then newline() *)
Definition write_block (vs : list value) : list ch :=
  let (t, c) := chunk_write 5 0 vs in t ++ chunk_newline c.

(* ---------------- next_value: the regular expression, hand-compiled ---------------- *)
Fixpoint take_digits (l : list ch) : list nat * list ch :=
  match l with
  | Dg d :: t => let (ds, r) := take_digits t in (d :: ds, r)
  | _ => ([], l)
  end.

(* (?:\.\d+[Ee][\+\-]\d\d)  tried after the maximal digit run *)
Definition try_exp (l : list ch) : option (list nat * bool * nat * nat * list ch) :=
  match l with
  | Dot :: l1 =>
      match take_digits l1 with
      | ([], _) => None
      | (fp, Ee :: Plus :: Dg a :: Dg b :: r) => Some (fp, false, a, b, r)
      | (fp, Ee :: Minus :: Dg a :: Dg b :: r) => Some (fp, true, a, b, r)
      | _ => None
      end
  | _ => None
  end.

Definition finish (neg : bool) (l : list ch) : tok * list ch :=
  let (ip, r) := take_digits l in
  match try_exp r with
  | Some (fp, en, a, b, r2) => (TFloat neg ip fp en a b, r2)
  | None => (TInt neg ip, r)
  end.

Definition is_digit (c : ch) : bool := match c with Dg _ => true | _ => false end.

(* leftmost match; [ +\-]? is greedy but a sign not followed by a digit cannot start a match *)
Fixpoint scan (fuel : nat) (l : list ch) : list tok :=
  match fuel with
  | O => []
  | S fuel' =>
      match l with
      | [] => []
      | Dg d :: _ => let (t, r) := finish false l in t :: scan fuel' r
      | Sp :: ((Dg _ :: _) as t1) => let (t, r) := finish false t1 in t :: scan fuel' r
      | Plus :: ((Dg _ :: _) as t1) => let (t, r) := finish false t1 in t :: scan fuel' r
      | Minus :: ((Dg _ :: _) as t1) => let (t, r) := finish true t1 in t :: scan fuel' r
      | _ :: t1 => scan fuel' t1
      end
  end.

Definition tokenize (l : list ch) : list tok := scan (S (length l)) l.

(* ---------------- layout of the values in a file (after the header line) ---------------- *)
Record gdata := mkg {
  g_nx : nat; g_ny : nat;
  rdim : dfloat; zdim : dfloat; rcentr : dfloat; rleft : dfloat; zmid : dfloat;
  rmagx : dfloat; zmagx : dfloat; simagx : dfloat; sibdry : dfloat; bcentr : dfloat; cpasma : dfloat;
  fpol : list dfloat; pres : list dfloat; ffprime : list dfloat; pprime : list dfloat;
  psi : list (list dfloat);      (* psi[x][y], x < nx, y < ny *)
  qpsi : list dfloat;
  bdry : list (dfloat * dfloat); lim : list (dfloat * dfloat)
}.

Definition dzero : dfloat := mkdf true false 0 [0;0;0;0;0;0;0;0;0] false 0 0.

(* write_2d: y outer, x inner *)
Definition column (y : nat) (a : list (list dfloat)) : list dfloat := map (fun row => nth y row dzero) a.
Definition fortran_order (ny : nat) (a : list (list dfloat)) : list dfloat := flat_map (fun y => column y a) (seq 0 ny).

Definition pairs_flat (l : list (dfloat * dfloat)) : list dfloat := flat_map (fun p => [fst p; snd p]) l.

Fixpoint nat_digits_aux (fuel n : nat) (acc : list nat) : list nat :=
  match fuel with
  | O => acc
  | S f => if Nat.ltb n 10 then n :: acc else nat_digits_aux f (n / 10) ((n mod 10) :: acc)
  end.
Definition nat_digits (n : nat) : list nat := nat_digits_aux (S n) n [].

(* the sequence of values the writer emits after the header, in order *)
Definition scalar_values (g : gdata) : list dfloat :=
  [rdim g; zdim g; rcentr g; rleft g; zmid g;
   rmagx g; zmagx g; simagx g; sibdry g; bcentr g;
   cpasma g; simagx g; dzero; rmagx g; dzero;
   zmagx g; dzero; sibdry g; dzero; dzero].

(* "{0:5d}{1:5d}\n": right-aligned in a field of five *)
Definition render_count (ds : list nat) : list ch := repeat Sp (5 - length ds) ++ map Dg ds.

Fixpoint chunks5 (l : list dfloat) (fuel : nat) : list (list dfloat) :=
  match fuel, l with
  | S f, a :: b :: c :: d :: e :: t => [a; b; c; d; e] :: chunks5 t f
  | _, _ => []
  end.

Definition float_blocks (g : gdata) : list (list value) :=
  map (map VFloat) (chunks5 (scalar_values g) 4 ++
                    [fpol g; pres g; ffprime g; pprime g; fortran_order (g_ny g) (psi g); qpsi g]).

(* everything _geqdsk.write emits after the header line *)
Definition file_body (g : gdata) : list ch :=
  flat_map write_block (float_blocks g)
  ++ render_count (nat_digits (length (bdry g))) ++ render_count (nat_digits (length (lim g))) ++ [NL]
  ++ write_block (map VFloat (pairs_flat (bdry g))) ++ write_block (map VFloat (pairs_flat (lim g))).

(* the values the reader expects, in reading order *)
Definition expected_tokens (g : gdata) : list tok :=
  map tok_of (concat (float_blocks g))
  ++ [TInt false (nat_digits (length (bdry g))); TInt false (nat_digits (length (lim g)))]
  ++ map (fun f => tok_of (VFloat f)) (pairs_flat (bdry g) ++ pairs_flat (lim g)).
