(* C07 / C18: the field-derivative helpers of Equilibrium are the partial derivatives of the (translated) primitives, div B = 0,
   and calc_curvature's closures are the cylindrical components of curl(B/B^2).  All F_* are REGENERATED (gen/Gen_Fields.v). *)
From Coq Require Import Reals Lra.
From Coquelicot Require Import Coquelicot.
From HG Require Import Gen_Fields.
Local Open Scope R_scope.

Section FieldProofs.
  Variables psi psiR psiZ psiRR psiZZ psiRZ : R -> R -> R.
  Variables fpol fpolprime : R -> R.
  (* CONTRACT of the interpolant (spline: FITPACK dx/dy evaluators; dct: proved separately in Proof_DCT): the evaluators are
     the partial derivatives of ONE function psi *)
  Hypothesis psi_r : forall r z, is_derive (fun x => psi x z) r (psiR r z).
  Hypothesis psi_z : forall r z, is_derive (fun x => psi r x) z (psiZ r z).
  Hypothesis psiR_r : forall r z, is_derive (fun x => psiR x z) r (psiRR r z).
  Hypothesis psiR_z : forall r z, is_derive (fun x => psiR r x) z (psiRZ r z).
  Hypothesis psiZ_r : forall r z, is_derive (fun x => psiZ x z) r (psiRZ r z).
  Hypothesis psiZ_z : forall r z, is_derive (fun x => psiZ r x) z (psiZZ r z).
  Hypothesis fpol_d : forall p, is_derive fpol p (fpolprime p).

  Lemma D1 r z : Derive (fun x => psi x z) r = psiR r z. Proof. apply is_derive_unique, psi_r. Qed.
  Lemma D2 r z : Derive (fun x => psi r x) z = psiZ r z. Proof. apply is_derive_unique, psi_z. Qed.
  Lemma D3 r z : Derive (fun x => psiR x z) r = psiRR r z. Proof. apply is_derive_unique, psiR_r. Qed.
  Lemma D4 r z : Derive (fun x => psiR r x) z = psiRZ r z. Proof. apply is_derive_unique, psiR_z. Qed.
  Lemma D5 r z : Derive (fun x => psiZ x z) r = psiRZ r z. Proof. apply is_derive_unique, psiZ_r. Qed.
  Lemma D6 r z : Derive (fun x => psiZ r x) z = psiZZ r z. Proof. apply is_derive_unique, psiZ_z. Qed.
  Lemma D7 p : Derive fpol p = fpolprime p. Proof. apply is_derive_unique, fpol_d. Qed.
  Lemma E1 r z : ex_derive (fun x => psi x z) r. Proof. eexists; apply psi_r. Qed.
  Lemma E2 r z : ex_derive (fun x => psi r x) z. Proof. eexists; apply psi_z. Qed.
  Lemma E3 r z : ex_derive (fun x => psiR x z) r. Proof. eexists; apply psiR_r. Qed.
  Lemma E4 r z : ex_derive (fun x => psiR r x) z. Proof. eexists; apply psiR_z. Qed.
  Lemma E5 r z : ex_derive (fun x => psiZ x z) r. Proof. eexists; apply psiZ_r. Qed.
  Lemma E6 r z : ex_derive (fun x => psiZ r x) z. Proof. eexists; apply psiZ_z. Qed.
  Lemma E7 p : ex_derive fpol p. Proof. eexists; apply fpol_d. Qed.

  Ltac side := repeat match goal with
    | |- _ /\ _ => split
    | |- True => exact I
    | |- ex_derive (fun x => psi x _) _ => apply E1
    | |- ex_derive (fun x => psi _ x) _ => apply E2
    | |- ex_derive (fun x => psiR x _) _ => apply E3
    | |- ex_derive (fun x => psiR _ x) _ => apply E4
    | |- ex_derive (fun x => psiZ x _) _ => apply E5
    | |- ex_derive (fun x => psiZ _ x) _ => apply E6
    | |- ex_derive (fun x => fpol x) _ => apply E7
    | |- ex_derive fpol _ => apply E7
    | |- _ <> _ => assumption
    end.
  Ltac fin := change (fun x : R => fpol x) with fpol; rewrite ?D1, ?D2, ?D3, ?D4, ?D5, ?D6, ?D7; unfold Rdiv; field; auto.
  Ltac unfoldF := unfold F_spline_psi, F_spline_Bp_R, F_spline_Bp_Z, F_Bzeta, F_B2, F_dBzetadR, F_dBzetadZ, F_dBRdR, F_dBRdZ, F_dBZdR, F_dBZdZ,
                         F_dB2dR, F_dB2dZ, F_dBdR, F_dBdZ, F_curl_bOverB_Rhat, F_curl_bOverB_Zhat, F_curl_bOverB_zetahat, F_spline_f_R, F_spline_f_Z.

  Notation BR := (F_spline_Bp_R psiZ).
  Notation BZ := (F_spline_Bp_Z psiR).
  Notation Bzeta := (F_Bzeta psi fpol).
  Notation B2 := (F_B2 psi psiR psiZ fpol).

  Lemma h_dBRdR r z : r <> 0 -> is_derive (fun x => BR x z) r (F_dBRdR psiZ psiRZ r z).
  Proof. intro. unfoldF. auto_derive; [side | fin]. Qed.
  Lemma h_dBRdZ r z : r <> 0 -> is_derive (fun x => BR r x) z (F_dBRdZ psiZZ r z).
  Proof. intro. unfoldF. auto_derive; [side | fin]. Qed.
  Lemma h_dBZdR r z : r <> 0 -> is_derive (fun x => BZ x z) r (F_dBZdR psiR psiRR r z).
  Proof. intro. unfoldF. auto_derive; [side | fin]. Qed.
  Lemma h_dBZdZ r z : r <> 0 -> is_derive (fun x => BZ r x) z (F_dBZdZ psiRZ r z).
  Proof. intro. unfoldF. auto_derive; [side | fin]. Qed.
  Lemma h_dBzetadR r z : r <> 0 -> is_derive (fun x => Bzeta x z) r (F_dBzetadR psi psiR fpol fpolprime r z).
  Proof. intro. unfoldF. auto_derive; [side | fin]. Qed.
  Lemma h_dBzetadZ r z : r <> 0 -> is_derive (fun x => Bzeta r x) z (F_dBzetadZ psi psiZ fpolprime r z).
  Proof. intro. unfoldF. auto_derive; [side | fin]. Qed.
  Lemma h_dB2dR r z : r <> 0 -> is_derive (fun x => B2 x z) r (F_dB2dR psi psiR psiZ psiRR psiRZ fpol fpolprime r z).
  Proof. intro. unfoldF. auto_derive; [side | fin]. Qed.
  Lemma h_dB2dZ r z : r <> 0 -> is_derive (fun x => B2 r x) z (F_dB2dZ psi psiR psiZ psiZZ psiRZ fpol fpolprime r z).
  Proof. intro. unfoldF. auto_derive; [side | fin]. Qed.

  (* div B = 0 for the axisymmetric poloidal field, whatever psi *)
  Lemma divB r z : r <> 0 -> BR r z / r + F_dBRdR psiZ psiRZ r z + F_dBZdZ psiRZ r z = 0.
  Proof. intro. unfoldF. field. auto. Qed.
  Lemma fRZ r z : psiR r z * psiR r z + psiZ r z * psiZ r z <> 0 ->
    F_spline_f_R psiR psiZ r z * psiR r z + F_spline_f_Z psiR psiZ r z * psiZ r z = 1.
  Proof. intro. unfoldF. field. auto. Qed.

  Lemma B2_pos_ne r z : 0 < B2 r z -> sqrt (B2 r z) <> 0.
  Proof. intros H E. apply sqrt_eq_0 in E; lra. Qed.
  Lemma h_dBdR r z : r <> 0 -> 0 < B2 r z ->
    is_derive (fun x => sqrt (B2 x z)) r (F_dBdR psi psiR psiZ psiRR psiRZ fpol fpolprime r z).
  Proof.
    intros Hr Hp. evar_last.
    - apply (is_derive_comp sqrt (fun x => B2 x z)); [| apply h_dB2dR; exact Hr].
      apply is_derive_Reals. apply derivable_pt_lim_sqrt. exact Hp.
    - unfold scal; simpl; unfold mult; simpl. pose proof (B2_pos_ne r z Hp) as Hs. unfold F_dBdR, F_dB2dR, F_B2 in *. field. split; [exact Hr | exact Hs].
  Qed.
  Lemma h_dBdZ r z : r <> 0 -> 0 < B2 r z ->
    is_derive (fun x => sqrt (B2 r x)) z (F_dBdZ psi psiR psiZ psiZZ psiRZ fpol fpolprime r z).
  Proof.
    intros Hr Hp. evar_last.
    - apply (is_derive_comp sqrt (fun x => B2 r x)); [| apply h_dB2dZ; exact Hr].
      apply is_derive_Reals. apply derivable_pt_lim_sqrt. exact Hp.
    - unfold scal; simpl; unfold mult; simpl. pose proof (B2_pos_ne r z Hp) as Hs. unfold F_dBdZ, F_dB2dZ, F_B2 in *. field. split; [exact Hr | exact Hs].
  Qed.

  (* calc_curvature's closures: cylindrical components of curl(B/B^2) for an axisymmetric field:
       curl_R    = - d/dZ (Bzeta/B^2)
       curl_Z    = (1/R) d/dR (R Bzeta/B^2)
       curl_zeta = d/dZ (B_R/B^2) - d/dR (B_Z/B^2)                                              *)
  Lemma B2_num r z : r <> 0 -> B2 r z <> 0 ->
    psiZ r z * psiZ r z + - psiR r z * - psiR r z + fpol (psi r z) * fpol (psi r z) <> 0.
  Proof.
    intros Hr Hb E. apply Hb. unfold F_B2, F_spline_Bp_R, F_spline_Bp_Z, F_Bzeta.
    replace (psiZ r z / r * (psiZ r z / r) + - psiR r z / r * (- psiR r z / r) + fpol (psi r z) / r * (fpol (psi r z) / r))
      with ((psiZ r z * psiZ r z + - psiR r z * - psiR r z + fpol (psi r z) * fpol (psi r z)) / (r * r)) by (field; exact Hr).
    rewrite E. field. exact Hr.
  Qed.
  Notation cR := (F_curl_bOverB_Rhat psi psiR psiZ psiZZ psiRZ fpol fpolprime).
  Notation cZ := (F_curl_bOverB_Zhat psi psiR psiZ psiRR psiRZ fpol fpolprime).
  Notation cT := (F_curl_bOverB_zetahat psi psiR psiZ psiRR psiZZ psiRZ fpol fpolprime).
  Lemma curl_R r z : r <> 0 -> B2 r z <> 0 -> is_derive (fun x => Bzeta r x / B2 r x) z (- cR r z).
  Proof. intros Hr Hb. unfoldF. pose proof (B2_num r z Hr Hb) as Hn. unfold F_B2, F_spline_Bp_R, F_spline_Bp_Z, F_Bzeta in Hb. auto_derive; [side; try exact Hb | fin; try (split; assumption)]. Qed.
  Lemma curl_Z r z : r <> 0 -> B2 r z <> 0 -> is_derive (fun x => x * Bzeta x z / B2 x z) r (r * cZ r z).
  Proof. intros Hr Hb. unfoldF. pose proof (B2_num r z Hr Hb) as Hn. unfold F_B2, F_spline_Bp_R, F_spline_Bp_Z, F_Bzeta in Hb. auto_derive; [side; try exact Hb | fin; try (split; assumption)]. Qed.
  Lemma curl_zeta r z : r <> 0 -> B2 r z <> 0 ->
    exists a b, is_derive (fun x => BR r x / B2 r x) z a /\ is_derive (fun x => BZ x z / B2 x z) r b /\ cT r z = a - b.
  Proof.
    intros Hr Hb. pose proof (B2_num r z Hr Hb) as Hn. unfold F_B2, F_spline_Bp_R, F_spline_Bp_Z, F_Bzeta in Hb. eexists. eexists. split; [|split].
    - unfoldF. auto_derive; [side; try exact Hb | reflexivity].
    - unfoldF. auto_derive; [side; try exact Hb | reflexivity].
    - unfoldF. fin; try (split; assumption).
  Qed.
End FieldProofs.

(* TokamakEquilibrium.fpol / fpolprime: fpol(psi) = f_spl(psi * s), s = +-1 according to the direction of psi1D *)
Section Profile.
  Variables f_spl fprime_spl : R -> R.
  Hypothesis spl_d : forall x, is_derive f_spl x (fprime_spl x).      (* contract of InterpolatedUnivariateSpline.derivative() *)
  Variable s : R.
  Lemma fpolprime_is_derivative p : is_derive (F_tok_fpol f_spl s) p (F_tok_fpolprime fprime_spl s p).
  Proof.
    unfold F_tok_fpol, F_tok_fpolprime. auto_derive.
    - eexists. apply spl_d.
    - rewrite (is_derive_unique _ _ _ (spl_d _)). ring.
  Qed.
End Profile.
