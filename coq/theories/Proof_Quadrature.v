(* C05 / C06: theorems about the quadrature model (theories/Model_Quadrature.v), real-number instance. *)
From Coq Require Import ZArith List Bool Arith Lia Reals Lra Rgeom.
From HT Require Import Field Model_Quadrature.
Import ListNotations.
Local Open Scope R_scope.

Notation RP2 := (R * R)%type.

Lemma Rltb_iff a b : Rltb a b = true <-> a < b.
Proof. unfold Rltb; destruct (Rlt_dec a b); split; intros; try discriminate; try reflexivity; try assumption; contradiction. Qed.
Lemma Rltb_false a b : Rltb a b = false <-> b <= a.
Proof. unfold Rltb; destruct (Rlt_dec a b); split; intros; try discriminate; try reflexivity; lra. Qed.
Lemma Rleb_iff a b : Rleb a b = true <-> a <= b.
Proof. unfold Rleb; destruct (Rle_dec a b); split; intros; try discriminate; try reflexivity; try assumption; contradiction. Qed.
Lemma Rleb_false a b : Rleb a b = false <-> b < a.
Proof. unfold Rleb; destruct (Rle_dec a b); split; intros; try discriminate; try reflexivity; lra. Qed.

(* ------------------------------------------------------------------------------------------------------------ *)
(* segment lengths                                                                                               *)
Definition len (p q : RP2) : R := seglen Rops p q.

Lemma len_dist_euc p q : len p q = dist_euc (fst q) (snd q) (fst p) (snd p).
Proof. unfold len, seglen, dist2, sq, dist_euc, Rsqr; cbn. reflexivity. Qed.

Lemma len_nonneg p q : 0 <= len p q.
Proof. unfold len, seglen; cbn. apply sqrt_pos. Qed.

Lemma len_sym p q : len p q = len q p.
Proof. unfold len, seglen, dist2, sq; cbn. f_equal. ring. Qed.

Lemma len_triangle p q r : len p r <= len p q + len q r.
Proof.
  rewrite !len_dist_euc.
  pose proof (triangle (fst r) (snd r) (fst p) (snd p) (fst q) (snd q)) as H.
  rewrite (Rplus_comm (dist_euc (fst q) (snd q) (fst p) (snd p))). exact H.
Qed.

Lemma len_zero_iff p q : len p q = 0 <-> p = q.
Proof.
  unfold len, seglen, dist2, sq; cbn. split.
  - intros H.
    pose proof (Rle_0_sqr (fst q - fst p)) as A. pose proof (Rle_0_sqr (snd q - snd p)) as B. unfold Rsqr in A, B.
    apply sqrt_eq_0 in H; [|lra].
    assert (EA : (fst q - fst p) * (fst q - fst p) = 0) by lra. assert (EB : (snd q - snd p) * (snd q - snd p) = 0) by lra.
    apply Rmult_integral in EA. apply Rmult_integral in EB.
    destruct p, q; cbn in *. f_equal; lra.
  - intros ->. replace ((fst q - fst q) * (fst q - fst q) + (snd q - snd q) * (snd q - snd q)) with 0 by ring. apply sqrt_0.
Qed.

Lemma len_pos p q : p <> q -> 0 < len p q.
Proof. intros H. destruct (len_nonneg p q) as [L|E]; [exact L|]. symmetry in E. apply len_zero_iff in E. contradiction. Qed.

(* ------------------------------------------------------------------------------------------------------------ *)
(* calcDistance                                                                                                  *)
Fixpoint dist_from (acc : R) (pts : list RP2) : list R :=
  match pts with
  | [] => []
  | p :: t => acc :: match t with [] => [] | q :: _ => dist_from (acc + len p q) t end
  end.

Lemma cumsum_from_R (l : list R) : cumsum Rops l = cumsum_from Rops 0 l.
Proof. destruct l as [|x t]; cbn; [reflexivity|]. rewrite Rplus_0_l. reflexivity. Qed.

Lemma cumsum_seglens acc (pts : list RP2) : forall p,
  acc :: cumsum_from Rops acc (seglens Rops (p :: pts)) = dist_from acc (p :: pts).
Proof.
  revert acc. induction pts as [|q t IH]; intros acc p; cbn [seglens cumsum_from dist_from]; [reflexivity|].
  f_equal. cbn [oadd Rops]. fold (len p q). apply IH.
Qed.

Lemma calc_distance_eq (pts : list RP2) : calc_distance Rops pts = dist_from 0 pts.
Proof.
  destruct pts as [|p t]; [reflexivity|]. unfold calc_distance.
  rewrite cumsum_from_R. change (qzero Rops) with 0. apply cumsum_seglens.
Qed.

Lemma dist_from_length acc pts : length (dist_from acc pts) = length pts.
Proof.
  revert acc. induction pts as [|p t IH]; intros acc; [reflexivity|].
  cbn [dist_from length]. destruct t as [|q u]; [reflexivity|]. rewrite IH. reflexivity.
Qed.

Lemma dist_from_shift c acc pts : dist_from (acc + c) pts = map (fun x => x + c) (dist_from acc pts).
Proof.
  revert acc. induction pts as [|p t IH]; intros acc; [reflexivity|].
  cbn [dist_from map]. f_equal. destruct t as [|q u]; [reflexivity|].
  replace (acc + c + len p q) with (acc + len p q + c) by ring. apply IH.
Qed.

(* the distance list: first entry, and the increment between consecutive entries is the segment length *)
Lemma dist_from_head acc pts d : pts <> [] -> nth 0 (dist_from acc pts) d = acc.
Proof. destruct pts; [congruence|]. reflexivity. Qed.

Lemma dist_from_step pts : forall acc k d dp, (S k < length pts)%nat ->
  nth (S k) (dist_from acc pts) d - nth k (dist_from acc pts) d = len (nth k pts dp) (nth (S k) pts dp).
Proof.
  induction pts as [|p t IH]; intros acc k d dp Hk; [cbn in Hk; lia|].
  destruct t as [|q u]; [cbn in Hk; lia|].
  destruct k as [|k].
  - cbn [dist_from nth]. ring.
  - change (dist_from acc (p :: q :: u)) with (acc :: dist_from (acc + len p q) (q :: u)).
    cbn [nth]. apply IH. cbn in Hk |- *. lia.
Qed.

Lemma dist_from_mono pts acc d : forall i j, (i <= j < length pts)%nat ->
  nth i (dist_from acc pts) d <= nth j (dist_from acc pts) d.
Proof.
  intros i j [Hij Hj]. induction Hij as [|j Hij IH]; [lra|].
  pose proof (dist_from_step pts acc j d (0, 0) Hj) as HS. pose proof (len_nonneg (nth j pts (0,0)) (nth (S j) pts (0,0))).
  assert (nth i (dist_from acc pts) d <= nth j (dist_from acc pts) d) by (apply IH; lia). lra.
Qed.

(* the polygon is at least as long as the chord between any two of its points *)
Lemma dist_from_chord pts acc d dp : forall i j, (i <= j < length pts)%nat ->
  len (nth i pts dp) (nth j pts dp) <= nth j (dist_from acc pts) d - nth i (dist_from acc pts) d.
Proof.
  intros i j [Hij Hj]. induction Hij as [|j Hij IH].
  - replace (len (nth i pts dp) (nth i pts dp)) with 0; [lra|]. symmetry. apply len_zero_iff. reflexivity.
  - pose proof (dist_from_step pts acc j d dp Hj) as HS.
    pose proof (len_triangle (nth i pts dp) (nth j pts dp) (nth (S j) pts dp)).
    assert (len (nth i pts dp) (nth j pts dp) <= nth j (dist_from acc pts) d - nth i (dist_from acc pts) d) by (apply IH; lia).
    lra.
Qed.

(* strictly increasing exactly when no two consecutive points coincide *)
Lemma dist_from_strict pts acc d dp : (forall k, (S k < length pts)%nat -> nth k pts dp <> nth (S k) pts dp) ->
  forall i j, (i < j < length pts)%nat -> nth i (dist_from acc pts) d < nth j (dist_from acc pts) d.
Proof.
  intros Hd i j [Hij Hj].
  assert (nth i (dist_from acc pts) d <= nth (j - 1) (dist_from acc pts) d) by (apply dist_from_mono; lia).
  pose proof (dist_from_step pts acc (j - 1) d dp) as HS. replace (S (j - 1)) with j in HS by lia.
  specialize (HS Hj). pose proof (len_pos _ _ (Hd (j - 1)%nat ltac:(replace (S (j - 1)) with j by lia; exact Hj))) as P.
  replace (S (j - 1)) with j in P by lia. lra.
Qed.

(* points on a straight line, in order: the distance is exactly the parameter difference (true arc length) *)
Lemma len_on_line a u s t : fst u * fst u + snd u * snd u = 1 -> s <= t ->
  len (fst a + s * fst u, snd a + s * snd u) (fst a + t * fst u, snd a + t * snd u) = t - s.
Proof.
  intros Hu Hst. unfold len, seglen, dist2, sq; cbn.
  replace ((fst a + t * fst u - (fst a + s * fst u)) * (fst a + t * fst u - (fst a + s * fst u)) +
           (snd a + t * snd u - (snd a + s * snd u)) * (snd a + t * snd u - (snd a + s * snd u)))
    with ((t - s) * (t - s) * (fst u * fst u + snd u * snd u)) by ring.
  rewrite Hu, Rmult_1_r. apply sqrt_square. lra.
Qed.

Lemma dist_from_straight a u : fst u * fst u + snd u * snd u = 1 -> forall ts acc,
  (forall k, (S k < length ts)%nat -> nth k ts 0 <= nth (S k) ts 0) ->
  dist_from acc (map (fun t => (fst a + t * fst u, snd a + t * snd u)) ts) = map (fun t => acc + (t - hd 0 ts)) ts.
Proof.
  intros Hu ts. induction ts as [|t0 r IH]; intros acc Hs; [reflexivity|].
  cbn [map dist_from hd]. f_equal; [ring|].
  destruct r as [|t1 r']; [reflexivity|].
  change (map (fun t => (fst a + t * fst u, snd a + t * snd u)) (t1 :: r')) with
    ((fst a + t1 * fst u, snd a + t1 * snd u) :: map (fun t => (fst a + t * fst u, snd a + t * snd u)) r').
  cbv iota beta.
  assert (H01 : t0 <= t1) by (apply (Hs 0%nat); cbn; lia).
  rewrite (len_on_line a u t0 t1 Hu H01).
  change ((fst a + t1 * fst u, snd a + t1 * snd u) :: map (fun t => (fst a + t * fst u, snd a + t * snd u)) r')
    with (map (fun t => (fst a + t * fst u, snd a + t * snd u)) (t1 :: r')).
  rewrite IH.
  - cbn [hd]. apply map_ext. intros t. ring.
  - intros k Hk. apply (Hs (S k)). cbn in Hk |- *. lia.
Qed.

(* FineContour.reverse: the update of the cached distance equals recomputing it on the reversed points *)
Lemma dist_from_nonempty acc p t : exists D', dist_from acc (p :: t) = acc :: D'.
Proof. cbn [dist_from]. eexists; reflexivity. Qed.

Lemma dist_from_snoc l : forall acc q dp, l <> [] ->
  dist_from acc (l ++ [q]) = dist_from acc l ++ [last (dist_from acc l) 0 + len (last l dp) q].
Proof.
  induction l as [|a t IH]; intros acc q dp Hne; [congruence|].
  destruct t as [|b u].
  - cbn. reflexivity.
  - change ((a :: b :: u) ++ [q]) with (a :: b :: (u ++ [q])).
    change (dist_from acc (a :: b :: u ++ [q])) with (acc :: dist_from (acc + len a b) ((b :: u) ++ [q])).
    rewrite (IH (acc + len a b) q dp) by discriminate.
    change (dist_from acc (a :: b :: u)) with (acc :: dist_from (acc + len a b) (b :: u)).
    destruct (dist_from_nonempty (acc + len a b) b u) as [D' E]. rewrite E.
    change (last (a :: b :: u) dp) with (last (b :: u) dp).
    reflexivity.
Qed.

Lemma last_map {A B} (f : A -> B) l d : last (map f l) (f d) = f (last l d).
Proof. induction l as [|x t IH]; [reflexivity|]. destruct t; [reflexivity|]. cbn [map last] in *. exact IH. Qed.

Lemma last_app1 {A} (l : list A) x d : last (l ++ [x]) d = x.
Proof. apply last_last. Qed.

Theorem reverse_distance (pts : list RP2) : calc_distance Rops (rev pts) = rev_distance Rops (calc_distance Rops pts).
Proof.
  rewrite !calc_distance_eq. unfold rev_distance. change (qzero Rops) with 0. cbn [osub Rops].
  induction pts as [|p t IH]; [reflexivity|].
  destruct t as [|q u].
  - cbn. f_equal. ring.
  - cbn [rev] in *.
    rewrite (dist_from_snoc (rev u ++ [q]) 0 p (0, 0)) by (destruct (rev u); discriminate). rewrite IH.
    change (dist_from 0 (p :: q :: u)) with (0 :: dist_from (0 + len p q) (q :: u)).
    rewrite (dist_from_shift (len p q) 0 (q :: u)).
    set (D := dist_from 0 (q :: u)) in *.
    assert (HD : D <> []) by (unfold D; cbn; discriminate).
    assert (Hlast : last (0 :: map (fun x => x + len p q) D) 0 = last D 0 + len p q).
    { destruct D as [|x D']; [congruence|]. change (last (0 :: map (fun x0 => x0 + len p q) (x :: D')) 0) with (last (map (fun x0 => x0 + len p q) (x :: D')) 0).
      rewrite <- (last_map (fun x0 => x0 + len p q) (x :: D') 0).
      (* default differs: the list is not empty *)
      clear. revert x. induction D' as [|y r IH]; intros x; [reflexivity|]. cbn [map last] in *. apply IH. }
    rewrite Hlast. cbn [rev]. rewrite map_app. cbn [map].
    f_equal.
    + rewrite <- map_rev, map_map. apply map_ext. intros x. ring.
    + f_equal. rewrite last_app1. rewrite (len_sym q p).
      destruct (dist_from_nonempty 0 q u) as [D' E]. fold D in E. rewrite E.
      cbn [rev]. rewrite map_app. cbn [map]. rewrite last_app1.
      replace (last (0 :: D') 0) with (last D 0) by (rewrite E; reflexivity). ring.
Qed.

(* ------------------------------------------------------------------------------------------------------------ *)
(* getDistance                                                                                                    *)
Lemma argmin_from_spec (l : list R) : forall best bv i,
  let k := argmin_from Rops best bv i l in
  (k = best \/ (i <= k < i + length l)%nat).
Proof.
  induction l as [|x t IH]; intros best bv i; cbn [argmin_from length]; [left; reflexivity|].
  destruct (olt Rops x bv).
  - specialize (IH i x (S i)). cbv zeta in IH. destruct IH as [E|E]; right; lia.
  - specialize (IH best bv (S i)). cbv zeta in IH. destruct IH as [E|E]; [left; exact E|right; lia].
Qed.

Lemma argmin_lt (l : list R) : l <> [] -> (argmin Rops l < length l)%nat.
Proof.
  destruct l as [|x t]; [congruence|]. intros _. unfold argmin.
  pose proof (argmin_from_spec t 0%nat x 1%nat) as H. cbv zeta in H. cbn [length]. destruct H as [-> | H]; lia.
Qed.

(* the value found is a minimum, and it is the FIRST index that attains it *)
Lemma argmin_from_min (l : list R) : forall pre best bv i,
  length pre = i -> (best < i)%nat -> nth best (pre ++ l) 0 = bv ->
  (forall j, (j < i)%nat -> bv <= nth j (pre ++ l) 0) ->
  (forall j, (j < best)%nat -> bv < nth j (pre ++ l) 0) ->
  let k := argmin_from Rops best bv i l in
  (forall j, (j < length (pre ++ l))%nat -> nth k (pre ++ l) 0 <= nth j (pre ++ l) 0) /\
  (forall j, (j < k)%nat -> nth k (pre ++ l) 0 < nth j (pre ++ l) 0).
Proof.
  induction l as [|x t IH]; intros pre best bv i Hlen Hb Hbv Hmin Hfirst; cbn [argmin_from].
  - rewrite app_nil_r in *. split.
    + intros j Hj. rewrite Hbv. apply Hmin. lia.
    + intros j Hj. rewrite Hbv. apply Hfirst. exact Hj.
  - assert (Hx : nth i (pre ++ x :: t) 0 = x) by (rewrite app_nth2 by lia; replace (i - length pre)%nat with 0%nat by lia; reflexivity).
    replace (pre ++ x :: t) with ((pre ++ [x]) ++ t) in * by (rewrite <- app_assoc; reflexivity).
    cbn [olt Rops]. destruct (Rltb x bv) eqn:E.
    + apply Rltb_iff in E. apply IH.
      * rewrite app_length; cbn; lia.
      * lia.
      * exact Hx.
      * intros j Hj. destruct (Nat.eq_dec j i) as [->|Hne]; [rewrite Hx; lra|]. specialize (Hmin j ltac:(lia)). lra.
      * intros j Hj. specialize (Hmin j Hj). lra.
    + apply Rltb_false in E. apply IH.
      * rewrite app_length; cbn; lia.
      * lia.
      * exact Hbv.
      * intros j Hj. destruct (Nat.eq_dec j i) as [->|Hne]; [rewrite Hx; lra|]. apply Hmin. lia.
      * exact Hfirst.
Qed.

Lemma argmin_spec (l : list R) : l <> [] ->
  (forall j, (j < length l)%nat -> nth (argmin Rops l) l 0 <= nth j l 0) /\
  (forall j, (j < argmin Rops l)%nat -> nth (argmin Rops l) l 0 < nth j l 0).
Proof.
  destruct l as [|x t]; [congruence|]. intros _. unfold argmin.
  apply (argmin_from_min t [x] 0%nat x 1%nat); try reflexivity; try lia.
  intros j Hj. replace j with 0%nat by lia. cbn. lra.
Qed.

(* the second point is a neighbour of the first, inside the list *)
Lemma second_index_adjacent (pos : list RP2) p i1 : (2 <= length pos)%nat -> (i1 < length pos)%nat ->
  let i2 := second_index Rops pos p i1 in (i2 < length pos)%nat /\ (i2 = i1 + 1 \/ i1 = i2 + 1)%nat.
Proof.
  intros Hn Hi. unfold second_index. cbv zeta. unfold P2 in *.
  match goal with |- context [if ?c then _ else _] => destruct c eqn:E1 end; [apply Nat.leb_le in E1; lia|apply Nat.leb_gt in E1].
  match goal with |- context [if ?c then _ else _] => destruct c eqn:E2 end; [apply Nat.eqb_eq in E2; lia|apply Nat.eqb_neq in E2].
  match goal with |- context [if ?c then _ else _] => destruct c end; lia.
Qed.

Lemma nth_len_nonneg p (pos : list RP2) i : 0 <= nth i (map (fun q => len p q) pos) 0.
Proof.
  destruct (nth_in_or_default i (map (fun q => len p q) pos) 0) as [Hin|E]; [|rewrite E; lra].
  apply in_map_iff in Hin. destruct Hin as [q [E _]]. rewrite <- E. apply len_nonneg.
Qed.

Lemma get_distance_eq (pos : list RP2) (dist : list R) (p : RP2) :
  get_distance Rops pos dist p =
  let dfp := map (fun q => len p q) pos in
  let i1 := argmin Rops dfp in
  let i2 := second_index Rops pos p i1 in
  let r := nth i2 dfp 0 / (nth i1 dfp 0 + nth i2 dfp 0) in
  r * nth i1 dist 0 + (1 - r) * nth i2 dist 0.
Proof. reflexivity. Qed.

(* getDistance returns a convex combination of the distances of the two fine points it selects ... *)
Theorem get_distance_between (pos : list RP2) (dist : list R) p :
  let dfp := map (fun q => len p q) pos in
  let i1 := argmin Rops dfp in
  let i2 := second_index Rops pos p i1 in
  0 < nth i1 dfp 0 + nth i2 dfp 0 ->
  Rmin (nth i1 dist 0) (nth i2 dist 0) <= get_distance Rops pos dist p <= Rmax (nth i1 dist 0) (nth i2 dist 0).
Proof.
  intros dfp i1 i2 Hpos. rewrite get_distance_eq. cbv zeta. fold dfp. fold i1. fold i2.
  set (d1 := nth i1 dfp 0) in *. set (d2 := nth i2 dfp 0) in *. set (a := nth i1 dist 0). set (b := nth i2 dist 0).
  assert (H1 : 0 <= d1) by apply nth_len_nonneg.
  assert (H2 : 0 <= d2) by apply nth_len_nonneg.
  set (r := d2 / (d1 + d2)).
  assert (Hr : 0 <= r <= 1).
  { unfold r. split.
    - apply Rmult_le_pos; [exact H2|]. left. apply Rinv_0_lt_compat. exact Hpos.
    - apply (Rmult_le_reg_r (d1 + d2)); [exact Hpos|]. unfold Rdiv. rewrite Rmult_assoc, Rinv_l by lra. lra. }
  unfold Rmin, Rmax. destruct (Rle_dec a b); split; nra.
Qed.

(* ... and for a point that IS a fine point (all fine points distinct) exactly that point's distance *)
Theorem get_distance_at_fine_point (pos : list RP2) (dist : list R) k :
  (2 <= length pos)%nat -> (k < length pos)%nat -> NoDup pos ->
  get_distance Rops pos dist (nth k pos (0, 0)) = nth k dist 0.
Proof.
  intros Hn Hk Hnd. set (p := nth k pos (0, 0)).
  rewrite get_distance_eq. cbv zeta.
  set (dfp := map (fun q => len p q) pos).
  assert (Hlen : length dfp = length pos) by (unfold dfp; apply map_length).
  assert (Hne : dfp <> []) by (intros E; rewrite E in Hlen; cbn in Hlen; lia).
  assert (Hnth : forall j, (j < length pos)%nat -> nth j dfp 0 = len p (nth j pos (0, 0))).
  { intros j Hj. unfold dfp. rewrite (nth_indep _ 0 (len p (0, 0))) by (rewrite map_length; exact Hj).
    apply (map_nth (fun q => len p q)). }
  assert (Hzero : forall j, (j < length pos)%nat -> nth j dfp 0 = 0 -> j = k).
  { intros j Hj E. rewrite Hnth in E by exact Hj. apply len_zero_iff in E.
    apply (proj1 (NoDup_nth pos (0, 0)) Hnd); [exact Hj|exact Hk|]. symmetry. exact E. }
  pose proof (argmin_spec dfp Hne) as [Hmin _]. pose proof (argmin_lt dfp Hne) as Hlt. rewrite Hlen in Hlt.
  set (i1 := argmin Rops dfp) in *.
  assert (Hk0 : nth k dfp 0 = 0) by (rewrite Hnth by exact Hk; apply len_zero_iff; reflexivity).
  assert (Hi1 : i1 = k).
  { apply Hzero; [exact Hlt|]. specialize (Hmin k ltac:(lia)). rewrite Hk0 in Hmin.
    assert (0 <= nth i1 dfp 0) by (rewrite Hnth by exact Hlt; apply len_nonneg). lra. }
  rewrite Hi1 in *. rewrite Hk0.
  pose proof (second_index_adjacent pos p k Hn Hk) as [Hi2 Hadj]. cbv zeta in Hi2, Hadj.
  set (i2 := second_index Rops pos p k) in *.
  assert (Hd2 : 0 < nth i2 dfp 0).
  { rewrite Hnth by exact Hi2. apply len_pos. unfold p. intros E.
    apply (proj1 (NoDup_nth pos (0, 0)) Hnd) in E; [lia|exact Hk|exact Hi2]. }
  replace (nth i2 dfp 0 / (0 + nth i2 dfp 0)) with 1 by (field; lra). ring.
Qed.

(* ------------------------------------------------------------------------------------------------------------ *)
(* cumulative trapezoid                                                                                           *)
Lemma cumsum_from_step (l : list R) : forall acc k, (k < length l)%nat ->
  nth (S k) (acc :: cumsum_from Rops acc l) 0 - nth k (acc :: cumsum_from Rops acc l) 0 = nth k l 0.
Proof.
  induction l as [|x t IH]; intros acc k Hk; [cbn in Hk; lia|].
  cbn [cumsum_from]. destruct k as [|k].
  - cbn [nth oadd Rops]. ring.
  - change (nth (S (S k)) (acc :: oadd Rops acc x :: cumsum_from Rops (oadd Rops acc x) t) 0)
      with (nth (S k) (oadd Rops acc x :: cumsum_from Rops (oadd Rops acc x) t) 0).
    change (nth (S k) (acc :: oadd Rops acc x :: cumsum_from Rops (oadd Rops acc x) t) 0)
      with (nth k (oadd Rops acc x :: cumsum_from Rops (oadd Rops acc x) t) 0).
    rewrite IH by (cbn in Hk; lia). reflexivity.
Qed.

Lemma cumsum_from_length (l : list R) : forall acc, length (cumsum_from Rops acc l) = length l.
Proof. induction l as [|x t IH]; intros acc; [reflexivity|]. cbn [cumsum_from length]. rewrite IH. reflexivity. Qed.

Lemma trapz_terms_cons y0 y1 yt x0 x1 xt :
  trapz_terms Rops (y0 :: y1 :: yt) (x0 :: x1 :: xt) = (x1 - x0) * (y1 + y0) / 2 :: trapz_terms Rops (y1 :: yt) (x1 :: xt).
Proof. cbn [trapz_terms]. unfold qtwo. cbn [odiv omul osub oadd oconst Rops Rc Z.eqb Pos.eqb]. reflexivity. Qed.

Lemma trapz_terms_length (y : list R) : forall x, length y = length x -> length (trapz_terms Rops y x) = (length y - 1)%nat.
Proof.
  induction y as [|y0 yt IH]; intros x Hl; [reflexivity|].
  destruct x as [|x0 xt]; [discriminate|]. destruct yt as [|y1 yt']; [reflexivity|]. destruct xt as [|x1 xt']; [discriminate|].
  rewrite trapz_terms_cons. cbn [length]. rewrite (IH (x1 :: xt')) by (cbn in Hl |- *; lia). cbn [length]. lia.
Qed.

Lemma trapz_terms_nth (y : list R) : forall x k, length y = length x -> (S k < length y)%nat ->
  nth k (trapz_terms Rops y x) 0 = (nth (S k) x 0 - nth k x 0) * (nth (S k) y 0 + nth k y 0) / 2.
Proof.
  induction y as [|y0 yt IH]; intros x k Hl Hk; [cbn in Hk; lia|].
  destruct x as [|x0 xt]; [discriminate|]. destruct yt as [|y1 yt']; [cbn in Hk; lia|]. destruct xt as [|x1 xt']; [discriminate|].
  rewrite trapz_terms_cons. destruct k as [|k].
  - cbn [nth]. reflexivity.
  - change (nth (S k) ((x1 - x0) * (y1 + y0) / 2 :: trapz_terms Rops (y1 :: yt') (x1 :: xt')) 0) with (nth k (trapz_terms Rops (y1 :: yt') (x1 :: xt')) 0).
    rewrite (IH (x1 :: xt') k) by (cbn in Hl, Hk |- *; lia). reflexivity.
Qed.

Definition cz (y x : list R) : list R := cumtrapz Rops y x.

Lemma cz_length y x : length y = length x -> (1 <= length y)%nat -> length (cz y x) = length y.
Proof. intros Hl H1. unfold cz, cumtrapz. cbn [length]. rewrite cumsum_from_R, cumsum_from_length, trapz_terms_length by exact Hl. lia. Qed.

Lemma cz_head y x : nth 0 (cz y x) 0 = 0.
Proof. reflexivity. Qed.

(* the increment over one fine segment is the trapezoid *)
Theorem cz_step y x k : length y = length x -> (S k < length y)%nat ->
  nth (S k) (cz y x) 0 - nth k (cz y x) 0 = (nth (S k) x 0 - nth k x 0) * (nth (S k) y 0 + nth k y 0) / 2.
Proof.
  intros Hl Hk. unfold cz, cumtrapz. change (qzero Rops) with 0. rewrite cumsum_from_R.
  rewrite cumsum_from_step by (rewrite trapz_terms_length by exact Hl; lia).
  apply trapz_terms_nth; assumption.
Qed.

(* exact for an integrand that is affine in the distance *)
Theorem cz_affine y x a b : length y = length x -> (forall k, (k < length y)%nat -> nth k y 0 = a + b * nth k x 0) ->
  forall k, (k < length y)%nat -> nth k (cz y x) 0 = a * (nth k x 0 - nth 0 x 0) + b * (nth k x 0 * nth k x 0 - nth 0 x 0 * nth 0 x 0) / 2.
Proof.
  intros Hl Hy k. induction k as [|k IH]; intros Hk.
  - rewrite cz_head. field.
  - pose proof (cz_step y x k Hl Hk) as HS. rewrite (Hy (S k) Hk), (Hy k ltac:(lia)) in HS.
    specialize (IH ltac:(lia)). lra.
Qed.

(* a positive integrand on increasing distances gives an increasing integral *)
Theorem cz_increasing y x : length y = length x -> (forall k, (k < length y)%nat -> 0 < nth k y 0) ->
  (forall k, (S k < length x)%nat -> nth k x 0 < nth (S k) x 0) ->
  forall k, (S k < length y)%nat -> nth k (cz y x) 0 < nth (S k) (cz y x) 0.
Proof.
  intros Hl Hy Hx k Hk. pose proof (cz_step y x k Hl Hk) as HS.
  pose proof (Hy k ltac:(lia)). pose proof (Hy (S k) Hk). pose proof (Hx k ltac:(lia)).
  assert (0 < (nth (S k) x 0 - nth k x 0) * (nth (S k) y 0 + nth k y 0) / 2) by (apply Rdiv_lt_0_compat; [apply Rmult_lt_0_compat|]; lra).
  lra.
Qed.

(* zShift_fine is zero at the fine contour's startInd *)
Lemma zshift_fine_nth y x si k : length y = length x -> (k < length y)%nat ->
  nth k (zshift_fine Rops y x si) 0 = nth k (cz y x) 0 - nth si (cz y x) 0.
Proof.
  intros Hl Hk. unfold zshift_fine. fold (cz y x). change (qzero Rops) with 0. cbn [osub Rops].
  rewrite (nth_indep _ 0 (0 - nth si (cz y x) 0)) by (rewrite map_length, cz_length by (try exact Hl; lia); exact Hk).
  apply (map_nth (fun z => z - nth si (cz y x) 0)).
Qed.

Theorem zshift_fine_origin y x si : length y = length x -> (si < length y)%nat -> nth si (zshift_fine Rops y x si) 0 = 0.
Proof. intros Hl Hs. rewrite zshift_fine_nth by assumption. ring. Qed.

(* ------------------------------------------------------------------------------------------------------------ *)
(* linear interpolation                                                                                            *)
Definition incr (xp : list R) : Prop := forall k, (S k < length xp)%nat -> nth k xp 0 < nth (S k) xp 0.

Lemma incr_tail a t : incr (a :: t) -> incr t.
Proof. intros H k Hk. apply (H (S k)). cbn [length]. lia. Qed.

Lemma incr_lt xp : incr xp -> forall i j, (i < j < length xp)%nat -> nth i xp 0 < nth j xp 0.
Proof.
  intros H i j [Hij Hj]. induction Hij as [|j Hij IH]; [apply H; exact Hj|].
  assert (nth i xp 0 < nth j xp 0) by (apply IH; lia). pose proof (H j Hj). lra.
Qed.

Lemma last_nth_R (l : list R) : last l 0 = nth (length l - 1) l 0.
Proof.
  induction l as [|a t IH]; [reflexivity|]. destruct t as [|b u]; [reflexivity|].
  change (last (a :: b :: u) 0) with (last (b :: u) 0). rewrite IH. cbn [length]. replace (S (S (length u)) - 1)%nat with (S (length u - 0)) by lia.
  cbn [nth]. replace (length u - 0)%nat with (S (length u) - 1)%nat by lia. reflexivity.
Qed.

Lemma find_seg_cons a b t x j : find_seg Rops (a :: b :: t) x j = if Rleb b x then find_seg Rops (b :: t) x (S j) else j.
Proof. reflexivity. Qed.

Lemma find_seg_spec (xp : list R) : forall x j0, xp <> [] -> nth 0 xp 0 <= x ->
  let j := find_seg Rops xp x j0 in
  (j0 <= j < j0 + length xp)%nat /\ nth (j - j0) xp 0 <= x /\ ((j - j0 + 1 < length xp)%nat -> x < nth (j - j0 + 1) xp 0).
Proof.
  induction xp as [|a t IH]; intros x j0 Hne H0; [congruence|].
  destruct t as [|b t'].
  - cbn [find_seg length]. cbv zeta. replace (j0 - j0)%nat with 0%nat by lia. split; [lia|]. split; [exact H0|]. intros Hb. lia.
  - cbv zeta. rewrite find_seg_cons. destruct (Rleb b x) eqn:E.
    + apply Rleb_iff in E. specialize (IH x (S j0) ltac:(discriminate) E). cbv zeta in IH.
      set (j := find_seg Rops (b :: t') x (S j0)) in *. destruct IH as [Hr [Hle Hlt]].
      replace (j - j0)%nat with (S (j - S j0)) by lia. cbn [length] in *. split; [lia|]. split.
      * exact Hle.
      * intros Hb. replace (S (j - S j0) + 1)%nat with (S (j - S j0 + 1)) by lia. cbn [nth]. apply Hlt. lia.
    + apply Rleb_false in E. replace (j0 - j0)%nat with 0%nat by lia. cbn [length nth]. split; [lia|]. split; [exact H0|]. intros _. exact E.
Qed.

Lemma oeqb_iff a b : oeqb Rops a b = true <-> a = b.
Proof.
  unfold oeqb. cbn [ole Rops]. rewrite andb_true_iff, !Rleb_iff. split; [intros [A B]; lra|intros ->; split; lra].
Qed.

(* what interp1d returns inside the range: the value on the chord of the segment that contains x *)
Theorem interp_in_range xp fp x : incr xp -> (1 <= length xp)%nat -> nth 0 xp 0 <= x <= last xp 0 ->
  exists j v, interp Rops xp fp x = Some v /\ (j < length xp)%nat /\ nth j xp 0 <= x /\
    ((x = nth j xp 0 /\ v = nth j fp 0) \/
     ((S j < length xp)%nat /\ nth j xp 0 < x < nth (S j) xp 0 /\
      v = (nth (S j) fp 0 - nth j fp 0) / (nth (S j) xp 0 - nth j xp 0) * (x - nth j xp 0) + nth j fp 0)).
Proof.
  intros Hinc Hn [Hlo Hhi]. destruct xp as [|x0 t] eqn:Exp; [cbn in Hn; lia|]. rewrite <- Exp in *.
  assert (Hne : xp <> []) by (rewrite Exp; discriminate).
  pose proof (find_seg_spec xp x 0%nat Hne Hlo) as HS. cbv zeta in HS.
  set (j := find_seg Rops xp x 0) in *. destruct HS as [Hr [Hle Hlt]]. replace (j - 0)%nat with j in * by lia.
  exists j.
  assert (Hint : interp Rops xp fp x =
    if (j =? length xp - 1)%nat then Some (nth j fp 0)
    else if oeqb Rops (nth j xp 0) x then Some (nth j fp 0)
    else Some ((nth (j + 1) fp 0 - nth j fp 0) / (nth (j + 1) xp 0 - nth j xp 0) * (x - nth j xp 0) + nth j fp 0)).
  { unfold interp. rewrite Exp at 1. change (qzero Rops) with 0. cbn [olt Rops].
    replace (Rltb x x0) with false by (symmetry; apply Rltb_false; rewrite Exp in Hlo; exact Hlo).
    replace (Rltb (last xp 0) x) with false by (symmetry; apply Rltb_false; exact Hhi).
    cbn [orb]. fold j. reflexivity. }
  rewrite Hint. rewrite last_nth_R in Hhi.
  destruct (j =? length xp - 1)%nat eqn:E1.
  - apply Nat.eqb_eq in E1. eexists; split; [reflexivity|]. split; [lia|]. split; [exact Hle|]. left. split; [|reflexivity].
    rewrite <- E1 in Hhi. lra.
  - apply Nat.eqb_neq in E1. destruct (oeqb Rops (nth j xp 0) x) eqn:E2.
    + apply oeqb_iff in E2. eexists; split; [reflexivity|]. split; [lia|]. split; [exact Hle|]. left. split; [symmetry; exact E2|reflexivity].
    + eexists; split; [reflexivity|]. split; [lia|]. split; [exact Hle|]. right.
      assert (Hj1 : (j + 1 < length xp)%nat) by lia. specialize (Hlt Hj1). replace (j + 1)%nat with (S j) in * by lia.
      split; [exact Hj1|]. split; [|reflexivity]. split; [|exact Hlt].
      destruct Hle as [L|Eq]; [exact L|]. apply oeqb_iff in Eq. congruence.
Qed.

(* at a node it returns the node's value *)
Theorem interp_at_node xp fp j : incr xp -> (j < length xp)%nat -> interp Rops xp fp (nth j xp 0) = Some (nth j fp 0).
Proof.
  intros Hinc Hj.
  assert (Hrange : nth 0 xp 0 <= nth j xp 0 <= last xp 0).
  { rewrite last_nth_R. split.
    - destruct j as [|j']; [lra|]. left. apply incr_lt; [exact Hinc|lia].
    - destruct (Nat.eq_dec j (length xp - 1)) as [->|Hne]; [lra|]. left. apply incr_lt; [exact Hinc|lia]. }
  destruct (interp_in_range xp fp (nth j xp 0) Hinc ltac:(lia) Hrange) as [j' [v [Hv [Hj' [Hle Hcase]]]]].
  rewrite Hv. f_equal.
  destruct Hcase as [[Hx ->]|[HS [[Hlt1 Hlt2] _]]].
  - destruct (Nat.lt_trichotomy j j') as [L|[->|G]]; [|reflexivity|].
    + pose proof (incr_lt xp Hinc j j' ltac:(lia)). lra.
    + pose proof (incr_lt xp Hinc j' j ltac:(lia)). lra.
  - exfalso. destruct (Nat.lt_trichotomy j j') as [L|[->|G]].
    + pose proof (incr_lt xp Hinc j j' ltac:(lia)). lra.
    + lra.
    + destruct (Nat.eq_dec j (S j')) as [->|Hne]; [lra|]. pose proof (incr_lt xp Hinc (S j') j ltac:(lia)). lra.
Qed.

(* linear interpolation reproduces a function that is affine in the abscissa *)
Theorem interp_affine xp fp al be x : incr xp -> (1 <= length xp)%nat -> nth 0 xp 0 <= x <= last xp 0 ->
  (forall k, (k < length xp)%nat -> nth k fp 0 = al + be * nth k xp 0) ->
  interp Rops xp fp x = Some (al + be * x).
Proof.
  intros Hinc Hn Hr Hf. destruct (interp_in_range xp fp x Hinc Hn Hr) as [j [v [Hv [Hj [Hle Hcase]]]]].
  rewrite Hv. f_equal. destruct Hcase as [[-> ->]|[HS [[L1 L2] ->]]].
  - apply Hf. exact Hj.
  - rewrite (Hf (S j) HS), (Hf j Hj). field. lra.
Qed.

Lemma all_some_map {A B} (f : A -> option B) (g : A -> B) l :
  (forall a, In a l -> f a = Some (g a)) -> all_some (map f l) = Some (map g l).
Proof.
  induction l as [|a t IH]; intros H; [reflexivity|]. cbn [map all_some].
  rewrite (H a (or_introl eq_refl)). rewrite IH by (intros b Hb; apply H; right; exact Hb). reflexivity.
Qed.

(* ------------------------------------------------------------------------------------------------------------ *)
(* calcZShift                                                                                                      *)

(* uniform pitch: zShift is EXACTLY pitch times poloidal distance from the fine contour's startInd, whatever the
   discretisation of the fine contour and wherever the contour's own points lie between the fine points *)
Theorem zshift_uniform_pitch base c ys fdist si cdist :
  length ys = length fdist -> (1 <= length ys)%nat -> incr fdist -> (si < length ys)%nat ->
  (forall k, (k < length ys)%nat -> nth k ys 0 = c) ->
  increasing_guard Rops cdist = true ->
  (forall s, In s cdist -> nth 0 fdist 0 <= s <= last fdist 0) ->
  zshift_contour Rops base ys fdist si cdist = Some (map (fun s => base + c * (s - nth si fdist 0)) cdist).
Proof.
  intros Hl H1 Hinc Hsi Hc Hg Hr. unfold zshift_contour. rewrite Hg.
  rewrite (all_some_map _ (fun s => c * (s - nth si fdist 0))).
  - rewrite map_map. cbn [oadd Rops]. reflexivity.
  - intros s Hs. replace (c * (s - nth si fdist 0)) with ((- c * nth si fdist 0) + c * s) by ring.
    apply interp_affine; [exact Hinc|lia|apply Hr; exact Hs|].
    intros k Hk. rewrite zshift_fine_nth by (try exact Hl; lia).
    assert (Hy : forall k0, (k0 < length ys)%nat -> nth k0 ys 0 = c + 0 * nth k0 fdist 0) by (intros k0 Hk0; rewrite Hc by exact Hk0; ring).
    rewrite (cz_affine ys fdist c 0 Hl Hy k ltac:(lia)), (cz_affine ys fdist c 0 Hl Hy si Hsi). field.
Qed.

(* any integrand: the first value of a region is the value handed over when its first point is the fine contour's
   startInd (continuity at the join, from the quadrature itself) *)
Theorem zshift_contour_starts_at_base base ys fdist si cdist vals :
  length ys = length fdist -> incr fdist -> (si < length ys)%nat ->
  hd 0 cdist = nth si fdist 0 -> cdist <> [] ->
  zshift_contour Rops base ys fdist si cdist = Some vals -> hd 0 vals = base.
Proof.
  intros Hl Hinc Hsi Hhd Hne H. unfold zshift_contour in H.
  destruct (increasing_guard Rops cdist); [|discriminate].
  destruct cdist as [|s0 rest]; [congruence|]. cbn [hd] in Hhd. subst s0.
  cbn [map all_some] in H. rewrite interp_at_node in H by (try exact Hinc; lia).
  destruct (all_some (map (interp Rops fdist (zshift_fine Rops ys fdist si)) rest)); [|discriminate].
  injection H as <-. pose proof (zshift_fine_origin ys fdist si Hl Hsi) as Hz.
  set (z := nth si (zshift_fine Rops ys fdist si) 0) in *. cbn [map hd]. change (base + z = base). lra.
Qed.

Lemma increasing_guard_iff (d : list R) : increasing_guard Rops d = true <-> incr d.
Proof.
  induction d as [|a t IH]; [split; [intros _ k Hk; cbn in Hk; lia|reflexivity]|].
  destruct t as [|b u].
  - split; [intros _ k Hk; cbn in Hk; lia|reflexivity].
  - cbn [increasing_guard] in *. change (qzero Rops) with 0. cbn [olt osub Rops]. rewrite andb_true_iff, Rltb_iff, IH. split.
    + intros [Hab Hi] k Hk. destruct k as [|k]; [cbn [nth]; lra|]. apply (Hi k). cbn [length] in *. lia.
    + intros Hi. split; [pose proof (Hi 0%nat ltac:(cbn; lia)) as H0; cbn [nth] in H0; lra|]. eapply incr_tail. exact Hi.
Qed.

(* ------------------------------------------------------------------------------------------------------------ *)
(* the hand-over along a y-group                                                                                   *)
Definition seg_wf (r : @seg R) : Prop :=
  length (s_ys r) = length (s_fdist r) /\ incr (s_fdist r) /\ (s_si r < length (s_ys r))%nat /\
  s_cdist r <> [] /\ hd 0 (s_cdist r) = nth (s_si r) (s_fdist r) 0.

Lemma last_indep {A} (l : list A) d d' : l <> [] -> last l d = last l d'.
Proof. induction l as [|a t IH]; [congruence|]. intros _. destruct t as [|b u]; [reflexivity|]. cbn [last] in *. apply IH. discriminate. Qed.

Lemma evens_nonempty {A} (l : list A) : l <> [] -> evens l <> [].
Proof. destruct l as [|a [|b u]]; [congruence| |]; intros _; cbn; discriminate. Qed.

Lemma zshift_contour_nonempty base ys fdist si cdist vals :
  cdist <> [] -> zshift_contour Rops base ys fdist si cdist = Some vals -> vals <> [].
Proof.
  intros Hne H. unfold zshift_contour in H. destruct (increasing_guard Rops cdist); [|discriminate].
  destruct (all_some (map (interp Rops fdist (zshift_fine Rops ys fdist si)) cdist)) as [zc|] eqn:E; [|discriminate].
  injection H as <-. destruct cdist as [|s0 rest]; [congruence|]. cbn [map all_some] in E.
  destruct (interp Rops fdist (zshift_fine Rops ys fdist si) s0); [|discriminate].
  destruct (all_some (map (interp Rops fdist (zshift_fine Rops ys fdist si)) rest)); [|discriminate].
  injection E as <-. cbn. discriminate.
Qed.

(* for ANY integrands and any number of regions: every region after the first starts from the value at the last
   y-face of the region before it (zShift is continuous at the joins inside a y-group) *)
Theorem zshift_chain_continuous (regions : list (@seg R)) : forall base vals,
  (forall r, In r regions -> seg_wf r) ->
  zshift_chain Rops base regions = Some vals ->
  length vals = length regions /\
  forall k, (S k < length vals)%nat -> hd 0 (nth (S k) vals []) = last (evens (nth k vals [])) 0.
Proof.
  induction regions as [|r rest IH]; intros base vals Hwf H.
  - cbn in H. injection H as <-. split; [reflexivity|]. intros k Hk. cbn in Hk. lia.
  - cbn [zshift_chain] in H.
    destruct (zshift_contour Rops base (s_ys r) (s_fdist r) (s_si r) (s_cdist r)) as [v|] eqn:Ev; [|discriminate].
    destruct (zshift_chain Rops (last (evens v) base) rest) as [more|] eqn:Em; [|discriminate].
    injection H as <-.
    destruct (Hwf r (or_introl eq_refl)) as [Hl [Hinc [Hsi [Hne Hhd]]]].
    pose proof (zshift_contour_nonempty _ _ _ _ _ _ Hne Ev) as Hv.
    specialize (IH _ _ (fun r' Hr' => Hwf r' (or_intror Hr')) Em). destruct IH as [Hlen IHk].
    split; [cbn [length]; rewrite Hlen; reflexivity|].
    intros k Hk. destruct k as [|k].
    + cbn [nth]. destruct rest as [|r2 rest']; [cbn in Hlen; destruct more; [cbn in Hk; lia|discriminate]|].
      cbn [zshift_chain] in Em.
      destruct (zshift_contour Rops (last (evens v) base) (s_ys r2) (s_fdist r2) (s_si r2) (s_cdist r2)) as [v2|] eqn:Ev2; [|discriminate].
      destruct (zshift_chain Rops (last (evens v2) (last (evens v) base)) rest'); [|discriminate].
      injection Em as <-. cbn [nth].
      destruct (Hwf r2 (or_intror (or_introl eq_refl))) as [Hl2 [Hinc2 [Hsi2 [Hne2 Hhd2]]]].
      rewrite (zshift_contour_starts_at_base _ _ _ _ _ _ Hl2 Hinc2 Hsi2 Hhd2 Hne2 Ev2).
      apply last_indep. apply evens_nonempty. exact Hv.
    + cbn [nth]. apply IHk. cbn [length] in Hk. lia.
Qed.

(* ------------------------------------------------------------------------------------------------------------ *)
(* statements about calc_distance itself (the function the correspondence runs)                                   *)
Theorem calc_distance_spec (pts : list RP2) :
  length (calc_distance Rops pts) = length pts /\
  (pts <> [] -> nth 0 (calc_distance Rops pts) 0 = 0) /\
  forall k, (S k < length pts)%nat ->
    nth (S k) (calc_distance Rops pts) 0 - nth k (calc_distance Rops pts) 0 = len (nth k pts (0, 0)) (nth (S k) pts (0, 0)).
Proof.
  rewrite calc_distance_eq. split; [apply dist_from_length|]. split; [intros H; apply dist_from_head; exact H|].
  intros k Hk. apply dist_from_step. exact Hk.
Qed.

Theorem calc_distance_chord (pts : list RP2) i j : (i <= j < length pts)%nat ->
  len (nth i pts (0, 0)) (nth j pts (0, 0)) <= nth j (calc_distance Rops pts) 0 - nth i (calc_distance Rops pts) 0.
Proof. rewrite calc_distance_eq. apply dist_from_chord. Qed.

Theorem calc_distance_strict (pts : list RP2) :
  (forall k, (S k < length pts)%nat -> nth k pts (0, 0) <> nth (S k) pts (0, 0)) ->
  forall i j, (i < j < length pts)%nat -> nth i (calc_distance Rops pts) 0 < nth j (calc_distance Rops pts) 0.
Proof. rewrite calc_distance_eq. apply dist_from_strict. Qed.

Theorem calc_distance_straight (a u : RP2) ts : fst u * fst u + snd u * snd u = 1 ->
  (forall k, (S k < length ts)%nat -> nth k ts 0 <= nth (S k) ts 0) ->
  calc_distance Rops (map (fun t => (fst a + t * fst u, snd a + t * snd u)) ts) = map (fun t => t - hd 0 ts) ts.
Proof.
  intros Hu Hs. rewrite calc_distance_eq, (dist_from_straight a u Hu ts 0 Hs). apply map_ext. intros t. ring.
Qed.

Example distance_example :
  calc_distance Rops [(0, 0); (3, 4); (3, 5)] = [0; sqrt (3 * 3 + 4 * 4); sqrt (3 * 3 + 4 * 4) + sqrt (0 * 0 + 1 * 1)].
Proof.
  unfold calc_distance, cumsum, seglens, seglen, dist2, sq, cumsum_from. cbn [fst snd oadd osub omul osqrt Rops].
  change (qzero Rops) with 0. repeat f_equal; ring.
Qed.

(* ------------------------------------------------------------------------------------------------------------ *)
(* FineContour.interpFunction: where a point at a given poloidal distance is placed                                 *)
Lemma searchsorted_spec (xp : list R) : forall x i0,
  let k := searchsorted Rops xp x i0 in
  (i0 <= k <= i0 + length xp)%nat /\
  (forall j, (j < k - i0)%nat -> nth j xp 0 < x) /\
  ((k - i0 < length xp)%nat -> x <= nth (k - i0) xp 0).
Proof.
  induction xp as [|a t IH]; intros x i0; cbn [searchsorted length].
  - cbv zeta. split; [lia|]. split; [intros j Hj; lia|intros Hk; lia].
  - cbn [olt Rops]. destruct (Rltb a x) eqn:E.
    + apply Rltb_iff in E. specialize (IH x (S i0)). cbv zeta in IH |- *.
      set (k := searchsorted Rops t x (S i0)) in *. destruct IH as [Hr [Hlt Hge]].
      split; [lia|]. split.
      * intros j Hj. destruct j as [|j]; [exact E|]. cbn [nth]. apply Hlt. lia.
      * intros Hk. replace (k - i0)%nat with (S (k - S i0)) by lia. cbn [nth]. apply Hge. lia.
    + apply Rltb_false in E. cbv zeta. replace (i0 - i0)%nat with 0%nat by lia. split; [lia|]. split; [intros j Hj; lia|].
      intros _. exact E.
Qed.

(* the segment interp1d uses for x: determined by the abscissae and x alone *)
Definition seg_lo (xp : list R) (x : R) : nat := (Nat.max 1 (Nat.min (searchsorted Rops xp x 0) (length xp - 1)) - 1)%nat.

Lemma interp_extrap_eq xp fp x :
  interp_extrap Rops xp fp x =
    (nth (S (seg_lo xp x)) fp 0 - nth (seg_lo xp x) fp 0) / (nth (S (seg_lo xp x)) xp 0 - nth (seg_lo xp x) xp 0) * (x - nth (seg_lo xp x) xp 0)
    + nth (seg_lo xp x) fp 0.
Proof.
  unfold interp_extrap, seg_lo. change (qzero Rops) with 0. cbn [oadd omul osub odiv Rops].
  set (hi := Nat.max 1 (Nat.min (searchsorted Rops xp x 0) (length xp - 1))).
  assert (H1 : (1 <= hi)%nat) by (unfold hi; lia).
  replace (S (hi - 1)) with hi by lia. reflexivity.
Qed.

(* inside the range of the abscissae it is the segment that contains x *)
Theorem seg_lo_spec xp x : incr xp -> (2 <= length xp)%nat -> nth 0 xp 0 <= x <= last xp 0 ->
  (S (seg_lo xp x) < length xp)%nat /\ nth (seg_lo xp x) xp 0 <= x <= nth (S (seg_lo xp x)) xp 0.
Proof.
  intros Hinc Hn [Hlo Hhi]. rewrite last_nth_R in Hhi.
  pose proof (searchsorted_spec xp x 0%nat) as HS. cbv zeta in HS. unfold seg_lo.
  set (k := searchsorted Rops xp x 0) in *. destruct HS as [Hr [Hlt Hge]]. replace (k - 0)%nat with k in * by lia.
  assert (Hk : (k <= length xp - 1)%nat).
  { destruct (Nat.le_gt_cases k (length xp - 1)) as [L|G]; [exact L|]. exfalso.
    specialize (Hlt (length xp - 1)%nat ltac:(lia)). lra. }
  destruct k as [|k'].
  - specialize (Hge ltac:(lia)). replace (Nat.max 1 (Nat.min 0 (length xp - 1)) - 1)%nat with 0%nat by lia.
    split; [lia|]. pose proof (Hinc 0%nat ltac:(lia)). lra.
  - replace (Nat.max 1 (Nat.min (S k') (length xp - 1)) - 1)%nat with k' by lia.
    split; [lia|]. specialize (Hlt k' ltac:(lia)). specialize (Hge ltac:(lia)). lra.
Qed.

Lemma len_lerp (a b : RP2) t : 0 <= t <= 1 ->
  let p := (fst a + t * (fst b - fst a), snd a + t * (snd b - snd a)) in
  len p a = t * len a b /\ len p b = (1 - t) * len a b.
Proof.
  intros Ht p. unfold len, seglen, dist2, sq; cbn.
  set (dx := fst b - fst a). set (dy := snd b - snd a).
  split.
  - replace ((fst a - (fst a + t * dx)) * (fst a - (fst a + t * dx)) + (snd a - (snd a + t * dy)) * (snd a - (snd a + t * dy)))
      with ((t * t) * (dx * dx + dy * dy)) by ring.
    rewrite sqrt_mult by nra. rewrite sqrt_square by lra. reflexivity.
  - replace ((fst b - (fst a + t * dx)) * (fst b - (fst a + t * dx)) + (snd b - (snd a + t * dy)) * (snd b - (snd a + t * dy)))
      with (((1 - t) * (1 - t)) * (dx * dx + dy * dy)) by (unfold dx, dy; ring).
    rewrite sqrt_mult by nra. rewrite sqrt_square by lra. reflexivity.
Qed.

(* the point interpFunction places at distance s from startInd lies on the polygon: on the segment whose distances enclose
   s, at the fraction where the polygon length is s *)
Theorem placed_point_on_polygon (pos : list RP2) (dist : list R) si s : incr dist -> length dist = length pos -> (2 <= length pos)%nat ->
  nth 0 dist 0 <= s + nth si dist 0 <= last dist 0 ->
  exists lo t, (S lo < length pos)%nat /\ 0 <= t <= 1 /\
    s + nth si dist 0 = nth lo dist 0 + t * (nth (S lo) dist 0 - nth lo dist 0) /\
    interp_point Rops pos dist si s =
      (fst (nth lo pos (0, 0)) + t * (fst (nth (S lo) pos (0, 0)) - fst (nth lo pos (0, 0))),
       snd (nth lo pos (0, 0)) + t * (snd (nth (S lo) pos (0, 0)) - snd (nth lo pos (0, 0)))).
Proof.
  intros Hinc Hl Hn Hr. unfold interp_point. change (qzero Rops) with 0. cbn [osub Rops].
  set (c := nth si dist 0) in *. set (xs := map (fun d => d - c) dist).
  assert (Hxl : length xs = length dist) by (unfold xs; apply map_length).
  assert (Hxn : forall k, (k < length dist)%nat -> nth k xs 0 = nth k dist 0 - c).
  { intros k Hk. unfold xs. rewrite (nth_indep _ 0 (0 - c)) by (rewrite map_length; exact Hk). apply (map_nth (fun d => d - c)). }
  assert (Hxinc : incr xs).
  { intros k Hk. rewrite Hxl in Hk. rewrite !Hxn by lia. pose proof (Hinc k Hk). lra. }
  assert (Hxr : nth 0 xs 0 <= s <= last xs 0).
  { rewrite last_nth_R, Hxl, !Hxn by lia. rewrite last_nth_R in Hr. lra. }
  destruct (seg_lo_spec xs s Hxinc ltac:(lia) Hxr) as [Hlo [Hs1 Hs2]].
  set (lo := seg_lo xs s) in *. rewrite Hxl in Hlo. rewrite !Hxn in Hs1, Hs2 by lia.
  pose proof (Hinc lo Hlo) as Hd.
  exists lo, ((s + c - nth lo dist 0) / (nth (S lo) dist 0 - nth lo dist 0)).
  assert (Hfst : forall k, (k < length pos)%nat -> nth k (map fst pos) 0 = fst (nth k pos (0, 0))).
  { intros k Hk. rewrite (nth_indep _ 0 (fst (0, 0))) by (rewrite map_length; exact Hk). apply (map_nth fst). }
  assert (Hsnd : forall k, (k < length pos)%nat -> nth k (map snd pos) 0 = snd (nth k pos (0, 0))).
  { intros k Hk. rewrite (nth_indep _ 0 (snd (0, 0))) by (rewrite map_length; exact Hk). apply (map_nth snd). }
  split; [lia|]. split.
  - split.
    + apply Rmult_le_pos; [lra|]. left. apply Rinv_0_lt_compat. lra.
    + apply (Rmult_le_reg_r (nth (S lo) dist 0 - nth lo dist 0)); [lra|]. unfold Rdiv. rewrite Rmult_assoc, Rinv_l by lra. lra.
  - split; [field; lra|].
    rewrite !interp_extrap_eq. fold lo. rewrite !Hxn by lia. rewrite !Hfst, !Hsnd by lia.
    f_equal; field; lra.
Qed.

(* round trip: when the nearest fine point and the neighbour getDistance selects are the two ends of that segment (as they are
   on a gently curved contour), the distance it measures for the placed point is exactly the distance it was placed at *)
Theorem placed_point_distance_round_trip (pos : list RP2) (dist : list R) lo t :
  (S lo < length pos)%nat -> 0 <= t <= 1 -> nth lo pos (0, 0) <> nth (S lo) pos (0, 0) ->
  let a := nth lo pos (0, 0) in let b := nth (S lo) pos (0, 0) in
  let p := (fst a + t * (fst b - fst a), snd a + t * (snd b - snd a)) in
  let dfp := map (fun q => len p q) pos in
  let i1 := argmin Rops dfp in
  let i2 := second_index Rops pos p i1 in
  (i1 = lo /\ i2 = S lo) \/ (i1 = S lo /\ i2 = lo) ->
  get_distance Rops pos dist p = nth lo dist 0 + t * (nth (S lo) dist 0 - nth lo dist 0).
Proof.
  intros Hlo Ht Hne a b p dfp i1 i2 Hsel. rewrite get_distance_eq. cbv zeta. fold dfp. fold i1. fold i2.
  assert (Hnth : forall j, (j < length pos)%nat -> nth j dfp 0 = len p (nth j pos (0, 0))).
  { intros j Hj. unfold dfp. rewrite (nth_indep _ 0 (len p (0, 0))) by (rewrite map_length; exact Hj).
    apply (map_nth (fun q => len p q)). }
  destruct (len_lerp a b t Ht) as [Ha Hb]. cbv zeta in Ha, Hb. fold p in Ha, Hb.
  pose proof (len_pos a b Hne) as HL.
  destruct Hsel as [[E1 E2]|[E1 E2]]; rewrite E1, E2, !Hnth by lia; fold a; fold b; rewrite Ha, Hb; field; lra.
Qed.
