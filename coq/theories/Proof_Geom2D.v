(* C20: theorems about the exact-rational model of the intersection predicates. *)
From Coq Require Import QArith Qabs Qfield Lqa List Bool.
From HT Require Import Model_Geom2D.
Import ListNotations.
Local Open Scope Q_scope.

Definition collinear (P a b : pt) : Prop :=
  (cZ P - cZ a) * (cR b - cR a) == (cR P - cR a) * (cZ b - cZ a).

Lemma Qltb_true a b : Qltb a b = true <-> a < b.
Proof.
  unfold Qltb. rewrite negb_true_iff. split; intro H.
  - apply Qnot_le_lt. intro L. apply Qle_bool_iff in L. congruence.
  - destruct (Qle_bool b a) eqn:E; [|reflexivity]. apply Qle_bool_iff in E. exfalso. apply (Qlt_not_le _ _ H E).
Qed.
Lemma Qltb_false a b : Qltb a b = false <-> b <= a.
Proof.
  unfold Qltb. rewrite negb_false_iff. apply Qle_bool_iff.
Qed.

Lemma abs_lt_nonzero x y : Qabs y < Qabs x -> ~ x == 0.
Proof. intros H E. assert (A : Qabs x == 0) by (rewrite E; reflexivity). pose proof (Qabs_nonneg y). lra. Qed.

Lemma eps_nonzero x : par_eps <= Qabs x -> ~ x == 0.
Proof. intros H E. assert (A : Qabs x == 0) by (rewrite E; reflexivity). unfold par_eps in H. lra. Qed.

Lemma in_range_0 lo hi x : in_range 0 lo hi x = true -> lo <= x <= hi.
Proof.
  unfold in_range. rewrite andb_true_iff, !Qle_bool_iff. intros [A B]. split; lra.
Qed.

Lemma sortR_spec p q p1 q1 : sortR p q = (p1, q1) ->
  cR p1 <= cR q1 /\ ((p1 = p /\ q1 = q) \/ (p1 = q /\ q1 = p)).
Proof.
  unfold sortR. destruct (Qle_bool (cR p) (cR q)) eqn:E; intro H; inversion H; subst.
  - apply Qle_bool_iff in E. auto.
  - split; [|auto]. destruct (Qlt_le_dec (cR p1) (cR q1)) as [L|L]; [lra|]. apply Qle_bool_iff in L. congruence.
Qed.
Lemma sortZ_spec p q p1 q1 : sortZ p q = (p1, q1) ->
  cZ p1 <= cZ q1 /\ ((p1 = p /\ q1 = q) \/ (p1 = q /\ q1 = p)).
Proof.
  unfold sortZ. destruct (Qle_bool (cZ p) (cZ q)) eqn:E; intro H; inversion H; subst.
  - apply Qle_bool_iff in E. auto.
  - split; [|auto]. destruct (Qlt_le_dec (cZ p1) (cZ q1)) as [L|L]; [lra|]. apply Qle_bool_iff in L. congruence.
Qed.


Lemma is_a_nonzero p q p1 q1 : is_a p q = true -> ((p1 = p /\ q1 = q) \/ (p1 = q /\ q1 = p)) -> ~ cR q1 - cR p1 == 0.
Proof.
  unfold is_a. rewrite Qltb_true. intros H [[-> ->]|[-> ->]] E; apply abs_lt_nonzero in H; apply H; lra.
Qed.

Lemma slope_diff a b c d : ~ b == 0 -> ~ d == 0 -> ~ a / b - c / d == 0 -> ~ a * d - c * b == 0.
Proof.
  intros Hb Hd H E. apply H.
  assert (X : a / b - c / d == (a * d - c * b) / (b * d)) by (field; auto).
  rewrite X, E. field. auto.
Qed.

Ltac open_hit :=
  match goal with |- (if ?c then _ else _) = _ -> _ => let Er := fresh "Er" in destruct c eqn:Er; [|discriminate] end.

Lemma hit_H_a_sound s e p q P : cR s < cR e -> is_a p q = true -> hit_H 0 s e p q = Some P ->
  exists p1 q1, sortR p q = (p1, q1) /\ collinear P p1 q1 /\ collinear P s e /\
                cR p1 <= cR P <= cR q1 /\ cR s <= cR P <= cR e.
Proof.
  unfold hit_H. intros Hse Ha. rewrite Ha. destruct (sortR p q) as [p1 q1] eqn:ES.
  destruct (Qle_bool par_eps _) eqn:Ep; [|discriminate].
  open_hit. intro H; inversion H; subst; clear H. exists p1, q1.
  apply andb_true_iff in Er as [R1 R2]. apply in_range_0 in R1, R2.
  apply Qle_bool_iff in Ep. apply eps_nonzero in Ep.
  destruct (sortR_spec _ _ _ _ ES) as [Hle Hpq]. pose proof (is_a_nonzero _ _ _ _ Ha Hpq) as HdR1.
  assert (HdR2 : ~ cR e - cR s == 0) by lra.
  pose proof (slope_diff _ _ _ _ HdR1 HdR2 Ep) as Hx.
  split; [reflexivity|]. unfold collinear; simpl. repeat split; try lra; field; auto.
Qed.

Lemma cross_nonzero a b c d : Qabs a <= Qabs b -> Qabs c < Qabs d -> ~ b == 0 -> ~ b * d - a * c == 0.
Proof.
  intros H1 H2 Hb E.
  assert (E' : Qabs (b * d) == Qabs (a * c)) by (apply Qabs_wd; lra).
  rewrite !Qabs_Qmult in E'.
  assert (Pb : 0 < Qabs b).
  { destruct (Qlt_le_dec 0 (Qabs b)) as [L|L]; [exact L|]. exfalso. apply Hb.
    pose proof (Qabs_nonneg b). assert (Z : Qabs b == 0) by lra.
    destruct (Qlt_le_dec b 0) as [N|N]; [rewrite Qabs_neg in Z by lra | rewrite Qabs_pos in Z by lra]; lra. }
  assert (A : Qabs a * Qabs c <= Qabs b * Qabs c) by (apply Qmult_le_compat_r; [exact H1 | apply Qabs_nonneg]).
  assert (B : Qabs b * Qabs c < Qabs b * Qabs d) by (apply Qmult_lt_l; assumption).
  lra.
Qed.

Lemma not_a_le p q : is_a p q = false -> Qabs (cR p - cR q) <= Qabs (cZ p - cZ q).
Proof. unfold is_a. rewrite Qltb_false. auto. Qed.

Lemma abs_swap a b : Qabs (a - b) == Qabs (b - a).
Proof. rewrite <- (Qabs_opp (a - b)). apply Qabs_wd. ring. Qed.

Lemma hit_H_b_sound s e p q P : cR s < cR e -> Qabs (cZ e - cZ s) < Qabs (cR e - cR s) -> is_a p q = false ->
  hit_H 0 s e p q = Some P ->
  exists p1 q1, sortZ p q = (p1, q1) /\ collinear P p1 q1 /\ collinear P s e /\
                cZ p1 <= cZ P <= cZ q1 /\ cR s <= cR P <= cR e.
Proof.
  unfold hit_H. intros Hse HH Ha. rewrite Ha. destruct (sortZ p q) as [p1 q1] eqn:ES.
  destruct (Qeqb _ 0) eqn:Ez; [discriminate|].
  open_hit. intro H; inversion H; subst; clear H. exists p1, q1.
  apply andb_true_iff in Er as [R1 R2]. apply in_range_0 in R1, R2.
  destruct (sortZ_spec _ _ _ _ ES) as [Hle Hpq].
  assert (HdZ1 : ~ cZ q1 - cZ p1 == 0) by (intro E; apply Qeq_bool_iff in E; unfold Qeqb in Ez; congruence).
  assert (HdR2 : ~ cR e - cR s == 0) by lra.
  assert (Hab : Qabs (cR q1 - cR p1) <= Qabs (cZ q1 - cZ p1)).
  { apply not_a_le in Ha. destruct Hpq as [[-> ->]|[-> ->]]; [rewrite (abs_swap (cR q)), (abs_swap (cZ q))|]; exact Ha. }
  pose proof (cross_nonzero _ _ _ _ Hab HH HdZ1) as Hx.
  split; [reflexivity|]. unfold collinear; simpl. repeat split; try lra; field; repeat split; auto; intro E; apply Hx; lra.
Qed.

Lemma is_a_lt p q p1 q1 : is_a p q = true -> ((p1 = p /\ q1 = q) \/ (p1 = q /\ q1 = p)) ->
  Qabs (cZ q1 - cZ p1) < Qabs (cR q1 - cR p1).
Proof.
  unfold is_a. rewrite Qltb_true. intros H [[-> ->]|[-> ->]]; [rewrite (abs_swap (cZ q)), (abs_swap (cR q))|]; exact H.
Qed.

Lemma hit_V_a_sound s e p q P : cZ s < cZ e -> Qabs (cR e - cR s) <= Qabs (cZ e - cZ s) -> is_a p q = true ->
  hit_V 0 s e p q = Some P ->
  exists p1 q1, sortR p q = (p1, q1) /\ collinear P p1 q1 /\ collinear P s e /\
                cR p1 <= cR P <= cR q1 /\ cZ s <= cZ P <= cZ e.
Proof.
  unfold hit_V. cbv zeta. intros Hse HV Ha. destruct (Qeqb _ 0) eqn:Ez2; [discriminate|]. rewrite Ha.
  destruct (sortR p q) as [p1 q1] eqn:ES.
  open_hit. intro H; inversion H; subst; clear H. exists p1, q1.
  apply andb_true_iff in Er as [R1 R2]. apply in_range_0 in R1, R2.
  destruct (sortR_spec _ _ _ _ ES) as [Hle Hpq]. pose proof (is_a_nonzero _ _ _ _ Ha Hpq) as HdR1.
  assert (HdZ2 : ~ cZ e - cZ s == 0) by lra.
  pose proof (cross_nonzero _ _ _ _ HV (is_a_lt _ _ _ _ Ha Hpq) HdZ2) as Hx.
  split; [reflexivity|]. unfold collinear; simpl. repeat split; try lra; field; repeat split; auto; intro E; apply Hx; lra.
Qed.

Lemma hit_V_b_sound s e p q P : cZ s < cZ e -> is_a p q = false ->
  hit_V 0 s e p q = Some P ->
  exists p1 q1, sortZ p q = (p1, q1) /\ collinear P p1 q1 /\ collinear P s e /\
                cZ p1 <= cZ P <= cZ q1 /\ cZ s <= cZ P <= cZ e.
Proof.
  unfold hit_V. cbv zeta. intros Hse Ha. destruct (Qeqb _ 0) eqn:Ez2; [discriminate|]. rewrite Ha.
  destruct (sortZ p q) as [p1 q1] eqn:ES.
  destruct (Qeqb (cZ q1 - cZ p1) 0) eqn:Ez; [discriminate|].
  destruct (Qle_bool par_eps _) eqn:Ep; [|discriminate].
  open_hit. intro H; inversion H; subst; clear H. exists p1, q1.
  apply andb_true_iff in Er as [R1 R2]. apply in_range_0 in R1, R2.
  apply Qle_bool_iff in Ep. apply eps_nonzero in Ep.
  destruct (sortZ_spec _ _ _ _ ES) as [Hle Hpq].
  assert (HdZ1 : ~ cZ q1 - cZ p1 == 0) by (intro E; apply Qeq_bool_iff in E; unfold Qeqb in Ez; congruence).
  assert (HdZ2 : ~ cZ e - cZ s == 0) by lra.
  pose proof (slope_diff _ _ _ _ HdZ2 HdZ1 Ep) as Hx.
  split; [reflexivity|]. unfold collinear; simpl. repeat split; try lra; field; repeat split; auto; intro E; apply Hx; lra.
Qed.

(* meaning of the conclusions above: collinear + dominant coordinate in range = a point of the segment *)
Definition on_seg (P a b : pt) : Prop :=
  exists t, 0 <= t <= 1 /\ cR P == cR a + t * (cR b - cR a) /\ cZ P == cZ a + t * (cZ b - cZ a).

Lemma div_unit x d : 0 < d -> 0 <= x <= d -> 0 <= x / d <= 1.
Proof.
  intros Hd [A B]. split.
  - apply Qle_shift_div_l; lra.
  - apply Qle_shift_div_r; lra.
Qed.

Lemma on_seg_R P a b : cR a < cR b -> collinear P a b -> cR a <= cR P <= cR b -> on_seg P a b.
Proof.
  intros Hab C [L U]. exists ((cR P - cR a) / (cR b - cR a)). split; [apply div_unit; lra|].
  unfold collinear in C. split.
  - field. lra.
  - assert (X : cZ P - cZ a == (cR P - cR a) * (cZ b - cZ a) / (cR b - cR a)).
    { rewrite <- C. field. lra. }
    assert (Y : cZ P == cZ a + (cR P - cR a) * (cZ b - cZ a) / (cR b - cR a)) by lra.
    rewrite Y. field. lra.
Qed.
Lemma on_seg_Z P a b : cZ a < cZ b -> collinear P a b -> cZ a <= cZ P <= cZ b -> on_seg P a b.
Proof.
  intros Hab C [L U]. exists ((cZ P - cZ a) / (cZ b - cZ a)). split; [apply div_unit; lra|].
  unfold collinear in C. split.
  - assert (X : cR P - cR a == (cZ P - cZ a) * (cR b - cR a) / (cZ b - cZ a)).
    { rewrite C. field. lra. }
    assert (Y : cR P == cR a + (cZ P - cZ a) * (cR b - cR a) / (cZ b - cZ a)) by lra.
    rewrite Y. field. lra.
  - field. lra.
Qed.
Lemma on_seg_sym P a b : on_seg P a b -> on_seg P b a.
Proof.
  intros (t & [A B] & ER & EZ). exists (1 - t). split; [lra|]. split; [rewrite ER | rewrite EZ]; ring.
Qed.

(* completeness, representative branch (segment and edge both more horizontal than vertical):
   a point lying on both is the reported point *)
Lemma hit_H_a_complete s e p q p1 q1 P :
  cR s < cR e -> is_a p q = true -> sortR p q = (p1, q1) ->
  par_eps <= Qabs ((cZ q1 - cZ p1) / (cR q1 - cR p1) - (cZ e - cZ s) / (cR e - cR s)) ->
  collinear P p1 q1 -> collinear P s e -> cR p1 <= cR P <= cR q1 -> cR s <= cR P <= cR e ->
  exists P', hit_H 0 s e p q = Some P' /\ cR P' == cR P /\ cZ P' == cZ P.
Proof.
  intros Hse Ha ES Ep C1 C2 R1 R2. unfold hit_H. rewrite Ha, ES.
  destruct (sortR_spec _ _ _ _ ES) as [Hle Hpq]. pose proof (is_a_nonzero _ _ _ _ Ha Hpq) as HdR1.
  assert (HdR2 : ~ cR e - cR s == 0) by lra.
  pose proof (slope_diff _ _ _ _ HdR1 HdR2 (eps_nonzero _ Ep)) as Hx.
  apply Qle_bool_iff in Ep. rewrite Ep.
  unfold collinear in C1, C2.
  assert (ERc : (cZ s - cZ p1 + (cZ q1 - cZ p1) / (cR q1 - cR p1) * cR p1 - (cZ e - cZ s) / (cR e - cR s) * cR s) /
                ((cZ q1 - cZ p1) / (cR q1 - cR p1) - (cZ e - cZ s) / (cR e - cR s)) == cR P).
  { assert (Z1 : cZ P == cZ p1 + (cR P - cR p1) * (cZ q1 - cZ p1) / (cR q1 - cR p1)).
    { assert (X : cZ P - cZ p1 == (cR P - cR p1) * (cZ q1 - cZ p1) / (cR q1 - cR p1)) by (rewrite <- C1; field; auto). lra. }
    assert (Z2 : cZ P == cZ s + (cR P - cR s) * (cZ e - cZ s) / (cR e - cR s)).
    { assert (X : cZ P - cZ s == (cR P - cR s) * (cZ e - cZ s) / (cR e - cR s)) by (rewrite <- C2; field; auto). lra. }
    assert (K : cR P * ((cZ q1 - cZ p1) * (cR e - cR s) - (cZ e - cZ s) * (cR q1 - cR p1)) ==
                (cZ s - cZ p1) * (cR q1 - cR p1) * (cR e - cR s) + (cZ q1 - cZ p1) * cR p1 * (cR e - cR s) - (cZ e - cZ s) * cR s * (cR q1 - cR p1)).
    { rewrite Z2 in Z1. clear Z2 C1 C2.
      apply (Qmult_inj_r _ _ ((cR q1 - cR p1) * (cR e - cR s))) in Z1; [|intro E; apply Qmult_integral in E; tauto].
      field_simplify in Z1; auto. field_simplify. lra. }
    apply Qmult_inj_r with (z := (cZ q1 - cZ p1) * (cR e - cR s) - (cZ e - cZ s) * (cR q1 - cR p1)); [exact Hx|].
    rewrite K. field. auto. }
  eexists. split.
  - unfold in_range. rewrite !ERc.
    assert (B1 : Qle_bool (cR p1 - 0) (cR P) = true) by (apply Qle_bool_iff; lra).
    assert (B2 : Qle_bool (cR P) (cR q1 + 0) = true) by (apply Qle_bool_iff; lra).
    assert (B3 : Qle_bool (cR s - 0) (cR P) = true) by (apply Qle_bool_iff; lra).
    assert (B4 : Qle_bool (cR P) (cR e + 0) = true) by (apply Qle_bool_iff; lra).
    rewrite B1, B2, B3, B4. reflexivity.
  - simpl. split; [exact ERc|]. rewrite ERc.
    assert (X : cZ P - cZ p1 == (cR P - cR p1) * (cZ q1 - cZ p1) / (cR q1 - cR p1)) by (rewrite <- C1; field; auto).
    assert (Y : (cZ q1 - cZ p1) / (cR q1 - cR p1) * (cR P - cR p1) == (cR P - cR p1) * (cZ q1 - cZ p1) / (cR q1 - cR p1)) by (field; auto).
    lra.
Qed.

(* ---------- assembling the four branches: every reported point lies on the wall edge and on the segment ---------- *)
Lemma seg_from_sorted P p q p1 q1 : ((p1 = p /\ q1 = q) \/ (p1 = q /\ q1 = p)) -> on_seg P p1 q1 -> on_seg P p q.
Proof. intros [[-> ->]|[-> ->]] H; [exact H | apply on_seg_sym; exact H]. Qed.

Lemma hit_V_zero s e p q : cZ e - cZ s == 0 -> hit_V 0 s e p q = None.
Proof. intro E. unfold hit_V. cbv zeta. apply Qeq_bool_iff in E. unfold Qeqb. rewrite E. reflexivity. Qed.

Lemma hit_H_sorted_sound s e p q P :
  cR s < cR e -> Qabs (cZ e - cZ s) < Qabs (cR e - cR s) -> hit_H 0 s e p q = Some P -> on_seg P p q /\ on_seg P s e.
Proof.
  intros Hse HH Hhit. destruct (is_a p q) eqn:Ha.
  - destruct (hit_H_a_sound _ _ _ _ _ Hse Ha Hhit) as (p1 & q1 & ES & C1 & C2 & R1 & R2).
    destruct (sortR_spec _ _ _ _ ES) as [Hle Hpq]. pose proof (is_a_nonzero _ _ _ _ Ha Hpq) as Hnz.
    split; [apply (seg_from_sorted _ _ _ _ _ Hpq); apply on_seg_R; [lra | exact C1 | exact R1] | apply on_seg_R; assumption].
  - destruct (hit_H_b_sound _ _ _ _ _ Hse HH Ha Hhit) as (p1 & q1 & ES & C1 & C2 & R1 & R2).
    destruct (sortZ_spec _ _ _ _ ES) as [Hle Hpq].
    assert (Hnz : ~ cZ q1 - cZ p1 == 0).
    { intro E. revert Hhit. unfold hit_H. cbv zeta. rewrite Ha, ES. apply Qeq_bool_iff in E. unfold Qeqb. rewrite E. discriminate. }
    split; [apply (seg_from_sorted _ _ _ _ _ Hpq); apply on_seg_Z; [lra | exact C1 | exact R1] | apply on_seg_R; assumption].
Qed.

Lemma hit_V_sorted_sound s e p q P :
  cZ s <= cZ e -> Qabs (cR e - cR s) <= Qabs (cZ e - cZ s) -> hit_V 0 s e p q = Some P -> on_seg P p q /\ on_seg P s e.
Proof.
  intros Hse0 HV Hhit.
  assert (Hse : cZ s < cZ e).
  { destruct (Qlt_le_dec (cZ s) (cZ e)) as [L|L]; [exact L|]. rewrite hit_V_zero in Hhit by lra. discriminate. }
  destruct (is_a p q) eqn:Ha.
  - destruct (hit_V_a_sound _ _ _ _ _ Hse HV Ha Hhit) as (p1 & q1 & ES & C1 & C2 & R1 & R2).
    destruct (sortR_spec _ _ _ _ ES) as [Hle Hpq]. pose proof (is_a_nonzero _ _ _ _ Ha Hpq) as Hnz.
    split; [apply (seg_from_sorted _ _ _ _ _ Hpq); apply on_seg_R; [lra | exact C1 | exact R1] | apply on_seg_Z; assumption].
  - destruct (hit_V_b_sound _ _ _ _ _ Hse Ha Hhit) as (p1 & q1 & ES & C1 & C2 & R1 & R2).
    destruct (sortZ_spec _ _ _ _ ES) as [Hle Hpq].
    assert (Hnz : ~ cZ q1 - cZ p1 == 0).
    { intro E. revert Hhit. unfold hit_V. cbv zeta. destruct (Qeqb (cZ e - cZ s) 0); [discriminate|]. rewrite Ha, ES. apply Qeq_bool_iff in E. unfold Qeqb. rewrite E. discriminate. }
    split; [apply (seg_from_sorted _ _ _ _ _ Hpq); apply on_seg_Z; [lra | exact C1 | exact R1] | apply on_seg_Z; assumption].
Qed.

Theorem hit_sound s e p q P : hit 0 s e p q = Some P -> on_seg P p q /\ on_seg P s e.
Proof.
  unfold hit. destruct (seg_is_H s e) eqn:EH.
  - unfold seg_is_H in EH. apply Qltb_true in EH.
    assert (Hnz : ~ cR e - cR s == 0) by (apply (abs_lt_nonzero _ _ EH)).
    destruct (Qltb (cR e) (cR s)) eqn:Esw.
    + apply Qltb_true in Esw. intro H.
      destruct (hit_H_sorted_sound e s p q P Esw) as [A B]; [rewrite (abs_swap (cZ s)), (abs_swap (cR s)); exact EH | exact H |].
      split; [exact A | apply on_seg_sym; exact B].
    + apply Qltb_false in Esw. intro H. apply hit_H_sorted_sound; [lra | exact EH | exact H].
  - unfold seg_is_H in EH. apply Qltb_false in EH.
    destruct (Qltb (cZ e) (cZ s)) eqn:Esw.
    + apply Qltb_true in Esw. intro H.
      destruct (hit_V_sorted_sound e s p q P) as [A B]; [lra | rewrite (abs_swap (cR s)), (abs_swap (cZ s)); exact EH | exact H |].
      split; [exact A | apply on_seg_sym; exact B].
    + apply Qltb_false in Esw. intro H. apply hit_V_sorted_sound; [exact Esw | exact EH | exact H].
Qed.

(* lifted to the whole polyline: every point find_intersections reports lies on some wall edge and on the segment *)
Theorem find_intersections_sound wall s e P :
  In P (find_intersections 0 wall s e) -> exists p q, In (p, q) (edges wall) /\ on_seg P p q /\ on_seg P s e.
Proof.
  unfold find_intersections. rewrite in_app_iff, !in_flat_map.
  intros [((p, q) & Hin & HP) | ((p, q) & Hin & HP)]; simpl in HP;
    destruct (is_a p q); simpl in HP; try contradiction;
    destruct (hit 0 s e p q) as [P'|] eqn:EHit; simpl in HP; try contradiction;
    destruct HP as [<-|[]]; exists p, q; (split; [exact Hin | apply hit_sound; exact EHit]).
Qed.
