(* C07: the vector calc_curvature dots curl(b/B) with for the y-component is the Grad(y) that is DUAL to the grid:
   perpendicular to the displacement between radial neighbours (e_x) and with Grad(y).e_y = 1, where cos/sin/tan(beta)
   are what calcBeta computes (gen/Gen_Metric.v) and the projection vector is REGENERATED from calc_curvature (gen/Gen_Fields.v). *)
From Coq Require Import Reals Lra Nsatz.
From HT Require Import Field Proof_Metric Proof_Metric2.
From HG Require Import Gen_Metric Gen_Fields.
Local Open Scope R_scope.

Section Dual.
  Variables dR dZ BRv BZv k Rx Bp hy bps : R.      (* dr = (dR, dZ): displacement between the radial neighbours calcBeta uses *)
  Hypothesis Hk : 0 < k.
  Hypothesis HR : 0 < Rx.
  Hypothesis HBp : Bp <> 0.
  Hypothesis Hhy : hy <> 0.
  Hypothesis Hbps : bps * bps = 1.
  Hypothesis Habs : Rabs Bp = bps * Bp.
  Hypothesis Hmod : BRv * BRv + BZv * BZv = Bp * Bp.
  (* grad psi = (-R B_Z, R B_R)  (C07_gradx) *)
  Let pR := - Rx * BZv.
  Let pZ := Rx * BRv.
  Hypothesis Hdx : dxlin dR dZ pR pZ <> 0.         (* the two neighbours are on different flux surfaces *)
  Let tB := tanB dR dZ pR pZ k.

  Lemma Hgrad : pR * pR + pZ * pZ = Rx * Bp * (Rx * Bp).
  Proof. unfold pR, pZ. replace (Rx * Bp * (Rx * Bp)) with (Rx * Rx * (Bp * Bp)) by ring. rewrite <- Hmod. ring. Qed.

  Lemma tan_rel : tB * (BRv * dZ - BZv * dR) = BRv * dR + BZv * dZ.
  Proof.
    pose proof (tanB_closed dR dZ pR pZ k Rx Bp bps Hk HR HBp Hbps Habs Hgrad Hdx) as T. fold tB in T.
    unfold dxlin, pR, pZ in T. apply Rmult_eq_reg_l with (r := Rx); [|lra]. lra.
  Qed.

  (* non-orthogonal branch: perpendicular to e_x, and Grad(y).e_y = 1 with e_y = hy * (B_R, B_Z)/Bpxy *)
  Theorem grady_nonorth_dual :
    let vR := F_grady_nonorth_R BRv BZv tB Bp hy / F_grady_nonorth_den BRv BZv tB Bp hy in
    let vZ := F_grady_nonorth_Z BRv BZv tB Bp hy / F_grady_nonorth_den BRv BZv tB Bp hy in
    vR * dR + vZ * dZ = 0 /\ vR * (hy * BRv / Bp) + vZ * (hy * BZv / Bp) = 1.
  Proof.
    pose proof tan_rel as T. unfold F_grady_nonorth_R, F_grady_nonorth_Z, F_grady_nonorth_den. split.
    - replace ((BRv + BZv * tB) / (Bp * hy) * dR + (BZv - BRv * tB) / (Bp * hy) * dZ)
        with (((BRv * dR + BZv * dZ) - tB * (BRv * dZ - BZv * dR)) / (Bp * hy)) by (field; split; assumption).
      rewrite T. field. split; assumption.
    - replace ((BRv + BZv * tB) / (Bp * hy) * (hy * BRv / Bp) + (BZv - BRv * tB) / (Bp * hy) * (hy * BZv / Bp))
        with ((BRv * BRv + BZv * BZv) / (Bp * Bp)) by (field; split; assumption).
      rewrite Hmod. field. exact HBp.
  Qed.
  (* orthogonal branch (tan beta = 0, dr parallel to grad psi) *)
  Theorem grady_orth_dual : BRv * dR + BZv * dZ = 0 ->
    let vR := F_grady_orth_R BRv BZv 0 Bp hy / F_grady_orth_den BRv BZv 0 Bp hy in
    let vZ := F_grady_orth_Z BRv BZv 0 Bp hy / F_grady_orth_den BRv BZv 0 Bp hy in
    vR * dR + vZ * dZ = 0 /\ vR * (hy * BRv / Bp) + vZ * (hy * BZv / Bp) = 1.
  Proof.
    intro Ho. unfold F_grady_orth_R, F_grady_orth_Z, F_grady_orth_den. split.
    - replace (BRv / (Bp * hy) * dR + BZv / (Bp * hy) * dZ) with ((BRv * dR + BZv * dZ) / (Bp * hy)) by (field; split; assumption). rewrite Ho. field. split; assumption.
    - replace (BRv / (Bp * hy) * (hy * BRv / Bp) + BZv / (Bp * hy) * (hy * BZv / Bp)) with ((BRv * BRv + BZv * BZv) / (Bp * Bp)) by (field; split; assumption).
      rewrite Hmod. field. exact HBp.
  Qed.
End Dual.
