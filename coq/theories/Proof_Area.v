(* C11 / C20: what polygons.area / clockwise compute (exact rationals): translation invariance, the triangle case. *)
From Coq Require Import QArith Qabs List Bool Lia Lqa.
From HT Require Import Model_Geom2D Proof_Geom2D Model_Wall Proof_Wall.
Import ListNotations.
Local Open Scope Q_scope.

Definition shift (a b : Q) (p : pt) : pt := mkpt (cR p + a) (cZ p + b).

Lemma edge_term_shift a b p q : edge_term (shift a b p) (shift a b q) == edge_term p q + 2 * b * (cR q - cR p).
Proof. unfold edge_term, shift; cbn [cR cZ]. ring. Qed.

Lemma path_shift a b (l : list pt) x : path (map (shift a b) (x :: l)) == path (x :: l) + 2 * b * (cR (last l x) - cR x).
Proof.
  revert x. induction l as [|y r IH]; intros x.
  - cbn. ring.
  - change (map (shift a b) (x :: y :: r)) with (shift a b x :: map (shift a b) (y :: r)).
    change (map (shift a b) (y :: r)) with (shift a b y :: map (shift a b) r) at 1.
    rewrite path_cons2. change (shift a b y :: map (shift a b) r) with (map (shift a b) (y :: r)).
    rewrite IH, edge_term_shift, path_cons2, last_cons2. ring.
Qed.

Lemma last_map_shift a b (l : list pt) x : last (map (shift a b) l) (shift a b x) = shift a b (last l x).
Proof.
  revert x. induction l as [|y r IH]; intros x; [reflexivity|]. destruct r as [|z r']; [reflexivity|].
  change (last (map (shift a b) (y :: z :: r')) (shift a b x)) with (last (map (shift a b) (z :: r')) (shift a b x)).
  change (last (y :: z :: r') x) with (last (z :: r') x). apply IH.
Qed.

(* the signed area does not depend on where the polygon is (so neither does the orientation test) -- polygons of any size *)
Theorem area2_translation_invariant a b (w : list pt) : area2 (map (shift a b) w) == area2 w.
Proof.
  destruct w as [|x r]; [reflexivity|].
  unfold area2. cbn [map]. change (shift a b x :: map (shift a b) r) with (map (shift a b) (x :: r)).
  change (area2_from (shift a b x) (map (shift a b) (x :: r))) with (area2_from (shift a b x) (shift a b x :: map (shift a b) r)).
  rewrite !area2_from_path. change (shift a b x :: map (shift a b) r) with (map (shift a b) (x :: r)).
  rewrite path_shift, last_map_shift, edge_term_shift. ring.
Qed.

Theorem clockwise_translation_invariant a b (w : list pt) : clockwise (map (shift a b) w) = clockwise w.
Proof.
  unfold clockwise, area. pose proof (area2_translation_invariant a b w) as H.
  destruct (Qltb 0 ((1 # 2) * area2 (map (shift a b) w))) eqn:E1; destruct (Qltb 0 ((1 # 2) * area2 w)) eqn:E2; try reflexivity; exfalso.
  - apply Qltb_true in E1. apply Qltb_false in E2. rewrite H in E1. lra.
  - apply Qltb_false in E1. apply Qltb_true in E2. rewrite H in E1. lra.
Qed.

(* a triangle: twice the signed area is minus the cross product of two edge vectors, so `clockwise` is true exactly when the third
   vertex lies to the RIGHT of the directed line from the first to the second *)
Definition cross3 (p q r : pt) : Q := (cR q - cR p) * (cZ r - cZ p) - (cR r - cR p) * (cZ q - cZ p).

Theorem triangle_area2 p q r : area2 [p; q; r] == - cross3 p q r.
Proof. unfold area2, cross3. cbn [area2_from]. ring. Qed.

Theorem triangle_clockwise p q r : clockwise [p; q; r] = true <-> cross3 p q r < 0.
Proof.
  unfold clockwise, area. rewrite Qltb_true, triangle_area2. split; intros H; lra.
Qed.
