(* C09: theorems about make1dGrid (theories/Model_Grid1d.v). *)
From Coq Require Import ZArith List Bool Arith Lia Reals Lra.
From HT Require Import Field Model_Quadrature Proof_Quadrature Model_Stencil Model_Grid1d Proof_Stencil.
Import ListNotations.

Section Generic.
  Context {T : Type} (O : ops T).

  (* one face value per cell boundary, one centre per cell: 2n + 1 entries for n + 1 faces, for every n *)
  Lemma interleave_length (faces : list T) : faces <> [] -> length (interleave O faces) = (2 * length faces - 1)%nat.
  Proof.
    induction faces as [|a t IH]; [congruence|]. intros _. destruct t as [|b u]; [reflexivity|].
    change (interleave O (a :: b :: u)) with (a :: omul O (ghalf O) (oadd O a b) :: interleave O (b :: u)).
    cbn [length] in *. rewrite IH by discriminate. cbn [length]. lia.
  Qed.

  (* the even entries ARE the face values (the ends of the grid are exactly the first and the last value of the spacing function) *)
  Lemma interleave_even (faces : list T) d : forall k, (k < length faces)%nat -> nth (2 * k) (interleave O faces) d = nth k faces d.
  Proof.
    induction faces as [|a t IH]; intros k Hk; [cbn in Hk; lia|]. destruct t as [|b u].
    - destruct k; [reflexivity|cbn in Hk; lia].
    - change (interleave O (a :: b :: u)) with (a :: omul O (ghalf O) (oadd O a b) :: interleave O (b :: u)).
      destruct k as [|k]; [reflexivity|]. replace (2 * S k)%nat with (S (S (2 * k))) by lia. cbn [nth]. apply IH. cbn [length] in *. lia.
  Qed.

  (* the guard is sound in ANY arithmetic: an accepted grid has all differences positive or all negative *)
  Theorem make_1d_grid_sound (faces r : list T) : make_1d_grid O faces = Some r ->
    r = interleave O faces /\ (all_pos O (diffs O r) = true \/ all_neg O (diffs O r) = true).
  Proof.
    unfold make_1d_grid. destruct (all_pos O (diffs O (interleave O faces)) || all_neg O (diffs O (interleave O faces))) eqn:E; [|discriminate].
    intros H. injection H as <-. split; [reflexivity|]. apply orb_true_iff in E. exact E.
  Qed.
End Generic.

Local Open Scope R_scope.

Lemma interleave_head (b : R) u : exists tl, interleave Rops (b :: u) = b :: tl.
Proof. destruct u as [|c v]; [exists []; reflexivity|]. eexists. reflexivity. Qed.

Lemma half_R a b : omul Rops (ghalf Rops) (oadd Rops a b) = (a + b) / 2.
Proof. unfold ghalf. cbn [omul oadd odiv oconst Rops Rc Z.eqb Pos.eqb]. field. Qed.

(* over the reals: strictly increasing (decreasing) face values always pass the guard -- the centres lie strictly between
   their faces -- so make1dGrid refuses only when the spacing function itself is not monotone *)
Lemma interleave_diffs_pos (faces : list R) : increasing faces -> all_pos Rops (diffs Rops (interleave Rops faces)) = true.
Proof.
  induction faces as [|a t IH]; intros Hinc; [reflexivity|]. destruct t as [|b u]; [reflexivity|].
  change (interleave Rops (a :: b :: u)) with (a :: omul Rops (ghalf Rops) (oadd Rops a b) :: interleave Rops (b :: u)).
  pose proof (Hinc 0%nat ltac:(cbn; lia)) as Hab. cbn [nth] in Hab.
  rewrite half_R. specialize (IH (increasing_tail _ _ Hinc)).
  destruct (interleave_head b u) as [tl E]. rewrite E in *.
  change (diffs Rops (a :: (a + b) / 2 :: b :: tl)) with (((a + b) / 2 - a) :: (b - (a + b) / 2) :: diffs Rops (b :: tl)).
  unfold all_pos in *. cbn [forallb]. change (gzero Rops) with 0 in *. cbn [olt Rops].
  rewrite (proj2 (Rltb_iff 0 ((a + b) / 2 - a))) by lra. rewrite (proj2 (Rltb_iff 0 (b - (a + b) / 2))) by lra. cbn [andb]. exact IH.
Qed.

Definition decreasing (X : list R) : Prop := forall k, (S k < length X)%nat -> nth (S k) X 0 < nth k X 0.
Lemma decreasing_tail a t : decreasing (a :: t) -> decreasing t.
Proof. intros H k Hk. apply (H (S k)). cbn [length]. lia. Qed.

Lemma interleave_diffs_neg (faces : list R) : decreasing faces -> all_neg Rops (diffs Rops (interleave Rops faces)) = true.
Proof.
  induction faces as [|a t IH]; intros Hdec; [reflexivity|]. destruct t as [|b u]; [reflexivity|].
  change (interleave Rops (a :: b :: u)) with (a :: omul Rops (ghalf Rops) (oadd Rops a b) :: interleave Rops (b :: u)).
  pose proof (Hdec 0%nat ltac:(cbn; lia)) as Hab. cbn [nth] in Hab.
  rewrite half_R. specialize (IH (decreasing_tail _ _ Hdec)).
  destruct (interleave_head b u) as [tl E]. rewrite E in *.
  change (diffs Rops (a :: (a + b) / 2 :: b :: tl)) with (((a + b) / 2 - a) :: (b - (a + b) / 2) :: diffs Rops (b :: tl)).
  unfold all_neg in *. cbn [forallb]. change (gzero Rops) with 0 in *. cbn [olt Rops].
  rewrite (proj2 (Rltb_iff ((a + b) / 2 - a) 0)) by lra. rewrite (proj2 (Rltb_iff (b - (a + b) / 2) 0)) by lra. cbn [andb]. exact IH.
Qed.

Theorem make_1d_grid_accepts_monotone (faces : list R) : increasing faces \/ decreasing faces ->
  make_1d_grid Rops faces = Some (interleave Rops faces).
Proof.
  intros [H|H]; unfold make_1d_grid.
  - rewrite (interleave_diffs_pos faces H). reflexivity.
  - rewrite (interleave_diffs_neg faces H), orb_true_r. reflexivity.
Qed.

Example grid1d_example : make_1d_grid Rops [1; 2; 4] = Some [1; (1 + 2) / 2; 2; (2 + 4) / 2; 4].
Proof.
  rewrite make_1d_grid_accepts_monotone.
  - cbn [interleave]. rewrite !half_R. reflexivity.
  - left. intros k Hk. destruct k as [|[|k]]; cbn in *; try lra; lia.
Qed.
