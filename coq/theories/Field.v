(* Abstract arithmetic signature over which the translated formulas are written.
   The SAME generated text is instantiated with R (theorems) and PrimFloat (evaluation). *)
From Coq Require Import ZArith Reals PrimFloat Uint63.

Record ops (T : Type) := mkOps {
  oadd : T -> T -> T;  osub : T -> T -> T;  omul : T -> T -> T;  odiv : T -> T -> T;
  oopp : T -> T;  oabs : T -> T;  osqrt : T -> T;
  oconst : Z -> Z -> T;            (* numerator / denominator *)
  osin : T -> T; ocos : T -> T; otan : T -> T; oexp : T -> T; olog : T -> T; oatan : T -> T;
  olt : T -> T -> bool; ole : T -> T -> bool;
  opi : T
}.
Arguments oadd {T}. Arguments osub {T}. Arguments omul {T}. Arguments odiv {T}.
Arguments oopp {T}. Arguments oabs {T}. Arguments osqrt {T}. Arguments oconst {T}.
Arguments osin {T}. Arguments ocos {T}. Arguments otan {T}. Arguments oexp {T}.
Arguments olog {T}. Arguments oatan {T}. Arguments olt {T}. Arguments ole {T}. Arguments opi {T}.

Definition ogt {T} (O : ops T) (a b : T) : bool := olt O b a.
Definition oge {T} (O : ops T) (a b : T) : bool := ole O b a.

Fixpoint opow {T} (O : ops T) (x : T) (n : nat) : T :=
  match n with
  | O => oconst O 1 1
  | S O => x
  | S m => omul O x (opow O x m)
  end.

(* ---- real instance ---- *)
Definition Rltb (a b : R) : bool := if Rlt_dec a b then true else false.
Definition Rleb (a b : R) : bool := if Rle_dec a b then true else false.
Definition Rc (n d : Z) : R := if Z.eqb d 1 then IZR n else (IZR n / IZR d)%R.

Definition Rops : ops R := {|
  oadd := Rplus; osub := Rminus; omul := Rmult; odiv := Rdiv; oopp := Ropp; oabs := Rbasic_fun.Rabs;
  osqrt := R_sqrt.sqrt; oconst := Rc;
  osin := sin; ocos := cos; otan := tan; oexp := exp; olog := ln; oatan := atan;
  olt := Rltb; ole := Rleb; opi := PI |}.

(* ---- binary64 instance (transcendentals are not available: they return nan, and
        formulas that use them are validated through the IR evaluator / Interval) ---- *)
Definition Fz (z : Z) : float :=
  match z with
  | Z0 => 0%float
  | Zpos p => PrimFloat.of_uint63 (Uint63.of_Z (Zpos p))
  | Zneg p => PrimFloat.opp (PrimFloat.of_uint63 (Uint63.of_Z (Zpos p)))
  end.
Definition Fc (n d : Z) : float := if Z.eqb d 1 then Fz n else PrimFloat.div (Fz n) (Fz d).
Definition Fnan (x : float) : float := nan.

Definition Fops : ops float := {|
  oadd := PrimFloat.add; osub := PrimFloat.sub; omul := PrimFloat.mul; odiv := PrimFloat.div;
  oopp := PrimFloat.opp; oabs := PrimFloat.abs; osqrt := PrimFloat.sqrt; oconst := Fc;
  osin := Fnan; ocos := Fnan; otan := Fnan; oexp := Fnan; olog := Fnan; oatan := Fnan;
  olt := PrimFloat.ltb; ole := PrimFloat.leb; opi := 0x1.921fb54442d18p+1%float |}.

(* |a-b| <= tol * max(1,|b|), false on nan *)
Definition Fclose (tol a b : float) : bool :=
  PrimFloat.leb (PrimFloat.abs (PrimFloat.sub a b))
                (PrimFloat.mul tol (if PrimFloat.ltb 1 (PrimFloat.abs b) then PrimFloat.abs b else 1)).

Ltac unfold_ops :=
  cbv [oadd osub omul odiv oopp oabs osqrt oconst osin ocos otan oexp olog oatan olt ole opi ogt oge
       opow Rops Rc Z.eqb Pos.eqb].
