(* C20: specification theorems for polygons.intersect (theories/Model_Geom2D.v: seg_cross / poly_intersect), exact rationals. *)
From Coq Require Import QArith Qabs Qfield Lqa List Bool.
From HT Require Import Model_Geom2D Proof_Geom2D.
Import ListNotations.
Local Open Scope Q_scope.

(* the point at parameter t of the segment from a to b *)
Definition on_seg (a b : pt) (t : Q) : pt := mkpt (cR a + t * (cR b - cR a)) (cZ a + t * (cZ b - cZ a)).
Definition same_pt (p q : pt) : Prop := cR p == cR q /\ cZ p == cZ q.

Definition det4 (p1 p1n p2 p2n : pt) : Q :=
  (cR p1n - cR p1) * (cZ p2n - cZ p2) - (cR p2n - cR p2) * (cZ p1n - cZ p1).

(* soundness: a reported crossing is a PROPER crossing -- one point strictly inside both segments *)
Theorem seg_cross_sound p1 p1n p2 p2n : seg_cross p1 p1n p2 p2n = true ->
  exists s t, 0 < s /\ s < 1 /\ 0 < t /\ t < 1 /\ same_pt (on_seg p1 p1n s) (on_seg p2 p2n t).
Proof.
  unfold seg_cross. cbv zeta. fold (det4 p1 p1n p2 p2n).
  destruct (Qltb (Qabs (det4 p1 p1n p2 p2n)) det_eps) eqn:E; [discriminate|].
  apply Qltb_false in E.
  assert (Hd : ~ det4 p1 p1n p2 p2n == 0).
  { intros H0. rewrite H0 in E. unfold det_eps in E. cbn in E. compute in E. apply E. reflexivity. }
  set (alpha := ((cZ p2n - cZ p2) * (cR p2n - cR p1) - (cR p2n - cR p2) * (cZ p2n - cZ p1)) / det4 p1 p1n p2 p2n).
  set (beta := ((cR p1n - cR p1) * (cZ p2n - cZ p1) - (cZ p1n - cZ p1) * (cR p2n - cR p1)) / det4 p1 p1n p2 p2n).
  rewrite !andb_true_iff, !Qltb_true. intros [[[A0 A1] B0] B1].
  exists alpha, (1 - beta). repeat split; try assumption; try lra.
  - unfold on_seg; cbn [cR cZ]. unfold alpha, beta, det4 in *. field. exact Hd.
  - unfold on_seg; cbn [cR cZ]. unfold alpha, beta, det4 in *. field. exact Hd.
Qed.

(* completeness: a proper crossing of two segments that are not (nearly) parallel is reported *)
Theorem seg_cross_complete p1 p1n p2 p2n s t : det_eps <= Qabs (det4 p1 p1n p2 p2n) ->
  0 < s -> s < 1 -> 0 < t -> t < 1 -> same_pt (on_seg p1 p1n s) (on_seg p2 p2n t) ->
  seg_cross p1 p1n p2 p2n = true.
Proof.
  intros Hdet S0 S1 T0 T1 [HR HZ]. unfold on_seg in HR, HZ; cbn [cR cZ] in HR, HZ.
  unfold seg_cross. cbv zeta. fold (det4 p1 p1n p2 p2n).
  assert (E : Qltb (Qabs (det4 p1 p1n p2 p2n)) det_eps = false) by (apply Qltb_false; exact Hdet).
  rewrite E.
  assert (Hd : ~ det4 p1 p1n p2 p2n == 0).
  { intros H0. rewrite H0 in Hdet. unfold det_eps in Hdet. compute in Hdet. apply Hdet. reflexivity. }
  assert (Hdr : cR p2n - cR p1 == s * (cR p1n - cR p1) + (1 - t) * (cR p2n - cR p2)) by lra.
  assert (Hdz : cZ p2n - cZ p1 == s * (cZ p1n - cZ p1) + (1 - t) * (cZ p2n - cZ p2)) by lra.
  assert (Ha : ((cZ p2n - cZ p2) * (cR p2n - cR p1) - (cR p2n - cR p2) * (cZ p2n - cZ p1)) / det4 p1 p1n p2 p2n == s).
  { rewrite Hdr, Hdz. unfold det4 in *. field. exact Hd. }
  assert (Hb : ((cR p1n - cR p1) * (cZ p2n - cZ p1) - (cZ p1n - cZ p1) * (cR p2n - cR p1)) / det4 p1 p1n p2 p2n == 1 - t).
  { rewrite Hdr, Hdz. unfold det4 in *. field. exact Hd. }
  rewrite !andb_true_iff, !Qltb_true. rewrite Ha, Hb. repeat split; lra.
Qed.

(* the test is symmetric in the two segments *)
Theorem seg_cross_sym p1 p1n p2 p2n : seg_cross p1 p1n p2 p2n = seg_cross p2 p2n p1 p1n.
Proof.
  assert (Hdet : Qabs (det4 p2 p2n p1 p1n) == Qabs (det4 p1 p1n p2 p2n)).
  { replace (det4 p2 p2n p1 p1n) with (det4 p2 p2n p1 p1n) by reflexivity.
    assert (E : det4 p2 p2n p1 p1n == - det4 p1 p1n p2 p2n) by (unfold det4; ring). rewrite E. apply Qabs_opp. }
  destruct (seg_cross p1 p1n p2 p2n) eqn:E1; destruct (seg_cross p2 p2n p1 p1n) eqn:E2; try reflexivity; exfalso.
  - destruct (seg_cross_sound _ _ _ _ E1) as [s [t [S0 [S1 [T0 [T1 [HR HZ]]]]]]].
    assert (Hd : det_eps <= Qabs (det4 p2 p2n p1 p1n)).
    { rewrite Hdet. unfold seg_cross in E1. cbv zeta in E1. fold (det4 p1 p1n p2 p2n) in E1.
      destruct (Qltb (Qabs (det4 p1 p1n p2 p2n)) det_eps) eqn:E; [discriminate|]. apply Qltb_false in E. exact E. }
    rewrite (seg_cross_complete p2 p2n p1 p1n t s Hd T0 T1 S0 S1) in E2; [discriminate|].
    split; [symmetry; exact HR|symmetry; exact HZ].
  - destruct (seg_cross_sound _ _ _ _ E2) as [s [t [S0 [S1 [T0 [T1 [HR HZ]]]]]]].
    assert (Hd : det_eps <= Qabs (det4 p1 p1n p2 p2n)).
    { rewrite <- Hdet. unfold seg_cross in E2. cbv zeta in E2. fold (det4 p2 p2n p1 p1n) in E2.
      destruct (Qltb (Qabs (det4 p2 p2n p1 p1n)) det_eps) eqn:E; [discriminate|]. apply Qltb_false in E. exact E. }
    rewrite (seg_cross_complete p1 p1n p2 p2n t s Hd T0 T1 S0 S1) in E1; [discriminate|].
    split; [symmetry; exact HR|symmetry; exact HZ].
Qed.

(* polygons.intersect: true exactly when some edge of the first properly crosses some edge of the second; symmetric in its arguments *)
Theorem poly_intersect_spec c1 c2 w1 w2 : poly_intersect c1 c2 w1 w2 = true <->
  exists e1 e2, In e1 (poly_edges c1 w1) /\ In e2 (poly_edges c2 w2) /\ seg_cross (fst e1) (snd e1) (fst e2) (snd e2) = true.
Proof.
  unfold poly_intersect. rewrite existsb_exists. split.
  - intros [e1 [H1 H]]. apply existsb_exists in H. destruct H as [e2 [H2 H]]. exists e1, e2. auto.
  - intros [e1 [e2 [H1 [H2 H]]]]. exists e1. split; [exact H1|]. apply existsb_exists. exists e2. auto.
Qed.

Theorem poly_intersect_sym c1 c2 w1 w2 : poly_intersect c1 c2 w1 w2 = poly_intersect c2 c1 w2 w1.
Proof.
  destruct (poly_intersect c1 c2 w1 w2) eqn:E1; destruct (poly_intersect c2 c1 w2 w1) eqn:E2; try reflexivity; exfalso.
  - apply poly_intersect_spec in E1. destruct E1 as [e1 [e2 [H1 [H2 H]]]].
    assert (poly_intersect c2 c1 w2 w1 = true) by (apply poly_intersect_spec; exists e2, e1; rewrite <- seg_cross_sym; auto). congruence.
  - apply poly_intersect_spec in E2. destruct E2 as [e2 [e1 [H2 [H1 H]]]].
    assert (poly_intersect c1 c2 w1 w2 = true) by (apply poly_intersect_spec; exists e1, e2; rewrite <- seg_cross_sym; auto). congruence.
Qed.
