(* C02: theorems about the TRANSLATED calcMetric / geometry2 / calcBeta formulas (gen/Gen_Metric.v).
   The definitions metric_*, geom2_dphidy, beta_* are regenerated from /repo/hypnotoad/core/mesh.py
   on every run; the statements below are about whatever the source says now. *)
From Coq Require Import Reals Lra Nsatz ZArith.
From HT Require Import Field.
From HG Require Import Gen_Metric.
Local Open Scope R_scope.

Ltac unfold_metric :=
  cbv [metric_orth_g11 metric_orth_g22 metric_orth_g33 metric_orth_g12 metric_orth_g13 metric_orth_g23
       metric_orth_J metric_orth_g_11 metric_orth_g_22 metric_orth_g_33 metric_orth_g_12 metric_orth_g_13
       metric_orth_g_23 metric_nonorth_g11 metric_nonorth_g22 metric_nonorth_g33 metric_nonorth_g12
       metric_nonorth_g13 metric_nonorth_g23 metric_nonorth_J metric_nonorth_g_11 metric_nonorth_g_22
       metric_nonorth_g_33 metric_nonorth_g_12 metric_nonorth_g_13 metric_nonorth_g_23 geom2_dphidy
       beta_tan];
  unfold_ops.

Lemma sq1_ne0 (b : R) : b * b = 1 -> b <> 0.
Proof. intros H E; rewrite E in H; lra. Qed.

(* NB: nsatz fails ("not in the ideal") when a disequality is introduced by `Let`; keep them as hypotheses *)
Ltac poly := field_simplify_eq; [cbv beta iota delta [Rpow_def.pow]; nsatz | repeat split; first [assumption | apply sq1_ne0; assumption | apply Rabs_no_R0; assumption] ..].

Section Metric.
  Variables Rx Bp hy dphidy cosB tanB bps sinB : R.
  Hypothesis HR : Rx <> 0.
  Hypothesis HBp : Bp <> 0.
  Hypothesis Hhy : hy <> 0.
  Hypothesis Hcos : cosB <> 0.
  Hypothesis Htan : tanB * cosB = sinB.
  Hypothesis Hunit : cosB * cosB + sinB * sinB = 1.
  Hypothesis Hbps : bps * bps = 1.
  Hypothesis Habs : Rabs Bp = bps * Bp.      (* the sign carried by Bpxy is bpsign (geometry1 raises otherwise) *)

  Notation O := Rops.
  Notation G f := (f O Rx Bp hy dphidy cosB tanB bps).
  Ltac inv := unfold_metric; rewrite ?Habs; poly.

  (* --- matrix inverse g^{ij} g_{jk} = delta_ik, determinant and Jacobian, both branches --- *)
  Lemma no_inv_11 : G metric_nonorth_g11 * G metric_nonorth_g_11 + G metric_nonorth_g12 * G metric_nonorth_g_12 + G metric_nonorth_g13 * G metric_nonorth_g_13 = 1.
  Proof. inv. Qed.
  Lemma no_inv_12 : G metric_nonorth_g11 * G metric_nonorth_g_12 + G metric_nonorth_g12 * G metric_nonorth_g_22 + G metric_nonorth_g13 * G metric_nonorth_g_23 = 0.
  Proof. inv. Qed.
  Lemma no_inv_13 : G metric_nonorth_g11 * G metric_nonorth_g_13 + G metric_nonorth_g12 * G metric_nonorth_g_23 + G metric_nonorth_g13 * G metric_nonorth_g_33 = 0.
  Proof. inv. Qed.
  Lemma no_inv_21 : G metric_nonorth_g12 * G metric_nonorth_g_11 + G metric_nonorth_g22 * G metric_nonorth_g_12 + G metric_nonorth_g23 * G metric_nonorth_g_13 = 0.
  Proof. inv. Qed.
  Lemma no_inv_22 : G metric_nonorth_g12 * G metric_nonorth_g_12 + G metric_nonorth_g22 * G metric_nonorth_g_22 + G metric_nonorth_g23 * G metric_nonorth_g_23 = 1.
  Proof. inv. Qed.
  Lemma no_inv_23 : G metric_nonorth_g12 * G metric_nonorth_g_13 + G metric_nonorth_g22 * G metric_nonorth_g_23 + G metric_nonorth_g23 * G metric_nonorth_g_33 = 0.
  Proof. inv. Qed.
  Lemma no_inv_31 : G metric_nonorth_g13 * G metric_nonorth_g_11 + G metric_nonorth_g23 * G metric_nonorth_g_12 + G metric_nonorth_g33 * G metric_nonorth_g_13 = 0.
  Proof. inv. Qed.
  Lemma no_inv_32 : G metric_nonorth_g13 * G metric_nonorth_g_12 + G metric_nonorth_g23 * G metric_nonorth_g_22 + G metric_nonorth_g33 * G metric_nonorth_g_23 = 0.
  Proof. inv. Qed.
  Lemma no_inv_33 : G metric_nonorth_g13 * G metric_nonorth_g_13 + G metric_nonorth_g23 * G metric_nonorth_g_23 + G metric_nonorth_g33 * G metric_nonorth_g_33 = 1.
  Proof. inv. Qed.
  Definition no_det : R := G metric_nonorth_g11 * G metric_nonorth_g22 * G metric_nonorth_g33 + 2 * G metric_nonorth_g12 * G metric_nonorth_g13 * G metric_nonorth_g23 - G metric_nonorth_g11 * (G metric_nonorth_g23 * G metric_nonorth_g23) - G metric_nonorth_g22 * (G metric_nonorth_g13 * G metric_nonorth_g13) - G metric_nonorth_g33 * (G metric_nonorth_g12 * G metric_nonorth_g12).
  Lemma no_J_closed : G metric_nonorth_J = hy / Bp.
  Proof. unfold_metric. reflexivity. Qed.
  Lemma no_J_det : G metric_nonorth_J * G metric_nonorth_J * no_det = 1.
  Proof. unfold no_det. inv. Qed.
  Lemma no_det_closed : no_det = (Bp / hy) * (Bp / hy).
  Proof. unfold no_det. inv. Qed.
  Lemma or_inv_11 : G metric_orth_g11 * G metric_orth_g_11 + G metric_orth_g12 * G metric_orth_g_12 + G metric_orth_g13 * G metric_orth_g_13 = 1.
  Proof. inv. Qed.
  Lemma or_inv_12 : G metric_orth_g11 * G metric_orth_g_12 + G metric_orth_g12 * G metric_orth_g_22 + G metric_orth_g13 * G metric_orth_g_23 = 0.
  Proof. inv. Qed.
  Lemma or_inv_13 : G metric_orth_g11 * G metric_orth_g_13 + G metric_orth_g12 * G metric_orth_g_23 + G metric_orth_g13 * G metric_orth_g_33 = 0.
  Proof. inv. Qed.
  Lemma or_inv_21 : G metric_orth_g12 * G metric_orth_g_11 + G metric_orth_g22 * G metric_orth_g_12 + G metric_orth_g23 * G metric_orth_g_13 = 0.
  Proof. inv. Qed.
  Lemma or_inv_22 : G metric_orth_g12 * G metric_orth_g_12 + G metric_orth_g22 * G metric_orth_g_22 + G metric_orth_g23 * G metric_orth_g_23 = 1.
  Proof. inv. Qed.
  Lemma or_inv_23 : G metric_orth_g12 * G metric_orth_g_13 + G metric_orth_g22 * G metric_orth_g_23 + G metric_orth_g23 * G metric_orth_g_33 = 0.
  Proof. inv. Qed.
  Lemma or_inv_31 : G metric_orth_g13 * G metric_orth_g_11 + G metric_orth_g23 * G metric_orth_g_12 + G metric_orth_g33 * G metric_orth_g_13 = 0.
  Proof. inv. Qed.
  Lemma or_inv_32 : G metric_orth_g13 * G metric_orth_g_12 + G metric_orth_g23 * G metric_orth_g_22 + G metric_orth_g33 * G metric_orth_g_23 = 0.
  Proof. inv. Qed.
  Lemma or_inv_33 : G metric_orth_g13 * G metric_orth_g_13 + G metric_orth_g23 * G metric_orth_g_23 + G metric_orth_g33 * G metric_orth_g_33 = 1.
  Proof. inv. Qed.
  Definition or_det : R := G metric_orth_g11 * G metric_orth_g22 * G metric_orth_g33 + 2 * G metric_orth_g12 * G metric_orth_g13 * G metric_orth_g23 - G metric_orth_g11 * (G metric_orth_g23 * G metric_orth_g23) - G metric_orth_g22 * (G metric_orth_g13 * G metric_orth_g13) - G metric_orth_g33 * (G metric_orth_g12 * G metric_orth_g12).
  Lemma or_J_closed : G metric_orth_J = hy / Bp.
  Proof. unfold_metric. reflexivity. Qed.
  Lemma or_J_det : G metric_orth_J * G metric_orth_J * or_det = 1.
  Proof. unfold or_det. inv. Qed.
  Lemma or_det_closed : or_det = (Bp / hy) * (Bp / hy).
  Proof. unfold or_det. inv. Qed.

  (* --- closed forms named in the property --- *)
  Lemma g11_closed : G metric_orth_g11 = (Rx * Bp) * (Rx * Bp) /\ G metric_nonorth_g11 = (Rx * Bp) * (Rx * Bp).
  Proof. split; unfold_metric; ring. Qed.
  Lemma g_33_closed : G metric_orth_g_33 = Rx * Rx /\ G metric_nonorth_g_33 = Rx * Rx.
  Proof. split; unfold_metric; ring. Qed.
  Lemma g22_closed : G metric_orth_g22 = 1 / (hy * hy) /\ G metric_nonorth_g22 = 1 / ((hy * cosB) * (hy * cosB)).
  Proof. split; unfold_metric; field; auto. Qed.
  Lemma orth_offdiag_zero : G metric_orth_g12 = 0 /\ G metric_orth_g13 = 0 /\ G metric_orth_g_12 = 0 /\ G metric_orth_g_13 = 0.
  Proof. repeat split; unfold_metric; ring. Qed.
  Lemma g_22_poloidal_part : G metric_orth_g_22 - (Rx * dphidy) * (Rx * dphidy) = hy * hy
                          /\ G metric_nonorth_g_22 - (Rx * dphidy) * (Rx * dphidy) = hy * hy.
  Proof. split; unfold_metric; ring. Qed.

  (* Jcheck as the code computes it equals J when hy > 0 (the run-time Jacobian check passes on exact reals) *)
  Lemma sqrt_det (d : R) : d = (Bp / hy) * (Bp / hy) -> 0 < hy -> sqrt d = bps * Bp / hy.
  Proof.
    intros -> Hpos. replace (Bp / hy * (Bp / hy)) with (Rsqr (Bp / hy)) by (unfold Rsqr; ring). rewrite sqrt_Rsqr_abs. unfold Rdiv. rewrite Rabs_mult, Habs, (Rabs_right (/ hy)). ring.
    apply Rle_ge, Rlt_le, Rinv_0_lt_compat, Hpos.
  Qed.

  Lemma Jcheck_is_J_nonorth : 0 < hy -> G metric_nonorth_Jcheck = G metric_nonorth_J.
  Proof.
    intro Hpos. pose proof no_det_closed as D. unfold no_det in D.
    unfold metric_nonorth_Jcheck, metric_nonorth_J. unfold_ops.
    match goal with |- context [sqrt ?d] =>
      assert (E : d = Bp / hy * (Bp / hy)) by (rewrite <- D; unfold_metric; ring); rewrite E end.
    rewrite (sqrt_det _ eq_refl Hpos). field_simplify_eq; [cbv beta iota delta [Rpow_def.pow]; nsatz | repeat split; first [assumption | apply sq1_ne0; assumption]].
  Qed.
  Lemma Jcheck_is_J_orth : 0 < hy -> G metric_orth_Jcheck = G metric_orth_J.
  Proof.
    intro Hpos. pose proof or_det_closed as D. unfold or_det in D.
    unfold metric_orth_Jcheck, metric_orth_J. unfold_ops.
    match goal with |- context [sqrt ?d] =>
      assert (E : d = Bp / hy * (Bp / hy)) by (rewrite <- D; unfold_metric; ring); rewrite E end.
    rewrite (sqrt_det _ eq_refl Hpos). field_simplify_eq; [cbv beta iota delta [Rpow_def.pow]; nsatz | repeat split; first [assumption | apply sq1_ne0; assumption]].
  Qed.
  Lemma J_sign : 0 < hy -> 0 < bps * G metric_nonorth_J /\ 0 < bps * G metric_orth_J.
  Proof.
    intro Hpos. unfold_metric.
    assert (E : bps * (hy / Bp) = hy / (bps * Bp)).
    { pose proof (sq1_ne0 _ Hbps). apply Rmult_eq_reg_l with (r := bps * Bp); [|apply Rmult_integral_contrapositive_currified; assumption].
      field_simplify; [| repeat split; assumption ..]. replace (bps ^ 2) with 1 by (rewrite <- Hbps; ring). field. }
    assert (0 < bps * Bp) by (rewrite <- Habs; apply Rabs_pos_lt; assumption).
    rewrite E. split; apply Rdiv_lt_0_compat; assumption.
  Qed.
  Lemma J_sign_nonorth : 0 < hy -> 0 < bps * G metric_nonorth_J.
  Proof. intro Hp. exact (proj1 (J_sign Hp)). Qed.
  Lemma J_sign_orth : 0 < hy -> 0 < bps * G metric_orth_J.
  Proof. intro Hp. exact (proj2 (J_sign Hp)). Qed.

  (* --- y-z coupling: g_23 = g_33 * d(zShift)/dy, with d(zShift)/dy = hy*Bt/(R*|Bp|) the y-derivative
         of the integral calcZShift computes, and dphidy as geometry2 computes it --- *)
  Variable Bt : R.
  Definition dzShift_dy : R := hy * Bt / (Rx * Rabs Bp).
  Notation DPH := (geom2_dphidy O hy Bt Bp Rx).
  Notation GD f := (f O Rx Bp hy DPH cosB tanB bps).
  Lemma yz_coupling_nonorth : GD metric_nonorth_g_23 = GD metric_nonorth_g_33 * dzShift_dy.
  Proof. unfold dzShift_dy. inv. Qed.
  Lemma yz_coupling_orth : GD metric_orth_g_23 = GD metric_orth_g_33 * dzShift_dy.
  Proof. unfold dzShift_dy. inv. Qed.
  (* the orthogonal branch is the beta = 0 specialisation of the non-orthogonal one *)
  Lemma dphidy_closed : DPH = hy * Bt / (Bp * Rx).
  Proof. unfold_metric. reflexivity. Qed.
  Lemma dphidy_is_signed_dz : DPH = bps * dzShift_dy.
  Proof. unfold dzShift_dy. inv. Qed.
End Metric.
