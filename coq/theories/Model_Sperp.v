(* C10 hand model of FineContour.interpSSperp (used by getSfuncFixedPerpSpacing: spacing by distance PERPENDICULAR to a given
   vector near a target / X-point):
     vec_perp = (-vec[1], vec[0]) / |.|;   s_perp[k] = (positions[k] - positions[startInd]) . vec_perp;
     the loops that make s_perp monotone: going up from startInd, whenever an increment is negative the whole tail is reflected
     about the previous value (s_perp[i:] = 2 s_perp[i-1] - s_perp[i:]); going down from startInd likewise for the head;
     s_perp_total = s_perp[endInd] - s_perp[startInd];  s_of_sperp = interp1d(s_perp, distance - distance[startInd], linear, extrapolate).
   Over the `ops` record (PrimFloat instance run bit for bit against the real method; R instance for the theorems in Proof_Sperp.v). *)
From Coq Require Import ZArith List Bool Arith.
From HT Require Import Field Model_Quadrature.
Import ListNotations.

Section Sperp.
  Context {T : Type} (O : ops T).
  Definition pzero : T := oconst O 0 1.
  Definition ptwo : T := oconst O 2 1.

  Definition vec_perp (v : T * T) : T * T :=
    let a := oopp O (snd v) in
    let b := fst v in
    let n := osqrt O (oadd O (omul O a a) (omul O b b)) in
    (odiv O a n, odiv O b n).

  Definition s_perp_raw (pos : list (T * T)) (start vp : T * T) : list T :=
    map (fun p => oadd O (omul O (osub O (fst p) (fst start)) (fst vp)) (omul O (osub O (snd p) (snd start)) (snd vp))) pos.

  Definition reflect (c : T) (l : list T) : list T := map (fun y => osub O (omul O ptwo c) y) l.

  (* going up: l = s_perp[i:], prev = s_perp[i-1]; the fuel is the length of l *)
  Fixpoint fwd (fuel : nat) (prev : T) (l : list T) : list T :=
    match fuel with
    | 0%nat => l
    | S k =>
        match l with
        | [] => []
        | x :: _ =>
            let l' := if olt O (osub O x prev) pzero then reflect prev l else l in
            match l' with
            | x' :: t' => x' :: fwd k x' t'
            | [] => []
            end
        end
    end.

  (* going down: l = reversed s_perp[:i+1] (nearest to startInd first), next = s_perp[i+1] *)
  Fixpoint bwd (fuel : nat) (next : T) (l : list T) : list T :=
    match fuel with
    | 0%nat => l
    | S k =>
        match l with
        | [] => []
        | x :: _ =>
            let l' := if olt O (osub O next x) pzero then reflect next l else l in
            match l' with
            | x' :: t' => x' :: bwd k x' t'
            | [] => []
            end
        end
    end.

  Definition monotonise (s : list T) (si : nat) : list T :=
    let head := firstn si s in
    let c := nth si s pzero in
    let tail := skipn (S si) s in
    rev (bwd (length head) c (rev head)) ++ c :: fwd (length tail) c tail.

  Definition s_perp (pos : list (T * T)) (si : nat) (vec : T * T) : list T :=
    monotonise (s_perp_raw pos (nth si pos (pzero, pzero)) (vec_perp vec)) si.

  Definition s_perp_total (sp : list T) (si ei : nat) : T := osub O (nth ei sp pzero) (nth si sp pzero).

  Definition s_of_sperp (sp dist : list T) (si : nat) (x : T) : T :=
    interp_extrap O sp (map (fun d => osub O d (nth si dist pzero)) dist) x.
End Sperp.
