From Coq Require Import List Bool Lia.
From HG Require Import Gen_Regrid.
From HT Require Import Model_Regrid.
Import ListNotations.

Section RegridProofs.
  Variables settings opts factory base pos geom : Type.
  Variable create : factory -> settings -> opts.
  Variable dict : opts -> settings.
  Variable place : base -> opts -> pos.
  Variable stale : base -> opts -> pos.
  Variable derive : base -> pos -> pos -> geom.
  Variable f_eq f_class : factory.
  Variable b : base.
  Variable skeleton : opts -> base.
  (* CONTRACT of optionsfactory: re-creating from the fully evaluated options of the same factory returns them *)
  Hypothesis create_idem : forall s, create f_eq (dict (create f_eq s)) = create f_eq s.

  Notation build := (build settings opts factory base pos geom create dict place f_eq f_class b skeleton).
  Notation redistribute := (redistribute settings opts factory base pos geom create dict place stale f_eq f_class).
  Notation calculateRZ := (calculateRZ opts base pos geom).
  Notation geometry := (geometry opts base pos geom derive).
  Notation run := (run settings opts factory base pos geom create dict place stale derive f_eq f_class).
  Notation step := (step settings opts factory base pos geom create dict place stale derive f_eq f_class).
  Notation observe := (observe opts base pos geom derive).
  Notation mesh := (mesh opts base pos geom).
  Notation contour := (contour opts base pos geom).
  Notation bs := (bs opts base pos geom).
  Notation rz := (rz opts base pos geom).
  Notation geo := (geo opts base pos geom).

  (* the flags the proof needs, as the source has them now *)
  Definition flags_ok : bool :=
    region_factory_shared && region_options_from_equilibrium && equilibrium_reset_fresh && region_reset_fresh && distribute_resets_first &&
    redistribute_all_regions && distribute_no_early_return && distribute_regrids_every_contour && distribute_keeps_sfunc_orthogonal &&
    sfunc_orthogonal_written_at_build_only && redistribute_refreshes_RZ && calculateRZ_refills_all && geometry_recomputes_all && geometry_reentrant &&
    skeleton_ignores_nonorthogonal_settings.

  Definition Inv (s : settings) (m : mesh) : Prop :=
    bs m = b /\ contour m = place b (create f_eq s) /\ (rz m = None \/ rz m = Some (contour m)).

  Ltac flags H := unfold flags_ok in H; repeat (apply andb_prop in H; destruct H as [H ?]).
  Ltac use_flags := repeat match goal with E : ?x = true |- _ => rewrite ?E; clear E end.

  Lemma build_inv (H : flags_ok = true) s : Inv s (build s).
  Proof.
    flags H. unfold Inv, Model_Regrid.build, f_region. cbn [Model_Regrid.contour Model_Regrid.rz Model_Regrid.bs].
    use_flags. rewrite create_idem. split; [reflexivity | split; [reflexivity | left; reflexivity]].
  Qed.

  Lemma step_inv (H : flags_ok = true) s m o : Inv s m -> exists m', step (Some m) o = Some m' /\ Inv (last_settings settings s [o]) m'.
  Proof.
    flags H. intros (Hb & Hc & Hr). destruct o as [s'| |]; cbn [last_settings Model_Regrid.step].
    - eexists. split; [reflexivity|]. unfold Inv, Model_Regrid.redistribute, Model_Regrid.calculateRZ, f_region.
      use_flags. cbn [andb Model_Regrid.contour Model_Regrid.rz Model_Regrid.bs]. rewrite Hb. split; [reflexivity | split; [reflexivity | right; reflexivity]].
    - eexists. split; [reflexivity|]. unfold Inv, Model_Regrid.calculateRZ. cbn [Model_Regrid.contour Model_Regrid.rz Model_Regrid.bs].
      use_flags. split; [exact Hb | split; [exact Hc | right; reflexivity]].
    - unfold Model_Regrid.geometry. use_flags. cbn [negb]. rewrite andb_false_r. eexists. split; [reflexivity|].
      unfold Inv. cbn [Model_Regrid.contour Model_Regrid.rz Model_Regrid.bs]. split; [exact Hb|]. split; [exact Hc|]. right. destruct Hr as [-> | ->]; reflexivity.
  Qed.

  Lemma last_settings_app s ops o : last_settings settings s (ops ++ [o]) = last_settings settings (last_settings settings s ops) [o].
  Proof. revert s. induction ops as [|a r IH]; intros s; [reflexivity|]. destruct a; cbn [app last_settings]; apply IH. Qed.

  Lemma run_inv (H : flags_ok = true) s ops m : Inv s m -> exists m', run ops m = Some m' /\ Inv (last_settings settings s ops) m'.
  Proof.
    induction ops as [|o r IH] using rev_ind; intros Hm; [exists m; split; [reflexivity | exact Hm]|].
    destruct (IH Hm) as (m1 & E1 & I1). unfold Model_Regrid.run in *. rewrite fold_left_app. cbn [fold_left]. rewrite E1.
    rewrite last_settings_app. apply step_inv; [exact H | exact I1].
  Qed.

  Lemma observe_inv (H : flags_ok = true) s m : Inv s m ->
    observe (Some m) = Some (Some (place b (create f_eq s)), Some (derive b (place b (create f_eq s)) (place b (create f_eq s)))).
  Proof.
    flags H. intros (Hb & Hc & Hr). unfold Model_Regrid.observe, Model_Regrid.geometry.
    use_flags. cbn [negb]. rewrite andb_false_r. cbn [Model_Regrid.rz Model_Regrid.geo Model_Regrid.contour Model_Regrid.bs].
    destruct Hr as [-> | ->]; rewrite Hc, Hb; reflexivity.
  Qed.

  (* no history raises, and what is observed at its end is what a fresh build with the last settings shows *)
  Theorem history_independent (H : flags_ok = true) s0 ops :
    observe (run ops (build s0)) = observe (Some (build (last_settings settings s0 ops))) /\ observe (run ops (build s0)) <> None.
  Proof.
    destruct (run_inv H s0 ops (build s0) (build_inv H s0)) as (m' & E & I). rewrite E.
    rewrite (observe_inv H _ _ I). rewrite (observe_inv H _ _ (build_inv H _)). split; [reflexivity | discriminate].
  Qed.
End RegridProofs.

(* ---- PsiContour caches *)
Lemma apply_coherent e c : honest e = true -> coherent c -> coherent (apply e c).
Proof.
  unfold honest, coherent, apply. intros H [Hf Hd]. apply andb_prop in H. destruct H as [H1 H2].
  destruct (e_points e), (e_key e), (e_reset e), (e_clear_dist e), (e_adopts e); cbn in *; try discriminate;
    (split; [intros k E | intros p k E]); try discriminate;
    try (apply Hf in E; lia); try (apply Hd in E; lia); try (inversion E; subst; split; reflexivity).
Qed.

Lemma fill_coherent c : coherent c -> coherent (fill c).
Proof.
  unfold coherent, fill. intros [Hf Hd]. cbn. split.
  - intros k E. destruct (fine c) as [k'|]; inversion E; subst; [apply Hf; reflexivity | reflexivity].
  - intros p k E. destruct (dist c) as [[p' k']|]; inversion E; subst; [apply Hd; reflexivity | split; reflexivity].
Qed.

Lemma all_methods_honest_imp : forallb honest contour_methods = true -> forall e, In e contour_methods -> honest e = true.
Proof. intros H e He. rewrite forallb_forall in H. apply H. exact He. Qed.

(* a history of method calls and cache look-ups *)
Inductive call := Method (e : effect) | Lookup.
Definition do_call (c : cstate) (x : call) : cstate := match x with Method e => apply e c | Lookup => fill c end.

Theorem caches_coherent : forallb honest contour_methods = true ->
  forall calls c, coherent c -> (forall e, In (Method e) calls -> In e contour_methods) -> coherent (fold_left do_call calls c).
Proof.
  intros H calls. induction calls as [|x r IH]; intros c Hc Hin; [exact Hc|]. cbn [fold_left]. apply IH.
  - destruct x as [e|]; cbn [do_call]; [apply apply_coherent; [apply (all_methods_honest_imp H); apply Hin; left; reflexivity | exact Hc] | apply fill_coherent; exact Hc].
  - intros e He. apply Hin. right. exact He.
Qed.
