(* C09 hand model of Equilibrium.make1dGrid: cell-face values from the spacing function, cell-centre values half-way between the
   faces (0.5 * (a + b)), and the run-time guard: every difference positive or every difference negative, else ValueError.
   Over the `ops` record (PrimFloat instance run bit for bit against the real method; theorems in Proof_Grid1d.v). *)
From Coq Require Import ZArith List Bool Arith.
From HT Require Import Field Model_Stencil.
Import ListNotations.

Section Grid1d.
  Context {T : Type} (O : ops T).
  Definition ghalf : T := odiv O (oconst O 1 1) (oconst O 2 1).     (* the literal 0.5 *)
  Definition gzero : T := oconst O 0 1.

  (* result[::2] = faces, result[1::2] = 0.5 * (result[:-1:2] + result[2::2]) *)
  Fixpoint interleave (faces : list T) : list T :=
    match faces with
    | a :: ((b :: _) as t) => a :: omul O ghalf (oadd O a b) :: interleave t
    | l => l
    end.

  Definition all_pos (d : list T) : bool := forallb (fun x => olt O gzero x) d.
  Definition all_neg (d : list T) : bool := forallb (fun x => olt O x gzero) d.

  (* None = ValueError("1d grid not monotonic") *)
  Definition make_1d_grid (faces : list T) : option (list T) :=
    let r := interleave faces in
    let d := diffs O r in
    if all_pos d || all_neg d then Some r else None.
End Grid1d.
