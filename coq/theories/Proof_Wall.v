From Coq Require Import QArith Qabs List Bool Lia Lqa.
From HT Require Import Model_Geom2D Proof_Geom2D Model_Wall.
Import ListNotations.
Local Open Scope Q_scope.

(* ---- the signed area changes sign when the vertex order is reversed *)
Definition edge_term (p q : pt) : Q := (cR q - cR p) * (cZ p + cZ q).
Fixpoint path (l : list pt) : Q :=
  match l with
  | p :: ((q :: _) as tl) => edge_term p q + path tl
  | _ => 0
  end.

Lemma edge_term_rev p q : edge_term q p == - edge_term p q.
Proof. unfold edge_term. ring. Qed.

Lemma area2_from_cons2 f x y r : area2_from f (x :: y :: r) = (cR y - cR x) * (cZ x + cZ y) + area2_from f (y :: r).
Proof. reflexivity. Qed.
Lemma path_cons2 x y r : path (x :: y :: r) = edge_term x y + path (y :: r).
Proof. reflexivity. Qed.
Lemma last_default (l : list pt) a d d' : last (a :: l) d = last (a :: l) d'.
Proof. revert a. induction l as [|b l' IH]; intros a; [reflexivity|]. change (last (a :: b :: l') d) with (last (b :: l') d). change (last (a :: b :: l') d') with (last (b :: l') d'). apply IH. Qed.
Lemma last_cons2 (x y : pt) r : last (y :: r) x = last r y.
Proof. destruct r as [|z r']; [reflexivity|]. change (last (y :: z :: r') x) with (last (z :: r') x). apply last_default. Qed.

Lemma area2_from_path f w x : area2_from f (x :: w) == path (x :: w) + edge_term (last w x) f.
Proof.
  revert x. induction w as [|y r IH]; intros x.
  - cbn. unfold edge_term. ring.
  - rewrite area2_from_cons2, IH, path_cons2, last_cons2. unfold edge_term. ring.
Qed.

Lemma last_rev_hd (l : list pt) d : last l d = hd d (rev l).
Proof.
  induction l as [|x l' IH]; [reflexivity|]. cbn [rev]. destruct l' as [|z l'']; [reflexivity|].
  change (last (x :: z :: l'') d) with (last (z :: l'') d). rewrite IH.
  destruct (rev (z :: l'')) eqn:E; [exfalso; apply (f_equal (@length pt)) in E; rewrite rev_length in E; discriminate | reflexivity].
Qed.

Lemma path_snoc a l x : path ((a :: l) ++ [x]) == path (a :: l) + edge_term (last (a :: l) x) x.
Proof.
  revert a. induction l as [|y r IH]; intros a.
  - cbn. ring.
  - change ((a :: y :: r) ++ [x]) with (a :: y :: (r ++ [x])). rewrite path_cons2. change (y :: r ++ [x]) with ((y :: r) ++ [x]).
    rewrite IH, path_cons2. change (last (a :: y :: r) x) with (last (y :: r) x). ring.
Qed.

Lemma path_rev l : path (rev l) == - path l.
Proof.
  induction l as [|a r IH]; [cbn; ring|]. cbn [rev]. destruct r as [|c r'].
  - cbn. ring.
  - destruct (rev (c :: r')) as [|b t] eqn:E; [exfalso; apply (f_equal (@length pt)) in E; rewrite rev_length in E; discriminate|].
    rewrite path_snoc, IH, path_cons2.
    assert (Hl : last (b :: t) a = c). { rewrite last_rev_hd, <- E, rev_involutive. reflexivity. }
    rewrite Hl, (edge_term_rev a c). ring.
Qed.

Lemma area2_rev w : area2 (rev w) == - area2 w.
Proof.
  destruct w as [|a r]; [cbn; ring|]. unfold area2 at 2. rewrite area2_from_path.
  destruct (rev (a :: r)) as [|b t] eqn:E; [exfalso; apply (f_equal (@length pt)) in E; rewrite rev_length in E; discriminate|].
  unfold area2. rewrite area2_from_path, <- E, path_rev.
  assert (H1 : last t b = a). { rewrite <- (last_cons2 a b t), last_rev_hd, <- E, rev_involutive. reflexivity. }
  assert (H2 : b = last r a). { rewrite <- (last_cons2 a a r), last_rev_hd, E. reflexivity. }
  rewrite H1, H2, (edge_term_rev (last r a) a). ring.
Qed.

(* after the normalisation the wall is not clockwise (area <= 0 in the code's sign convention), has the same vertices, and closing it repeats the first vertex *)
Lemma normalise_not_clockwise w : clockwise (normalise_wall w) = false.
Proof.
  unfold normalise_wall. destruct (clockwise w) eqn:E; [|exact E].
  unfold clockwise, area in *. apply Qltb_true in E. apply Qltb_false. rewrite area2_rev. lra.
Qed.

Lemma normalise_same_vertices w p : In p (normalise_wall w) <-> In p w.
Proof. unfold normalise_wall. destruct (clockwise w); [symmetry; apply in_rev | tauto]. Qed.

Lemma close_wall_closed w f r : w = f :: r -> hd f (close_wall w) = f /\ last (close_wall w) f = f /\ length (close_wall w) = S (length w).
Proof. intros ->. cbn [close_wall]. split; [reflexivity|]. split; [apply last_last | rewrite app_length; cbn; lia]. Qed.

(* ---- the penalty mask: 0 exactly when both faces are inside, 1 exactly when both are outside, otherwise the outside fraction of the chord *)
Lemma penalty_cases tol cw p0 p1 p2 :
  let o1 := outside tol cw p0 p1 in let o2 := outside tol cw p0 p2 in
  (o1 = false -> o2 = false -> penalty tol cw p0 p1 p2 = 0) /\
  (o1 = true -> o2 = true -> penalty tol cw p0 p1 p2 = 1) /\
  (o1 <> o2 -> forall pi rest, find_intersections tol cw p1 p2 = pi :: rest ->
     penalty tol cw p0 p1 p2 = if o1 then frac p1 p2 pi else frac p2 p1 pi).
Proof.
  intros o1 o2. unfold penalty. fold o1 o2. repeat split.
  - intros -> ->. reflexivity.
  - intros -> ->. reflexivity.
  - intros Hne pi rest E. rewrite E. destruct o1, o2; cbn; try reflexivity; exfalso; apply Hne; reflexivity.
Qed.

(* for a crossing point on the chord (which C20 proves every reported point is) the fraction is the parameter of the point measured from the outside end:
   between 0 and 1, and the two ends' fractions add up to 1 *)
Lemma frac_on_chord po pother pi t : ~ dot (sub pother po) (sub pother po) == 0 ->
  cR pi == cR po + t * (cR pother - cR po) -> cZ pi == cZ po + t * (cZ pother - cZ po) -> frac po pother pi == t.
Proof.
  intros Hn HR HZ. unfold frac, dot, sub in *. cbn [cR cZ] in *. rewrite HR, HZ. field. exact Hn.
Qed.
