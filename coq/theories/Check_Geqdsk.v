(* Executable glue for the C17 correspondence: character codes <-> ch, token encoding. *)
From Coq Require Import List Arith Bool.
From HT Require Import Model_Geqdsk Model_GeqdskHeader.
Import ListNotations.

Definition decode1 (n : nat) : ch :=
  match n with
  | 10 => Sp | 11 => Plus | 12 => Minus | 13 => Dot | 14 => Ee | 15 => NL | 16 => Other
  | d => Dg d
  end.
Definition decode (l : list nat) : list ch := map decode1 l.
Definition code1 (c : ch) : nat :=
  match c with Dg d => d | Sp => 10 | Plus => 11 | Minus => 12 | Dot => 13 | Ee => 14 | NL => 15 | Other => 16 end.
Definition encode (l : list ch) : list nat := map code1 l.

Definition b2n (b : bool) : nat := if b then 1 else 0.
Definition enc_tok (t : tok) : list nat :=
  match t with
  | TFloat neg ip fp en a b => [21; b2n neg] ++ ip ++ [23] ++ fp ++ [24; b2n en; a; b]
  | TInt neg ds => [22; b2n neg] ++ ds
  end.
Definition enc_toks (l : list tok) : list nat := flat_map enc_tok l.

Fixpoint list_eqb (a b : list nat) : bool :=
  match a, b with
  | [], [] => true
  | x :: a', y :: b' => Nat.eqb x y && list_eqb a' b'
  | _, _ => false
  end.

Definition check_f2s (f : dfloat) (expected : list nat) : bool := list_eqb (encode (render_float f)) expected.
Definition check_body (g : gdata) (expected : list nat) : bool := list_eqb (encode (file_body g)) expected.
Definition ntrue (l : list bool) : nat := length (filter (fun b => b) l).
Fixpoint falses (i : nat) (l : list bool) : list nat :=
  match l with [] => [] | b :: t => (if b then [] else [i]) ++ falses (S i) t end.

(* header: the model's text for the given fields = the writer's first line; the model reader on the writer's first line = the sizes *)
Definition check_header (label date shot time : list nat) (nx ny : nat) (expected : list nat) : bool :=
  list_eqb (encode (header (decode label) (decode date) (decode shot) (decode time) nx ny)) expected.
Definition check_read_header (line : list nat) (nx ny : nat) : bool :=
  match read_header (decode line) with
  | Some (a, b) => list_eqb a (nat_digits nx) && list_eqb b (nat_digits ny)
  | None => false
  end.
