(* C09: theorems about the TRANSLATED radial spacing functions of getSmoothMonotonicGridFunc (gen/Gen_Radial.v). *)
From Coq Require Import Reals Lra Lia ZArith Psatz.
From Coquelicot Require Import Coquelicot.
From HT Require Import Field.
From HG Require Import Gen_Radial.
Local Open Scope R_scope.

Ltac unfold_radial :=
  cbv [radial_linear radial_lower_cubic radial_upper_cubic radial_both_trig radial_lower_erf radial_upper_erf
       radial_lower_erf_constraint radial_upper_erf_constraint radial_lower_cubic_guard radial_upper_cubic_guard
       radial_both_trig_guard];
  unfold_ops.

Section Radial.
  Variable erf : R -> R.
  Variables n lower upper gl gu : R.
  Hypothesis Hn : 0 < n.
  Notation O := Rops.
  Let D := upper - lower.

  (* ---------------- linear ---------------- *)
  Lemma linear_ends : radial_linear O erf n lower upper 0 = lower /\ radial_linear O erf n lower upper n = upper.
  Proof. split; unfold_radial; field; lra. Qed.
  Lemma linear_monotone i1 i2 : i1 < i2 -> 0 < (radial_linear O erf n lower upper i2 - radial_linear O erf n lower upper i1) * D \/ D = 0.
  Proof.
    intro H. destruct (Req_dec D 0) as [E|E]; [right; exact E|left]. unfold_radial. unfold D in *.
    replace ((lower + (upper - lower) * i2 / n - (lower + (upper - lower) * i1 / n)) * (upper - lower))
      with ((upper - lower) * (upper - lower) * ((i2 - i1) / n)) by (field; lra).
    apply Rmult_lt_0_compat; [nra | apply Rdiv_lt_0_compat; lra].
  Qed.
  Lemma linear_nesting i : radial_linear O erf (2 * n) lower upper (2 * i) = radial_linear O erf n lower upper i.
  Proof. unfold_radial. field. lra. Qed.

  (* ---------------- grad_lower only, increasing spacing (cubic) ---------------- *)
  Definition a_lc : R := 3 * (D - gl * n) / (n * n * n).
  Lemma lc_closed i : radial_lower_cubic O erf n lower upper gl i = lower + gl * i + a_lc * (i * i * i) / 3.
  Proof. unfold a_lc, D. unfold_radial. field. lra. Qed.
  Lemma lc_ends : radial_lower_cubic O erf n lower upper gl 0 = lower /\ radial_lower_cubic O erf n lower upper gl n = upper.
  Proof. split; rewrite lc_closed; unfold a_lc, D; field; lra. Qed.
  Lemma lc_derive i : is_derive (fun x => radial_lower_cubic O erf n lower upper gl x) i (gl + a_lc * (i * i)).
  Proof.
    apply (is_derive_ext (fun x => lower + gl * x + a_lc * (x * x * x) / 3)); [intro t; symmetry; apply lc_closed|].
    auto_derive; [exact I|]. field.
  Qed.
  (* the end gradient is the prescribed one, and the second derivative vanishes there *)
  Lemma lc_end_gradient : is_derive (fun x => radial_lower_cubic O erf n lower upper gl x) 0 gl.
  Proof. pose proof (lc_derive 0) as H. replace (gl + a_lc * (0 * 0)) with gl in H by ring. exact H. Qed.
  Lemma lc_end_curvature : is_derive (fun x => gl + a_lc * (x * x)) 0 0.
  Proof. auto_derive; [exact I|]. ring. Qed.
  Lemma lc_nesting i :
    radial_lower_cubic O erf (2 * n) lower upper (gl / 2) (2 * i) = radial_lower_cubic O erf n lower upper gl i.
  Proof. unfold_radial. field. lra. Qed.

  (* strict monotonicity on [0, n] inside the branch guard INCLUDING its 1e-8 slack, for either ordering *)
  Lemma cubic_core (d g s : R) : 0 < d -> 0 <= g -> g * n < d * (1 + 1 / 100000000) -> 0 < s <= 3 * (n * n) ->
    0 < g + 3 * (d - g * n) / (n * n * n) * s / 3.
  Proof.
    intros Hd Hg Hgd [Hs0 Hs].
    assert (Hn3 : 0 < n * n * n) by (apply Rmult_lt_0_compat; [apply Rmult_lt_0_compat|]; lra).
    replace (g + 3 * (d - g * n) / (n * n * n) * s / 3) with ((g * (n * n * n) + (d - g * n) * s) / (n * n * n)) by (field; lra).
    apply Rdiv_lt_0_compat; [|exact Hn3].
    destruct (Rle_dec (g * n) d) as [L|L].
    - (* a >= 0 *)
      destruct (Req_dec g 0) as [E|E].
      + subst g. assert (0 < d * s) by (apply Rmult_lt_0_compat; lra). nra.
      + assert (0 < g * (n * n * n)) by (apply Rmult_lt_0_compat; lra). assert (0 <= (d - g * n) * s) by (apply Rmult_le_pos; lra). lra.
    - (* slack region: a < 0, worst case s = 3 n^2 *)
      assert (Hneg : d - g * n < 0) by lra.
      assert ((d - g * n) * s >= (d - g * n) * (3 * (n * n))) by nra.
      assert (g * (n * n * n) + (d - g * n) * (3 * (n * n)) = (n * n) * (3 * d - 2 * (g * n))) by ring.
      assert (0 < (n * n) * (3 * d - 2 * (g * n))) by (apply Rmult_lt_0_compat; nra).
      lra.
  Qed.

  Lemma sumsq_bounds i1 i2 : 0 <= i1 -> i1 < i2 -> i2 <= n -> 0 < i1 * i1 + i1 * i2 + i2 * i2 <= 3 * (n * n).
  Proof. intros. split; nra. Qed.

  Lemma Rltb_true a b : Rltb a b = true -> a < b.
  Proof. unfold Rltb. destruct (Rlt_dec a b); [auto | discriminate]. Qed.

  Lemma lc_monotone i1 i2 :
    radial_lower_cubic_guard O n lower upper gl = true -> 0 <= D * gl ->
    0 <= i1 -> i1 < i2 -> i2 <= n ->
    0 < (radial_lower_cubic O erf n lower upper gl i2 - radial_lower_cubic O erf n lower upper gl i1) * D.
  Proof.
    intros G Hs H1 H12 H2. rewrite !lc_closed.
    assert (G' : Rabs (gl * n) < Rabs D * (1 + 1 / 100000000)).
    { apply Rltb_true in G. revert G. unfold_radial. unfold D. intro G. exact G. }
    pose proof (sumsq_bounds i1 i2 H1 H12 H2) as Hsum.
    replace ((lower + gl * i2 + a_lc * (i2 * i2 * i2) / 3 - (lower + gl * i1 + a_lc * (i1 * i1 * i1) / 3)) * D)
      with ((i2 - i1) * (D * (gl + a_lc * (i1 * i1 + i1 * i2 + i2 * i2) / 3))) by field.
    apply Rmult_lt_0_compat; [lra|]. unfold a_lc.
    destruct (Rtotal_order D 0) as [Dn|[D0|Dp]].
    - (* decreasing: apply the core lemma to -D, -gl *)
      assert (Hg : 0 <= - gl) by nra.
      rewrite (Rabs_left D) in G' by lra.
      assert (Rabs (gl * n) = - gl * n) by (rewrite Rabs_left1; [ring | nra]).
      pose proof (cubic_core (- D) (- gl) _ ltac:(lra) Hg ltac:(lra) Hsum) as C.
      replace (D * (gl + 3 * (D - gl * n) / (n * n * n) * (i1 * i1 + i1 * i2 + i2 * i2) / 3))
        with ((- D) * (- gl + 3 * (- D - - gl * n) / (n * n * n) * (i1 * i1 + i1 * i2 + i2 * i2) / 3)) by (field; lra).
      apply Rmult_lt_0_compat; lra.
    - exfalso. rewrite D0, Rabs_R0 in G'. pose proof (Rabs_pos (gl * n)). lra.
    - assert (Hg : 0 <= gl) by nra.
      rewrite (Rabs_right D) in G' by lra.
      assert (Rabs (gl * n) = gl * n) by (rewrite Rabs_right; [ring | nra]).
      pose proof (cubic_core D gl _ Dp Hg ltac:(lra) Hsum) as C.
      apply Rmult_lt_0_compat; lra.
  Qed.

  (* ---------------- grad_upper only, cubic: the mirror image of the grad_lower case ---------------- *)
  Lemma uc_mirror i : radial_upper_cubic O erf n lower upper gu i
                      = upper + lower - radial_lower_cubic O erf n lower upper gu (n - i).
  Proof. unfold_radial. field. lra. Qed.
  Lemma uc_guard_same : radial_upper_cubic_guard O n lower upper gu = radial_lower_cubic_guard O n lower upper gu.
  Proof. reflexivity. Qed.
End Radial.

Section Radial2.
  Variable erf : R -> R.
  Variables n lower upper gl gu : R.
  Hypothesis Hn : 0 < n.
  Notation O := Rops.
  Let D := upper - lower.

  Lemma uc_ends : radial_upper_cubic O erf n lower upper gu 0 = lower /\ radial_upper_cubic O erf n lower upper gu n = upper.
  Proof.
    destruct (lc_ends erf n lower upper gu Hn) as [A B]. split; rewrite uc_mirror by exact Hn.
    - replace (n - 0) with n by ring. rewrite B. ring.
    - replace (n - n) with 0 by ring. rewrite A. ring.
  Qed.
  Lemma uc_monotone i1 i2 :
    radial_upper_cubic_guard O n lower upper gu = true -> 0 <= D * gu ->
    0 <= i1 -> i1 < i2 -> i2 <= n ->
    0 < (radial_upper_cubic O erf n lower upper gu i2 - radial_upper_cubic O erf n lower upper gu i1) * D.
  Proof.
    intros G Hs H1 H12 H2. rewrite !uc_mirror by exact Hn. rewrite uc_guard_same in G.
    pose proof (lc_monotone erf n lower upper gu Hn (n - i2) (n - i1) G Hs ltac:(lra) ltac:(lra) ltac:(lra)) as M.
    unfold D in *. lra.
  Qed.
  Lemma uc_derive i : is_derive (fun x => radial_upper_cubic O erf n lower upper gu x) i (gu + a_lc n lower upper gu * ((n - i) * (n - i))).
  Proof.
    apply (is_derive_ext (fun x => upper + lower - (lower + gu * (n - x) + a_lc n lower upper gu * ((n - x) * (n - x) * (n - x)) / 3))).
    - intro t. rewrite uc_mirror by exact Hn. rewrite lc_closed by exact Hn. reflexivity.
    - auto_derive; [exact I|]. field.
  Qed.
  Lemma uc_end_gradient : is_derive (fun x => radial_upper_cubic O erf n lower upper gu x) n gu.
  Proof. pose proof (uc_derive n) as H. replace (gu + a_lc n lower upper gu * ((n - n) * (n - n))) with gu in H by ring. exact H. Qed.
  Lemma uc_end_curvature : is_derive (fun x => gu + a_lc n lower upper gu * ((n - x) * (n - x))) n 0.
  Proof. auto_derive; [exact I|]. ring. Qed.
  Lemma uc_nesting i :
    radial_upper_cubic O erf (2 * n) lower upper (gu / 2) (2 * i) = radial_upper_cubic O erf n lower upper gu i.
  Proof. unfold_radial. field. lra. Qed.

  (* at the switch point |g| n = |D| the cubic IS the linear function (continuity in the parameters) *)
  Lemma cubic_is_linear_at_switch i : gl * n = D ->
    radial_lower_cubic O erf n lower upper gl i = radial_linear O erf n lower upper i.
  Proof. intro E. unfold D in E. unfold_radial. assert (gl = (upper - lower) / n) by (field_simplify_eq; lra). subst gl. field. lra. Qed.

  (* ---------------- both gradients, increased average spacing (trigonometric) ---------------- *)
  Definition a_tr : R := (D - 1 / 2 * (gl + gu) * n) / n.
  Definition tr' (i : R) : R := 1 / 2 * (gl + gu) + 1 / 2 * (gl - gu) * cos (PI * i / n) + a_tr * (1 - cos (2 * PI * i / n)).
  Lemma tr_closed i : radial_both_trig O erf n lower upper gl gu i =
    lower + 1 / 2 * (gl + gu) * i + 1 / 2 * (gl - gu) * n / PI * sin (PI * i / n) + a_tr * (i - n / (2 * PI) * sin (2 * PI * i / n)).
  Proof. unfold a_tr, D. unfold_radial. reflexivity. Qed.
  Lemma tr_ends : radial_both_trig O erf n lower upper gl gu 0 = lower /\ radial_both_trig O erf n lower upper gl gu n = upper.
  Proof.
    pose proof PI_neq0 as Hpi. split; rewrite tr_closed.
    - replace (PI * 0 / n) with 0 by (field; lra). replace (2 * PI * 0 / n) with 0 by (field; lra). rewrite sin_0. unfold a_tr, D. field. lra.
    - replace (PI * n / n) with PI by (field; lra). replace (2 * PI * n / n) with (2 * PI) by (field; lra).
      rewrite sin_PI, sin_2PI. unfold a_tr, D. field. split; lra.
  Qed.
  Lemma tr_derive i : is_derive (fun x => radial_both_trig O erf n lower upper gl gu x) i (tr' i).
  Proof.
    pose proof PI_neq0 as Hpi.
    apply (is_derive_ext (fun x => lower + 1 / 2 * (gl + gu) * x + 1 / 2 * (gl - gu) * n / PI * sin (PI * x / n) + a_tr * (x - n / (2 * PI) * sin (2 * PI * x / n)))).
    - intro t. symmetry. apply tr_closed.
    - unfold tr'. auto_derive; [exact I|]. unfold Rdiv. field. split; lra.
  Qed.
  Lemma tr_end_gradients : tr' 0 = gl /\ tr' n = gu.
  Proof.
    pose proof PI_neq0 as Hpi. unfold tr'. split.
    - replace (PI * 0 / n) with 0 by (field; lra). replace (2 * PI * 0 / n) with 0 by (field; lra). rewrite cos_0. field.
    - replace (PI * n / n) with PI by (field; lra). replace (2 * PI * n / n) with (2 * PI) by (field; lra). rewrite cos_PI, cos_2PI. field.
  Qed.
  Lemma tr_end_curvature : is_derive tr' 0 0 /\ is_derive tr' n 0.
  Proof.
    pose proof PI_neq0 as Hpi. unfold tr'. split; auto_derive; try exact I; unfold Rdiv.
    - replace (PI * 0 * / n) with 0 by (field; lra). replace (2 * PI * 0 * / n) with 0 by (field; lra). rewrite sin_0. field. lra.
    - replace (PI * n * / n) with PI by (field; lra). replace (2 * PI * n * / n) with (2 * PI) by (field; lra). rewrite sin_PI, sin_2PI. field. lra.
  Qed.
  (* PARTIAL monotonicity: proved when the average-spacing correction does not work against the direction
     (a_tr * D >= 0, i.e. the interior of the branch guard); the 1e-8 slack strip of the guard is not covered *)
  Lemma tr_monotone_partial i : 0 <= D * gl -> 0 <= D * gu -> 0 <= D * a_tr -> 0 <= D * tr' i.
  Proof.
    intros H1 H2 H3. unfold tr'.
    pose proof (COS_bound (PI * i / n)) as [C1 C2]. pose proof (COS_bound (2 * PI * i / n)) as [C3 C4].
    replace (D * (1 / 2 * (gl + gu) + 1 / 2 * (gl - gu) * cos (PI * i / n) + a_tr * (1 - cos (2 * PI * i / n))))
      with (D * gl * ((1 + cos (PI * i / n)) / 2) + D * gu * ((1 - cos (PI * i / n)) / 2) + D * a_tr * (1 - cos (2 * PI * i / n))) by field.
    assert (0 <= D * gl * ((1 + cos (PI * i / n)) / 2)) by (apply Rmult_le_pos; lra).
    assert (0 <= D * gu * ((1 - cos (PI * i / n)) / 2)) by (apply Rmult_le_pos; lra).
    assert (0 <= D * a_tr * (1 - cos (2 * PI * i / n))) by (apply Rmult_le_pos; lra).
    lra.
  Qed.
  Lemma tr_nesting i :
    radial_both_trig O erf (2 * n) lower upper (gl / 2) (gu / 2) (2 * i) = radial_both_trig O erf n lower upper gl gu i.
  Proof.
    pose proof PI_neq0 as Hpi. unfold_radial.
    replace (PI * (2 * i) / (2 * n)) with (PI * i / n) by (field; lra).
    replace (2 * PI * (2 * i) / (2 * n)) with (2 * PI * i / n) by (field; lra). field. split; lra.
  Qed.
End Radial2.

(* ---------------- decreasing-spacing branches (error function) ----------------
   erf is not in Coq's library: it enters as a Section variable with the three facts that define it
   (CONTRACT, listed in the trusted base): erf 0 = 0, erf odd, erf' x = 2/sqrt(pi) exp(-x^2).
   brentq enters through its post-condition only: the returned a satisfies constraint(a) = 0, a > 0. *)
Section ErfBranches.
  Variable erf : R -> R.
  Hypothesis erf_0 : erf 0 = 0.
  Hypothesis erf_odd : forall x, erf (- x) = - erf x.
  Hypothesis erf_derive : forall x, is_derive erf x (2 / sqrt PI * exp (- (x * x))).
  Variables n lower upper g a : R.
  Hypothesis Hn : 0 < n.
  Hypothesis Ha : 0 < a.
  Notation O := Rops.
  Let D := upper - lower.

  Lemma sqrt_a_pos : 0 < sqrt a. Proof. apply sqrt_lt_R0; exact Ha. Qed.
  Lemma sqrt_pi_pos : 0 < sqrt PI. Proof. apply sqrt_lt_R0; apply PI_RGT_0. Qed.

  Lemma le_ends : radial_lower_erf_constraint O erf n lower upper g a = 0 ->
    radial_lower_erf O erf n lower upper g a 0 = lower /\ radial_lower_erf O erf n lower upper g a n = upper.
  Proof.
    pose proof sqrt_a_pos as Sa. unfold_radial. intro C. split.
    - replace (0 / sqrt a) with 0 by (field; lra). rewrite erf_0. ring.
    - lra.
  Qed.
  Lemma ue_ends : radial_upper_erf_constraint O erf n lower upper g a = 0 ->
    radial_upper_erf O erf n lower upper g a 0 = lower /\ radial_upper_erf O erf n lower upper g a n = upper.
  Proof.
    pose proof sqrt_a_pos as Sa. unfold_radial. intro C. split.
    - replace ((0 - n) / sqrt a) with (- (n / sqrt a)) by (field; lra). rewrite erf_odd. lra.
    - replace ((n - n) / sqrt a) with 0 by (field; lra). rewrite erf_0. ring.
  Qed.

  Lemma erf_ex x : ex_derive erf x.
  Proof. eexists. apply erf_derive. Qed.
  Lemma erf_Derive x : Derive erf x = 2 / sqrt PI * exp (- (x * x)).
  Proof. apply is_derive_unique. apply erf_derive. Qed.

  Lemma le_derive i : is_derive (fun x => radial_lower_erf O erf n lower upper g a x) i (g * exp (- (i / sqrt a * (i / sqrt a)))).
  Proof.
    pose proof sqrt_a_pos as Sa. pose proof sqrt_pi_pos as Sp. unfold_radial.
    auto_derive.
    - apply erf_ex.
    - change (fun x : R => erf x) with erf. rewrite erf_Derive. unfold Rdiv. field. split; lra.
  Qed.
  Lemma ue_derive i : is_derive (fun x => radial_upper_erf O erf n lower upper g a x) i (g * exp (- ((i - n) / sqrt a * ((i - n) / sqrt a)))).
  Proof.
    pose proof sqrt_a_pos as Sa. pose proof sqrt_pi_pos as Sp. unfold_radial.
    auto_derive.
    - apply erf_ex.
    - change (fun x : R => erf x) with erf. rewrite erf_Derive. unfold Rdiv, Rminus. field. split; lra.
  Qed.
  (* prescribed end gradient, and spacing that has the sign of g EVERYWHERE (exp > 0): strictly monotone *)
  Lemma le_end_gradient : g * exp (- (0 / sqrt a * (0 / sqrt a))) = g.
  Proof. pose proof sqrt_a_pos. replace (- (0 / sqrt a * (0 / sqrt a))) with 0 by (field; lra). rewrite exp_0. ring. Qed.
  Lemma ue_end_gradient : g * exp (- ((n - n) / sqrt a * ((n - n) / sqrt a))) = g.
  Proof. pose proof sqrt_a_pos. replace (- ((n - n) / sqrt a * ((n - n) / sqrt a))) with 0 by (field; lra). rewrite exp_0. ring. Qed.
  Lemma erf_branch_sign i : 0 < D * g -> 0 < D * (g * exp (- (i / sqrt a * (i / sqrt a)))).
  Proof. intro H. rewrite <- Rmult_assoc. apply Rmult_lt_0_compat; [exact H | apply exp_pos]. Qed.
  Lemma le_end_curvature : is_derive (fun x => g * exp (- (x / sqrt a * (x / sqrt a)))) 0 0.
  Proof. pose proof sqrt_a_pos as Sa. auto_derive; [exact I|]. field. lra. Qed.
  Lemma ue_end_curvature : is_derive (fun x => g * exp (- ((x - n) / sqrt a * ((x - n) / sqrt a)))) n 0.
  Proof. pose proof sqrt_a_pos as Sa. auto_derive; [exact I|]. field. lra. Qed.
End ErfBranches.
