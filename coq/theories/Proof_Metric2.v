(* C02, continued: calcBeta's angle and the "actual displacement" statements, from first principles. *)
From Coq Require Import Reals Lra Nsatz ZArith.
From HT Require Import Field Proof_Metric.
From HG Require Import Gen_Metric.
Local Open Scope R_scope.

Ltac unfold_beta := cbv [beta_cosBeta_centre beta_sinBeta_centre beta_cosBeta_ylow beta_sinBeta_ylow beta_tan]; unfold_ops.

Section Beta.
  (* dr = (dR,dZ): displacement between the two radial neighbours calcBeta uses;
     (fR,fZ): the vector calcBeta normalises (equilibrium.f_R, f_Z), any non-zero vector *)
  Variables Rhi Rlo Zhi Zlo fR fZ : R.
  Hypothesis Hdr : (Rhi - Rlo) * (Rhi - Rlo) + (Zhi - Zlo) * (Zhi - Zlo) <> 0.
  Hypothesis Hf : fR * fR + fZ * fZ <> 0.
  Notation O := Rops.

  Lemma sqrt_sq_pos x : x <> 0 -> 0 <= x -> sqrt x * sqrt x = x /\ sqrt x <> 0.
  Proof. intros Hx H0; split; [apply sqrt_sqrt; exact H0 | intro E; apply sqrt_eq_0 in E; auto]. Qed.

  Lemma sumsq_nonneg a b : 0 <= a * a + b * b.
  Proof. nra. Qed.

  Lemma beta_unit_centre :
    beta_cosBeta_centre O Rhi Rlo Zhi Zlo fR fZ * beta_cosBeta_centre O Rhi Rlo Zhi Zlo fR fZ
    + beta_sinBeta_centre O Rhi Rlo Zhi Zlo fR fZ * beta_sinBeta_centre O Rhi Rlo Zhi Zlo fR fZ = 1.
  Proof.
    unfold_beta.
    destruct (sqrt_sq_pos _ Hdr (sumsq_nonneg _ _)) as [Ea Na].
    destruct (sqrt_sq_pos _ Hf (sumsq_nonneg _ _)) as [Eb Nb].
    revert Ea Na Eb Nb.
    generalize (sqrt ((Rhi - Rlo) * (Rhi - Rlo) + (Zhi - Zlo) * (Zhi - Zlo))) (sqrt (fR * fR + fZ * fZ)).
    intros a b Ea Na Eb Nb. field_simplify_eq; [cbv beta iota delta [Rpow_def.pow]; nsatz | auto].
  Qed.
  Lemma beta_unit_ylow :
    beta_cosBeta_ylow O Rhi Rlo Zhi Zlo fR fZ * beta_cosBeta_ylow O Rhi Rlo Zhi Zlo fR fZ
    + beta_sinBeta_ylow O Rhi Rlo Zhi Zlo fR fZ * beta_sinBeta_ylow O Rhi Rlo Zhi Zlo fR fZ = 1.
  Proof.
    unfold_beta.
    destruct (sqrt_sq_pos _ Hdr (sumsq_nonneg _ _)) as [Ea Na].
    destruct (sqrt_sq_pos _ Hf (sumsq_nonneg _ _)) as [Eb Nb].
    revert Ea Na Eb Nb.
    generalize (sqrt ((Rhi - Rlo) * (Rhi - Rlo) + (Zhi - Zlo) * (Zhi - Zlo))) (sqrt (fR * fR + fZ * fZ)).
    intros a b Ea Na Eb Nb. field_simplify_eq; [cbv beta iota delta [Rpow_def.pow]; nsatz | auto].
  Qed.
  (* the two locations use the same formulas *)
  Lemma beta_same_formula :
    beta_cosBeta_ylow O Rhi Rlo Zhi Zlo fR fZ = beta_cosBeta_centre O Rhi Rlo Zhi Zlo fR fZ /\
    beta_sinBeta_ylow O Rhi Rlo Zhi Zlo fR fZ = beta_sinBeta_centre O Rhi Rlo Zhi Zlo fR fZ.
  Proof. split; reflexivity. Qed.
End Beta.

Section Displacements.
  (* First principles.  dr=(dR,dZ) displacement between radial neighbours; grad psi = (pR,pZ);
     linearised cell: dx = grad psi . dr; e_x := dr/dx; |grad psi| = R |Bp|;
     unit vector along increasing y: yhat = bps * (pZ,-pR)/|grad psi|  (Bp_R = psi_Z/R, Bp_Z = -psi_R/R, and
     geometry1 gives Bpxy the sign of Bp.yhat, which it insists equals bpsign);  e_y := hy * yhat.
     cosB, sinB, tanB are what calcBeta computes from dr/|dr| and (fR,fZ) = k (pR,pZ), k > 0. *)
  Variables dR dZ pR pZ k Rx Bp hy bps dphidy : R.
  Hypothesis Hk : 0 < k.
  Hypothesis HR : 0 < Rx.
  Hypothesis HBp : Bp <> 0.
  Hypothesis Hhy : hy <> 0.
  Hypothesis Hbps : bps * bps = 1.
  Hypothesis Habs : Rabs Bp = bps * Bp.
  Hypothesis Hgrad : pR * pR + pZ * pZ = (Rx * Bp) * (Rx * Bp).
  Definition dxlin : R := pR * dR + pZ * dZ.
  Hypothesis Hdx : dxlin <> 0.
  Notation O := Rops.
  Definition cosB : R := beta_cosBeta_centre O dR 0 dZ 0 (k * pR) (k * pZ).
  Definition sinB : R := beta_sinBeta_centre O dR 0 dZ 0 (k * pR) (k * pZ).
  Definition tanB : R := beta_tan O sinB cosB.
  Definition ex_ex : R := (dR * dR + dZ * dZ) / (dxlin * dxlin).
  Definition ex_ey : R := hy * bps * (dR * pZ - dZ * pR) / (dxlin * (Rx * Rabs Bp)).
  Notation G f := (f O Rx Bp hy dphidy cosB tanB bps).

  Lemma Rx_ne : Rx <> 0. Proof. lra. Qed.
  Lemma grad_ne : pR * pR + pZ * pZ <> 0.
  Proof. rewrite Hgrad. apply Rmult_integral_contrapositive_currified; apply Rmult_integral_contrapositive_currified; auto using Rx_ne. Qed.
  Lemma dr_ne : dR * dR + dZ * dZ <> 0.
  Proof. intro E. assert (dR = 0 /\ dZ = 0) as [A B] by (split; nra). apply Hdx. unfold dxlin. rewrite A, B. ring. Qed.

  Lemma Na0 : (dR - 0) * (dR - 0) + (dZ - 0) * (dZ - 0) <> 0.
  Proof. pose proof dr_ne as D; intro E; apply D; rewrite <- E; ring. Qed.
  Lemma Nb0 : k * pR * (k * pR) + k * pZ * (k * pZ) <> 0.
  Proof.
    pose proof grad_ne as D; intro E; apply D; assert (k * k <> 0) by (apply Rmult_integral_contrapositive_currified; lra).
    apply Rmult_eq_reg_l with (r := k * k); [rewrite Rmult_0_r, <- E; ring | assumption].
  Qed.
  Ltac open_sqrt :=
    destruct (sqrt_sq_pos _ Na0 (sumsq_nonneg _ _)) as [Ea Na];
    destruct (sqrt_sq_pos _ Nb0 (sumsq_nonneg _ _)) as [Eb Nb];
    revert Ea Na Eb Nb;
    generalize (sqrt ((dR - 0) * (dR - 0) + (dZ - 0) * (dZ - 0))) (sqrt (k * pR * (k * pR) + k * pZ * (k * pZ)));
    intros a b Ea Na Eb Nb.

  Lemma cosB_closed : cosB * cosB * ((dR * dR + dZ * dZ) * (pR * pR + pZ * pZ)) = dxlin * dxlin.
  Proof.
    unfold cosB, dxlin. unfold_beta. open_sqrt.
    assert (Eb' : b * b = k * k * (pR * pR + pZ * pZ)) by (rewrite Eb; ring).
    field_simplify_eq; [cbv beta iota delta [Rpow_def.pow]; nsatz | auto].
  Qed.
  Lemma cosB_ne : cosB <> 0.
  Proof. intro E. pose proof cosB_closed as C. rewrite E in C. apply Hdx. nra. Qed.
  Lemma tanB_closed : tanB * dxlin = dR * pZ - dZ * pR.
  Proof.
    pose proof cosB_ne as Hc. unfold tanB. cbv [beta_tan]. unfold_ops.
    revert Hc. unfold cosB, sinB, dxlin. unfold_beta. open_sqrt. intro Hc.
    field_simplify_eq; [cbv beta iota delta [Rpow_def.pow]; nsatz | repeat split; auto].
    intro E. assert (K : k * dxlin = 0) by (unfold dxlin; rewrite <- E; ring).
    apply Rmult_integral in K. destruct K; [lra | auto].
  Qed.

  (* g_11 = e_x . e_x on the non-orthogonal branch (I = 0) *)
  Lemma g_11_displacement : G metric_nonorth_g_11 = ex_ex.
  Proof.
    pose proof cosB_closed as C. pose proof cosB_ne as Hc. pose proof Rx_ne as HRx. pose proof dr_ne. pose proof grad_ne as Hg.
    unfold ex_ex. unfold_metric. revert C Hc. generalize cosB. intros c C Hc. rewrite Hgrad in C.
    field_simplify_eq; [cbv beta iota delta [Rpow_def.pow]; nsatz | auto].
  Qed.
  (* poloidal part of g_22 = e_y . e_y = hy^2 (|yhat| = 1): Proof_Metric.g_22_poloidal_part *)

  (* g_12 = e_x . e_y, both signs of bpsign (was wrong for bpsign = +1 in the pinned code: finding F12, repaired) *)
  Lemma g_12_code_closed : G metric_nonorth_g_12 = hy * (dR * pZ - dZ * pR) / (dxlin * (Rx * Bp)).
  Proof.
    pose proof tanB_closed as T. pose proof Rx_ne as HRx. unfold_metric. revert T. generalize tanB. intros t T.
    field_simplify_eq; [cbv beta iota delta [Rpow_def.pow]; nsatz | auto].
  Qed.
  Lemma g_12_displacement : G metric_nonorth_g_12 = ex_ey.
  Proof.
    rewrite g_12_code_closed. unfold ex_ey. rewrite Habs. pose proof Rx_ne. pose proof (sq1_ne0 _ Hbps).
    field_simplify_eq; [cbv beta iota delta [Rpow_def.pow]; nsatz | auto].
  Qed.
End Displacements.
