(* C05 / C06: stencil index lemmas (any contour length), hand-over along a chain (any number of regions), and the
   start of every y-group for the connection tables extracted from the source. *)
From Coq Require Import List Arith Bool QArith Lia Lqa.
From HT Require Import Model_Region Proof_Region Model_Chain TopoLib.
From HG Require Import Gen_Topo.
Import ListNotations.
Local Open Scope Q_scope.

Lemma zipsub_nth : forall a b j, (j < length a)%nat -> (j < length b)%nat -> nth j (zipsub a b) 0 = nth j a 0 - nth j b 0.
Proof.
  induction a as [|x s IH]; intros b j Ha Hb; [simpl in Ha; lia|]. destruct b as [|y t]; [simpl in Hb; lia|].
  destruct j; simpl; [reflexivity|]. apply IH; simpl in *; lia.
Qed.

Lemma every_other_len_ge {A} (l : list A) k : (2 * k < length l)%nat -> (k < length (every_other l))%nat.
Proof.
  intro H. rewrite every_other_length. assert (k + 1 <= (length l + 1) / 2)%nat by (apply Nat.div_le_lower_bound; lia). lia.
Qed.

(* hy.centre[j] * dy = d[2j+2] - d[2j]: the distance between the two y-faces of cell j *)
Lemma centre_diffs_nth d j : (2 * j + 2 < length d)%nat -> nth j (centre_diffs d) 0 = nth (2 * j + 2) d 0 - nth (2 * j) d 0.
Proof.
  intro H. unfold centre_diffs.
  rewrite zipsub_nth; [| apply every_other_len_ge; rewrite skipn_length; lia | apply every_other_len_ge; lia].
  rewrite every_other_nth by (rewrite skipn_length; lia). rewrite nth_skipn'.
  rewrite every_other_nth by lia. replace (2 + 2 * j)%nat with (2 * j + 2)%nat by lia. reflexivity.
Qed.
(* interior hy.ylow[j+1] * dy = d[2j+3] - d[2j+1]: the distance between the centres of cells j and j+1 *)
Lemma face_diffs_nth d j : (2 * j + 3 < length d)%nat -> nth j (face_diffs d) 0 = nth (2 * j + 3) d 0 - nth (2 * j + 1) d 0.
Proof.
  intro H. unfold face_diffs.
  rewrite zipsub_nth; [| apply every_other_len_ge; rewrite skipn_length; lia | apply every_other_len_ge; rewrite skipn_length; lia].
  rewrite !every_other_nth by (rewrite skipn_length; lia). rewrite !nth_skipn'.
  replace (3 + 2 * j)%nat with (2 * j + 3)%nat by lia. replace (1 + 2 * j)%nat with (2 * j + 1)%nat by lia. reflexivity.
Qed.

(* a strictly increasing distance list gives strictly positive hy *)
Fixpoint increasing (l : list Q) : Prop := match l with a :: ((b :: _) as t) => a < b /\ increasing t | _ => True end.
Lemma increasing_nth : forall l i k, increasing l -> (i + S k < length l)%nat -> nth i l 0 < nth (i + S k) l 0.
Proof.
  induction l as [|a t IH]; intros i k Hinc H; [simpl in H; lia|].
  destruct i.
  - simpl. destruct t as [|b t']; [simpl in H; lia|]. destruct Hinc as [Hab Ht]. destruct k; [simpl; exact Hab|].
    specialize (IH 0%nat k Ht ltac:(simpl in *; lia)). simpl in IH. simpl. lra.
  - simpl. apply IH; [destruct t as [|b t']; [exact I | destruct Hinc; assumption] | simpl in H; lia].
Qed.
Lemma hy_positive d j : increasing d -> (2 * j + 2 < length d)%nat -> 0 < nth j (centre_diffs d) 0.
Proof.
  intros Hi H. rewrite centre_diffs_nth by exact H.
  pose proof (increasing_nth d (2 * j) 1 Hi ltac:(lia)) as P. replace (2 * j + 2)%nat with (2 * j + 2)%nat by lia.
  replace (2 * j + 2)%nat with (2 * j + 2)%nat in P by lia. lra.
Qed.

(* ---------------- hand-over along a chain ---------------- *)
Lemma chain_acc_cons carry v rest :
  chain_acc carry (v :: rest) = map (fun x => carry + x) v :: chain_acc (last (map (fun x => carry + x) v) carry) rest.
Proof. reflexivity. Qed.

Lemma last_map_plus carry v : v <> [] -> last (map (fun x => carry + x) v) carry = carry + last v 0.
Proof.
  induction v as [|a t IH]; [congruence|]. intros _. destruct t as [|b t']; [reflexivity|].
  change (last (map (fun x => carry + x) (a :: b :: t')) carry) with (last (map (fun x => carry + x) (b :: t')) carry).
  rewrite IH by discriminate. reflexivity.
Qed.

(* the value at the first point of region q+1 is the value at the last point of region q plus v_{q+1}[0]:
   the accumulated quantity is continuous across every join exactly when each later region's own list starts at 0 *)
Theorem chain_join carry v w rest : v <> [] -> w <> [] ->
  match chain_acc carry (v :: w :: rest) with
  | out_v :: out_w :: _ => hd 0 out_w = last out_v carry + hd 0 w
  | _ => False
  end.
Proof.
  intros Hv Hw. rewrite !chain_acc_cons. destruct w as [|w0 wt]; [congruence|]. simpl. reflexivity.
Qed.

(* ---------------- y-groups for the tables extracted from the source ---------------- *)
Definition mesh_upper (conn : list ((nat * nat) * (nat * nat))) (nseg : nat) (id : nat) : option nat :=
  match upper conn ((id / nseg)%nat, (id mod nseg)%nat) with Some (r, k) => Some (r * nseg + k)%nat | None => None end.
Definition mesh_lower (conn : list ((nat * nat) * (nat * nat))) (nseg : nat) (id : nat) : option nat :=
  match lower conn ((id / nseg)%nat, (id mod nseg)%nat) with Some (r, k) => Some (r * nseg + k)%nat | None => None end.
Definition groups_of (pick_last : bool) conn (nreg nseg : nat) : list (list nat) :=
  y_groups (mesh_lower conn nseg) (mesh_upper conn nseg) pick_last (nreg * nseg).

Fixpoint list_min (l : list nat) (d : nat) : nat := match l with [] => d | h :: t => Nat.min h (list_min t d) end.
(* a group starts correctly: at a region with no lower neighbour, or (closed chain) at its first region in y-index order *)
Definition starts_ok conn nseg (g : list nat) : bool :=
  match g with [] => false | h :: t => match mesh_lower conn nseg h with None => true | Some _ => Nat.eqb h (list_min t h) end end.
Definition all_starts_ok (pick_last : bool) conn nreg nseg : bool := forallb (starts_ok conn nseg) (groups_of pick_last conn nreg nseg).
(* every region is in exactly one group, and consecutive members are joined by `upper` *)
Fixpoint linked conn nseg (g : list nat) : bool :=
  match g with a :: ((b :: _) as t) => (match mesh_upper conn nseg a with Some x => Nat.eqb x b | None => false end) && linked conn nseg t | _ => true end.
Definition partition_ok (pick_last : bool) conn nreg nseg : bool :=
  let gs := groups_of pick_last conn nreg nseg in
  forallb (linked conn nseg) gs &&
  forallb (fun id => Nat.eqb (length (filter (fun g => existsb (Nat.eqb id) g) gs)) 1) (seq 0 (nreg * nseg)).

Lemma groups_repaired_ok :
  all_starts_ok false conn_lsn 3 2 = true /\ all_starts_ok false conn_usn 3 2 = true /\ all_starts_ok false conn_cdn 6 2 = true /\
  all_starts_ok false conn_ldn 6 3 = true /\ all_starts_ok false conn_udn 6 3 = true /\
  partition_ok false conn_lsn 3 2 = true /\ partition_ok false conn_usn 3 2 = true /\ partition_ok false conn_cdn 6 2 = true /\
  partition_ok false conn_ldn 6 3 = true /\ partition_ok false conn_udn 6 3 = true.
Proof. repeat split; vm_compute; reflexivity. Qed.

(* the pinned loop (no region without a lower neighbour left => the loop variable stays at the LAST region) started the
   double-null core chain at outer_core: finding F2 *)
Lemma groups_pinned_refuted : all_starts_ok true conn_cdn 6 2 = false /\ all_starts_ok true conn_ldn 6 3 = false /\ all_starts_ok true conn_udn 6 3 = false.
Proof. repeat split; vm_compute; reflexivity. Qed.
Lemma groups_pinned_single_null_ok : all_starts_ok true conn_lsn 3 2 = true /\ all_starts_ok true conn_usn 3 2 = true.
Proof. split; vm_compute; reflexivity. Qed.

(* general: the repaired choice starts a closed chain at the first remaining region, an open one at a region with no lower neighbour *)
Lemma start_index_open lower l i : first_open lower l 0 = Some i -> forall pl, start_index lower pl l = i.
Proof. intros H pl. unfold start_index. rewrite H. reflexivity. Qed.
Lemma first_open_sound lower : forall l k i, first_open lower l k = Some i -> (k <= i)%nat /\ lower (nth (i - k) l 0%nat) = None.
Proof.
  induction l as [|h t IH]; intros k i H; simpl in H; [discriminate|].
  destruct (lower h) eqn:E.
  - destruct (IH (S k) i H) as [A B]. split; [lia|]. replace (i - k)%nat with (S (i - S k)) by lia. simpl. exact B.
  - inversion H; subst. split; [lia|]. rewrite Nat.sub_diag. simpl. exact E.
Qed.
Lemma start_index_closed lower l : first_open lower l 0 = None -> start_index lower false l = 0%nat.
Proof. intro H. unfold start_index. rewrite H. reflexivity. Qed.
