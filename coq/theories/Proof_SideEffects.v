(* C14: what TokamakEquilibrium.__init__ leaves in the CALLER's arrays, and what a second construction from the same arrays sees.
   T_preprocess and T_inplace_on_caller_arrays are REGENERATED from tokamak.py (Gen_Options).  Hand model: an augmented assignment on a numpy array
   parameter (psi2D *= -1.0) writes through to the caller's object; a re-binding (psi2D = -psi2D) and any operation on a float parameter do not. *)
From Coq Require Import Reals Lra.
From HG Require Import Gen_Options.
Local Open Scope R_scope.

(* the caller's (psi2D, psi1D, fpol1D, psi_axis_gfile, psi_bdry_gfile) after the constructor has returned *)
Definition caller_after (rc dt rb : bool) (c : eqin) : eqin :=
  if T_inplace_on_caller_arrays
  then let x := T_preprocess rc dt rb c in mkin (i_psi2D x) (i_psi1D x) (i_fpol1D x) (i_axis_gfile c) (i_bdry_gfile c)
  else c.

Lemma no_side_effect rc dt rb c : T_inplace_on_caller_arrays = false -> caller_after rc dt rb c = c.
Proof. intros H. unfold caller_after. rewrite H. reflexivity. Qed.

Lemma rebuild_same rc dt rb c : T_inplace_on_caller_arrays = false ->
  T_preprocess rc dt rb (caller_after rc dt rb c) = T_preprocess rc dt rb c.
Proof. intros H. rewrite no_side_effect by exact H. reflexivity. Qed.

(* with in-place updates the second construction sees already-transformed arrays: e.g. reverse_current applied twice *)
Lemma inplace_refuted : exists c, T_preprocess true false false (T_preprocess true false false c) <> T_preprocess true false false c.
Proof.
  exists (mkin 1 1 1 1 1). unfold T_preprocess, T_reverse_current. cbn [i_psi2D i_psi1D i_fpol1D i_axis_gfile i_bdry_gfile].
  intros E. inversion E. lra.
Qed.
