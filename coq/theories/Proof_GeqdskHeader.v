(* C17: the header line written by _geqdsk.write is read back by _geqdsk.read (nx, ny < 1000), whatever label / date / shot / time contain. *)
From Coq Require Import List Arith Bool Lia.
From HT Require Import Model_Geqdsk Model_GeqdskHeader.
Import ListNotations.

Definition no_ws (l : list ch) : Prop := forallb (fun c => negb (is_ws c)) l = true.

Lemma words_aux_nows w : no_ws w -> forall cur l, words_aux cur (w ++ l) = words_aux (rev w ++ cur) l.
Proof.
  induction w as [|c w IH]; intros H cur l; [reflexivity|].
  unfold no_ws in H. cbn [forallb] in H. apply andb_prop in H. destruct H as [Hc Hw].
  cbn [app words_aux]. destruct (is_ws c); [discriminate|]. rewrite (IH Hw). cbn [rev]. rewrite <- app_assoc. reflexivity.
Qed.

Lemma words_aux_spaces k : forall l, words_aux [] (repeat Sp k ++ l) = words_aux [] l.
Proof. induction k as [|k IH]; intro l; [reflexivity|]. cbn [repeat app words_aux is_ws]. apply IH. Qed.

(* a complete word followed by a blank *)
Lemma words_aux_word w l : no_ws w -> w <> [] -> words_aux [] (w ++ Sp :: l) = w :: words_aux [] l.
Proof.
  intros H Hne. rewrite (words_aux_nows w H). rewrite app_nil_r. cbn [words_aux is_ws].
  destruct (rev w) eqn:E; [apply (f_equal (@rev ch)) in E; rewrite rev_involutive in E; cbn in E; contradiction|].
  rewrite <- E, rev_involutive. reflexivity.
Qed.
Lemma words_aux_lastword w : no_ws w -> w <> [] -> words_aux [] (w ++ [NL]) = [w].
Proof.
  intros H Hne. rewrite (words_aux_nows w H). rewrite app_nil_r. cbn [words_aux is_ws].
  destruct (rev w) eqn:E; [apply (f_equal (@rev ch)) in E; rewrite rev_involutive in E; cbn in E; contradiction|].
  rewrite <- E, rev_involutive. reflexivity.
Qed.

(* whatever precedes a blank only contributes words of its own *)
Lemma words_aux_split A : forall cur B, words_aux cur (A ++ Sp :: B) = words_aux cur (A ++ [Sp]) ++ words_aux [] B.
Proof.
  induction A as [|c A IH]; intros cur B.
  - cbn [app words_aux is_ws]. destruct cur; reflexivity.
  - cbn [app words_aux]. destruct (is_ws c).
    + destruct cur; [apply IH | rewrite IH; reflexivity].
    + apply IH.
Qed.

Lemma digits_no_ws ds : no_ws (map Dg ds).
Proof. unfold no_ws. induction ds as [|d ds IH]; [reflexivity | exact IH]. Qed.

Lemma nat_digits_aux_nonempty fuel : forall n acc, fuel <> 0 -> nat_digits_aux fuel n acc <> [].
Proof.
  induction fuel as [|f IH]; intros n acc H; [contradiction|]. cbn [nat_digits_aux].
  destruct (Nat.ltb n 10); [discriminate|]. destruct f; [cbn; discriminate | apply IH; discriminate].
Qed.
Lemma nat_digits_nonempty n : nat_digits n <> [].
Proof. unfold nat_digits. apply nat_digits_aux_nonempty. discriminate. Qed.

(* at most three digits below 1000: the finite domain is checked exhaustively by evaluation and lifted *)
Lemma nat_digits_short n : n < 1000 -> length (nat_digits n) <= 3.
Proof.
  intro H. assert (A : forallb (fun k => length (nat_digits k) <=? 3) (seq 0 1000) = true) by (vm_compute; reflexivity).
  rewrite forallb_forall in A. apply Nat.leb_le. apply A. apply in_seq. lia.
Qed.

Lemma fmt4_shape n : n < 1000 -> exists k, fmt4 n = Sp :: repeat Sp k ++ map Dg (nat_digits n).
Proof.
  intro H. pose proof (nat_digits_short n H) as L. unfold fmt4, pad_left. rewrite map_length.
  destruct (4 - length (nat_digits n)) as [|k] eqn:E; [lia|]. exists k. reflexivity.
Qed.

Theorem header_words label date shot time nx ny : nx < 1000 -> ny < 1000 ->
  exists W, words (header label date shot time nx ny) = W ++ [[Dg 3]; map Dg (nat_digits nx); map Dg (nat_digits ny)].
Proof.
  intros Hx Hy. destruct (fmt4_shape nx Hx) as (kx & Ex). destruct (fmt4_shape ny Hy) as (ky & Ey).
  unfold header. rewrite Ex, Ey.
  change (fmt4 3) with ([Sp; Sp] ++ Sp :: [Dg 3]).
  set (P := pad_right 11 label ++ pad_right 10 date ++ [Sp; Sp; Sp] ++ pad_left 8 shot ++ pad_right 16 time ++ [Sp; Sp]).
  assert (E : pad_right 11 label ++ pad_right 10 date ++ [Sp; Sp; Sp] ++ pad_left 8 shot ++ pad_right 16 time ++
              ([Sp; Sp] ++ Sp :: [Dg 3]) ++ (Sp :: repeat Sp kx ++ map Dg (nat_digits nx)) ++ (Sp :: repeat Sp ky ++ map Dg (nat_digits ny)) ++ [NL]
              = P ++ Sp :: ([Dg 3] ++ Sp :: (repeat Sp kx ++ (map Dg (nat_digits nx) ++ Sp :: (repeat Sp ky ++ (map Dg (nat_digits ny) ++ [NL])))))).
  { unfold P. repeat (rewrite <- app_assoc; cbn [app]). reflexivity. }
  rewrite E. unfold words. rewrite words_aux_split. exists (words_aux [] (P ++ [Sp])). f_equal.
  rewrite (words_aux_word [Dg 3]); [|reflexivity|discriminate].
  rewrite words_aux_spaces.
  rewrite (words_aux_word (map Dg (nat_digits nx))); [|apply digits_no_ws | intro H; apply map_eq_nil in H; exact (nat_digits_nonempty nx H)].
  rewrite words_aux_spaces.
  rewrite (words_aux_lastword (map Dg (nat_digits ny))); [|apply digits_no_ws | intro H; apply map_eq_nil in H; exact (nat_digits_nonempty ny H)].
  reflexivity.
Qed.

Lemma all_digits_map ds : all_digits (map Dg ds) = Some ds.
Proof. induction ds as [|d ds IH]; [reflexivity|]. cbn [map all_digits]. rewrite IH. reflexivity. Qed.
Lemma parse_nat_digits ds : ds <> [] -> parse_nat (map Dg ds) = Some ds.
Proof. destruct ds as [|d ds]; [contradiction|]. intros _. unfold parse_nat. cbn [map]. apply (all_digits_map (d :: ds)). Qed.

(* the reader recovers nx and ny from the header the writer produces, for ANY label, date, shot and time fields (of any length and content) *)
Theorem header_roundtrip label date shot time nx ny : nx < 1000 -> ny < 1000 ->
  read_header (header label date shot time nx ny) = Some (nat_digits nx, nat_digits ny).
Proof.
  intros Hx Hy. destruct (header_words label date shot time nx ny Hx Hy) as (W & E).
  unfold read_header, last3. rewrite E, rev_app_distr. cbn [rev app].
  rewrite !parse_nat_digits by apply nat_digits_nonempty. reflexivity.
Qed.

(* the guard is needed: with four digits the "{:4d}" fields abut ("   31000  65"): the third word from the end is then the time field, and the reader
   raises (or, were that field numeric, would silently take 31000 for nx) *)
Example header_abuts_from_1000 :
  last3 (words (header [Other] [Other] [Other] [Other] 1000 65)) = Some ([Other; Other], [Dg 3; Dg 1; Dg 0; Dg 0; Dg 0], [Dg 6; Dg 5])
  /\ read_header (header [Other] [Other] [Other] [Other] 1000 65) = None
  /\ read_header (header [Other] [Other] [] [Dg 7] 1000 65) = Some ([3; 1; 0; 0; 0], [6; 5]).
Proof. repeat split; vm_compute; reflexivity. Qed.
