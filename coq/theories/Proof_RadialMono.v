(* C09: the two-gradient trigonometric radial branch is strictly monotone AS A FUNCTION on [0, n] in the interior of its guard
   (a_tr has the sign of upper - lower) when both prescribed end gradients have, strictly, the sign of upper - lower:
   its gradient is a convex combination of gl and gu plus a non-negative multiple of a_tr; mean-value theorem. *)
From Coq Require Import Reals Lra.
From Coquelicot Require Import Coquelicot.
From HT Require Import Field Proof_Radial.
From HG Require Import Gen_Radial.
Local Open Scope R_scope.

Lemma tr_gradient_strict n lower upper gl gu i :
  0 < (upper - lower) * gl -> 0 < (upper - lower) * gu -> 0 <= (upper - lower) * a_tr n lower upper gl gu ->
  0 < (upper - lower) * tr' n lower upper gl gu i.
Proof.
  intros H1 H2 H3. unfold tr'. cbv zeta.
  pose proof (COS_bound (PI * i / n)) as [C1 C2]. pose proof (COS_bound (2 * PI * i / n)) as [C3 C4].
  set (c := cos (PI * i / n)) in *. set (c2 := cos (2 * PI * i / n)) in *. set (A := a_tr n lower upper gl gu) in *. set (D := upper - lower) in *.
  replace (D * (1 / 2 * (gl + gu) + 1 / 2 * (gl - gu) * c + A * (1 - c2)))
    with (D * gl * ((1 + c) / 2) + D * gu * ((1 - c) / 2) + D * A * (1 - c2)) by field.
  assert (0 <= D * A * (1 - c2)) by (apply Rmult_le_pos; lra).
  assert (0 <= D * gl * ((1 + c) / 2)) by (apply Rmult_le_pos; lra).
  assert (0 <= D * gu * ((1 - c) / 2)) by (apply Rmult_le_pos; lra).
  destruct (Rle_dec 0 c) as [P|P].
  - assert (0 < D * gl * ((1 + c) / 2)) by (apply Rmult_lt_0_compat; lra). lra.
  - assert (0 < D * gu * ((1 - c) / 2)) by (apply Rmult_lt_0_compat; lra). lra.
Qed.

Lemma tr_function_strict (erf : R -> R) n lower upper gl gu : 0 < n ->
  0 < (upper - lower) * gl -> 0 < (upper - lower) * gu -> 0 <= (upper - lower) * a_tr n lower upper gl gu ->
  forall i1 i2, i1 < i2 ->
  0 < (radial_both_trig Rops erf n lower upper gl gu i2 - radial_both_trig Rops erf n lower upper gl gu i1) * (upper - lower).
Proof.
  intros Hn H1 H2 H3 i1 i2 Hlt.
  destruct (MVT_gen (fun x => radial_both_trig Rops erf n lower upper gl gu x) i1 i2 (tr' n lower upper gl gu)) as [c [_ E]].
  - intros t _. apply tr_derive; exact Hn.
  - intros t _. apply derivable_continuous_pt. apply ex_derive_Reals_0. eexists. apply tr_derive; exact Hn.
  - cbv beta in E. rewrite E. pose proof (tr_gradient_strict n lower upper gl gu c H1 H2 H3) as P.
    replace (tr' n lower upper gl gu c * (i2 - i1) * (upper - lower)) with ((upper - lower) * tr' n lower upper gl gu c * (i2 - i1)) by ring.
    apply Rmult_lt_0_compat; lra.
Qed.

(* weak version on the guard's interior without strictness of the end gradients *)
Lemma tr_function_monotone (erf : R -> R) n lower upper gl gu : 0 < n ->
  0 <= (upper - lower) * gl -> 0 <= (upper - lower) * gu -> 0 <= (upper - lower) * a_tr n lower upper gl gu ->
  forall i1 i2, i1 <= i2 ->
  0 <= (radial_both_trig Rops erf n lower upper gl gu i2 - radial_both_trig Rops erf n lower upper gl gu i1) * (upper - lower).
Proof.
  intros Hn H1 H2 H3 i1 i2 Hle.
  destruct (MVT_gen (fun x => radial_both_trig Rops erf n lower upper gl gu x) i1 i2 (tr' n lower upper gl gu)) as [c [_ E]].
  - intros t _. apply tr_derive; exact Hn.
  - intros t _. apply derivable_continuous_pt. apply ex_derive_Reals_0. eexists. apply tr_derive; exact Hn.
  - cbv beta in E. rewrite E. pose proof (tr_monotone_partial n lower upper gl gu c H1 H2 H3) as P.
    replace (tr' n lower upper gl gu c * (i2 - i1) * (upper - lower)) with ((upper - lower) * tr' n lower upper gl gu c * (i2 - i1)) by ring.
    apply Rmult_le_pos; lra.
Qed.

(* non-vacuity: n = 4, 1 -> 2 with end gradients 0.2 and 0.25: a_tr = (1 - 0.9)/4 > 0 *)
Example tr_function_strict_instance (erf : R -> R) : forall i1 i2, i1 < i2 ->
  0 < (radial_both_trig Rops erf 4 1 2 (2/10) (25/100) i2 - radial_both_trig Rops erf 4 1 2 (2/10) (25/100) i1) * (2 - 1).
Proof. apply tr_function_strict; unfold a_tr; cbv zeta; lra. Qed.
