(* C06 -- zShift, ShiftAngle, dphidy and ShiftTorsion follow the field lines.
   dphidy is the formula REGENERATED from geometry2 (gen/Gen_Metric.v); the chain logic is shared with C05. *)
From Coq Require Import List Arith Bool QArith Reals Lra.
From HT Require Import Field Proof_Metric Model_Chain Proof_Chain TopoLib.
From HG Require Import Gen_Metric Gen_Topo Gen_Slices.
Import ListNotations.

(* dphidy = hy*Btxy/(Bpxy*Rxy); its magnitude is the y-derivative of zShift (the integral of Bt/(R|Bp|) ds with ds = hy dy) *)
Theorem C06_dphidy : forall (hy Bt Bp Rx bps : R), (Rx <> 0 -> Bp <> 0 -> bps * bps = 1 -> Rabs Bp = bps * Bp ->
  geom2_dphidy Rops hy Bt Bp Rx = hy * Bt / (Bp * Rx) /\ geom2_dphidy Rops hy Bt Bp Rx = bps * dzShift_dy Rx Bp hy Bt)%R.
Proof.
  intros hy Bt Bp Rx bps HR HBp Hb Ha. split; [reflexivity|].
  exact (dphidy_is_signed_dz Rx Bp hy 1 0 bps 0 HR HBp ltac:(lra) ltac:(lra) Hb Ha Bt).
Qed.

Local Open Scope Q_scope.
(* zShift is handed from region to region along a chain: it is continuous at every join because every region's own
   increments start at 0 (zShift_fine -= zShift_fine[startInd]); the only jump of a closed chain is at the wrap *)
Theorem C06_join : forall carry v w rest, v <> [] -> w <> [] -> hd 0 w = 0 ->
  match chain_acc carry (v :: w :: rest) with
  | out_v :: out_w :: _ => hd 0 out_w == last out_v carry
  | _ => False
  end.
Proof.
  intros carry v w rest Hv Hw H0. pose proof (chain_join carry v w rest Hv Hw) as J.
  destruct (chain_acc carry (v :: w :: rest)) as [|ov [|ow t]]; try contradiction. rewrite J, H0. ring.
Qed.

(* the periodic (closed-surface) chain of every double-null table consists of core regions only, so the wrap -- where the
   single jump of size ShiftAngle sits -- is at a core X-point join whichever region the chain starts from *)
Definition core_chain_ok conn nreg nseg (core : list nat) : bool :=
  forallb (fun g => match mesh_lower conn nseg (hd 0%nat g) with
                    | None => true
                    | Some _ => forallb (fun id => existsb (Nat.eqb (id / nseg)%nat) core) g
                    end) (groups_of makeRegions_pick_last conn nreg nseg).
Theorem C06_jump_location :
  core_chain_ok conn_lsn 3 2 [1%nat] = true /\ core_chain_ok conn_usn 3 2 [1%nat] = true /\
  core_chain_ok conn_cdn 6 2 [1%nat; 4%nat] = true /\ core_chain_ok conn_ldn 6 3 [1%nat; 4%nat] = true /\ core_chain_ok conn_udn 6 3 [1%nat; 4%nat] = true.
Proof. repeat split; vm_compute; reflexivity. Qed.

Print Assumptions C06_dphidy.
Print Assumptions C06_join.
Print Assumptions C06_jump_location.

(* ---------------------------------------------------------------------------------------------------------------
   The quadrature itself (round 5): calcZShift as modelled in theories/Model_Quadrature.v (integrand, scipy's
   cumulative_trapezoid, the shift to startInd, interp1d, accumulation, hand-over; the PrimFloat instance of the same
   definitions is run bit for bit against the real calcZShift on stub regions on every run); theorems over R. *)
From HT Require Import Model_Quadrature Proof_Quadrature.
Local Open Scope R_scope.

(* the integral starts at 0 and grows over each fine segment by the trapezoid of Bt/(R Bp) over that segment;
   it is zero at the fine contour's startInd after the shift *)
Theorem C06_trapezoid_increment : forall y x k, length y = length x -> (S k < length y)%nat ->
  nth 0 (cumtrapz Rops y x) 0 = 0 /\
  nth (S k) (cumtrapz Rops y x) 0 - nth k (cumtrapz Rops y x) 0 = (nth (S k) x 0 - nth k x 0) * (nth (S k) y 0 + nth k y 0) / 2.
Proof. intros y x k Hl Hk. split; [reflexivity|]. exact (cz_step y x k Hl Hk). Qed.
Theorem C06_origin_at_startInd : forall y x si, length y = length x -> (si < length y)%nat -> nth si (zshift_fine Rops y x si) 0 = 0.
Proof. exact zshift_fine_origin. Qed.

(* a field of one sign gives a monotone zShift along the surface *)
Theorem C06_monotone_for_positive_pitch : forall y x, length y = length x -> (forall k, (k < length y)%nat -> 0 < nth k y 0) ->
  (forall k, (S k < length x)%nat -> nth k x 0 < nth (S k) x 0) ->
  forall k, (S k < length y)%nat -> nth k (cumtrapz Rops y x) 0 < nth (S k) (cumtrapz Rops y x) 0.
Proof. exact cz_increasing. Qed.

(* the interpolation onto the contour's own points returns the node value at a node ... *)
Theorem C06_interpolation_at_node : forall xp fp j, incr xp -> (j < length xp)%nat -> interp Rops xp fp (nth j xp 0) = Some (nth j fp 0).
Proof. exact interp_at_node. Qed.

(* ... and altogether: where the pitch Bt/(R Bp) is uniform along the surface, zShift at every point of the contour is
   EXACTLY the value handed over plus pitch times poloidal distance from the startInd -- for every discretisation of the
   fine contour and every position of the contour's points between the fine points *)
Theorem C06_uniform_pitch_exact : forall base c ys fdist si cdist,
  length ys = length fdist -> (1 <= length ys)%nat -> incr fdist -> (si < length ys)%nat ->
  (forall k, (k < length ys)%nat -> nth k ys 0 = c) ->
  increasing_guard Rops cdist = true ->
  (forall s, In s cdist -> nth 0 fdist 0 <= s <= last fdist 0) ->
  zshift_contour Rops base ys fdist si cdist = Some (map (fun s => base + c * (s - nth si fdist 0)) cdist).
Proof. exact zshift_uniform_pitch. Qed.

(* for ANY integrands and any number of regions in the y-group: each later region starts from the value at the last
   y-face of the region before it *)
Theorem C06_continuous_at_joins : forall (regions : list (@seg R)) base vals,
  (forall r, In r regions -> seg_wf r) ->
  zshift_chain Rops base regions = Some vals ->
  length vals = length regions /\
  forall k, (S k < length vals)%nat -> hd 0 (nth (S k) vals []) = last (evens (nth k vals [])) 0.
Proof. exact zshift_chain_continuous. Qed.

Print Assumptions C06_trapezoid_increment.
Print Assumptions C06_uniform_pitch_exact.
Print Assumptions C06_continuous_at_joins.

(* ---------------------------------------------------------------------------------------------------------------
   ShiftTorsion = DDX(dphidy): the finite-difference stencils of MeshRegion.DDX / DDY as modelled in
   theories/Model_Stencil.v (the PrimFloat instance is run bit for bit against the real methods on stub regions with
   and without neighbours on each side, on every run). *)
From HT Require Import Model_Stencil Proof_Stencil.

(* the value at a cell (result.centre from the x-faces, result.ylow from the corners) is the centred difference over the
   cell: exact on data affine in the coordinate whose differences are the spacings, any number of cells *)
Theorem C06_ddx_cell_values_exact_on_affine : forall a b (X : list R), increasing X ->
  d_centre Rops (map (fun x => a + b * x) X) (diffs Rops X) = map (fun _ => b) (diffs Rops X).
Proof. exact d_centre_affine. Qed.

(* the value at a face: interior faces from the two adjacent cells, a face on the boundary of the mesh from the one-sided
   half cell, a face shared with another region from that region's adjacent cell -- all exact on affine data *)
Theorem C06_ddx_face_values_exact_on_affine : forall a b (Xc X : list R) (x_in x_out : option R) df0 dfn, Xc <> [] -> X <> [] -> increasing Xc ->
  df0 <> 0 -> dfn <> 0 ->
  df0 = match x_in with Some xi => hd 0 Xc - xi | None => 2 * (hd 0 Xc - hd 0 X) end ->
  dfn = match x_out with Some xo => xo - last Xc 0 | None => 2 * (last X 0 - last Xc 0) end ->
  d_face Rops (map (fun x => a + b * x) Xc) (map (fun x => a + b * x) X) (df0 :: diffs Rops Xc ++ [dfn])
         (option_map (fun x => a + b * x) x_in) (option_map (fun x => a + b * x) x_out)
  = b :: map (fun _ => b) (diffs Rops Xc) ++ [b].
Proof. exact d_face_affine. Qed.

(* ShiftTorsion at a face shared by two regions is single valued *)
Theorem C06_ddx_single_valued_at_shared_faces : forall (CA FA dfA CB FB dfB : list R) iA oB, CA <> [] -> CB <> [] ->
  last dfA 0 = hd 0 dfB ->
  last (d_face Rops CA FA dfA iA (Some (hd 0 CB))) 0 = hd 0 (d_face Rops CB FB dfB (Some (last CA 0)) oB).
Proof. exact d_face_shared. Qed.

Theorem C06_ddx_sizes : forall (C F dc df : list R) i o, length F = S (length C) -> length dc = length C -> length df = S (length C) -> C <> [] ->
  length (d_centre Rops F dc) = length C /\ length (d_face Rops C F df i o) = S (length C).
Proof. exact stencil_lengths. Qed.

Print Assumptions C06_ddx_face_values_exact_on_affine.
Print Assumptions C06_ddx_single_valued_at_shared_faces.

(* zShift at the contour's own points (theories/Proof_ZMono.v): inside the range numpy.interp returns the chord value of the segment
   that contains the point, and for a field of one sign zShift does not decrease from a contour point to a later one -- wherever the
   points lie between the fine points *)
From HT Require Import Proof_InterpMono Proof_ZMono.
Theorem C06_monotone_along_the_contour : forall base ys fdist si s1 s2 v1 v2,
  length ys = length fdist -> (2 <= length ys)%nat -> incr fdist -> (si < length ys)%nat ->
  (forall k, (k < length ys)%nat -> 0 < nth k ys 0) ->
  nth 0 fdist 0 <= s1 -> s1 < s2 -> s2 <= last fdist 0 ->
  zshift_contour Rops base ys fdist si [s1; s2] = Some [v1; v2] -> v1 <= v2.
Proof. exact zshift_contour_monotone. Qed.
Print Assumptions C06_monotone_along_the_contour.
