(* C06 -- zShift, ShiftAngle, dphidy and ShiftTorsion follow the field lines.
   dphidy is the formula REGENERATED from geometry2 (gen/Gen_Metric.v); the chain logic is shared with C05. *)
From Coq Require Import List Arith Bool QArith Reals Lra.
From HT Require Import Field Proof_Metric Model_Chain Proof_Chain TopoLib.
From HG Require Import Gen_Metric Gen_Topo Gen_Slices.
Import ListNotations.

(* dphidy = hy*Btxy/(Bpxy*Rxy); its magnitude is the y-derivative of zShift (the integral of Bt/(R|Bp|) ds with ds = hy dy) *)
Theorem C06_dphidy : forall (hy Bt Bp Rx bps : R), (Rx <> 0 -> Bp <> 0 -> bps * bps = 1 -> Rabs Bp = bps * Bp ->
  geom2_dphidy Rops hy Bt Bp Rx = hy * Bt / (Bp * Rx) /\ geom2_dphidy Rops hy Bt Bp Rx = bps * dzShift_dy Rx Bp hy Bt)%R.
Proof.
  intros hy Bt Bp Rx bps HR HBp Hb Ha. split; [reflexivity|].
  exact (dphidy_is_signed_dz Rx Bp hy 1 0 bps 0 HR HBp ltac:(lra) ltac:(lra) Hb Ha Bt).
Qed.

Local Open Scope Q_scope.
(* zShift is handed from region to region along a chain: it is continuous at every join because every region's own
   increments start at 0 (zShift_fine -= zShift_fine[startInd]); the only jump of a closed chain is at the wrap *)
Theorem C06_join : forall carry v w rest, v <> [] -> w <> [] -> hd 0 w = 0 ->
  match chain_acc carry (v :: w :: rest) with
  | out_v :: out_w :: _ => hd 0 out_w == last out_v carry
  | _ => False
  end.
Proof.
  intros carry v w rest Hv Hw H0. pose proof (chain_join carry v w rest Hv Hw) as J.
  destruct (chain_acc carry (v :: w :: rest)) as [|ov [|ow t]]; try contradiction. rewrite J, H0. ring.
Qed.

(* the periodic (closed-surface) chain of every double-null table consists of core regions only, so the wrap -- where the
   single jump of size ShiftAngle sits -- is at a core X-point join whichever region the chain starts from *)
Definition core_chain_ok conn nreg nseg (core : list nat) : bool :=
  forallb (fun g => match mesh_lower conn nseg (hd 0%nat g) with
                    | None => true
                    | Some _ => forallb (fun id => existsb (Nat.eqb (id / nseg)%nat) core) g
                    end) (groups_of makeRegions_pick_last conn nreg nseg).
Theorem C06_jump_location :
  core_chain_ok conn_lsn 3 2 [1%nat] = true /\ core_chain_ok conn_usn 3 2 [1%nat] = true /\
  core_chain_ok conn_cdn 6 2 [1%nat; 4%nat] = true /\ core_chain_ok conn_ldn 6 3 [1%nat; 4%nat] = true /\ core_chain_ok conn_udn 6 3 [1%nat; 4%nat] = true.
Proof. repeat split; vm_compute; reflexivity. Qed.

Print Assumptions C06_dphidy.
Print Assumptions C06_join.
Print Assumptions C06_jump_location.
