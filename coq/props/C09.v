(* C09 -- Radial psi grid: monotone, exact at boundaries, smooth across separatrices.
   The spacing functions radial_* and the branch guards are REGENERATED from
   Equilibrium.getSmoothMonotonicGridFunc on every run (gen/Gen_Radial.v). *)
From Coq Require Import Reals Lra.
From Coquelicot Require Import Coquelicot.
From HT Require Import Field Proof_Radial.
From HG Require Import Gen_Radial.
Local Open Scope R_scope.

Section C09.
  Variable erf : R -> R.
  Variables n lower upper gl gu : R.
  Hypothesis Hn : 0 < n.
  Notation O := Rops.

  (* every branch starts and ends exactly at the requested boundary values *)
  Theorem C09_end_values :
    (radial_linear O erf n lower upper 0 = lower /\ radial_linear O erf n lower upper n = upper) /\
    (radial_lower_cubic O erf n lower upper gl 0 = lower /\ radial_lower_cubic O erf n lower upper gl n = upper) /\
    (radial_upper_cubic O erf n lower upper gu 0 = lower /\ radial_upper_cubic O erf n lower upper gu n = upper) /\
    (radial_both_trig O erf n lower upper gl gu 0 = lower /\ radial_both_trig O erf n lower upper gl gu n = upper).
  Proof.
    split; [apply linear_ends; exact Hn|]. split; [apply lc_ends; exact Hn|]. split; [apply uc_ends; exact Hn | apply tr_ends; exact Hn].
  Qed.

  (* prescribed end gradients; the second derivative vanishes at an end whose gradient is prescribed,
     so the spacing is smooth across a separatrix where two segments use the same dpsidi_sep *)
  Theorem C09_end_gradients :
    is_derive (fun x => radial_lower_cubic O erf n lower upper gl x) 0 gl /\
    is_derive (fun x => radial_upper_cubic O erf n lower upper gu x) n gu /\
    (forall i, is_derive (fun x => radial_both_trig O erf n lower upper gl gu x) i (tr' n lower upper gl gu i)) /\
    tr' n lower upper gl gu 0 = gl /\ tr' n lower upper gl gu n = gu.
  Proof.
    split; [apply lc_end_gradient; exact Hn|]. split; [apply uc_end_gradient; exact Hn|].
    split; [intro i; apply tr_derive; exact Hn|]. apply tr_end_gradients; exact Hn.
  Qed.
  Theorem C09_end_curvature :
    is_derive (fun x => gl + a_lc n lower upper gl * (x * x)) 0 0 /\
    is_derive (fun x => gu + a_lc n lower upper gu * ((n - x) * (n - x))) n 0 /\
    is_derive (tr' n lower upper gl gu) 0 0 /\ is_derive (tr' n lower upper gl gu) n 0.
  Proof.
    split; [apply lc_end_curvature|]. split; [apply uc_end_curvature|]. apply tr_end_curvature; exact Hn.
  Qed.

  (* strictly monotone on [0, n] within the branch guard INCLUDING its 1e-8 slack, for either ordering of the
     boundary values (the guard is the code's own, regenerated) *)
  Theorem C09_monotone_cubic :
    (forall i1 i2, radial_lower_cubic_guard O n lower upper gl = true -> 0 <= (upper - lower) * gl ->
       0 <= i1 -> i1 < i2 -> i2 <= n ->
       0 < (radial_lower_cubic O erf n lower upper gl i2 - radial_lower_cubic O erf n lower upper gl i1) * (upper - lower)) /\
    (forall i1 i2, radial_upper_cubic_guard O n lower upper gu = true -> 0 <= (upper - lower) * gu ->
       0 <= i1 -> i1 < i2 -> i2 <= n ->
       0 < (radial_upper_cubic O erf n lower upper gu i2 - radial_upper_cubic O erf n lower upper gu i1) * (upper - lower)).
  Proof. split; intros; [apply lc_monotone | apply uc_monotone]; assumption. Qed.

  (* PARTIAL for the two-gradient trigonometric branch: proved in the interior of its guard (a_tr has the sign of
     upper-lower); the 1e-8 slack strip is covered by the numerical oracle only *)
  Theorem C09_monotone_trig_partial :
    forall i, 0 <= (upper - lower) * gl -> 0 <= (upper - lower) * gu -> 0 <= (upper - lower) * a_tr n lower upper gl gu ->
              0 <= (upper - lower) * tr' n lower upper gl gu i.
  Proof. intros. apply tr_monotone_partial; assumption. Qed.

  (* doubling n (and halving the gradients per index) leaves every original face a face of the finer grid *)
  Theorem C09_nesting : forall i,
    radial_linear O erf (2 * n) lower upper (2 * i) = radial_linear O erf n lower upper i /\
    radial_lower_cubic O erf (2 * n) lower upper (gl / 2) (2 * i) = radial_lower_cubic O erf n lower upper gl i /\
    radial_upper_cubic O erf (2 * n) lower upper (gu / 2) (2 * i) = radial_upper_cubic O erf n lower upper gu i /\
    radial_both_trig O erf (2 * n) lower upper (gl / 2) (gu / 2) (2 * i) = radial_both_trig O erf n lower upper gl gu i.
  Proof.
    intro i. split; [apply linear_nesting; exact Hn|]. split; [apply lc_nesting; exact Hn|].
    split; [apply uc_nesting; exact Hn | apply tr_nesting; exact Hn].
  Qed.

  (* continuity in the parameters at the switch between branches: the cubic IS the linear function there *)
  Theorem C09_switch : forall i, gl * n = upper - lower ->
    radial_lower_cubic O erf n lower upper gl i = radial_linear O erf n lower upper i.
  Proof. intros. apply cubic_is_linear_at_switch; assumption. Qed.
End C09.

(* decreasing-spacing (erf) branches, under the erf contract and brentq's post-condition constraint(a) = 0 *)
Section C09_erf.
  Variable erf : R -> R.
  Hypothesis erf_0 : erf 0 = 0.
  Hypothesis erf_odd : forall x, erf (- x) = - erf x.
  Hypothesis erf_derive : forall x, is_derive erf x (2 / sqrt PI * exp (- (x * x))).
  Variables n lower upper g a : R.
  Hypothesis Hn : 0 < n.
  Hypothesis Ha : 0 < a.
  Notation O := Rops.
  Theorem C09_erf_branches :
    (radial_lower_erf_constraint O erf n lower upper g a = 0 ->
       radial_lower_erf O erf n lower upper g a 0 = lower /\ radial_lower_erf O erf n lower upper g a n = upper) /\
    (radial_upper_erf_constraint O erf n lower upper g a = 0 ->
       radial_upper_erf O erf n lower upper g a 0 = lower /\ radial_upper_erf O erf n lower upper g a n = upper) /\
    (forall i, is_derive (fun x => radial_lower_erf O erf n lower upper g a x) i (g * exp (- (i / sqrt a * (i / sqrt a))))) /\
    (forall i, is_derive (fun x => radial_upper_erf O erf n lower upper g a x) i (g * exp (- ((i - n) / sqrt a * ((i - n) / sqrt a))))) /\
    (forall i, 0 < (upper - lower) * g -> 0 < (upper - lower) * (g * exp (- (i / sqrt a * (i / sqrt a))))).
  Proof.
    split; [apply le_ends; assumption|]. split; [apply ue_ends; assumption|].
    split; [intro i; apply le_derive; assumption|]. split; [intro i; apply ue_derive; assumption|].
    intros i H. apply erf_branch_sign; assumption.
  Qed.
End C09_erf.

(* non-vacuity: n = 4, 1.0 -> 2.0 with end gradient 0.2 is inside the cubic guard *)
Example C09_example : radial_lower_cubic_guard Rops 4 1 2 (1/5) = true /\ radial_lower_cubic Rops (fun x => x) 4 1 2 (1/5) 4 = 2.
Proof.
  split.
  - unfold radial_lower_cubic_guard. unfold_ops. unfold Rltb. destruct (Rlt_dec _ _) as [H|H]; [reflexivity|].
    exfalso. apply H. rewrite !Rabs_right by lra. lra.
  - apply (proj2 (lc_ends (fun x => x) 4 1 2 (1/5) ltac:(lra))).
Qed.

Print Assumptions C09_end_values.
Print Assumptions C09_end_gradients.
Print Assumptions C09_monotone_cubic.
Print Assumptions C09_nesting.
Print Assumptions C09_erf_branches.

(* ---------------------------------------------------------------------------------------------------------------
   Equilibrium.make1dGrid (theories/Model_Grid1d.v; the PrimFloat instance is run bit for bit against the real method):
   2n+1 values for n cells, the even ones ARE the face values (so the ends of the grid are exactly the values of the
   spacing function at 0 and n), the guard is sound in any arithmetic, and over the reals strictly monotone face values
   (either direction) are always accepted: the grid is refused only when the spacing function itself is not monotone. *)
From Coq Require Import List Arith.
From HT Require Import Model_Stencil Proof_Stencil Model_Grid1d Proof_Grid1d.
Import ListNotations.

Theorem C09_grid_has_the_face_values : forall {T} (O : ops T) (faces : list T) d, faces <> [] ->
  length (interleave O faces) = (2 * length faces - 1)%nat /\
  forall k, (k < length faces)%nat -> nth (2 * k) (interleave O faces) d = nth k faces d.
Proof. intros. split; [apply interleave_length; assumption|apply interleave_even]. Qed.

Theorem C09_grid_guard_sound : forall {T} (O : ops T) (faces r : list T), make_1d_grid O faces = Some r ->
  r = interleave O faces /\ (all_pos O (diffs O r) = true \/ all_neg O (diffs O r) = true).
Proof. intros. apply make_1d_grid_sound. assumption. Qed.

Theorem C09_grid_accepts_monotone_faces : forall faces : list R, increasing faces \/ decreasing faces ->
  make_1d_grid Rops faces = Some (interleave Rops faces).
Proof. exact make_1d_grid_accepts_monotone. Qed.

Print Assumptions C09_grid_guard_sound.
Print Assumptions C09_grid_accepts_monotone_faces.

(* ---------------------------------------------------------------------------------------------------------------
   The two-gradient trigonometric branch as a FUNCTION of the index (mean-value theorem on C09_monotone_trig_partial's
   gradient): non-decreasing in the sense of upper - lower on the interior of its guard, and STRICTLY monotone there when
   both prescribed end gradients have, strictly, the sign of upper - lower -- for every n, every pair of boundary values
   in either order and every pair of indices (not only grid indices). *)
From HT Require Import Proof_RadialMono.
Theorem C09_monotone_trig_function : forall (erf : R -> R) n lower upper gl gu, 0 < n ->
  0 <= (upper - lower) * a_tr n lower upper gl gu ->
  (0 <= (upper - lower) * gl -> 0 <= (upper - lower) * gu -> forall i1 i2, i1 <= i2 ->
     0 <= (radial_both_trig Rops erf n lower upper gl gu i2 - radial_both_trig Rops erf n lower upper gl gu i1) * (upper - lower)) /\
  (0 < (upper - lower) * gl -> 0 < (upper - lower) * gu -> forall i1 i2, i1 < i2 ->
     0 < (radial_both_trig Rops erf n lower upper gl gu i2 - radial_both_trig Rops erf n lower upper gl gu i1) * (upper - lower)).
Proof.
  intros erf n lower upper gl gu Hn Ha. split; intros; [apply tr_function_monotone | apply tr_function_strict]; assumption.
Qed.
Print Assumptions C09_monotone_trig_function.
