(* C08 -- Block topology, branch-cut indices and global index map are consistent.
   topo_ints (the integer ladder of BoutMesh.writeGridfile) and the conn_* tables are REGENERATED from the source
   on every run; bout_up / ordered are the hand-written reading of BOUT++'s documented meaning (TopoLib.v). *)
From Coq Require Import ZArith List Bool Lia.
From HT Require Import TopoLib Proof_Topo.
From HG Require Import Gen_Topo.
Import ListNotations.
Local Open Scope Z_scope.

(* the y-adjacency that tables + layout induce equals BOUT++'s reading of the written integers, for EVERY combination
   of per-region sizes (including strongly unequal legs), every x in every radial segment, every y *)
Theorem C08_adjacency_lsn : forall n0 n1 n2 a nx ny, 0 < n0 -> 0 < n1 -> 0 < n2 -> 0 < a < nx ->
  forall t x j dn sepidx, topo_ints [0; a; nx] [n0; n1; n2] nx ny (n0 + n1 + n2) dn sepidx = Some t ->
    0 <= x < nx -> 0 <= j < n0 + n1 + n2 ->
    model_up conn_lsn [n0; n1; n2] [0; a; nx] x j = bout_up t (n0 + n1 + n2) x j.
Proof. intros. eapply lsn_adjacency; eauto. Qed.

Theorem C08_adjacency_usn : forall n0 n1 n2 a nx ny, 0 < n0 -> 0 < n1 -> 0 < n2 -> 0 < a < nx ->
  forall t x j dn sepidx, topo_ints [0; a; nx] [n0; n1; n2] nx ny (n0 + n1 + n2) dn sepidx = Some t ->
    0 <= x < nx -> 0 <= j < n0 + n1 + n2 ->
    model_up conn_usn [n0; n1; n2] [0; a; nx] x j = bout_up t (n0 + n1 + n2) x j.
Proof. intros. eapply usn_adjacency; eauto. Qed.

Theorem C08_adjacency_cdn : forall n0 n1 n2 n3 n4 n5 a nx ny, 0 < n0 -> 0 < n1 -> 0 < n2 -> 0 < n3 -> 0 < n4 -> 0 < n5 ->
  forall t x j sepidx, 0 < a < nx ->
    topo_ints [0; a; nx] [n0; n1; n2; n3; n4; n5] nx ny (n0 + n1 + n2 + n3 + n4 + n5) 0 sepidx = Some t ->
    0 <= x < nx -> 0 <= j < n0 + n1 + n2 + n3 + n4 + n5 ->
    model_up conn_cdn [n0; n1; n2; n3; n4; n5] [0; a; nx] x j = bout_up t (n0 + n1 + n2 + n3 + n4 + n5) x j.
Proof. intros. eapply cdn_adjacency; eauto. Qed.

Theorem C08_adjacency_ldn : forall n0 n1 n2 n3 n4 n5 a b nx ny, 0 < n0 -> 0 < n1 -> 0 < n2 -> 0 < n3 -> 0 < n4 -> 0 < n5 ->
  forall t x j sepidx, 0 < a < b -> b < nx ->
    topo_ints [0; a; b; nx] [n0; n1; n2; n3; n4; n5] nx ny (n0 + n1 + n2 + n3 + n4 + n5) 1 sepidx = Some t ->
    0 <= x < nx -> 0 <= j < n0 + n1 + n2 + n3 + n4 + n5 ->
    model_up conn_ldn [n0; n1; n2; n3; n4; n5] [0; a; b; nx] x j = bout_up t (n0 + n1 + n2 + n3 + n4 + n5) x j.
Proof. intros. eapply ldn_adjacency; eauto. Qed.

Theorem C08_adjacency_udn : forall n0 n1 n2 n3 n4 n5 a b nx ny, 0 < n0 -> 0 < n1 -> 0 < n2 -> 0 < n3 -> 0 < n4 -> 0 < n5 ->
  forall t x j sepidx, 0 < a < b -> b < nx ->
    topo_ints [0; a; b; nx] [n0; n1; n2; n3; n4; n5] nx ny (n0 + n1 + n2 + n3 + n4 + n5) 2 sepidx = Some t ->
    0 <= x < nx -> 0 <= j < n0 + n1 + n2 + n3 + n4 + n5 ->
    model_up conn_udn [n0; n1; n2; n3; n4; n5] [0; a; b; nx] x j = bout_up t (n0 + n1 + n2 + n3 + n4 + n5) x j.
Proof. intros. eapply udn_adjacency; eauto. Qed.

Theorem C08_adjacency_cdn_start_at_upper_outer : forall n0 n1 n2 n3 n4 n5 a nx ny, 0 < n0 -> 0 < n1 -> 0 < n2 -> 0 < n3 -> 0 < n4 -> 0 < n5 ->
  forall t x j sepidx, 0 < a < nx ->
    topo_ints [0; a; nx] [n0; n1; n2; n3; n4; n5] nx ny (n0 + n1 + n2 + n3 + n4 + n5) 0 sepidx = Some t ->
    0 <= x < nx -> 0 <= j < n0 + n1 + n2 + n3 + n4 + n5 ->
    model_up conn_cdn_uo [n0; n1; n2; n3; n4; n5] [0; a; nx] x j = bout_up t (n0 + n1 + n2 + n3 + n4 + n5) x j.
Proof. intros. eapply cdn_uo_adjacency; eauto. Qed.

(* the isolated X-point topology (TORPEX: four legs, all on the wall; table REGENERATED from torpex.py): adjacency = BOUT++'s reading of the integers
   (two X-points on top of each other, second pair of targets at ny_inner), and the integers are ordered, for EVERY vector of leg sizes *)
Theorem C08_adjacency_isolated_xpoint : forall n0 n1 n2 n3 a nx ny, 0 < n0 -> 0 < n1 -> 0 < n2 -> 0 < n3 -> 0 < a < nx ->
  forall t x j dn sepidx,
    topo_ints [0; a; nx] [n0; n1; n2; n3] nx ny (n0 + n1 + n2 + n3) dn sepidx = Some t ->
    (0 <= x < nx -> 0 <= j < n0 + n1 + n2 + n3 -> model_up conn_xpt [n0; n1; n2; n3] [0; a; nx] x j = bout_up t (n0 + n1 + n2 + n3) x j) /\
    ordered t (n0 + n1 + n2 + n3).
Proof. intros. split; [intros; eapply xpt_adjacency; eauto | eapply xpt_ordered; eauto]. Qed.

(* findings proved as refutations of the full-strength statements (replayed on the implementation by the harness):
   F14 start_at_upper_outer with a disconnected double null; F3 index ordering in single null *)
Theorem C08_adjacency_ldn_start_at_upper_outer_refuted :
  ~ adjacency_holds conn_ldn_uo [0; 2; 4; 6] [2; 3; 4; 5; 6; 7] 6 35 27 1 1.
Proof. exact ldn_uo_refuted. Qed.
Theorem C08_adjacency_udn_start_at_upper_outer_refuted :
  ~ adjacency_holds conn_udn_uo [0; 2; 4; 6] [2; 3; 4; 5; 6; 7] 6 35 27 2 1.
Proof. exact udn_uo_refuted. Qed.

Theorem C08_ordered_double_null : forall n0 n1 n2 n3 n4 n5 a b nx ny, 0 < n0 -> 0 < n1 -> 0 < n2 -> 0 < n3 -> 0 < n4 -> 0 < n5 ->
  forall t xs dn sepidx, (xs = [0; a; nx] /\ dn = 0 \/ xs = [0; a; b; nx] /\ (dn = 1 \/ dn = 2)) ->
    topo_ints xs [n0; n1; n2; n3; n4; n5] nx ny (n0 + n1 + n2 + n3 + n4 + n5) dn sepidx = Some t ->
    ordered t (n0 + n1 + n2 + n3 + n4 + n5).
Proof. intros. eapply dn_ordered; eauto. Qed.
Theorem C08_ordered_single_null_partial : forall n0 n1 n2 a nx ny, 0 < n0 -> 0 < n1 -> 0 < n2 ->
  forall t dn sepidx, n0 - 1 <= ny / 2 <= n0 + n1 - 1 ->
    topo_ints [0; a; nx] [n0; n1; n2] nx ny (n0 + n1 + n2) dn sepidx = Some t -> ordered t (n0 + n1 + n2).
Proof. intros. eapply sn_ordered_partial; eauto. Qed.
Theorem C08_ordered_single_null_refuted : ~ sn_ordered_statement.
Proof. exact sn_ordered_refuted. Qed.

(* the regions tile the index range exactly once, for ANY list of positive sizes *)
Theorem C08_tiling_exists : forall ys j r0, Forall (fun n => 0 < n) ys -> 0 <= j < total ys ->
  exists r last, region_of ys j r0 = Some ((r0 + r)%nat, last) /\ (r < length ys)%nat /\
                 offset ys r <= j < offset ys r + nthZ ys r /\ (last = true <-> j = offset ys r + nthZ ys r - 1).
Proof. exact region_of_spec. Qed.
Theorem C08_tiling_unique : forall ys r r' j, Forall (fun n => 0 < n) ys -> (r < length ys)%nat -> (r' < length ys)%nat ->
  offset ys r <= j < offset ys r + nthZ ys r -> offset ys r' <= j < offset ys r' + nthZ ys r' -> r = r'.
Proof. exact blocks_disjoint. Qed.

(* connections are symmetric (upper(A) = B <-> lower(B) = A), every table *)
Theorem C08_symmetric :
  table_ok conn_lsn = true /\ table_ok conn_usn = true /\ table_ok conn_cdn = true /\ table_ok conn_ldn = true /\
  table_ok conn_udn = true /\ table_ok conn_cdn_uo = true /\ table_ok conn_ldn_uo = true /\ table_ok conn_udn_uo = true.
Proof. exact tables_symmetric. Qed.

(* non-vacuity: the shipped single-null example sizes *)
Example C08_example : exists t, topo_ints [0; 5; 10] [4; 8; 4] 10 20 16 0 1 = Some t /\ jyseps1_1 t = 3 /\ jyseps2_2 t = 11 /\
  model_up conn_lsn [4; 8; 4] [0; 5; 10] 2 3 = Some 12 /\ bout_up t 16 2 3 = Some 12.
Proof. eexists. split; [vm_compute; reflexivity|]. repeat split; vm_compute; reflexivity. Qed.

Print Assumptions C08_adjacency_lsn.
Print Assumptions C08_adjacency_usn.
Print Assumptions C08_adjacency_cdn.
Print Assumptions C08_adjacency_ldn.
Print Assumptions C08_adjacency_udn.
Print Assumptions C08_ordered_double_null.
Print Assumptions C08_ordered_single_null_refuted.
Print Assumptions C08_tiling_exists.
Print Assumptions C08_tiling_unique.
Print Assumptions C08_symmetric.
Print Assumptions C08_adjacency_isolated_xpoint.
