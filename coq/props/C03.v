(* C03 -- Field and profile values at grid points agree with the equilibrium.
   G1_* (MeshRegion.geometry1), T_* (tokamak.py) and F_* (equilibrium.py / tokamak.py) are REGENERATED on every run. *)
From Coq Require Import Reals Lra List.
From Coquelicot Require Import Coquelicot.
From HG Require Import Gen_Geom1 Gen_Fields.
From HT Require Import Model_Profiles Proof_Geom1.
Local Open Scope R_scope.

(* Brxy = psi_Z/R, Bzxy = -psi_R/R (both interpolation branches hand these to geometry1), |Bpxy| = sqrt(Brxy^2+Bzxy^2) = |grad psi|/R *)
Theorem C03_poloidal_field : forall (psiR psiZ : R -> R -> R) r z, r <> 0 ->
  F_spline_Bp_R psiZ r z = psiZ r z / r /\ F_spline_Bp_Z psiR r z = - psiR r z / r /\
  let m := G1_Bp_mag (F_spline_Bp_R psiZ r z) (F_spline_Bp_Z psiR r z) in
  0 <= m /\ m * m = (psiR r z * psiR r z + psiZ r z * psiZ r z) / (r * r).
Proof.
  intros psiR psiZ r z Hr. split; [reflexivity|]. split; [unfold F_spline_Bp_Z; field; exact Hr|].
  split; [apply Bp_mag_sq | apply Bp_mag_grad; exact Hr].
Qed.

(* the sign: Bpxy = s * magnitude where s is decided from the sampled Bp.(displacement along y); when geometry1 does not raise,
   s is +-1, has the sign of that dot product, and equals the region's bpsign (= -1 iff psi decreases with the radial index) *)
Theorem C03_Bp_sign : forall dot psi_first psi_last s, G1_decision dot (G1_bpsign psi_first psi_last) = Some s ->
  (s = 1 \/ s = -1) /\ 0 <= s * dot /\ s = G1_bpsign psi_first psi_last /\ (psi_first > psi_last <-> s = -1).
Proof.
  intros dot a b s H. destruct (decision_sound _ _ _ H) as (H1 & H2 & H3 & _). destruct (bpsign_cases a b) as [Hg Hl].
  assert (Hb : G1_bpsign a b = 1 \/ G1_bpsign a b = -1) by (destruct (Rgt_dec a b); [right; apply Hg; assumption | left; apply Hl; lra]).
  split; [exact H1|]. split; [exact H2|]. split; [apply H3; exact Hb|]. rewrite (H3 Hb).
  split; [exact Hg | intros E; destruct (Rgt_dec a b); [assumption | rewrite Hl in E; lra]].
Qed.

(* ... and geometry1 raises exactly when the sampled direction contradicts bpsign, so a grid that is written has one sign per region *)
Theorem C03_Bp_sign_guard : forall dot bps, bps = 1 \/ bps = -1 ->
  (G1_decision dot bps = None <-> (dot < 0 /\ bps = 1) \/ (0 <= dot /\ bps = -1)).
Proof. exact decision_total. Qed.

(* Btxy = fpol(psi)/R with fpol the profile spline evaluated at psi*f_psi_sign; Bxy = sqrt(Bpxy^2 + Btxy^2) *)
Theorem C03_toroidal_total : forall (f_spl : R -> R) fsign p r Bp, r <> 0 ->
  let Bt := G1_Bt (F_tok_fpol f_spl fsign p) r in
  Bt * r = f_spl (p * fsign) /\ G1_B Bp Bt * G1_B Bp Bt = Bp * Bp + Bt * Bt /\ Rabs Bt <= G1_B Bp Bt /\ Rabs Bp <= G1_B Bp Bt.
Proof. intros f fs p r Bp Hr Bt. split; [apply Bt_def; exact Hr | apply B_total]. Qed.

(* pressure in leg regions: every leg's closure evaluates the core profile at psi on the SOL side of ITS OWN separatrix and at the mirror
   image on the private side, for any list of legs (connected or disconnected double null) -- uses how the source binds leg_psi *)
Theorem C03_leg_pressure : forall legs i sgn p, (i < length legs)%nat -> sgn = 1 \/ sgn = -1 ->
  closure_arg T_leg_early legs i sgn p = reflect_spec (nth i legs 0) sgn p.
Proof. intros legs i sgn p _ Hs. exact (closure_early legs i sgn p Hs). Qed.

(* the extrapolated profile is continuous at the last input point and continues its gradient *)
Theorem C03_extrapolated_continuous : forall p0 d psi0, p0 <> 0 ->
  T_extrap p0 d psi0 psi0 = p0 /\ is_derive (T_extrap p0 d psi0) psi0 d.
Proof. intros p0 d psi0 H. split; [apply extrap_continuous | apply extrap_gradient]; exact H. Qed.

(* non-vacuity *)
Example C03_decision_example : G1_decision (-3) (G1_bpsign 2 1) = Some (-1) /\ G1_decision 3 (G1_bpsign 2 1) = None.
Proof.
  replace (G1_bpsign 2 1) with (-1) by (symmetry; apply (bpsign_cases 2 1); lra). unfold G1_decision. split.
  - destruct (Rlt_dec (-3) 0); [|lra]. destruct (Rgt_dec (-1) 0); [lra|reflexivity].
  - destruct (Rlt_dec 3 0); [lra|]. destruct (Rlt_dec (-1) 0); [reflexivity|lra].
Qed.

Print Assumptions C03_poloidal_field.
Print Assumptions C03_Bp_sign.
Print Assumptions C03_Bp_sign_guard.
Print Assumptions C03_toroidal_total.
Print Assumptions C03_leg_pressure.
Print Assumptions C03_extrapolated_continuous.
