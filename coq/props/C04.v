(* C04 -- Orthogonal grids are orthogonal: radial grid lines follow grad(psi). *)
From Coq Require Import QArith List Lia.
From HT Require Import Model_Region Proof_Region.
From HG Require Import Gen_Slices.
Import ListNotations.
Local Open Scope Q_scope.

Section C04.
  Variable P : Type.
  Variable dflt : P.
  Variable flow : P -> Q -> P.     (* ORACLE (solve_ivp contract, monitored): the grad-psi line through p0, at flux value psi *)
  Variable psi_of : P -> Q.

  (* what MeshRegion.__init__ computes for one skeleton point, inside or outside the separatrix, is the list of flow
     points in the order of psi_vals -- for every strictly monotone psi_vals *)
  Theorem C04_perpendicular_points : forall inside psi_vals p0, incrS psi_vals \/ decrS psi_vals ->
    perp P flow psi_of inside psi_vals p0 = Some (map (flow p0) psi_vals).
  Proof. exact (perp_is_map P flow psi_of). Qed.

  (* consequently, at every staggered location, the points that share a poloidal index j on successive flux surfaces
     all lie on ONE integral curve: the one through skeleton point ps + 2 j  (any sizes) *)
  Theorem C04_same_curve : forall cs ps psi_vals skeleton i j,
    (cs + 2 * i < length psi_vals)%nat -> (ps + 2 * j < length skeleton)%nat ->
    nth j (nth i (fill cs ps (contours_of P dflt flow psi_vals skeleton)) []) dflt
    = flow (nth (ps + 2 * j) skeleton dflt) (nth (cs + 2 * i) psi_vals 0).
  Proof. exact (region_entry P dflt flow). Qed.
End C04.

Theorem C04_slices : fill_centre = (1, 1)%nat /\ fill_xlow = (0, 1)%nat /\ fill_ylow = (1, 0)%nat /\ fill_corners = (0, 0)%nat.
Proof. repeat split; reflexivity. Qed.

Print Assumptions C04_perpendicular_points.
Print Assumptions C04_same_curve.
