(* C07 -- Curvature outputs are the contravariant components of curl(b/B).
   F_curl_bOverB_* are the closures of calc_curvature, REGENERATED from mesh.py / equilibrium.py on every run. *)
From Coq Require Import Reals Lra.
From Coquelicot Require Import Coquelicot.
From HT Require Import Field Proof_Metric Proof_Metric2 Proof_Fields Proof_Curv.
From HG Require Import Gen_Metric Gen_Fields.
Local Open Scope R_scope.

Section C07.
  Variables psi psiR psiZ psiRR psiZZ psiRZ : R -> R -> R.
  Variables fpol fpolprime : R -> R.
  Hypothesis psi_r : forall r z, is_derive (fun x => psi x z) r (psiR r z).
  Hypothesis psi_z : forall r z, is_derive (fun x => psi r x) z (psiZ r z).
  Hypothesis psiR_r : forall r z, is_derive (fun x => psiR x z) r (psiRR r z).
  Hypothesis psiR_z : forall r z, is_derive (fun x => psiR r x) z (psiRZ r z).
  Hypothesis psiZ_r : forall r z, is_derive (fun x => psiZ x z) r (psiRZ r z).
  Hypothesis psiZ_z : forall r z, is_derive (fun x => psiZ r x) z (psiZZ r z).
  Hypothesis fpol_d : forall p, is_derive fpol p (fpolprime p).
  Notation BR := (F_spline_Bp_R psiZ).
  Notation BZ := (F_spline_Bp_Z psiR).
  Notation Bzeta := (F_Bzeta psi fpol).
  Notation B2 := (F_B2 psi psiR psiZ fpol).

  (* the three closures are the cylindrical components of curl(B/B^2) of the axisymmetric field (B_R, B_zeta, B_Z):
       curl_R = - d/dZ (Bzeta/B^2);  curl_Z = (1/R) d/dR (R Bzeta/B^2);  curl_zeta = d/dZ (B_R/B^2) - d/dR (B_Z/B^2) *)
  Theorem C07_curl_cylindrical : forall r z, r <> 0 -> B2 r z <> 0 ->
    is_derive (fun x => Bzeta r x / B2 r x) z (- F_curl_bOverB_Rhat psi psiR psiZ psiZZ psiRZ fpol fpolprime r z) /\
    is_derive (fun x => x * Bzeta x z / B2 x z) r (r * F_curl_bOverB_Zhat psi psiR psiZ psiRR psiRZ fpol fpolprime r z) /\
    (exists a b, is_derive (fun x => BR r x / B2 r x) z a /\ is_derive (fun x => BZ x z / B2 x z) r b /\
                 F_curl_bOverB_zetahat psi psiR psiZ psiRR psiZZ psiRZ fpol fpolprime r z = a - b).
  Proof.
    intros r z Hr Hb. split; [eapply curl_R; eauto|]. split; [eapply curl_Z; eauto | eapply curl_zeta; eauto].
  Qed.

  (* grad(x) = grad(psi) = (-R B_Z, 0, R B_R): the vector calc_curvature dots with for curl_bOverB_x *)
  Theorem C07_gradx : forall r z, r <> 0 -> - r * BZ r z = psiR r z /\ r * BR r z = psiZ r z.
  Proof. intros r z Hr. unfold F_spline_Bp_Z, F_spline_Bp_R. split; field; exact Hr. Qed.
End C07.

(* grad(y) on an orthogonal grid: the unit vector along increasing y divided by hy.  Increasing y is the direction in which
   Bp.yhat has the sign of Bpxy (geometry1), so yhat = (B_R, B_Z)/Bpxy with the SIGNED Bpxy, |yhat| = 1, and the code's
   (curl_R B_R + curl_Z B_Z)/(Bpxy hy) is curl . yhat / hy for both signs of Bp *)
Theorem C07_grady_orthogonal : forall BRv BZv Bp bps hy cR cZ : R, Bp <> 0 -> hy <> 0 -> bps * bps = 1 ->
  Bp * Bp = BRv * BRv + BZv * BZv ->
  let yR := BRv / Bp in let yZ := BZv / Bp in
  yR * yR + yZ * yZ = 1 /\ (cR * BRv + cZ * BZv) / (Bp * hy) = (cR * yR + cZ * yZ) / hy.
Proof.
  intros BRv BZv Bp bps hy cR cZ HB Hh Hs Hm yR yZ. unfold yR, yZ. split.
  - replace (BRv / Bp * (BRv / Bp) + BZv / Bp * (BZv / Bp)) with ((BRv * BRv + BZv * BZv) / (Bp * Bp)) by (field; exact HB). rewrite <- Hm. field. exact HB.
  - field. split; assumption.
Qed.

(* grad(y) is DEFINED BY DUALITY, not copied from the code: the vector the code dots with (REGENERATED from calc_curvature,
   with tan(beta) as calcBeta computes it from the neighbours' displacement dr and grad psi = (-R B_Z, R B_R)) satisfies
   grad(y).e_x = 0 and grad(y).e_y = 1 for the displacement basis e_x || dr, e_y = hy*(B_R, B_Z)/Bpxy -- non-orthogonal
   branch, both signs of Bp (was refuted on the pinned tree: finding F13, repaired) *)
Theorem C07_grady_dual_nonorth : forall dR dZ BRv BZv k Rx Bp hy bps : R,
  0 < k -> 0 < Rx -> Bp <> 0 -> hy <> 0 -> bps * bps = 1 -> Rabs Bp = bps * Bp -> BRv * BRv + BZv * BZv = Bp * Bp ->
  dxlin dR dZ (- Rx * BZv) (Rx * BRv) <> 0 ->
  let tB := tanB dR dZ (- Rx * BZv) (Rx * BRv) k in
  let vR := F_grady_nonorth_R BRv BZv tB Bp hy / F_grady_nonorth_den BRv BZv tB Bp hy in
  let vZ := F_grady_nonorth_Z BRv BZv tB Bp hy / F_grady_nonorth_den BRv BZv tB Bp hy in
  vR * dR + vZ * dZ = 0 /\ vR * (hy * BRv / Bp) + vZ * (hy * BZv / Bp) = 1.
Proof. intros. eapply grady_nonorth_dual; eauto. Qed.
Theorem C07_grady_dual_orth : forall dR dZ BRv BZv Bp hy : R,
  Bp <> 0 -> hy <> 0 -> BRv * BRv + BZv * BZv = Bp * Bp -> BRv * dR + BZv * dZ = 0 ->
  let vR := F_grady_orth_R BRv BZv 0 Bp hy / F_grady_orth_den BRv BZv 0 Bp hy in
  let vZ := F_grady_orth_Z BRv BZv 0 Bp hy / F_grady_orth_den BRv BZv 0 Bp hy in
  vR * dR + vZ * dZ = 0 /\ vR * (hy * BRv / Bp) + vZ * (hy * BZv / Bp) = 1.
Proof. intros. eapply grady_orth_dual; eauto. Qed.

Print Assumptions C07_curl_cylindrical.
Print Assumptions C07_grady_dual_nonorth.
Print Assumptions C07_gradx.
Print Assumptions C07_grady_orthogonal.

(* ---------------------------------------------------------------------------------------------------------------
   The circular equilibrium (finding F31): theories/Model_Circular.v with the exponent ranges REGENERATED from circular.py
   (gen/Gen_Circular.v) -- dq/dr as the code computes it is the derivative of q for any number of coefficients, and d2psi/dr2 as
   written in the source is the derivative of dpsi/dr for any q. *)
From Coq Require Import List.
From HT Require Import Model_Circular Proof_Circular.
From HG Require Import Gen_Circular.

Theorem C07_circular_dqdr_is_the_derivative_of_q : forall (cs : list R) r, cs <> nil ->
  is_derive (circ_q CIRC_q_start CIRC_q_step cs) r (circ_dqdr CIRC_dq_start CIRC_dq_step CIRC_dq_skip cs r).
Proof. exact circ_dqdr_is_derivative. Qed.

Theorem C07_circular_d2psidr2_is_the_derivative_of_dpsidr : forall (B0 R0 : R) (q dq : R -> R) r, (0 < R0 -> r ^ 2 < R0 ^ 2 -> q r <> 0 ->
  is_derive q r (dq r) -> CIRC_forms_checked = true ->
  is_derive (circ_dpsidr B0 R0 q) r (circ_d2psidr2 B0 R0 q dq r))%R.
Proof. intros B0 R0 q dq r H1 H2 H3 H4 _. exact (circ_d2psidr2_is_derivative B0 R0 q dq r H1 H2 H3 H4). Qed.

Print Assumptions C07_circular_dqdr_is_the_derivative_of_q.
