(* C19 -- Critical points are found, classified, ordered and selected correctly.
   C_* (Newton residual and matrix, finite-difference discriminant) are REGENERATED from utils/critical.py; the loop structure, thresholds, sort keys and
   the X-point selection of tokamak.py are checked against their exact form by the translator; Model_Critical is the computable hand model of the
   post-processing that the correspondence run evaluates by vm_compute on the same candidate lists. *)
From Coq Require Import QArith List Bool Sorting.Permutation.
From Coq Require Import Reals Lra.
From Coquelicot Require Import Coquelicot.
From HG Require Import Gen_Critical.
From HT Require Import Model_Critical Proof_Critical.
Import ListNotations.

(* the refinement is Newton's method on (Br, Bz) = (-psi_Z/R, psi_R/R): the matrix it inverts is the Jacobian of that residual; a point it accepts has
   |grad psi|^2 < atol R^2 *)
Theorem C19_newton_refinement : forall (psi psiR psiZ psiRR psiZZ psiRZ : R -> R -> R),
  (forall r z, is_derive (fun x => psiR x z) r (psiRR r z)) -> (forall r z, is_derive (fun x => psiR r x) z (psiRZ r z)) ->
  (forall r z, is_derive (fun x => psiZ x z) r (psiRZ r z)) -> (forall r z, is_derive (fun x => psiZ r x) z (psiZZ r z)) ->
  forall r z, r <> 0%R ->
  let Br := fun r z => C_Br r (psiR r z) (psiZ r z) in let Bz := fun r z => C_Bz r (psiR r z) (psiZ r z) in
  (is_derive (fun x => Br x z) r (C_J00 r (Br r z) (Bz r z) (psiRR r z) (psiRZ r z) (psiZZ r z)) /\
   is_derive (fun x => Br r x) z (C_J01 r (Br r z) (Bz r z) (psiRR r z) (psiRZ r z) (psiZZ r z)) /\
   is_derive (fun x => Bz x z) r (C_J10 r (Br r z) (Bz r z) (psiRR r z) (psiRZ r z) (psiZZ r z)) /\
   is_derive (fun x => Bz r x) z (C_J11 r (Br r z) (Bz r z) (psiRR r z) (psiRZ r z) (psiZZ r z))) /\
  (forall atol, (Br r z * Br r z + Bz r z * Bz r z < atol -> psiR r z * psiR r z + psiZ r z * psiZ r z < atol * (r * r))%R).
Proof.
  intros psi psiR psiZ psiRR psiZZ psiRZ H1 H2 H3 H4 r z Hr Br Bz. split.
  - apply (jacobian psiR psiZ psiRR psiZZ psiRZ H1 H2 H3 H4 r z Hr).
  - intros atol. apply (accepted psiR psiZ r z atol Hr).
Qed.

(* classification: for a locally quadratic flux function the finite-difference discriminant equals the Hessian determinant whatever the position of the
   critical point relative to the grid nodes (sub-grid positions), so its sign separates O-points (> 0) from X-points (< 0) *)
Theorem C19_classification_exact_on_quadratics : forall a b c d e g r0 z0 dR dZ : R, dR <> 0%R -> dZ <> 0%R ->
  C_D (fun i j => let r := (r0 + IZR i * dR)%R in let z := (z0 + IZR j * dZ)%R in (a * r * r + b * r * z + c * z * z + d * r + e * z + g)%R) dR dZ = (4 * a * c - b * b)%R.
Proof. intros. apply discriminant_exact; assumption. Qed.

(* every candidate is returned exactly once: after remove_dup no two returned points are within the duplicate radius, every candidate is returned or
   within the radius of a returned one, and nothing is invented *)
Theorem C19_exactly_once : forall thr l,
  separated thr (remove_dup thr l) /\ (forall p, In p l -> In p (remove_dup thr l) \/ exists q, In q (remove_dup thr l) /\ near thr p q = true) /\
  (forall p, In p (remove_dup thr l) -> In p l).
Proof. exact remove_dup_spec. Qed.

(* ordering: the O-points are a permutation of the distinct candidates sorted by distance from the middle of the domain (the primary one is nearest);
   the X-points are the distinct candidates that pass the monotonicity filter, sorted by (psi - psi_axis)^2, i.e. by |psi - psi_axis| *)
Theorem C19_ordering : forall thr rmid zmid axis keep os xs,
  (sorted_by (key_centre rmid zmid) (order_opoints thr rmid zmid os) /\ Permutation (remove_dup thr os) (order_opoints thr rmid zmid os)) /\
  (forall p r, order_opoints thr rmid zmid os = p :: r -> forall q, In q (remove_dup thr os) -> (key_centre rmid zmid p <= key_centre rmid zmid q)%Q) /\
  (sorted_by (key_psi axis) (order_xpoints thr axis keep xs) /\
   forall p, In p (order_xpoints thr axis keep xs) <-> In p (remove_dup thr xs) /\ keep p = true).
Proof.
  intros. split; [apply sort_by_spec|]. split; [intros p r E; apply (primary_opoint_nearest thr rmid zmid os p r E) | apply xpoints_ordered].
Qed.

(* single / double null: exactly the X-points with normalised flux below that of psi_sol and inside the wall are kept, in find_critical's order; one
   kept X-point -> single null, two -> double null, anything else is refused *)
Theorem C19_selection : forall axis sep0 psi_sol inside xs,
  (forall p, In p (select_xpoints axis sep0 psi_sol inside xs) <-> In p xs /\ (psinorm axis sep0 (pPsi p) < psinorm axis sep0 psi_sol)%Q /\ inside p = true) /\
  (exists f, select_xpoints axis sep0 psi_sol inside xs = filter f xs) /\
  let k := select_xpoints axis sep0 psi_sol inside xs in
  (classify k = SingleNull <-> length k = 1%nat) /\ (classify k = DoubleNull <-> length k = 2%nat) /\ (classify k = Unsupported <-> (length k = 0 \/ 3 <= length k)%nat).
Proof. intros. split; [intros p; apply select_spec|]. split; [apply select_keeps_order | apply classify_spec]. Qed.

(* non-vacuity and a computed instance: two duplicates of one O-point, a farther O-point; two X-points *)
Example C19_concrete :
  (order_opoints (1 # 100000) (3 # 2) 0 [(3 # 2, 3 # 5, 1); (3 # 2, 1 # 100, 1); (1500001 # 1000000, 1 # 100, 1)] = [(3 # 2, 1 # 100, 1); (3 # 2, 3 # 5, 1)] /\
   map pPsi (order_xpoints (1 # 100000) 1 (fun _ => true) [(3 # 2, 3 # 10, 7 # 10); (3 # 2, -(3 # 10), 3 # 4)]) = [3 # 4; 7 # 10])%Q.
Proof. vm_compute. split; reflexivity. Qed.

(* findLegs: the two legs traced from an X-point are labelled by the major radius of their STRIKE points (the statement `if leg_lines[0][-1].R > leg_lines[1][-1].R:
   leg_lines = leg_lines[::-1]` is checked for exact form on every run): whatever order the legs are traced in and wherever they leave the X-point, 'inner' is the leg
   whose strike point has the smaller major radius, and the two labels are the two traced legs *)
Definition label_legs {A : Type} (strikeR : A -> Q) (l0 l1 : A) : A * A := if Qlt_le_dec (strikeR l1) (strikeR l0) then (l1, l0) else (l0, l1).
Theorem C19_leg_labels : forall (A : Type) (strikeR : A -> Q) (l0 l1 : A),
  let '(inner, outer) := label_legs strikeR l0 l1 in
  (strikeR inner <= strikeR outer)%Q /\ ((inner = l0 /\ outer = l1) \/ (inner = l1 /\ outer = l0)).
Proof.
  intros A strikeR l0 l1. unfold label_legs. destruct (Qlt_le_dec (strikeR l1) (strikeR l0)) as [H|H]; split; auto; apply Qlt_le_weak; exact H.
Qed.

Print Assumptions C19_newton_refinement.
Print Assumptions C19_classification_exact_on_quadratics.
Print Assumptions C19_exactly_once.
Print Assumptions C19_ordering.
Print Assumptions C19_selection.
Print Assumptions C19_leg_labels.
