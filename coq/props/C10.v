(* C10 -- Poloidal spacing: end-point exact, monotone, resolution-consistent.
   S_* are REGENERATED on every run from getSqrtPoloidalDistanceFunc / getMonotonicPoloidalDistanceFunc / getLinearPoloidalDistanceFunc (one closed
   form per branch and piece); combine / normalise / increasing are the hand model of combineSfuncs' weighting and of the run-time guards. *)
From Coq Require Import Reals Lra List.
From Coquelicot Require Import Coquelicot.
From HG Require Import Gen_Spacing.
From HT Require Import Proof_Spacing.
Local Open Scope R_scope.

(* every spacing function maps index 0 to 0 and the last index N to the contour length, for all lengths, point counts, normalisations and end parameters *)
Theorem C10_end_points : forall L N Nn al bl au bu dl du, 0 < N -> 0 < Nn ->
  (S_sqrt2_gen_main L N Nn al bl au bu 0 = 0 /\ S_sqrt2_gen_main L N Nn al bl au bu N = L) /\
  (S_sqrt2_a0_main L N Nn 0 bl au bu 0 = 0 /\ S_sqrt2_a0_main L N Nn 0 bl au bu N = L) /\
  (S_sqrt2_b0_main L N Nn al bl 0 bu 0 = 0 /\ S_sqrt2_b0_main L N Nn al bl 0 bu N = L) /\
  (S_sqrt2_00_main L N Nn 0 bl 0 bu 0 = 0 /\ S_sqrt2_00_main L N Nn 0 bl 0 bu N = L) /\
  (S_mono_convex_main L N Nn dl du 0 = 0 /\ S_mono_convex_main L N Nn dl du N = L) /\
  (S_linear_main L N 0 = 0 /\ S_linear_main L N N = L /\ S_sqrt0_main L N 0 = 0 /\ S_sqrt0_main L N N = L).
Proof.
  intros. split; [apply gen_ends; assumption|]. split; [apply a0_ends; assumption|]. split; [apply b0_ends; assumption|]. split; [apply z00_ends; assumption|].
  split; [apply convex_ends; assumption | apply linear_ends; lra].
Qed.

(* the logarithmic branch: 0 at index 0; at the last index it misses the contour length by exactly the residual of the constraint handed to brentq *)
Theorem C10_end_points_concave : forall L N Nn dl du l1, 0 < N -> 0 < Nn -> 0 < dl -> 0 < du -> 0 < l1 ->
  let l2 := S_mono_concave_l2 L N Nn dl du l1 in let l3 := S_mono_concave_l3 L N Nn dl du l1 in
  let r2 := S_mono_concave_r2 L N Nn dl du l1 in let r3 := S_mono_concave_r3 L N Nn dl du l1 in
  S_mono_concave_main L N Nn dl du l1 l2 l3 r2 r3 0 = 0 /\
  S_mono_concave_main L N Nn dl du l1 l2 l3 r2 r3 N - L = S_mono_concave_constraint L N Nn dl du l1.
Proof. intros. split; [apply concave_start; assumption | apply concave_end; assumption]. Qed.

(* requested end gradients, in units of the normalised index (so that two regions meeting at an X-point with the same parameters have the same
   spacing there): sqrt form s ~ 2 a sqrt(iN) + (part with gradient b); monotonic forms: gradient d_lower, d_upper *)
Theorem C10_end_gradients : forall L N Nn al bl au bu dl du l1, 0 < N -> 0 < Nn ->
  (forall i, S_sqrt2_gen_main L N Nn al bl au bu i = S_sqrt2_a0_main L N Nn al bl au bu i + 2 * al * sqrt (i / Nn)) /\
  is_derive (fun i => S_sqrt2_a0_main L N Nn al bl au bu i) 0 (bl / Nn) /\
  (forall i, S_sqrt2_gen_main L N Nn al bl au bu i = S_sqrt2_b0_main L N Nn al bl au bu i - 2 * au * sqrt ((N - i) / Nn)) /\
  is_derive (fun i => S_sqrt2_b0_main L N Nn al bl au bu i) N (bu / Nn) /\
  is_derive (fun i => S_mono_convex_main L N Nn dl du i) 0 (dl / Nn) /\ is_derive (fun i => S_mono_convex_main L N Nn dl du i) N (du / Nn) /\
  (0 < dl -> 0 < du -> 0 < l1 ->
   let l2 := S_mono_concave_l2 L N Nn dl du l1 in let l3 := S_mono_concave_l3 L N Nn dl du l1 in
   let r2 := S_mono_concave_r2 L N Nn dl du l1 in let r3 := S_mono_concave_r3 L N Nn dl du l1 in
   is_derive (fun i => S_mono_concave_main L N Nn dl du l1 l2 l3 r2 r3 i) 0 (dl / Nn) /\ is_derive (fun i => S_mono_concave_main L N Nn dl du l1 l2 l3 r2 r3 i) N (du / Nn)).
Proof.
  intros L N Nn al bl au bu dl du l1 HN HNn. split; [intros; apply gen_a0|]. split; [apply grad_lower; assumption|]. split; [intros; apply gen_b0|].
  split; [apply grad_upper; assumption|]. destruct (convex_grad L N Nn dl du HN HNn) as [A B]. split; [exact A|]. split; [exact B|].
  intros. apply concave_grad; assumption.
Qed.

(* strictly increasing: the monotonic forms have a positive gradient on the whole index range of the region in the case the code selects them for *)
Theorem C10_monotonic_forms_increase : forall L N Nn dl du, 0 < N -> 0 < Nn -> 0 < dl -> 0 < du ->
  (forall eps x, 0 <= x <= N -> 0 <= eps -> L >= (du + dl) / 2 * (N / Nn) - eps -> 3 * eps * Nn / (2 * N) < Rmin dl du ->
     exists g, is_derive (fun i => S_mono_convex_main L N Nn dl du i) x g /\ 0 < g) /\
  (forall l1 x, 0 < l1 -> 0 <= x <= N ->
     let l2 := S_mono_concave_l2 L N Nn dl du l1 in let l3 := S_mono_concave_l3 L N Nn dl du l1 in
     let r2 := S_mono_concave_r2 L N Nn dl du l1 in let r3 := S_mono_concave_r3 L N Nn dl du l1 in
     exists g, is_derive (fun i => S_mono_concave_main L N Nn dl du l1 l2 l3 r2 r3 i) x g /\ 0 < g).
Proof.
  intros L N Nn dl du HN HNn Hl Hu. split.
  - intros eps x Hx He HL Hs. exists (sprime L N Nn dl du x / Nn). split; [apply convex_d; assumption | apply (convex_positive L N Nn dl du HN HNn eps); assumption].
  - intros l1 x H1 Hx. eexists. split; [apply concave_d; assumption | apply concave_positive; assumption].
Qed.

(* the continuations into the boundary guard cells (index < 0 beyond a wall at the lower end, > N at the upper end) join the main piece with equal
   value, gradient and curvature and are strictly increasing when the end gradient is positive -- sqrt form, both one-ended cases
   (the upper one was refuted on the pinned tree: F20, repaired) *)
Theorem C10_guard_cell_continuations : forall L N Nn al bl au bu, 0 < N -> 0 < Nn ->
  let Bl := S_sqrt2_a0_lower_B L N Nn al bl au bu in let Bu := S_sqrt2_b0_upper_B L N Nn al bl au bu in
  (S_sqrt2_a0_lower L N Nn al bl au bu 0 = 0 /\
   (Bl <> 0 -> bl <> 0 -> is_derive (fun i => S_sqrt2_a0_lower L N Nn al bl au bu i) 0 (bl / Nn) /\
      exists d1 d2 : R -> R, (forall x, x < N -> is_derive (fun i => S_sqrt2_a0_main L N Nn al bl au bu i) x (d1 x)) /\
                             (forall x, is_derive (fun i => S_sqrt2_a0_lower L N Nn al bl au bu i) x (d2 x)) /\ d1 0 = d2 0 /\
                             exists c, is_derive d1 0 c /\ is_derive d2 0 c) /\
   (Bl <> 0 -> 0 < bl -> forall x y, x < y -> S_sqrt2_a0_lower L N Nn al bl au bu x < S_sqrt2_a0_lower L N Nn al bl au bu y)) /\
  (S_sqrt2_b0_upper L N Nn al bl au bu N = L /\
   (Bu <> 0 -> bu <> 0 -> is_derive (fun i => S_sqrt2_b0_upper L N Nn al bl au bu i) N (bu / Nn) /\
      exists d1 d2 : R -> R, (forall x, 0 < x -> is_derive (fun i => S_sqrt2_b0_main L N Nn al bl au bu i) x (d1 x)) /\
                             (forall x, is_derive (fun i => S_sqrt2_b0_upper L N Nn al bl au bu i) x (d2 x)) /\ d1 N = d2 N /\
                             exists c, is_derive d1 N c /\ is_derive d2 N c) /\
   (Bu <> 0 -> 0 < bu -> forall x y, x < y -> S_sqrt2_b0_upper L N Nn al bl au bu x < S_sqrt2_b0_upper L N Nn al bl au bu y)).
Proof.
  intros L N Nn al bl au bu HN HNn Bl Bu. split.
  - split; [apply lower_value|]. split; [| intros; apply (lower_increasing L N Nn al bl au bu HNn); assumption].
    intros HB Hb. split.
    + replace (bl / Nn) with (bl / Nn * exp (Bl * 0 / Nn)); [apply lower_d; assumption|]. replace (Bl * 0 / Nn) with 0 by (unfold Rdiv; ring). rewrite exp_0. ring.
    + destruct (main_dd_lower L N Nn al bl au bu HN HNn Hb) as (d1 & D1 & E1 & DD1).
      exists d1, (fun x => bl / Nn * exp (Bl * x / Nn)). split; [exact D1|]. split; [intros; apply lower_d; assumption|]. split.
      * rewrite E1. replace (Bl * 0 / Nn) with 0 by (unfold Rdiv; ring). rewrite exp_0. ring.
      * exists (Bl * bl / (Nn * Nn)). split; [exact DD1 | apply lower_dd; assumption].
  - split; [apply upper_value|]. split; [| intros; apply (upper_increasing L N Nn al bl au bu HNn); assumption].
    intros HB Hb. split.
    + replace (bu / Nn) with (bu / Nn * exp (Bu * (N / Nn - N / Nn))); [apply upper_d; assumption|]. replace (Bu * (N / Nn - N / Nn)) with 0 by ring. rewrite exp_0. ring.
    + destruct (main_dd_upper L N Nn al bl au bu HN HNn Hb) as (d1 & D1 & E1 & DD1).
      exists d1, (fun x => bu / Nn * exp (Bu * (N / Nn - x / Nn))). split; [exact D1|]. split; [intros; apply upper_d; assumption|]. split.
      * rewrite E1. replace (Bu * (N / Nn - N / Nn)) with 0 by ring. rewrite exp_0. ring.
      * exists (- (Bu * bu) / (Nn * Nn)). split; [exact DD1 | apply upper_dd; assumption].
Qed.

(* the monotonic forms continue linearly with the end gradients *)
Theorem C10_linear_continuations : forall L N Nn dl du l1 l2 l3 r2 r3, 0 < N -> 0 < Nn ->
  (S_mono_convex_lower L N Nn dl du 0 = 0 /\ S_mono_convex_upper L N Nn dl du N = L /\
   (forall x, is_derive (fun i => S_mono_convex_lower L N Nn dl du i) x (dl / Nn)) /\ (forall x, is_derive (fun i => S_mono_convex_upper L N Nn dl du i) x (du / Nn))) /\
  (S_mono_concave_lower L N Nn dl du l1 l2 l3 r2 r3 0 = 0 /\ S_mono_concave_upper L N Nn dl du l1 l2 l3 r2 r3 N = L /\
   (forall x, is_derive (fun i => S_mono_concave_lower L N Nn dl du l1 l2 l3 r2 r3 i) x (dl / Nn)) /\
   (forall x, is_derive (fun i => S_mono_concave_upper L N Nn dl du l1 l2 l3 r2 r3 i) x (du / Nn))).
Proof. intros. split; [apply convex_extrap; assumption | apply concave_extrap; assumption]. Qed.

(* resolution consistency: multiplying the number of points, N_norm (= N_norm_prefactor * ny_total) and the index by the same factor gives the same
   distance, so each face of the coarse grid is a face of the finer grid *)
Theorem C10_resolution_consistent : forall L N Nn al bl au bu dl du k i, 0 < N -> 0 < Nn -> 0 < k ->
  S_sqrt2_gen_main L (k * N) (k * Nn) al bl au bu (k * i) = S_sqrt2_gen_main L N Nn al bl au bu i /\
  S_mono_convex_main L (k * N) (k * Nn) dl du (k * i) = S_mono_convex_main L N Nn dl du i /\
  S_linear_main L (k * N) (k * i) = S_linear_main L N i /\
  (forall l1 l2 l3 r2 r3, 0 < r2 -> S_mono_concave_main L (k * N) (k * Nn) dl du l1 l2 l3 r2 r3 (k * i) = S_mono_concave_main L N Nn dl du l1 l2 l3 r2 r3 i).
Proof.
  intros. split; [apply scale_gen; assumption|]. split; [apply scale_convex; assumption|]. split; [apply scale_linear; assumption|]. intros. apply scale_concave; assumption.
Qed.

(* combineSfuncs: after clipping / normalising, the weights form a convex combination: the combined function lies between the three it blends and is
   exact wherever they agree (index 0 and the last index) *)
Theorem C10_combined_weights : forall wl wu sl su so lo hi v, 0 <= wl -> 0 <= wu ->
  let p := normalise wl wu in
  (lo <= sl <= hi -> lo <= su <= hi -> lo <= so <= hi -> lo <= combine (fst p) (snd p) sl su so <= hi) /\ combine (fst p) (snd p) v v v = v.
Proof.
  intros wl wu sl su so lo hi v Hl Hu p. destruct (normalise_ok wl wu Hl Hu) as (A & B & C). split; [intros; apply combine_convex; assumption | apply combine_agree].
Qed.

(* a point list that passes the distance guard of PsiContour.get_distance is strictly increasing at every index *)
Theorem C10_guard_strict : forall l, increasing l = true -> forall k, (S k < length l)%nat -> nth k l 0 < nth (S k) l 0.
Proof. exact increasing_spec. Qed.

(* non-vacuity: a concrete region (L = 2, N = 16, N_norm = 32, wall gradient 0.3, X-point sqrt coefficient 0.05) *)
(* the normalisation: every site that builds a spacing function for a region (getSfuncFixedSpacing for the sqrt and the monotonic form, combineSfuncs,
   getSfuncFixedPerpSpacing -- expressions REGENERATED from the source) uses the SAME N_norm = N_norm_prefactor * ny_total, so "the requested end gradients in units
   of the normalised index" means the same thing for every spacing method and for every contour of a region *)
Theorem C10_normalisation : forall pref ny_total,
  S_Nnorm_fixed_sqrt pref ny_total = pref * ny_total /\ S_Nnorm_fixed_mono pref ny_total = pref * ny_total /\
  S_Nnorm_combine pref ny_total = pref * ny_total /\ S_Nnorm_perp pref ny_total = pref * ny_total.
Proof. intros. unfold S_Nnorm_fixed_sqrt, S_Nnorm_fixed_mono, S_Nnorm_combine, S_Nnorm_perp. repeat split; ring. Qed.

Example C10_concrete : S_sqrt2_a0_main 2 16 32 0 (3/10) (1/20) 0 16 = 2.
Proof. apply (proj2 (a0_ends 2 16 32 (3/10) (1/20) 0 ltac:(lra) ltac:(lra))). Qed.

Print Assumptions C10_end_points.
Print Assumptions C10_end_points_concave.
Print Assumptions C10_end_gradients.
Print Assumptions C10_monotonic_forms_increase.
Print Assumptions C10_guard_cell_continuations.
Print Assumptions C10_linear_continuations.
Print Assumptions C10_resolution_consistent.
Print Assumptions C10_combined_weights.
Print Assumptions C10_guard_strict.
Print Assumptions C10_normalisation.

(* ---------------------------------------------------------------------------------------------------------------
   Spacing by PERPENDICULAR distance (getSfuncFixedPerpSpacing): FineContour.interpSSperp as modelled in
   theories/Model_Sperp.v (projection on the unit vector perpendicular to the given one, the two loops that make the
   projected distance monotone by reflecting the rest of the list, total, the linear interpolation s(s_perp); the
   PrimFloat instance is run bit for bit against the real method on every run). *)
From Coq Require Import Arith.
From HT Require Import Field Model_Quadrature Proof_Quadrature Model_Sperp Proof_Sperp.
Import ListNotations.

(* the loop going up from startInd yields the running sums of the ABSOLUTE increments (for a list of any length) ... *)
Theorem C10_perp_loop_is_running_absolute_sum : forall fuel prev (l : list R), (length l <= fuel)%nat ->
  fwd Rops fuel prev l = abs_sums prev prev l.
Proof. exact fwd_abs_sums. Qed.

(* ... so every increment keeps its size and only its sign may change ... *)
Theorem C10_perp_increments_keep_their_size : forall (l : list R) prev k, (S k < length l)%nat ->
  nth (S k) (fwd Rops (length l) prev l) 0 - nth k (fwd Rops (length l) prev l) 0 = Rabs (nth (S k) l 0 - nth k l 0).
Proof. exact fwd_increment_sizes. Qed.

(* ... and after both loops the perpendicular distance is non-decreasing along the whole contour, unchanged at startInd and
   has one entry per fine point: s(s_perp) is interpolated on ordered abscissae whatever the shape of the contour and whichever
   way the vector points *)
Theorem C10_perp_distance_is_monotone : forall (s : list R) si, (si < length s)%nat ->
  nondecr (monotonise Rops s si) /\ nth si (monotonise Rops s si) 0 = nth si s 0 /\ length (monotonise Rops s si) = length s.
Proof. exact monotonise_nondecr. Qed.

Print Assumptions C10_perp_distance_is_monotone.

(* the spacing function built on the perpendicular distance starts at 0 at startInd and reaches the contour length where the
   perpendicular distance reaches its total (strictly increasing perpendicular distances) *)
Theorem C10_perp_spacing_end_points : forall (sp dist : list R) si ei, incr sp -> (2 <= length sp)%nat -> length dist = length sp ->
  (si < length sp)%nat -> (ei < length sp)%nat ->
  s_of_sperp Rops sp dist si (nth si sp 0) = 0 /\
  s_of_sperp Rops sp dist si (nth ei sp 0) = nth ei dist 0 - nth si dist 0.
Proof. exact s_of_sperp_end_points. Qed.
Print Assumptions C10_perp_spacing_end_points.

(* ... and is non-decreasing in between (linear interpolation of increasing distances on increasing abscissae) *)
From HT Require Import Proof_InterpMono.
Theorem C10_perp_spacing_is_monotone : forall (sp dist : list R) si x y, incr sp -> incr dist -> length dist = length sp -> (2 <= length sp)%nat ->
  nth 0 sp 0 <= x -> x <= y -> y <= last sp 0 ->
  s_of_sperp Rops sp dist si x <= s_of_sperp Rops sp dist si y.
Proof. exact s_of_sperp_monotone. Qed.
Print Assumptions C10_perp_spacing_is_monotone.

(* interior monotonicity of the sqrt form (getSqrtPoloidalDistanceFunc with both end gradients): the main piece of every case is
   2 a_lower sqrt(i/Nn) + 2 a_upper (sqrt(N/Nn) - sqrt((N-i)/Nn)) + the monotonic cubic for the reduced length and end gradients, hence strictly
   increasing on the whole of [0, N] under an explicit condition on the inputs, for every N, N_norm and length *)
From HT Require Import Proof_SqrtMono.
Theorem C10_sqrt_form_decomposition : forall L N Nn al bl au bu i, 0 < N -> 0 < Nn ->
  S_sqrt2_gen_main L N Nn al bl au bu i =
  2 * al * sqrt (i / Nn) + 2 * au * (sqrt (N / Nn) - sqrt ((N - i) / Nn))
  + S_mono_convex_main (red_L L N Nn al au) N Nn (red_bl N Nn bl au) (red_bu N Nn bu al) i.
Proof. exact sqrt2_gen_decomposition. Qed.
Print Assumptions C10_sqrt_form_decomposition.

Theorem C10_sqrt_form_increases : forall L N Nn al bl au bu eps, 0 < N -> 0 < Nn -> 0 <= al -> 0 <= au ->
  0 < red_bl N Nn bl au -> 0 < red_bu N Nn bu al -> 0 <= eps ->
  red_L L N Nn al au >= (red_bu N Nn bu al + red_bl N Nn bl au) / 2 * (N / Nn) - eps ->
  3 * eps * Nn / (2 * N) < Rmin (red_bl N Nn bl au) (red_bu N Nn bu al) ->
  forall x y, 0 <= x -> x < y -> y <= N -> S_sqrt2_gen_main L N Nn al bl au bu x < S_sqrt2_gen_main L N Nn al bl au bu y.
Proof. exact sqrt2_gen_increasing. Qed.
Print Assumptions C10_sqrt_form_increases.

Theorem C10_sqrt_form_special_cases_increase : forall L N Nn bl au bu eps, 0 < N -> 0 < Nn -> 0 <= eps ->
  (0 <= au -> 0 < red_bl N Nn bl au -> 0 < bu ->
   red_L L N Nn 0 au >= (bu + red_bl N Nn bl au) / 2 * (N / Nn) - eps -> 3 * eps * Nn / (2 * N) < Rmin (red_bl N Nn bl au) bu ->
   forall x y, 0 <= x -> x < y -> y <= N -> S_sqrt2_a0_main L N Nn 0 bl au bu x < S_sqrt2_a0_main L N Nn 0 bl au bu y) /\
  (0 < bl -> 0 < bu -> L >= (bu + bl) / 2 * (N / Nn) - eps -> 3 * eps * Nn / (2 * N) < Rmin bl bu ->
   (forall i, S_sqrt2_00_main L N Nn 0 bl 0 bu i = S_mono_convex_main L N Nn bl bu i) /\
   forall x y, 0 <= x -> x < y -> y <= N -> S_sqrt2_00_main L N Nn 0 bl 0 bu x < S_sqrt2_00_main L N Nn 0 bl 0 bu y).
Proof.
  intros L N Nn bl au bu eps HN HNn He. split.
  - intros. apply (sqrt2_a0_increasing L N Nn bl au bu eps); assumption.
  - intros. split; [intros; apply sqrt2_00_plain; assumption | apply (sqrt2_00_increasing L N Nn bl bu eps); assumption].
Qed.
Print Assumptions C10_sqrt_form_special_cases_increase.

(* ... and the monotonic forms are strictly increasing AS FUNCTIONS between any two points of [0, N] (mean-value theorem on
   C10_monotonic_forms_increase's gradients), not only at grid indices *)
Theorem C10_monotonic_forms_increase_as_functions : forall L N Nn dl du, 0 < N -> 0 < Nn -> 0 < dl -> 0 < du ->
  (forall eps, 0 <= eps -> L >= (du + dl) / 2 * (N / Nn) - eps -> 3 * eps * Nn / (2 * N) < Rmin dl du ->
     forall x y, 0 <= x -> x < y -> y <= N -> S_mono_convex_main L N Nn dl du x < S_mono_convex_main L N Nn dl du y) /\
  (forall l1, 0 < l1 ->
     let l2 := S_mono_concave_l2 L N Nn dl du l1 in let l3 := S_mono_concave_l3 L N Nn dl du l1 in
     let r2 := S_mono_concave_r2 L N Nn dl du l1 in let r3 := S_mono_concave_r3 L N Nn dl du l1 in
     forall x y, 0 <= x -> x < y -> y <= N ->
       S_mono_concave_main L N Nn dl du l1 l2 l3 r2 r3 x < S_mono_concave_main L N Nn dl du l1 l2 l3 r2 r3 y).
Proof.
  intros L N Nn dl du HN HNn Hl Hu. split.
  - intros eps He HL Hs. apply (convex_increasing L N Nn dl du eps); assumption.
  - intros l1 H1. cbv zeta. apply (concave_increasing L N Nn dl du l1); assumption.
Qed.
Print Assumptions C10_monotonic_forms_increase_as_functions.

(* the WHOLE function returned with a wall at one end (numpy.piecewise of the exponential guard-cell continuation and the main piece; the
   piece conditions i < 0 / i > N are the ones the translator reads off the source) is strictly increasing across the join:
   on (-inf, N] with a wall at the lower end, on [0, +inf) with a wall at the upper end *)
Theorem C10_sqrt_form_increases_into_guard_cells : forall L N Nn eps, 0 < N -> 0 < Nn -> 0 <= eps ->
  (forall bl au bu, 0 <= au -> S_sqrt2_a0_lower_B L N Nn 0 bl au bu <> 0 -> 0 < bl -> 0 < red_bl N Nn bl au -> 0 < bu ->
     red_L L N Nn 0 au >= (bu + red_bl N Nn bl au) / 2 * (N / Nn) - eps -> 3 * eps * Nn / (2 * N) < Rmin (red_bl N Nn bl au) bu ->
     forall x y, x < y -> y <= N -> sqrt2_a0_whole L N Nn bl au bu x < sqrt2_a0_whole L N Nn bl au bu y) /\
  (forall al bl bu, 0 <= al -> S_sqrt2_b0_upper_B L N Nn al bl 0 bu <> 0 -> 0 < bu -> 0 < bl -> 0 < red_bu N Nn bu al ->
     red_L L N Nn al 0 >= (red_bu N Nn bu al + bl) / 2 * (N / Nn) - eps -> 3 * eps * Nn / (2 * N) < Rmin bl (red_bu N Nn bu al) ->
     forall x y, 0 <= x -> x < y -> sqrt2_b0_whole L N Nn al bl bu x < sqrt2_b0_whole L N Nn al bl bu y).
Proof.
  intros L N Nn eps HN HNn He. split.
  - intros. apply (sqrt2_a0_whole_increasing L N Nn bl au bu eps); assumption.
  - intros. apply (sqrt2_b0_whole_increasing L N Nn al bl bu eps); assumption.
Qed.
Print Assumptions C10_sqrt_form_increases_into_guard_cells.
