(* C16 -- Equivariance under reflection and field reversal of the equilibrium.
   Everything named T_*, G1_*, F_*, metric_*, conn_*, topo_ints is REGENERATED from the source on every run. *)
From Coq Require Import Reals Lra List Bool ZArith.
From HT Require Import Field Proof_Metric TopoLib Proof_Geom1 Proof_Equivar.
From HG Require Import Gen_Options Gen_Geom1 Gen_Fields Gen_Metric Gen_Topo Gen_Spacing.
Import ListNotations.
Local Open Scope R_scope.

(* reverse_current / psi_divide_twopi / reverse_Bt are exactly the direct transformations psi -> s psi / k, fpol -> t fpol of the inputs (any
   combination; s, t = -1 when the option is set, k = 2 pi), and the gfile consistency checks compare like with like *)
Theorem C16_options_are_direct_transformations : forall rc dt rb x,
  T_preprocess rc dt rb x = mkin (sgn_of rc * i_psi2D x / k_of dt) (sgn_of rc * i_psi1D x / k_of dt) (sgn_of rb * i_fpol1D x)
                                 (i_axis_gfile x / k_of dt) (i_bdry_gfile x / k_of dt) /\
  T_gfile_reference rc (i_axis_gfile (T_preprocess rc dt rb x)) = sgn_of rc * i_axis_gfile x / k_of dt /\
  T_gfile_reference rc (i_bdry_gfile (T_preprocess rc dt rb x)) = sgn_of rc * i_bdry_gfile x / k_of dt.
Proof. intros. split; [apply preprocess_direct | apply gfile_reference_consistent]. Qed.

(* at FIXED grid positions, psi -> c psi scales Brxy, Bzxy and the sampled dot product by c and |Bpxy| by |c|; for c = -1 the radial direction
   of psi, hence bpsign, and the accepted sign of Bpxy reverse (and geometry1 raises in exactly the same cases); for c > 0 they do not change;
   fpol -> -fpol reverses Btxy; Bxy is unchanged by either reversal *)
Theorem C16_fields_under_reversal : forall (psiR psiZ : R -> R -> R) c r z a b dot bps fp Bp,
  (F_spline_Bp_R (fun u v => c * psiZ u v) r z = c * F_spline_Bp_R psiZ r z /\ F_spline_Bp_Z (fun u v => c * psiR u v) r z = c * F_spline_Bp_Z psiR r z) /\
  G1_Bp_mag (c * a) (c * b) = Rabs c * G1_Bp_mag a b /\
  (a <> b -> G1_bpsign (- a) (- b) = - G1_bpsign a b) /\ (0 < c -> G1_bpsign (c * a) (c * b) = G1_bpsign a b) /\
  (dot <> 0 -> bps <> 0 -> G1_decision (- dot) (- bps) = match G1_decision dot bps with Some s => Some (- s) | None => None end) /\
  (0 < c -> G1_decision (c * dot) bps = G1_decision dot bps) /\
  G1_Bt (- fp) r = - G1_Bt fp r /\ G1_B (- Bp) (G1_Bt (- fp) r) = G1_B Bp (G1_Bt fp r) /\ G1_B (- Bp) (G1_Bt fp r) = G1_B Bp (G1_Bt fp r).
Proof.
  intros. split; [apply Bp_scaling|]. split; [apply Bp_mag_scaling|]. split; [apply bpsign_reversed|]. split; [apply bpsign_scaled|].
  split; [apply decision_reversed|]. split; [apply decision_scaled|]. apply Bt_B_reversed.
Qed.

(* every metric component (both branches of calcMetric) keeps its magnitude under the reversal of the current (Bpxy, bpsign, dphidy, cosBeta change
   sign) and under the reversal of Bt (dphidy changes sign): it is either invariant for all arguments or changes sign for all arguments *)
Definition parity (f : forall T, ops T -> T -> T -> T -> T -> T -> T -> T -> T) : Prop :=
  ((forall Rx Bp hy dp cB tB bs : R, Rx <> 0 -> Bp <> 0 -> hy <> 0 -> cB <> 0 -> f R Rops Rx (- Bp) hy (- dp) (- cB) tB (- bs) = f R Rops Rx Bp hy dp cB tB bs) \/
   (forall Rx Bp hy dp cB tB bs : R, Rx <> 0 -> Bp <> 0 -> hy <> 0 -> cB <> 0 -> f R Rops Rx (- Bp) hy (- dp) (- cB) tB (- bs) = - f R Rops Rx Bp hy dp cB tB bs)) /\
  ((forall Rx Bp hy dp cB tB bs : R, Rx <> 0 -> Bp <> 0 -> hy <> 0 -> cB <> 0 -> f R Rops Rx Bp hy (- dp) cB tB bs = f R Rops Rx Bp hy dp cB tB bs) \/
   (forall Rx Bp hy dp cB tB bs : R, Rx <> 0 -> Bp <> 0 -> hy <> 0 -> cB <> 0 -> f R Rops Rx Bp hy (- dp) cB tB bs = - f R Rops Rx Bp hy dp cB tB bs)).

Theorem C16_metric_magnitudes_under_reversal :
  parity (@metric_orth_g11) /\
  parity (@metric_orth_g22) /\
  parity (@metric_orth_g33) /\
  parity (@metric_orth_g12) /\
  parity (@metric_orth_g13) /\
  parity (@metric_orth_g23) /\
  parity (@metric_orth_J) /\
  parity (@metric_orth_g_11) /\
  parity (@metric_orth_g_22) /\
  parity (@metric_orth_g_33) /\
  parity (@metric_orth_g_12) /\
  parity (@metric_orth_g_13) /\
  parity (@metric_orth_g_23) /\
  parity (@metric_nonorth_g11) /\
  parity (@metric_nonorth_g22) /\
  parity (@metric_nonorth_g33) /\
  parity (@metric_nonorth_g12) /\
  parity (@metric_nonorth_g13) /\
  parity (@metric_nonorth_g23) /\
  parity (@metric_nonorth_J) /\
  parity (@metric_nonorth_g_11) /\
  parity (@metric_nonorth_g_22) /\
  parity (@metric_nonorth_g_33) /\
  parity (@metric_nonorth_g_12) /\
  parity (@metric_nonorth_g_13) /\
  parity (@metric_nonorth_g_23).
Proof.
  repeat split.
  - exact rc_orth_g11.
  - exact rb_orth_g11.
  - exact rc_orth_g22.
  - exact rb_orth_g22.
  - exact rc_orth_g33.
  - exact rb_orth_g33.
  - exact rc_orth_g12.
  - exact rb_orth_g12.
  - exact rc_orth_g13.
  - exact rb_orth_g13.
  - exact rc_orth_g23.
  - exact rb_orth_g23.
  - exact rc_orth_J.
  - exact rb_orth_J.
  - exact rc_orth_g_11.
  - exact rb_orth_g_11.
  - exact rc_orth_g_22.
  - exact rb_orth_g_22.
  - exact rc_orth_g_33.
  - exact rb_orth_g_33.
  - exact rc_orth_g_12.
  - exact rb_orth_g_12.
  - exact rc_orth_g_13.
  - exact rb_orth_g_13.
  - exact rc_orth_g_23.
  - exact rb_orth_g_23.
  - exact rc_nonorth_g11.
  - exact rb_nonorth_g11.
  - exact rc_nonorth_g22.
  - exact rb_nonorth_g22.
  - exact rc_nonorth_g33.
  - exact rb_nonorth_g33.
  - exact rc_nonorth_g12.
  - exact rb_nonorth_g12.
  - exact rc_nonorth_g13.
  - exact rb_nonorth_g13.
  - exact rc_nonorth_g23.
  - exact rb_nonorth_g23.
  - exact rc_nonorth_J.
  - exact rb_nonorth_J.
  - exact rc_nonorth_g_11.
  - exact rb_nonorth_g_11.
  - exact rc_nonorth_g_22.
  - exact rb_nonorth_g_22.
  - exact rc_nonorth_g_33.
  - exact rb_nonorth_g_33.
  - exact rc_nonorth_g_12.
  - exact rb_nonorth_g_12.
  - exact rc_nonorth_g_13.
  - exact rb_nonorth_g_13.
  - exact rc_nonorth_g_23.
  - exact rb_nonorth_g_23.
Qed.

(* midplane reflection with the y order reversed: the sign decision of geometry1 is invariant (one sign of Bpxy for a grid and its mirror image);
   the connection tables of the upper single null / upper double null are the reflected tables of the lower ones and the connected double null is
   its own reflection; the branch-cut integers of a single null are the reflected integers *)
Theorem C16_reflection : (forall Brs Bzs Rp Rm Zp Zm, G1_dot (- Brs) Bzs Rm Rp (- Zm) (- Zp) = G1_dot Brs Bzs Rp Rm Zp Zm) /\
  same_conn conn_usn (mirror_conn pi_sn conn_lsn) = true /\
  same_conn conn_udn (mirror_conn pi_dn conn_ldn) = true /\ same_conn conn_ldn (mirror_conn pi_dn conn_udn) = true /\
  same_conn conn_cdn (mirror_conn pi_dn conn_cdn) = true /\
  (forall a nx p q r ny dn t t',
     topo_ints [0; a; nx]%Z [p; q; r]%Z nx ny (p + q + r)%Z dn 1%Z = Some t -> topo_ints [0; a; nx]%Z [r; q; p]%Z nx ny (p + q + r)%Z dn 1%Z = Some t' ->
     ixseps1 t' = ixseps1 t /\ ixseps2 t' = ixseps2 t /\ jyseps1_1 t' = (p + q + r - 2 - jyseps2_2 t)%Z /\ jyseps2_2 t' = (p + q + r - 2 - jyseps1_1 t)%Z).
Proof.
  split; [exact dot_mirror|]. split; [exact mirror_sn_tables|]. destruct mirror_dn_tables as (A & B & C). repeat (split; [assumption|]). exact ints_mirror_sn.
Qed.

(* non-vacuity: the tables are not empty and the mirror map is not the identity *)
Example C16_tables_nontrivial : (length conn_lsn = 4 /\ length conn_ldn >= 8)%nat /\ same_conn conn_usn conn_lsn = true /\ same_conn conn_udn conn_ldn = false.
Proof. vm_compute. repeat split; repeat constructor. Qed.

(* reflection exchanges the two ends of every region (y is reversed): the non-orthogonal blending ranges of combineSfuncs (expressions REGENERATED from the
   source) treat the two ends alike -- on each side of the separatrix the upper-end range is the lower-end range with `lower` and `upper` exchanged, and it is
   the *_inner parameter inside, the *_outer parameter outside the separatrix, reaching it exactly at the radial boundary (xweight = 1) *)
Theorem C16_reflection_of_blending_ranges : forall xw rs ri ro,
  S_Range_upper_in xw rs ri ro = S_Range_lower_in xw rs ri ro /\ S_Range_upper_out xw rs ri ro = S_Range_lower_out xw rs ri ro /\
  S_Range_lower_in xw rs ri ro = (1 - xw) * rs + xw * ri /\ S_Range_lower_out xw rs ri ro = (1 - xw) * rs + xw * ro /\
  S_Range_upper_in 1 rs ri ro = ri /\ S_Range_upper_out 1 rs ri ro = ro /\ S_Range_upper_in 0 rs ri ro = rs /\ S_Range_upper_out 0 rs ri ro = rs.
Proof.
  intros. unfold S_Range_upper_in, S_Range_lower_in, S_Range_upper_out, S_Range_lower_out. repeat split; ring.
Qed.


Print Assumptions C16_options_are_direct_transformations.
Print Assumptions C16_fields_under_reversal.
Print Assumptions C16_metric_magnitudes_under_reversal.
Print Assumptions C16_reflection.
Print Assumptions C16_reflection_of_blending_ranges.

(* ---------------------------------------------------------------------------------------------------------------
   Running fields under the reversal of the y order (the grid of the reflected equilibrium runs from the other end of every
   chain): poloidal distance and the zShift integral of the contour traversed the other way are 'total minus reversed'
   (theories/Model_Quadrature.v: calc_distance, cumtrapz). *)
From Coq Require Import List Reals.
From HT Require Import Field Model_Quadrature Proof_Quadrature Proof_Reversal.
Import ListNotations.
Local Open Scope R_scope.

Theorem C16_distance_under_y_reversal : forall pts : list (R * R),
  calc_distance Rops (rev pts) = rev_distance Rops (calc_distance Rops pts).
Proof. exact reverse_distance. Qed.

Theorem C16_integral_under_y_reversal : forall (l : list (R * R)) X, l <> [] ->
  cumtrapz Rops (map snd (rev l)) (map (fun p => X - fst p) (rev l)) =
  map (fun z => last (cumtrapz Rops (map snd l) (map fst l)) 0 - z) (rev (cumtrapz Rops (map snd l) (map fst l))).
Proof. exact cumtrapz_reverse. Qed.

Print Assumptions C16_integral_under_y_reversal.
