(* C12 -- A valid grid or an explicit error; shipped reference inputs generate  (PARTIAL: the logic that can be stated about the code; the rest is
   decided by running the real pipeline on unfavourable inputs and on the shipped configurations).
   GF_* are REGENERATED from doc/grid-file.rst, mesh.py and hypnotoad_geqdsk.py. *)
From Coq Require Import List String Bool Reals Lra.
From HG Require Import Gen_GridFile.
From HT Require Import Proof_Spacing Proof_GridFile.
Import ListNotations.

(* every variable the documentation of the grid file lists is written by writeGridfile, and unconditionally unless it is one of the variables that only
   exist for some inputs (gfile values, pressure, hthe, the wall, psi_axis / psi_bdry / curl_bOverB_* which need an O-point / X-point / the default curvature) *)
Theorem C12_documented_variables_written :
  forallb (fun v => mem v GF_written_always || mem v GF_written_conditional) GF_documented = true /\
  forallb (fun v => mem v GF_written_always || mem v (List.app GF_documented_conditional ["psi_axis"; "psi_bdry"; "curl_bOverB_x"; "curl_bOverB_y"; "curl_bOverB_z"]%string)) GF_documented = true.
Proof. split; vm_compute; reflexivity. Qed.

(* the options the command-line entry point reads itself are options it accepts (was refuted on the pinned tree: finding F9, repaired) *)
Theorem C12_script_accepts_what_it_reads : forallb (fun v => mem v GF_script_accepts_literal) GF_script_reads = true.
Proof. vm_compute. reflexivity. Qed.

(* a contour that passes the strict distance guard gives strictly positive hy at every cell and face (all stencils of calcHy), for positive dy; and dy is
   positive for any positive number of cells *)
Theorem C12_hy_dy_positive : forall d dn dy, increasing d = true -> increasing dn = true -> (0 < dy)%R -> (2 <= List.length d)%nat -> (2 <= List.length dn)%nat ->
  ((forall k, (k + 2 < List.length d)%nat -> (0 < (List.nth (k + 2) d 0 - List.nth k d 0) / dy)%R) /\
   (0 < 2 * (List.nth 1 d 0 - List.nth 0 d 0) / dy)%R /\
   (0 < (List.nth 1 d 0 - List.nth 0 d 0 + (List.nth (List.length dn - 1) dn 0 - List.nth (List.length dn - 2) dn 0)) / dy)%R) /\
  forall n, (0 < n)%nat -> (0 < 2 * PI / INR n)%R.
Proof. intros. split; [apply hy_stencils_positive; assumption | exact dy_positive]. Qed.

(* Mesh.__init__ refuses exactly when an option present in both the equilibrium's and the mesh's option sets has different values *)
Theorem C12_inconsistent_options_refused : forall (val : Type) (veq : val -> val -> bool), (forall a b, veq a b = true <-> a = b) ->
  forall eqo mesho, refused val veq eqo mesho = false <-> forall k v, In (k, v) eqo -> forall v', lookup val k mesho = Some v' -> v = v'.
Proof. intros val veq H. apply refused_spec. exact H. Qed.

Print Assumptions C12_documented_variables_written.
Print Assumptions C12_script_accepts_what_it_reads.
Print Assumptions C12_hy_dy_positive.
Print Assumptions C12_inconsistent_options_refused.

(* ---------------------------------------------------------------------------------------------------------------
   'Never a hang': the two ITERATIONS of contour construction are bounded by their own counters in ANY arithmetic (binary64 with
   nan / inf included) -- the models' structural fuel is never exhausted (theories/Model_Refine.v, Model_Equalise.v; both run
   bit for bit against the real methods).  What is NOT bounded by a counter (solve_ivp inside refinePointIntegrate / followPerpendicular,
   brentq) is a contract: the envelope oracle observes 'an exception or a valid file' on unfavourable inputs. *)
From HT Require Import Field Model_Refine Proof_Refine Model_Quadrature Model_Equalise Proof_Equalise.

Theorem C12_newton_refinement_is_bounded : forall (T : Type) (O : ops T) extra f atol s fprev,
  newton_loop O (newton_fuel + extra) 0 f atol s fprev = newton_loop O newton_fuel 0 f atol s fprev.
Proof. intros. apply newton_fuel_enough. Qed.

Theorem C12_equal_spacing_iteration_is_bounded : forall (T : Type) (O : ops T) refine atol damping maxits nfine el si ei extra pos err,
  eq_loop O refine atol damping maxits nfine el si ei (S maxits + extra) 1 pos err =
  eq_loop O refine atol damping maxits nfine el si ei (S maxits) 1 pos err.
Proof. intros. apply equalise_fuel_enough. Qed.

Print Assumptions C12_newton_refinement_is_bounded.
Print Assumptions C12_equal_spacing_iteration_is_bounded.
