(* C20 -- Segment/polygon predicates agree with exact arithmetic.
   Property statements about the exact-rational model (theories/Model_Geom2D.v), which the correspondence
   check runs against hypnotoad's float implementation on every run. *)
From Coq Require Import QArith Qabs List Lqa.
From HT Require Import Model_Geom2D Proof_Geom2D Proof_Geom2D_Complete.
Import ListNotations.
Local Open Scope Q_scope.

(* soundness, all four slope-class branches, any polyline: every reported crossing point lies on a wall edge
   AND on the segment (exact arithmetic, tolerance 0) *)
Theorem C20_reported_points_lie_on_both :
  forall (wall : list pt) (s e P : pt),
    In P (find_intersections 0 wall s e) ->
    exists p q, In (p, q) (edges wall) /\ on_seg P p q /\ on_seg P s e.
Proof. exact find_intersections_sound. Qed.

Theorem C20_single_edge_sound :
  forall s e p q P, hit 0 s e p q = Some P -> on_seg P p q /\ on_seg P s e.
Proof. exact hit_sound. Qed.

(* completeness, ALL four slope-class branches (segment more horizontal / more vertical  x  edge more horizontal / more
   vertical), segment and edge given in either orientation: if the segment meets a wall edge it is `separated` from
   (both of non-zero length; when in the same slope class, slopes differing by at least the code's own parallel filter
   1e-15 -- segments of different classes are never parallel) then the meeting point is reported *)
Theorem C20_complete :
  forall s e p q P, separated s e p q -> on_seg P p q -> on_seg P s e ->
    exists P', hit 0 s e p q = Some P' /\ pt_eq P' P.
Proof. exact hit_complete. Qed.

(* "reports a crossing point exactly when the segment meets the closed wall polyline": for any polyline all of whose
   edges are separated from the segment, the reported points are exactly the points lying on the segment and on an edge *)
Theorem C20_reports_exactly_the_crossings :
  forall wall s e, (forall p q, In (p, q) (edges wall) -> separated s e p q) ->
    forall P, (exists P', In P' (find_intersections 0 wall s e) /\ pt_eq P' P) <->
              (exists p q, In (p, q) (edges wall) /\ on_seg P p q /\ on_seg P s e).
Proof. exact find_intersections_exact. Qed.

(* reversed segments and reversed wall edges behave identically (hits and misses) *)
Theorem C20_reversed_segment :
  forall s e p q, separated s e p q ->
    (forall P, hit 0 s e p q = Some P -> exists P', hit 0 e s p q = Some P' /\ pt_eq P' P) /\
    (hit 0 s e p q = None -> hit 0 e s p q = None).
Proof. intros s e p q H. split; [intros P; apply hit_reversed_segment; exact H | apply miss_reversed_segment; exact H]. Qed.

Theorem C20_reversed_edge :
  forall s e p q P, separated s e p q -> hit 0 s e p q = Some P -> exists P', hit 0 s e q p = Some P' /\ pt_eq P' P.
Proof. exact hit_reversed_edge. Qed.

(* a crossing through a vertex shared by two wall edges: both edges report (the same) point, and wallIntersection
   merges two coincident reports into ONE point for any positive tolerance *)
Theorem C20_shared_vertex :
  (forall wall s e p V q, In (p, V) (edges wall) -> In (V, q) (edges wall) -> separated s e p V -> separated s e V q ->
     on_seg V s e ->
     exists a b, In a (find_intersections 0 wall s e) /\ In b (find_intersections 0 wall s e) /\ pt_eq a V /\ pt_eq b V) /\
  (forall tol wall s e a b V, 0 < tol -> find_intersections tol wall s e = [a; b] -> pt_eq a V -> pt_eq b V ->
     wallIntersection tol wall s e = WPoint a).
Proof. split; [exact shared_vertex_both_reported | exact shared_vertex_one_point]. Qed.

(* the tolerance (1e-14 in the code) only widens the acceptance windows: every exact hit is a hit at any tol >= 0 *)
Theorem C20_tolerance_monotone :
  forall tol s e p q P, 0 <= tol -> hit 0 s e p q = Some P -> hit tol s e p q = Some P.
Proof. exact hit_mono. Qed.

(* closest_approach: the returned (squared) distance is attained on the segment and no point of the segment is closer *)
Theorem C20_closest_approach_is_minimum :
  forall p a b, ~ dot (sub b a) (sub b a) == 0 ->
    (forall t, 0 <= t <= 1 -> closest2 p a b <= dist2 p (along a b t)) /\
    (exists t, 0 <= t <= 1 /\ closest2 p a b == dist2 p (along a b t)).
Proof. intros p a b H. split; [intros t Ht; apply closest2_minimal; assumption | apply closest2_attained; exact H]. Qed.

(* non-vacuity of `separated`: a slanted segment and a vertical edge; a horizontal and a slanted one of the same class *)
Example C20_separated_example :
  separated (mkpt 1 1) (mkpt 3 (3#2)) (mkpt 2 0) (mkpt 2 2) /\ separated (mkpt 0 0) (mkpt 4 0) (mkpt 1 (-1)) (mkpt 3 (1#2)).
Proof.
  split; (split; [intros [A B]; simpl in *; lra|]; split; [intros [A B]; simpl in *; lra|]; split; intros H1 H2;
          try (vm_compute in H1; discriminate); try (vm_compute in H2; discriminate); vm_compute; intro; discriminate).
Qed.

(* non-vacuity: a slanted segment crossing a square wall is reported once, at the exact point *)
Example C20_example :
  exists P, find_intersections 0 [mkpt 0 0; mkpt 2 0; mkpt 2 2; mkpt 0 2; mkpt 0 0] (mkpt 1 1) (mkpt 3 (3#2)) = [P]
            /\ cR P == 2 /\ cZ P == 5 # 4.
Proof. eexists. split; [vm_compute; reflexivity | split; reflexivity]. Qed.

Print Assumptions C20_reported_points_lie_on_both.
Print Assumptions C20_single_edge_sound.
Print Assumptions C20_complete.
Print Assumptions C20_reports_exactly_the_crossings.
Print Assumptions C20_reversed_segment.
Print Assumptions C20_reversed_edge.
Print Assumptions C20_shared_vertex.
Print Assumptions C20_tolerance_monotone.
Print Assumptions C20_closest_approach_is_minimum.

(* ---------------------------------------------------------------------------------------------------------------
   polygons.intersect (theories/Proof_Polygons.v): the segment test reports exactly the PROPER crossings of segments that are not
   (nearly) parallel, is symmetric in the two segments, and the polygon test is 'some edge of the first crosses some edge of the
   second', symmetric in its arguments (closed flags included). *)
From HT Require Import Proof_Polygons.

Theorem C20_reported_crossing_is_proper : forall p1 p1n p2 p2n, seg_cross p1 p1n p2 p2n = true ->
  exists s t, 0 < s /\ s < 1 /\ 0 < t /\ t < 1 /\ same_pt (on_seg p1 p1n s) (on_seg p2 p2n t).
Proof. exact seg_cross_sound. Qed.

Theorem C20_proper_crossings_are_reported : forall p1 p1n p2 p2n s t, det_eps <= Qabs (det4 p1 p1n p2 p2n) ->
  0 < s -> s < 1 -> 0 < t -> t < 1 -> same_pt (on_seg p1 p1n s) (on_seg p2 p2n t) -> seg_cross p1 p1n p2 p2n = true.
Proof. exact seg_cross_complete. Qed.

Theorem C20_polygon_intersect_spec : forall c1 c2 w1 w2, poly_intersect c1 c2 w1 w2 = true <->
  exists e1 e2, In e1 (poly_edges c1 w1) /\ In e2 (poly_edges c2 w2) /\ seg_cross (fst e1) (snd e1) (fst e2) (snd e2) = true.
Proof. exact poly_intersect_spec. Qed.

Theorem C20_polygon_intersect_symmetric : forall c1 c2 w1 w2, poly_intersect c1 c2 w1 w2 = poly_intersect c2 c1 w2 w1.
Proof. exact poly_intersect_sym. Qed.

Print Assumptions C20_proper_crossings_are_reported.
Print Assumptions C20_polygon_intersect_symmetric.
