(* C20 -- Segment/polygon predicates agree with exact arithmetic.
   Property statements about the exact-rational model (theories/Model_Geom2D.v), which the correspondence
   check runs against hypnotoad's float implementation on every run. *)
From Coq Require Import QArith Qabs List.
From HT Require Import Model_Geom2D Proof_Geom2D.
Import ListNotations.
Local Open Scope Q_scope.

(* soundness, all four slope-class branches, any polyline: every reported crossing point lies on a wall edge
   AND on the segment (exact arithmetic, tolerance 0) *)
Theorem C20_reported_points_lie_on_both :
  forall (wall : list pt) (s e P : pt),
    In P (find_intersections 0 wall s e) ->
    exists p q, In (p, q) (edges wall) /\ on_seg P p q /\ on_seg P s e.
Proof. exact find_intersections_sound. Qed.

Theorem C20_single_edge_sound :
  forall s e p q P, hit 0 s e p q = Some P -> on_seg P p q /\ on_seg P s e.
Proof. exact hit_sound. Qed.

(* completeness -- PARTIAL: proved for the representative branch (segment and edge both |dR| > |dZ|);
   the other three branches are covered by the correspondence / lattice enumeration, not by a theorem *)
Theorem C20_complete_partial :
  forall s e p q p1 q1 P,
    cR s < cR e -> is_a p q = true -> sortR p q = (p1, q1) ->
    par_eps <= Qabs ((cZ q1 - cZ p1) / (cR q1 - cR p1) - (cZ e - cZ s) / (cR e - cR s)) ->
    collinear P p1 q1 -> collinear P s e -> cR p1 <= cR P <= cR q1 -> cR s <= cR P <= cR e ->
    exists P', hit_H 0 s e p q = Some P' /\ cR P' == cR P /\ cZ P' == cZ P.
Proof. exact hit_H_a_complete. Qed.

(* non-vacuity: a slanted segment crossing a square wall is reported once, at the exact point *)
Example C20_example :
  exists P, find_intersections 0 [mkpt 0 0; mkpt 2 0; mkpt 2 2; mkpt 0 2; mkpt 0 0] (mkpt 1 1) (mkpt 3 (3#2)) = [P]
            /\ cR P == 2 /\ cZ P == 5 # 4.
Proof. eexists. split; [vm_compute; reflexivity | split; reflexivity]. Qed.

Print Assumptions C20_reported_points_lie_on_both.
Print Assumptions C20_single_edge_sound.
Print Assumptions C20_complete_partial.
