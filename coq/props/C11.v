(* C11 -- Targets sit on the wall; penalty_mask and wall output match the geometry.
   Model_Wall is the computable exact-rational hand model (on top of C20's model of find_intersections / area / clockwise); Gen_Wall records that the
   exact-form checks of the corresponding source statements passed on this run; the correspondence run evaluates the model by vm_compute on the cells
   and walls of real grids. *)
From Coq Require Import QArith Qabs List Bool.
From HG Require Import Gen_Wall.
From HT Require Import Model_Geom2D Proof_Geom2D Model_Wall Proof_Wall Model_Contour Proof_Contour.
Import ListNotations.
Local Open Scope Q_scope.

(* whatever the orientation and number of vertices of the input wall: the stored wall is not clockwise, has exactly the input vertices, and the closed
   wall written to the grid file starts and ends with the same vertex and has one vertex more *)
Theorem C11_wall_output : forall w,
  clockwise (normalise_wall w) = false /\ (forall p, In p (normalise_wall w) <-> In p w) /\ length (normalise_wall w) = length w /\
  (forall f r, normalise_wall w = f :: r ->
     hd f (close_wall (normalise_wall w)) = f /\ last (close_wall (normalise_wall w)) f = f /\ length (close_wall (normalise_wall w)) = S (length w)).
Proof.
  intros w. split; [apply normalise_not_clockwise|]. split; [apply normalise_same_vertices|].
  assert (Hlen : length (normalise_wall w) = length w) by (unfold normalise_wall; destruct (clockwise w); [apply rev_length | reflexivity]).
  split; [exact Hlen|]. intros f r E. destruct (close_wall_closed (normalise_wall w) f r E) as (A & B & C). rewrite Hlen in C. repeat split; assumption.
Qed.

(* the signed area (the code's orientation test) changes sign under reversal of the vertex order, for every polygon *)
Theorem C11_orientation_reverses : forall w, area2 (rev w) == - area2 w.
Proof. exact area2_rev. Qed.

(* penalty_mask of a cell with y-faces p1, p2: 0 when both faces are inside, 1 when both are outside, and otherwise the fraction of the chord p1-p2
   between the outside face and the first reported crossing *)
Theorem C11_penalty_mask : forall tol cw p0 p1 p2,
  let o1 := outside tol cw p0 p1 in let o2 := outside tol cw p0 p2 in
  (o1 = false -> o2 = false -> penalty tol cw p0 p1 p2 = 0) /\ (o1 = true -> o2 = true -> penalty tol cw p0 p1 p2 = 1) /\
  (o1 <> o2 -> forall pi rest, find_intersections tol cw p1 p2 = pi :: rest -> penalty tol cw p0 p1 p2 = if o1 then frac p1 p2 pi else frac p2 p1 pi).
Proof. exact penalty_cases. Qed.

(* with exact arithmetic every reported crossing lies on the chord and on a wall edge (C20), so the fraction is the chord parameter measured from the outside
   face and lies in [0, 1] *)
Theorem C11_fraction_in_unit_interval : forall cw p1 p2 pi, In pi (find_intersections 0 cw p1 p2) -> ~ dot (sub p2 p1) (sub p2 p1) == 0 ->
  (exists t, 0 <= t <= 1 /\ frac p1 p2 pi == t /\ frac p2 p1 pi == 1 - t) /\ exists a b, In (a, b) (edges cw) /\ on_seg pi a b.
Proof.
  intros cw p1 p2 pi Hin Hn. destruct (find_intersections_sound cw p1 p2 pi Hin) as (a & b & Hab & Hon & (t & Ht & HR & HZ)). split; [| exists a, b; split; assumption].
  exists t. split; [exact Ht|]. split; [apply (frac_on_chord p1 p2 pi t Hn HR HZ)|].
  apply frac_on_chord.
  - intros E. apply Hn. unfold dot, sub in *. cbn [cR cZ] in *. rewrite <- E. ring.
  - rewrite HR. ring.
  - rewrite HZ. ring.
Qed.

(* non-vacuity: a clockwise unit square is reversed; a cell straddling its right edge is 1/4 outside *)
Example C11_concrete :
  let sq := [mkpt 0 0; mkpt 0 1; mkpt 1 1; mkpt 1 0] in
  clockwise sq = true /\ normalise_wall sq = rev sq /\
  penalty 0 (close_wall (normalise_wall sq)) (mkpt (1#2) (1#2)) (mkpt (1#4) (1#3)) (mkpt (5#4) (1#3)) == 1 # 4.
Proof. vm_compute. repeat split; reflexivity. Qed.

(* which point of a contour is the target: the index bookkeeping of PsiContour (theories/Model_Contour.v, run against the real class).  For EVERY history of insert calls
   (at any position inside the list) and guard-cell extensions (temporaryExtend at either end) startInd and endInd keep designating the points they designated -- so the
   wall point put at endInd / startInd by addPointAtWallToContours stays the target; reverse exchanges the two; a negative endInd (used when a contour had to be
   extended to reach the wall) survives extensions at both ends *)
Theorem C11_target_indices_are_stable :
  (forall os c, wf c -> ops_ok c os -> start_pt (fold_left apply_op os c) = start_pt c /\ end_pt (fold_left apply_op os c) = end_pt c) /\
  (forall c, wf c -> start_pt (reverse c) = end_pt c /\ end_pt (reverse c) = start_pt c) /\
  (forall c x, (- len c <= ei c < 0)%Z -> end_pt (extend_upper1 x c) = end_pt c /\ end_pt (extend_lower1 x c) = end_pt c).
Proof.
  split; [exact history_keeps_ends|]. split; [intros c H; destruct (reverse_swaps_ends c H) as (A & B & _); split; assumption|].
  intros c x H. split; [apply extend_upper_keeps_negative_end | apply extend_lower_keeps_negative_end]; exact H.
Qed.

Print Assumptions C11_wall_output.
Print Assumptions C11_orientation_reverses.
Print Assumptions C11_penalty_mask.
Print Assumptions C11_fraction_in_unit_interval.
Print Assumptions C11_target_indices_are_stable.

(* ---------------------------------------------------------------------------------------------------------------
   What the orientation test computes (theories/Proof_Area.v): the signed area does not depend on where the wall is, and for a
   triangle `clockwise` is true exactly when the third vertex lies to the right of the directed line through the first two. *)
From HT Require Import Proof_Area.

Theorem C11_orientation_is_translation_invariant : forall a b (w : list pt), clockwise (map (shift a b) w) = clockwise w.
Proof. exact clockwise_translation_invariant. Qed.

Theorem C11_orientation_of_a_triangle : forall p q r, clockwise [p; q; r] = true <-> cross3 p q r < 0.
Proof. exact triangle_clockwise. Qed.

Print Assumptions C11_orientation_is_translation_invariant.
