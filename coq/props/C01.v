(* C01 -- Every grid point lies on its flux surface.
   The slice constants fill_* are REGENERATED from MeshRegion.fillRZ on every run (gen/Gen_Slices.v); the translator also
   insists on the reverse/transpose/refine skeleton of MeshRegion.__init__ and on the four X-point pins. *)
From Coq Require Import QArith Qabs List Lia Lqa Reals PrimFloat.
From HT Require Import Field Model_Region Proof_Region Model_Refine Proof_Refine.
From HG Require Import Gen_Slices.
Import ListNotations.
Local Open Scope Q_scope.

(* the slices are the documented staggering: centres at odd/odd, x-faces at even contours, y-faces at even points *)
Theorem C01_slices : fill_centre = (1, 1)%nat /\ fill_xlow = (0, 1)%nat /\ fill_ylow = (1, 0)%nat /\ fill_corners = (0, 0)%nat.
Proof. repeat split; reflexivity. Qed.

Section C01.
  Variable P : Type.
  Variable dflt : P.
  Variable psi : P -> Q.                  (* the interpolated equilibrium psi *)
  Variable tol : Q.
  Variable contours : list (list P).      (* region.contours after refine *)
  Variable psi_vals : list Q.
  (* CONTRACT of PsiContour.refine (monitored on every corpus grid): every point of contour ci is on psi_vals[ci] *)
  Hypothesis refine_contract : forall ci pj, (ci < length contours)%nat -> (pj < length (nth ci contours []))%nat ->
    Qabs (psi (nth pj (nth ci contours []) dflt) - nth ci psi_vals 0) <= tol.

  (* for ANY sizes and each of the four staggered locations (slices cs, ps): entry (i, j) lies on the flux surface
     of radial index cs + 2 i, so psi does not vary along y by more than 2 tol *)
  Theorem C01_on_surface : forall cs ps i j,
    (cs + 2 * i < length contours)%nat -> (ps + 2 * j < length (nth (cs + 2 * i) contours []))%nat ->
    Qabs (psi (nth j (nth i (fill cs ps contours) []) dflt) - nth (cs + 2 * i) psi_vals 0) <= tol.
  Proof. intros cs ps i j Hi Hj. rewrite fill_nth by assumption. apply refine_contract; assumption. Qed.

  Theorem C01_constant_along_y : forall cs ps i j j',
    (cs + 2 * i < length contours)%nat -> (ps + 2 * j < length (nth (cs + 2 * i) contours []))%nat ->
    (ps + 2 * j' < length (nth (cs + 2 * i) contours []))%nat ->
    Qabs (psi (nth j (nth i (fill cs ps contours) []) dflt) - psi (nth j' (nth i (fill cs ps contours) []) dflt)) <= tol + tol.
  Proof.
    intros cs ps i j j' Hi Hj Hj'.
    pose proof (C01_on_surface cs ps i j Hi Hj) as A. pose proof (C01_on_surface cs ps i j' Hi Hj') as B.
    set (a := psi (nth j (nth i (fill cs ps contours) []) dflt)) in *.
    set (b := psi (nth j' (nth i (fill cs ps contours) []) dflt)) in *.
    set (c := nth (cs + 2 * i) psi_vals 0) in *.
    apply Qabs_Qle_condition in A. apply Qabs_Qle_condition in B. apply Qabs_Qle_condition. lra.
  Qed.
End C01.

(* the order in which followPerpendicular returns the points is the order of psivals, for every strictly monotone list
   and every psi0 (inside, at an end, or outside the range): shared with C04 *)
Theorem C01_follow_order : forall (P : Type) (flow : Q -> P) l c,
  incrS l \/ decrS l -> follow P flow 4 c l = Some (map flow l).
Proof. intros P flow l c [H|H]; [apply follow_order_incr | apply follow_order_decr]; exact H. Qed.

(* ---------------- the refinement itself (theories/Model_Refine.v, run bit-for-bit against the real methods) ---------------- *)

(* refinePointNewton: a returned point has |psi - psival| < atol (an accepted iterate) or < atol*|psival| (a point accepted
   unchanged by the early exit) -- for ANY flux function, start point, tangent and tolerance *)
Theorem C01_newton_accepts_only_within_tolerance :
  forall (psi : R -> R -> R) (psival : R) p t atol q,
    refine_newton Rops psi psival p t atol = Done q ->
    (residual psi psival q < atol \/ residual psi psival q < atol * Rabs psival)%R.
Proof. exact refine_newton_real. Qed.

(* the `while True` loop stops after at most 12 iterations whatever psi does (any arithmetic: also binary64 with nan / inf) *)
Theorem C01_newton_terminates :
  forall (T : Type) (O : ops T) extra f atol s fprev,
    newton_loop O (newton_fuel + extra) 0 f atol s fprev = newton_loop O newton_fuel 0 f atol s fprev.
Proof. intros. apply newton_fuel_enough. Qed.

(* refinePoint: the result is that of the FIRST method that does not raise; SolutionError exactly when every method raises *)
Theorem C01_refine_point_first_success :
  forall (T : Type) (O : ops T) psi psival ls integ ms p t w atol,
    (forall q, refine_point O psi psival ls integ ms p t w atol = Done q ->
       exists pre m post, ms = pre ++ m :: post /\ run_method O psi psival ls integ m p t w atol = Done q /\
                          Forall (fun m' => run_method O psi psival ls integ m' p t w atol = Fail) pre) /\
    (refine_point O psi psival ls integ ms p t w atol = Fail <->
       Forall (fun m => run_method O psi psival ls integ m p t w atol = Fail) ms).
Proof. intros. split; [intro q; apply refine_point_first_success | apply refine_point_fails_iff]. Qed.

(* getRefined with tolerance-respecting methods ('newton', 'integrate+newton'): an exception, or a contour of the same length
   EVERY point of which is within the tolerance of the contour's psi value -- contours of any length *)
Theorem C01_refined_contour_within_tolerance :
  forall (psi : R -> R -> R) (psival : R) ls integ ms pts w atol r,
    Forall tolerant ms ->
    get_refined Rops psi psival ls integ ms pts w atol false 0 0 = Some r ->
    length r = length pts /\
    forall i, (i < length r)%nat -> (residual psi psival (nth i r (dpt Rops)) < refine_bound psival atol)%R.
Proof. exact get_refined_real. Qed.

(* the DEFAULT refine_methods ['integrate+newton', 'integrate']: within the tolerance, OR the raw result of the integrate
   fallback after the Newton step raised -- the single path on which the code accepts a point without a tolerance test
   (contract of solve_ivp, monitored by the residual oracle on every corpus grid) *)
Theorem C01_default_methods :
  forall (psi : R -> R -> R) (psival : R) ls integ p t w atol q,
    refine_point Rops psi psival ls integ [MIntegrateNewton; MIntegrate] p t w atol = Done q ->
    (residual psi psival q < refine_bound psival atol)%R \/
    (integ p = Done q /\ run_method Rops psi psival ls integ MIntegrateNewton p t w atol = Fail).
Proof. exact refine_point_default_real. Qed.

(* skip_endpoints keeps exactly the points at startInd / endInd; every other point is a refined point *)
Theorem C01_skip_endpoints :
  forall (T : Type) (O : ops T) psi psival ls integ ms pts w atol si ei r,
    get_refined O psi psival ls integ ms pts w atol true si ei = Some r -> (si < length pts)%nat -> (ei < length pts)%nat ->
    length r = length pts /\ nth ei r (dpt O) = nth ei pts (dpt O) /\ (si <> ei -> nth si r (dpt O) = nth si pts (dpt O)) /\
    forall i, (i < length pts)%nat -> i <> si -> i <> ei ->
      refine_point O psi psival ls integ ms (nth i pts (dpt O)) (tangent_at O pts i) w atol = Done (nth i r (dpt O)).
Proof. intros. eapply get_refined_skip_spec; eassumption. Qed.

(* non-vacuity (binary64 instance, evaluated): psi = R*R + Z*Z, the point (1.5, 0.2) is moved along (1, 0) onto psi = 4 *)
Example C01_refine_example :
  exists q, refine_newton Fops (fun R Z => R * R + Z * Z)%float 4%float (mk2 1.5 0.2)%float (mk2 1 0)%float 2e-8%float = Done q
            /\ PrimFloat.ltb (PrimFloat.abs (pR q * pR q + pZ q * pZ q - 4)) 2e-8 = true.
Proof. eexists. split; vm_compute; reflexivity. Qed.

(* non-vacuity *)
Example C01_example : follow Q (fun x => x + 100) 4 (5#2) [1; 2; 3; 4] = Some [101; 102; 103; 104]
                   /\ follow Q (fun x => x + 100) 4 5 [1; 2; 3; 4] = Some [101; 102; 103; 104]
                   /\ follow Q (fun x => x + 100) 4 (5#2) [4; 3; 2; 1] = Some [104; 103; 102; 101].
Proof. repeat split; vm_compute; reflexivity. Qed.

Print Assumptions C01_slices.
Print Assumptions C01_on_surface.
Print Assumptions C01_constant_along_y.
Print Assumptions C01_follow_order.
Print Assumptions C01_newton_accepts_only_within_tolerance.
Print Assumptions C01_newton_terminates.
Print Assumptions C01_refine_point_first_success.
Print Assumptions C01_refined_contour_within_tolerance.
Print Assumptions C01_default_methods.
Print Assumptions C01_skip_endpoints.
