(* C01 -- Every grid point lies on its flux surface.
   The slice constants fill_* are REGENERATED from MeshRegion.fillRZ on every run (gen/Gen_Slices.v); the translator also
   insists on the reverse/transpose/refine skeleton of MeshRegion.__init__ and on the four X-point pins. *)
From Coq Require Import QArith Qabs List Lia Lqa.
From HT Require Import Model_Region Proof_Region.
From HG Require Import Gen_Slices.
Import ListNotations.
Local Open Scope Q_scope.

(* the slices are the documented staggering: centres at odd/odd, x-faces at even contours, y-faces at even points *)
Theorem C01_slices : fill_centre = (1, 1)%nat /\ fill_xlow = (0, 1)%nat /\ fill_ylow = (1, 0)%nat /\ fill_corners = (0, 0)%nat.
Proof. repeat split; reflexivity. Qed.

Section C01.
  Variable P : Type.
  Variable dflt : P.
  Variable psi : P -> Q.                  (* the interpolated equilibrium psi *)
  Variable tol : Q.
  Variable contours : list (list P).      (* region.contours after refine *)
  Variable psi_vals : list Q.
  (* CONTRACT of PsiContour.refine (monitored on every corpus grid): every point of contour ci is on psi_vals[ci] *)
  Hypothesis refine_contract : forall ci pj, (ci < length contours)%nat -> (pj < length (nth ci contours []))%nat ->
    Qabs (psi (nth pj (nth ci contours []) dflt) - nth ci psi_vals 0) <= tol.

  (* for ANY sizes and each of the four staggered locations (slices cs, ps): entry (i, j) lies on the flux surface
     of radial index cs + 2 i, so psi does not vary along y by more than 2 tol *)
  Theorem C01_on_surface : forall cs ps i j,
    (cs + 2 * i < length contours)%nat -> (ps + 2 * j < length (nth (cs + 2 * i) contours []))%nat ->
    Qabs (psi (nth j (nth i (fill cs ps contours) []) dflt) - nth (cs + 2 * i) psi_vals 0) <= tol.
  Proof. intros cs ps i j Hi Hj. rewrite fill_nth by assumption. apply refine_contract; assumption. Qed.

  Theorem C01_constant_along_y : forall cs ps i j j',
    (cs + 2 * i < length contours)%nat -> (ps + 2 * j < length (nth (cs + 2 * i) contours []))%nat ->
    (ps + 2 * j' < length (nth (cs + 2 * i) contours []))%nat ->
    Qabs (psi (nth j (nth i (fill cs ps contours) []) dflt) - psi (nth j' (nth i (fill cs ps contours) []) dflt)) <= tol + tol.
  Proof.
    intros cs ps i j j' Hi Hj Hj'.
    pose proof (C01_on_surface cs ps i j Hi Hj) as A. pose proof (C01_on_surface cs ps i j' Hi Hj') as B.
    set (a := psi (nth j (nth i (fill cs ps contours) []) dflt)) in *.
    set (b := psi (nth j' (nth i (fill cs ps contours) []) dflt)) in *.
    set (c := nth (cs + 2 * i) psi_vals 0) in *.
    apply Qabs_Qle_condition in A. apply Qabs_Qle_condition in B. apply Qabs_Qle_condition. lra.
  Qed.
End C01.

(* the order in which followPerpendicular returns the points is the order of psivals, for every strictly monotone list
   and every psi0 (inside, at an end, or outside the range): shared with C04 *)
Theorem C01_follow_order : forall (P : Type) (flow : Q -> P) l c,
  incrS l \/ decrS l -> follow P flow 4 c l = Some (map flow l).
Proof. intros P flow l c [H|H]; [apply follow_order_incr | apply follow_order_decr]; exact H. Qed.

(* non-vacuity *)
Example C01_example : follow Q (fun x => x + 100) 4 (5#2) [1; 2; 3; 4] = Some [101; 102; 103; 104]
                   /\ follow Q (fun x => x + 100) 4 5 [1; 2; 3; 4] = Some [101; 102; 103; 104]
                   /\ follow Q (fun x => x + 100) 4 (5#2) [4; 3; 2; 1] = Some [104; 103; 102; 101].
Proof. repeat split; vm_compute; reflexivity. Qed.

Print Assumptions C01_slices.
Print Assumptions C01_on_surface.
Print Assumptions C01_constant_along_y.
Print Assumptions C01_follow_order.
