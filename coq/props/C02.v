(* C02 -- Metric tensor and Jacobian are the field-aligned metric, self-consistent.
   Property statements only; every proof is `exact`/`apply` of a lemma from theories/Proof_Metric*.v.
   The functions metric_*, geom2_dphidy, beta_* are GENERATED from /repo/hypnotoad/core/mesh.py on every run. *)
From Coq Require Import Reals Lra.
From HT Require Import Field Proof_Metric Proof_Metric2.
From HG Require Import Gen_Metric.
Local Open Scope R_scope.

(* well-formed point data: what geometry1/geometry2/calcBeta guarantee about the inputs of calcMetric *)
Definition WF (Rx Bp hy cosB tanB bps sinB : R) : Prop :=
  Rx <> 0 /\ Bp <> 0 /\ hy <> 0 /\ cosB <> 0 /\ tanB * cosB = sinB /\ cosB * cosB + sinB * sinB = 1 /\
  bps * bps = 1 /\ Rabs Bp = bps * Bp.

Ltac wf H := destruct H as (HR & HBp & Hhy & Hcos & Htan & Hunit & Hbps & Habs).
Ltac by_lemma L := solve [ eapply L; eassumption | eapply L; eauto | eapply L ].


Section Statements.
  Variables Rx Bp hy dphidy cosB tanB bps sinB : R.
  Hypothesis H : WF Rx Bp hy cosB tanB bps sinB.
  Notation A f := (f Rops Rx Bp hy dphidy cosB tanB bps).

  (* the contravariant and covariant components are matrix inverses: 9 entries, both branches *)
  Theorem C02_inverse_nonorth :
    A metric_nonorth_g11 * A metric_nonorth_g_11 + A metric_nonorth_g12 * A metric_nonorth_g_12 + A metric_nonorth_g13 * A metric_nonorth_g_13 = 1 /\
    A metric_nonorth_g11 * A metric_nonorth_g_12 + A metric_nonorth_g12 * A metric_nonorth_g_22 + A metric_nonorth_g13 * A metric_nonorth_g_23 = 0 /\
    A metric_nonorth_g11 * A metric_nonorth_g_13 + A metric_nonorth_g12 * A metric_nonorth_g_23 + A metric_nonorth_g13 * A metric_nonorth_g_33 = 0 /\
    A metric_nonorth_g12 * A metric_nonorth_g_11 + A metric_nonorth_g22 * A metric_nonorth_g_12 + A metric_nonorth_g23 * A metric_nonorth_g_13 = 0 /\
    A metric_nonorth_g12 * A metric_nonorth_g_12 + A metric_nonorth_g22 * A metric_nonorth_g_22 + A metric_nonorth_g23 * A metric_nonorth_g_23 = 1 /\
    A metric_nonorth_g12 * A metric_nonorth_g_13 + A metric_nonorth_g22 * A metric_nonorth_g_23 + A metric_nonorth_g23 * A metric_nonorth_g_33 = 0 /\
    A metric_nonorth_g13 * A metric_nonorth_g_11 + A metric_nonorth_g23 * A metric_nonorth_g_12 + A metric_nonorth_g33 * A metric_nonorth_g_13 = 0 /\
    A metric_nonorth_g13 * A metric_nonorth_g_12 + A metric_nonorth_g23 * A metric_nonorth_g_22 + A metric_nonorth_g33 * A metric_nonorth_g_23 = 0 /\
    A metric_nonorth_g13 * A metric_nonorth_g_13 + A metric_nonorth_g23 * A metric_nonorth_g_23 + A metric_nonorth_g33 * A metric_nonorth_g_33 = 1.
  Proof.
    wf H. repeat split;
    [ by_lemma no_inv_11 | by_lemma no_inv_12 | by_lemma no_inv_13 | by_lemma no_inv_21 | by_lemma no_inv_22
    | by_lemma no_inv_23 | by_lemma no_inv_31 | by_lemma no_inv_32 | by_lemma no_inv_33 ].
  Qed.

  Theorem C02_inverse_orth :
    A metric_orth_g11 * A metric_orth_g_11 + A metric_orth_g12 * A metric_orth_g_12 + A metric_orth_g13 * A metric_orth_g_13 = 1 /\
    A metric_orth_g11 * A metric_orth_g_12 + A metric_orth_g12 * A metric_orth_g_22 + A metric_orth_g13 * A metric_orth_g_23 = 0 /\
    A metric_orth_g11 * A metric_orth_g_13 + A metric_orth_g12 * A metric_orth_g_23 + A metric_orth_g13 * A metric_orth_g_33 = 0 /\
    A metric_orth_g12 * A metric_orth_g_11 + A metric_orth_g22 * A metric_orth_g_12 + A metric_orth_g23 * A metric_orth_g_13 = 0 /\
    A metric_orth_g12 * A metric_orth_g_12 + A metric_orth_g22 * A metric_orth_g_22 + A metric_orth_g23 * A metric_orth_g_23 = 1 /\
    A metric_orth_g12 * A metric_orth_g_13 + A metric_orth_g22 * A metric_orth_g_23 + A metric_orth_g23 * A metric_orth_g_33 = 0 /\
    A metric_orth_g13 * A metric_orth_g_11 + A metric_orth_g23 * A metric_orth_g_12 + A metric_orth_g33 * A metric_orth_g_13 = 0 /\
    A metric_orth_g13 * A metric_orth_g_12 + A metric_orth_g23 * A metric_orth_g_22 + A metric_orth_g33 * A metric_orth_g_23 = 0 /\
    A metric_orth_g13 * A metric_orth_g_13 + A metric_orth_g23 * A metric_orth_g_23 + A metric_orth_g33 * A metric_orth_g_33 = 1.
  Proof.
    wf H. repeat split;
    [ by_lemma or_inv_11 | by_lemma or_inv_12 | by_lemma or_inv_13 | by_lemma or_inv_21 | by_lemma or_inv_22
    | by_lemma or_inv_23 | by_lemma or_inv_31 | by_lemma or_inv_32 | by_lemma or_inv_33 ].
  Qed.

  (* J = hy/Bpxy, J^2 det(g^ij) = 1, sign J = bpsign, and the code's own Jcheck equals J (hy > 0) *)
  Theorem C02_jacobian :
    A metric_orth_J = hy / Bp /\ A metric_nonorth_J = hy / Bp /\
    A metric_orth_J * A metric_orth_J * or_det Rx Bp hy dphidy cosB tanB bps = 1 /\
    A metric_nonorth_J * A metric_nonorth_J * no_det Rx Bp hy dphidy cosB tanB bps = 1 /\
    (0 < hy -> 0 < bps * A metric_orth_J /\ 0 < bps * A metric_nonorth_J /\
               A metric_orth_Jcheck = A metric_orth_J /\ A metric_nonorth_Jcheck = A metric_nonorth_J).
  Proof.
    wf H. split; [reflexivity|]. split; [reflexivity|].
    split; [by_lemma or_J_det|]. split; [by_lemma no_J_det|].
    intro Hpos. split; [by_lemma J_sign_orth|]. split; [by_lemma J_sign_nonorth|].
    split; [by_lemma Jcheck_is_J_orth | by_lemma Jcheck_is_J_nonorth].
  Qed.

  (* closed forms *)
  Theorem C02_closed_forms :
    A metric_orth_g11 = (Rx * Bp) * (Rx * Bp) /\ A metric_nonorth_g11 = (Rx * Bp) * (Rx * Bp) /\
    A metric_orth_g_33 = Rx * Rx /\ A metric_nonorth_g_33 = Rx * Rx /\
    A metric_orth_g22 = 1 / (hy * hy) /\ A metric_nonorth_g22 = 1 / ((hy * cosB) * (hy * cosB)) /\
    A metric_orth_g12 = 0 /\ A metric_orth_g13 = 0 /\ A metric_orth_g_12 = 0 /\ A metric_orth_g_13 = 0 /\
    A metric_orth_g_22 - (Rx * dphidy) * (Rx * dphidy) = hy * hy /\
    A metric_nonorth_g_22 - (Rx * dphidy) * (Rx * dphidy) = hy * hy.
  Proof.
    wf H.
    repeat split; first [ by_lemma g11_closed | by_lemma g_33_closed | by_lemma g22_closed
                        | by_lemma orth_offdiag_zero | by_lemma g_22_poloidal_part ].
  Qed.

  (* y-z coupling with the toroidal shift of the same file: g_23 = g_33 * d(zShift)/dy *)
  Variable Bt : R.
  Notation DPH := (geom2_dphidy Rops hy Bt Bp Rx).
  Notation AD f := (f Rops Rx Bp hy DPH cosB tanB bps).
  Theorem C02_yz_coupling_nonorth :
    AD metric_nonorth_g_23 = AD metric_nonorth_g_33 * dzShift_dy Rx Bp hy Bt.
  Proof. wf H. by_lemma yz_coupling_nonorth. Qed.
  Theorem C02_dphidy : DPH = hy * Bt / (Bp * Rx) /\ DPH = bps * dzShift_dy Rx Bp hy Bt.
  Proof. wf H. split; [reflexivity | exact (dphidy_is_signed_dz Rx Bp hy cosB tanB bps sinB HR HBp Htan Hunit Hbps Habs Bt)]. Qed.
  (* orthogonal branch, both signs of bpsign (was refuted on the pinned tree for bpsign = -1: finding F1,
     repaired by the `fix:` commit recorded in known_findings.json) *)
  Theorem C02_yz_coupling_orth :
    AD metric_orth_g_23 = AD metric_orth_g_33 * dzShift_dy Rx Bp hy Bt.
  Proof. wf H. by_lemma yz_coupling_orth. Qed.
End Statements.

(* Displacements (non-orthogonal branch), from first principles -- see Proof_Metric2.Displacements *)
Section Disp.
  Variables dR dZ pR pZ k Rx Bp hy bps dphidy : R.
  Hypothesis Hk : 0 < k.
  Hypothesis HR : 0 < Rx.
  Hypothesis HBp : Bp <> 0.
  Hypothesis Hhy : hy <> 0.
  Hypothesis Hbps : bps * bps = 1.
  Hypothesis Habs : Rabs Bp = bps * Bp.
  Hypothesis Hgrad : pR * pR + pZ * pZ = (Rx * Bp) * (Rx * Bp).
  Hypothesis Hdx : dxlin dR dZ pR pZ <> 0.
  Notation cB := (cosB dR dZ pR pZ k).
  Notation tB := (tanB dR dZ pR pZ k).
  Theorem C02_g_11_displacement :
    metric_nonorth_g_11 Rops Rx Bp hy dphidy cB tB bps = ex_ex dR dZ pR pZ.
  Proof. by_lemma g_11_displacement. Qed.
  (* both signs of bpsign (the pinned code had g_12 = - e_x.e_y for bpsign = +1: finding F12, repaired) *)
  Theorem C02_g_12_displacement :
    metric_nonorth_g_12 Rops Rx Bp hy dphidy cB tB bps = ex_ey dR dZ pR pZ Rx Bp hy bps.
  Proof. by_lemma g_12_displacement. Qed.
End Disp.

(* non-vacuity: a concrete non-trivial point satisfies WF (3-4-5 angle, negative Bp) *)
Example C02_WF_inhabited : WF 2 (-3) (1/2) (4/5) (3/4) (-1) (3/5).
Proof. unfold WF. rewrite Rabs_left by lra. repeat split; lra. Qed.

Print Assumptions C02_inverse_nonorth.
Print Assumptions C02_inverse_orth.
Print Assumptions C02_jacobian.
Print Assumptions C02_closed_forms.
Print Assumptions C02_yz_coupling_nonorth.
Print Assumptions C02_yz_coupling_orth.
Print Assumptions C02_g_11_displacement.
Print Assumptions C02_g_12_displacement.
