(* C13 -- Parallel execution is observationally equivalent to serial execution.
   Statements about the labelled-transition-system model theories/Model_ParMap.v of ParallelMap.__call__
   (np > 1); the correspondence check drives the REAL ParallelMap through enumerated completion orders. *)
From Coq Require Import List Arith.
From HT Require Import Model_ParMap Proof_ParMap.
From HG Require Import Gen_ParMap.
Import ListNotations.

Section C13.
  Variable R Ex : Type.
  Variable outcome : nat -> outc R Ex.     (* what task i returns or raises: the serial semantics *)
  Variable n : nat.                        (* any number of tasks *)

  (* for every number of workers and EVERY schedule (list of Take / Finish i / MainGet steps):
     a result is never stored in the wrong position *)
  Theorem C13_positions :
    forall np ls s, run R Ex outcome n true (init R Ex n np) ls = Some s ->
    forall k o, nth_error (res s) k = Some (Some o) -> o = outcome k.
  Proof. exact (positions R Ex outcome n). Qed.

  (* ... once the caller has all results it returns the serial list, or raises the serial exception
     (the error of the lowest failing index), whatever the completion order and wherever the failing task is *)
  Theorem C13_parallel_is_serial :
    forall np ls s, run R Ex outcome n true (init R Ex n np) ls = Some s -> pc s = Done ->
    collect R Ex (res s) = serial R Ex outcome n.
  Proof. exact (done_is_serial R Ex outcome n). Qed.

  (* ... and it never blocks forever: while main waits a step is enabled, and every step decreases a measure *)
  Theorem C13_never_blocks :
    forall np ls s, np >= 1 -> run R Ex outcome n true (init R Ex n np) ls = Some s -> pc s = Waiting ->
    exists l s', step R Ex outcome n true s l = Some s'.
  Proof. exact (never_stuck R Ex outcome n). Qed.

  Theorem C13_schedules_finite :
    forall catch s l s', step R Ex outcome n catch s l = Some s' -> measure R Ex s' < measure R Ex s.
  Proof. exact (step_decreases R Ex outcome n). Qed.
End C13.

(* the pinned code (worker dies on an exception) had a reachable deadlock: finding F4, repaired by a fix: commit *)
Theorem C13_pinned_code_deadlocked :
  exists s, run unit unit (fun _ => Err tt) 1 false (init unit unit 1 1) [Take; Finish 0] = Some s
            /\ pc s = Waiting /\ stuck unit unit (fun _ => Err tt) 1 false s.
Proof. exact pinned_code_deadlocks. Qed.

(* the structural facts the model rests on, REGENERATED from parallel_map.py on every run: the worker catches a task's exception and always puts exactly one
   (index, result) per task taken (so `catch = true` is the model of the source; the handler also covers func_timeout's FunctionTimedOut, which a refine timeout raises and which does NOT derive from Exception: finding F28), tasks are enqueued with their index in order, __call__ takes exactly n_tasks
   results and stores each at its own index in a pre-allocated list, and re-raises the first error in index order only after all results are in *)
Theorem C13_source_is_the_modelled_system :
  PM_worker_catches = true /\ PM_worker_catches_refine_timeout = true /\ PM_worker_always_puts = true /\ PM_tasks_put_in_order = true /\ PM_receives_n_results = true /\
  PM_results_stored_by_index = true /\ PM_first_error_in_index_order = true.
Proof. repeat split; reflexivity. Qed.

(* transport of exceptions: the wrapper's round-trip test uses the serializer of the result queue (regenerated fact), hence for ANY exception -- also one the
   queue cannot carry, such as an instance of a class defined inside a function -- what the worker puts is delivered (the original, or its description) *)
Theorem C13_exception_reports_are_delivered :
  PM_check_is_transport_serializer = true /\
  forall (Ex : Type) (pickles : Ex -> bool) (describe : Ex -> Ex), (forall e, pickles (describe e) = true) ->
    forall e, delivered Ex pickles pickles describe e = true.
Proof. split; [reflexivity | intros Ex pickles describe Hd e; apply wrap_delivered; [exact Hd | auto]]. Qed.

(* ... while a test that accepts more than the queue carries loses exactly those reports (the caller would wait forever: the `catch = false` system above) *)
Theorem C13_laxer_test_loses_reports :
  forall (Ex : Type) (pickles check : Ex -> bool) (describe : Ex -> Ex), (forall e, pickles (describe e) = true) ->
    forall e, delivered Ex pickles check describe e = false <-> (check e = true /\ pickles e = false).
Proof. intros. apply wrap_lost_iff. assumption. Qed.

(* non-vacuity: 3 tasks, 2 workers, task 1 fails, completion order 2,1,0: the caller gets task 1's exception *)
Example C13_example :
  let outcome := fun i => if Nat.eqb i 1 then Err 7 else Ok (10 * i) in
  exists s, run nat nat outcome 3 true (init nat nat 3 2)
              [Take; Take; Finish 1; Take; Finish 2; Finish 0; MainGet; MainGet; MainGet] = Some s
            /\ pc s = Done /\ collect nat nat (res s) = Raise nat nat 7 /\ serial nat nat outcome 3 = Raise nat nat 7.
Proof.
  intro outcome. eexists. split; [vm_compute; reflexivity|]. split; [reflexivity|]. split; vm_compute; reflexivity.
Qed.

Print Assumptions C13_positions.
Print Assumptions C13_parallel_is_serial.
Print Assumptions C13_never_blocks.
Print Assumptions C13_schedules_finite.
Print Assumptions C13_pinned_code_deadlocked.
Print Assumptions C13_source_is_the_modelled_system.
Print Assumptions C13_exception_reports_are_delivered.
Print Assumptions C13_laxer_test_loses_reports.
