(* C05 -- hy and poloidal_distance are true arc lengths along flux surfaces.
   Stencil / chain / y-group logic.  makeRegions_pick_last is REGENERATED from Mesh.makeRegions on every run and the
   conn_* tables from tokamak.py; the statements of calcHy, calcPoloidalDistance and getRZBoundary are pinned by
   source fingerprints (translate/slices.py).  That the distance list d IS the arc length is a monitored contract. *)
From Coq Require Import List Arith Bool QArith Lia.
From HT Require Import Model_Region Proof_Region Model_Chain Proof_Chain TopoLib.
From HG Require Import Gen_Topo Gen_Slices.
Import ListNotations.
Local Open Scope Q_scope.

(* hy.centre[j]*dy is the distance between the two y-faces of cell j; interior hy.ylow[j+1]*dy the distance between the
   centres of cells j and j+1 -- for a contour of ANY length *)
Theorem C05_hy_centre : forall d j, (2 * j + 2 < length d)%nat -> nth j (centre_diffs d) 0 = nth (2 * j + 2) d 0 - nth (2 * j) d 0.
Proof. exact centre_diffs_nth. Qed.
Theorem C05_hy_ylow : forall d j, (2 * j + 3 < length d)%nat -> nth j (face_diffs d) 0 = nth (2 * j + 3) d 0 - nth (2 * j + 1) d 0.
Proof. exact face_diffs_nth. Qed.
(* strictly increasing distance (what PsiContour.get_distance insists on) gives strictly positive hy *)
Theorem C05_hy_positive : forall d j, increasing d -> (2 * j + 2 < length d)%nat -> 0 < nth j (centre_diffs d) 0.
Proof. exact hy_positive. Qed.

(* the accumulated distance is handed from region to region: the value at the first point of the next region is the value
   at the last point of the previous one plus the next region's own first entry -- continuous iff that entry is 0 *)
Theorem C05_join : forall carry v w rest, v <> [] -> w <> [] ->
  match chain_acc carry (v :: w :: rest) with
  | out_v :: out_w :: _ => hd 0 out_w = last out_v carry + hd 0 w
  | _ => False
  end.
Proof. exact chain_join. Qed.

(* every y-group of every tokamak topology starts at a region with no lower neighbour (the lower target) or, for a closed
   chain, at its first region in y-index order; the groups partition the regions and are linked by `upper` *)
Theorem C05_chain_start :
  all_starts_ok makeRegions_pick_last conn_lsn 3 2 = true /\ all_starts_ok makeRegions_pick_last conn_usn 3 2 = true /\
  all_starts_ok makeRegions_pick_last conn_cdn 6 2 = true /\ all_starts_ok makeRegions_pick_last conn_ldn 6 3 = true /\
  all_starts_ok makeRegions_pick_last conn_udn 6 3 = true.
Proof. repeat split; vm_compute; reflexivity. Qed.
Theorem C05_groups_partition :
  partition_ok makeRegions_pick_last conn_lsn 3 2 = true /\ partition_ok makeRegions_pick_last conn_usn 3 2 = true /\
  partition_ok makeRegions_pick_last conn_cdn 6 2 = true /\ partition_ok makeRegions_pick_last conn_ldn 6 3 = true /\
  partition_ok makeRegions_pick_last conn_udn 6 3 = true.
Proof. repeat split; vm_compute; reflexivity. Qed.
(* the loop as it was in the pinned code started the double-null core chain at outer_core (finding F2, repaired) *)
Theorem C05_pinned_loop_refuted : all_starts_ok true conn_cdn 6 2 = false.
Proof. exact (proj1 groups_pinned_refuted). Qed.

Example C05_example : centre_diffs [0; 1; 3; 6; 10] = [3 - 0; 10 - 3] /\ face_diffs [0; 1; 3; 6; 10] = [6 - 1].
Proof. split; reflexivity. Qed.

Print Assumptions C05_hy_centre.
Print Assumptions C05_hy_ylow.
Print Assumptions C05_join.
Print Assumptions C05_chain_start.

(* ---------------------------------------------------------------------------------------------------------------
   The distance itself (round 5): FineContour.calcDistance / reverse / getDistance as modelled in
   theories/Model_Quadrature.v (the PrimFloat instance of the same definitions is run bit for bit against the real
   methods on every run); theorems over R. *)
From Coq Require Import Reals.
From HT Require Import Field Model_Quadrature Proof_Quadrature Model_Stencil Model_Equalise Proof_Equalise Proof_EqualiseR.
Local Open Scope R_scope.

(* calcDistance returns the length of the polygon through the fine points: one entry per point, 0 at the first, and each
   increment is the straight distance to the next point -- any number of points *)
Theorem C05_distance_is_polygon_length : forall pts : list (R * R),
  length (calc_distance Rops pts) = length pts /\
  (pts <> [] -> nth 0 (calc_distance Rops pts) 0 = 0) /\
  forall k, (S k < length pts)%nat ->
    nth (S k) (calc_distance Rops pts) 0 - nth k (calc_distance Rops pts) 0 = len (nth k pts (0, 0)) (nth (S k) pts (0, 0)).
Proof. exact calc_distance_spec. Qed.

(* it is at least the straight distance between any two of the points (so never shorter than the chord of the arc) ... *)
Theorem C05_distance_bounds_chord : forall (pts : list (R * R)) i j, (i <= j < length pts)%nat ->
  len (nth i pts (0, 0)) (nth j pts (0, 0)) <= nth j (calc_distance Rops pts) 0 - nth i (calc_distance Rops pts) 0.
Proof. exact calc_distance_chord. Qed.

(* ... strictly increasing exactly as long as no two consecutive fine points coincide ... *)
Theorem C05_distance_strictly_increasing : forall pts : list (R * R),
  (forall k, (S k < length pts)%nat -> nth k pts (0, 0) <> nth (S k) pts (0, 0)) ->
  forall i j, (i < j < length pts)%nat -> nth i (calc_distance Rops pts) 0 < nth j (calc_distance Rops pts) 0.
Proof. exact calc_distance_strict. Qed.

(* ... and the true arc length where the contour is straight, however unevenly the fine points are spaced *)
Theorem C05_distance_exact_on_straight_contour : forall (a u : R * R) ts, fst u * fst u + snd u * snd u = 1 ->
  (forall k, (S k < length ts)%nat -> nth k ts 0 <= nth (S k) ts 0) ->
  calc_distance Rops (map (fun t => (fst a + t * fst u, snd a + t * snd u)) ts) = map (fun t => t - hd 0 ts) ts.
Proof. exact calc_distance_straight. Qed.

(* FineContour.reverse updates the cached distance to what calcDistance gives on the reversed points *)
Theorem C05_reverse_keeps_distance : forall pts : list (R * R),
  calc_distance Rops (rev pts) = rev_distance Rops (calc_distance Rops pts).
Proof. exact reverse_distance. Qed.

(* getDistance: a point's distance lies between the distances of the two fine points it selects (nearest point and the
   neighbour on the side of the nearer segment), which are adjacent; for a point that is a fine point it is that point's own *)
Theorem C05_point_distance_between_neighbours : forall (pos : list (R * R)) (dist : list R) p,
  let dfp := map (fun q => len p q) pos in
  let i1 := argmin Rops dfp in
  let i2 := second_index Rops pos p i1 in
  0 < nth i1 dfp 0 + nth i2 dfp 0 ->
  Rmin (nth i1 dist 0) (nth i2 dist 0) <= get_distance Rops pos dist p <= Rmax (nth i1 dist 0) (nth i2 dist 0).
Proof. exact get_distance_between. Qed.
Theorem C05_selected_points_are_adjacent : forall (pos : list (R * R)) p i1, (2 <= length pos)%nat -> (i1 < length pos)%nat ->
  let i2 := second_index Rops pos p i1 in (i2 < length pos)%nat /\ (i2 = i1 + 1 \/ i1 = i2 + 1)%nat.
Proof. exact second_index_adjacent. Qed.
Theorem C05_point_distance_at_fine_point : forall (pos : list (R * R)) (dist : list R) k,
  (2 <= length pos)%nat -> (k < length pos)%nat -> NoDup pos ->
  get_distance Rops pos dist (nth k pos (0, 0)) = nth k dist 0.
Proof. exact get_distance_at_fine_point. Qed.

(* FineContour.interpFunction (how regridding places a point at a given poloidal distance s from startInd): the point lies ON the
   polygon, on the segment whose distances enclose s, at the fraction where the polygon length is s ... *)
Theorem C05_placed_point_on_polygon : forall (pos : list (R * R)) (dist : list R) si s, incr dist -> length dist = length pos -> (2 <= length pos)%nat ->
  nth 0 dist 0 <= s + nth si dist 0 <= last dist 0 ->
  exists lo t, (S lo < length pos)%nat /\ 0 <= t <= 1 /\
    s + nth si dist 0 = nth lo dist 0 + t * (nth (S lo) dist 0 - nth lo dist 0) /\
    interp_point Rops pos dist si s =
      (fst (nth lo pos (0, 0)) + t * (fst (nth (S lo) pos (0, 0)) - fst (nth lo pos (0, 0))),
       snd (nth lo pos (0, 0)) + t * (snd (nth (S lo) pos (0, 0)) - snd (nth lo pos (0, 0)))).
Proof. exact placed_point_on_polygon. Qed.

(* ... and getDistance measures for it exactly the distance it was placed at, whenever the two fine points it selects are the
   ends of that segment (placing and measuring are inverse to each other: hy is consistent with the spacing function) *)
Theorem C05_placed_point_distance_round_trip : forall (pos : list (R * R)) (dist : list R) lo t,
  (S lo < length pos)%nat -> 0 <= t <= 1 -> nth lo pos (0, 0) <> nth (S lo) pos (0, 0) ->
  let a := nth lo pos (0, 0) in let b := nth (S lo) pos (0, 0) in
  let p := (fst a + t * (fst b - fst a), snd a + t * (snd b - snd a)) in
  let dfp := map (fun q => len p q) pos in
  let i1 := argmin Rops dfp in
  let i2 := second_index Rops pos p i1 in
  (i1 = lo /\ i2 = S lo) \/ (i1 = S lo /\ i2 = lo) ->
  get_distance Rops pos dist p = nth lo dist 0 + t * (nth (S lo) dist 0 - nth lo dist 0).
Proof. exact placed_point_distance_round_trip. Qed.

(* FineContour.equaliseSpacing (theories/Model_Equalise.v; `refine` is a parameter -- the contract -- and the real method is run
   with refine stubbed to the identity in the correspondence): in ANY arithmetic (binary64 with nan / inf included) the
   iteration stops after at most finecontour_maxits rounds ... *)
Theorem C05_equal_spacing_iteration_terminates : forall {T} (O : ops T) refine atol damping maxits nfine el si ei extra pos err,
  eq_loop O refine atol damping maxits nfine el si ei (S maxits + extra) 1 pos err =
  eq_loop O refine atol damping maxits nfine el si ei (S maxits) 1 pos err.
Proof. intros. apply equalise_fuel_enough. Qed.

(* ... it stops WITHOUT the warning only when the spacing passes the tolerance test of the code ... *)
Theorem C05_equal_spacing_accepted_only_within_tolerance : forall {T} (O : ops T) refine atol damping maxits nfine el si ei fuel count pos,
  snd (eq_loop O refine atol damping maxits nfine el si ei fuel count pos (ds_error O (calc_distance O pos))) = false ->
  olt O atol (ds_error O (calc_distance O (fst (eq_loop O refine atol damping maxits nfine el si ei fuel count pos (ds_error O (calc_distance O pos)))))) = false.
Proof. intros. apply eq_loop_sound. assumption. Qed.

(* ... and, if refine leaves the number of points and the points at startInd and endInd alone (skip_endpoints=True), the whole
   iteration never moves those two points: the fine contour keeps passing through the ends of its parent contour *)
Theorem C05_equal_spacing_keeps_the_ends : forall {T} (O : ops T) refine atol damping maxits nfine el si ei,
  (forall p, length (refine p) = length p) -> (forall p d, nth si (refine p) d = nth si p d) -> (forall p d, nth ei (refine p) d = nth ei p d) ->
  forall (pos : list (T * T)) d, (si < length pos)%nat -> (ei < length pos)%nat ->
  length (fst (equalise O refine atol damping maxits nfine el si ei pos)) = length pos /\
  nth si (fst (equalise O refine atol damping maxits nfine el si ei pos)) d = nth si pos d /\
  nth ei (fst (equalise O refine atol damping maxits nfine el si ei pos)) d = nth ei pos d.
Proof. intros. apply equalise_keeps_ends; assumption. Qed.

(* what that tolerance test means over the reals (numpy's pairwise summation IS the sum there): every spacing of an accepted fine
   contour is within finecontour_atol of the mean spacing, so any two spacings differ by at most twice that *)
Theorem C05_accepted_spacing_is_equal_to_tolerance : forall (dist : list R) atol, olt Rops atol (ds_error Rops dist) = false ->
  forall d, In d (diffs Rops dist) -> Rabs (d - mean (diffs Rops dist)) <= atol.
Proof. exact ds_error_bounds_every_spacing. Qed.

Theorem C05_numpy_pairwise_sum_is_the_sum : forall fuel (l : list R), pairwise_sum Rops fuel l = rsum l.
Proof. exact pairwise_sum_rsum. Qed.

Print Assumptions C05_distance_is_polygon_length.
Print Assumptions C05_distance_bounds_chord.
Print Assumptions C05_reverse_keeps_distance.
Print Assumptions C05_point_distance_at_fine_point.
Print Assumptions C05_placed_point_on_polygon.
Print Assumptions C05_equal_spacing_keeps_the_ends.
Print Assumptions C05_accepted_spacing_is_equal_to_tolerance.
