(* C05 -- hy and poloidal_distance are true arc lengths along flux surfaces.
   Stencil / chain / y-group logic.  makeRegions_pick_last is REGENERATED from Mesh.makeRegions on every run and the
   conn_* tables from tokamak.py; the statements of calcHy, calcPoloidalDistance and getRZBoundary are pinned by
   source fingerprints (translate/slices.py).  That the distance list d IS the arc length is a monitored contract. *)
From Coq Require Import List Arith Bool QArith Lia.
From HT Require Import Model_Region Proof_Region Model_Chain Proof_Chain TopoLib.
From HG Require Import Gen_Topo Gen_Slices.
Import ListNotations.
Local Open Scope Q_scope.

(* hy.centre[j]*dy is the distance between the two y-faces of cell j; interior hy.ylow[j+1]*dy the distance between the
   centres of cells j and j+1 -- for a contour of ANY length *)
Theorem C05_hy_centre : forall d j, (2 * j + 2 < length d)%nat -> nth j (centre_diffs d) 0 = nth (2 * j + 2) d 0 - nth (2 * j) d 0.
Proof. exact centre_diffs_nth. Qed.
Theorem C05_hy_ylow : forall d j, (2 * j + 3 < length d)%nat -> nth j (face_diffs d) 0 = nth (2 * j + 3) d 0 - nth (2 * j + 1) d 0.
Proof. exact face_diffs_nth. Qed.
(* strictly increasing distance (what PsiContour.get_distance insists on) gives strictly positive hy *)
Theorem C05_hy_positive : forall d j, increasing d -> (2 * j + 2 < length d)%nat -> 0 < nth j (centre_diffs d) 0.
Proof. exact hy_positive. Qed.

(* the accumulated distance is handed from region to region: the value at the first point of the next region is the value
   at the last point of the previous one plus the next region's own first entry -- continuous iff that entry is 0 *)
Theorem C05_join : forall carry v w rest, v <> [] -> w <> [] ->
  match chain_acc carry (v :: w :: rest) with
  | out_v :: out_w :: _ => hd 0 out_w = last out_v carry + hd 0 w
  | _ => False
  end.
Proof. exact chain_join. Qed.

(* every y-group of every tokamak topology starts at a region with no lower neighbour (the lower target) or, for a closed
   chain, at its first region in y-index order; the groups partition the regions and are linked by `upper` *)
Theorem C05_chain_start :
  all_starts_ok makeRegions_pick_last conn_lsn 3 2 = true /\ all_starts_ok makeRegions_pick_last conn_usn 3 2 = true /\
  all_starts_ok makeRegions_pick_last conn_cdn 6 2 = true /\ all_starts_ok makeRegions_pick_last conn_ldn 6 3 = true /\
  all_starts_ok makeRegions_pick_last conn_udn 6 3 = true.
Proof. repeat split; vm_compute; reflexivity. Qed.
Theorem C05_groups_partition :
  partition_ok makeRegions_pick_last conn_lsn 3 2 = true /\ partition_ok makeRegions_pick_last conn_usn 3 2 = true /\
  partition_ok makeRegions_pick_last conn_cdn 6 2 = true /\ partition_ok makeRegions_pick_last conn_ldn 6 3 = true /\
  partition_ok makeRegions_pick_last conn_udn 6 3 = true.
Proof. repeat split; vm_compute; reflexivity. Qed.
(* the loop as it was in the pinned code started the double-null core chain at outer_core (finding F2, repaired) *)
Theorem C05_pinned_loop_refuted : all_starts_ok true conn_cdn 6 2 = false.
Proof. exact (proj1 groups_pinned_refuted). Qed.

Example C05_example : centre_diffs [0; 1; 3; 6; 10] = [3 - 0; 10 - 3] /\ face_diffs [0; 1; 3; 6; 10] = [6 - 1].
Proof. split; reflexivity. Qed.

Print Assumptions C05_hy_centre.
Print Assumptions C05_hy_ylow.
Print Assumptions C05_join.
Print Assumptions C05_chain_start.
