(* C17 -- geqdsk write/read round trip.  Statements about the hand model theories/Model_Geqdsk.v, which the
   correspondence check compares character-for-character with hypnotoad's writer and token-for-token with its
   reader on every run. *)
From Coq Require Import List Arith.
From HT Require Import Model_Geqdsk Proof_Geqdsk Model_GeqdskHeader Proof_GeqdskHeader.
Import ListNotations.

(* the reader's regular expression recovers every value the writer formats: ANY list of blocks of ANY lengths
   (so every nx, ny, including sizes not divisible by the 5-per-line chunking), any signs/digits/exponents *)
Theorem C17_tokens_of_written :
  forall blocks : list (list value),
    Forall (Forall wf_value) blocks ->
    tokenize (flat_map write_block blocks) = map tok_of (concat blocks).
Proof. exact roundtrip_blocks. Qed.

(* ChunkOutput: any chunk size, any starting phase *)
Theorem C17_chunking :
  forall chunk vs counter,
    exists d, fst (chunk_write chunk counter vs) = render_doc d /\ vals d = vs /\ (Forall wf_value vs -> wf_doc d).
Proof. exact chunk_write_doc. Qed.

(* the whole body of a file (scalars, profiles, psi in Fortran order, counts line, optional boundary / limiter):
   the token stream is exactly the sequence of values the reader consumes, whether or not the optional entries exist *)
Theorem C17_file_roundtrip :
  forall g : gdata, wf_gdata g -> tokenize (file_body g) = expected_tokens g.
Proof. exact file_roundtrip_tokens. Qed.

(* numbers that abut with no separator at all (Fortran e16.9 fields) are read back *)
Theorem C17_abut :
  forall fs : list dfloat,
    Forall (fun f => wf_value (VFloat f)) fs ->
    tokenize (flat_map render_float fs) = map (fun f => tok_of (VFloat f)) fs.
Proof. exact abutting_fields. Qed.

(* non-vacuity: a concrete file with nx=2, ny=3 (not a multiple of 5), a negative value, -0.0 and one limiter point *)
Definition ex_f (neg : bool) (d : nat) : dfloat := mkdf (negb neg) neg d [1;2;3;4;5;6;7;8;9] neg 0 7.
Definition ex_g : gdata :=
  mkg 2 3 (ex_f false 1) (ex_f false 2) (ex_f false 3) (ex_f true 4) (ex_f false 5) (ex_f false 6) (ex_f true 7)
      (ex_f false 8) (ex_f false 9) (ex_f true 1) (mkdf true true 0 [0;0;0;0;0;0;0;0;0] false 0 0)
      [ex_f false 1; ex_f true 2] [ex_f false 3; ex_f false 4] [dzero; dzero] [dzero; dzero]
      [[ex_f false 1; ex_f false 2; ex_f true 3]; [ex_f false 4; ex_f true 5; ex_f false 6]]
      [ex_f false 7; ex_f false 8] [] [(ex_f false 1, ex_f true 2)].
Example C17_example : tokenize (file_body ex_g) = expected_tokens ex_g /\ length (expected_tokens ex_g) = 40.
Proof. split; vm_compute; reflexivity. Qed.

(* the first line: whatever the label, date, shot and time fields contain (any characters, any lengths -- the "{:11s}" fields pad but never truncate), the reader's
   `words[-2]`, `words[-1]` of the written header are nx and ny, for all sizes below 1000 (from 1000 on the "{:4d}" fields abut: Example header_abuts_from_1000) *)
Theorem C17_header_roundtrip : forall label date shot time nx ny, nx < 1000 -> ny < 1000 ->
  read_header (header label date shot time nx ny) = Some (nat_digits nx, nat_digits ny).
Proof. exact header_roundtrip. Qed.

Print Assumptions C17_tokens_of_written.
Print Assumptions C17_chunking.
Print Assumptions C17_file_roundtrip.
Print Assumptions C17_abut.
Print Assumptions C17_header_roundtrip.
