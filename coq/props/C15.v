(* C15 -- Regridding is history independent.
   Gen_Regrid (flags about the option flow and the regridding path, the table of PsiContour method effects) is REGENERATED from
   equilibrium.py / mesh.py on every run; Model_Regrid is the hand state machine those flags select the branches of. *)
From Coq Require Import List Bool.
From HG Require Import Gen_Regrid.
From HT Require Import Model_Regrid Proof_Regrid.
Import ListNotations.

Section C15.
  Variables settings opts factory base pos geom : Type.
  Variable create : factory -> settings -> opts.
  Variable dict : opts -> settings.
  Variable place : base -> opts -> pos.
  Variable stale : base -> opts -> pos.
  Variable derive : base -> pos -> pos -> geom.
  Variable f_eq f_class : factory.
  Variable b : base.
  Variable skeleton : opts -> base.
  Hypothesis create_idem : forall s, create f_eq (dict (create f_eq s)) = create f_eq s.

  (* (the skeleton -- separatrix contours and the orthogonal spacing functions stored at construction -- does not read the nonorthogonal_* options: regenerated flag
     skeleton_ignores_nonorthogonal_settings, false on the pinned tree for 'poloidal_orthogonal_combined', finding F24)
     for EVERY finite history of redistributePoints(s) / calculateRZ() / geometry() calls after a build with settings s0: no call raises, and
     what a final geometry() shows (R-Z arrays and derived geometry) is what it shows on a mesh built from scratch with the settings last given *)
  Theorem C15_history_independent : forall s0 ops,
    let hist := run settings opts factory base pos geom create dict place stale derive f_eq f_class ops
                    (build settings opts factory base pos geom create dict place f_eq f_class b skeleton s0) in
    observe opts base pos geom derive hist
      = observe opts base pos geom derive (Some (build settings opts factory base pos geom create dict place f_eq f_class b skeleton (last_settings settings s0 ops)))
    /\ observe opts base pos geom derive hist <> None.
  Proof.
    intros s0 ops hist. apply (history_independent settings opts factory base pos geom create dict place stale derive f_eq f_class b skeleton create_idem).
    vm_compute. reflexivity.
  Qed.
End C15.

(* no PsiContour method leaves a stale distance list or a FineContour built for another start/end/extension: for every history of
   method calls (rows of the regenerated table) and cache look-ups the caches are coherent with the current points and key *)
Theorem C15_contour_caches_coherent : forall calls c, coherent c -> (forall e, In (Method e) calls -> In e contour_methods) ->
  coherent (fold_left do_call calls c).
Proof. apply caches_coherent. vm_compute. reflexivity. Qed.

(* non-vacuity: the table has methods that change points and methods that change the key *)
Example C15_table_nontrivial : existsb e_points contour_methods = true /\ existsb e_key contour_methods = true /\ (length contour_methods > 20)%nat.
Proof. vm_compute. repeat split; auto. repeat constructor. Qed.

Print Assumptions C15_history_independent.
Print Assumptions C15_contour_caches_coherent.
