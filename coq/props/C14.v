(* C14 -- Deterministic, side-effect free, and reproducible from embedded inputs (the part that is logic: side effects and history of the constructor).
   T_preprocess / T_inplace_on_caller_arrays are REGENERATED from TokamakEquilibrium.__init__. *)
From Coq Require Import Reals Lra.
From HG Require Import Gen_Options.
From HT Require Import Proof_SideEffects.
Local Open Scope R_scope.

(* for every combination of reverse_current / psi_divide_twopi / reverse_Bt the caller's arrays are what they were before the construction ... *)
Theorem C14_constructor_leaves_caller_arrays : forall rc dt rb c, caller_after rc dt rb c = c.
Proof. intros. apply no_side_effect. vm_compute. reflexivity. Qed.

(* ... so any number of constructions from the same arrays see the same inputs (no dependence on earlier builds through the arguments) *)
Theorem C14_rebuild_sees_same_inputs : forall rc dt rb c n,
  T_preprocess rc dt rb (Nat.iter n (caller_after rc dt rb) c) = T_preprocess rc dt rb c.
Proof.
  intros rc dt rb c n. assert (E : Nat.iter n (caller_after rc dt rb) c = c).
  { induction n as [|n IH]; [reflexivity|]. change (Nat.iter (S n) (caller_after rc dt rb) c) with (caller_after rc dt rb (Nat.iter n (caller_after rc dt rb) c)). rewrite IH. apply no_side_effect. vm_compute. reflexivity. }
  rewrite E. reflexivity.
Qed.

(* what the in-place form would do (the pinned tree had it: finding F5) *)
Theorem C14_inplace_form_refuted : exists c, T_preprocess true false false (T_preprocess true false false c) <> T_preprocess true false false c.
Proof. exact inplace_refuted. Qed.

Print Assumptions C14_constructor_leaves_caller_arrays.
Print Assumptions C14_rebuild_sees_same_inputs.
