(* C18 -- psi interpolation reproduces the data; derived fields are its derivatives.
   F_* (field helpers) and dct_term_* (DCT summands) are REGENERATED from the source on every run. *)
From Coq Require Import Reals Lra List.
From Coquelicot Require Import Coquelicot.
From HT Require Import Field Proof_Fields Proof_DCT.
From HG Require Import Gen_Fields Gen_DCT.
Local Open Scope R_scope.

(* DCT branch: every derivative evaluator is the partial derivative of the __call__ evaluator, for a coefficient matrix of
   ANY size and every point; the mixed evaluator is both d/dZ of ddR and d/dR of ddZ *)
Theorem C18_dct_derivatives :
  forall Rmin Rsize nR1 dR Zmin Zsize nZ1 dZ, Rsize <> 0 -> Zsize <> 0 -> dR * nR1 = Rsize -> dZ * nZ1 = Zsize -> dR <> 0 -> dZ <> 0 ->
  forall cs r z,
    let ev := eval Rmin Rsize nR1 dR Zmin Zsize nZ1 dZ in
    is_derive (fun x => ev (dct_term_call Rops) cs x z) r (ev (dct_term_ddR Rops) cs r z) /\
    is_derive (fun x => ev (dct_term_call Rops) cs r x) z (ev (dct_term_ddZ Rops) cs r z) /\
    is_derive (fun x => ev (dct_term_ddR Rops) cs x z) r (ev (dct_term_d2dR2 Rops) cs r z) /\
    is_derive (fun x => ev (dct_term_ddZ Rops) cs r x) z (ev (dct_term_d2dZ2 Rops) cs r z) /\
    is_derive (fun x => ev (dct_term_ddR Rops) cs r x) z (ev (dct_term_d2dRdZ Rops) cs r z) /\
    is_derive (fun x => ev (dct_term_ddZ Rops) cs x z) r (ev (dct_term_d2dRdZ Rops) cs r z).
Proof. intros. apply dct_derivs; assumption. Qed.

Section C18.
  Variables psi psiR psiZ psiRR psiZZ psiRZ : R -> R -> R.
  Variables fpol fpolprime : R -> R.
  (* the interpolant contract: the derivative evaluators are the partial derivatives of one function *)
  Hypothesis psi_r : forall r z, is_derive (fun x => psi x z) r (psiR r z).
  Hypothesis psi_z : forall r z, is_derive (fun x => psi r x) z (psiZ r z).
  Hypothesis psiR_r : forall r z, is_derive (fun x => psiR x z) r (psiRR r z).
  Hypothesis psiR_z : forall r z, is_derive (fun x => psiR r x) z (psiRZ r z).
  Hypothesis psiZ_r : forall r z, is_derive (fun x => psiZ x z) r (psiRZ r z).
  Hypothesis psiZ_z : forall r z, is_derive (fun x => psiZ r x) z (psiZZ r z).
  Hypothesis fpol_d : forall p, is_derive fpol p (fpolprime p).

  (* the helper chain: each exposed derivative function is the partial derivative of the exposed primitive *)
  Theorem C18_helpers : forall r z, r <> 0 ->
    is_derive (fun x => F_spline_Bp_R psiZ x z) r (F_dBRdR psiZ psiRZ r z) /\
    is_derive (fun x => F_spline_Bp_R psiZ r x) z (F_dBRdZ psiZZ r z) /\
    is_derive (fun x => F_spline_Bp_Z psiR x z) r (F_dBZdR psiR psiRR r z) /\
    is_derive (fun x => F_spline_Bp_Z psiR r x) z (F_dBZdZ psiRZ r z) /\
    is_derive (fun x => F_Bzeta psi fpol x z) r (F_dBzetadR psi psiR fpol fpolprime r z) /\
    is_derive (fun x => F_Bzeta psi fpol r x) z (F_dBzetadZ psi psiZ fpolprime r z) /\
    is_derive (fun x => F_B2 psi psiR psiZ fpol x z) r (F_dB2dR psi psiR psiZ psiRR psiRZ fpol fpolprime r z) /\
    is_derive (fun x => F_B2 psi psiR psiZ fpol r x) z (F_dB2dZ psi psiR psiZ psiZZ psiRZ fpol fpolprime r z).
  Proof.
    intros r z Hr.
    split; [eapply h_dBRdR; eauto|]. split; [eapply h_dBRdZ; eauto|]. split; [eapply h_dBZdR; eauto|]. split; [eapply h_dBZdZ; eauto|].
    split; [eapply h_dBzetadR; eauto|]. split; [eapply h_dBzetadZ; eauto|]. split; [eapply h_dB2dR; eauto | eapply h_dB2dZ; eauto].
  Qed.
  Theorem C18_dB : forall r z, r <> 0 -> 0 < F_B2 psi psiR psiZ fpol r z ->
    is_derive (fun x => sqrt (F_B2 psi psiR psiZ fpol x z)) r (F_dBdR psi psiR psiZ psiRR psiRZ fpol fpolprime r z) /\
    is_derive (fun x => sqrt (F_B2 psi psiR psiZ fpol r x)) z (F_dBdZ psi psiR psiZ psiZZ psiRZ fpol fpolprime r z).
  Proof. intros r z Hr Hp. split; [eapply h_dBdR; eauto | eapply h_dBdZ; eauto]. Qed.

  (* div B = 0 and grad(psi)/|grad(psi)|^2 . grad(psi) = 1, for any psi *)
  Theorem C18_divB : forall r z, r <> 0 -> F_spline_Bp_R psiZ r z / r + F_dBRdR psiZ psiRZ r z + F_dBZdZ psiRZ r z = 0.
  Proof. intros. apply divB. assumption. Qed.
  Theorem C18_f_gradpsi : forall r z, psiR r z * psiR r z + psiZ r z * psiZ r z <> 0 ->
    F_spline_f_R psiR psiZ r z * psiR r z + F_spline_f_Z psiR psiZ r z * psiZ r z = 1.
  Proof. intros. apply fRZ. assumption. Qed.
End C18.

(* TokamakEquilibrium.fpolprime is the psi-derivative of TokamakEquilibrium.fpol, for either direction of psi1D *)
Theorem C18_fpolprime : forall (f_spl fprime_spl : R -> R), (forall x, is_derive f_spl x (fprime_spl x)) ->
  forall s p, is_derive (F_tok_fpol f_spl s) p (F_tok_fpolprime fprime_spl s p).
Proof. intros. apply fpolprime_is_derivative. assumption. Qed.

Print Assumptions C18_dct_derivatives.
Print Assumptions C18_helpers.
Print Assumptions C18_divB.
Print Assumptions C18_fpolprime.
