"""equilibrium.py poloidal spacing functions (getSqrtPoloidalDistanceFunc, getMonotonicPoloidalDistanceFunc,
getLinearPoloidalDistanceFunc)  ->  coq/gen/Gen_Spacing.v: closed-form real functions of the inputs, one per branch and piece.
Path-directed symbolic execution of the function bodies; fail-closed."""
import ast
import os
import sys
from fractions import Fraction

sys.path.insert(0, os.path.dirname(os.path.abspath(__file__)))
import pyir
from pyir import Exec, TranslationError, get_function, src_of


class SExec(Exec):
    def expr(self, n):
        if isinstance(n, ast.BinOp) and isinstance(n.op, ast.Pow) and isinstance(n.right, ast.Constant) and n.right.value == 1.5:
            a = self.expr(n.left)
            return ("mul", a, ("call", "sqrt", (a,)))
        return super().expr(n)


def nodoc(body):
    return [s for s in body if not (isinstance(s, ast.Expr) and isinstance(s.value, ast.Constant))]


def run_path(stmts, ex, decisions, funcs, guards):
    """execute statements along `decisions`; collect nested FunctionDefs in funcs (name -> (node, env snapshot)) and `if c: raise` guards; return the Return node reached"""
    for s in stmts:
        if isinstance(s, ast.If):
            key = src_of(s.test)
            body = nodoc(s.body)
            if len(body) == 1 and isinstance(body[0], ast.Raise) and not s.orelse:
                guards.append(key)
                continue
            if key not in decisions:
                # an if/else made only of raising guards
                if all(isinstance(x, (ast.If, ast.Raise)) for x in ast.walk(ast.Module(body=s.body + s.orelse, type_ignores=[])) if isinstance(x, ast.stmt)):
                    guards.append("nested:" + key)
                    continue
                raise TranslationError(f"undecided branch `{key[:70]}`")
            r = run_path(s.body if decisions[key] else s.orelse, ex, decisions, funcs, guards)
            if r is not None:
                return r
        elif isinstance(s, ast.FunctionDef):
            funcs[s.name] = (s, dict(ex.env))
        elif isinstance(s, ast.Return):
            return s
        elif isinstance(s, (ast.Assign, ast.AugAssign)):
            ex.stmt(s)
        elif isinstance(s, ast.Raise):
            raise TranslationError("path reaches an unconditional raise")
        else:
            raise TranslationError(f"unsupported statement {type(s).__name__} at line {s.lineno}")
    return None


def func_expr(node, env, argname):
    """body of `def f(i): assignments...; return expr`  ->  IR in terms of the variable `i`"""
    if [a.arg for a in node.args.args] != [argname]:
        raise TranslationError(f"{node.name}: unexpected arguments")
    ex = SExec(strip=())
    ex.env = {k: v for k, v in env.items() if k != argname}
    body = nodoc(node.body)
    for s in body[:-1]:
        if not isinstance(s, ast.Assign):
            raise TranslationError(f"{node.name}: unexpected statement")
        ex.stmt(s)
    if not isinstance(body[-1], ast.Return):
        raise TranslationError(f"{node.name}: no return")
    LOCALS[node.name] = {k: v for k, v in ex.env.items() if k in ("A", "B")}
    return ex.expr(body[-1].value)


LOCALS = {}


def lambda_expr(lam, env, rename=None):
    arg = lam.args.args[0].arg
    ex = SExec(strip=(), name_map={arg: "i"} if arg != "i" else None)
    ex.env = {k: v for k, v in env.items() if k not in (arg, "i")}
    return ex.expr(lam.body)


def pieces(ret, env, funcs):
    """`return lambda i: expr` or `return lambda i: numpy.piecewise(i, [conds], [f...])` -> dict piece-name -> IR"""
    lam = ret.value
    if not (isinstance(lam, ast.Lambda) and [a.arg for a in lam.args.args] == ["i"]):
        raise TranslationError("branch does not return `lambda i: ...`")
    b = lam.body
    if isinstance(b, ast.Call) and src_of(b.func) == "numpy.piecewise":
        if src_of(b.args[0]) != "i" or not isinstance(b.args[1], ast.List) or not isinstance(b.args[2], ast.List):
            raise TranslationError("unexpected numpy.piecewise call")
        conds = [src_of(c) for c in b.args[1].elts]
        fs = b.args[2].elts
        if len(fs) != len(conds) + 1:
            raise TranslationError("piecewise: number of functions")
        out = {}
        for c, f in list(zip(conds, fs)) + [("main", fs[-1])]:
            nm = {"i < 0.0": "lower", "i > N": "upper", "main": "main"}.get(c)
            if nm is None:
                raise TranslationError(f"piecewise condition {c}")
            if isinstance(f, ast.Name):
                node, fenv = funcs[f.id]
                out[nm] = func_expr(node, fenv, "i")
            elif isinstance(f, ast.Lambda):
                out[nm] = lambda_expr(f, env)
            else:
                raise TranslationError(f"piecewise function {src_of(f)[:40]}")
        return out
    return {"main": lambda_expr(lam, env)}


def branch(fn, decisions):
    ex = SExec(strip=())
    funcs, guards = {}, []
    ret = run_path(nodoc(fn.body), ex, decisions, funcs, guards)
    if ret is None:
        raise TranslationError("path does not return")
    p = pieces(ret, ex.env, funcs)
    for k, v in p.items():
        op = pyir.find_opaque(v)
        if op:
            raise TranslationError(f"piece {k}: {op}")
    return p, guards, ex.env, funcs


def translate(repo):
    path = os.path.join(repo, "hypnotoad/core/equilibrium.py")
    out = {}
    sq = get_function(path, "EquilibriumRegion.getSqrtPoloidalDistanceFunc")
    base = {"b_lower is None and b_upper is None": False, "b_lower is None": False, "b_upper is None": False, "a_lower is None": False, "a_upper is None": False}
    for tag, dec in (("gen", {"a == 0.0": False, "b == 0.0": False, "a == 0.0 and b == 0.0": False}),
                     ("a0", {"a == 0.0": True, "b == 0.0": False, "a == 0.0 and b == 0.0": False}),
                     ("b0", {"a == 0.0": False, "b == 0.0": True, "a == 0.0 and b == 0.0": False}),
                     ("00", {"a == 0.0": True, "b == 0.0": True, "a == 0.0 and b == 0.0": True})):
        d = dict(base)
        d.update(dec)
        LOCALS.clear()
        p, g, env, funcs = branch(sq, d)
        for k, v in p.items():
            out[f"sqrt2_{tag}_{k}"] = v
        for fn_name, loc in LOCALS.items():
            if "B" in loc and fn_name.split("_")[0] in p:
                out[f"sqrt2_{tag}_{fn_name.split('_')[0]}_B"] = loc["B"]
        out[f"sqrt2_{tag}__guards"] = g
    # one-sided branches
    LOCALS.clear()
    p, g, env, funcs = branch(sq, {"b_lower is None and b_upper is None": False, "b_lower is None": True, "a_lower is not None": False, "a_upper is None": False})
    for k, v in p.items():
        out[f"sqrtU_{k}"] = v       # gradient given at the upper end only
    out["sqrtU_lower_B"] = LOCALS["lower_extrap"]["B"]
    LOCALS.clear()
    p, g, env, funcs = branch(sq, {"b_lower is None and b_upper is None": False, "b_lower is None": False, "b_upper is None": True, "a_lower is None": False, "a_upper is not None": False})
    for k, v in p.items():
        out[f"sqrtL_{k}"] = v
    out["sqrtL_upper_B"] = LOCALS["upper_extrap"]["B"]
    p, g, env, funcs = branch(sq, {"b_lower is None and b_upper is None": True, "a_lower is not None": False, "a_upper is not None": False})
    out["sqrt0_main"] = p["main"]
    # monotonic
    mo = get_function(path, "EquilibriumRegion.getMonotonicPoloidalDistanceFunc")
    top = [s for s in nodoc(mo.body) if isinstance(s, ast.If)]
    if len(top) != 1:
        raise TranslationError("getMonotonicPoloidalDistanceFunc: expected one if/else")
    test = src_of(top[0].test)
    if test != "length < 0.5 * (d_upper + d_lower) * N / N_norm - 1e-08 * length":
        raise TranslationError(f"getMonotonicPoloidalDistanceFunc: case test changed: {test}")
    p, g, env, funcs = branch(mo, {test: False})
    for k, v in p.items():
        out[f"mono_convex_{k}"] = v
    # concave case: l1 is the brentq root (kept as a variable); l2, l3, r2, r3 are functions of it that are then re-bound
    body = nodoc(top[0].body)
    names = [s.name if isinstance(s, ast.FunctionDef) else (src_of(s.targets[0]) if isinstance(s, ast.Assign) else type(s).__name__) for s in body]
    want = ["l2", "l3", "r2", "r3", "constraint", "l1", "l3", "l2", "r3", "r2", "If", "If", "If", "If", "If", "Return"]
    if names != want:
        raise TranslationError(f"concave case changed shape: {names}")
    if not src_of(body[5].value).startswith("brentq(constraint, 1e-15, 10000000000.0"):
        raise TranslationError(f"concave case: root finder call changed: {src_of(body[5].value)}")
    if [src_of(s.value) for s in body[6:10]] != ["l3(l1)", "l2(l1)", "r3(l1)", "r2(l1)"]:
        raise TranslationError("concave case: coefficient rebinding changed")
    fdefs = {s.name: s for s in body[:5]}

    def fex(name, env):
        node = fdefs[name]

        class C(SExec):
            def expr(self2, n):
                if isinstance(n, ast.Call) and src_of(n.func) in ("l2", "l3", "r2", "r3") and len(n.args) == 1 and src_of(n.args[0]) == "l1":
                    return env[src_of(n.func)]
                return super().expr(n)
        ex = C(strip=())
        b = nodoc(node.body)
        if len(b) != 1 or not isinstance(b[0], ast.Return) or [a.arg for a in node.args.args] != ["l1"]:
            raise TranslationError(f"concave {name}: unexpected body")
        return ex.expr(b[0].value)
    cenv = {}
    cenv["l2"] = fex("l2", cenv)
    cenv["l3"] = fex("l3", cenv)
    cenv["r2"] = fex("r2", cenv)
    cenv["r3"] = fex("r3", cenv)
    out["mono_concave_l2"], out["mono_concave_l3"], out["mono_concave_r2"], out["mono_concave_r3"] = cenv["l2"], cenv["l3"], cenv["r2"], cenv["r3"]
    out["mono_concave_constraint"] = fex("constraint", cenv)
    out["mono_concave_constraintv"] = fex("constraint", {k: ("var", k) for k in ("l2", "l3", "r2", "r3")})
    out["mono_concave__checks"] = [src_of(s.test) for s in body[10:15]]
    if out["mono_concave__checks"] != ["l1 <= 0.0", "l2 <= 0.0", "l3 <= 0.0", "r2 <= 0.0", "r3 <= 0.0"]:
        raise TranslationError(f"concave case: positivity checks changed: {out['mono_concave__checks']}")
    # the returned function in terms of variables l1, l2, l3, r2, r3 (theorems substitute the definitions)
    pp = pieces(body[15], {}, {})
    for k, v in pp.items():
        out[f"mono_concave_{k}"] = v
    # ---- how the constructors are called: the length is the distance between the region's start and end points, N = npoints - 1,
    #      N_norm = N_norm_prefactor * ny_total, and every constructed function goes through _checkMonotonic
    gr = ast.unparse(get_function(path, "EquilibriumRegion.getRegridded"))
    for frag in ["distance = self.get_distance(psi=psi)", "sfunc = self.getSfuncFixedSpacing(2 * self.ny_noguards + 1, distance[self.endInd] - distance[self.startInd])",
                 "super().getRegridded(2 * self.ny_noguards + 1, psi=psi, extend_lower=extend_lower, extend_upper=extend_upper, sfunc=sfunc, **kwargs)"]:
        if frag not in gr:
            raise TranslationError(f"EquilibriumRegion.getRegridded: expected statement missing: {frag}")
    fs = ast.unparse(get_function(path, "EquilibriumRegion.getSfuncFixedSpacing"))
    for frag in ["sfunc = self.getSqrtPoloidalDistanceFunc(distance, npoints - 1, self.user_options.N_norm_prefactor * self.ny_total, b_lower=spacings['sqrt_b_lower'], a_lower=spacings['sqrt_a_lower'], b_upper=spacings['sqrt_b_upper'], a_upper=spacings['sqrt_a_upper'])",
                 "self._checkMonotonic([(sfunc, 'sqrt')], total_distance=distance)",
                 "sfunc = self.getMonotonicPoloidalDistanceFunc(distance, npoints - 1, self.user_options.N_norm_prefactor * self.ny_total, d_lower=spacing_lower, d_upper=spacing_upper)",
                 "self._checkMonotonic([(sfunc, 'monotonic')], total_distance=distance)", "sfunc = self.getLinearPoloidalDistanceFunc(distance, npoints - 1)",
                 "self._checkMonotonic([(sfunc, 'linear')], total_distance=distance)"]:
        if frag not in fs:
            raise TranslationError(f"getSfuncFixedSpacing: expected statement missing: {frag}")
    # ---- the normalisation each site uses, as an expression of (N_norm_prefactor, ny_total): translated, theorem C10_normalisation
    def nnorm_ir(node, what):
        ex = SExec(strip=("self.user_options.", "self."))
        e = ex.expr(node)
        op = pyir.find_opaque(e)
        if op:
            raise TranslationError(f"N_norm in {what}: {op}")
        extra = pyir.free_vars(e) - {"N_norm_prefactor", "ny_total"}
        if extra:
            raise TranslationError(f"N_norm in {what} reads {sorted(extra)}")
        return e
    for fn, key in (("combineSfuncs", "Nnorm_combine"), ("getSfuncFixedPerpSpacing", "Nnorm_perp")):
        node = get_function(path, "EquilibriumRegion." + fn)
        asg = [x for x in ast.walk(node) if isinstance(x, ast.Assign) and len(x.targets) == 1 and isinstance(x.targets[0], ast.Name) and x.targets[0].id == "N_norm"]
        if len(asg) != 1:
            raise TranslationError(f"{fn}: expected exactly one assignment to N_norm, found {len(asg)}")
        out[key] = nnorm_ir(asg[0].value, fn)
        # ... and the constructor must be handed that variable
        uses = [c for c in ast.walk(node) if isinstance(c, ast.Call) and src_of(c.func) in ("self.getMonotonicPoloidalDistanceFunc", "self.getSqrtPoloidalDistanceFunc")]
        for c in uses:
            if len(c.args) < 3 or src_of(c.args[2]) != "N_norm":
                raise TranslationError(f"{fn}: a spacing-function constructor is not called with N_norm as its third argument")
    node = get_function(path, "EquilibriumRegion.getSfuncFixedSpacing")
    k = 0
    for c in ast.walk(node):
        if isinstance(c, ast.Call) and src_of(c.func) in ("self.getMonotonicPoloidalDistanceFunc", "self.getSqrtPoloidalDistanceFunc"):
            if len(c.args) < 3:
                raise TranslationError("getSfuncFixedSpacing: constructor call without a positional N_norm")
            out[f"Nnorm_fixed_{src_of(c.func).split('get')[1][:4].lower()}"] = nnorm_ir(c.args[2], "getSfuncFixedSpacing")
            k += 1
    if k != 2:
        raise TranslationError(f"getSfuncFixedSpacing: expected two constructor calls, found {k}")
    # ---- combineSfuncs: the radially varying blending ranges this_range_lower / this_range_upper, one expression per side of the separatrix
    #      (ix >= 0: outside, ix < 0: inside), as functions of (xweight, range at the separatrix, *_inner, *_outer)
    node = get_function(path, "EquilibriumRegion.combineSfuncs")
    found = {}
    for top in ast.walk(node):
        if not isinstance(top, ast.If) or src_of(top.test) != "ix >= 0":
            continue
        for side, body in (("out", top.body), ("in", top.orelse)):
            for st in body:
                if isinstance(st, ast.Assign) and len(st.targets) == 1 and isinstance(st.targets[0], ast.Name) and st.targets[0].id in ("this_range_lower", "this_range_upper"):
                    end = st.targets[0].id.split("_")[-1]
                    nm = {f"spacings['nonorthogonal_range_{end}']": "r_sep", f"spacings['nonorthogonal_range_{end}_inner']": "r_inner",
                          f"spacings['nonorthogonal_range_{end}_outer']": "r_outer"}

                    class Sub(ast.NodeTransformer):
                        def visit_Subscript(self, sub):
                            # a subscript that is not one of the three above (e.g. the OTHER end's parameter) must not be read here
                            if src_of(sub) not in nm:
                                raise TranslationError(f"combineSfuncs: this_range_{end} (ix {'>=' if side == 'out' else '<'} 0) reads {src_of(sub)}")
                            return ast.copy_location(ast.Name(id=nm[src_of(sub)], ctx=ast.Load()), sub)
                    import copy
                    val = ast.fix_missing_locations(Sub().visit(copy.deepcopy(st.value)))
                    ex = SExec(strip=())
                    e = ex.expr(val)
                    op = pyir.find_opaque(e)
                    if op:
                        raise TranslationError(f"combineSfuncs this_range_{end}: {op}")
                    key = f"Range_{end}_{side}"
                    if key in found:
                        raise TranslationError(f"combineSfuncs: {key} assigned twice")
                    found[key] = e
    if sorted(found) != ["Range_lower_in", "Range_lower_out", "Range_upper_in", "Range_upper_out"]:
        raise TranslationError(f"combineSfuncs: expected four blending-range assignments, found {sorted(found)}")
    out.update(found)
    cm = ast.unparse(get_function(path, "EquilibriumRegion._checkMonotonic"))
    for frag in ["indices = numpy.arange(-self.extend_lower, 2 * self.ny_noguards + self.extend_upper + 1, dtype=float)", "scheck = sfunc_list[0][0](indices)", "if numpy.any(scheck[1:] < scheck[:-1]):", "raise ValueError("]:
        if frag not in cm:
            raise TranslationError(f"_checkMonotonic: expected statement missing: {frag}")
    pg = ast.unparse(get_function(path, "PsiContour.getRegridded"))
    for frag in ["indices = numpy.linspace(-self.extend_lower, npoints - 1 + self.extend_upper, npoints + self.extend_lower + self.extend_upper)", "s = sfunc(indices)"]:
        if frag not in pg:
            raise TranslationError(f"PsiContour.getRegridded: expected statement missing: {frag}")
    li = get_function(path, "EquilibriumRegion.getLinearPoloidalDistanceFunc")
    p, g, env, funcs = branch(li, {})
    out["linear_main"] = p["main"]
    for k, v in out.items():
        if isinstance(v, tuple):
            op = pyir.find_opaque(v)
            if op:
                raise TranslationError(f"{k}: {op}")
    return out


def pr(e):
    k = e[0]
    if k == "var":
        return e[1]
    if k == "const":
        q = e[1]
        return f"({q.numerator})" if q.denominator == 1 else f"({q.numerator} / {q.denominator})"
    if k == "neg":
        return f"(- {pr(e[1])})"
    if k in ("add", "sub", "mul", "div"):
        return f"({pr(e[1])} {dict(add='+', sub='-', mul='*', div='/')[k]} {pr(e[2])})"
    if k == "pow":
        x = pr(e[1])
        return "(" + " * ".join([x] * e[2]) + ")" if e[2] >= 1 else "1"
    if k == "call":
        f = {"sqrt": "sqrt", "exp": "exp", "log": "ln", "abs": "Rabs"}.get(e[1])
        if f is None:
            raise TranslationError(f"function {e[1]}")
        return f"({f} {pr(e[2][0])})"
    raise TranslationError(k)


SQRT_IN = ["length", "N", "N_norm", "a_lower", "b_lower", "a_upper", "b_upper", "i"]
INPUTS = {"Nnorm": ["N_norm_prefactor", "ny_total"], "Range": ["xweight", "r_sep", "r_inner", "r_outer"], "sqrt2": SQRT_IN, "sqrtU": ["length", "N", "N_norm", "a_upper", "b_upper", "i"], "sqrtL": ["length", "N", "N_norm", "a_lower", "b_lower", "i"],
          "sqrt0": ["length", "N", "i"], "mono_convex": ["length", "N", "N_norm", "d_lower", "d_upper", "i"],
          "mono_concave": ["length", "N", "N_norm", "d_lower", "d_upper", "l1", "l2", "l3", "r2", "r3", "i"], "linear": ["length", "N", "i"]}


def inputs_for(name):
    for pre in sorted(INPUTS, key=len, reverse=True):
        if name.startswith(pre):
            if name == "mono_concave_constraintv":
                return ["length", "N", "N_norm", "d_lower", "d_upper", "l1", "l2", "l3", "r2", "r3"]
            if name in ("mono_concave_l2", "mono_concave_l3", "mono_concave_r2", "mono_concave_r3", "mono_concave_constraint"):
                return ["length", "N", "N_norm", "d_lower", "d_upper", "l1"]
            return INPUTS[pre]
    raise TranslationError(name)


def emit(repo):
    d = translate(repo)
    L = ["(* GENERATED by /verif/translate/spacing.py from equilibrium.py (poloidal spacing functions) -- do not edit.",
         "   One closed-form definition per branch and piece; S_sqrt2_<case>_<piece>: both end gradients given, case gen / a0 (no sqrt term at the lower end) /",
         "   b0 (none at the upper end) / 00; pieces main (0 <= i <= N), lower (i < 0), upper (i > N). *)",
         "From Coq Require Import Reals.", "Local Open Scope R_scope.", ""]
    for k in sorted(d):
        v = d[k]
        if not isinstance(v, tuple):
            continue
        ins = inputs_for(k)
        if k.endswith("_B"):
            ins = [x for x in ins if x != "i"]
        extra = pyir.free_vars(v) - set(ins)
        if extra:
            raise TranslationError(f"{k}: reads {sorted(extra)} which are not declared inputs")
        L.append(f"Definition S_{k} ({' '.join(ins)} : R) : R :=\n  {pr(v)}.\n")
    return "\n".join(L), d


if __name__ == "__main__":
    text, d = emit(sys.argv[1] if len(sys.argv) > 1 else "/repo")
    print(text)
