"""tokamak.py (connection tables, region ordering, segment lists) and mesh.py (BoutMesh.writeGridfile's
topology-integer ladder)  ->  coq/gen/Gen_Topo.v.    Fail-closed: any construct outside the small integer
language below raises TranslationError."""
import ast
import os
import sys

sys.path.insert(0, os.path.dirname(os.path.abspath(__file__)))
from pyir import TranslationError, get_function, src_of

INT_VARS = ["ixseps1", "ixseps2", "jyseps1_1", "jyseps2_1", "ny_inner", "jyseps1_2", "jyseps2_2"]
NAME_MAP = {"self.nx": "nx", "self.ny": "ny", "self.ny_noguards": "ny_noguards", "eq_region0.separatrix_radial_index": "sepidx"}
LISTS = {"self.x_startinds": "xs", "self.y_regions_noguards": "ys"}


# ------------------------------------------------------------------ integer expression language
def iexpr(n, env):
    if isinstance(n, ast.Constant) and isinstance(n.value, int) and not isinstance(n.value, bool):
        return ("c", n.value)
    if isinstance(n, ast.UnaryOp) and isinstance(n.op, ast.USub):
        return ("neg", iexpr(n.operand, env))
    s = src_of(n)
    if isinstance(n, ast.Name):
        if n.id in env:
            return env[n.id]
        raise TranslationError(f"integer ladder reads unassigned/unknown name {n.id}")
    if s in NAME_MAP:
        return ("v", NAME_MAP[s])
    if isinstance(n, ast.BinOp):
        op = {ast.Add: "add", ast.Sub: "sub", ast.Mult: "mul", ast.FloorDiv: "fdiv"}.get(type(n.op))
        if op is None:
            raise TranslationError(f"operator not supported in integer ladder: {s}")
        return (op, iexpr(n.left, env), iexpr(n.right, env))
    if isinstance(n, ast.Subscript) and src_of(n.value) in LISTS and isinstance(n.slice, ast.Constant) and isinstance(n.slice.value, int):
        return ("idx", LISTS[src_of(n.value)], n.slice.value)
    if isinstance(n, ast.Call) and src_of(n.func) == "sum" and len(n.args) == 1:
        a = n.args[0]
        if (isinstance(a, ast.Subscript) and src_of(a.value) in LISTS and isinstance(a.slice, ast.Slice) and a.slice.lower is None
                and a.slice.step is None and isinstance(a.slice.upper, ast.Constant) and isinstance(a.slice.upper.value, int) and a.slice.upper.value >= 0):
            return ("sumfirst", LISTS[src_of(a.value)], a.slice.upper.value)
    if isinstance(n, ast.Call) and src_of(n.func) == "len" and len(n.args) == 1 and src_of(n.args[0]) in LISTS:
        return ("len", LISTS[src_of(n.args[0])])
    raise TranslationError(f"expression not supported in integer ladder: {s}")


def icond(n, env):
    if isinstance(n, ast.Compare) and len(n.ops) == 1 and isinstance(n.ops[0], (ast.Eq, ast.NotEq)):
        l, r = n.left, n.comparators[0]
        neg = isinstance(n.ops[0], ast.NotEq)
        if src_of(l) == "self.equilibrium.double_null_type" and isinstance(r, ast.Constant) and isinstance(r.value, str):
            code = {"connected": 0, "lower": 1, "upper": 2}.get(r.value)
            if code is None:
                raise TranslationError(f"unknown double_null_type literal {r.value!r}")
            c = ("eq", ("v", "dn"), ("c", code))
        else:
            c = ("eq", iexpr(l, env), iexpr(r, env))
        return ("not", c) if neg else c
    raise TranslationError(f"condition not supported in integer ladder: {src_of(n)}")


def exec_block(stmts, env, k):
    """Symbolic execution producing a decision tree.  k(env) continues after the block."""
    if not stmts:
        return k(env)
    s, rest = stmts[0], stmts[1:]
    if isinstance(s, ast.Assign) and len(s.targets) == 1 and isinstance(s.targets[0], ast.Name):
        e2 = dict(env)
        e2[s.targets[0].id] = iexpr(s.value, env)
        return exec_block(rest, e2, k)
    if isinstance(s, ast.If):
        c = icond(s.test, env)
        return ("if", c, exec_block(s.body + rest, env, k), exec_block(s.orelse + rest, env, k))
    if isinstance(s, ast.Raise):
        return ("raise",)
    if isinstance(s, ast.Expr) and isinstance(s.value, ast.Constant):
        return exec_block(rest, env, k)
    raise TranslationError(f"statement not supported in integer ladder: {src_of(s)[:70]}")


def ladder(path):
    fn = get_function(path, "BoutMesh.writeGridfile")
    # the statements between `eq_region0 = ...` and the first f.write("ixseps1", ...)
    body = None
    for node in ast.walk(fn):
        if isinstance(node, ast.With):
            body = node.body
            break
    if body is None:
        raise TranslationError("writeGridfile: no `with DataFile(...)` block")
    start = end = None
    for i, s in enumerate(body):
        if isinstance(s, ast.Assign) and src_of(s.targets[0]) == "eq_region0":
            start = i + 1
        if isinstance(s, ast.Expr) and src_of(s).startswith("f.write('ixseps1'"):
            end = i
            break
    if start is None or end is None:
        raise TranslationError("writeGridfile: cannot delimit the topology-integer ladder")
    stmts = body[start:end]
    for s in stmts:
        if not isinstance(s, (ast.If, ast.Assign)):
            raise TranslationError(f"unexpected statement in the ladder: {src_of(s)[:60]}")
    # the writes that follow must write exactly these variables under these names
    written = {}
    for s in body[end:end + 7]:
        m = src_of(s)
        if isinstance(s, ast.Expr) and m.startswith("f.write("):
            call = s.value
            written[call.args[0].value] = src_of(call.args[1])
    for v in INT_VARS:
        if written.get(v) != v:
            raise TranslationError(f"writeGridfile does not write {v} from the variable {v}: {written.get(v)}")

    def leaf(env):
        missing = [v for v in INT_VARS if v not in env]
        if missing:
            return ("raise",)
        return ("leaf", [env[v] for v in INT_VARS])
    return exec_block(stmts, {}, leaf), "\n".join(src_of(s) for s in stmts)


def ie(e):
    k = e[0]
    if k == "c":
        return f"({e[1]})"
    if k == "v":
        return e[1]
    if k == "neg":
        return f"(- {ie(e[1])})"
    if k in ("add", "sub", "mul"):
        return f"({ie(e[1])} {dict(add='+', sub='-', mul='*')[k]} {ie(e[2])})"
    if k == "fdiv":
        return f"({ie(e[1])} / {ie(e[2])})"
    if k == "idx":
        return f"(nthZ {e[1]} {e[2]}%nat)"
    if k == "sumfirst":
        return f"(sumfirst {e[1]} {e[2]}%nat)"
    if k == "len":
        return f"(Zlength {e[1]})"
    raise TranslationError(k)


def ce(c):
    if c[0] == "not":
        return f"(negb {ce(c[1])})"
    return f"({ie(c[1])} =? {ie(c[2])})"


def tree(t, ind=2):
    p = " " * ind
    if t[0] == "raise":
        return p + "None"
    if t[0] == "leaf":
        return p + "Some (mkints " + " ".join(ie(x) for x in t[1]) + ")"
    return f"{p}if {ce(t[1])}\n{p}then\n{tree(t[2], ind + 2)}\n{p}else\n{tree(t[3], ind + 2)}"


# ------------------------------------------------------------------ tables
def literal_lists(fn, name):
    out = []
    for node in ast.walk(fn):
        if isinstance(node, ast.Assign) and len(node.targets) == 1 and src_of(node.targets[0]) == name and isinstance(node.value, ast.List):
            out.append((node.lineno, node.value))
    return [v for _, v in sorted(out, key=lambda x: x[0])]


def conn_table(lst):
    rows = []
    for el in lst.elts:
        if not (isinstance(el, ast.Tuple) and len(el.elts) == 4):
            raise TranslationError(f"connection entry is not a 4-tuple: {src_of(el)}")
        a, i, b, j = el.elts
        if not all(isinstance(x, ast.Constant) for x in el.elts):
            raise TranslationError(f"connection entry is not literal: {src_of(el)}")
        rows.append((a.value, i.value, b.value, j.value))
    return rows


def tables(repo):
    path = os.path.join(repo, "hypnotoad/cases/tokamak.py")
    sn = literal_lists(get_function(path, "TokamakEquilibrium.describeSingleNull"), "connections")
    dn = literal_lists(get_function(path, "TokamakEquilibrium.describeDoubleNull"), "connections")
    if len(sn) != 2 or len(dn) != 3:
        raise TranslationError(f"expected 2 single-null and 3 double-null connection tables, found {len(sn)} and {len(dn)}")
    orderings = literal_lists(get_function(path, "TokamakEquilibrium.createRegionObjects"), "ordering")
    if len(orderings) != 3:
        raise TranslationError(f"expected 3 region orderings, found {len(orderings)}")
    ords = [[e.value for e in o.elts] for o in orderings]
    T = {"lsn": conn_table(sn[0]), "usn": conn_table(sn[1]), "cdn": conn_table(dn[0]), "ldn": conn_table(dn[1]), "udn": conn_table(dn[2])}
    return T, {"default": ords[0], "upper_outer": ords[1], "usn": ords[2]}


def xpoint_table(repo):
    """hypnotoad/cases/torpex.py, TORPEXMagneticField.makeRegions: the four legs of an isolated X-point (order = the literal list `legnames`,
    in which the regions dictionary is filled) and the makeConnection calls"""
    path = os.path.join(repo, "hypnotoad/cases/torpex.py")
    fn = get_function(path, "TORPEXMagneticField.makeRegions")
    names = literal_lists(fn, "legnames")
    if len(names) != 1 or not all(isinstance(e, ast.Constant) and isinstance(e.value, str) for e in names[0].elts):
        raise TranslationError("torpex.makeRegions: expected one literal list `legnames`")
    order = [e.value for e in names[0].elts]
    # the regions dictionary must be filled in that order: `name = legnames[i]` ... `self.regions[name] = ...` inside one loop over enumerate(...)
    src = ast.unparse(fn)
    for frag in ("name = legnames[i]", "self.regions[name] = leg.getRefined(psi=self.psi)", "self.regions = OrderedDict()"):
        if frag not in src:
            raise TranslationError(f"torpex.makeRegions: expected statement missing: {frag}")
    rows = []
    for c in ast.walk(fn):
        if isinstance(c, ast.Call) and src_of(c.func) == "self.makeConnection":
            if len(c.args) != 4 or not all(isinstance(a, ast.Constant) for a in c.args):
                raise TranslationError(f"torpex.makeRegions: makeConnection call is not literal: {src_of(c)}")
            rows.append((c.lineno, tuple(a.value for a in c.args)))
    rows = [r for _, r in sorted(rows)]
    if len(rows) != 4:
        raise TranslationError(f"torpex.makeRegions: expected 4 connections, found {len(rows)}")
    for a, i, b, j in rows:
        if a not in order or b not in order:
            raise TranslationError(f"torpex.makeRegions: connection names an unknown region: {(a, i, b, j)}")
    return order, rows


def region_order(table, ordering):
    names = {r for a, _, b, _ in table for r in (a, b)}
    return [r for r in ordering if r in names]


def emit(repo):
    mesh = os.path.join(repo, "hypnotoad/core/mesh.py")
    t, src = ladder(mesh)
    T, ords = tables(repo)
    L = ["(* GENERATED by /verif/translate/topo.py from hypnotoad/core/mesh.py (BoutMesh.writeGridfile) and",
         "   hypnotoad/cases/tokamak.py (describeSingleNull / describeDoubleNull / createRegionObjects) -- do not edit. *)",
         "From Coq Require Import ZArith List Bool.", "From HT Require Import TopoLib.", "Import ListNotations.", "Local Open Scope Z_scope.", "",
         "(* xs = x_startinds, ys = y_regions_noguards, ny = BoutMesh.ny (WITH guards), dn = double_null_type code",
         "   (0 connected/none, 1 lower, 2 upper), sepidx = separatrix_radial_index of the first region *)",
         "Definition topo_ints (xs ys : list Z) (nx ny ny_noguards dn sepidx : Z) : option ints :=", tree(t) + ".", ""]
    info = {"tables": {}}
    for name, table in T.items():
        order = region_order(table, ords["usn"] if name == "usn" else ords["default"])
        idx = {r: i for i, r in enumerate(order)}
        rows = "; ".join(f"(({idx[a]}, {i}), ({idx[b]}, {j}))%nat" for a, i, b, j in table)
        L.append(f"(* regions in output order: {order} *)")
        L.append(f"Definition conn_{name} : list ((nat * nat) * (nat * nat)) := [{rows}].")
        L.append(f"Definition nregions_{name} : nat := {len(order)}%nat.")
        info["tables"][name] = {"order": order, "connections": table}
        if name in ("lsn", "cdn", "ldn", "udn"):
            order2 = region_order(table, ords["upper_outer"])
            idx2 = {r: i for i, r in enumerate(order2)}
            rows2 = "; ".join(f"(({idx2[a]}, {i}), ({idx2[b]}, {j}))%nat" for a, i, b, j in table)
            L.append(f"(* start_at_upper_outer order: {order2} *)")
            L.append(f"Definition conn_{name}_uo : list ((nat * nat) * (nat * nat)) := [{rows2}].")
            info["tables"][name + "_uo"] = {"order": order2, "connections": table}
        L.append("")
    # the isolated X-point topology (TORPEX): four legs, all ending on the wall
    xorder, xrows = xpoint_table(repo)
    xidx = {r: i for i, r in enumerate(xorder)}
    L.append(f"(* isolated X-point (torpex.py), regions in output order: {xorder} *)")
    L.append("Definition conn_xpt : list ((nat * nat) * (nat * nat)) := [" + "; ".join(f"(({xidx[a]}, {i}), ({xidx[b]}, {j}))%nat" for a, i, b, j in xrows) + "].")
    L.append("Definition nregions_xpt : nat := 4%nat.")
    L.append("")
    info["tables"]["xpt"] = {"order": xorder, "connections": xrows}
    info["ladder_source"] = src
    info["orderings"] = ords
    return "\n".join(L), info


if __name__ == "__main__":
    text, info = emit(sys.argv[1] if len(sys.argv) > 1 else "/repo")
    print(text)
