"""utils/critical.py (find_critical) and the X-point selection of tokamak.py -> coq/gen/Gen_Critical.v.
The Newton residual / Jacobian and the finite-difference discriminant are translated as expressions; the loop structure, thresholds,
de-duplication, filters and sort keys are checked against their exact expected form and emitted as constants.  Fail-closed."""
import ast
import os
import sys
from fractions import Fraction

sys.path.insert(0, os.path.dirname(os.path.abspath(__file__)))
from pyir import TranslationError, get_function, src_of


def sx(n, sym):
    t = src_of(n)
    if t in sym:
        return sym[t]
    if isinstance(n, ast.Constant) and isinstance(n.value, (int, float)) and not isinstance(n.value, bool):
        return ("const", Fraction(repr(n.value)) if isinstance(n.value, float) else Fraction(n.value))
    if isinstance(n, ast.UnaryOp) and isinstance(n.op, ast.USub):
        return ("neg", sx(n.operand, sym))
    if isinstance(n, ast.BinOp):
        if isinstance(n.op, ast.Pow) and isinstance(n.right, ast.Constant) and n.right.value in (2, 2.0):
            a = sx(n.left, sym)
            return ("mul", a, a)
        op = {ast.Add: "add", ast.Sub: "sub", ast.Mult: "mul", ast.Div: "div"}.get(type(n.op))
        if op:
            return (op, sx(n.left, sym), sx(n.right, sym))
    raise TranslationError(f"unexpected term `{t[:70]}`")


def pr(e):
    k = e[0]
    if k == "var":
        return e[1]
    if k == "const":
        q = e[1]
        return f"({q.numerator})" if q.denominator == 1 else f"({q.numerator} / {q.denominator})"
    if k == "neg":
        return f"(- {pr(e[1])})"
    if k == "samp":
        return f"(p ({e[1]})%Z ({e[2]})%Z)"
    return f"({pr(e[1])} {dict(add='+', sub='-', mul='*', div='/')[k]} {pr(e[2])})"


def translate(repo):
    path = os.path.join(repo, "hypnotoad/utils/critical.py")
    fn = get_function(path, "find_critical")
    src = "\n".join(l.strip() for l in ast.unparse(fn).splitlines())
    d = {}
    # ---- candidate search: strict local minima of Bp^2 over the 8 neighbours, indices 2 .. n-3
    for frag in ["f = interpolate.RectBivariateSpline(R[:, 0], Z[0, :], psi)", "Bp2 = (f(R, Z, dx=1, grid=False) ** 2 + f(R, Z, dy=1, grid=False) ** 2) / R ** 2",
                 "radius_sq = 9 * (dR ** 2 + dZ ** 2)", "for i in range(2, nx - 2):", "for j in range(2, ny - 2):",
                 "if Bp2[i, j] < Bp2[i + 1, j + 1] and Bp2[i, j] < Bp2[i + 1, j] and (Bp2[i, j] < Bp2[i + 1, j - 1]) and (Bp2[i, j] < Bp2[i - 1, j + 1]) and (Bp2[i, j] < Bp2[i - 1, j]) and (Bp2[i, j] < Bp2[i - 1, j - 1]) and (Bp2[i, j] < Bp2[i, j + 1]) and (Bp2[i, j] < Bp2[i, j - 1]):",
                 "R0 = R[i, j]", "Z0 = Z[i, j]", "if Br ** 2 + Bz ** 2 < atol:", "d = dot(inv(J), [Br, Bz])", "R1 = R1 - d[0]", "Z1 = Z1 - d[1]",
                 "if (R1 - R0) ** 2 + (Z1 - Z0) ** 2 > radius_sq or count > maxits:", "if D < 0.0:", "xpoint.append((R1, Z1, f(R1, Z1)[0][0]))", "opoint.append((R1, Z1, f(R1, Z1)[0][0]))",
                 "if (p[0] - p2[0]) ** 2 + (p[1] - p2[1]) ** 2 < 1e-05:", "xpoint = remove_dup(xpoint)", "opoint = remove_dup(opoint)",
                 "Rmid = 0.5 * (R[-1, 0] + R[0, 0])", "Zmid = 0.5 * (Z[0, -1] + Z[0, 0])", "opoint.sort(key=lambda x: (x[0] - Rmid) ** 2 + (x[1] - Zmid) ** 2)",
                 "rline = linspace(Ro, Rx, num=50)", "if Px < Po:\npline *= -1.0", "if (maxp - pline[-1]) / (maxp - pline[0]) > 0.001:\ncontinue",
                 "if (rline[ind] - Ro) ** 2 + (zline[ind] - Zo) ** 2 > 0.0001:\ncontinue", "xpoint.sort(key=lambda x: (x[2] - psi_axis) ** 2)", "return (opoint, xpoint)"]:
        if frag not in src:
            raise TranslationError(f"find_critical: expected statement missing: {frag[:90]}")
    # ---- remove_dup: every candidate is compared with EVERY point kept so far (the model's exactly-once theorem is about this loop)
    rd = [n for n in ast.walk(fn) if isinstance(n, ast.FunctionDef) and n.name == "remove_dup"]
    if len(rd) != 1:
        raise TranslationError("find_critical: nested function remove_dup not found")
    norm = lambda t: "".join(ch for ch in t if ch not in " \n()")
    want = ("def remove_dup(points): result = [] for n, p in enumerate(points): dup = False for p2 in result: if (p[0] - p2[0]) ** 2 + (p[1] - p2[1]) ** 2 < 1e-05: dup = True break "
            "if not dup: result.append(p) return result")
    got = norm(ast.unparse(ast.Module(body=[s_ for s_ in rd[0].body if not (isinstance(s_, ast.Expr) and isinstance(s_.value, ast.Constant))], type_ignores=[])))
    if got != norm(want.split(":", 1)[1]):
        raise TranslationError("find_critical.remove_dup: the duplicate-removal loop is not the modelled one (each candidate against every kept point)")
    # ---- Newton residual and Jacobian
    sym = {"R1": ("var", "r"), "f(R1, Z1, dy=1, grid=False)": ("var", "fZ"), "f(R1, Z1, dx=1, grid=False)": ("var", "fR"), "Br": ("var", "Br"), "Bz": ("var", "Bz"),
           "f(R1, Z1, dy=1, dx=1)[0][0]": ("var", "fRZ"), "f(R1, Z1, dx=1, dy=1)[0][0]": ("var", "fRZ"), "f(R1, Z1, dy=2)[0][0]": ("var", "fZZ"), "f(R1, Z1, dx=2)": ("var", "fRR"),
           "f(R1, Z1, dx=2)[0][0]": ("var", "fRR")}
    found = {}
    for n in ast.walk(fn):
        if isinstance(n, ast.Assign) and len(n.targets) == 1:
            t = src_of(n.targets[0])
            if t in ("Br", "Bz", "J[0, 0]", "J[0, 1]", "J[1, 0]", "J[1, 1]"):
                if t in found:
                    raise TranslationError(f"{t} assigned twice")
                found[t] = sx(n.value, sym)
    for t in ("Br", "Bz", "J[0, 0]", "J[0, 1]", "J[1, 0]", "J[1, 1]"):
        if t not in found:
            raise TranslationError(f"{t} not found")
    d.update(Br=found["Br"], Bz=found["Bz"], J00=found["J[0, 0]"], J01=found["J[0, 1]"], J10=found["J[1, 0]"], J11=found["J[1, 1]"])
    # ---- the discriminant actually used: the `if True:` block
    blocks = [n for n in ast.walk(fn) if isinstance(n, ast.If) and src_of(n.test) == "True" and any(isinstance(s, ast.Assign) and src_of(s.targets[0]) == "D" for s in n.body)]
    if len(blocks) != 1:
        raise TranslationError("find_critical: cannot find the active discriminant block")
    live_D = [n for n in ast.walk(fn) if isinstance(n, ast.Assign) and src_of(n.targets[0]) == "D"]
    dead = [n for n in ast.walk(fn) if isinstance(n, ast.If) and src_of(n.test) == "False"]
    dead_nodes = {id(x) for b in dead for x in ast.walk(b)}
    if [id(x) for x in live_D if id(x) not in dead_nodes] != [id(s) for s in blocks[0].body if isinstance(s, ast.Assign) and src_of(s.targets[0]) == "D"]:
        raise TranslationError("find_critical: more than one live assignment of D")

    class Samp(dict):
        pass

    def samp(n):
        t = src_of(n)
        import re
        m = re.fullmatch(r"psi\[i( [+-] \d)?, j( [+-] \d)?\]", t)
        if m:
            a = int(m.group(1).replace(" ", "")) if m.group(1) else 0
            b = int(m.group(2).replace(" ", "")) if m.group(2) else 0
            return ("samp", a, b)
        return None

    def dx(n, env):
        s = samp(n)
        if s:
            return s
        t = src_of(n)
        if t in env:
            return env[t]
        if t in ("dR", "dZ"):
            return ("var", t)
        if isinstance(n, ast.Constant) and isinstance(n.value, (int, float)):
            return ("const", Fraction(repr(n.value)) if isinstance(n.value, float) else Fraction(n.value))
        if isinstance(n, ast.BinOp):
            if isinstance(n.op, ast.Pow) and isinstance(n.right, ast.Constant) and n.right.value in (2, 2.0):
                a = dx(n.left, env)
                return ("mul", a, a)
            op = {ast.Add: "add", ast.Sub: "sub", ast.Mult: "mul", ast.Div: "div"}.get(type(n.op))
            if op:
                return (op, dx(n.left, env), dx(n.right, env))
        raise TranslationError(f"discriminant: unexpected term `{t[:60]}`")
    env = {}
    for s in blocks[0].body:
        if not isinstance(s, ast.Assign):
            raise TranslationError("discriminant block: unexpected statement")
        t = src_of(s.targets[0])
        if t in ("dR", "dZ"):
            if src_of(s.value) not in ("R[1, 0] - R[0, 0]", "Z[0, 1] - Z[0, 0]"):
                raise TranslationError("discriminant block: grid spacing definition changed")
            continue
        env[t] = dx(s.value, env)
    d["D"] = env["D"]
    # ---- tokamak.py: selection of X-points, single/double null, inner/outer legs
    tk = os.path.join(repo, "hypnotoad/cases/tokamak.py")
    mr = "\n".join(l.strip() for l in ast.unparse(get_function(tk, "TokamakEquilibrium.makeRegions")).splitlines())
    for frag in ["self.psi_sep, self.x_points = zip(*((psi, xpoint) for psi, xpoint in zip(self.psi_sep, self.x_points) if self._psi_to_psinorm(psi) < self._psi_to_psinorm(self.psi_sol) and inside_wall(xpoint)))",
                 "if not 0 < len(self.x_points) <= 2:\nraise ValueError(", "if len(self.x_points) == 1:\nleg_regions, core_regions, segments, connections = self.describeSingleNull()",
                 "else:\nleg_regions, core_regions, segments, connections = self.describeDoubleNull()",
                 "return not polygons.intersect([Rc, point.R], [Zc, point.Z], Rws, Zws)"]:
        if frag not in mr:
            raise TranslationError(f"makeRegions: expected statement missing: {frag[:90]}")
    pn = ast.unparse(get_function(tk, "TokamakEquilibrium._psi_to_psinorm"))
    if "return (psi - self.psi_axis) / (self.psi_sep[0] - self.psi_axis)" not in pn:
        raise TranslationError("_psi_to_psinorm changed")
    fl = "\n".join(l.strip() for l in ast.unparse(get_function(tk, "TokamakEquilibrium.findLegs")).splitlines())
    if "if leg_lines[0][-1].R > leg_lines[1][-1].R:\nleg_lines = leg_lines[::-1]\nreturn {'inner': leg_lines[0], 'outer': leg_lines[1]}" not in fl:
        raise TranslationError("findLegs: inner/outer ordering changed")
    init = ast.unparse(get_function(tk, "TokamakEquilibrium.__init__"))
    for frag in ["self.psi_axis = opoints[0][2]", "self.o_point = Point2D(opoints[0][0], opoints[0][1])", "self.psi_bdry = xpoints[0][2]", "self.x_points = [Point2D(r, z) for r, z, psi in xpoints]", "self.psi_sep = [psi for r, z, psi in xpoints]"]:
        if frag not in init:
            raise TranslationError(f"TokamakEquilibrium.__init__: expected statement missing: {frag}")
    return d


def emit(repo):
    d = translate(repo)
    L = ["(* GENERATED by /verif/translate/critical.py from utils/critical.py (find_critical) -- do not edit. *)", "From Coq Require Import Reals ZArith.", "Local Open Scope R_scope.", "",
         "(* residual of the Newton iteration and its matrix, in terms of the interpolant's value/derivative evaluations at the current point (r, z) *)",
         f"Definition C_Br (r fR fZ : R) : R := {pr(d['Br'])}.", f"Definition C_Bz (r fR fZ : R) : R := {pr(d['Bz'])}.",
         f"Definition C_J00 (r Br Bz fRR fRZ fZZ : R) : R := {pr(d['J00'])}.", f"Definition C_J01 (r Br Bz fRR fRZ fZZ : R) : R := {pr(d['J01'])}.",
         f"Definition C_J10 (r Br Bz fRR fRZ fZZ : R) : R := {pr(d['J10'])}.", f"Definition C_J11 (r Br Bz fRR fRZ fZZ : R) : R := {pr(d['J11'])}.",
         "(* the discriminant that classifies an accepted point: finite differences of the INPUT array around the grid node (i, j) the search started from;",
         "   p a b = psi[i + a, j + b] *)",
         f"Definition C_D (p : Z -> Z -> R) (dR dZ : R) : R := {pr(d['D'])}.",
         "(* thresholds (checked against the source text) *)",
         "Definition C_dup_radius_sq : R := 1 / 100000.", "Definition C_search_radius_factor : R := 9.", "Definition C_first_index : Z := 2%Z.", ""]
    return "\n".join(L), d


if __name__ == "__main__":
    print(emit(sys.argv[1] if len(sys.argv) > 1 else "/repo")[0])
