"""MeshRegion.geometry1 (field magnitudes, the sign decision), TokamakEquilibrium leg-pressure closure and profile
extrapolation  ->  coq/gen/Gen_Geom1.v.  Fail-closed: every statement the theorems talk about is either translated
from its AST or compared with an exact expected form."""
import ast
import os
import sys
from fractions import Fraction

sys.path.insert(0, os.path.dirname(os.path.abspath(__file__)))
from pyir import TranslationError, get_function, src_of


def sexpr(n, sym, funcs=("sqrt", "exp", "abs")):
    """arithmetic over named sub-expressions (matched by their source text)"""
    t = src_of(n)
    if t in sym:
        return ("var", sym[t])
    if isinstance(n, ast.Constant) and isinstance(n.value, (int, float)) and not isinstance(n.value, bool):
        return ("const", Fraction(repr(n.value)) if isinstance(n.value, float) else Fraction(n.value))
    if isinstance(n, ast.UnaryOp) and isinstance(n.op, ast.USub):
        return ("neg", sexpr(n.operand, sym))
    if isinstance(n, ast.BinOp):
        if isinstance(n.op, ast.Pow):
            if isinstance(n.right, ast.Constant) and n.right.value in (2, 2.0):
                return ("pow", sexpr(n.left, sym), 2)
            raise TranslationError(f"power {t}")
        op = {ast.Add: "add", ast.Sub: "sub", ast.Mult: "mul", ast.Div: "div"}.get(type(n.op))
        if op:
            return (op, sexpr(n.left, sym), sexpr(n.right, sym))
    if isinstance(n, ast.Call) and len(n.args) == 1 and not n.keywords:
        f = src_of(n.func)
        base = f.split(".")[-1]
        if (f in ("abs",) or f.startswith("numpy.") or f.startswith("np.")) and base in funcs:
            return (base, sexpr(n.args[0], sym))
    raise TranslationError(f"unexpected term `{t[:70]}`")


def pr(e):
    k = e[0]
    if k == "var":
        return e[1]
    if k == "const":
        q = e[1]
        return f"({q.numerator})" if q.denominator == 1 else f"({q.numerator} / {q.denominator})"
    if k == "neg":
        return f"(- {pr(e[1])})"
    if k in ("add", "sub", "mul", "div"):
        return f"({pr(e[1])} {dict(add='+', sub='-', mul='*', div='/')[k]} {pr(e[2])})"
    if k == "pow":
        return f"({pr(e[1])} * {pr(e[1])})"
    if k in ("sqrt", "exp"):
        return f"({k} {pr(e[1])})"
    if k == "abs":
        return f"(Rabs {pr(e[1])})"
    raise TranslationError(k)


def py_eval(e, env):
    import math
    k = e[0]
    if k == "var":
        return env[e[1]]
    if k == "const":
        return float(e[1])
    if k == "neg":
        return -py_eval(e[1], env)
    if k in ("add", "sub", "mul", "div"):
        a, b = py_eval(e[1], env), py_eval(e[2], env)
        return a + b if k == "add" else a - b if k == "sub" else a * b if k == "mul" else a / b
    if k == "pow":
        return py_eval(e[1], env) ** 2
    if k == "sqrt":
        return math.sqrt(py_eval(e[1], env))
    if k == "exp":
        return math.exp(py_eval(e[1], env))
    if k == "abs":
        return abs(py_eval(e[1], env))
    raise TranslationError(k)


def nodoc(body):
    return [s for s in body if not (isinstance(s, ast.Expr) and (isinstance(s.value, ast.Constant) or (isinstance(s.value, ast.Call) and src_of(s.value.func) == "print")))]


def cmp0(test, var):
    """`<var> < 0.0` / `<var> > 0.0`  ->  'lt' / 'gt'"""
    if isinstance(test, ast.Compare) and len(test.ops) == 1 and src_of(test.left) == var and src_of(test.comparators[0]) in ("0.0", "0"):
        op = {ast.Lt: "lt", ast.Gt: "gt", ast.LtE: "le", ast.GtE: "ge"}.get(type(test.ops[0]))
        if op:
            return op
    raise TranslationError(f"unexpected test `{src_of(test)}` (expected a comparison of {var} with 0)")


def raise_guard(stmts):
    """a list of statements that is exactly [`if self.bpsign <op> 0.0: raise ...`] (or empty) -> op or None"""
    stmts = nodoc(stmts)
    if not stmts:
        return None
    if len(stmts) == 1 and isinstance(stmts[0], ast.If) and not stmts[0].orelse and len(nodoc(stmts[0].body)) == 1 and isinstance(nodoc(stmts[0].body)[0], ast.Raise):
        return cmp0(stmts[0].test, "self.bpsign")
    raise TranslationError("geometry1: the bpsign consistency guard changed shape")


def geometry1(path):
    fn = get_function(path, "MeshRegion.geometry1")
    d = {}
    assigns = {}
    for s in fn.body:
        if isinstance(s, ast.Assign) and len(s.targets) == 1:
            assigns.setdefault(src_of(s.targets[0]), []).append(s)
    for tgt, want in (("self.Brxy", "self.meshParent.equilibrium.Bp_R(self.Rxy, self.Zxy)"), ("self.Bzxy", "self.meshParent.equilibrium.Bp_Z(self.Rxy, self.Zxy)"),
                      ("self.psixy", "self.meshParent.equilibrium.psi(self.Rxy, self.Zxy)")):
        if tgt not in assigns or len(assigns[tgt]) != 1 or src_of(assigns[tgt][0].value) != want:
            raise TranslationError(f"geometry1: {tgt} is not {want}")
    sym = {"self.Brxy": "Br", "self.Bzxy": "Bz", "self.Bpxy": "Bp", "self.Btxy": "Bt", "self.Rxy": "Rx",
           "self.meshParent.equilibrium.fpol(self.psixy)": "fp"}
    for tgt, key in (("self.Bpxy", "Bp_mag"), ("self.Btxy", "Bt"), ("self.Bxy", "B")):
        if tgt not in assigns or len(assigns[tgt]) != 1:
            raise TranslationError(f"geometry1: expected exactly one top-level assignment of {tgt}")
        d[key] = sexpr(assigns[tgt][0].value, sym)
    order = [s.lineno for s in (assigns["self.Brxy"][0], assigns["self.Bpxy"][0], assigns["self.Btxy"][0], assigns["self.Bxy"][0])]
    # ---- pressure
    ps = [s for s in ast.walk(fn) if isinstance(s, ast.Assign) and src_of(s.targets[0]) == "self.pressure"]
    if len(ps) != 1 or src_of(ps[0].value) != "self.meshParent.equilibrium.regions[self.equilibriumRegion.name].pressure(self.psixy)":
        raise TranslationError("geometry1: self.pressure is not regions[name].pressure(self.psixy)")
    # ---- bpsign from the direction of psi_vals
    bs = [s for s in fn.body if isinstance(s, ast.If) and "self.bpsign" in src_of(s) and "psi_vals" in src_of(s.test)]
    if len(bs) != 1:
        raise TranslationError("geometry1: cannot find the psi_vals direction test that sets bpsign")
    t = bs[0].test
    if not (isinstance(t, ast.Compare) and len(t.ops) == 1 and isinstance(t.ops[0], ast.Gt) and src_of(t.left) == "self.psi_vals[0]" and src_of(t.comparators[0]) == "self.psi_vals[-1]"):
        raise TranslationError(f"geometry1: bpsign test is `{src_of(t)}`")

    def const_of(stmts, name):
        v = [s for s in stmts if isinstance(s, ast.Assign) and src_of(s.targets[0]) == name]
        if len(v) != 1:
            raise TranslationError(f"geometry1: {name} not assigned once in the branch")
        return sexpr(v[0].value, {})
    d["bpsign_then"], d["bpsign_else"] = const_of(bs[0].body, "self.bpsign"), const_of(bs[0].orelse, "self.bpsign")
    # ---- the sampled dot product and the decision
    if "Bp_dot_grady" not in assigns or len(assigns["Bp_dot_grady"]) != 1:
        raise TranslationError("geometry1: Bp_dot_grady not assigned once")
    ds = {"self.Brxy.centre[-1, self.ny // 2]": "Brs", "self.Bzxy.centre[-1, self.ny // 2]": "Bzs",
          "self.Rxy.centre[-1, self.ny // 2 + 1]": "Rp", "self.Rxy.centre[-1, self.ny // 2 - 1]": "Rm",
          "self.Zxy.centre[-1, self.ny // 2 + 1]": "Zp", "self.Zxy.centre[-1, self.ny // 2 - 1]": "Zm"}
    d["dot"] = sexpr(assigns["Bp_dot_grady"][0].value, ds)
    dec = [s for s in fn.body if isinstance(s, ast.If) and src_of(s.test).startswith("Bp_dot_grady")]
    if len(dec) != 1:
        raise TranslationError("geometry1: cannot find `if Bp_dot_grady < 0.0:`")
    dec = dec[0]
    if cmp0(dec.test, "Bp_dot_grady") != "lt":
        raise TranslationError(f"geometry1: decision test is `{src_of(dec.test)}`")
    if dec.lineno < assigns["self.Bpxy"][0].lineno or dec.lineno > assigns["self.Btxy"][0].lineno or order != sorted(order):
        raise TranslationError("geometry1: statement order changed (Brxy, Bpxy, decision, Btxy, Bxy)")
    body = nodoc(dec.body)
    flips = [s for s in body if isinstance(s, ast.Assign) and src_of(s.targets[0]) == "self.Bpxy"]
    rest = [s for s in body if s not in flips]
    if len(flips) != 1 or src_of(flips[0].value) != "-self.Bpxy":
        raise TranslationError("geometry1: the negative branch does not negate Bpxy exactly once")
    d["raise_neg"] = raise_guard(rest)       # guard applied when dot < 0
    d["raise_pos"] = raise_guard(dec.orelse)  # guard applied when dot >= 0
    if any(isinstance(s, ast.Assign) and src_of(s.targets[0]) == "self.Bpxy" for s in ast.walk(ast.Module(body=dec.orelse, type_ignores=[]))):
        raise TranslationError("geometry1: Bpxy modified in the non-negative branch")
    return d


def tokamak(path):
    d = {}
    fn = get_function(path, "TokamakEquilibrium.createRegionObjects")
    lam = [s for s in ast.walk(fn) if isinstance(s, ast.Assign) and src_of(s.targets[0]) == "eqreg.pressure" and isinstance(s.value, ast.Lambda)]
    if len(lam) != 1:
        raise TranslationError("createRegionObjects: expected exactly one lambda assigned to eqreg.pressure")
    L = lam[0].value
    args = [a.arg for a in L.args.args]
    defaults = dict(zip(args[len(args) - len(L.args.defaults):], [src_of(x) for x in L.args.defaults]))
    if args[:1] != ["psi"] or L.args.vararg or L.args.kwarg or L.args.kwonlyargs:
        raise TranslationError(f"leg pressure lambda: unexpected signature {args}")
    for a, v in defaults.items():
        if a != v or a not in ("leg_psi", "sign"):
            raise TranslationError(f"leg pressure lambda: unexpected default {a}={v}")
    if set(args[1:]) - set(defaults):
        raise TranslationError("leg pressure lambda: extra positional argument without default")
    d["leg_early"] = "leg_psi" in defaults
    b = L.body
    if not (isinstance(b, ast.Call) and src_of(b.func) == "self.pressure" and len(b.args) == 1 and not b.keywords):
        raise TranslationError("leg pressure lambda: body is not self.pressure(<expr>)")
    d["leg_arg"] = sexpr(b.args[0], {"leg_psi": "leg", "sign": "sgn", "psi": "p"})
    src = "\n".join(l.strip() for l in ast.unparse(fn).splitlines())
    for frag in ["sign = np.sign(self.psi_sep[0] - self.psi_axis)", "leg_psi = region['psi']", "if 'wall' in region['kind']:", "eqreg.pressure = self.pressure",
                 "if self.p_spl is not None:"]:
        if frag not in src:
            raise TranslationError(f"createRegionObjects: expected statement missing: {frag}")
    # the loop the closure is created in (late binding reads the loop's last value)
    loops = [n for n in ast.walk(fn) if isinstance(n, ast.For) and any(x is lam[0] for x in ast.walk(n))]
    if not loops:
        raise TranslationError("createRegionObjects: the leg pressure lambda is not inside a loop")
    # ---- pressure(): p_spl(psi * f_psi_sign)
    pf = get_function(path, "TokamakEquilibrium.pressure")
    if "return self.p_spl(psi * self.f_psi_sign)" not in ast.unparse(pf):
        raise TranslationError("TokamakEquilibrium.pressure changed")
    ba = get_function(path, "TokamakEquilibrium.Bt_axis")
    if "return self.fpol(self.psi_axis) / self.o_point.R" not in ast.unparse(ba):
        raise TranslationError("TokamakEquilibrium.Bt_axis changed")
    # ---- extrapolation
    init = get_function(path, "TokamakEquilibrium.__init__")
    blk = [s for s in init.body if isinstance(s, ast.If) and src_of(s.test) == "self.user_options.extrapolate_profiles"]
    if len(blk) != 1:
        raise TranslationError("__init__: cannot find `if self.user_options.extrapolate_profiles:`")
    blk = blk[0]
    allst = [s for s in ast.walk(blk) if isinstance(s, ast.Assign)]
    by = {}
    for s in allst:
        by.setdefault(src_of(s.targets[0]), []).append(s)

    def one(name, want=None):
        if name not in by or len(by[name]) != 1:
            raise TranslationError(f"extrapolate_profiles: {name} not assigned exactly once")
        if want is not None and src_of(by[name][0].value) != want:
            raise TranslationError(f"extrapolate_profiles: {name} = {src_of(by[name][0].value)} (expected {want})")
        return by[name][0]
    one("dpdpsi", "(pressure[-1] - pressure[-2]) / (psi1D[-1] - psi1D[-2])")
    one("p0", "pressure[-1]")
    cat = one("psi1D", "np.concatenate([psi1D, psiSOL])")
    sol = one("psiSOL")
    pc = one("pressure")
    one("fpol1D", "np.concatenate([fpol1D, np.full(psiSOL.shape, fpol1D[-1])])")
    if not (isinstance(pc.value, ast.Call) and src_of(pc.value.func) == "np.concatenate" and isinstance(pc.value.args[0], ast.List) and len(pc.value.args[0].elts) == 2
            and src_of(pc.value.args[0].elts[0]) == "pressure"):
        raise TranslationError("extrapolate_profiles: pressure is not np.concatenate([pressure, <extension>])")
    sym = {"p0": "p0", "dpdpsi": "dpdpsi", "psiSOL": "p"}
    # a name holding the last value of psi1D before it is extended
    for nm, ss in by.items():
        if len(ss) == 1 and src_of(ss[0].value) == "psi1D[-1]" and ss[0].lineno < cat.lineno:
            sym[nm] = "psi0"
    d["extrap"] = sexpr(pc.value.args[0].elts[1], sym)
    # psiSOL starts at the last psi1D value (excluded) : np.linspace(<psi1D[-1] or its alias>, psi_outer, 50)[1:]
    v = src_of(sol.value)
    ok = False
    for first in ["psi1D[-1]"] + [k for k, t in sym.items() if t == "psi0"]:
        if v == f"np.linspace({first}, psi_outer, 50)[1:]":
            ok = True
    if not ok or sol.lineno > cat.lineno:
        raise TranslationError(f"extrapolate_profiles: psiSOL = {v}")
    return d


def emit(repo):
    g = geometry1(os.path.join(repo, "hypnotoad/core/mesh.py"))
    t = tokamak(os.path.join(repo, "hypnotoad/cases/tokamak.py"))
    cmpc = {"lt": "Rlt_dec bps 0", "gt": "Rgt_dec bps 0", "le": "Rle_dec bps 0", "ge": "Rge_dec bps 0"}

    def guard(op, val):
        return f"Some ({val})" if op is None else f"(if {cmpc[op]} then None else Some ({val}))"
    L = ["(* GENERATED by /verif/translate/geom1.py from mesh.py (MeshRegion.geometry1) and tokamak.py -- do not edit. *)",
         "From Coq Require Import Reals.", "Local Open Scope R_scope.", "",
         f"Definition G1_bpsign (psi_first psi_last : R) : R := if Rgt_dec psi_first psi_last then {pr(g['bpsign_then'])} else {pr(g['bpsign_else'])}.",
         f"Definition G1_Bp_mag (Br Bz : R) : R := {pr(g['Bp_mag'])}.",
         f"Definition G1_dot (Brs Bzs Rp Rm Zp Zm : R) : R := {pr(g['dot'])}.",
         "(* the factor applied to the magnitude, or None when geometry1 raises *)",
         f"Definition G1_decision (dot bps : R) : option R := if Rlt_dec dot 0 then {guard(g['raise_neg'], '-1')} else {guard(g['raise_pos'], '1')}.",
         f"Definition G1_Bt (fp Rx : R) : R := {pr(g['Bt'])}.",
         f"Definition G1_B (Bp Bt : R) : R := {pr(g['B'])}.", "",
         "(* tokamak.py: argument handed to the core pressure profile by a leg region's closure; whether leg_psi is bound when the closure is made *)",
         f"Definition T_leg_arg (leg sgn p : R) : R := {pr(t['leg_arg'])}.",
         f"Definition T_leg_early : bool := {'true' if t['leg_early'] else 'false'}.",
         "(* tokamak.py: extension of the pressure profile beyond psi0 = psi1D[-1]  (p0 = pressure[-1], dpdpsi the last finite-difference gradient) *)",
         f"Definition T_extrap (p0 dpdpsi psi0 p : R) : R := {pr(t['extrap'])}.", ""]
    d = dict(g)
    d.update(t)
    return "\n".join(L), d


if __name__ == "__main__":
    text, d = emit(sys.argv[1] if len(sys.argv) > 1 else "/repo")
    print(text)
