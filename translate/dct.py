"""utils/dct_interpolation.py: the summand of each DCT_2D evaluator and the index-space maps -> coq/gen/Gen_DCT.v.  Fail-closed."""
import ast
import os
import sys
from fractions import Fraction

sys.path.insert(0, os.path.dirname(os.path.abspath(__file__)))
import pyir
from pyir import Exec, TranslationError, get_function, src_of

METHODS = ["__call__", "ddR", "ddZ", "d2dR2", "d2dZ2", "d2dRdZ"]
NAME_MAP = {"psiDCT": "c", "coef_R": "cR", "coef_Z": "cZ", "dR": "dR", "dZ": "dZ"}
INPUTS = ["c", "cR", "cZ", "ir", "iz", "dR", "dZ"]


def translate(repo):
    path = os.path.join(repo, "hypnotoad/utils/dct_interpolation.py")
    out = {}
    for m in METHODS:
        fn = get_function(path, "DCT_2D." + m)
        src = ast.unparse(fn)
        for frag in ["iR = (R - self.Rmin) / self.Rsize * (self.nR - 1)", "iZ = (Z - self.Zmin) / self.Zsize * (self.nZ - 1)"]:
            if frag not in src:
                raise TranslationError(f"DCT_2D.{m}: index-space map changed (expected `{frag}`)")
        inner = [n for n in ast.walk(fn) if isinstance(n, ast.FunctionDef) and n.name == "getResult"]
        if len(inner) != 1:
            raise TranslationError(f"DCT_2D.{m}: no getResult")
        assigns = [n for n in ast.walk(inner[0]) if isinstance(n, ast.Assign) and src_of(n.targets[0]) == "result[...]"]
        loops = [n for n in ast.walk(inner[0]) if isinstance(n, ast.For)]
        if len(assigns) != 1 or len(loops) != 1 or src_of(loops[0].target) not in ("(ir, iz, result)", "ir, iz, result"):
            raise TranslationError(f"DCT_2D.{m}: unexpected evaluation loop")
        v = assigns[0].value
        neg = False
        if isinstance(v, ast.UnaryOp) and isinstance(v.op, ast.USub):
            neg, v = True, v.operand
        if not (isinstance(v, ast.Call) and src_of(v.func) == "numpy.sum" and len(v.args) == 1):
            raise TranslationError(f"DCT_2D.{m}: result is not (-)numpy.sum(...)")
        ex = Exec(name_map=NAME_MAP)
        e = ex.expr(v.args[0])
        if neg:
            e = ("neg", e)
        if pyir.find_opaque(e):
            raise TranslationError(f"DCT_2D.{m}: {pyir.find_opaque(e)}")
        out[m] = e
    init = ast.unparse(get_function(path, "DCT_2D.__init__"))
    for frag in ["self.dR = self.Rarray[1] - self.Rarray[0]", "self.dZ = self.Zarray[1] - self.Zarray[0]", "self.Rsize = self.Rarray[-1] - self.Rarray[0]",
                 "self.Zsize = self.Zarray[-1] - self.Zarray[0]", "self.coef_R = (numpy.pi * numpy.arange(self.nR) / self.nR)[numpy.newaxis, :]",
                 "self.coef_Z = (numpy.pi * numpy.arange(self.nZ) / self.nZ)[:, numpy.newaxis]", "self.psiDCT = dct(dct(psiRZ, axis=0), axis=1)",
                 "self.psiDCT = self.psiDCT / (self.nR * self.nZ)", "self.psiDCT[0, :] /= 2.0", "self.psiDCT[:, 0] /= 2.0", "psiRZ = psiRZ.T"]:
        if frag not in init:
            raise TranslationError(f"DCT_2D.__init__: expected statement missing: {frag}")
    return out


def emit(repo):
    out = translate(repo)
    defs = [("dct_term_" + ("call" if m == "__call__" else m), out[m]) for m in METHODS]
    return pyir.emit_defs("dct_interpolation.py DCT_2D evaluator summands", defs, INPUTS), out


if __name__ == "__main__":
    print(emit(sys.argv[1] if len(sys.argv) > 1 else "/repo")[0])
