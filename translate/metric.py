"""mesh.py: calcMetric (both branches), geometry2's dphidy, calcBeta  ->  coq/gen/Gen_Metric.v"""
import os
import sys
from fractions import Fraction

sys.path.insert(0, os.path.dirname(os.path.abspath(__file__)))
import pyir
from pyir import Exec, get_function, TranslationError

METRIC_INPUTS = ["Rxy", "Bpxy", "hy", "dphidy", "cosBeta", "tanBeta", "bpsign"]
METRIC_TARGETS = ["g11", "g22", "g33", "g12", "g13", "g23", "J", "g_11", "g_22", "g_33", "g_12", "g_13", "g_23", "Jcheck"]


def zero_call(ex, node):
    return ("const", Fraction(0))


def translate(repo):
    path = os.path.join(repo, "hypnotoad/core/mesh.py")
    out = {}
    info = {"ignored": []}
    # ---- calcMetric
    fn = get_function(path, "MeshRegion.calcMetric")
    for branch, orth in (("orth", True), ("nonorth", False)):
        ex = Exec(decisions={"not self.user_options.shiftedmetric": False, "self.user_options.orthogonal": orth},
                  calls={"MultiLocationArray(self.nx, self.ny).zero": zero_call})
        ex.patch_ok = frozenset(["Jcheck"])
        ex.run(fn.body)
        for t in METRIC_TARGETS:
            if t not in ex.env:
                raise TranslationError(f"calcMetric[{branch}] never assigns self.{t}")
            out[f"metric_{branch}_{t}"] = ex.env[t]
        info["ignored"] += [f"calcMetric[{branch}]: {x}" for x in ex.ignored]
    # ---- geometry2
    fn = get_function(path, "MeshRegion.geometry2")
    ex = Exec(decisions={"self.user_options.cap_Bp_ylow_xpoint": False}, calls={"self.calcHy": lambda e, n: ("var", "hy")})
    ex.run(fn.body)
    if "dphidy" not in ex.env:
        raise TranslationError("geometry2 never assigns self.dphidy")
    out["geom2_dphidy"] = ex.env["dphidy"]
    info["ignored"] += [f"geometry2: {x}" for x in ex.ignored]
    # ---- calcBeta
    fn = get_function(path, "MeshRegion.calcBeta")
    ex = Exec(calls={
        "self.meshParent.equilibrium.f_R": lambda e, n: ("var", "fR"),
        "self.meshParent.equilibrium.f_Z": lambda e, n: ("var", "fZ"),
        "MultiLocationArray": lambda e, n: pyir.opaque("fresh array"),
    })
    ex.sub_inputs = {
        "Rxy.xlow[1:, :]": "Rhi", "Rxy.xlow[:-1, :]": "Rlo", "Zxy.xlow[1:, :]": "Zhi", "Zxy.xlow[:-1, :]": "Zlo",
        "Rxy.corners[1:, :]": "Rhi", "Rxy.corners[:-1, :]": "Rlo", "Zxy.corners[1:, :]": "Zhi", "Zxy.corners[:-1, :]": "Zlo",
    }
    ex.run(fn.body)
    for t in ("cosBeta.centre", "sinBeta.centre", "cosBeta.ylow", "sinBeta.ylow"):
        if t not in ex.env:
            raise TranslationError(f"calcBeta never assigns self.{t}")
        out["beta_" + t.replace(".", "_")] = ex.env[t]
    # tanBeta = sinBeta / cosBeta
    tb = ex.env.get("tanBeta")
    if tb != ("div", ("var", "sinBeta"), ("var", "cosBeta")):
        # after the assignments above self.sinBeta is the container; the final statement must be the quotient
        if not (isinstance(tb, tuple) and tb[0] == "div" and pyir.src_of(fn.body[-1]) == "self.tanBeta = self.sinBeta / self.cosBeta"):
            raise TranslationError("calcBeta: tanBeta is not sinBeta / cosBeta")
    out["beta_tan"] = ("div", ("var", "sinBeta"), ("var", "cosBeta"))
    return out, info


def emit(repo, gen_dir):
    out, info = translate(repo)
    groups = [
        ("calcMetric", [(k, v) for k, v in out.items() if k.startswith("metric_")], METRIC_INPUTS),
        ("geometry2", [("geom2_dphidy", out["geom2_dphidy"])], ["hy", "Btxy", "Bpxy", "Rxy"]),
        ("calcBeta", [(k, v) for k, v in out.items() if k.startswith("beta_") and k != "beta_tan"], ["Rhi", "Rlo", "Zhi", "Zlo", "fR", "fZ"]),
        ("calcBeta.tan", [("beta_tan", out["beta_tan"])], ["sinBeta", "cosBeta"]),
    ]
    text = ""
    for i, (cm, defs, inputs) in enumerate(groups):
        t = pyir.emit_defs(f"mesh.py {cm}", defs, inputs)
        if i:
            t = "\n".join(l for l in t.splitlines() if not l.startswith(("From ", "(* GENERATED")))
        text += t + "\n"
    return text, out, info, groups


if __name__ == "__main__":
    text, out, info, _ = emit(sys.argv[1] if len(sys.argv) > 1 else "/repo", None)
    print(text)
    print("(*", info, "*)")
