"""mesh.py structure fingerprints -> coq/gen/Gen_Slices.v: the literal slices of MeshRegion.fillRZ, the reversal condition of
MeshRegion.__init__, the stencils of calcHy and the staggering slices of calcZShift / calcPoloidalDistance.  Fail-closed."""
import ast
import os
import re
import sys

sys.path.insert(0, os.path.dirname(os.path.abspath(__file__)))
from pyir import TranslationError, get_function, src_of

FILL = re.compile(r"^numpy\.array\(\[\[p\.(R|Z) for p in contour\[(\d)::2\]\] for contour in self\.contours\[(\d)::2\]\]\)$")


def fill_slices(path):
    fn = get_function(path, "MeshRegion.fillRZ")
    got = {}
    for s in fn.body:
        if isinstance(s, ast.Assign) and isinstance(s.value, ast.Call):
            t = src_of(s.targets[0])
            m = FILL.match(src_of(s.value))
            if t.startswith("self.Rxy.") or t.startswith("self.Zxy."):
                if not m:
                    raise TranslationError(f"fillRZ: unexpected right-hand side for {t}: {src_of(s.value)[:80]}")
                coord, pstart, cstart = m.group(1), int(m.group(2)), int(m.group(3))
                if coord != t[5]:
                    raise TranslationError(f"fillRZ: {t} is filled from p.{coord}")
                loc = t.split(".")[2]
                got.setdefault(loc, {})[coord] = (cstart, pstart)
    for loc in ("centre", "xlow", "ylow", "corners"):
        if loc not in got or got[loc].get("R") != got[loc].get("Z") or got[loc].get("R") is None:
            raise TranslationError(f"fillRZ: location {loc} not filled consistently for R and Z: {got.get(loc)}")
    # the X-point pins: four blocks `xpoint = ...xPointsAtStart/End[self.radialIndex(+1)]; if xpoint is not None: corners[a, b] = ...`
    pins = []
    body = fn.body
    for k, s in enumerate(body):
        if isinstance(s, ast.Assign) and src_of(s.targets[0]) == "xpoint":
            which = src_of(s.value)
            nxt = body[k + 1]
            if not (isinstance(nxt, ast.If) and src_of(nxt.test) == "xpoint is not None" and len(nxt.body) == 2):
                raise TranslationError("fillRZ: X-point pin block changed shape")
            tg = [src_of(a.targets[0]) for a in nxt.body]
            vals = [src_of(a.value) for a in nxt.body]
            pins.append((which, tg, vals))
    want = [("self.equilibriumRegion.xPointsAtStart[self.radialIndex]", "[0, 0]"), ("self.equilibriumRegion.xPointsAtStart[self.radialIndex + 1]", "[-1, 0]"),
            ("self.equilibriumRegion.xPointsAtEnd[self.radialIndex]", "[0, -1]"), ("self.equilibriumRegion.xPointsAtEnd[self.radialIndex + 1]", "[-1, -1]")]
    if len(pins) != 4:
        raise TranslationError(f"fillRZ: expected 4 X-point pins, found {len(pins)}")
    for (which, tg, vals), (w, idx) in zip(pins, want):
        if which != w or tg != [f"self.Rxy.corners{idx}", f"self.Zxy.corners{idx}"] or vals != ["xpoint.R", "xpoint.Z"]:
            raise TranslationError(f"fillRZ: X-point pin changed: {which} -> {tg} = {vals}")
    return {loc: got[loc]["R"] for loc in got}


def init_reversal(path):
    fn = get_function(path, "MeshRegion.__init__")
    src = "\n".join(l.strip() for l in ast.unparse(fn).splitlines())
    cond = "self.radialIndex < self.equilibriumRegion.separatrix_radial_index"
    need = [f"if {cond}:\n    temp_psi_vals = self.psi_vals[::-1]\nelse:\n    temp_psi_vals = self.psi_vals",
            f"if {cond}:\n    for perp_points in perp_points_list:\n        perp_points.reverse()",
            "psivals=temp_psi_vals",
            "for i, point in enumerate(perp_points_list[0]):\n    self.contours.append(self.equilibriumRegion.newContourFromSelf(points=[point], psival=self.psi_vals[i]))",
            "for perp_points in perp_points_list[1:]:\n    for i, point in enumerate(perp_points):\n        self.contours[i].append(point)",
            "self.contours = self.parallel_map(PsiContour.refine, ((c,) for c in self.contours), width=self.user_options.refine_width)"]
    for n in need:
        n = "\n".join(l.strip() for l in n.splitlines())
        if n not in src:
            raise TranslationError(f"MeshRegion.__init__: expected fragment missing: {n[:70]}...")
    return True


def stencils(path):
    """calcHy, calcZShift, calcPoloidalDistance: the slices that pick faces and centres out of a contour's point list"""
    out = {}
    hy = ast.unparse(get_function(path, "MeshRegion.calcHy"))
    for frag in ["hy.centre[i, :] = d[2::2] - d[:-2:2]", "hy.ylow[i, 1:-1] = d[3:-1:2] - d[1:-3:2]", "hy.ylow[i, 0] = d[1] - d[0] + dbelow[-1] - dbelow[-2]",
                 "hy.ylow[i, 0] = 2.0 * (d[1] - d[0])", "hy.ylow[i, -1] = d[-1] - d[-2] + dabove[1] - dabove[0]", "hy.ylow[i, -1] = 2.0 * (d[-1] - d[-2])",
                 "hy.xlow[i, :] = d[2::2] - d[:-2:2]", "hy.corners[i, 1:-1] = d[3:-1:2] - d[1:-3:2]", "hy.corners[i, 0] = d[1] - d[0] + dbelow[-1] - dbelow[-2]",
                 "hy.corners[i, 0] = 2.0 * (d[1] - d[0])", "hy.corners[i, -1] = d[-1] - d[-2] + dabove[1] - dabove[0]", "hy.corners[i, -1] = 2.0 * (d[-1] - d[-2])",
                 "self.contours[2 * i + 1].get_distance", "self.contours[2 * i].get_distance", "cbelow = self.getNeighbour('lower').contours[2 * i + 1]",
                 "cabove = self.getNeighbour('upper').contours[2 * i + 1]", "cbelow = self.getNeighbour('lower').contours[2 * i]", "cabove = self.getNeighbour('upper').contours[2 * i]",
                 "hy /= self.dy"]:
        if frag not in hy:
            raise TranslationError(f"calcHy: expected statement missing: {frag}")
    out["calcHy"] = "ok"
    zs = ast.unparse(get_function(path, "MeshRegion.calcZShift"))
    for frag in ["region.zShift.corners[xind, :] += zShift_contour[::2]", "region.zShift.xlow[xind, :] += zShift_contour[1::2]",
                 "region.zShift.ylow[xind, :] += zShift_contour[::2]", "region.zShift.centre[xind, :] += zShift_contour[1::2]",
                 "zShift_fine[:] -= zShift_fine[fine_contour.startInd]", "next_region.zShift.centre[:, :] = region.zShift.ylow[:, -1, numpy.newaxis]",
                 "next_region.zShift.ylow[:, :] = region.zShift.ylow[:, -1, numpy.newaxis]", "next_region.zShift.xlow[:, :] = region.zShift.corners[:, -1, numpy.newaxis]",
                 "next_region.zShift.corners[:, :] = region.zShift.corners[:, -1, numpy.newaxis]", "if i % 2 == 0:",
                 "self.ShiftAngle.centre = (region.zShift.ylow[:, -1] - self.zShift.ylow[:, 0]).reshape((-1, 1))",
                 "self.ShiftAngle.xlow = (region.zShift.corners[:, -1] - self.zShift.corners[:, 0]).reshape((-1, 1))",
                 "if next_region is None or next_region is self:", "if self.yGroupIndex != 0:", "return Bt / (R * Bp)",
                 "Bp = numpy.sqrt(self.meshParent.equilibrium.Bp_R(R, Z) ** 2 + self.meshParent.equilibrium.Bp_Z(R, Z) ** 2)"]:
        if frag not in zs:
            raise TranslationError(f"calcZShift: expected statement missing: {frag}")
    out["calcZShift"] = "ok"
    pd = ast.unparse(get_function(path, "MeshRegion.calcPoloidalDistance"))
    for frag in ["region.poloidal_distance.centre[i, :] += c.get_distance(psi=self.meshParent.equilibrium.psi)[1::2]",
                 "region.poloidal_distance.ylow[i, :] += c.get_distance(psi=self.meshParent.equilibrium.psi)[::2]",
                 "region.poloidal_distance.xlow[i, :] += c.get_distance(psi=self.meshParent.equilibrium.psi)[1::2]",
                 "region.poloidal_distance.corners[i, :] += c.get_distance(psi=self.meshParent.equilibrium.psi)[::2]",
                 "region.poloidal_distance.centre[i, :] -= c.get_distance(psi=self.meshParent.equilibrium.psi)[c.startInd]",
                 "region.poloidal_distance.corners[i, :] -= c.get_distance(psi=self.meshParent.equilibrium.psi)[c.startInd]",
                 "next_region.poloidal_distance.centre[:, :] = region.poloidal_distance.ylow[:, -1, numpy.newaxis]",
                 "next_region.poloidal_distance.xlow[:, :] = region.poloidal_distance.corners[:, -1, numpy.newaxis]",
                 "self.total_poloidal_distance.centre[:, 0] = region.poloidal_distance.ylow[:, -1]",
                 "self.total_poloidal_distance.xlow[:, 0] = region.poloidal_distance.corners[:, -1]"]:
        if frag not in pd:
            raise TranslationError(f"calcPoloidalDistance: expected statement missing: {frag}")
    out["calcPoloidalDistance"] = "ok"
    g1 = ast.unparse(get_function(path, "MeshRegion.geometry1"))
    for frag in ["self.dx.centre = (self.psi_vals[2::2] - self.psi_vals[:-2:2])[:, numpy.newaxis]", "self.psixy = self.meshParent.equilibrium.psi(self.Rxy, self.Zxy)"]:
        if frag not in g1:
            raise TranslationError(f"geometry1: expected statement missing: {frag}")
    rb = ast.unparse(get_function(path, "MeshRegion.getRZBoundary"))
    for frag in ["self.Rxy.ylow[:, -1] = up.Rxy.ylow[:, 0]", "self.Zxy.ylow[:, -1] = up.Zxy.ylow[:, 0]", "self.Rxy.corners[:, -1] = up.Rxy.corners[:, 0]", "self.Zxy.corners[:, -1] = up.Zxy.corners[:, 0]"]:
        if frag not in rb:
            raise TranslationError(f"getRZBoundary: expected statement missing: {frag}")
    return out


def groups_loop(path):
    """Mesh.makeRegions: which region does a y-group start from when no remaining region has lower None?"""
    fn = get_function(path, "Mesh.makeRegions")
    loops = [n for n in ast.walk(fn) if isinstance(n, ast.For) and src_of(n.iter) == "enumerate(region_list)"]
    if len(loops) != 1:
        raise TranslationError("makeRegions: cannot find the `for i, first_region in enumerate(region_list)` loop")
    lp = loops[0]
    if src_of(lp.target) not in ("(i, first_region)", "i, first_region"):
        raise TranslationError(f"makeRegions: loop target changed: {src_of(lp.target)}")
    body = [s for s in lp.body if not (isinstance(s, ast.Expr) and isinstance(s.value, ast.Constant))]
    if not (len(body) == 1 and isinstance(body[0], ast.If) and src_of(body[0].test) == "first_region.connections['lower'] is None"
            and len(body[0].body) == 1 and isinstance(body[0].body[0], ast.Break) and not body[0].orelse):
        raise TranslationError("makeRegions: the start-region loop body changed")
    orelse = sorted(src_of(s) for s in lp.orelse if not (isinstance(s, ast.Expr) and isinstance(s.value, ast.Constant)))
    if not orelse:
        pick_last = True
    elif orelse in (["first_region = region_list[0]", "i = 0"], ["i, first_region = (0, region_list[0])"], ["(i, first_region) = (0, region_list[0])"]):
        pick_last = False
    else:
        raise TranslationError(f"makeRegions: unexpected for-else: {orelse}")
    src = "\n".join(l.strip() for l in ast.unparse(fn).splitlines())
    for frag in ["next_region.yGroupIndex = len(group)", "group.append(next_region)", "region_list.pop(i)", "next_region = next_region.getNeighbour('upper')",
                 "if next_region is None or group.count(next_region) > 0:", "i = region_list.index(next_region)", "region_list = list(self.regions.values())"]:
        if frag not in src:
            raise TranslationError(f"makeRegions: expected statement missing: {frag}")
    return pick_last


def emit(repo):
    path = os.path.join(repo, "hypnotoad/core/mesh.py")
    fs = fill_slices(path)
    pick_last = groups_loop(path)
    init_reversal(path)
    st = stencils(path)
    L = ["(* GENERATED by /verif/translate/slices.py from MeshRegion.fillRZ -- do not edit.  (contour start, point start) of each location *)",
         "Definition fill_centre : nat * nat := (%d, %d)." % fs["centre"], "Definition fill_xlow : nat * nat := (%d, %d)." % fs["xlow"],
         "Definition fill_ylow : nat * nat := (%d, %d)." % fs["ylow"], "Definition fill_corners : nat * nat := (%d, %d)." % fs["corners"],
         "(* Mesh.makeRegions: a y-group with no open end starts at the LAST remaining region (true) or at the first (false) *)",
         "Definition makeRegions_pick_last : bool := %s." % ("true" if pick_last else "false"), ""]
    return "\n".join(L), dict(fill=fs, stencils=st, pick_last=pick_last)


if __name__ == "__main__":
    text, info = emit(sys.argv[1] if len(sys.argv) > 1 else "/repo")
    print(text)
