"""doc/grid-file.rst (documented variables) and mesh.py (what BoutMesh.geometry collects and writeGridfile writes, the run-time guards, the
equilibrium/mesh option consistency check) -> coq/gen/Gen_GridFile.v.  Fail-closed."""
import ast
import os
import re
import sys

sys.path.insert(0, os.path.dirname(os.path.abspath(__file__)))
from pyir import TranslationError, get_function, src_of

CONDITIONAL = {"psi_axis_gfile": "geqdsk input", "psi_bdry_gfile": "geqdsk input", "pressure": "pressure profile given", "hthe": "orthogonal grid",
               "closed_wall_R": "equilibrium has a wall", "closed_wall_Z": "equilibrium has a wall"}


def documented(repo):
    txt = open(os.path.join(repo, "doc/grid-file.rst")).read()
    names = []
    for line in txt.splitlines():
        m = re.match(r"\s+\* - (``[^`]+``(?:,\s*``[^`]+``)*)\s*$", line)
        if m:
            names += re.findall(r"``([^`]+)``", m.group(1))
    if len(names) < 40:
        raise TranslationError(f"doc/grid-file.rst: only {len(names)} documented variables found")
    return names


def written(repo):
    mp = os.path.join(repo, "hypnotoad/core/mesh.py")
    wg = get_function(mp, "BoutMesh.writeGridfile")
    ge = get_function(mp, "BoutMesh.geometry")
    always, cond = set(), set()
    fields = []
    for n in ast.walk(ge):
        if isinstance(n, ast.Call) and src_of(n.func) in ("addFromRegions", "addFromRegionsXArray") and n.args and isinstance(n.args[0], ast.Constant):
            fields.append((n.args[0].value, src_of(n.func)))
    if len(fields) < 30:
        raise TranslationError("BoutMesh.geometry: field collection changed")
    # is the call unconditional?  (top level of geometry(), or inside a recognised `if`)
    top_calls = set()
    for s in ge.body:
        if isinstance(s, ast.Expr) and isinstance(s.value, ast.Call) and src_of(s.value.func) in ("addFromRegions", "addFromRegionsXArray"):
            top_calls.add(s.value.args[0].value)
    wa = ast.unparse(get_function(mp, "BoutMesh.writeArray"))
    for frag in ["f.write(name, BoutArray(array.centre, attributes=array.attributes))", "f.write(name + '_xlow', BoutArray(array.xlow[:-1, :], attributes=array.attributes))",
                 "f.write(name + '_ylow', BoutArray(array.ylow[:, :-1], attributes=array.attributes))"]:
        if frag not in wa:
            raise TranslationError(f"writeArray: expected statement missing: {frag}")
    wsrc = ast.unparse(wg)
    if "for name in self.fields_to_output:\n                self.writeArray(name, self.__dict__[name], f)" not in wsrc.replace("\n    ", "\n") and "for name in self.fields_to_output:" not in wsrc:
        raise TranslationError("writeGridfile: the loop over fields_to_output changed")
    for nm, kind in fields:
        (always if nm in top_calls else cond).add(nm)
    # literal f.write("name", ...) calls, conditional when under an `if hasattr` / `if ... is not None`
    def walk(stmts, conditional):
        for s in stmts:
            if isinstance(s, ast.If):
                walk(s.body, True)
                walk(s.orelse, True)
            elif isinstance(s, (ast.With, ast.For)):
                walk(s.body, conditional)
            elif isinstance(s, ast.Expr) and isinstance(s.value, ast.Call):
                c = s.value
                f = src_of(c.func)
                if f == "f.write" and c.args and isinstance(c.args[0], ast.Constant):
                    (cond if conditional else always).add(c.args[0].value)
                elif f == "self.writeArray" and c.args and isinstance(c.args[0], ast.Constant):
                    (cond if conditional else always).add(c.args[0].value)
                elif f == "self.writeCorners":
                    pass
    walk(wg.body, False)
    wc = ast.unparse(get_function(mp, "BoutMesh.writeCorners"))
    for suffix in ("_corners", "_lower_right_corners", "_upper_right_corners", "_upper_left_corners"):
        if f"name + '{suffix}'" not in wc:
            raise TranslationError(f"writeCorners: {suffix} not written")
    if "for name in ['Rxy', 'Zxy']:\n                self.writeCorners(name, self.__dict__[name], f)" not in wsrc.replace("\n    ", "\n") and "self.writeCorners(name, self.__dict__[name], f)" not in wsrc:
        raise TranslationError("writeGridfile: corner output changed")
    for base in ("Rxy", "Zxy"):
        for suffix in ("_corners", "_lower_right_corners", "_upper_right_corners", "_upper_left_corners"):
            always.add(base + suffix)
    return sorted(always), sorted(cond - always)


def guards(repo):
    mp = os.path.join(repo, "hypnotoad/core/mesh.py")
    eqp = os.path.join(repo, "hypnotoad/core/equilibrium.py")
    src_m = open(mp).read()
    out = {}
    hy = ast.unparse(get_function(mp, "MeshRegion.calcHy"))
    out["hy_positive_guard"] = all(f"raise ValueError('hy.{loc} should always be positive')" in hy for loc in ("xlow", "ylow", "corners"))
    gd = ast.unparse(get_function(eqp, "PsiContour.get_distance"))
    out["distance_strict_guard"] = "if not numpy.all(d[1:] - d[:-1] > 0.0):" in gd and "raise ValueError(" in gd
    mk = ast.unparse(get_function(eqp, "Equilibrium.make1dGrid"))
    out["radial_monotonic_guard"] = "if not (numpy.all(diffs > 0.0) or numpy.all(diffs < 0.0)):" in mk
    cm = ast.unparse(get_function(mp, "MeshRegion.calcMetric"))
    out["jacobian_guard"] = "Geometry: Jacobian at centre should be consistent with" in cm and "raise ValueError(" in cm
    g1 = ast.unparse(get_function(mp, "MeshRegion.geometry1"))
    out["bp_sign_guard"] = g1.count("raise ValueError('Sign of Bp should be negative?") >= 2 or g1.count("Sign of Bp should be negative") >= 2
    mi = "\n".join(l.strip() for l in ast.unparse(get_function(mp, "Mesh.__init__")).splitlines())
    out["option_consistency_check"] = "for key in self.equilibrium.user_options:\nif key in self.user_options and self.equilibrium.user_options[key] != self.user_options[key]:\nraise ValueError(" in mi
    sc = "\n".join(l.strip() for l in ast.unparse(get_function(os.path.join(repo, "hypnotoad/scripts/hypnotoad_geqdsk.py"), "main")).splitlines())
    out["script_rejects_unknown"] = "unused_options = [opt for opt in options if opt not in possible_options]\nif unused_options != []:\nraise ValueError(" in sc
    # options the script itself reads must be among the ones it accepts
    fn = get_function(os.path.join(repo, "hypnotoad/scripts/hypnotoad_geqdsk.py"), "main")
    reads = sorted({n.args[0].value for n in ast.walk(fn) if isinstance(n, ast.Call) and src_of(n.func) == "options.get" and n.args and isinstance(n.args[0], ast.Constant)})
    po = [s for s in ast.walk(fn) if isinstance(s, ast.Assign) and src_of(s.targets[0]) == "possible_options"]
    literal = sorted({e.value for s in po for e in ast.walk(s.value) if isinstance(e, ast.Constant) and isinstance(e.value, str)})
    out["script_reads"] = reads
    out["script_accepts_literal"] = literal
    for k, v in out.items():
        if isinstance(v, bool) and not v:
            raise TranslationError(f"run-time guard / check `{k}` not found in its expected form")
    return out


def emit(repo):
    doc = documented(repo)
    always, cond = written(repo)
    g = guards(repo)
    qs = lambda l: "[" + "; ".join('"%s"' % x for x in l) + "]"
    L = ["(* GENERATED by /verif/translate/gridfile.py from doc/grid-file.rst and hypnotoad/core/mesh.py -- do not edit. *)", "From Coq Require Import List String.", "Import ListNotations.", "Open Scope string_scope.", "",
         f"Definition GF_documented : list string := {qs(doc)}.",
         f"Definition GF_documented_conditional : list string := {qs(sorted(CONDITIONAL))}.",
         "(* base names written on every call of writeGridfile (2-d fields additionally as <name>_xlow and <name>_ylow), and those written under a condition *)",
         f"Definition GF_written_always : list string := {qs(always)}.", f"Definition GF_written_conditional : list string := {qs(cond)}.",
         "(* options the command-line script reads itself, and the literal option names it adds to the accepted set *)",
         f"Definition GF_script_reads : list string := {qs(g['script_reads'])}.", f"Definition GF_script_accepts_literal : list string := {qs(g['script_accepts_literal'])}.", ""]
    d = dict(documented=doc, always=always, conditional=cond)
    d.update(g)
    return "\n".join(L), d


if __name__ == "__main__":
    text, d = emit(sys.argv[1] if len(sys.argv) > 1 else "/repo")
    print(text)
