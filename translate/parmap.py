"""hypnotoad/utils/parallel_map.py  ->  coq/gen/Gen_ParMap.v: the structural facts the labelled-transition-system model of ParallelMap rests on, read from the
source on every run (fail-closed: a shape that is not recognised raises TranslationError):
  worker_catches            worker_run wraps the task call in try/except Exception and PUTS a _WorkerException in place of the result (catch = true in the model)
  worker_always_puts        the put of (i, result) is the last statement of the loop body, outside the try (every taken task produces exactly one result)
  results_stored_by_index   __call__ stores each received result with `result[i] = this_result` into a list pre-allocated with n_tasks entries
  receives_n_results        __call__ takes exactly n_tasks results from the queue
  first_error_in_index_order  after all results are in, the first _WorkerException in index order is re-raised
  check_serializer          the serializer _WorkerException uses to decide whether the exception can be sent back ('pickle' = the one multiprocessing.Queue uses)
  tasks_put_in_order        tasks are enqueued with their index by `for i, args in enumerate(args_list)`"""
import ast
import os
import sys

sys.path.insert(0, os.path.dirname(os.path.abspath(__file__)))
from pyir import TranslationError, get_function, src_of


def facts(repo):
    path = os.path.join(repo, "hypnotoad/utils/parallel_map.py")
    out = {}
    wr = get_function(path, "ParallelMap.worker_run")
    loops = [n for n in ast.walk(wr) if isinstance(n, ast.While)]
    if len(loops) != 1 or src_of(loops[0].test) != "True":
        raise TranslationError("worker_run: expected one `while True` loop")
    body = loops[0].body
    if not (isinstance(body[0], ast.Assign) and src_of(body[0].value) == "task_queue.get()" and src_of(body[0].targets[0]).strip("()") == "i, function, args, kwargs"):
        raise TranslationError("worker_run: the loop does not start with `i, function, args, kwargs = task_queue.get()`")
    tries = [s for s in body if isinstance(s, ast.Try)]
    out["worker_catches"] = False
    def catches_exception(t):
        # `except Exception`, `except BaseException`, or a tuple that contains one of them
        if t is None:
            return False
        names = [src_of(e) for e in t.elts] if isinstance(t, ast.Tuple) else [src_of(t)]
        return "Exception" in names or "BaseException" in names
    if len(tries) == 1 and len(tries[0].handlers) == 1 and catches_exception(tries[0].handlers[0].type):
        h = tries[0].handlers[0]
        assigns = [s for s in h.body if isinstance(s, ast.Assign) and src_of(s.targets[0]) == "result"]
        if assigns and src_of(assigns[-1].value) == f"_WorkerException({h.name})" and not any(isinstance(x, (ast.Raise, ast.Return, ast.Break)) for s in h.body for x in ast.walk(s)):
            out["worker_catches"] = True
    out["worker_catches_refine_timeout"] = False
    if out["worker_catches"]:
        t = tries[0].handlers[0].type
        names = [src_of(e) for e in t.elts] if isinstance(t, ast.Tuple) else [src_of(t)]
        out["worker_catches_refine_timeout"] = "BaseException" in names or any(n.endswith("FunctionTimedOut") for n in names)
    last = body[-1]
    out["worker_always_puts"] = isinstance(last, ast.Expr) and src_of(last.value) == "result_queue.put((i, result))" and not any(
        isinstance(x, (ast.Break, ast.Return, ast.Continue)) for s in body for x in ast.walk(s))
    call = get_function(path, "ParallelMap.__call__")
    norm = lambda t: "".join(ch for ch in t if ch not in " \n()")
    src = norm(ast.unparse(call))
    out["tasks_put_in_order"] = norm("for i, args in enumerate(args_list): self.task_queue.put((i, function, args, kwargs))") in src
    out["results_stored_by_index"] = norm("result = [None for i in range(n_tasks)]") in src and norm("i, this_result = self.result_queue.get() result[i] = this_result") in src
    out["receives_n_results"] = norm("for count in range(n_tasks): i, this_result = self.result_queue.get()") in src and norm("n_tasks = len(args_list)") in src
    # the re-raise loop comes after the receive loop and scans `result` in order
    fors = [n for n in call.body if isinstance(n, ast.For)]
    out["first_error_in_index_order"] = False
    if fors:
        f = fors[-1]
        if src_of(f.iter) == "result" and len(f.body) == 1 and isinstance(f.body[0], ast.If) and src_of(f.body[0].test) == f"isinstance({src_of(f.target)}, _WorkerException)" \
                and len(f.body[0].body) == 1 and isinstance(f.body[0].body[0], ast.Raise) and src_of(f.body[0].body[0].exc) == f"{src_of(f.target)}.exception":
            recv = [k for k, n in enumerate(call.body) if isinstance(n, ast.For) and "self.result_queue.get()" in ast.unparse(n)]
            out["first_error_in_index_order"] = bool(recv) and call.body.index(f) > recv[-1]
    we = get_function(path, "_WorkerException.__init__")
    ser = None
    for t in [n for n in ast.walk(we) if isinstance(n, ast.Try)]:
        for s in t.body:
            for c in ast.walk(s):
                if isinstance(c, ast.Call) and isinstance(c.func, ast.Attribute) and c.func.attr == "loads" and c.args and isinstance(c.args[0], ast.Call) \
                        and isinstance(c.args[0].func, ast.Attribute) and c.args[0].func.attr == "dumps" and src_of(c.args[0].args[0]) == "exception":
                    a, b = src_of(c.func.value), src_of(c.args[0].func.value)
                    ser = a if a == b else "mixed"
    if ser is None:
        raise TranslationError("_WorkerException.__init__: no `X.loads(X.dumps(exception))` round-trip test found")
    out["check_serializer"] = ser
    # what the queues are: multiprocessing.Queue serialises with the standard pickle module
    init = norm(ast.unparse(get_function(path, "ParallelMap.__init__")))
    out["queues_are_multiprocessing"] = norm("self.task_queue = multiprocessing.Queue()") in init and norm("self.result_queue = multiprocessing.Queue()") in init
    return out


def emit(repo):
    f = facts(repo)
    b = lambda v: "true" if v else "false"
    L = ["(* GENERATED by /verif/translate/parmap.py from hypnotoad/utils/parallel_map.py -- do not edit. *)", "From Coq Require Import Bool.", ""]
    for k in ("worker_catches", "worker_catches_refine_timeout", "worker_always_puts", "tasks_put_in_order", "results_stored_by_index", "receives_n_results", "first_error_in_index_order", "queues_are_multiprocessing"):
        L.append(f"Definition PM_{k} : bool := {b(f[k])}.")
    L.append("(* the exception wrapper tests transportability with the serializer the result queue uses (the standard pickle module) *)")
    L.append(f"Definition PM_check_is_transport_serializer : bool := {b(f['check_serializer'] == 'pickle' and f['queues_are_multiprocessing'])}.")
    L.append("")
    return "\n".join(L), f


if __name__ == "__main__":
    t, f = emit(sys.argv[1] if len(sys.argv) > 1 else "/repo")
    print(t)
    print(f)
