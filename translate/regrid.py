"""Facts about the regridding path (mesh.py / equilibrium.py) that the history-independence model rests on, extracted from
the AST -> coq/gen/Gen_Regrid.v.  Fail-closed for anything the extraction does not understand."""
import ast
import os
import sys

sys.path.insert(0, os.path.dirname(os.path.abspath(__file__)))
from pyir import TranslationError, get_function, src_of


def nodoc(body):
    return [s for s in body if not (isinstance(s, ast.Expr) and isinstance(s.value, ast.Constant))]


def noprint(body):
    return [s for s in nodoc(body) if not (isinstance(s, ast.Expr) and isinstance(s.value, ast.Call) and src_of(s.value.func) in ("print", "warnings.warn"))]


def class_methods(path, cls):
    with open(path) as f:
        tree = ast.parse(f.read())
    for n in tree.body:
        if isinstance(n, ast.ClassDef) and n.name == cls:
            return [m for m in n.body if isinstance(m, ast.FunctionDef)]
    raise TranslationError(f"{path}: class {cls} not found")


KEY_FIELDS = ("_startInd", "_endInd", "_extend_lower", "_extend_upper")


def contour_effects(path):
    """for every PsiContour method: does it change the point list / the (start, end, extend) key, and which caches does it clear"""
    out = []
    for m in class_methods(path, "PsiContour"):
        deco = [src_of(d) for d in m.decorator_list]
        name = m.name + (".setter" if any(d.endswith(".setter") for d in deco) else "")
        if any(d == "property" for d in deco) or m.name == "__init__":
            continue
        eff = dict(name=name, points=False, key=False, reset=False, clear_dist=False, set_dist=False, set_fine=False, guarded=False)
        for n in ast.walk(m):
            if isinstance(n, ast.Call):
                f = src_of(n.func)
                if f == "self._reset_cached":
                    eff["reset"] = True
                if f in ("self.append", "self.prepend", "self.insert", "self.replace", "self.reverse", "self.refine", "self.regrid", "self.setSelfToContour"):
                    eff["delegates"] = True
                if f in ("self.points.append", "self.points.insert", "self.points.reverse", "self.points.pop", "self.points.remove", "self.points.extend", "self.points.sort", "self.points.clear"):
                    eff["points"] = True
            tg = []
            if isinstance(n, ast.Assign):
                tg = n.targets
            elif isinstance(n, (ast.AugAssign, ast.AnnAssign)):
                tg = [n.target]
            elif isinstance(n, ast.Delete):
                tg = n.targets
            for t in tg:
                for e in (t.elts if isinstance(t, ast.Tuple) else [t]):
                    s = src_of(e)
                    if s == "self.points" or s.startswith("self.points["):
                        eff["points"] = True
                    if s in ("self." + k for k in KEY_FIELDS):
                        eff["key"] = True
                    if s == "self._distance":
                        if isinstance(n, ast.Assign) and src_of(n.value) == "None":
                            eff["clear_dist"] = True
                        else:
                            eff["set_dist"] = True
                    if s == "self._fine_contour":
                        if isinstance(n, ast.Assign) and src_of(n.value) == "None":
                            eff["reset"] = eff["reset"] or False
                            eff["clear_fine_only"] = True
                        else:
                            eff["set_fine"] = True
        # the property setters: `if self._x != val: self._reset_cached(); self._x = val`
        if name.endswith(".setter"):
            body = nodoc(m.body)
            fld = "_" + m.name
            ok = (len(body) == 1 and isinstance(body[0], ast.If) and src_of(body[0].test) == f"self.{fld} != val" and not body[0].orelse
                  and [src_of(s) for s in nodoc(body[0].body)] == ["self._reset_cached()", f"self.{fld} = val"])
            if not ok:
                raise TranslationError(f"PsiContour.{m.name} setter changed shape")
            eff["guarded"] = True
        if m.name == "_reset_cached":
            eff["reset"] = True
        out.append(eff)
    names = [e["name"] for e in out]
    for need in ("append", "prepend", "replace", "insert", "reverse", "refine", "setSelfToContour", "_reset_cached", "get_distance", "get_fine_contour",
                 "startInd.setter", "endInd.setter", "extend_lower.setter", "extend_upper.setter"):
        if need not in names:
            raise TranslationError(f"PsiContour.{need} not found")
    rc = [m for m in class_methods(path, "PsiContour") if m.name == "_reset_cached"][0]
    if sorted(src_of(s) for s in nodoc(rc.body)) != ["self._distance = None", "self._fine_contour = None"]:
        raise TranslationError("PsiContour._reset_cached changed")
    # adopters: methods that take points AND caches from another contour in one go (coherent if the source is)
    rf = ast.unparse([m for m in class_methods(path, "PsiContour") if m.name == "refine"][0])
    for frag in ["new = self.getRefined(*args, **kwargs)", "self.points = new.points", "self._distance = new._distance"]:
        if frag not in rf:
            raise TranslationError(f"PsiContour.refine: expected statement missing: {frag}")
    ss = ast.unparse([m for m in class_methods(path, "PsiContour") if m.name == "setSelfToContour"][0])
    for frag in ["self.points = deepcopy(contour.points)", "self._distance = contour._distance", "self._fine_contour = contour._fine_contour", "self.startInd = contour.startInd", "self.endInd = contour.endInd"]:
        if frag not in ss:
            raise TranslationError(f"PsiContour.setSelfToContour: expected statement missing: {frag}")
    gd = ast.unparse([m for m in class_methods(path, "PsiContour") if m.name == "get_distance"][0])
    for frag in ["if self._distance is None:", "fine_contour = self.get_fine_contour(psi=psi)", "self._distance = [fine_contour.getDistance(p) for p in self]", "return self._distance"]:
        if frag not in gd:
            raise TranslationError(f"PsiContour.get_distance: expected statement missing: {frag}")
    gr = ast.unparse(get_function(path, "PsiContour.getRegridded"))
    for frag in ["interp_unadjusted = self._fine_contour.interpFunction()", "new_contour = self.newContourFromSelf(points=[interp(x) for x in s])",
                 "new_contour.replace(new_contour.startInd, self[self.startInd])", "new_contour.replace(new_contour.endInd, self[self.endInd])",
                 "new_contour._fine_contour = self._fine_contour", "new_contour._distance = None", "return new_contour"]:
        if frag not in gr:
            raise TranslationError(f"PsiContour.getRegridded: expected statement missing: {frag}")
    rg = ast.unparse(get_function(path, "PsiContour.regrid"))
    if "self.setSelfToContour(self.getRegridded(*args, **kwargs))" not in rg:
        raise TranslationError("PsiContour.regrid changed")
    return out


def option_flow(eqpath):
    facts = {}
    f1 = get_function(eqpath, "EquilibriumRegion.resetNonorthogonalOptions")
    facts["region_reset_fresh"] = [src_of(s) for s in nodoc(f1.body)] == ["self.nonorthogonal_options = self.nonorthogonal_options_factory.create(nonorthogonal_settings)"]
    f2 = get_function(eqpath, "Equilibrium.resetNonorthogonalOptions")
    facts["equilibrium_reset_fresh"] = [src_of(s) for s in nodoc(f2.body)] == [
        "self.nonorthogonal_options = self.nonorthogonal_options_factory.create(nonorthogonal_settings)",
        "for region in self.regions.values():\n    region.resetNonorthogonalOptions(dict(self.nonorthogonal_options))"]
    init = get_function(eqpath, "EquilibriumRegion.__init__")
    srcs = [src_of(s) for s in ast.walk(init) if isinstance(s, ast.Assign)]
    facts["region_factory_shared"] = "self.nonorthogonal_options_factory = self.equilibrium.nonorthogonal_options_factory" in srcs
    facts["region_options_from_equilibrium"] = "self.nonorthogonal_options = self.nonorthogonal_options_factory.create(self.equilibrium.nonorthogonal_options)" in srcs
    # where the factory objects are re-bound anywhere in the file
    with open(eqpath) as f:
        tree = ast.parse(f.read())
    rebinding = sorted(src_of(n) for n in ast.walk(tree) if isinstance(n, ast.Assign) and any(src_of(t).endswith("nonorthogonal_options_factory") for t in n.targets))
    facts["factory_bindings"] = rebinding
    return facts


def mesh_flow(mpath):
    facts = {}
    rp = get_function(mpath, "Mesh.redistributePoints")
    body = noprint(rp.body)
    want = ["self.equilibrium.resetNonorthogonalOptions(nonorthogonal_settings)",
            "if self.user_options.orthogonal:\n    raise ValueError('redistributePoints would do nothing for an orthogonal grid.')"]
    got = [src_of(s) for s in body[:2]]
    loop = body[2] if len(body) in (3, 4) else None
    facts["redistribute_refreshes_RZ"] = len(body) == 4 and src_of(body[3]) == "self.calculateRZ()"
    if len(body) == 4 and not facts["redistribute_refreshes_RZ"]:
        raise TranslationError(f"redistributePoints: unexpected trailing statement {src_of(body[3])[:60]}")
    ok = got == want and isinstance(loop, ast.For) and src_of(loop.iter) == "self.regions.values()" and src_of(loop.target) == "region" and not loop.orelse \
        and [src_of(s) for s in noprint(loop.body)] == ["region.distributePointsNonorthogonal(nonorthogonal_settings)"]
    facts["redistribute_all_regions"] = bool(ok)
    dp = get_function(mpath, "MeshRegion.distributePointsNonorthogonal")
    top = noprint(dp.body)
    facts["distribute_resets_first"] = src_of(top[0]) == "if nonorthogonal_settings is not None:\n    self.equilibriumRegion.resetNonorthogonalOptions(nonorthogonal_settings)"
    # no early exit at the top level of the function, no write to the orthogonal spacing functions
    own = [n for n in ast.walk(dp)]
    inner_funcs = [n for n in ast.walk(dp) if isinstance(n, ast.FunctionDef) and n is not dp]
    inner_nodes = set()
    for f in inner_funcs:
        inner_nodes |= set(id(x) for x in ast.walk(f))
    facts["distribute_no_early_return"] = not any(isinstance(n, ast.Return) and id(n) not in inner_nodes for n in own)
    facts["distribute_keeps_sfunc_orthogonal"] = not any(isinstance(n, (ast.Assign, ast.AugAssign)) and "sfunc_orthogonal_list" in "".join(src_of(t) for t in (n.targets if isinstance(n, ast.Assign) else [n.target])) for n in own)
    loops = [n for n in top if isinstance(n, ast.For)]
    okl = False
    for lp in loops:
        if src_of(lp.iter) == "zip(range(len(self.contours)), self.contours, self.sfunc_orthogonal_list)":
            calls = [s for s in noprint(lp.body)]
            okl = len(calls) == 1 and isinstance(calls[0], ast.Expr) and src_of(calls[0].value.func) == "c.regrid" and "sfunc=get_sfunc(i, c, sfunc_orth)" in src_of(calls[0]) and "refine=False" in src_of(calls[0])
    facts["distribute_regrids_every_contour"] = okl
    facts["distribute_refines_all"] = "self.contours = self.parallel_map(PsiContour.refine, ((c,) for c in self.contours))" in ast.unparse(dp)
    # the orthogonal spacing functions are created in addPointAtWallToContours only
    with open(mpath) as f:
        tree = ast.parse(f.read())
    writers = set()
    for cls in tree.body:
        if isinstance(cls, ast.ClassDef):
            for m in cls.body:
                if isinstance(m, ast.FunctionDef):
                    for n in ast.walk(m):
                        if isinstance(n, (ast.Assign, ast.AugAssign)):
                            tg = n.targets if isinstance(n, ast.Assign) else [n.target]
                            if any("sfunc_orthogonal_list" in src_of(t) for t in tg):
                                writers.add(f"{cls.name}.{m.name}")
    facts["sfunc_orthogonal_writers"] = sorted(writers)
    # Mesh.geometry recomputes everything for every region, unconditionally
    ge = get_function(mpath, "Mesh.geometry")
    seq = []
    for s in noprint(ge.body):
        if isinstance(s, ast.For) and src_of(s.iter) == "self.regions.values()":
            inner = noprint(s.body)
            if len(inner) == 1 and isinstance(inner[0], ast.Expr) and isinstance(inner[0].value, ast.Call):
                seq.append(src_of(inner[0].value.func))
            elif len(inner) == 1 and isinstance(inner[0], ast.If) and "hasattr(region, 'Rxy')" in src_of(inner[0].test) and [src_of(x) for x in noprint(inner[0].body)] == ["self.calculateRZ()", "break"]:
                seq.append("calculateRZ-if-missing")
            else:
                seq.append("?" + src_of(s)[:60])
    facts["geometry_sequence"] = seq
    g1 = get_function(mpath, "MeshRegion.geometry1")
    facts["geometry1_no_caching"] = not any(isinstance(n, ast.Call) and src_of(n.func) == "hasattr" and not src_of(n).startswith("hasattr(self.meshParent.equilibrium.regions") and "pressure" not in src_of(n) for n in ast.walk(g1))
    # BoutMesh.geometry collects the regions' fields: does it alias the first region's attributes dict (and then write into it)?
    bg = get_function(mpath, "BoutMesh.geometry")
    att = [n for n in ast.walk(bg) if isinstance(n, ast.Assign) and src_of(n.targets[0]) == "f.attributes"]
    if len(att) != 2:
        raise TranslationError(f"BoutMesh.geometry: expected two `f.attributes = ...` assignments, found {len(att)}")
    def is_copy(v):
        t = src_of(v)
        return (t.startswith("dict(") or t.startswith("copy(") or t.startswith("deepcopy(") or t.startswith("copy.copy(") or t.startswith("copy.deepcopy(") or t.endswith(".copy()")) and ".attributes" in t
    def is_alias(v):
        return src_of(v).endswith(".attributes")
    if not all(is_copy(a.value) or is_alias(a.value) for a in att):
        raise TranslationError("BoutMesh.geometry: unexpected right-hand side of f.attributes")
    writes = any(isinstance(n, ast.Assign) and src_of(n.targets[0]).startswith("f.attributes[") for n in ast.walk(bg))
    facts["geometry_reentrant"] = all(is_copy(a.value) for a in att) or not writes
    cr = get_function(mpath, "Mesh.calculateRZ")
    facts["calculateRZ_sequence"] = [src_of(inner.value.func) for s in noprint(cr.body) if isinstance(s, ast.For) for inner in noprint(s.body) if isinstance(inner, ast.Expr) and isinstance(inner.value, ast.Call)]
    return facts


def skeleton_flag(repo):
    """EquilibriumRegion.getSfuncFixedSpacing, branch method == 'nonorthogonal' (how the separatrix skeleton is gridded when the mesh is BUILT): every spacing
    function constructed there must be given the spacing parameters that come from the ORTHOGONAL options (spacings['nonorthogonal_orthogonal_d_lower' / '_upper'],
    i.e. target_*_poloidal_spacing_length / xpoint_poloidal_spacing_length), never the defaults that read the nonorthogonal_* options"""
    path = os.path.join(repo, "hypnotoad/core/equilibrium.py")
    fn = get_function(path, "EquilibriumRegion.getSfuncFixedSpacing")
    branch = None
    for n in ast.walk(fn):
        if isinstance(n, ast.If) and src_of(n.test) == "method == 'nonorthogonal'":
            branch = n
    if branch is None:
        raise TranslationError("getSfuncFixedSpacing: branch method == 'nonorthogonal' not found")
    calls = [c for st in branch.body for c in ast.walk(st) if isinstance(c, ast.Call) and src_of(c.func) in ("self.combineSfuncs", "self.getSfuncFixedSpacing")]
    if len(calls) < 4:
        raise TranslationError(f"getSfuncFixedSpacing: expected at least 4 constructor calls in the nonorthogonal branch, found {len(calls)}")
    ok = True
    for c in calls:
        kw = {k.arg: src_of(k.value) for k in c.keywords}
        if kw.get("spacing_lower") != "spacings['nonorthogonal_orthogonal_d_lower']" or kw.get("spacing_upper") != "spacings['nonorthogonal_orthogonal_d_upper']":
            ok = False
    # ... and those two parameters must come from the orthogonal options
    gs = ast.unparse(get_function(path, "EquilibriumRegion.getSpacings"))
    for frag in ("nonorthogonal_orthogonal_d_lower = self.getTargetParameter('target_poloidal_spacing_length')", "nonorthogonal_orthogonal_d_lower = self.user_options.xpoint_poloidal_spacing_length",
                 "nonorthogonal_orthogonal_d_upper = self.getTargetParameter('target_poloidal_spacing_length')", "nonorthogonal_orthogonal_d_upper = self.user_options.xpoint_poloidal_spacing_length"):
        if frag not in gs:
            ok = False
    return ok


def emit(repo):
    eqp = os.path.join(repo, "hypnotoad/core/equilibrium.py")
    mp = os.path.join(repo, "hypnotoad/core/mesh.py")
    eff = contour_effects(eqp)
    of = option_flow(eqp)
    mf = mesh_flow(mp)
    b = lambda x: "true" if x else "false"
    L = ["(* GENERATED by /verif/translate/regrid.py from equilibrium.py (PsiContour, option flow) and mesh.py (regridding path) -- do not edit. *)",
         "From Coq Require Import List String Bool.", "Import ListNotations.", "Open Scope string_scope.", "",
         "(* effect of each PsiContour method: changes the point list / changes the (startInd, endInd, extend) key / calls _reset_cached / sets _distance := None /",
         "   copies points together with the caches of another contour (refine, setSelfToContour) *)",
         "Record effect := { e_name : string; e_points : bool; e_key : bool; e_reset : bool; e_clear_dist : bool; e_adopts : bool }.",
         "Definition contour_methods : list effect := ["]
    rows = []
    for e in eff:
        adopts = e["name"] in ("refine", "setSelfToContour") and e["set_dist"]
        rows.append(f'  {{| e_name := "{e["name"]}"; e_points := {b(e["points"])}; e_key := {b(e["key"])}; e_reset := {b(e["reset"])}; e_clear_dist := {b(e["clear_dist"])}; e_adopts := {b(adopts)} |}}')
    L.append(";\n".join(rows) + "].")
    L += ["", "(* option flow *)",
          f"Definition region_reset_fresh : bool := {b(of['region_reset_fresh'])}.",
          f"Definition equilibrium_reset_fresh : bool := {b(of['equilibrium_reset_fresh'])}.",
          f"Definition region_factory_shared : bool := {b(of['region_factory_shared'])}.",
          f"Definition region_options_from_equilibrium : bool := {b(of['region_options_from_equilibrium'])}.",
          "(* regridding path *)",
          f"Definition redistribute_all_regions : bool := {b(mf['redistribute_all_regions'])}.",
          f"Definition redistribute_refreshes_RZ : bool := {b(mf['redistribute_refreshes_RZ'])}.",
          f"Definition distribute_resets_first : bool := {b(mf['distribute_resets_first'])}.",
          f"Definition distribute_no_early_return : bool := {b(mf['distribute_no_early_return'])}.",
          f"Definition distribute_keeps_sfunc_orthogonal : bool := {b(mf['distribute_keeps_sfunc_orthogonal'])}.",
          f"Definition distribute_regrids_every_contour : bool := {b(mf['distribute_regrids_every_contour'] and mf['distribute_refines_all'])}.",
          f"Definition sfunc_orthogonal_written_at_build_only : bool := {b(mf['sfunc_orthogonal_writers'] == ['MeshRegion.addPointAtWallToContours'])}.",
          f"Definition geometry_recomputes_all : bool := {b(mf['geometry_sequence'] == ['calculateRZ-if-missing', 'region.calcDistances', 'region.geometry1', 'region.geometry2', 'region.calcZShift', 'region.calcMetric'][:len(mf['geometry_sequence'])] and len(mf['geometry_sequence']) >= 6 and mf['geometry1_no_caching'])}.",
          f"Definition geometry_reentrant : bool := {b(mf['geometry_reentrant'])}.",
          f"Definition skeleton_ignores_nonorthogonal_settings : bool := {b(skeleton_flag(repo))}.",
          f"Definition calculateRZ_refills_all : bool := {b(mf['calculateRZ_sequence'] == ['region.fillRZ', 'region.getRZBoundary', 'region.calcPenaltyMask'])}.", ""]
    d = dict(effects=eff)
    d.update(of)
    d.update(mf)
    return "\n".join(L), d


if __name__ == "__main__":
    text, d = emit(sys.argv[1] if len(sys.argv) > 1 else "/repo")
    print(text)
    print({k: v for k, v in d.items() if k not in ("effects", "factory_bindings")})
