"""TokamakEquilibrium.__init__ option pre-processing (reverse_current, psi_divide_twopi, reverse_Bt) and the gfile consistency checks
-> coq/gen/Gen_Options.v.  Fail-closed."""
import ast
import os
import sys

sys.path.insert(0, os.path.dirname(os.path.abspath(__file__)))
from pyir import TranslationError, get_function, src_of

VARS = ("psi2D", "psi1D", "fpol1D", "psi_axis_gfile", "psi_bdry_gfile")
OPTS = ("reverse_current", "psi_divide_twopi", "reverse_Bt")
ARRAYS = ("psi2D", "psi1D", "fpol1D")      # numpy arrays of the caller: an augmented assignment modifies the caller's object
INPLACE = []
OUTSIDE = []


def nodoc(body):
    return [s for s in body if not (isinstance(s, ast.Expr) and (isinstance(s.value, ast.Constant) or (isinstance(s.value, ast.Call) and src_of(s.value.func) in ("print", "warnings.warn"))))]


def translate(repo):
    fn = get_function(os.path.join(repo, "hypnotoad/cases/tokamak.py"), "TokamakEquilibrium.__init__")
    body = nodoc(fn.body)
    INPLACE.clear()
    OUTSIDE.clear()
    # any other in-place operation on a parameter array anywhere in __init__
    for n in ast.walk(fn):
        if isinstance(n, ast.AugAssign) and src_of(n.target).split("[")[0] in ("R1D", "Z1D", "pressure", "wall"):
            INPLACE.append("other:" + src_of(n.target))
        if isinstance(n, ast.AugAssign) and src_of(n.target).split("[")[0] in ARRAYS:
            OUTSIDE.append(n)
        if isinstance(n, ast.Assign) and any(isinstance(t, ast.Subscript) and src_of(t.value) in ARRAYS + ("R1D", "Z1D", "pressure", "wall") for t in n.targets):
            INPLACE.append("element:" + src_of(n.targets[0]))
        if isinstance(n, ast.Call) and src_of(n.func) in ("wall.reverse", "wall.sort", "wall.append"):
            INPLACE.append("call:" + src_of(n.func))
    blocks = []
    seen_use = False
    for s in body:
        t = src_of(s.test) if isinstance(s, ast.If) else None
        if t in ("self.user_options." + o for o in OPTS):
            if seen_use:
                raise TranslationError(f"option block {t} comes after the inputs have been used")
            opt = t.split(".")[-1]
            steps = []
            consts = {}
            for st in nodoc(s.body):
                if isinstance(st, ast.Assign) and src_of(st.targets[0]) == "twopi" and src_of(st.value) == "2 * np.pi":
                    consts["twopi"] = "(2 * PI)"
                    continue
                guard = None
                if isinstance(st, ast.If) and not st.orelse and len(nodoc(st.body)) == 1:
                    g = src_of(st.test)
                    inner = nodoc(st.body)[0]
                    if not (isinstance(inner, ast.AugAssign) and g == f"{src_of(inner.target)} is not None"):
                        raise TranslationError(f"{opt}: unexpected guarded statement {src_of(st)[:60]}")
                    st = inner
                inplace = True
                if isinstance(st, ast.Assign) and len(st.targets) == 1 and src_of(st.targets[0]) in VARS:
                    # rebinding form: x = x * c, x = x / c, x = -x, x = c * x  (does not touch the caller's object)
                    tname = src_of(st.targets[0])
                    v = st.value
                    if isinstance(v, ast.UnaryOp) and isinstance(v.op, ast.USub) and src_of(v.operand) == tname:
                        st = ast.AugAssign(target=st.targets[0], op=ast.Mult(), value=ast.Constant(-1.0))
                    elif isinstance(v, ast.BinOp) and isinstance(v.op, (ast.Mult, ast.Div)) and src_of(v.left) == tname:
                        st = ast.AugAssign(target=st.targets[0], op=v.op, value=v.right)
                    elif isinstance(v, ast.BinOp) and isinstance(v.op, ast.Mult) and src_of(v.right) == tname:
                        st = ast.AugAssign(target=st.targets[0], op=v.op, value=v.left)
                    else:
                        raise TranslationError(f"{opt}: unexpected assignment {src_of(st)[:60]}")
                    inplace = False
                if not isinstance(st, ast.AugAssign) or src_of(st.target) not in VARS:
                    raise TranslationError(f"{opt}: unexpected statement {src_of(st)[:60]}")
                op = {ast.Mult: "*", ast.Div: "/"}.get(type(st.op))
                v = src_of(st.value)
                if op is None or (v not in consts and v not in ("-1.0", "-1")):
                    raise TranslationError(f"{opt}: unexpected update {src_of(st)}")
                steps.append((src_of(st.target), op, consts.get(v, "(-1)")))
                if inplace and src_of(st.target) in ARRAYS:
                    INPLACE.append(f"{opt}:{src_of(st.target)}")
            if s.orelse:
                raise TranslationError(f"{opt}: unexpected else branch")
            blocks.append((opt, steps))
        else:
            # any other statement that mentions an input array ends the pre-processing section
            names = {n.id for n in ast.walk(s) if isinstance(n, ast.Name)}
            if names & set(VARS):
                seen_use = True
    in_blocks = set()
    for s2 in body:
        if isinstance(s2, ast.If) and src_of(s2.test) in ("self.user_options." + o for o in OPTS):
            in_blocks |= {id(x) for x in ast.walk(s2)}
    for n2 in OUTSIDE:
        if id(n2) not in in_blocks:
            INPLACE.append(f"outside-option-blocks:{src_of(n2)}")
    if [b[0] for b in blocks] != list(OPTS):
        raise TranslationError(f"option blocks found: {[b[0] for b in blocks]}")
    # gfile consistency checks
    src = "\n".join(l.strip() for l in ast.unparse(fn).splitlines())
    for nm in ("axis", "bdry"):
        frag = f"psi_{nm}_gfile is not None and abs(self.psi_{nm} - psi_reverse_sign * psi_{nm}_gfile) > 0.001"
        if frag not in src:
            raise TranslationError(f"gfile check for psi_{nm} changed")
    if src.count("psi_reverse_sign = -1.0 if self.user_options.reverse_current else 1.0") != 2:
        raise TranslationError("psi_reverse_sign definition changed")
    return blocks


def emit(repo):
    blocks = translate(repo)
    L = ["(* GENERATED by /verif/translate/options.py from TokamakEquilibrium.__init__ -- do not edit. *)", "From Coq Require Import Reals.", "Local Open Scope R_scope.", "",
         "Record eqin := mkin { i_psi2D : R; i_psi1D : R; i_fpol1D : R; i_axis_gfile : R; i_bdry_gfile : R }.", ""]
    fld = dict(zip(VARS, ("i_psi2D", "i_psi1D", "i_fpol1D", "i_axis_gfile", "i_bdry_gfile")))
    for opt, steps in blocks:
        upd = {v: f"{fld[v]} x" for v in VARS}
        for tgt, op, val in steps:
            upd[tgt] = f"({upd[tgt]} {op} {val})"
        L.append(f"Definition T_{opt} (x : eqin) : eqin := mkin {' '.join('(' + upd[v] + ')' for v in VARS)}.")
    L += ["", "(* the blocks are applied in source order *)",
          "Definition T_preprocess (rc dt rb : bool) (x : eqin) : eqin :=",
          "  let x1 := if rc then T_reverse_current x else x in", "  let x2 := if dt then T_psi_divide_twopi x1 else x1 in", "  if rb then T_reverse_Bt x2 else x2.",
          "(* what the psi_axis / psi_bdry consistency checks compare the O-/X-point value with *)",
          "Definition T_gfile_reference (rc : bool) (gfile_value : R) : R := (if rc then -1 else 1) * gfile_value.",
          "(* does the constructor modify the caller's arrays (augmented assignment on a numpy array parameter)? *)",
          f"Definition T_inplace_on_caller_arrays : bool := {'true' if INPLACE else 'false'}.  (* {', '.join(INPLACE) or 'none'} *)", ""]
    return "\n".join(L), blocks


if __name__ == "__main__":
    print(emit(sys.argv[1] if len(sys.argv) > 1 else "/repo")[0])
