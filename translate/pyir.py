"""Fail-closed translator core: Python `ast`  ->  expression IR  ->  Coq text / Python evaluator.

IR (nested tuples):
  ('var', name) ('const', Fraction) ('add',a,b) ('sub',a,b) ('mul',a,b) ('div',a,b) ('neg',a)
  ('pow',a,n:int>=0) ('call', fname, (args...))   fname in FUNCS
  ('ite', cond, a, b)   cond: ('lt'|'le'|'gt'|'ge', a, b)
  ('opaque', reason)    -- anything the translator does not understand (fail-closed when used)

The same IR is printed as Gallina over an abstract operations record (instantiated with R for
the theorems and with PrimFloat for evaluation) and evaluated in Python for translation validation.
"""
import ast
import math
from fractions import Fraction

FUNCS = {"sqrt", "abs", "sin", "cos", "tan", "exp", "log", "atan", "erf"}
NUMPY_FUNCS = {"sqrt": "sqrt", "abs": "abs", "absolute": "abs", "fabs": "abs", "sin": "sin", "cos": "cos",
               "tan": "tan", "exp": "exp", "log": "log", "arctan": "atan"}


class TranslationError(Exception):
    pass


def src_of(node):
    return ast.unparse(node)


def get_function(path, qualname):
    """Return the ast.FunctionDef for 'Class.method' / 'func' / 'Class.method.inner'."""
    with open(path) as f:
        tree = ast.parse(f.read())
    node = tree
    for part in qualname.split("."):
        found = None
        for ch in iter_defs(node):
            if ch.name == part:
                found = ch
                break
        if found is None:
            raise TranslationError(f"{path}: cannot find {qualname} (missing {part})")
        node = found
    return node


def iter_defs(node):
    """Direct and nested (through if/with/for/try blocks, not through other defs) definitions."""
    todo = list(getattr(node, "body", []))
    while todo:
        n = todo.pop(0)
        if isinstance(n, (ast.FunctionDef, ast.ClassDef)):
            yield n
        else:
            for fld in ("body", "orelse", "finalbody", "handlers"):
                todo.extend(getattr(n, fld, []) or [])


def opaque(reason):
    return ("opaque", reason)


def is_opaque(e):
    if not isinstance(e, tuple):
        return False
    if e[0] == "opaque":
        return True
    return any(is_opaque(x) for x in e[1:] if isinstance(x, tuple)) or any(
        is_opaque(y) for x in e[1:] if isinstance(x, tuple) and x and isinstance(x[0], tuple) for y in x
    )


def find_opaque(e):
    if not isinstance(e, tuple):
        return None
    if e and e[0] == "opaque":
        return e[1]
    for x in e[1:]:
        if isinstance(x, tuple):
            if x and isinstance(x[0], tuple):
                for y in x:
                    r = find_opaque(y)
                    if r:
                        return r
            else:
                r = find_opaque(x)
                if r:
                    return r
    return None


class Exec:
    """Symbolic execution of straight-line numeric code.

    attr_prefixes: attribute chains treated as plain variable names, e.g. 'self.' so that
      self.Rxy -> variable Rxy.  env maps names to IR.
    decisions: {unparsed test text: True/False} for `if` statements.
    calls: {callee source text: handler(args_ir)->IR} for user functions.
    """

    def __init__(self, decisions=None, calls=None, strip=("self.",), consts=None, name_map=None):
        self.env = {}
        self.decisions = decisions or {}
        self.calls = calls or {}
        self.strip = strip
        self.consts = consts or {}
        self.ignored = []
        self.name_map = name_map or {}
        self.reads = set()

    # ---------- names
    def name_of(self, node):
        s = src_of(node)
        for p in self.strip:
            if s.startswith(p):
                s = s[len(p):]
        s = self.name_map.get(s, s)
        return s

    # ---------- expressions
    def expr(self, n):
        if isinstance(n, ast.Constant):
            if isinstance(n.value, bool) or not isinstance(n.value, (int, float)):
                return opaque(f"constant {n.value!r}")
            if isinstance(n.value, float) and (math.isnan(n.value) or math.isinf(n.value)):
                return opaque("non-finite constant")
            return ("const", Fraction(repr(n.value)) if isinstance(n.value, float) else Fraction(n.value))
        if isinstance(n, (ast.Name, ast.Attribute)):
            nm = self.name_of(n)
            if nm in self.env:
                return self.env[nm]
            if nm in self.consts:
                return self.consts[nm]
            if not nm.replace("_", "a").replace(".", "_").isidentifier():
                return opaque(f"name {nm}")
            self.reads.add(nm)
            return ("var", nm)
        if isinstance(n, ast.Subscript):
            nm = self.name_of(n)
            if nm in self.env:
                return self.env[nm]
            if nm in self.sub_inputs:
                self.reads.add(self.sub_inputs[nm])
                return ("var", self.sub_inputs[nm])
            return opaque(f"subscript {nm}")
        if isinstance(n, ast.UnaryOp):
            if isinstance(n.op, ast.USub):
                return ("neg", self.expr(n.operand))
            if isinstance(n.op, ast.UAdd):
                return self.expr(n.operand)
            return opaque(f"unary {src_of(n)}")
        if isinstance(n, ast.BinOp):
            a = self.expr(n.left)
            if isinstance(n.op, ast.Pow):
                e = n.right
                if isinstance(e, ast.Constant) and isinstance(e.value, int) and 0 <= e.value <= 8:
                    return ("pow", a, e.value)
                if isinstance(e, ast.Constant) and e.value == 2.0:
                    return ("pow", a, 2)
                if isinstance(e, ast.Constant) and e.value == 0.5:
                    return ("call", "sqrt", (a,))
                return opaque(f"power {src_of(n)}")
            b = self.expr(n.right)
            op = {ast.Add: "add", ast.Sub: "sub", ast.Mult: "mul", ast.Div: "div"}.get(type(n.op))
            if op is None:
                return opaque(f"operator {src_of(n)}")
            return (op, a, b)
        if isinstance(n, ast.Call):
            f = src_of(n.func)
            if f in self.calls:
                return self.calls[f](self, n)
            base = f.split(".")[-1]
            if (f.startswith("numpy.") or f.startswith("np.") or f.startswith("math.")) and base in NUMPY_FUNCS and len(n.args) == 1 and not n.keywords:
                return ("call", NUMPY_FUNCS[base], (self.expr(n.args[0]),))
            if f == "abs" and len(n.args) == 1:
                return ("call", "abs", (self.expr(n.args[0]),))
            if f == "float" and len(n.args) == 1:
                return self.expr(n.args[0])
            return opaque(f"call {f}")
        if isinstance(n, ast.IfExp):
            c = self.cond(n.test)
            return ("ite", c, self.expr(n.body), self.expr(n.orelse))
        return opaque(f"expression {src_of(n)[:60]}")

    def cond(self, n):
        if isinstance(n, ast.Compare) and len(n.ops) == 1:
            op = {ast.Lt: "lt", ast.LtE: "le", ast.Gt: "gt", ast.GtE: "ge"}.get(type(n.ops[0]))
            if op:
                return (op, self.expr(n.left), self.expr(n.comparators[0]))
        return ("lt", opaque(f"condition {src_of(n)}"), ("const", Fraction(0)))

    # ---------- statements
    def assigned_names(self, stmts):
        out = set()
        for s in stmts:
            for n in ast.walk(s):
                if isinstance(n, (ast.Assign, ast.AugAssign, ast.AnnAssign)):
                    tg = n.targets if isinstance(n, ast.Assign) else [n.target]
                    for t in tg:
                        for e in (t.elts if isinstance(t, ast.Tuple) else [t]):
                            while isinstance(e, ast.Subscript):
                                e = e.value
                            out.add(self.name_of(e))
        return out

    def run(self, stmts):
        for s in stmts:
            self.stmt(s)

    def stmt(self, s):
        if isinstance(s, ast.Assign) and isinstance(s.value, ast.List) and len(s.targets) == 1 and isinstance(s.targets[0], ast.Name):
            base = self.name_of(s.targets[0])
            for k, el in enumerate(s.value.elts):
                self.env[f"{base}[{k}]"] = self.expr(el)
            self.env[base] = opaque("list object")
            return
        if isinstance(s, ast.Assign):
            val = self.expr(s.value)
            for t in s.targets:
                self.assign(t, val, s)
        elif isinstance(s, ast.AugAssign):
            op = {ast.Add: "add", ast.Sub: "sub", ast.Mult: "mul", ast.Div: "div"}.get(type(s.op))
            cur = self.expr(s.target)
            val = (op, cur, self.expr(s.value)) if op else opaque(f"augassign {src_of(s)}")
            self.assign(s.target, val, s)
        elif isinstance(s, ast.If):
            key = src_of(s.test)
            if key in self.decisions:
                self.run(s.body if self.decisions[key] else s.orelse)
            else:
                names = self.assigned_names(s.body) | self.assigned_names(s.orelse)
                for nm in names:
                    if nm in self.patch_ok:
                        self.ignored.append(f"patch of {nm} under `if {key}`")
                    else:
                        self.env[nm] = opaque(f"assigned under undecided `if {key}`")
                self.ignored.append(f"if {key[:80]}")
        elif isinstance(s, (ast.For, ast.While, ast.With, ast.Try)):
            for nm in self.assigned_names([s]):
                self.env[nm] = opaque(f"assigned inside {type(s).__name__} at line {s.lineno}")
        elif isinstance(s, (ast.FunctionDef, ast.Raise, ast.Pass, ast.Return, ast.Import, ast.ImportFrom, ast.Assert)):
            self.ignored.append(type(s).__name__)
        elif isinstance(s, ast.Expr):
            self.ignored.append("expr " + src_of(s)[:60])
        else:
            raise TranslationError(f"unsupported statement {type(s).__name__} at line {s.lineno}")

    patch_ok = frozenset()
    sub_inputs = {}

    def assign(self, target, val, stmt):
        if isinstance(target, ast.Subscript) and self.name_of(target) in self.env:
            self.env[self.name_of(target)] = val      # element of a literal list
            return
        if isinstance(target, ast.Subscript):
            base = target
            while isinstance(base, ast.Subscript):
                base = base.value
            nm = self.name_of(base)
            root = nm.split(".")[0]
            if root in self.patch_ok or nm in self.patch_ok:
                self.ignored.append(f"element patch {src_of(target)}")
            else:
                self.env[root] = opaque(f"element assignment {src_of(target)} at line {stmt.lineno}")
            return
        if isinstance(target, ast.Tuple):
            for e in target.elts:
                self.env[self.name_of(e)] = opaque("tuple assignment")
            return
        self.env[self.name_of(target)] = val


# ------------------------------------------------------------------ printers
def free_vars(e, acc=None):
    acc = set() if acc is None else acc
    if e[0] == "var":
        acc.add(e[1])
    elif e[0] == "call":
        for a in e[2]:
            free_vars(a, acc)
    elif e[0] == "ite":
        free_vars(e[1][1], acc), free_vars(e[1][2], acc), free_vars(e[2], acc), free_vars(e[3], acc)
    elif e[0] in ("const", "opaque"):
        pass
    else:
        for a in e[1:]:
            if isinstance(a, tuple):
                free_vars(a, acc)
    return acc


def coq_ident(name):
    return "v_" + name.replace(".", "_")


def to_coq(e):
    k = e[0]
    if k == "var":
        return coq_ident(e[1])
    if k == "const":
        q = e[1]
        return f"(oconst O ({q.numerator})%Z ({q.denominator})%Z)"
    if k in ("add", "sub", "mul", "div"):
        return f"(o{k} O {to_coq(e[1])} {to_coq(e[2])})"
    if k == "neg":
        return f"(oopp O {to_coq(e[1])})"
    if k == "pow":
        return f"(opow O {to_coq(e[1])} {e[2]}%nat)"
    if k == "call":
        return f"(o{e[1]} O {' '.join(to_coq(a) for a in e[2])})"
    if k == "ite":
        c = e[1]
        return f"(if o{c[0]} O {to_coq(c[1])} {to_coq(c[2])} then {to_coq(e[2])} else {to_coq(e[3])})"
    raise TranslationError(f"cannot print {k}: {e[1] if len(e) > 1 else ''}")


def py_eval(e, env):
    """Evaluate IR in Python floats (numpy arrays allowed) -- translation validation."""
    import numpy
    k = e[0]
    if k == "var":
        return env[e[1]]
    if k == "const":
        return float(e[1])
    if k == "add":
        return py_eval(e[1], env) + py_eval(e[2], env)
    if k == "sub":
        return py_eval(e[1], env) - py_eval(e[2], env)
    if k == "mul":
        return py_eval(e[1], env) * py_eval(e[2], env)
    if k == "div":
        return py_eval(e[1], env) / py_eval(e[2], env)
    if k == "neg":
        return -py_eval(e[1], env)
    if k == "pow":
        return py_eval(e[1], env) ** e[2]
    if k == "call":
        f = {"sqrt": numpy.sqrt, "abs": numpy.abs, "sin": numpy.sin, "cos": numpy.cos, "tan": numpy.tan,
             "exp": numpy.exp, "log": numpy.log, "atan": numpy.arctan}[e[1]]
        return f(*[py_eval(a, env) for a in e[2]])
    if k == "ite":
        c = e[1]
        a, b = py_eval(c[1], env), py_eval(c[2], env)
        t = {"lt": a < b, "le": a <= b, "gt": a > b, "ge": a >= b}[c[0]]
        return numpy.where(t, py_eval(e[2], env), py_eval(e[3], env))
    raise TranslationError(f"cannot evaluate {k}")


def emit_defs(module_comment, defs, inputs):
    """defs: list of (name, IR).  All definitions take the same `inputs` (list of names)."""
    lines = [f"(* GENERATED by /verif/translate -- do not edit.  {module_comment} *)",
             "From Coq Require Import ZArith.", "From HT Require Import Field.", ""]
    args = " ".join(coq_ident(i) for i in inputs)
    for name, e in defs:
        op = find_opaque(e)
        if op:
            raise TranslationError(f"{name}: not translatable: {op}")
        extra = free_vars(e) - set(inputs)
        if extra:
            raise TranslationError(f"{name}: reads {sorted(extra)} which are not declared inputs")
        lines.append(f"Definition {name} {{T : Type}} (O : ops T) ({args} : T) : T :=\n  {to_coq(e)}.")
        lines.append("")
    return "\n".join(lines)
