"""equilibrium.py: Equilibrium.getSmoothMonotonicGridFunc (branch guards and returned spacing functions) and
make1dGrid  ->  coq/gen/Gen_Radial.v.   Fail-closed: the if/elif skeleton must have exactly the expected shape."""
import ast
import os
import sys
from fractions import Fraction

sys.path.insert(0, os.path.dirname(os.path.abspath(__file__)))
import pyir
from pyir import Exec, TranslationError, get_function, src_of


def expect(cond, msg):
    if not cond:
        raise TranslationError("getSmoothMonotonicGridFunc: " + msg)


def is_none_test(node, names):
    """`x is None` / `x is None and y is None`"""
    def one(n):
        return isinstance(n, ast.Compare) and len(n.ops) == 1 and isinstance(n.ops[0], ast.Is) and isinstance(n.comparators[0], ast.Constant) \
            and n.comparators[0].value is None and isinstance(n.left, ast.Name) and n.left.id
    if isinstance(node, ast.BoolOp) and isinstance(node.op, ast.And):
        got = [one(v) for v in node.values]
    else:
        got = [one(node)]
    return got == names


class RExec(Exec):
    """numeric expressions of the spacing functions: adds numpy.pi and erf"""

    def expr(self, n):
        if isinstance(n, ast.Attribute) and src_of(n) in ("numpy.pi", "np.pi", "math.pi"):
            return ("pi",)
        if isinstance(n, ast.Call) and src_of(n.func) == "erf" and len(n.args) == 1:
            return ("call", "erf", (self.expr(n.args[0]),))
        return super().expr(n)


def lam(ex, ret):
    expect(isinstance(ret, ast.Return) and isinstance(ret.value, ast.Lambda) and [a.arg for a in ret.value.args.args] == ["i"], "branch does not return `lambda i: ...`")
    sub = RExec(strip=())
    sub.env = dict(ex.env)
    sub.env.pop("i", None)
    return sub.expr(ret.value.body)


def guard_ir(test):
    ex = RExec(strip=())
    c = ex.cond(test)
    if pyir.find_opaque(c[1]) or pyir.find_opaque(c[2]):
        raise TranslationError(f"branch guard not translatable: {src_of(test)}")
    return c


def translate(repo):
    path = os.path.join(repo, "hypnotoad/core/equilibrium.py")
    fn = get_function(path, "Equilibrium.getSmoothMonotonicGridFunc")
    body = [s for s in fn.body if not (isinstance(s, ast.Expr) and isinstance(s.value, ast.Constant))]
    expect(len(body) == 3 and all(isinstance(s, ast.If) for s in body), "expected two sign checks followed by one if/elif ladder")
    out = {"sign_checks": [src_of(body[0].test), src_of(body[1].test)]}
    for s, g in zip(body[:2], ("grad_lower", "grad_upper")):
        expect(src_of(s.test) == f"{g} is not None and (upper - lower) * {g} < 0", f"sign check on {g} changed: {src_of(s.test)}")
        expect(len(s.body) == 1 and isinstance(s.body[0], ast.Raise), f"sign check on {g} does not raise")
    top = body[2]
    expect(is_none_test(top.test, ["grad_lower", "grad_upper"]), "first case is not `grad_lower is None and grad_upper is None`")
    ex0 = RExec(strip=())
    out["linear"] = lam(ex0, top.body[0])
    expect(len(top.orelse) == 1 and isinstance(top.orelse[0], ast.If), "elif chain broken")
    low = top.orelse[0]
    expect(is_none_test(low.test, ["grad_upper"]), "second case is not `grad_upper is None`")
    up = low.orelse[0] if len(low.orelse) == 1 and isinstance(low.orelse[0], ast.If) else None
    expect(up is not None and is_none_test(up.test, ["grad_lower"]), "third case is not `grad_lower is None`")
    both = up.orelse
    expect(len(both) == 1 and isinstance(both[0], ast.If), "two-gradient case is not an if/else")

    def cubic_or_trig(ifnode, tag):
        expect(len(ifnode.body) == 2 and isinstance(ifnode.body[0], ast.Assign) and src_of(ifnode.body[0].targets[0]) == "a", f"{tag}: expected `a = ...; return lambda`")
        ex = RExec(strip=())
        ex.stmt(ifnode.body[0])
        out[tag + "_guard"] = guard_ir(ifnode.test)
        out[tag] = lam(ex, ifnode.body[1])
        out[tag + "_a"] = ex.env["a"]

    def erf_branch(stmts, tag):
        expect(len(stmts) == 3 and isinstance(stmts[0], ast.FunctionDef) and stmts[0].name == "constraint" and isinstance(stmts[1], ast.Assign)
               and src_of(stmts[1].value).startswith("brentq(constraint"), f"{tag}: expected `def constraint; a = brentq(constraint, ...); return lambda`")
        cfun = stmts[0]
        expect([a.arg for a in cfun.args.args] == ["a"] and len(cfun.body) == 1 and isinstance(cfun.body[0], ast.Return), f"{tag}: constraint(a) is not a single return")
        ex = RExec(strip=())
        out[tag + "_constraint"] = ex.expr(cfun.body[0].value)
        out[tag + "_bracket"] = src_of(stmts[1].value)
        ex2 = RExec(strip=())
        out[tag] = lam(ex2, stmts[2])

    cubic_or_trig(low.body[0], "lower_cubic") if len(low.body) == 1 and isinstance(low.body[0], ast.If) else expect(False, "grad_lower case is not an if/else")
    erf_branch(low.body[0].orelse, "lower_erf")
    expect(len(up.body) == 1 and isinstance(up.body[0], ast.If), "grad_upper case is not an if/else")
    cubic_or_trig(up.body[0], "upper_cubic")
    erf_branch(up.body[0].orelse, "upper_erf")
    cubic_or_trig(both[0], "both_trig")
    # the sici branch: only its shape is recorded (constraint, brentq bracket, j1, j2, psi); it is covered by the oracle
    names = [s.name if isinstance(s, ast.FunctionDef) else (src_of(s.targets[0]) if isinstance(s, ast.Assign) else type(s).__name__) for s in both[0].orelse]
    expect(names == ["constraint", "b", "j1", "j2", "psi", "Return"], f"two-gradient decreasing branch changed shape: {names}")
    ex = RExec(strip=())
    for s in both[0].orelse[2:4]:
        out[s.name] = ex.expr(s.body[0].value) if len(s.body) == 1 and isinstance(s.body[0], ast.Return) else pyir.opaque("j1/j2 body")
    for k, v in out.items():
        if isinstance(v, tuple) and k not in ("sign_checks",) and pyir.find_opaque(v):
            raise TranslationError(f"{k}: not translatable: {pyir.find_opaque(v)}")
    # ---- make1dGrid: result[::2] = face values, result[1::2] = midpoints, strict monotonicity check
    mk = get_function(path, "Equilibrium.make1dGrid")
    srcs = [src_of(s) for s in mk.body if not (isinstance(s, ast.Expr) and isinstance(s.value, ast.Constant))]
    want = ["face_vals = [spacingFunc(i) for i in range(n + 1)]", "result = numpy.zeros(2 * n + 1)", "result[::2] = face_vals",
            "result[1::2] = 0.5 * (result[:-1:2] + result[2::2])", "diffs = result[1:] - result[:-1]"]
    expect(srcs[:5] == want, f"make1dGrid changed: {srcs[:5]}")
    expect(srcs[5].startswith("if not (numpy.all(diffs > 0.0) or numpy.all(diffs < 0.0)):") and "raise ValueError" in srcs[5] and srcs[6] == "return result", "make1dGrid monotonicity check changed")
    out["make1dGrid"] = srcs
    return out


def to_coq(e):
    if e[0] == "pi":
        return "(opi O)"
    if e[0] == "call" and e[1] == "erf":
        return f"(erf {to_coq(e[2][0])})"
    if e[0] in ("var", "const"):
        return pyir.to_coq(e)
    k = e[0]
    if k in ("add", "sub", "mul", "div"):
        return f"(o{k} O {to_coq(e[1])} {to_coq(e[2])})"
    if k == "neg":
        return f"(oopp O {to_coq(e[1])})"
    if k == "pow":
        return f"(opow O {to_coq(e[1])} {e[2]}%nat)"
    if k == "call":
        return f"(o{e[1]} O {' '.join(to_coq(a) for a in e[2])})"
    raise TranslationError(f"cannot print {k}")


def py_eval(e, env):
    import numpy
    from scipy.special import erf
    if e[0] == "pi":
        return numpy.pi
    if e[0] == "call" and e[1] == "erf":
        return erf(py_eval(e[2][0], env))
    if e[0] in ("var", "const"):
        return pyir.py_eval(e, env)
    k = e[0]
    if k in ("add", "sub", "mul", "div"):
        a, b = py_eval(e[1], env), py_eval(e[2], env)
        return a + b if k == "add" else a - b if k == "sub" else a * b if k == "mul" else a / b
    if k == "neg":
        return -py_eval(e[1], env)
    if k == "pow":
        return py_eval(e[1], env) ** e[2]
    if k == "call":
        f = {"sqrt": numpy.sqrt, "abs": numpy.abs, "sin": numpy.sin, "cos": numpy.cos, "exp": numpy.exp, "log": numpy.log}[e[1]]
        return f(*[py_eval(a, env) for a in e[2]])
    raise TranslationError(k)


DEFS = [  # (name, key, inputs)
    ("radial_linear", "linear", ["n", "lower", "upper", "i"]),
    ("radial_lower_cubic", "lower_cubic", ["n", "lower", "upper", "grad_lower", "i"]),
    ("radial_upper_cubic", "upper_cubic", ["n", "lower", "upper", "grad_upper", "i"]),
    ("radial_both_trig", "both_trig", ["n", "lower", "upper", "grad_lower", "grad_upper", "i"]),
    ("radial_lower_erf", "lower_erf", ["n", "lower", "upper", "grad_lower", "a", "i"]),
    ("radial_upper_erf", "upper_erf", ["n", "lower", "upper", "grad_upper", "a", "i"]),
    ("radial_lower_erf_constraint", "lower_erf_constraint", ["n", "lower", "upper", "grad_lower", "a"]),
    ("radial_upper_erf_constraint", "upper_erf_constraint", ["n", "lower", "upper", "grad_upper", "a"]),
]
GUARDS = [("radial_lower_cubic_guard", "lower_cubic_guard", ["n", "lower", "upper", "grad_lower"]),
          ("radial_upper_cubic_guard", "upper_cubic_guard", ["n", "lower", "upper", "grad_upper"]),
          ("radial_both_trig_guard", "both_trig_guard", ["n", "lower", "upper", "grad_lower", "grad_upper"])]


def emit(repo):
    out = translate(repo)
    L = ["(* GENERATED by /verif/translate/radial.py from hypnotoad/core/equilibrium.py (getSmoothMonotonicGridFunc) -- do not edit. *)",
         "From Coq Require Import ZArith.", "From HT Require Import Field.", ""]
    for name, key, inputs in DEFS:
        e = out[key]
        extra = pyir.free_vars(_strip(e)) - set(inputs)
        if extra:
            raise TranslationError(f"{name}: reads {sorted(extra)} which are not declared inputs")
        args = " ".join(pyir.coq_ident(i) for i in inputs)
        L.append(f"Definition {name} {{T : Type}} (O : ops T) (erf : T -> T) ({args} : T) : T :=\n  {to_coq(e)}.\n")
    for name, key, inputs in GUARDS:
        c = out[key]
        extra = (pyir.free_vars(_strip(c[1])) | pyir.free_vars(_strip(c[2]))) - set(inputs)
        if extra:
            raise TranslationError(f"{name}: reads {sorted(extra)}")
        args = " ".join(pyir.coq_ident(i) for i in inputs)
        L.append(f"Definition {name} {{T : Type}} (O : ops T) ({args} : T) : bool :=\n  o{c[0]} O {to_coq(c[1])} {to_coq(c[2])}.\n")
    return "\n".join(L), out


def _strip(e):
    """replace pi / erf nodes so that pyir.free_vars can walk the tree"""
    if not isinstance(e, tuple):
        return e
    if e[0] == "pi":
        return ("const", Fraction(3))
    if e[0] == "call":
        return ("call", "abs" if e[1] == "erf" else e[1], tuple(_strip(a) for a in e[2]))
    return tuple(_strip(x) if isinstance(x, tuple) else x for x in e)


if __name__ == "__main__":
    text, out = emit(sys.argv[1] if len(sys.argv) > 1 else "/repo")
    print(text)
