"""equilibrium.py field helpers (Bzeta ... dBdZ, the spline/dct branches of magneticFunctionsFromGrid), tokamak.py
fpol/fpolprime/pressure, and mesh.py calc_curvature  ->  coq/gen/Gen_Fields.v  (real-valued functions of (R, Z) over
abstract interpolant functions psi, psiR, psiZ, psiRR, psiZZ, psiRZ and profile splines).  Fail-closed."""
import ast
import os
import sys
from fractions import Fraction

sys.path.insert(0, os.path.dirname(os.path.abspath(__file__)))
from pyir import TranslationError, get_function, src_of

HELPERS = ["Bzeta", "B2", "dBzetadR", "dBzetadZ", "dBRdR", "dBRdZ", "dBZdR", "dBZdZ", "dB2dR", "dB2dZ", "dBdR", "dBdZ"]
SPLINE_DERIV = {(0, 0): "psi", (1, 0): "psiR", (0, 1): "psiZ", (2, 0): "psiRR", (0, 2): "psiZZ", (1, 1): "psiRZ"}
DCT = {"self._dct": "psi", "self._dct.ddR": "psiR", "self._dct.ddZ": "psiZ", "self._dct.d2dR2": "psiRR", "self._dct.d2dZ2": "psiZZ", "self._dct.d2dRdZ": "psiRZ"}


class FExec:
    """expressions over R, Z and function applications"""

    def __init__(self, funcs, local=None):
        self.funcs = funcs          # name -> IR builder(args)  for `self.name(...)`
        self.local = local or {}

    def expr(self, n):
        if isinstance(n, ast.Constant) and isinstance(n.value, (int, float)) and not isinstance(n.value, bool):
            return ("const", Fraction(repr(n.value)) if isinstance(n.value, float) else Fraction(n.value))
        if isinstance(n, ast.Name):
            if n.id in self.local:
                return self.local[n.id]
            if n.id in ("R", "Z", "psi"):
                return ("var", n.id)
            raise TranslationError(f"unknown name {n.id}")
        if isinstance(n, ast.UnaryOp) and isinstance(n.op, ast.USub):
            return ("neg", self.expr(n.operand))
        if isinstance(n, ast.BinOp):
            if isinstance(n.op, ast.Pow):
                if isinstance(n.right, ast.Constant) and n.right.value in (2, 2.0):
                    return ("pow", self.expr(n.left), 2)
                raise TranslationError(f"power {src_of(n)}")
            op = {ast.Add: "add", ast.Sub: "sub", ast.Mult: "mul", ast.Div: "div"}.get(type(n.op))
            if op is None:
                raise TranslationError(f"operator {src_of(n)}")
            return (op, self.expr(n.left), self.expr(n.right))
        if isinstance(n, ast.Call):
            f = src_of(n.func)
            if f in ("numpy.sqrt", "np.sqrt") and len(n.args) == 1:
                return ("sqrt", self.expr(n.args[0]))
            if f in ("numpy.clip",):
                raise TranslationError("clip")
            if f in self.funcs:
                return self.funcs[f](self, n)
            raise TranslationError(f"call {f} not supported")
        raise TranslationError(f"expression {src_of(n)[:60]}")


def app(name):
    def h(ex, n):
        if n.keywords:
            raise TranslationError(f"{name}: unexpected keywords")
        return ("app", name, tuple(ex.expr(a) for a in n.args))
    return h


def only_return(fn, allow_docstring=True):
    body = [s for s in fn.body if not (isinstance(s, ast.Expr) and isinstance(s.value, ast.Constant))]
    if len(body) != 1 or not isinstance(body[0], ast.Return):
        raise TranslationError(f"{fn.name}: body is not a single return")
    return body[0].value


def subst(e, env):
    if e[0] == "var":
        return env.get(e[1], e)
    if e[0] == "const":
        return e
    if e[0] == "app":
        return ("app", e[1], tuple(subst(a, env) for a in e[2]))
    if e[0] == "pow":
        return ("pow", subst(e[1], env), e[2])
    return (e[0],) + tuple(subst(a, env) for a in e[1:])


def translate(repo):
    eqp = os.path.join(repo, "hypnotoad/core/equilibrium.py")
    defs = {}
    # ---- interpolant branch (spline): psi_func(R, Z, dx=a, dy=b, grid=False) -> abstract partial-derivative functions
    mg = get_function(eqp, "Equilibrium.magneticFunctionsFromGrid")
    spl = None
    for s in mg.body:
        if isinstance(s, ast.If) and src_of(s.test) == "option == 'spline'":
            spl = s
    if spl is None:
        raise TranslationError("magneticFunctionsFromGrid: no spline branch")

    def psi_func(ex, n):
        kw = {k.arg: k.value for k in n.keywords}
        if src_of(kw.pop("grid", ast.Constant(None))) != "False":
            raise TranslationError("psi_func call without grid=False")
        dx = kw.pop("dx", ast.Constant(0)).value
        dy = kw.pop("dy", ast.Constant(0)).value
        if kw or (dx, dy) not in SPLINE_DERIV or [src_of(a) for a in n.args] != ["R", "Z"]:
            raise TranslationError(f"unexpected psi_func call {src_of(n)}")
        return ("app", SPLINE_DERIV[(dx, dy)], (("var", "R"), ("var", "Z")))

    inner = {f.name: f for f in spl.body if isinstance(f, ast.FunctionDef)}
    for name in ("psi", "Bp_R", "Bp_Z", "d2psidR2", "d2psidZ2", "d2psidRdZ"):
        if name not in inner:
            raise TranslationError(f"spline branch lacks {name}")
        defs["spline_" + name] = FExec({"self.psi_func": psi_func}).expr(only_return(inner[name]))
    for name in ("f_R", "f_Z"):
        f = inner[name]
        body = [s for s in f.body if not (isinstance(s, ast.Expr) and isinstance(s.value, ast.Constant))]
        srcs = [src_of(s) for s in body]
        if srcs[:2] != ["R = numpy.clip(R, Rmin, Rmax)", "Z = numpy.clip(Z, Zmin, Zmax)"] or len(body) != 5:
            raise TranslationError(f"spline {name}: expected clip of R to [Rmin,Rmax] and of Z to [Zmin,Zmax] followed by dpsidR, dpsidZ, return: {srcs[:2]}")
        ex = FExec({"self.psi_func": psi_func})
        for s in body[2:4]:
            ex.local[src_of(s.targets[0])] = ex.expr(s.value)
        defs["spline_" + name] = ex.expr(body[4].value)
    # the dct branch: direct assignments of evaluator methods
    dct = spl.orelse[0] if spl.orelse and isinstance(spl.orelse[0], ast.If) and src_of(spl.orelse[0].test) == "option == 'dct'" else None
    if dct is None:
        raise TranslationError("magneticFunctionsFromGrid: no dct branch")
    dsrc = [src_of(s) for s in dct.body]
    want = ["self.psi = lambda R, Z: self._dct(R, Z)", "modGradpsiSquared = lambda R, Z: self._dct.ddR(R, Z) ** 2 + self._dct.ddZ(R, Z) ** 2",
            "self.f_R = lambda R, Z: self._dct.ddR(R, Z) / modGradpsiSquared(R, Z)", "self.f_Z = lambda R, Z: self._dct.ddZ(R, Z) / modGradpsiSquared(R, Z)",
            "self.Bp_R = lambda R, Z: self._dct.ddZ(R, Z) / R", "self.Bp_Z = lambda R, Z: -self._dct.ddR(R, Z) / R", "self.d2psidR2 = self._dct.d2dR2",
            "self.d2psidZ2 = self._dct.d2dZ2", "self.d2psidRdZ = self._dct.d2dRdZ"]
    for w in want:
        if w not in dsrc:
            raise TranslationError(f"dct branch: expected statement missing: {w}")
    # ---- helper chain: self.X(R, Z) are the functions defined above / below
    funcs = {}
    for nm, target in (("psi", "psi"), ("Bp_R", None), ("Bp_Z", None), ("d2psidR2", "psiRR"), ("d2psidZ2", "psiZZ"), ("d2psidRdZ", "psiRZ")):
        if target:
            funcs["self." + nm] = (lambda t: (lambda ex, n: ("app", t, tuple(ex.expr(a) for a in n.args))))(target)
    funcs["self.Bp_R"] = lambda ex, n: subst(defs["spline_Bp_R"], dict(zip(("R", "Z"), [ex.expr(a) for a in n.args])))
    funcs["self.Bp_Z"] = lambda ex, n: subst(defs["spline_Bp_Z"], dict(zip(("R", "Z"), [ex.expr(a) for a in n.args])))
    funcs["self.fpol"] = app("fpol")
    funcs["self.fpolprime"] = app("fpolprime")
    for h in HELPERS:
        fn = get_function(eqp, "Equilibrium." + h)
        if [a.arg for a in fn.args.args] != ["self", "R", "Z"]:
            raise TranslationError(f"{h}: signature changed")
        defs[h] = FExec(funcs).expr(only_return(fn))
        funcs["self." + h] = (lambda hh: (lambda ex, n: subst(defs[hh], dict(zip(("R", "Z"), [ex.expr(a) for a in n.args])))))(h)
    # ---- tokamak fpol / fpolprime / pressure
    tk = os.path.join(repo, "hypnotoad/cases/tokamak.py")
    sign = ("var", "fsign")
    tf = {"self.f_spl": app("f_spl"), "self.fprime_spl": app("fprime_spl"), "self.p_spl": app("p_spl")}

    class TEx(FExec):
        def expr(self, n):
            if isinstance(n, ast.Attribute) and src_of(n) == "self.f_psi_sign":
                return sign
            return super().expr(n)
    defs["tok_fpol"] = TEx(tf).expr(only_return(get_function(tk, "TokamakEquilibrium.fpol")))
    defs["tok_fpolprime"] = TEx(tf).expr(only_return(get_function(tk, "TokamakEquilibrium.fpolprime")))
    # ---- calc_curvature closures (mesh.py)
    mp = os.path.join(repo, "hypnotoad/core/mesh.py")
    cc = get_function(mp, "MeshRegion.calc_curvature")
    cfun = {}
    alias = {"BR": "Bp_R", "BZ": "Bp_Z", "Bzeta": "Bzeta", "B2": "B2", "dBzetadR": "dBzetadR", "dBzetadZ": "dBzetadZ", "dBRdZ": "dBRdZ", "dBZdR": "dBZdR", "dB2dR": "dB2dR", "dB2dZ": "dB2dZ"}
    src = ast.unparse(cc)
    for a, m in alias.items():
        if f"{a} = equilib.{m}" not in src:
            raise TranslationError(f"calc_curvature: expected alias {a} = equilib.{m}")
        key = "self." + m
        cfun[a] = funcs[key]
    for node in ast.walk(cc):
        if isinstance(node, ast.FunctionDef) and node.name.startswith("curl_bOverB_"):
            defs[node.name] = FExec(cfun).expr(only_return(node))
    for nm in ("curl_bOverB_Rhat", "curl_bOverB_Zhat", "curl_bOverB_zetahat"):
        if nm not in defs:
            raise TranslationError(f"calc_curvature: closure {nm} missing")
    # ---- the projections: curl_bOverB_y = (curl_R * vR + curl_Z * vZ) / den, orthogonal and non-orthogonal branch
    sym = {"BR(self.Rxy, self.Zxy)": ("var", "BRv"), "BZ(self.Rxy, self.Zxy)": ("var", "BZv"), "self.tanBeta": ("var", "tanB"), "self.Bpxy": ("var", "Bp"), "self.hy": ("var", "hy"),
           "self.Rxy": ("var", "Rx"), "self.Btxy": ("var", "Bt"), "self.I": ("var", "Ishear")}

    def pexpr(n):
        t = src_of(n)
        if t in sym:
            return sym[t]
        if isinstance(n, ast.BinOp):
            op = {ast.Add: "add", ast.Sub: "sub", ast.Mult: "mul", ast.Div: "div"}.get(type(n.op))
            if op:
                return (op, pexpr(n.left), pexpr(n.right))
        if isinstance(n, ast.UnaryOp) and isinstance(n.op, ast.USub):
            return ("neg", pexpr(n.operand))
        raise TranslationError(f"calc_curvature projection: unexpected term {t[:60]}")

    ys = [n for n in ast.walk(cc) if isinstance(n, ast.Assign) and src_of(n.targets[0]) == "self.curl_bOverB_y" and "curl_bOverB_Rhat" in src_of(n.value)]
    if len(ys) != 2:
        raise TranslationError(f"calc_curvature: expected an orthogonal and a non-orthogonal curl_bOverB_y, found {len(ys)}")
    for tag, a in zip(("orth", "nonorth"), sorted(ys, key=lambda n: n.lineno)):
        v = a.value
        if not (isinstance(v, ast.BinOp) and isinstance(v.op, ast.Div) and isinstance(v.left, ast.BinOp) and isinstance(v.left.op, ast.Add)):
            raise TranslationError(f"calc_curvature[{tag}]: curl_bOverB_y is not (a + b) / den")
        tR, tZ = v.left.left, v.left.right
        for t, nm in ((tR, "curl_bOverB_Rhat(self.Rxy, self.Zxy)"), (tZ, "curl_bOverB_Zhat(self.Rxy, self.Zxy)")):
            if not (isinstance(t, ast.BinOp) and isinstance(t.op, ast.Mult) and src_of(t.left) == nm):
                raise TranslationError(f"calc_curvature[{tag}]: expected {nm} * (...)")
        defs[f"grady_{tag}_R"], defs[f"grady_{tag}_Z"], defs[f"grady_{tag}_den"] = pexpr(tR.right), pexpr(tZ.right), pexpr(v.right)
    zs = [n for n in ast.walk(cc) if isinstance(n, ast.Assign) and src_of(n.targets[0]) == "self.curl_bOverB_z" and "curl_bOverB_zetahat" in src_of(n.value)]
    if len(zs) != 1 or src_of(zs[0].value) != "curl_bOverB_zetahat(self.Rxy, self.Zxy) / self.Rxy - self.Btxy * self.hy / (self.Bpxy * self.Rxy) * self.curl_bOverB_y - self.I * self.curl_bOverB_x":
        raise TranslationError("calc_curvature: curl_bOverB_z is not curl_zeta/R - Bt*hy/(Bp*R)*curl_y - I*curl_x")
    xs = [n for n in ast.walk(cc) if isinstance(n, ast.Assign) and src_of(n.targets[0]) == "self.curl_bOverB_x" and "curl_bOverB_Rhat" in src_of(n.value)]
    if len(xs) != 1 or src_of(xs[0].value) != "curl_bOverB_Rhat(self.Rxy, self.Zxy) * (-self.Rxy * BZ(self.Rxy, self.Zxy)) + curl_bOverB_Zhat(self.Rxy, self.Zxy) * (self.Rxy * BR(self.Rxy, self.Zxy))":
        raise TranslationError("calc_curvature: curl_bOverB_x is not curl_R*(-R*BZ) + curl_Z*(R*BR)")
    return defs


def pr(e):
    k = e[0]
    if k == "var":
        return {"R": "r", "Z": "z", "psi": "p"}.get(e[1], e[1])
    if k == "const":
        q = e[1]
        return f"({q.numerator})" if q.denominator == 1 else f"({q.numerator} / {q.denominator})"
    if k == "neg":
        return f"(- {pr(e[1])})"
    if k in ("add", "sub", "mul", "div"):
        return f"({pr(e[1])} {dict(add='+', sub='-', mul='*', div='/')[k]} {pr(e[2])})"
    if k == "pow":
        return f"({pr(e[1])} * {pr(e[1])})"
    if k == "sqrt":
        return f"(sqrt {pr(e[1])})"
    if k == "app":
        return "(" + e[1] + " " + " ".join(pr(a) for a in e[2]) + ")"
    raise TranslationError(k)


def py_eval(e, env):
    import numpy
    k = e[0]
    if k == "var":
        return env[e[1]]
    if k == "const":
        return float(e[1])
    if k == "neg":
        return -py_eval(e[1], env)
    if k in ("add", "sub", "mul", "div"):
        a, b = py_eval(e[1], env), py_eval(e[2], env)
        return a + b if k == "add" else a - b if k == "sub" else a * b if k == "mul" else a / b
    if k == "pow":
        return py_eval(e[1], env) ** 2
    if k == "sqrt":
        return numpy.sqrt(py_eval(e[1], env))
    if k == "app":
        return env[e[1]](*[py_eval(a, env) for a in e[2]])
    raise TranslationError(k)


def emit(repo):
    d = translate(repo)
    L = ["(* GENERATED by /verif/translate/fields.py from equilibrium.py / tokamak.py / mesh.py -- do not edit. *)",
         "From Coq Require Import Reals.", "Local Open Scope R_scope.", "", "Section Fields.",
         "  (* the interpolant and its partial-derivative evaluators (RectBivariateSpline(dx=..,dy=..) / DCT_2D.ddR ...), the profile functions *)",
         "  Variables psi psiR psiZ psiRR psiZZ psiRZ : R -> R -> R.", "  Variables fpol fpolprime : R -> R.", ""]
    order = ["spline_psi", "spline_Bp_R", "spline_Bp_Z", "spline_f_R", "spline_f_Z", "spline_d2psidR2", "spline_d2psidZ2", "spline_d2psidRdZ"] + HELPERS + \
            ["curl_bOverB_Rhat", "curl_bOverB_Zhat", "curl_bOverB_zetahat"]
    for nm in order:
        L.append(f"  Definition F_{nm} (r z : R) : R := {pr(d[nm])}.")
    L += ["End Fields.", "", "Section Profiles.", "  Variables f_spl fprime_spl : R -> R.", "  Variable fsign : R.",
          f"  Definition F_tok_fpol (p : R) : R := {pr(d['tok_fpol'])}.", f"  Definition F_tok_fpolprime (p : R) : R := {pr(d['tok_fpolprime'])}.", "End Profiles.", "",
          "(* the vector (vR, vZ)/den that calc_curvature dots with (curl_R, curl_Z) for curl_bOverB_y *)"]
    for tag in ("orth", "nonorth"):
        for part in ("R", "Z", "den"):
            L.append(f"Definition F_grady_{tag}_{part} (BRv BZv tanB Bp hy : R) : R := {pr(d[f'grady_{tag}_{part}'])}.")
    L.append("")
    return "\n".join(L), d


if __name__ == "__main__":
    text, d = emit(sys.argv[1] if len(sys.argv) > 1 else "/repo")
    print(text)
