"""Implementation side of C19: run the REAL find_critical on sampled flux functions (sums of Gaussians given by their parameters) and build real
TokamakEquilibrium objects for the single/double-null decision and the leg labels."""
import json
import os
import sys
import warnings

import numpy as np

sys.path.insert(0, os.path.dirname(os.path.abspath(__file__)))
sys.path.insert(0, os.path.dirname(os.path.dirname(os.path.abspath(__file__))))
warnings.filterwarnings("ignore")


def gauss_psi(blobs, R, Z, sign):
    out = 0.0
    for a, rc, zc, w in blobs:
        out = out + a * np.exp(-((R - rc) ** 2 + (Z - zc) ** 2) / w**2)
    return sign * out


def main():
    req = json.load(sys.stdin)
    from hypnotoad.utils import critical
    out = []
    for c in req["cases"]:
        r1d = np.linspace(c["rmin"], c["rmax"], c["nr"])
        z1d = np.linspace(c["zmin"], c["zmax"], c["nz"])
        R, Z = np.meshgrid(r1d, z1d, indexing="ij")
        psi = gauss_psi(c["blobs"], R, Z, c["sign"])
        try:
            o, x = critical.find_critical(R, Z, psi, c["atol"], c["maxits"])
            out.append(dict(opoints=[[float(v) for v in p] for p in o], xpoints=[[float(v) for v in p] for p in x]))
        except Exception as e:
            out.append(dict(error=repr(e)[:300]))
    # analytic sheared double nulls psi = A(z) + k/2 (R - R0 - s(z))^2, A = z^2/2 - z^4/(4 Zx^2), s = sigma (z^2 - Zx^2)/(2 Zx), z = Z - Z0:
    # O-point (R0 - sigma Zx/2, Z0), X-points (R0, Z0 +- Zx) at the SAME major radius, at sub-grid positions (one X-point can be a grid minimum of Bp^2 on two
    # neighbouring rows, so that it is reached from two start cells with a candidate of the other X-point in between)
    sheared = []
    for c in req.get("sheared_cases", []):
        r1d = np.linspace(c["rmin"], c["rmax"], c["n"])
        z1d = np.linspace(c["zmin"], c["zmax"], c["n"])
        R, Z = np.meshgrid(r1d, z1d, indexing="ij")
        z = Z - c["Z0"]
        psi = z**2 / 2 - z**4 / (4 * c["Zx"] ** 2) + 0.5 * c["k"] * (R - c["R0"] - c["sigma"] * (z**2 - c["Zx"] ** 2) / (2 * c["Zx"])) ** 2
        try:
            o, x = critical.find_critical(R, Z, psi, 1.0e-6, 100)
            sheared.append(dict(opoints=[[float(v) for v in p] for p in o], xpoints=[[float(v) for v in p] for p in x]))
        except Exception as e:
            sheared.append(dict(error=repr(e)[:300]))
    eqs = []
    if req.get("eq_cases"):
        import grid as G
        for c in req["eq_cases"]:
            try:
                eq, options, inputs = G.build_tokamak(c["cfg"])
                legs = {}
                for name, r in eq.regions.items():
                    if "divertor" in name:
                        # the strike point is the wall end of the leg
                        p = r.points[0] if r.wallSurfaceAtStart is not None else r.points[-1]
                        legs[name] = [p.R, p.Z]
                eqs.append(dict(n_xpoints=len(eq.x_points), x_points=[[p.R, p.Z] for p in eq.x_points], psi_sep=[float(p) for p in eq.psi_sep], psi_axis=float(eq.psi_axis),
                                regions=list(eq.regions), legs=legs, psi_sol=float(eq.psi_sol)))
            except Exception as e:
                eqs.append(dict(error=type(e).__name__ + ": " + str(e)[:300]))
    print("@@JSON " + json.dumps(dict(cases=out, eqs=eqs, sheared=sheared)))
    sys.stdout.flush()
    os._exit(0)


if __name__ == "__main__":
    main()
