"""Implementation side of C10, region level: the spacing functions as the REGION hands them out (getSfuncFixedSpacing for every method,
getSfuncFixedPerpSpacing, combineSfuncs) on real EquilibriumRegion objects built with several values of N_norm_prefactor.  Reports the end
gradients ds/di (one-sided differences, step h) and the values on the integer indices, and the same for the constructors called directly
with N_norm = N_norm_prefactor * ny_total.  stdin {cfg, prefactors}; stdout @@JSON {prefactor: {region: {function: {...}}}}."""
import json
import os
import sys
import warnings

import numpy as np

sys.path.insert(0, os.path.dirname(os.path.abspath(__file__)))
sys.path.insert(0, os.path.dirname(os.path.dirname(os.path.abspath(__file__))))
warnings.filterwarnings("ignore")
import grid as G  # noqa: E402

H = 1.0e-4


def probe(f, N):
    with np.errstate(all="ignore"):
        idx = np.arange(0.0, N + 0.5, 1.0)
        v = np.asarray(f(idx), dtype=float)
        e = np.asarray(f(np.array([0.0, H, N - H, float(N)])), dtype=float)
    fin = lambda x: None if not np.isfinite(x) else float(x)
    return dict(values=[fin(x) for x in v], g_lower=fin((e[1] - e[0]) / H), g_upper=fin((e[3] - e[2]) / H), ends=[fin(e[0]), fin(e[3])])


def perp_to(a, b):
    # a surface vector perpendicular to the contour direction a->b (what a wall or an x-face perpendicular to the contour would give)
    return [-(b.Z - a.Z), b.R - a.R]


def one_region(eq, reg, p):
    out = {}
    N = 2 * reg.ny_noguards
    L = reg.totalDistance(psi=eq.psi)
    sp = reg.getSpacings()
    Nn = p * reg.ny_total
    out["_info"] = dict(N=N, L=float(L), ny_total=int(reg.ny_total), kind=reg.kind, spacings={k: (None if v is None else float(v)) for k, v in sp.items()})

    def attempt(name, thunk):
        try:
            out[name] = probe(thunk(), N)
        except Exception as e:
            out[name] = dict(error=type(e).__name__ + ": " + str(e)[:160])

    attempt("fixed:monotonic", lambda: reg.getSfuncFixedSpacing(N + 1, L, method="monotonic"))
    attempt("direct:monotonic", lambda: reg.getMonotonicPoloidalDistanceFunc(L, N, Nn, d_lower=sp["monotonic_d_lower"], d_upper=sp["monotonic_d_upper"]))
    attempt("fixed:sqrt", lambda: reg.getSfuncFixedSpacing(N + 1, L, method="sqrt"))
    attempt("direct:sqrt", lambda: reg.getSqrtPoloidalDistanceFunc(L, N, Nn, b_lower=sp["sqrt_b_lower"], a_lower=sp["sqrt_a_lower"], b_upper=sp["sqrt_b_upper"], a_upper=sp["sqrt_a_upper"]))
    pts = reg.points
    # set by MeshRegion.__init__ for ends at an X-point; any fixed value serves the scaling test
    if reg.sin_angle_at_start is None:
        reg.sin_angle_at_start = 0.8
    if reg.sin_angle_at_end is None:
        reg.sin_angle_at_end = 0.7
    vl = reg.wallSurfaceAtStart if reg.wallSurfaceAtStart is not None else perp_to(pts[reg.startInd], pts[reg.startInd + 1])
    vu = reg.wallSurfaceAtEnd if reg.wallSurfaceAtEnd is not None else perp_to(pts[reg.endInd - 1], pts[reg.endInd])
    attempt("perp:lower:sperp", lambda: reg.getSfuncFixedPerpSpacing(N + 1, reg, vl, True)[1])
    attempt("perp:lower:s", lambda: reg.getSfuncFixedPerpSpacing(N + 1, reg, vl, True)[0])
    attempt("perp:upper:sperp", lambda: reg.getSfuncFixedPerpSpacing(N + 1, reg, vu, False)[1])
    attempt("perp:upper:s", lambda: reg.getSfuncFixedPerpSpacing(N + 1, reg, vu, False)[0])
    attempt("combined:poloidal", lambda: reg.combineSfuncs(reg, None))
    attempt("combined:perp", lambda: reg.combineSfuncs(reg, None, vl, vu))
    return out


def ranges(req):
    """combineSfuncs with an orthogonal spacing function on the innermost / outermost contour of each region, for the base options and with
    every *_range_inner (resp. *_range_outer) option scaled: which parameters each contour's weights depend on"""
    eq, options, inputs = G.build_tokamak(req["cfg"])
    base = dict(req["cfg"]["options"])
    NO = ("nonorthogonal_target_all_poloidal_spacing_range", "nonorthogonal_xpoint_poloidal_spacing_range")
    variants = {"base": {}}
    for suffix in ("_inner", "_outer"):
        variants["scaled" + suffix] = {k + suffix: req["values"][k] * req["scale"] for k in NO}
    fixed = {k: req["values"][k] for k in NO}
    fixed.update({k + "_inner": req["values"][k] for k in NO})
    fixed.update({k + "_outer": req["values"][k] for k in NO})
    out = {}
    for name, reg in eq.regions.items():
        N = 2 * reg.ny_noguards
        L = reg.totalDistance(psi=eq.psi)
        sorth = lambda i, L=L, N=N: L * numpy_asarray(i) / N
        rec = {}
        for vname, var in variants.items():
            o2 = dict(base)
            o2.update(fixed)
            o2.update(var)
            reg.resetNonorthogonalOptions(o2)
            for cname, ix in (("innermost", -(reg.nxInsideSeparatrix() - 1.0)), ("outermost", reg.nxOutsideSeparatrix() - 1.0)):
                if ix == 0:
                    continue
                reg.global_xind = ix
                try:
                    f = reg.combineSfuncs(reg, sorth)
                    idx = np.arange(0.0, N + 0.25, 0.5)
                    rec[f"{vname}:{cname}"] = [float(x) for x in np.asarray(f(idx), dtype=float)]
                except Exception as e:
                    rec[f"{vname}:{cname}"] = dict(error=type(e).__name__ + ": " + str(e)[:160])
        out[name] = dict(kind=reg.kind, L=float(L), funcs=rec)
    return out


def numpy_asarray(i):
    return np.asarray(i, dtype=float)


def main():
    req = json.load(sys.stdin)
    if req.get("mode") == "ranges":
        print("@@JSON " + json.dumps(ranges(req)))
        sys.stdout.flush()
        os._exit(0)
    res = {}
    for p in req["prefactors"]:
        cfg = dict(req["cfg"])
        cfg["options"] = dict(cfg["options"], N_norm_prefactor=p)
        eq, options, inputs = G.build_tokamak(cfg)
        res[str(p)] = {name: one_region(eq, reg, p) for name, reg in eq.regions.items()}
    print("@@JSON " + json.dumps(res))
    sys.stdout.flush()
    os._exit(0)


if __name__ == "__main__":
    main()
