"""Implementation side of the C05 / C06 quadrature correspondence: the REAL FineContour.calcDistance / reverse / getDistance,
PsiContour.get_distance and MeshRegion.calcZShift (with scipy's cumulative_trapezoid / interp1d as the code calls them) run on
stub objects whose numerical inputs are given; theories/Model_Quadrature.v instantiated with PrimFloat reproduces every bit.
stdin: {cases: [...]}; stdout: @@JSON [outcome per case]; floats travel as float.hex() strings."""
import json
import os
import sys
import warnings

import numpy as np

warnings.filterwarnings("ignore")
np.seterr(all="ignore")
sys.path.insert(0, os.path.dirname(os.path.dirname(os.path.abspath(__file__))))
from hypnotoad.core.equilibrium import FineContour, Point2D, PsiContour  # noqa: E402
from hypnotoad.core.mesh import MeshRegion  # noqa: E402


def fh(x):
    return float.fromhex(x)


def hx(a):
    return [float(x).hex() for x in np.asarray(a, dtype=float).ravel()]


def arr(pts):
    return np.array([[fh(a), fh(b)] for a, b in pts], dtype=float)


def fine(positions, si, ei):
    fc = object.__new__(FineContour)
    fc.positions = positions
    fc.distance = None
    fc.startInd = si
    fc.endInd = ei
    fc.calcDistance()
    return fc


class Obj:
    pass


def run_case(c):
    if c["kind"] == "distance":
        fc = fine(arr(c["pos"]), c["si"], c["ei"])
        d = hx(fc.distance)
        tot = float(fc.totalDistance()).hex()
        fc.reverse()
        return dict(distance=d, total=tot, rev=hx(fc.distance), rev_pos=[hx(p) for p in fc.positions], rev_inds=[int(fc.startInd), int(fc.endInd)])
    if c["kind"] == "getdist":
        fc = fine(arr(c["pos"]), 0, len(c["pos"]) - 1)
        return dict(values=[float(fc.getDistance(Point2D(fh(a), fh(b)))).hex() for a, b in c["pts"]])
    if c["kind"] == "interp":
        fc = fine(arr(c["pos"]), c["si"], len(c["pos"]) - 1)
        f = fc.interpFunction()
        out = []
        for sv in c["s"]:
            p = f(fh(sv))
            out.append([float(p.R).hex(), float(p.Z).hex(), float(fc.getDistance(p)).hex()])
        return dict(points=out, dist_si=float(fc.distance[c["si"]]).hex())
    if c["kind"] == "sperp":
        fc = fine(arr(c["pos"]), c["si"], c["ei"])
        f, total = fc.interpSSperp(np.array([fh(c["vec"][0]), fh(c["vec"][1])]))
        return dict(s_perp=hx(f.x), total=float(total).hex(), values=[float(f(fh(v))).hex() for v in c["x"]])
    if c["kind"] == "equalise":
        import warnings as W
        pos = arr(c["pos"])
        fc = object.__new__(FineContour)
        fc.positions = pos.copy()
        fc.distance = None
        fc.extend_lower_fine = c["el"]
        fc.extend_upper_fine = len(pos) - c["nfine"] - c["el"]
        fc.startInd = c["el"]
        fc.endInd = c["nfine"] - 1 + c["el"]
        fc.indices_fine = np.linspace(-fc.extend_lower_fine, (c["nfine"] - 1 + fc.extend_upper_fine), c["nfine"] + fc.extend_lower_fine + fc.extend_upper_fine)
        uo = Obj()
        uo.finecontour_atol = fh(c["atol"])
        uo.finecontour_maxits = c["maxits"]
        uo.finecontour_Nfine = c["nfine"]
        uo.finecontour_overdamping_factor = fh(c["damping"])
        uo.finecontour_diagnose = False
        fc.user_options = uo
        calls = [0]

        def refine(*, psi, skip_endpoints=False, **kw):      # the contract of the model: stubbed to the identity
            calls[0] += 1
            assert skip_endpoints
            return fc
        fc.refine = refine
        with W.catch_warnings(record=True) as wl:
            W.simplefilter("always")
            fc.equaliseSpacing(psi=None)
        return dict(positions=[hx(p) for p in fc.positions], warned=any("maximum iterations" in str(w.message) for w in wl), refine_calls=calls[0], distance=hx(fc.distance))
    if c["kind"] == "zshift":
        table = {}
        regions = {}
        eq = Obj()
        eq.fpol = lambda x: x
        eq.psi = lambda R, Z: table[np.asarray(R).tobytes() + np.asarray(Z).tobytes()][0]
        eq.Bp_R = lambda R, Z: table[np.asarray(R).tobytes() + np.asarray(Z).tobytes()][1]
        eq.Bp_Z = lambda R, Z: table[np.asarray(R).tobytes() + np.asarray(Z).tobytes()][2]
        mesh = Obj()
        mesh.equilibrium = eq
        mesh.regions = regions
        n = len(c["regions"])
        for k, r in enumerate(c["regions"]):
            reg = object.__new__(MeshRegion)
            reg.name = f"r{k}"
            reg.nx = 1
            reg.ny = r["ny"]
            reg.yGroupIndex = k
            reg.meshParent = mesh
            reg.equilibriumRegion = Obj()
            reg.equilibriumRegion.psi = None
            lower = k - 1 if k > 0 else (n - 1 if c["periodic"] else None)
            upper = k + 1 if k < n - 1 else (0 if c["periodic"] else None)
            reg.connections = {"lower": lower, "upper": upper, "inner": None, "outer": None}
            reg.contours = []
            # (an attribute the real region has; calcZShift has no business using it for the integrand -- the flux surface of a contour is not that of its cell index)
            reg.psi_vals = np.array([fh(ct["A"][0]) for ct in r["contours"]])
            for ct in r["contours"]:
                pos = arr(ct["pos"])
                fc = fine(pos, ct["si"], ct["ei"])
                table[pos[:, 0].tobytes() + pos[:, 1].tobytes()] = tuple(np.array([fh(x) for x in ct[k2]]) for k2 in ("A", "B", "C"))
                pc = PsiContour(points=[Point2D(fh(a), fh(b)) for a, b in ct["pts"]], psival=0.0, settings={}, Rrange=None, Zrange=None)
                pc._fine_contour = fc
                fc.parentContour = pc
                reg.contours.append(pc)
            regions[k] = reg
        try:
            regions[0].calcZShift()
        except ValueError as e:
            return dict(error="ValueError", detail=str(e)[:200])
        out = []
        for k in range(n):
            z = regions[k].zShift
            out.append(dict(centre=hx(z.centre), xlow=[hx(z.xlow[0]), hx(z.xlow[1])], ylow=hx(z.ylow), corners=[hx(z.corners[0]), hx(z.corners[1])],
                            cdist=[hx(ct.get_distance(psi=None)) for ct in regions[k].contours]))
        sa = regions[0].ShiftAngle
        res = dict(regions=out, later_untouched=all(not hasattr(regions[k], "ShiftAngle") for k in range(1, n)))
        if c["periodic"]:
            res["ShiftAngle"] = dict(centre=hx(sa.centre), xlow=hx(sa.xlow))
        else:
            res["ShiftAngle_set"] = [sa._centre_array is not None, sa._xlow_array is not None]
        return res
    raise ValueError(c["kind"])


def main():
    req = json.load(sys.stdin)
    out = []
    for c in req["cases"]:
        try:
            out.append(run_case(c))
        except Exception as e:  # reported, never swallowed
            out.append(dict(error="unexpected", detail=repr(e)[:300]))
    print("@@JSON " + json.dumps(out))
    sys.stdout.flush()
    os._exit(0)


if __name__ == "__main__":
    main()
