"""Implementation side of C17: run the REAL f2s / _geqdsk.write / next_value / _geqdsk.read / tokamak.read_geqdsk."""
import io
import json
import sys
import warnings

import numpy

warnings.filterwarnings("ignore")
from hypnotoad.geqdsk import _geqdsk
from hypnotoad.geqdsk._fileutils import f2s, next_value


def todata(d):
    out = {}
    for k, v in d.items():
        out[k] = numpy.array(v, dtype=float) if isinstance(v, list) else v
    return out


def tolist(v):
    if isinstance(v, numpy.ndarray):
        return v.tolist()
    if isinstance(v, (numpy.floating, numpy.integer)):
        return v.item()
    return v


def main():
    req = json.load(sys.stdin)
    out = {}
    out["f2s"] = [f2s(float.fromhex(h)) for h in req.get("f2s", [])]
    files = []
    for c in req.get("files", []):
        data = todata(c["data"])
        fh = io.StringIO()
        rec = {}
        try:
            _geqdsk.write(data, fh, **c.get("kw", {}))
            text = fh.getvalue()
            rec["text"] = text
            try:
                back = _geqdsk.read(io.StringIO(text))
                rec["read"] = {k: tolist(v) for k, v in back.items()}
            except Exception as e:
                rec["read_error"] = repr(e)
        except Exception as e:
            rec["write_error"] = repr(e)
        files.append(rec)
    out["files"] = files
    toks = []
    for t in req.get("texts", []):
        try:
            vals = list(next_value(io.StringIO(t)))
            toks.append([["f", float(v).hex()] if isinstance(v, float) else ["i", int(v)] for v in vals])
        except Exception as e:
            toks.append({"error": repr(e)})
    out["tokens"] = toks
    # read_geqdsk mapping: capture what it hands to TokamakEquilibrium.__init__ (harness-side wrapper, no hook)
    axes = []
    from hypnotoad.cases import tokamak
    cap = {}

    def fake_init(self, R1D, Z1D, psi2D, psi1D, fpol1D, **kw):
        cap.update(R1D=numpy.array(R1D).tolist(), Z1D=numpy.array(Z1D).tolist(), psi2D=numpy.array(psi2D).tolist(),
                   psi1D=numpy.array(psi1D).tolist(), fpol=numpy.array(fpol1D).tolist(),
                   pressure=None if kw.get("pressure") is None else numpy.array(kw["pressure"]).tolist(),
                   wall=None if kw.get("wall") is None else [list(map(float, p)) for p in kw["wall"]],
                   psi_axis_gfile=kw.get("psi_axis_gfile"), psi_bdry_gfile=kw.get("psi_bdry_gfile"))

    orig = tokamak.TokamakEquilibrium.__init__
    tokamak.TokamakEquilibrium.__init__ = fake_init
    try:
        for t in req.get("axes_texts", []):
            cap.clear()
            try:
                r = tokamak.read_geqdsk(io.StringIO(t), settings={})
                rec = dict(cap)
                rec["verbatim"] = (getattr(r[0] if isinstance(r, tuple) else r, "geqdsk_input", None) == t)
                axes.append(rec)
            except Exception as e:
                axes.append({"error": repr(e)})
    finally:
        tokamak.TokamakEquilibrium.__init__ = orig
    out["axes"] = axes
    print("@@JSON " + json.dumps(out))


if __name__ == "__main__":
    main()
