"""Implementation side of the DDX / DDY correspondence: the REAL MeshRegion.DDX / MeshRegion.DDY on stub regions (given arrays, given
neighbours); theories/Model_Stencil.v instantiated with PrimFloat reproduces every bit.
stdin {cases: [{nx, ny, f: {centre, xlow, ylow, corners}, dx: {...}, dy: {...}, inner / outer / lower / upper: null | {f: {...}}}]}
stdout @@JSON [{DDX: {loc: [[hex]]}, DDY: {...}}]"""
import json
import os
import sys
import warnings

import numpy as np

warnings.filterwarnings("ignore")
sys.path.insert(0, os.path.dirname(os.path.dirname(os.path.abspath(__file__))))
from hypnotoad.core.mesh import MeshRegion  # noqa: E402
from hypnotoad.core.multilocationarray import MultiLocationArray  # noqa: E402

LOCS = ("centre", "xlow", "ylow", "corners")


def mla(nx, ny, d):
    m = MultiLocationArray(nx, ny)
    for loc in LOCS:
        if d.get(loc) is not None:
            getattr(m, loc)[...] = np.array([[float.fromhex(v) for v in row] for row in d[loc]])
    return m


class Obj:
    pass


def main():
    req = json.load(sys.stdin)
    out = []
    for c in req["cases"]:
        try:
            mesh = Obj()
            mesh.regions = {}
            reg = object.__new__(MeshRegion)
            reg.nx, reg.ny = c["nx"], c["ny"]
            reg.meshParent = mesh
            reg.dx = mla(c["nx"], c["ny"], c["dx"])
            reg.dy = mla(c["nx"], c["ny"], c["dy"])
            reg.f = mla(c["nx"], c["ny"], c["f"])
            reg.connections = {}
            for k, side in enumerate(("inner", "outer", "lower", "upper")):
                nb = c.get(side)
                if nb is None:
                    reg.connections[side] = None
                else:
                    r2 = object.__new__(MeshRegion)
                    r2.nx, r2.ny = nb["nx"], nb["ny"]
                    r2.f = mla(nb["nx"], nb["ny"], nb["f"])
                    mesh.regions[k + 1] = r2
                    reg.connections[side] = k + 1
            res = {}
            for nm, fn in (("DDX", reg.DDX), ("DDY", reg.DDY)):
                r = fn("#f")
                res[nm] = {loc: [[float(v).hex() for v in row] for row in getattr(r, loc)] for loc in LOCS}
            out.append(res)
        except Exception as e:
            out.append(dict(error=repr(e)[:300]))
    print("@@JSON " + json.dumps(out))
    sys.stdout.flush()
    os._exit(0)


if __name__ == "__main__":
    main()
