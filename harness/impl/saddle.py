"""Implementation side of C19's isolated-X-point oracle: the REAL Equilibrium.findSaddlePoint on analytic flux functions with ONE non-degenerate saddle
inside the search box, the box described from each of its corners and rotated (options saddle_point_p1 / saddle_point_p2 of the TORPEX case).
stdin {cases: [{coef, sign, p1, p2}]}; stdout @@JSON [{found: [R, Z]} | {error} | {timeout}]."""
import json
import os
import signal
import sys
import warnings

import numpy as np

warnings.filterwarnings("ignore")
sys.path.insert(0, os.path.dirname(os.path.dirname(os.path.abspath(__file__))))
from hypnotoad.core.equilibrium import Equilibrium, Point2D  # noqa: E402


class Eq(Equilibrium):
    def __init__(self, coef, sign, x0):
        self.user_options = Equilibrium.user_options_factory.create({})
        super().__init__({})
        self.coef, self.sign, self.x0 = coef, sign, x0

    def psi(self, R, Z):
        a, b, c, d, e, f = self.coef
        x, y = R - self.x0[0], Z - self.x0[1]
        return self.sign * (a * x * x - b * y * y + c * x * y + d * x ** 3 + e * x * y * y + f * y ** 3)


class Timeout(Exception):
    pass


def alarm(*a):
    raise Timeout()


def main():
    req = json.load(sys.stdin)
    signal.signal(signal.SIGALRM, alarm)
    out = []
    for c in req["cases"]:
        eq = Eq(c["coef"], c["sign"], c["x0"])
        signal.alarm(int(req.get("limit", 15)))
        try:
            p = eq.findSaddlePoint(Point2D(*c["p1"]), Point2D(*c["p2"]))
            out.append(dict(found=[float(p.R), float(p.Z)]))
        except Timeout:
            out.append(dict(timeout=True))
        except Exception as e:
            out.append(dict(error=type(e).__name__ + ": " + str(e)[:200]))
        finally:
            signal.alarm(0)
    print("@@JSON " + json.dumps(out))
    sys.stdout.flush()
    os._exit(0)


if __name__ == "__main__":
    main()
