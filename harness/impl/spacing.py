"""Implementation side of C10: call the REAL spacing-function constructors of an EquilibriumRegion (from a real TokamakEquilibrium) with given
parameters and evaluate the returned functions; exercise the run-time guard _checkMonotonic."""
import json
import os
import sys
import warnings

import numpy as np

sys.path.insert(0, os.path.dirname(os.path.abspath(__file__)))
sys.path.insert(0, os.path.dirname(os.path.dirname(os.path.abspath(__file__))))
warnings.filterwarnings("ignore")
import grid as G  # noqa: E402


def main():
    req = json.load(sys.stdin)
    eq, options, inputs = G.build_tokamak(req["cfg"])
    reg = next(iter(eq.regions.values()))
    out = []
    for c in req["cases"]:
        idx = np.array(c["indices"], dtype=float)
        try:
            if c["kind"] == "sqrt":
                f = reg.getSqrtPoloidalDistanceFunc(c["L"], c["N"], c["Nn"], b_lower=c.get("b_lower"), a_lower=c.get("a_lower"), b_upper=c.get("b_upper"), a_upper=c.get("a_upper"))
            elif c["kind"] == "monotonic":
                f = reg.getMonotonicPoloidalDistanceFunc(c["L"], c["N"], c["Nn"], d_lower=c["d_lower"], d_upper=c["d_upper"])
            elif c["kind"] == "linear":
                f = reg.getLinearPoloidalDistanceFunc(c["L"], c["N"])
            with np.errstate(all="ignore"):
                v = np.asarray(f(idx), dtype=float)
                h = 1e-3
                fine = np.asarray(f(np.array([0.0, h, 2 * h, c["N"] - 2 * h, c["N"] - h, float(c["N"])])), dtype=float)
                h2 = 1e-2
                around = np.asarray(f(np.array([k * h2 for k in (-3, -2, -1, 0, 1, 2, 3)] + [c["N"] + k * h2 for k in (-3, -2, -1, 0, 1, 2, 3)])), dtype=float)
            out.append(dict(values=[None if not np.isfinite(x) else float(x) for x in v], fine=[None if not np.isfinite(x) else float(x) for x in fine],
                            around=[None if not np.isfinite(x) else float(x) for x in around]))
        except Exception as e:
            out.append(dict(error=type(e).__name__ + ": " + str(e)[:200]))
    # the guard: a function that decreases somewhere on the index range of the region must be refused
    guard = {}
    n = 2 * reg.ny_noguards + 1
    for name, fn in (("increasing", lambda i: 0.1 * i), ("flat-step", lambda i: np.where(i < 3, 0.1 * i, np.where(i < 4, 0.3, 0.1 * (i - 1)))),
                     ("decreasing-step", lambda i: np.where(i < 3, 0.1 * i, 0.1 * i - 0.15)), ("decreasing-in-upper-guards", lambda i: np.where(i <= n - 1, 0.1 * i, 0.1 * (n - 1) - 0.01 * (i - n + 1)))):
        try:
            import matplotlib
            matplotlib.use("Agg")
            reg._checkMonotonic([(fn, name)], total_distance=1.0)
            guard[name] = "accepted"
        except ValueError:
            guard[name] = "refused"
        except Exception as e:
            guard[name] = "error " + repr(e)[:100]
    print("@@JSON " + json.dumps(dict(cases=out, guard=guard, extend=[reg.extend_lower, reg.extend_upper], ny_noguards=reg.ny_noguards)))
    sys.stdout.flush()
    os._exit(0)


if __name__ == "__main__":
    main()
