"""Implementation side of C01's refinement correspondence: the REAL PsiContour.refinePointNewton / refinePoint / getRefined
run on polynomial flux functions psi(R, Z) = a R R + b Z Z + c R Z + d R + e Z (evaluated in numpy.float64 in exactly this
association, so that theories/Model_Refine.v instantiated with PrimFloat reproduces every bit).  The integrate / line-search
primitives are scripted (fixed outcome) where a case says so: they are contracts of the model, not modelled.
stdin: {cases: [...]}; stdout: @@JSON [outcome per case]; floats travel as float.hex() strings."""
import json
import os
import sys
import warnings

import numpy as np

warnings.filterwarnings("ignore")
np.seterr(all="ignore")
sys.path.insert(0, os.path.dirname(os.path.dirname(os.path.abspath(__file__))))
from hypnotoad.core.equilibrium import FineContour, Point2D, PsiContour, SolutionError  # noqa: E402

F = np.float64


def fh(x):
    return float.fromhex(x)


def mkpsi(coef):
    a, b, c, d, e = (F(fh(x)) for x in coef)

    def psi(R, Z):
        R = F(R)
        Z = F(Z)
        return a * R * R + b * Z * Z + c * R * Z + d * R + e * Z

    return psi


def outp(p):
    return ["done", float(p.R).hex(), float(p.Z).hex()]


def scripted(spec):
    def m(p, tangent, *, psi, width, atol):
        if spec[0] == "fail":
            raise SolutionError("scripted failure")
        return Point2D(F(fh(spec[1])), F(fh(spec[2])))
    return m


def contour(points, psival, settings=None):
    c = PsiContour(points=points, psival=psival, settings=settings or {}, Rrange=None, Zrange=None)
    return c


def run_case(c):
    psi = mkpsi(c["coef"])
    psival = F(fh(c["psival"]))
    atol = F(fh(c["atol"]))
    width = 0.1
    if c["kind"] == "newton":
        ct = contour([Point2D(0.0, 0.0), Point2D(1.0, 0.0)], psival)
        p = Point2D(F(fh(c["p"][0])), F(fh(c["p"][1])))
        t = Point2D(F(fh(c["t"][0])), F(fh(c["t"][1])))
        try:
            return outp(ct.refinePointNewton(p, t, psi=psi, width=width, atol=atol))
        except SolutionError:
            return ["fail"]
    if c["kind"] == "point":
        ct = contour([Point2D(0.0, 0.0), Point2D(1.0, 0.0)], psival)
        ct.refinePointIntegrate = scripted(c["integrate"])
        ct.refinePointLinesearch = scripted(c["line"])
        p = Point2D(F(fh(c["p"][0])), F(fh(c["p"][1])))
        t = Point2D(F(fh(c["t"][0])), F(fh(c["t"][1])))
        try:
            return outp(ct.refinePoint(p, t, psi=psi, width=width, atol=atol, methods=c["methods"]))
        except SolutionError:
            return ["fail"]
    if c["kind"] == "contour":
        pts = [Point2D(F(fh(a)), F(fh(b))) for a, b in c["pts"]]
        ct = contour(pts, psival, settings={"refine_methods": c["methods"], "refine_atol": float(atol), "refine_width": width})
        ct.startInd = c["si"]
        ct.endInd = c["ei"]
        try:
            new = ct.getRefined(skip_endpoints=c["skip"], psi=psi)
            return ["done", [[float(q.R).hex(), float(q.Z).hex()] for q in new.points], int(new.startInd), int(new.endInd)]
        except SolutionError:
            return ["fail"]
        except IndexError:
            return ["fail"]
    if c["kind"] == "fine":
        # FineContour.refine: the same tangents / skip_endpoints logic on the positions array, every point refined by the PARENT contour's refinePoint
        pts = [Point2D(F(fh(a)), F(fh(b))) for a, b in c["pts"]]
        parent = contour([Point2D(0.0, 0.0), Point2D(1.0, 0.0)], psival, settings={"refine_methods": c["methods"], "refine_atol": float(atol), "refine_width": width})
        fc = object.__new__(FineContour)
        fc.positions = np.array([[float(q.R), float(q.Z)] for q in pts])
        fc.startInd, fc.endInd = c["si"], c["ei"]
        fc.parentContour = parent

        class UO:
            refine_timeout = None
        fc.user_options = UO()
        try:
            fc.refine(psi=psi, skip_endpoints=c["skip"])
            return ["done", [[float(a).hex(), float(b).hex()] for a, b in fc.positions], int(fc.startInd), int(fc.endInd)]
        except SolutionError:
            return ["fail"]
        except IndexError:
            return ["fail"]
    if c["kind"] == "integrate_direct":
        # the REAL refinePointIntegrate (solve_ivp): a contract of the model -- it must move the point TOWARDS the surface from either side
        ct = contour([Point2D(0.0, 0.0), Point2D(1.0, 0.0)], psival)
        p = Point2D(F(fh(c["p"][0])), F(fh(c["p"][1])))
        t = Point2D(F(fh(c["t"][0])), F(fh(c["t"][1])))
        try:
            q = ct.refinePointIntegrate(p, t, psi=psi, width=width, atol=atol)
            return ["done", float(q.R).hex(), float(q.Z).hex(), float(psi(p.R, p.Z)).hex(), float(psi(q.R, q.Z)).hex()]
        except SolutionError:
            return ["fail"]
    raise ValueError(c["kind"])


def main():
    req = json.load(sys.stdin)
    out = []
    for c in req["cases"]:
        try:
            out.append(run_case(c))
        except Exception as e:  # anything else is reported, never swallowed
            out.append(["error", repr(e)[:300]])
    print("@@JSON " + json.dumps(out))
    sys.stdout.flush()
    os._exit(0)


if __name__ == "__main__":
    main()
