"""Implementation side of C12 (API level): BoutMesh built with options that differ from those the equilibrium was created with must be refused."""
import json
import os
import sys
import warnings

sys.path.insert(0, os.path.dirname(os.path.abspath(__file__)))
sys.path.insert(0, os.path.dirname(os.path.dirname(os.path.abspath(__file__))))
warnings.filterwarnings("ignore")
import grid as G  # noqa: E402


def main():
    req = json.load(sys.stdin)
    from hypnotoad.core.mesh import Mesh
    eq, options, inputs = G.build_tokamak(req["cfg"])
    out = {}

    class OnlyInit(Mesh):
        """Mesh.__init__ up to the consistency check (building the regions is not needed for this test)"""

    def attempt(opts):
        try:
            m = object.__new__(Mesh)
            try:
                Mesh.__init__(m, eq, opts)
                return "accepted"
            except ValueError as e:
                if "has been changed since equilibrium was created" in str(e):
                    return "refused: " + str(e)[:80]
                return "accepted (later error: " + str(e)[:60] + ")"
        except Exception as e:
            return "accepted (later error: " + type(e).__name__ + ")"
    out["same"] = attempt(dict(options))
    for k, v in (("orthogonal", False), ("y_boundary_guards", 0), ("finecontour_Nfine", 50), ("psinorm_sol", 1.15), ("nx_core", 5)):
        o = dict(options)
        o[k] = v
        out[f"changed:{k}"] = attempt(o)
    # an option the equilibrium was created with (at a non-default value) but that is OMITTED from the mesh's settings: the mesh would silently use its default
    for k in ("y_boundary_guards",):
        o = {kk: vv for kk, vv in options.items() if kk != k}
        out[f"changed:omitted:{k}"] = attempt(o)
    print("@@JSON " + json.dumps(out))
    sys.stdout.flush()
    os._exit(0)


if __name__ == "__main__":
    main()
