"""Implementation side of C15: one real non-orthogonal BoutMesh, a history of redistributePoints / calculateRZ / geometry calls,
snapshots of what the mesh shows.   stdin: {"cfg": <corpus config>, "history": [op, ...]}   op = {"op": "redistribute", "settings": {...},
"partial": bool} | {"op": "calculateRZ"} | {"op": "geometry"} | {"op": "observe", "label": str}   (observe = geometry() + dump)"""
import json
import os
import pickle
import sys
import warnings

import numpy as np

sys.path.insert(0, os.path.dirname(os.path.abspath(__file__)))
sys.path.insert(0, os.path.dirname(os.path.dirname(os.path.abspath(__file__))))
warnings.filterwarnings("ignore")
import grid as G  # noqa: E402

FIELDS = ("Rxy", "Zxy", "hy", "g22", "g12", "J", "zShift", "dphidy", "Bpxy", "Brxy", "psixy", "poloidal_distance", "curl_bOverB_y", "g_12")


def snap(mesh):
    out = {}
    for rid, reg in mesh.regions.items():
        d = {}
        for k in FIELDS:
            v = getattr(reg, k, None)
            if v is not None:
                d[k] = G.mla_dict(v)
        d["contours"] = [np.array([[p.R, p.Z] for p in c.points]) for c in reg.contours]
        out[rid] = d
    return out


def main():
    req = json.load(sys.stdin)
    cfg = req["cfg"]
    from hypnotoad.core.mesh import BoutMesh
    eq, options, inputs = G.build_tokamak(cfg)
    mesh = BoutMesh(eq, options)
    res = []
    for k, op in enumerate(req["history"]):
        try:
            if op["op"] == "redistribute":
                st = dict(op["settings"]) if op.get("partial") else dict(options, **op["settings"])
                mesh.redistributePoints(st)
                res.append(dict(op=k, ok=True))
            elif op["op"] == "calculateRZ":
                mesh.calculateRZ()
                res.append(dict(op=k, ok=True))
            elif op["op"] == "geometry":
                mesh.geometry()
                res.append(dict(op=k, ok=True))
            elif op["op"] == "observe":
                mesh.geometry()
                res.append(dict(op=k, ok=True, label=op.get("label"), snap=snap(mesh)))
        except Exception as e:
            res.append(dict(op=k, ok=False, error=repr(e)[:400]))
    with open(req["out"], "wb") as f:
        pickle.dump(res, f, protocol=4)
    print("@@JSON " + json.dumps(dict(done=True, n=len(res))))
    sys.stdout.flush()
    os._exit(0)


if __name__ == "__main__":
    main()
