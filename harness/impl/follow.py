"""Implementation side of C01/C04: (a) the REAL followPerpendicular on a trivial field (psi = R, so the flow is known in
closed form) for many psivals / psi0 combinations; (b) the REAL f_R, f_Z, psi of TokamakEquilibrium objects (make_regions
=False) on sample points of boxes of several aspect ratios."""
import json
import os
import sys
import warnings

import numpy as np

warnings.filterwarnings("ignore")
sys.path.insert(0, os.path.dirname(os.path.dirname(os.path.abspath(__file__))))
from hypnotoad.core.equilibrium import Point2D  # noqa: E402
from hypnotoad.core.mesh import followPerpendicular  # noqa: E402


def follow_cases(cases):
    out = []
    # psi = R^2 + Z^2: grad psi/|grad psi|^2 = (R, Z)/(2 r^2); the flow from p0 is p0 * sqrt(psi/psi0) (curved in psi, so
    # integration tolerances matter)
    f_R = lambda R, Z: R / (2.0 * (R * R + Z * Z))
    f_Z = lambda R, Z: Z / (2.0 * (R * R + Z * Z))
    for c in cases:
        pv = np.array(c["psivals"], dtype=float) if c.get("as_array", True) else list(c["psivals"])
        try:
            pts = followPerpendicular(None, Point2D(c["R0"], c["Z0"]), c["psi0"], f_R=f_R, f_Z=f_Z, psivals=pv, rtol=1e-10, atol=1e-12)
            out.append([[p.R, p.Z] for p in pts])
        except Exception as e:
            out.append({"error": repr(e)[:200]})
    return out


def field_cases(boxes):
    from hypnotoad import tokamak
    out = []
    for b in boxes:
        r1d = np.linspace(b["rmin"], b["rmax"], b["nr"])
        z1d = np.linspace(b["zmin"], b["zmax"], b["nz"])
        r2d, z2d = np.meshgrid(r1d, z1d, indexing="ij")
        rc, zc, w = b["rc"], b["zc"], b["w"]
        psi2d = b["sign"] * (np.exp(-((r2d - rc) ** 2 + (z2d - zc) ** 2) / w**2) + 0.3 * np.exp(-((r2d - rc) ** 2 + (z2d - zc + 1.7 * w) ** 2) / w**2))
        psi1d = np.linspace(psi2d.max(), psi2d.min(), b["nr"])
        try:
            eq = tokamak.TokamakEquilibrium(r1d, z1d, psi2d, psi1d, [], make_regions=False, settings={"psi_interpolation_method": b["method"]})
        except Exception as e:
            out.append({"error": repr(e)[:300]})
            continue
        P = np.array(b["points"])
        R, Z = P[:, 0], P[:, 1]
        out.append(dict(psi=np.asarray(eq.psi(R, Z)).tolist(), f_R=np.asarray(eq.f_R(R, Z)).tolist(), f_Z=np.asarray(eq.f_Z(R, Z)).tolist(),
                        Bp_R=np.asarray(eq.Bp_R(R, Z)).tolist(), Bp_Z=np.asarray(eq.Bp_Z(R, Z)).tolist(), psi2d=psi2d.tolist()))
    return out


def main():
    req = json.load(sys.stdin)
    res = {"follow": follow_cases(req.get("follow", [])), "fields": field_cases(req.get("fields", []))}
    print("@@JSON " + json.dumps(res))
    sys.stdout.flush()
    os._exit(0)


if __name__ == "__main__":
    main()
