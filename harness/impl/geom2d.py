"""Implementation side of C20: run the REAL find_intersections / wallIntersection / polygons / closest_approach
on the cases given on stdin (JSON; coordinates are exact binary fractions)."""
import json
import sys
import types
import warnings

import numpy

warnings.filterwarnings("ignore")
from hypnotoad.core.equilibrium import Equilibrium, Point2D, closest_approach, find_intersections
from hypnotoad.utils import polygons


class MinimalEquilibrium(Equilibrium):
    """as the pinned test suite builds one: options + wall, then the generic Equilibrium.__init__ (which creates closed_wallarray)"""
    def __init__(self, wall):
        self.user_options = Equilibrium.user_options_factory.add(refine_width=1.0e-5, refine_atol=2.0e-8).create({})
        self.wall = wall
        super().__init__({})


def main():
    cases = json.load(sys.stdin)
    out = []
    for c in cases:
        k = c["kind"]
        try:
            if k == "fi":
                w = numpy.array(c["wall"], dtype=float)
                r = find_intersections(w, Point2D(*c["s"]), Point2D(*c["e"]))
                fi = [] if r is None else r.tolist()
                # a real (minimal) Equilibrium built from the OPEN vertex list: its own constructor closes the wall
                eq = MinimalEquilibrium([Point2D(*p) for p in c["wall"][:-1]])
                eq.closed_wall = [Point2D(*p) for p in c["wall"]]
                try:
                    import matplotlib.pyplot as plt
                    plt.show = lambda *a, **k: None
                    p = Equilibrium.wallIntersection(eq, Point2D(*c["s"]), Point2D(*c["e"]))
                    wi = [0, [0.0, 0.0]] if p is None else [1, [p.R, p.Z]]
                except (ValueError, RuntimeError):
                    wi = [2, [0.0, 0.0]]
                out.append({"fi": fi, "wi": wi})
            elif k == "area":
                poly = [tuple(p) for p in c["w"]]
                out.append({"area": polygons.area(poly), "cw": bool(polygons.clockwise(poly))})
            elif k == "poly":
                r1, z1 = [p[0] for p in c["w1"]], [p[1] for p in c["w1"]]
                r2, z2 = [p[0] for p in c["w2"]], [p[1] for p in c["w2"]]
                out.append({"x": bool(polygons.intersect(r1, z1, r2, z2, closed1=c.get("c1", True), closed2=c.get("c2", True)))})
            elif k == "closest":
                d = closest_approach(c["p"], c["a"], c["b"])
                out.append({"d2": float(d) ** 2})
        except Exception as e:  # any other exception is recorded and compared as a disagreement
            out.append({"exception": repr(e)})
    print("@@JSON " + json.dumps(out))


if __name__ == "__main__":
    main()
