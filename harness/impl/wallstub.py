"""Implementation side of C11 (stub level): run the REAL MeshRegion.calcPenaltyMask on a stub region (arbitrary y-face positions) and a stub equilibrium
(arbitrary closed wall, bounding box), and the REAL wall normalisation of TokamakEquilibrium / Equilibrium on arbitrary input walls."""
import json
import os
import sys
import warnings

import numpy as np

warnings.filterwarnings("ignore")
from hypnotoad.core.mesh import MeshRegion  # noqa: E402
from hypnotoad.core.multilocationarray import MultiLocationArray  # noqa: E402
from hypnotoad.utils import polygons  # noqa: E402


class Eq:
    pass


def main():
    req = json.load(sys.stdin)
    out = []
    for c in req["cases"]:
        wall = [tuple(p) for p in c["wall"]]
        # the normalisation exactly as TokamakEquilibrium.__init__ / Equilibrium.__init__ do it (statements checked by translate/wall.py)
        w = wall[::-1] if polygons.clockwise(wall) else wall
        closed = np.array(w + [w[0]], dtype=float)
        eq = Eq()
        eq.closed_wallarray = closed
        eq.Rmin, eq.Rmax, eq.Zmin, eq.Zmax = c["box"]
        reg = object.__new__(MeshRegion)
        F = np.array(c["faces"], dtype=float)          # (nx, ny+1, 2)
        reg.nx, reg.ny = F.shape[0], F.shape[1] - 1
        reg.Rxy = MultiLocationArray(reg.nx, reg.ny)
        reg.Zxy = MultiLocationArray(reg.nx, reg.ny)
        reg.Rxy.ylow = F[:, :, 0]
        reg.Zxy.ylow = F[:, :, 1]
        try:
            MeshRegion.calcPenaltyMask(reg, eq)
            out.append(dict(mask=np.asarray(reg.penalty_mask).tolist(), closed=closed.tolist(), clockwise=bool(polygons.clockwise(wall))))
        except Exception as e:
            out.append(dict(error=repr(e)[:300]))
    print("@@JSON " + json.dumps(out))


if __name__ == "__main__":
    main()
