"""Implementation side of C14.  Modes (argv[1]):
  sideeffects  -- stdin {cases:[{family, sign, options}]}: build TokamakEquilibrium objects in THIS process from caller-owned arrays; report whether the
                  arrays changed and what a second / third construction from the same arrays gives
  roundtrip    -- stdin {family, sign, options, workdir}: write a geqdsk file with hypnotoad's own writer, run the hypnotoad-geqdsk entry point, recreate
                  the inputs from the grid file with hypnotoad-recreate-inputs, run the entry point again on those, run it a third time on the original inputs
  history      -- stdin {cfgs:[cfg,...]}: build the grids one after the other in THIS interpreter; dump positions and metric of each"""
import hashlib
import json
import os
import pickle
import subprocess
import sys
import warnings

import numpy as np

sys.path.insert(0, os.path.dirname(os.path.abspath(__file__)))
sys.path.insert(0, os.path.dirname(os.path.dirname(os.path.abspath(__file__))))
warnings.filterwarnings("ignore")
import analytic  # noqa: E402


def arrays_for(fam, sign, n=65):
    r1d = np.linspace(1.0, 2.0, n)
    z1d = np.linspace(-0.7, 0.7, n)
    r2d, z2d = np.meshgrid(r1d, z1d, indexing="ij")
    psi2d = analytic.psi(fam, r2d, z2d, sign, 1.0)
    psi1d = analytic.psi(fam, np.linspace(analytic.R0, 1.2 * analytic.R0, n), 0.0, sign, 1.0)
    s = (psi1d - psi1d[0]) / (psi1d[-1] - psi1d[0])
    fpol1d = 2.0 + 0.6 * s + 0.3 * s**2
    pressure = 1000.0 * (1.2 - s) ** 2 + 50.0
    return r1d, z1d, psi2d, psi1d, fpol1d, pressure


def digest(a):
    return hashlib.sha256(np.ascontiguousarray(a).tobytes()).hexdigest()[:16]


def sideeffects(req):
    from hypnotoad import tokamak
    out = []
    for c in req["cases"]:
        arrs = arrays_for(c["family"], c["sign"])
        if c.get("extrapolate"):
            # profiles that end with p = 0 at the last point, extrapolated beyond it (psi_sol given as an unnormalised flux, as that branch requires)
            r1d, z1d, psi2d, psi1d, fpol1d, pressure = arrs
            s_ = (psi1d - psi1d[0]) / (psi1d[-1] - psi1d[0])
            pressure = 1000.0 * (1.0 - s_) ** 2
            arrs = (r1d, z1d, psi2d, psi1d, fpol1d, pressure)
            far = float(psi1d[-1] + 0.15 * (psi1d[-1] - psi1d[0]))
            c = dict(c, options=dict(c["options"], extrapolate_profiles=True, psi_sol=far, psi_sol_inner=far))
        names = ("R1D", "Z1D", "psi2D", "psi1D", "fpol1D", "pressure")
        before = [a.copy() for a in arrs]
        wall = [(1.2, -0.5), (1.8, -0.5), (1.8, 0.5), (1.2, 0.5)] if c.get("wall_clockwise_test") else [(1.2, -0.5), (1.2, 0.5), (1.8, 0.5), (1.8, -0.5)]
        wall_before = list(wall)
        res = dict(builds=[])
        for k in range(3):
            try:
                st, nst = dict(c["options"]), dict(c["options"])
                eq = tokamak.TokamakEquilibrium(*arrs[:5], pressure=arrs[5], wall=wall, settings=st, nonorthogonal_settings=nst, make_regions=False)
                if st != c["options"] or nst != c["options"]:
                    res["settings_changed"] = sorted(set(st) ^ set(c["options"]) | set(nst) ^ set(c["options"]) | {k for k in c["options"] if st.get(k) != c["options"][k]})
                res["builds"].append(dict(psi_axis=float(eq.psi_axis), psi_bdry=float(eq.psi_bdry), Bt_axis=float(eq.Bt_axis), psi_at=float(eq.psi(1.6, 0.1)), fpol_at=float(eq.fpol(eq.psi_axis))))
            except Exception as e:
                res["builds"].append(dict(error=type(e).__name__ + ": " + str(e)[:200]))
            if k == 0:
                res["changed"] = {n: float(np.max(np.abs(a - b))) for n, a, b in zip(names, arrs, before) if not np.array_equal(a, b)}
                res["wall_changed"] = wall != wall_before
        out.append(res)
    print("@@JSON " + json.dumps(out))


def run_entry(module, args, cwd):
    env = dict(os.environ)
    env["PYTHONPATH"] = os.environ.get("VERIF_REPO", "/repo")
    env["MPLBACKEND"] = "Agg"
    p = subprocess.run([sys.executable, "-c", f"import sys; sys.argv = {['prog'] + args!r}; from hypnotoad.scripts import {module} as m; m.main()"],
                       cwd=cwd, env=env, stdout=subprocess.PIPE, stderr=subprocess.PIPE, text=True, timeout=1500)
    return p.returncode, p.stdout[-3000:], p.stderr[-3000:]


def run_api(gpath, options, cwd):
    env = dict(os.environ)
    env["PYTHONPATH"] = os.environ.get("VERIF_REPO", "/repo")
    env["MPLBACKEND"] = "Agg"
    prog = ("import json, sys\nfrom hypnotoad.cases import tokamak\nfrom hypnotoad.core.mesh import BoutMesh\n"
            f"options = json.loads({json.dumps(json.dumps(options))})\n"
            f"with open({gpath!r}, 'rt') as fh:\n    eq = tokamak.read_geqdsk(fh, settings=options, nonorthogonal_settings=options)\n"
            "mesh = BoutMesh(eq, options)\nmesh.calculateRZ()\nmesh.geometry()\nmesh.writeGridfile('bout.grd.nc')\nimport os\nsys.stdout.flush()\nos._exit(0)\n")
    p = subprocess.run([sys.executable, "-c", prog], cwd=cwd, env=env, stdout=subprocess.PIPE, stderr=subprocess.PIPE, text=True, timeout=1500)
    return p.returncode, p.stdout[-3000:], p.stderr[-3000:]


def read_grid(path):
    from netCDF4 import Dataset
    num, txt = {}, {}
    with Dataset(path) as ds:
        for k, v in ds.variables.items():
            a = v[...]
            if v.dtype is str or (hasattr(a, "dtype") and a.dtype.kind in "SUO"):
                txt[k] = str(a) if v.shape == () else "".join(x.decode() if isinstance(x, bytes) else str(x) for x in np.array(a).ravel())
            else:
                a = np.ma.filled(a.astype(float), np.nan) if hasattr(a, "filled") else np.array(a, dtype=float)
                num[k] = np.array(a)
        attrs = {k: ds.getncattr(k) for k in ds.ncattrs()}
    return num, txt, attrs


def filehistory(req):
    """entry point read_geqdsk on NAMED files in one interpreter: the sequence re-uses one path for different contents (a file edited and re-loaded,
    a scratch name re-used in a scan) and reads one file twice; reports what each resulting equilibrium is"""
    from hypnotoad.geqdsk._geqdsk import write as gwrite
    from hypnotoad.cases import tokamak
    wd = req["workdir"]
    os.makedirs(wd, exist_ok=True)
    out = []
    for step in req["steps"]:
        path = os.path.join(wd, step["file"])
        with open(path, "w") as f:
            gwrite(geqdsk_data(step["family"], step["sign"]), f)
        with open(path, "rt") as f:
            eq = tokamak.read_geqdsk(f, settings=dict(step.get("settings", {})), make_regions=False)
        Rs, Zs = np.meshgrid(np.linspace(1.2, 1.8, 7), np.linspace(-0.5, 0.5, 9))
        out.append(dict(o_point=[float(eq.o_point.R), float(eq.o_point.Z)], x_points=[[float(p.R), float(p.Z)] for p in eq.x_points],
                        psi=[float(v).hex() for v in np.ravel(eq.psi(Rs, Zs))], psi_sep=[float(v) for v in np.ravel(eq.psi_sep)],
                        fpol=[float(eq.fpol(v)).hex() for v in np.linspace(eq.psi_axis, eq.psi_sep[0], 5)], geqdsk_input_digest=digest(np.frombuffer(eq.geqdsk_input.encode(), dtype=np.uint8)) if getattr(eq, "geqdsk_input", None) else None,
                        file_digest=digest(np.frombuffer(open(path).read().encode(), dtype=np.uint8))))
    print("@@JSON " + json.dumps(out))


def geqdsk_data(family, sign):
    r1d, z1d, psi2d, psi1d, fpol1d, pressure = arrays_for(family, sign)
    n = len(r1d)
    import crit
    g, h = crit.analytic_funcs(family, sign)
    cps = crit.find_all(g, h, (1.25, 1.75, -0.45, 0.45), n=10)
    ax = min((p for p in cps if p[2] == "O"), key=lambda p: abs(p[1]))
    pa = float(analytic.psi(family, ax[0], ax[1], sign))
    px = min((float(analytic.psi(family, p[0], p[1], sign)) for p in cps if p[2] == "X"), key=lambda v: abs(v - pa))
    wall = [(1.2, -0.5), (1.2, 0.5), (1.8, 0.5), (1.8, -0.5)]
    return dict(nx=n, ny=n, rdim=1.0, zdim=1.4, rcentr=1.5, rleft=1.0, zmid=0.0, rmagx=ax[0], zmagx=ax[1], simagx=pa, sibdry=px, bcentr=2.0 / 1.5, cpasma=1.0e5,
                fpol=np.linspace(2.0, 2.3, n), pres=1000.0 * np.linspace(1.0, 0.05, n), ffprime=np.zeros(n), pprime=np.zeros(n), psi=psi2d, qpsi=np.linspace(1.0, 4.0, n),
                rbdry=np.array([1.4, 1.6, 1.6, 1.4]), zbdry=np.array([-0.1, -0.1, 0.1, 0.1]), rlim=np.array([w[0] for w in wall]), zlim=np.array([w[1] for w in wall]),
                nbdry=4, nlim=4)


def roundtrip(req):
    import yaml
    from hypnotoad.geqdsk._geqdsk import write as gwrite
    wd = req["workdir"]
    os.makedirs(wd, exist_ok=True)
    r1d, z1d, psi2d, psi1d, fpol1d, pressure = arrays_for(req["family"], req["sign"])
    n = len(r1d)
    import crit
    g, h = crit.analytic_funcs(req["family"], req["sign"])
    cps = crit.find_all(g, h, (1.25, 1.75, -0.45, 0.45), n=10)
    ax = min((p for p in cps if p[2] == "O"), key=lambda p: abs(p[1]))
    pa = float(analytic.psi(req["family"], ax[0], ax[1], req["sign"]))
    px = min((float(analytic.psi(req["family"], p[0], p[1], req["sign"])) for p in cps if p[2] == "X"), key=lambda v: abs(v - pa))
    wall = [(1.2, -0.5), (1.2, 0.5), (1.8, 0.5), (1.8, -0.5)]
    data = dict(nx=n, ny=n, rdim=1.0, zdim=1.4, rcentr=1.5, rleft=1.0, zmid=0.0, rmagx=ax[0], zmagx=ax[1], simagx=pa, sibdry=px, bcentr=2.0 / 1.5, cpasma=1.0e5,
                fpol=np.linspace(2.0, 2.3, n), pres=1000.0 * np.linspace(1.0, 0.05, n), ffprime=np.zeros(n), pprime=np.zeros(n), psi=psi2d, qpsi=np.linspace(1.0, 4.0, n),
                rbdry=np.array([1.4, 1.6, 1.6, 1.4]), zbdry=np.array([-0.1, -0.1, 0.1, 0.1]), rlim=np.array([w[0] for w in wall]), zlim=np.array([w[1] for w in wall]),
                nbdry=4, nlim=4)
    gpath = os.path.join(wd, "input.geqdsk")
    with open(gpath, "w") as f:
        gwrite(data, f)
    ypath = os.path.join(wd, "options.yaml")
    with open(ypath, "w") as f:
        if req.get("raw_yaml") is not None:
            f.write(req["raw_yaml"])
        else:
            yaml.dump(req["options"], f)
    out = dict(steps=[])
    if req.get("only_write"):
        print("@@JSON " + json.dumps(dict(written=gpath)))
        return
    dirs = {}
    for tag in ("A", "A2"):
        d = os.path.join(wd, tag)
        os.makedirs(d, exist_ok=True)
        if req.get("first_via_api"):
            # the Python API / GUI path: the options are a dict in memory (an explicit None is an explicit None), same calls as the script makes
            rc, o, e = run_api(gpath, req["options"], d)
        else:
            rc, o, e = run_entry("hypnotoad_geqdsk", [gpath, ypath], d)
        out["steps"].append(dict(step=f"generate:{tag}", rc=rc, err=e[-600:] if rc else ""))
        dirs[tag] = d
    gA = os.path.join(dirs["A"], "bout.grd.nc")
    if not os.path.exists(gA):
        print("@@JSON " + json.dumps(out))
        return
    d = os.path.join(wd, "R")
    os.makedirs(d, exist_ok=True)
    rc, o, e = run_entry("hypnotoad_recreate_inputs", [gA, "-g", "recreated.geqdsk", "-y", "recreated.yaml"], d)
    out["steps"].append(dict(step="recreate-inputs", rc=rc, err=e[-600:] if rc else ""))
    if rc == 0:
        out["gfile_bytes_equal"] = open(gpath, "rb").read() == open(os.path.join(d, "recreated.geqdsk"), "rb").read()
        ytxt = open(os.path.join(d, "recreated.yaml")).read()
        try:
            y = yaml.safe_load(ytxt)
            out["yaml_loadable"] = True
            out["yaml_keys"] = sorted(y)
            out["yaml_missing_given"] = [k for k in req["options"] if k not in y]
            from hypnotoad.cases import tokamak as _tk
            from hypnotoad.core.mesh import BoutMesh as _BM
            allopts = set(_tk.TokamakEquilibrium.user_options_factory.defaults) | set(_tk.TokamakEquilibrium.nonorthogonal_options_factory.defaults) | set(_BM.user_options_factory.defaults)
            out["yaml_missing_options"] = sorted(allopts - set(y))
            out["yaml_given_values"] = {k: (y.get(k), req["options"][k]) for k in req["options"] if k in y and not (y.get(k) == req["options"][k])}
        except Exception as ex:
            out["yaml_loadable"] = False
            out["yaml_error"] = type(ex).__name__ + ": " + str(ex)[:300]
            out["yaml_head"] = ytxt[:400]
        rc, o, e = run_entry("hypnotoad_geqdsk", ["recreated.geqdsk", "recreated.yaml"], d)
        out["steps"].append(dict(step="generate:from-recreated", rc=rc, err=e[-600:] if rc else ""))
    # compare
    nA, tA, aA = read_grid(gA)
    out["variables"] = sorted(nA) + sorted(tA)
    out["attrs"] = sorted(aA)
    for tag, path in (("A2", os.path.join(dirs["A2"], "bout.grd.nc")), ("R", os.path.join(d, "bout.grd.nc"))):
        if not os.path.exists(path):
            continue
        nB, tB, aB = read_grid(path)
        diff = {}
        for k in nA:
            if k not in nB or nA[k].shape != nB[k].shape:
                diff[k] = "missing-or-shape"
            elif not np.array_equal(nA[k], nB[k], equal_nan=True):
                diff[k] = float(np.nanmax(np.abs(nA[k] - nB[k])))
        tdiff = [k for k in tA if tB.get(k) != tA[k]]
        adiff = [k for k in aA if aB.get(k) != aA[k]]
        out[f"diff:{tag}"] = dict(numeric=diff, text=tdiff, attrs=adiff, extra=[k for k in list(nB) + list(tB) if k not in nA and k not in tA])
    print("@@JSON " + json.dumps(out))


def history(req):
    import grid as G
    from hypnotoad.core.mesh import BoutMesh
    res = []
    for cfg in req["cfgs"]:
        eq, options, inputs = G.build_tokamak(cfg)
        given = dict(options)
        mesh = BoutMesh(eq, options)
        mesh.geometry()
        changed = sorted(set(options) ^ set(given) | {k for k in given if k in options and options[k] != given[k]})
        d = {k: G.mla_dict(mesh.__dict__[k]) for k in ("Rxy", "Zxy", "hy", "g22", "J", "zShift", "Bpxy", "pressure", "curl_bOverB_z") if k in mesh.__dict__}
        # the evaluated option sets (what is embedded in the grid file as hypnotoad_inputs_yaml)
        ev = {}
        for nm, o in (("equilibrium.user_options", eq.user_options), ("equilibrium.nonorthogonal_options", eq.nonorthogonal_options), ("mesh.user_options", mesh.user_options)):
            for k, v in dict(o).items():
                ev[f"{nm}.{k}"] = repr(v)
        d["__options__"] = ev
        d["__settings_dict_changed__"] = changed
        res.append(d)
    with open(req["out"], "wb") as f:
        pickle.dump(res, f, protocol=4)
    print("@@JSON " + json.dumps(dict(done=True)))


if __name__ == "__main__":
    mode = sys.argv[1]
    req = json.load(sys.stdin)
    {"sideeffects": sideeffects, "roundtrip": roundtrip, "history": history, "filehistory": filehistory}[mode](req)
    sys.stdout.flush()
    os._exit(0)
