"""Implementation side of C07's circular-profile oracle: the REAL CircularEquilibrium.q / dqdr / dpsidr_r / d2psidr2_r / psi_r for given q coefficients
at given radii.  stdin {cases: [{coefs, r: [...]}]}; stdout @@JSON [{q, dqdr, dpsidr, d2psidr2, psi}]."""
import json
import os
import sys
import warnings

import numpy as np

warnings.filterwarnings("ignore")
sys.path.insert(0, os.path.dirname(os.path.dirname(os.path.abspath(__file__))))
from hypnotoad.cases.circular import CircularEquilibrium  # noqa: E402


def main():
    req = json.load(sys.stdin)
    out = []
    import io
    import contextlib
    for c in req["cases"]:
        try:
            with contextlib.redirect_stdout(io.StringIO()):
                eq = CircularEquilibrium(dict(number_of_processors=1, nx_core=2, ny_total=4, q_coefficients=c["coefs"]), {})
            rs = np.array(c["r"])
            d = dict(R0=float(eq.user_options.R0), B0=float(eq.user_options.B0))
            for nm in ("q", "dqdr", "dpsidr_r", "d2psidr2_r"):
                d[nm] = [float(getattr(eq, nm)(float(x))) for x in rs]
            out.append(d)
        except Exception as e:
            out.append(dict(error=repr(e)[:300]))
    print("@@JSON " + json.dumps(out))
    sys.stdout.flush()
    os._exit(0)


if __name__ == "__main__":
    main()
