"""Implementation side of C18/C07: evaluate every field function a TokamakEquilibrium exposes (both interpolation methods) at
sample points, with Richardson finite differences of the implementation's own primitives, argument-kind variants and the raw
DCT coefficients (for translation validation)."""
import json
import os
import sys
import warnings

import numpy as np

warnings.filterwarnings("ignore")
from hypnotoad import tokamak  # noqa: E402
from hypnotoad.core.multilocationarray import MultiLocationArray  # noqa: E402


def richardson(f, x, h):
    d1 = (f(x + h) - f(x - h)) / (2 * h)
    d2 = (f(x + h / 2) - f(x - h / 2)) / h
    return (4 * d2 - d1) / 3


def run(b):
    r1d = np.linspace(b["rmin"], b["rmax"], b["nr"])
    z1d = np.linspace(b["zmin"], b["zmax"], b["nz"])
    r2d, z2d = np.meshgrid(r1d, z1d, indexing="ij")
    rc, zc, w, th = b["rc"], b["zc"], b["w"], b.get("tilt", 0.0)
    X = (r2d - rc) * np.cos(th) + (z2d - zc) * np.sin(th)
    Y = -(r2d - rc) * np.sin(th) + (z2d - zc) * np.cos(th)
    psi2d = b["sign"] * np.exp(-(X**2 + (Y / b.get("elong", 1.0)) ** 2) / w**2)
    pa, pe = psi2d.max() if b["sign"] > 0 else psi2d.min(), 0.0
    psi1d = np.linspace(pa, pe, b["nr"])
    s = (psi1d - psi1d[0]) / (psi1d[-1] - psi1d[0])
    fpol1d = 2.0 - 0.8 * s**2 if b.get("fpol", "var") == "var" else np.full(b["nr"], 2.0)
    pressure = 100.0 * (1 - s) ** 2
    eq = tokamak.TokamakEquilibrium(r1d.copy(), z1d.copy(), psi2d.copy(), psi1d.copy(), fpol1d.copy(), pressure=pressure.copy(), make_regions=False,
                                    settings=dict({"psi_interpolation_method": b["method"]}, **b.get("options", {})))
    P = np.array(b["points"])
    R, Z = P[:, 0], P[:, 1]
    names = ["psi", "f_R", "f_Z", "Bp_R", "Bp_Z", "d2psidR2", "d2psidZ2", "d2psidRdZ", "Bzeta", "B2", "dBzetadR", "dBzetadZ", "dBRdR", "dBRdZ", "dBZdR", "dBZdZ",
             "dB2dR", "dB2dZ", "dBdR", "dBdZ"]
    out = {"vals": {n: np.asarray(getattr(eq, n)(R, Z), dtype=float).tolist() for n in names}}
    h = 1e-4 * min(b["rmax"] - b["rmin"], b["zmax"] - b["zmin"])
    fd = {}
    for prim, dR, dZ in (("psi", "dpsidR", "dpsidZ"), ("Bp_R", "dBRdR", "dBRdZ"), ("Bp_Z", "dBZdR", "dBZdZ"), ("Bzeta", "dBzetadR", "dBzetadZ"), ("B2", "dB2dR", "dB2dZ")):
        f = getattr(eq, prim)
        fd[dR] = richardson(lambda x: np.asarray(f(x, Z), dtype=float), R, h).tolist()
        fd[dZ] = richardson(lambda x: np.asarray(f(R, x), dtype=float), Z, h).tolist()
    B = lambda r, z: np.sqrt(np.asarray(eq.B2(r, z), dtype=float))
    fd["dBdR"] = richardson(lambda x: B(x, Z), R, h).tolist()
    fd["dBdZ"] = richardson(lambda x: B(R, x), Z, h).tolist()
    # second derivatives of psi from first-derivative functions psi_R = -R Bp_Z, psi_Z = R Bp_R
    pR = lambda r, z: -r * np.asarray(eq.Bp_Z(r, z), dtype=float)
    pZ = lambda r, z: r * np.asarray(eq.Bp_R(r, z), dtype=float)
    fd["d2psidR2"] = richardson(lambda x: pR(x, Z), R, h).tolist()
    fd["d2psidZ2"] = richardson(lambda x: pZ(R, x), Z, h).tolist()
    fd["d2psidRdZ_a"] = richardson(lambda x: pR(R, x), Z, h).tolist()
    fd["d2psidRdZ_b"] = richardson(lambda x: pZ(x, Z), R, h).tolist()
    out["fd"] = fd
    # profiles
    ps = np.asarray(eq.psi(R, Z), dtype=float)
    hp = 1e-5 * abs(psi1d[-1] - psi1d[0])
    out["fpol"] = np.asarray(eq.fpol(ps), dtype=float).tolist()
    out["fpolprime"] = (np.asarray(eq.fpolprime(ps), dtype=float) * np.ones_like(ps)).tolist()
    out["fpolprime_fd"] = richardson(lambda x: np.asarray(eq.fpol(x), dtype=float), ps, hp).tolist()
    out["f_psi_sign"] = float(eq.f_psi_sign)
    # nodes
    # (the documented option transformations act on the input before it is interpolated)
    o_ = b.get("options", {})
    psi_in = psi2d * (-1.0 if o_.get("reverse_current") else 1.0) / (2.0 * np.pi if o_.get("psi_divide_twopi") else 1.0)
    out["node_err"] = float(np.max(np.abs(np.asarray(eq.psi(r2d, z2d)) - psi_in)))
    out["psi_scale"] = float(np.max(np.abs(psi2d)))
    # argument kinds: scalar, array, MultiLocationArray
    kinds = {}
    LOCS = (("centre", (2, 2)), ("xlow", (3, 2)), ("ylow", (2, 3)), ("corners", (3, 3)))
    SUBSETS = (("centre", "xlow", "ylow", "corners"), ("centre",), ("ylow",), ("xlow",), ("corners",), ("centre", "ylow"), ("centre", "xlow"), ("xlow", "ylow"),
               ("centre", "xlow", "ylow"), ("ylow", "corners"))
    for n in ("psi", "Bp_R", "d2psidRdZ", "dBRdR", "dB2dZ", "dBdR"):
        f = getattr(eq, n)
        arr = np.asarray(f(R, Z), dtype=float)
        sc = np.array([float(f(float(a), float(c))) for a, c in zip(R[:4], Z[:4])])
        worst, worst_at = 0.0, None
        # MultiLocationArray arguments with every location set, and with only some of them set (as the mesh code does for
        # quantities that live at the centre and the y-faces only): every location that IS set must get the function's value
        for sub in SUBSETS:
            m = MultiLocationArray(2, 2)
            mz = MultiLocationArray(2, 2)
            for loc, shp in LOCS:
                if loc in sub:
                    k = int(np.prod(shp))
                    setattr(m, loc, R[:k].reshape(shp).copy())
                    setattr(mz, loc, Z[:k].reshape(shp).copy())
            res = f(m, mz)
            for loc, shp in LOCS:
                if loc in sub:
                    k = int(np.prod(shp))
                    e = float(np.max(np.abs(np.asarray(getattr(res, loc), dtype=float).ravel() - arr[:k])))
                    if not e <= worst:
                        worst, worst_at = (e if e == e else float("inf")), [list(sub), loc]
        kinds[n] = [float(np.max(np.abs(sc - arr[:4]))), worst, worst_at]
    # fpol / fpolprime take psi
    for n in ("fpol", "fpolprime"):
        f = getattr(eq, n)
        arr = np.asarray(f(ps), dtype=float) * np.ones_like(ps)
        worst, worst_at = 0.0, None
        for sub in SUBSETS:
            m = MultiLocationArray(2, 2)
            for loc, shp in LOCS:
                if loc in sub:
                    setattr(m, loc, ps[:int(np.prod(shp))].reshape(shp).copy())
            res = f(m)
            for loc, shp in LOCS:
                if loc in sub:
                    k = int(np.prod(shp))
                    e = float(np.max(np.abs(np.asarray(getattr(res, loc), dtype=float).ravel() * np.ones(k) - arr[:k])))
                    if not e <= worst:
                        worst, worst_at = (e if e == e else float("inf")), [list(sub), loc]
        kinds[n] = [0.0, worst, worst_at]
    out["kinds"] = kinds
    if b["method"] == "dct":
        d = eq._dct
        out["dct"] = dict(psiDCT=np.asarray(d.psiDCT).tolist(), coef_R=np.asarray(d.coef_R).ravel().tolist(), coef_Z=np.asarray(d.coef_Z).ravel().tolist(),
                          dR=float(d.dR), dZ=float(d.dZ), Rmin=float(d.Rmin), Zmin=float(d.Zmin), Rsize=float(d.Rsize), Zsize=float(d.Zsize), nR=int(d.nR), nZ=int(d.nZ),
                          ddR=np.asarray(d.ddR(R[:6], Z[:6])).tolist(), d2dRdZ=np.asarray(d.d2dRdZ(R[:6], Z[:6])).tolist(), call=np.asarray(d(R[:6], Z[:6])).tolist(),
                          d2dZ2=np.asarray(d.d2dZ2(R[:6], Z[:6])).tolist())
    return out


def main():
    req = json.load(sys.stdin)
    res = []
    for b in req["boxes"]:
        try:
            res.append(run(b))
        except Exception as e:
            import traceback
            res.append({"error": repr(e), "tb": traceback.format_exc()[-1200:]})
    print("@@JSON " + json.dumps(res))
    sys.stdout.flush()
    os._exit(0)


if __name__ == "__main__":
    main()
