"""Implementation side of C08: region tables / ordering / region_indices from REAL equilibrium + BoutMesh objects
(Mesh.makeRegions stubbed: no grid is generated), and the real integer ladder of writeGridfile executed on many
size vectors (its statements are taken from the working tree's source and exec'd against a stub `self`)."""
import ast
import json
import os
import sys
import types
import warnings

import numpy as np

warnings.filterwarnings("ignore")
sys.path.insert(0, os.path.dirname(os.path.dirname(os.path.abspath(__file__))))
import analytic  # noqa: E402


def build_eq(family, sign, options):
    from hypnotoad import tokamak
    n = 65
    r1d = np.linspace(1.0, 2.0, n)
    z1d = np.linspace(-0.7, 0.7, n)
    r2d, z2d = np.meshgrid(r1d, z1d, indexing="ij")
    psi2d = analytic.psi(family, r2d, z2d, sign)
    psi1d = analytic.psi(family, np.linspace(analytic.R0, 1.2 * analytic.R0, n), 0.0, sign)
    wall = [(1.2, -0.5), (1.2, 0.5), (1.8, 0.5), (1.8, -0.5)]
    return tokamak.TokamakEquilibrium(r1d, z1d, psi2d, psi1d, [], settings=options, wall=wall)


def describe(eq, options):
    from hypnotoad.core.mesh import BoutMesh, Mesh
    out = {"order": list(eq.regions.keys()), "regions": {}}
    for name, r in eq.regions.items():
        out["regions"][name] = dict(nx=list(map(int, r.nx)), ny_noguards=int(r.ny_noguards), ny=[int(r.ny(i)) for i in range(r.nSegments)],
                                    kind=r.kind, connections=[{k: (list(v) if v is not None else None) for k, v in c.items()} for c in r.connections])
    out["double_null_type"] = getattr(eq, "double_null_type", None)
    orig = Mesh.makeRegions
    Mesh.makeRegions = lambda self, pm: None
    try:
        m = BoutMesh(eq, options)
        out["mesh"] = dict(nx=int(m.nx), ny=int(m.ny), ny_noguards=int(m.ny_noguards), ny_core=int(m.ny_core), dy_scalar=float(m.dy_scalar),
                           x_startinds=list(map(int, m.x_startinds)), y_regions_noguards=list(map(int, m.y_regions_noguards)),
                           region_lookup={f"{k[0]}|{k[1]}": int(v) for k, v in m.region_lookup.items()},
                           connections={int(k): v for k, v in m.connections.items()},
                           region_indices={int(k): [[v[0].start, v[0].stop], [v[1].start, v[1].stop]] for k, v in m.region_indices.items()},
                           sepidx=int(next(iter(eq.regions.values())).separatrix_radial_index))
    finally:
        Mesh.makeRegions = orig
    return out


def run_ladder(src, cases):
    code = compile(src, "<ladder>", "exec")
    out = []
    for c in cases:
        self = types.SimpleNamespace(x_startinds=np.array(c["xs"]), y_regions_noguards=list(c["ys"]), nx=c["nx"], ny=c["ny"], ny_noguards=c["nyng"],
                                     equilibrium=types.SimpleNamespace(double_null_type={0: "connected", 1: "lower", 2: "upper"}[c["dn"]]))
        env = {"self": self, "eq_region0": types.SimpleNamespace(separatrix_radial_index=c["sepidx"])}
        try:
            exec(code, {}, env)
            out.append([int(env[k]) for k in ("ixseps1", "ixseps2", "jyseps1_1", "jyseps2_1", "ny_inner", "jyseps1_2", "jyseps2_2")])
        except Exception as e:
            out.append({"error": type(e).__name__})
    return out


def main():
    req = json.load(sys.stdin)
    res = {"eq": []}
    for e in req.get("eqs", []):
        try:
            eq = build_eq(e["family"], e.get("sign", 1.0), e["options"])
            res["eq"].append(describe(eq, e["options"]))
        except Exception as ex:
            import traceback
            res["eq"].append({"error": repr(ex), "tb": traceback.format_exc()[-1500:]})
    if "ladder_source" in req:
        res["ladder"] = run_ladder(req["ladder_source"], req["ladder_cases"])
    print("@@JSON " + json.dumps(res, default=lambda o: o.item() if hasattr(o, "item") else str(o)))
    sys.stdout.flush()
    os._exit(0)


if __name__ == "__main__":
    main()
