"""Implementation side: build one corpus grid with the REAL hypnotoad from /repo and dump what the
property oracles need.   usage: grid.py <config-json> <outdir>
Writes <outdir>/grid.nc and <outdir>/dump.pkl (plain dict of numpy arrays / lists), or <outdir>/error.txt.
"""
import json
import os
import pickle
import sys
import time
import traceback
import warnings

import numpy as np

sys.path.insert(0, os.path.dirname(os.path.dirname(os.path.abspath(__file__))))
import analytic  # noqa: E402

warnings.filterwarnings("ignore")

LOCS = ("centre", "xlow", "ylow", "corners")


def wall_for(cfg):
    kind = cfg.get("wall", "rect")
    rmin, rmax, zmin, zmax = 1.2, 1.8, -0.5, 0.5
    if kind == "rect":
        w = [(rmin, zmin), (rmin, zmax), (rmax, zmax), (rmax, zmin)]
    elif kind == "high_floor":
        # the floor passes above the lower X-point of the double-null families (Z = -0.30): that X-point is outside the wall
        w = [(rmin, -0.27), (rmin, zmax), (rmax, zmax), (rmax, -0.27)]
    elif kind == "slant":
        # slanted lower and upper targets
        w = [(rmin, zmin + 0.03), (rmin, zmax - 0.02), (rmax, zmax + 0.04), (rmax, zmin - 0.05)]
    elif kind == "steep":
        # the floor is strongly slanted with respect to the flux surfaces of the outer leg: with a fine target spacing some contours of a non-orthogonal
        # grid have to be extended before they reach the wall
        w = [(rmin, -0.3), (rmax, -0.65), (rmax, zmax), (rmin, zmax)]
    elif kind == "steep2":
        # the same at both ends (up-down symmetric)
        w = [(rmin, -0.3), (rmax, -0.65), (rmax, 0.65), (rmin, 0.3)]
    elif kind == "poly":
        w = [(rmin, zmin), (rmin - 0.02, -0.2), (rmin - 0.03, 0.0), (rmin - 0.02, 0.2), (rmin, zmax), (1.4, zmax + 0.01),
             (1.6, zmax + 0.01), (rmax, zmax), (rmax + 0.02, 0.2), (rmax + 0.03, 0.0), (rmax + 0.02, -0.2), (rmax, zmin),
             (1.6, zmin - 0.01), (1.4, zmin - 0.01)]
    else:
        raise ValueError(kind)
    if cfg.get("wall_anticlockwise"):
        w = w[::-1]
    if cfg.get("mirror"):
        w = [(r, -z) for r, z in w]
    return w


def build_tokamak(cfg):
    from hypnotoad import tokamak
    fam, sign, scale = cfg["family"], cfg.get("sign", 1.0), cfg.get("scale", 1.0)
    n = cfg.get("npsi", 65)
    nz = cfg.get("npsi_z", n)
    r1d = np.linspace(1.0, 2.0, n)
    z1d = np.linspace(-0.7, 0.7, nz)
    r2d, z2d = np.meshgrid(r1d, z1d, indexing="ij")
    off = cfg.get("psi_offset", 0.0)
    psi2d = analytic.psi(fam, r2d, z2d, sign, scale) + off
    psi1d = analytic.psi(fam, np.linspace(analytic.R0, 1.2 * analytic.R0, n), 0.0, sign, scale) + off
    options = dict(cfg["options"])
    if cfg.get("profile_grid") == "sep":
        # geqdsk-like profile grid: magnetic axis -> primary separatrix
        import crit
        g, h = crit.analytic_funcs(fam, sign, scale)
        cps = crit.find_all(g, h, (1.25, 1.75, -0.45, 0.45), n=10)
        ax = min((p for p in cps if p[2] == "O"), key=lambda p: abs(p[1]))
        pa = float(analytic.psi(fam, ax[0], ax[1], sign, scale)) + off
        px = min((float(analytic.psi(fam, p[0], p[1], sign, scale)) + off for p in cps if p[2] == "X"), key=lambda v: abs(v - pa))
        psi1d = np.linspace(pa, px, n)
        if "psi_sol_norm" in cfg:
            options["psi_sol"] = options["psi_sol_inner"] = pa + cfg["psi_sol_norm"] * (px - pa)
    fk = cfg.get("fpol", "linear")
    if fk == "none":
        fpol1d = []
    elif fk == "const":
        fpol1d = np.full(n, 2.0)
    else:
        s = (psi1d - psi1d[0]) / (psi1d[-1] - psi1d[0])
        fpol1d = 2.0 + 0.6 * s + 0.3 * s**2
    if cfg.get("fpol_sign", 1.0) < 0 and len(fpol1d):
        fpol1d = -np.asarray(fpol1d)
    pressure = None
    if cfg.get("pressure", True):
        s = (psi1d - psi1d[0]) / (psi1d[-1] - psi1d[0])
        pressure = 1000.0 * (1.2 - s) ** 2 + 50.0
    eq = tokamak.TokamakEquilibrium(r1d.copy(), z1d.copy(), psi2d.copy(), psi1d.copy(), np.array(fpol1d, dtype=float).copy(),
                                    pressure=None if pressure is None else pressure.copy(),
                                    settings=options, nonorthogonal_settings=options, wall=wall_for(cfg))
    inputs = dict(r1d=r1d, z1d=z1d, psi2d=psi2d, psi1d=psi1d, fpol1d=np.array(fpol1d, dtype=float), pressure=pressure)
    return eq, options, inputs


def build_circular(cfg):
    from hypnotoad.cases.circular import CircularEquilibrium
    options = dict(cfg["options"])
    eq = CircularEquilibrium(settings=options, nonorthogonal_settings=options)
    return eq, options, {}


def mla_dict(m):
    out = {}
    for loc in LOCS:
        a = getattr(m, f"_{loc}_array")
        if a is not None:
            out[loc] = np.array(a)
    return out


def dump_contour(c, psi):
    pts = np.array([[p.R, p.Z] for p in c.points])
    d = dict(points=pts, startInd=c.startInd, endInd=c.endInd, psival=c.psival,
             extend_lower=c.extend_lower, extend_upper=c.extend_upper)
    try:
        d["distance"] = np.array(c.get_distance(psi=psi))
    except Exception as e:  # pragma: no cover
        d["distance_error"] = repr(e)
    fc = c._fine_contour
    if fc is not None:
        d["fine"] = dict(positions=np.array(fc.positions), distance=np.array(fc.distance), startInd=fc.startInd, endInd=fc.endInd,
                         extend_lower_fine=fc.extend_lower_fine, extend_upper_fine=fc.extend_upper_fine)
    return d


def main():
    cfg = json.loads(sys.argv[1]) if not os.path.exists(sys.argv[1]) else json.load(open(sys.argv[1]))
    outdir = sys.argv[2]
    os.makedirs(outdir, exist_ok=True)
    t0 = time.time()
    try:
        from hypnotoad.core.mesh import BoutMesh
        from hypnotoad.core.multilocationarray import MultiLocationArray
        if cfg["kind"] == "tokamak":
            eq, options, inputs = build_tokamak(cfg)
        else:
            eq, options, inputs = build_circular(cfg)
        mesh = BoutMesh(eq, options)
        # interactive history (C15, C03): [geometry();] redistributePoints(settings); calculateRZ()  repeated, as the GUI's Regrid button does
        for step in cfg.get("regrid", []):
            if step.get("geometry_before"):
                mesh.geometry()
            st = dict(options)
            st.update(step["settings"])
            mesh.redistributePoints(st)
            if step.get("calculateRZ", True):
                mesh.calculateRZ()
        mesh.geometry()
        gridfile = os.path.join(outdir, "grid.nc")
        if os.path.exists(gridfile):
            os.remove(gridfile)
        mesh.writeGridfile(gridfile)
        D = dict(cfg=cfg, inputs=inputs, build_s=time.time() - t0)
        # ---- equilibrium
        E = {}
        for k in ("psi_axis", "psi_bdry", "psi_bdry_gfile", "psi_axis_gfile", "double_null_type", "psi_sep", "psi_increasing", "f_psi_sign"):
            if hasattr(eq, k):
                v = getattr(eq, k)
                E[k] = v if not isinstance(v, np.ndarray) else np.array(v)
        try:
            E["Bt_axis"] = eq.Bt_axis
        except Exception:
            pass
        if hasattr(eq, "o_point"):
            E["o_point"] = (eq.o_point.R, eq.o_point.Z)
        if hasattr(eq, "x_points"):
            E["x_points"] = [(p.R, p.Z) for p in eq.x_points]
        if hasattr(eq, "wall"):
            E["wall"] = [(p.R, p.Z) for p in eq.wall]
        if hasattr(eq, "closed_wallarray"):
            E["closed_wallarray"] = np.array(eq.closed_wallarray)
        E["user_options"] = {k: (v if isinstance(v, (int, float, str, bool, type(None))) else repr(v)) for k, v in dict(eq.user_options).items()}
        E["regions"] = {}
        for name, r in eq.regions.items():
            E["regions"][name] = dict(
                kind=r.kind, nx=list(r.nx), ny_noguards=r.ny_noguards, nSegments=r.nSegments,
                separatrix_radial_index=r.separatrix_radial_index,
                psi_vals=[np.array(p) for p in r.psi_vals] if hasattr(r, "psi_vals") and r.psi_vals is not None else None,
                connections=[dict(c) for c in r.connections],
                xPointsAtStart=[None if p is None else (p.R, p.Z) for p in r.xPointsAtStart],
                xPointsAtEnd=[None if p is None else (p.R, p.Z) for p in r.xPointsAtEnd],
                points=np.array([[p.R, p.Z] for p in r.points]), startInd=r.startInd, endInd=r.endInd,
            )
        D["eq"] = E
        # ---- mesh
        M = dict(nx=mesh.nx, ny=mesh.ny, ny_noguards=mesh.ny_noguards, ny_core=mesh.ny_core, dy_scalar=mesh.dy_scalar,
                 x_startinds=list(map(int, mesh.x_startinds)), y_regions_noguards=list(mesh.y_regions_noguards),
                 region_lookup={f"{k[0]}|{k[1]}": v for k, v in mesh.region_lookup.items()},
                 connections=mesh.connections,
                 region_indices={k: ((v[0].start, v[0].stop), (v[1].start, v[1].stop)) for k, v in mesh.region_indices.items()},
                 y_groups=[[r.myID for r in g] for g in mesh.y_groups], x_groups=[[r.myID for r in g] for g in mesh.x_groups],
                 user_options={k: (v if isinstance(v, (int, float, str, bool, type(None))) else repr(v)) for k, v in dict(mesh.user_options).items()})
        D["mesh"] = M
        psi = eq.psi
        R = {}
        for rid, reg in mesh.regions.items():
            d = dict(name=reg.name, myID=reg.myID, nx=reg.nx, ny=reg.ny, ny_noguards=reg.ny_noguards, radialIndex=reg.radialIndex,
                     eqname=reg.equilibriumRegion.name, connections=dict(reg.connections), yGroupIndex=reg.yGroupIndex,
                     psi_vals=np.array(reg.psi_vals), bpsign=reg.bpsign,
                     separatrix_radial_index=reg.equilibriumRegion.separatrix_radial_index,
                     xPointsAtStart=[None if p is None else (p.R, p.Z) for p in reg.equilibriumRegion.xPointsAtStart],
                     xPointsAtEnd=[None if p is None else (p.R, p.Z) for p in reg.equilibriumRegion.xPointsAtEnd],
                     eqreg_points=np.array([[p.R, p.Z] for p in reg.equilibriumRegion.points]),
                     eqreg_startInd=reg.equilibriumRegion.startInd, eqreg_endInd=reg.equilibriumRegion.endInd)
            d["contours"] = [dump_contour(c, psi) for c in reg.contours]
            arrays = {}
            for k, v in reg.__dict__.items():
                if isinstance(v, MultiLocationArray):
                    arrays[k] = mla_dict(v)
            d["arrays"] = arrays
            d["penalty_mask"] = np.array(reg.penalty_mask)
            # interpolant evaluated at the grid points of this region (all four locations)
            ev = {}
            for loc in LOCS:
                Rl, Zl = arrays["Rxy"][loc], arrays["Zxy"][loc]
                ev[loc] = dict(psi=np.array(psi(Rl, Zl)), f_R=np.array(eq.f_R(Rl, Zl)), f_Z=np.array(eq.f_Z(Rl, Zl)),
                               Bp_R=np.array(eq.Bp_R(Rl, Zl)), Bp_Z=np.array(eq.Bp_Z(Rl, Zl)), fpol=np.array(eq.fpol(psi(Rl, Zl))) * np.ones_like(Rl),
                               fpolprime=np.array(eq.fpolprime(psi(Rl, Zl))) * np.ones_like(Rl),
                               d2psidR2=np.array(eq.d2psidR2(Rl, Zl)), d2psidZ2=np.array(eq.d2psidZ2(Rl, Zl)), d2psidRdZ=np.array(eq.d2psidRdZ(Rl, Zl)))
            d["interp"] = ev
            R[rid] = d
        D["regions"] = R
        # ---- global arrays as assembled by BoutMesh
        G = {}
        for name in mesh.fields_to_output + mesh.arrayXDirection_to_output:
            G[name] = mla_dict(mesh.__dict__[name])
        G["penalty_mask"] = np.array(mesh.penalty_mask)
        D["global"] = G
        # ---- the file as written
        from netCDF4 import Dataset
        F = {}
        with Dataset(gridfile) as ds:
            for k, v in ds.variables.items():
                try:
                    a = v[...]
                    if hasattr(a, "filled") and a.dtype.kind in "fi":
                        a = a.filled(np.nan) if a.dtype.kind == "f" else np.array(a)
                    if v.dtype is str or getattr(a, "dtype", None) is not None and a.dtype.kind in "SUO":
                        a = str(v[...]) if v.shape == () else "".join(x.decode() if isinstance(x, bytes) else str(x) for x in np.array(a).ravel())
                    F[k] = a
                except Exception as e:
                    F[k] = f"<unreadable {e!r}>"
            F["__attrs__"] = {k: ds.getncattr(k) for k in ds.ncattrs()}
            F["__dims__"] = {k: (v.dimensions, v.shape) for k, v in ds.variables.items()}
        D["file"] = F
        D["total_s"] = time.time() - t0
        with open(os.path.join(outdir, "dump.pkl"), "wb") as f:
            pickle.dump(D, f, protocol=4)
        print("BUILD-OK", cfg.get("name"), round(D["total_s"], 1))
        sys.stdout.flush()
        os._exit(0)   # ParallelMap workers (np > 1) never exit: do not wait for them
    except BaseException:
        with open(os.path.join(outdir, "error.txt"), "w") as f:
            f.write(traceback.format_exc())
        print("BUILD-FAILED", cfg.get("name"))
        traceback.print_exc()
        sys.stdout.flush()
        sys.stderr.flush()
        os._exit(3)


if __name__ == "__main__":
    main()
