"""Implementation side of C19's leg-label oracle: the REAL TokamakEquilibrium.findLegs on flux functions whose separatrix is EXACTLY a pair of straight
lines through the X-point, psi = 10 L1 L2 exp(-r^2/w^2) (L1, L2 linear, vanishing on lines at angles a1, a2), inside a quadrilateral wall one side of which
is inclined -- so the strike points are known in closed form, and legs swept to the same side can land in the opposite order to the one they leave in.
stdin {cases: [{x0, z0, w, a1, a2 (degrees), flip, slope, gap}]}; stdout @@JSON [{inner_end, outer_end, inner_first, outer_first, xpoint, opoint} | {error}]."""
import contextlib
import io
import json
import os
import sys
import warnings

import numpy as np

warnings.filterwarnings("ignore")


def run_case(c):
    from hypnotoad.cases import tokamak
    x0, z0, w, flip = c["x0"], c["z0"], c["w"], c["flip"]
    a1, a2 = np.radians(c["a1"]), np.radians(c["a2"])
    zx = flip * z0

    def psi_func(R, Z):
        x = R - x0
        y = flip * (Z - zx)
        L1 = -np.sin(a1) * x + np.cos(a1) * y
        L2 = -np.sin(a2) * x + np.cos(a2) * y
        return 10.0 * L1 * L2 * np.exp(-(x**2 + y**2) / w**2)

    nx, ny = 73, 97
    Zlo, Zhi = (-0.7, 0.9) if flip > 0 else (-0.9, 0.7)
    r1d = np.linspace(0.9, 1.8, nx)
    z1d = np.linspace(Zlo, Zhi, ny)
    r2d, z2d = np.meshgrid(r1d, z1d, indexing="ij")

    def wall_R(Z):
        return x0 + c["gap"] - c["slope"] * flip * (Z - zx)

    Zbot, Ztop = (-0.6, 0.8) if flip > 0 else (-0.8, 0.6)
    wall = [(1.0, Zbot), (wall_R(Zbot), Zbot), (wall_R(Ztop), Ztop), (1.0, Ztop)]
    with contextlib.redirect_stdout(io.StringIO()):
        eq = tokamak.TokamakEquilibrium(r1d, z1d, psi_func(r2d, z2d), np.linspace(0.0, 1.0, nx), np.linspace(1.0, 1.0, nx), wall=wall, make_regions=False)
        xp = eq.x_points[0]
        legs = eq.findLegs(xp)
    P = lambda p: [float(p.R), float(p.Z)]
    return dict(inner_end=P(legs["inner"][-1]), outer_end=P(legs["outer"][-1]), inner_first=P(legs["inner"][1]), outer_first=P(legs["outer"][1]),
                xpoint=P(xp), opoint=P(eq.o_point), n_xpoints=len(eq.x_points))


def main():
    req = json.load(sys.stdin)
    out = []
    for c in req["cases"]:
        try:
            out.append(run_case(c))
        except Exception as e:
            out.append(dict(error=type(e).__name__ + ": " + str(e)[:300]))
    print("@@JSON " + json.dumps(out))
    sys.stdout.flush()
    os._exit(0)


if __name__ == "__main__":
    main()
