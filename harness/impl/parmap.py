"""Implementation side of C13: drive the REAL hypnotoad.utils.parallel_map.ParallelMap through prescribed
completion orders (tasks block on gate files) and failing positions.  JSON scenarios on stdin."""
import json
import os
import sys
import tempfile
import threading
import time

from hypnotoad.utils.parallel_map import ParallelMap


class FakeEq:
    psi = 1.0
    f_R = 2.0
    f_Z = 3.0


class TaskError(ValueError):
    pass


def make_exception(kind, i):
    """what a failing task raises: a module-level class (picklable by name), a class defined inside a function (as mesh.followPerpendicular's
    MaxIterException: pickle cannot send it between processes), an exception carrying an unpicklable attribute, or one with a required extra argument"""
    if kind == "local-class":
        class LocalError(Exception):
            pass
        return LocalError(f"task {i} failed")
    if kind == "lambda-attribute":
        e = TaskError(f"task {i} failed")
        e.callback = lambda: None
        return e
    if kind == "two-arguments":
        class NeedsTwo(Exception):
            def __init__(self, a, b):
                super().__init__(a)
                self.b = b
        return NeedsTwo(f"task {i} failed", 2)
    if kind == "function-timed-out":
        # what FineContour.refine raises when its wall-clock limit (option refine_timeout) is exceeded: func_timeout's exception derives from BaseException
        import func_timeout
        return func_timeout.FunctionTimedOut(f"task {i} timed out")
    return TaskError(f"task {i} failed")


def task(i, gate_dir, fail, equilibrium=None, psi=None, f_R=None, f_Z=None, scale=1, exc="module-class"):
    gate = os.path.join(gate_dir, f"go_{i}")
    t0 = time.time()
    while not os.path.exists(gate):
        if time.time() - t0 > 30:
            raise RuntimeError("gate timeout")
        time.sleep(0.002)
    open(os.path.join(gate_dir, f"done_{i}"), "w").close()
    if fail:
        raise make_exception(exc, i)
    return [i, i * i * scale, psi]


def wait_for(path, timeout):
    t0 = time.time()
    while not os.path.exists(path):
        if time.time() - t0 > timeout:
            return False
        time.sleep(0.002)
    return True


def one_call(pm, n, order, fail, timeout, exc="module-class"):
    gate_dir = tempfile.mkdtemp(prefix="c13_", dir=os.environ.get("C13_TMP", "/tmp"))
    box = {}

    def call():
        try:
            box["obs"] = ["ok", pm(task, [(i, gate_dir, i in fail) for i in range(n)], scale=3, exc=exc)]
        except BaseException as e:
            box["obs"] = ["exc", type(e).__name__, str(e)]

    th = threading.Thread(target=call, daemon=True)
    th.start()
    for i in order:
        open(os.path.join(gate_dir, f"go_{i}"), "w").close()
        if not wait_for(os.path.join(gate_dir, f"done_{i}"), timeout):
            break
    th.join(timeout)
    for f in os.listdir(gate_dir):
        try:
            os.remove(os.path.join(gate_dir, f))
        except OSError:
            pass
    if th.is_alive():
        # release every gate so that blocked workers can go on, but the call itself is stuck
        return ["timeout"]
    try:
        os.rmdir(gate_dir)
    except OSError:
        pass
    return box.get("obs", ["timeout"])


def main():
    scenarios = json.load(sys.stdin)
    out = []
    for sc in scenarios:
        pm = ParallelMap(sc["np"], equilibrium=FakeEq())
        obs = []
        for call in sc["calls"]:
            o = one_call(pm, call["n"], call["order"], set(call["fail"]), sc.get("timeout", 6), call.get("exc", "module-class"))
            obs.append(o)
            if o == ["timeout"]:
                break
        out.append(obs)
        if pm.workers is not None:
            for w in pm.workers:
                w.terminate()
    print("@@JSON " + json.dumps(out))
    sys.stdout.flush()
    os._exit(0)


if __name__ == "__main__":
    main()
