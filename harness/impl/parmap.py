"""Implementation side of C13: drive the REAL hypnotoad.utils.parallel_map.ParallelMap through prescribed
completion orders (tasks block on gate files) and failing positions.  JSON scenarios on stdin."""
import json
import os
import sys
import tempfile
import threading
import time

from hypnotoad.utils.parallel_map import ParallelMap


class FakeEq:
    psi = 1.0
    f_R = 2.0
    f_Z = 3.0


class TaskError(ValueError):
    pass


def make_exception(kind, i):
    """what a failing task raises: a module-level class (picklable by name), a class defined inside a function (as mesh.followPerpendicular's
    MaxIterException: pickle cannot send it between processes), an exception carrying an unpicklable attribute, or one with a required extra argument"""
    if kind == "local-class":
        class LocalError(Exception):
            pass
        return LocalError(f"task {i} failed")
    if kind == "lambda-attribute":
        e = TaskError(f"task {i} failed")
        e.callback = lambda: None
        return e
    if kind == "two-arguments":
        class NeedsTwo(Exception):
            def __init__(self, a, b):
                super().__init__(a)
                self.b = b
        return NeedsTwo(f"task {i} failed", 2)
    if kind == "function-timed-out":
        # what FineContour.refine raises when its wall-clock limit (option refine_timeout) is exceeded: func_timeout's exception derives from BaseException
        import func_timeout
        return func_timeout.FunctionTimedOut(f"task {i} timed out")
    return TaskError(f"task {i} failed")


def task(i, gate_dir, fail, equilibrium=None, psi=None, f_R=None, f_Z=None, scale=1, exc="module-class"):
    gate = os.path.join(gate_dir, f"go_{i}")
    t0 = time.time()
    while not os.path.exists(gate):
        if time.time() - t0 > 30:
            raise RuntimeError("gate timeout")
        time.sleep(0.002)
    open(os.path.join(gate_dir, f"done_{i}"), "w").close()
    if fail:
        raise make_exception(exc, i)
    return [i, i * i * scale, psi]


def wait_for(path, timeout):
    t0 = time.time()
    while not os.path.exists(path):
        if time.time() - t0 > timeout:
            return False
        time.sleep(0.002)
    return True


def one_call(pm, n, order, fail, timeout, exc="module-class"):
    gate_dir = tempfile.mkdtemp(prefix="c13_", dir=os.environ.get("C13_TMP", "/tmp"))
    box = {}

    def call():
        try:
            box["obs"] = ["ok", pm(task, [(i, gate_dir, i in fail) for i in range(n)], scale=3, exc=exc)]
        except BaseException as e:
            box["obs"] = ["exc", type(e).__name__, str(e)]

    th = threading.Thread(target=call, daemon=True)
    th.start()
    for i in order:
        open(os.path.join(gate_dir, f"go_{i}"), "w").close()
        if not wait_for(os.path.join(gate_dir, f"done_{i}"), timeout):
            break
    th.join(timeout)
    for f in os.listdir(gate_dir):
        try:
            os.remove(os.path.join(gate_dir, f))
        except OSError:
            pass
    if th.is_alive():
        # release every gate so that blocked workers can go on, but the call itself is stuck
        return ["timeout"]
    try:
        os.rmdir(gate_dir)
    except OSError:
        pass
    return box.get("obs", ["timeout"])


def eq_sequence(k, nproc, timeout):
    """several ParallelMap objects one after the other in one interpreter, each for a DIFFERENT equilibrium object created after the previous one was deleted (CPython then
    usually hands out the same address again): what the workers see must be the equilibrium of THEIR ParallelMap"""
    import gc
    obs = []
    last_id = None
    for j in range(k):
        keep = []
        eq = FakeEq()
        if last_id is not None:
            # ask for new objects until the address of the deleted equilibrium comes back (bounded)
            for _ in range(20000):
                if id(eq) == last_id:
                    break
                keep.append(eq)
                eq = FakeEq()
        eq.psi = float(100 + j)
        pm = ParallelMap(nproc, equilibrium=eq)
        o = one_call(pm, 2, [0, 1], set(), timeout)
        obs.append([float(eq.psi), id(eq), o])
        if pm.workers is not None:
            for w in pm.workers:
                w.terminate()
        if j % 2 == 1:
            # ... and the same object changed in place, then handed to a new ParallelMap
            eq.psi = float(200 + j)
            pm2 = ParallelMap(nproc, equilibrium=eq)
            o = one_call(pm2, 2, [0, 1], set(), timeout)
            obs.append([float(eq.psi), id(eq), o])
            if pm2.workers is not None:
                for w in pm2.workers:
                    w.terminate()
            del pm2
        last_id = id(eq)
        del pm, eq, keep
        gc.collect()
    return obs


def main():
    scenarios = json.load(sys.stdin)
    out = []
    for sc in scenarios:
        if sc.get("eq_sequence"):
            out.append(eq_sequence(sc["eq_sequence"], sc["np"], sc.get("timeout", 6)))
            continue
        pm = ParallelMap(sc["np"], equilibrium=FakeEq())
        obs = []
        for call in sc["calls"]:
            o = one_call(pm, call["n"], call["order"], set(call["fail"]), sc.get("timeout", 6), call.get("exc", "module-class"))
            obs.append(o)
            if o == ["timeout"]:
                break
        out.append(obs)
        if pm.workers is not None:
            for w in pm.workers:
                w.terminate()
    print("@@JSON " + json.dumps(out))
    sys.stdout.flush()
    os._exit(0)


if __name__ == "__main__":
    main()
