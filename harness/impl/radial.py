"""Implementation side of C09: the REAL getSmoothMonotonicGridFunc / make1dGrid on parameter sets, and the psi_vals
of real equilibria (region-object level, no mesh)."""
import json
import os
import sys
import types
import warnings

import numpy as np

warnings.filterwarnings("ignore")
sys.path.insert(0, os.path.dirname(os.path.dirname(os.path.abspath(__file__))))
import analytic  # noqa: E402
from hypnotoad.core.equilibrium import Equilibrium  # noqa: E402


def closure(f):
    try:
        return {k: (c.cell_contents if not callable(c.cell_contents) else None) for k, c in zip(f.__code__.co_freevars, f.__closure__ or [])}
    except Exception:
        return {}


def funcs(cases):
    out = []
    stub = types.SimpleNamespace()
    for c in cases:
        n, lo, up, gl, gu = c["n"], c["lower"], c["upper"], c.get("gl"), c.get("gu")
        try:
            f = Equilibrium.getSmoothMonotonicGridFunc(stub, n, lo, up, grad_lower=gl, grad_upper=gu)
        except Exception as e:
            out.append({"error": type(e).__name__ + ": " + str(e)[:100]})
            continue
        xs = [k * 0.5 for k in range(0, 2 * n + 1)]
        h = 1e-4
        cl = {k: float(v) for k, v in closure(f).items() if isinstance(v, (int, float, np.floating))}
        rec = {"x": xs, "f": [float(f(x)) for x in xs], "closure": cl,
               "d_lo": [float(f(0.0)), float(f(h)), float(f(2 * h))], "d_hi": [float(f(n - 2 * h)), float(f(n - h)), float(f(float(n)))]}
        try:
            g = Equilibrium.make1dGrid(stub, n, f)
            rec["grid"] = g.tolist()
        except ValueError as e:
            rec["grid_error"] = str(e)
        # nesting: 2n cells, half the gradient per index
        try:
            f2 = Equilibrium.getSmoothMonotonicGridFunc(stub, 2 * n, lo, up, grad_lower=None if gl is None else gl / 2, grad_upper=None if gu is None else gu / 2)
            rec["f2"] = [float(f2(2 * k)) for k in range(n + 1)]
        except Exception as e:
            rec["f2_error"] = repr(e)
        out.append(rec)
    return out


def sweeps(reqs):
    """continuity in the parameters: the faces of the grid function along a fine geometric sweep of the end-gradient ratio
    r = |grad * n| / |upper - lower| (the quantity psi_spacing_separatrix_multiplier controls), through every branch switch"""
    out = []
    stub = types.SimpleNamespace()
    for q in reqs:
        n, lo, up = q["n"], q["lower"], q["upper"]
        D = up - lo
        rows, errs = [], 0
        for r in q["ratios"]:
            g = r * D / n
            gl = g * q.get("lower_factor", 1.0) if q["which"] in ("lower", "both") else None
            gu = g if q["which"] in ("upper", "both") else None
            try:
                f = Equilibrium.getSmoothMonotonicGridFunc(stub, n, lo, up, grad_lower=gl, grad_upper=gu)
                rows.append([float(f(0.5 * k)) for k in range(0, 2 * n + 1)])
            except Exception:
                rows.append(None)
                errs += 1
        out.append(dict(rows=rows, errors=errs))
    return out


def eqs(reqs):
    from hypnotoad import tokamak
    out = []
    for q in reqs:
        n = 65
        r1d = np.linspace(1.0, 2.0, n)
        z1d = np.linspace(-0.7, 0.7, n)
        r2d, z2d = np.meshgrid(r1d, z1d, indexing="ij")
        psi2d = analytic.psi(q["family"], r2d, z2d, q.get("sign", 1.0))
        psi1d = analytic.psi(q["family"], np.linspace(analytic.R0, 1.2 * analytic.R0, n), 0.0, q.get("sign", 1.0))
        wall = [(1.2, -0.5), (1.2, 0.5), (1.8, 0.5), (1.8, -0.5)]
        try:
            eq = tokamak.TokamakEquilibrium(r1d, z1d, psi2d, psi1d, [], settings=q["options"], wall=wall)
        except Exception as e:
            out.append({"error": type(e).__name__ + ": " + str(e)[:200]})
            continue
        d = {"regions": {}, "psi_sep": [float(x) for x in eq.psi_sep], "psi_axis": float(eq.psi_axis)}
        for k in ("psi_core", "psi_sol", "psi_sol_inner", "psi_pf_lower", "psi_pf_upper"):
            d[k] = float(getattr(eq, k))
        for name, r in eq.regions.items():
            d["regions"][name] = dict(kind=r.kind, nx=list(map(int, r.nx)), psi_vals=[np.asarray(p).tolist() for p in r.psi_vals],
                                      connections=[{k: (list(v) if v is not None else None) for k, v in c.items()} for c in r.connections])
        out.append(d)
    return out


def grid1d(cases):
    """the REAL make1dGrid on given face values (hex floats): the grid, or the refusal"""
    out = []
    stub = types.SimpleNamespace()
    for faces in cases:
        fv = [float.fromhex(x) for x in faces]
        try:
            g = Equilibrium.make1dGrid(stub, len(fv) - 1, lambda i: fv[i])
            out.append({"grid": [float(x).hex() for x in g]})
        except ValueError as e:
            out.append({"refused": str(e)})
    return out


def main():
    req = json.load(sys.stdin)
    res = {"funcs": funcs(req.get("funcs", [])), "eqs": eqs(req.get("eqs", [])), "sweeps": sweeps(req.get("sweeps", [])), "grid1d": grid1d(req.get("grid1d", []))}
    print("@@JSON " + json.dumps(res, default=lambda o: o.item() if hasattr(o, "item") else str(o)))
    sys.stdout.flush()
    os._exit(0)


if __name__ == "__main__":
    main()
