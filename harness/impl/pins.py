"""Implementation side of C01's pin oracle: for real TokamakEquilibrium objects (no mesh), every X-point an EquilibriumRegion is told to pin the
corners of a radial boundary to (xPointsAtStart / xPointsAtEnd) together with psi there and the psi values of that radial boundary.
stdin {cfgs: [...]}; stdout @@JSON [{name, regions: [{name, boundaries: [psi...], start: [...], end: [...]}]}]."""
import json
import os
import sys
import warnings

import numpy as np

sys.path.insert(0, os.path.dirname(os.path.abspath(__file__)))
sys.path.insert(0, os.path.dirname(os.path.dirname(os.path.abspath(__file__))))
warnings.filterwarnings("ignore")
import grid as G  # noqa: E402


def main():
    req = json.load(sys.stdin)
    out = []
    for cfg in req["cfgs"]:
        try:
            eq, options, inputs = G.build_tokamak(cfg)
        except Exception as e:
            out.append(dict(name=cfg["name"], error=type(e).__name__ + ": " + str(e)[:200]))
            continue
        regs = []
        for name, reg in eq.regions.items():
            pv = [np.asarray(v, dtype=float) for v in reg.psi_vals]
            # radial boundary k is the first value of segment k (= the last of segment k-1)
            bnd = [float(pv[0][0])] + [float(v[-1]) for v in pv]
            inner = [float(v[0]) for v in pv] + [float(pv[-1][-1])]
            pin = lambda lst: [None if p is None else dict(R=float(p.R), Z=float(p.Z), psi=float(eq.psi(p.R, p.Z))) for p in lst]
            regs.append(dict(name=name, boundaries=bnd, boundaries_from_next=inner, start=pin(reg.xPointsAtStart), end=pin(reg.xPointsAtEnd),
                             scale=float(max(1.0, max(abs(x) for x in bnd)))))
        out.append(dict(name=cfg["name"], double_null_type=getattr(eq, "double_null_type", None), regions=regs))
    print("@@JSON " + json.dumps(out))
    sys.stdout.flush()
    os._exit(0)


if __name__ == "__main__":
    main()
