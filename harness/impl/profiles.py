"""Implementation side of C03 (profile level): build a real TokamakEquilibrium (regions made, no mesh) for an analytic family with
fpol and pressure profiles and report what its regions' pressure closures, fpol, pressure and scalars evaluate to."""
import json
import os
import sys
import warnings

import numpy as np

sys.path.insert(0, os.path.dirname(os.path.dirname(os.path.abspath(__file__))))
import analytic  # noqa: E402

warnings.filterwarnings("ignore")
from hypnotoad import tokamak  # noqa: E402


def inputs_for(c):
    n = c.get("npsi", 65)
    r1d = np.linspace(1.0, 2.0, n)
    z1d = np.linspace(-0.7, 0.7, n)
    r2d, z2d = np.meshgrid(r1d, z1d, indexing="ij")
    psi2d = analytic.psi(c["family"], r2d, z2d, c["sign"], 1.0)
    pa, pe = c["psi_first"], c["psi_last"]
    psi1d = np.linspace(pa, pe, n)
    s = (psi1d - psi1d[0]) / (psi1d[-1] - psi1d[0])
    fpol1d = c.get("fpol_sign", 1.0) * (2.0 + 0.6 * s + 0.3 * s**2)
    pressure = 1000.0 * (1.2 - s) ** 2 + c.get("p_edge", 50.0) - 40.0
    if c.get("reverse_order"):
        # the same profiles listed from the edge to the axis (legal: the arrays only have to be monotone in psi)
        psi1d, fpol1d, pressure = psi1d[::-1].copy(), fpol1d[::-1].copy(), pressure[::-1].copy()
    return r1d, z1d, psi2d, psi1d, fpol1d, pressure


def run(c):
    r1d, z1d, psi2d, psi1d, fpol1d, pressure = inputs_for(c)
    keep = [a.copy() for a in (r1d, z1d, psi2d, psi1d, fpol1d, pressure)]
    try:
        eq = tokamak.TokamakEquilibrium(r1d, z1d, psi2d, psi1d, fpol1d, pressure=pressure, settings=dict(c["options"]), nonorthogonal_settings=dict(c["options"]),
                                        wall=[(1.2, -0.5), (1.2, 0.5), (1.8, 0.5), (1.8, -0.5)])
    except Exception as e:
        return dict(error=repr(e)[:500])
    out = dict(psi_axis=float(eq.psi_axis), psi_bdry=float(eq.psi_bdry), psi_sep=[float(p) for p in eq.psi_sep], o_point=[eq.o_point.R, eq.o_point.Z],
               x_points=[[p.R, p.Z] for p in eq.x_points], Bt_axis=float(eq.Bt_axis), f_psi_sign=float(eq.f_psi_sign),
               psi_sol=float(eq.user_options.psi_sol) if getattr(eq.user_options, "psi_sol", None) is not None else None)
    out["inputs"] = dict(r1d=keep[0].tolist(), z1d=keep[1].tolist(), psi1d=keep[3].tolist(), fpol1d=keep[4].tolist(), pressure=keep[5].tolist())
    sweep = np.array(c["sweep"])
    out["eq_pressure"] = np.asarray(eq.pressure(sweep), dtype=float).tolist()
    out["eq_fpol"] = np.asarray(eq.fpol(sweep), dtype=float).tolist()
    P = np.array(c["points"])
    out["eq_psi"] = np.asarray(eq.psi(P[:, 0], P[:, 1]), dtype=float).tolist()
    regs = {}
    for name, r in eq.regions.items():
        xs = [[p.R, p.Z] for p in list(r.xPointsAtStart) + list(r.xPointsAtEnd) if p is not None]
        d = dict(kind=r.kind, xpoints=xs, has_pressure=hasattr(r, "pressure"))
        if hasattr(r, "pressure"):
            d["pressure"] = np.asarray(r.pressure(sweep), dtype=float).tolist()
        regs[name] = d
    out["regions"] = regs
    return out


def main():
    req = json.load(sys.stdin)
    res = [run(c) for c in req["cases"]]
    print("@@JSON " + json.dumps(res))


if __name__ == "__main__":
    main()
